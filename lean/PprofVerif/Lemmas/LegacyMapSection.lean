import PprofVerif.Lemmas.LegacyMap
/-!
Helper lemmas for C14: a whole memory-map section — glog prefixes (`removeLoggingInfo`),
attribute lines and `$name` references (`strings.Replacer`), `parseProcMaps` of a printed section.
-/
namespace PV.Legacy
open PV

theorem splitEq_append (k v : Str) (h : ∀ b ∈ k, b.toNat ≠ 61) : splitEq (k ++ 61 :: v) = some (k, v) := by
  induction k with
  | nil => simp [splitEq]
  | cons b k ih =>
    have hb : b.toNat ≠ 61 := h b (by simp)
    simp only [List.cons_append, splitEq, beq_iff_eq, hb, if_false]
    rw [ih (fun x hx => h x (by simp [hx]))]; rfl

theorem splitEq_none (s : Str) (h : ∀ b ∈ s, b.toNat ≠ 61) : splitEq s = none := by
  induction s with
  | nil => rfl
  | cons b s ih =>
    have hb : b.toNat ≠ 61 := h b (by simp)
    simp only [splitEq, beq_iff_eq, hb, if_false]
    rw [ih (fun x hx => h x (by simp [hx]))]; rfl

/-! ### plain bytes: no `$`, no bracket -/
/-- bytes that neither the replacer nor the glog-prefix scanner reacts to -/
def Plain (l : Str) : Prop := ∀ b ∈ l, b ≠ 36 ∧ isBracket b = false

instance (l : Str) : Decidable (Plain l) := by unfold Plain; infer_instance

theorem Plain_nil : Plain [] := by intro b hb; cases hb
theorem Plain_append {a b : Str} (ha : Plain a) (hb : Plain b) : Plain (a ++ b) := by
  intro x hx; rcases List.mem_append.1 hx with h | h
  · exact ha x h
  · exact hb x h
theorem Plain_append_iff (a b : Str) : Plain (a ++ b) ↔ Plain a ∧ Plain b :=
  ⟨fun h => ⟨fun x hx => h x (by simp [hx]), fun x hx => h x (by simp [hx])⟩, fun h => Plain_append h.1 h.2⟩
theorem Plain_cons_iff (c : UInt8) (l : Str) : Plain (c :: l) ↔ (c ≠ 36 ∧ isBracket c = false) ∧ Plain l :=
  ⟨fun h => ⟨h c (by simp), fun x hx => h x (by simp [hx])⟩, fun h x hx => by
    rcases List.mem_cons.1 hx with rfl | hx
    · exact h.1
    · exact h.2 x hx⟩

theorem plain_of_isXDigit {b : UInt8} (h : isXDigit b = true) : b ≠ 36 ∧ isBracket b = false := by
  simp only [isXDigit, isHexLower, isDigit, Bool.or_eq_true, decide_eq_true_eq] at h
  constructor
  · intro e; subst e; revert h; decide
  · simp only [isBracket, Bool.or_eq_false_iff, beq_eq_false_iff_ne]; omega

theorem Plain_of_isXDigit {l : Str} (h : ∀ b ∈ l, isXDigit b = true) : Plain l := fun b hb => plain_of_isXDigit (h b hb)

theorem Plain_sp (n : Nat) : Plain (sp n) := by
  intro b hb; simp only [sp, List.mem_replicate] at hb; rw [hb.2]; decide
theorem Plain_hexPad (w n : Nat) : Plain (hexPad w n) := Plain_of_isXDigit (hexPad_isXDigit w n)
theorem Plain_hex (n : Nat) : Plain (hex n) := Plain_of_isXDigit (hex_isXDigit n)
theorem Plain_dec (n : Nat) : Plain (dec n) :=
  Plain_of_isXDigit (fun b hb => by simp [isXDigit, isHexLower, dec_isDigit n b hb])
theorem Plain_perm (p : Perm) : Plain p.print := by cases p <;> decide
theorem Plain_optField {g : Nat} {o : Option Str} (h : ∀ s, o = some s → Plain s) : Plain (optField g o) := by
  cases o with
  | none => exact Plain_nil
  | some s => exact Plain_append (Plain_sp _) (h s rfl)

theorem Plain_sp_iff (n : Nat) : Plain (sp n) ↔ True := by simp [Plain_sp]
theorem Plain_dec_iff (n : Nat) : Plain (dec n) ↔ True := by simp [Plain_dec]
theorem Plain_hex_iff (n : Nat) : Plain (hex n) ↔ True := by simp [Plain_hex]
theorem Plain_hexPad_iff (w n : Nat) : Plain (hexPad w n) ↔ True := by simp [Plain_hexPad]
theorem Plain_perm_iff (p : Perm) : Plain p.print ↔ True := by simp [Plain_perm]
theorem Plain_nil_iff : Plain [] ↔ True := by simp [Plain_nil]

macro "plain" : tactic =>
  `(tactic| simp only [Plain_append_iff, Plain_cons_iff, Plain_sp_iff, Plain_dec_iff, Plain_hex_iff,
      Plain_hexPad_iff, Plain_perm_iff, Plain_nil_iff, and_true, true_and])

/-! ### the parts of a printed entry around its file field -/
def MapEntry.range (e : MapEntry) : Str :=
  sp e.indent ++ (if e.ox then asc "0x" else []) ++ hexPad e.width e.start ++ [45] ++ (if e.ox then asc "0x" else []) ++ hexPad e.width e.limit

def MapEntry.pre (e : MapEntry) : Str :=
  match e.form with
  | .proc perm off dmaj dmin inode _ =>
    e.range ++ sp (e.gap + 1) ++ perm.print ++ sp (e.gap + 1) ++ hexPad 8 off ++ sp (e.gap + 1) ++
      hexPad 2 dmaj ++ [58] ++ hexPad 2 dmin ++ sp (e.gap + 1) ++ dec inode
  | .brief colon perm _ _ _ => e.range ++ (if colon then [58] else []) ++ optField e.gap (perm.map Perm.print)

def MapEntry.post (e : MapEntry) : Str :=
  match e.form with
  | .proc _ _ _ _ _ _ => []
  | .brief _ _ _ off bid => optField e.gap (off.map fun o => asc "(@" ++ hex o ++ asc ")") ++ optField e.gap bid

theorem MapEntry.print_parts (e : MapEntry) : e.print = e.pre ++ (optField e.gap e.form.file ++ e.post) := by
  obtain ⟨indent, ox, width, start, limit, gap, form⟩ := e
  cases form <;> simp [MapEntry.print, MapEntry.pre, MapEntry.post, MapEntry.range, MapForm.file, List.append_assoc]

theorem MapEntry.withFile_print (e : MapEntry) (f : Str) : (e.withFile f).print = e.pre ++ (sp (e.gap + 1) ++ (f ++ e.post)) := by
  rw [MapEntry.print_parts]
  obtain ⟨indent, ox, width, start, limit, gap, form⟩ := e
  cases form <;> simp [MapEntry.withFile, MapForm.setFile, MapEntry.pre, MapEntry.post, MapEntry.range, MapForm.file, optField, List.append_assoc] <;> rfl

theorem MapEntry.Plain_range (e : MapEntry) : Plain e.range := by
  have hpre : Plain (if e.ox then asc "0x" else []) := by cases e.ox <;> decide
  unfold MapEntry.range
  plain
  exact ⟨⟨hpre, by decide⟩, hpre⟩

theorem MapEntry.Plain_pre (e : MapEntry) : Plain e.pre := by
  have hr := e.Plain_range
  unfold MapEntry.pre
  cases e.form with
  | proc perm off dmaj dmin inode file =>
    simp only []
    plain
    exact ⟨hr, by decide⟩
  | brief colon perm file off bid =>
    simp only []
    have hcolon : Plain (if colon then [58] else []) := by cases colon <;> decide
    have hperm : Plain (optField e.gap (perm.map Perm.print)) := by
      apply Plain_optField
      intro s hs
      cases perm with
      | none => simp at hs
      | some p => simp at hs; subst hs; exact Plain_perm p
    plain
    exact ⟨⟨hr, hcolon⟩, hperm⟩

/-- the build id (brief form) is well-formed -/
def MapEntry.bidOK (e : MapEntry) : Bool :=
  match e.form with
  | .proc _ _ _ _ _ _ => true
  | .brief _ _ _ _ bid => bid.all buildIDOK

theorem MapEntry.Plain_post (e : MapEntry) (hb : e.bidOK = true) : Plain e.post := by
  unfold MapEntry.post
  unfold MapEntry.bidOK at hb
  cases hf : e.form with
  | proc perm off dmaj dmin inode file => exact Plain_nil
  | brief colon perm file off bid =>
    rw [hf] at hb
    simp only [] at hb ⊢
    have hoff : Plain (optField e.gap (off.map fun o => asc "(@" ++ hex o ++ asc ")")) := by
      apply Plain_optField
      intro s hs
      cases off with
      | none => simp at hs
      | some o =>
        simp at hs; subst hs
        have h1 : Plain (asc "(@") := by decide
        have h2 : Plain (asc ")") := by decide
        plain
        exact ⟨h1, h2⟩
    have hbid : Plain (optField e.gap bid) := by
      apply Plain_optField
      intro s hs; subst hs
      exact Plain_of_isXDigit (buildIDOK_isXDigit (by simpa using hb))
    exact Plain_append hoff hbid

theorem MapEntry.post_shape (e : MapEntry) : e.post = [] ∨ ∃ t, e.post = 32 :: t := by
  unfold MapEntry.post
  cases e.form with
  | proc perm off dmaj dmin inode file => exact Or.inl rfl
  | brief colon perm file off bid =>
    simp only []
    cases off with
    | some o => right; exact ⟨_, by simp [optField, sp_succ]; rfl⟩
    | none =>
      cases bid with
      | some s => right; exact ⟨_, by simp [optField, sp_succ]; rfl⟩
      | none => left; simp [optField]

theorem MapEntry.wf_bidOK {e : MapEntry} (h : e.wf = true) : e.bidOK = true := by
  obtain ⟨indent, ox, width, start, limit, gap, form⟩ := e
  cases form with
  | proc => rfl
  | brief colon perm file off bid =>
    simp only [MapEntry.wf, Bool.and_eq_true] at h
    simpa [MapEntry.bidOK] using h.2.1.1.2

theorem MapEntry.withFile_bidOK (e : MapEntry) (f : Str) : (e.withFile f).bidOK = e.bidOK := by
  obtain ⟨indent, ox, width, start, limit, gap, form⟩ := e
  cases form <;> rfl

theorem MapEntry.withFile_wf_file {e : MapEntry} {f : Str} (h : (e.withFile f).wf = true) : fileOK f = true := by
  obtain ⟨indent, ox, width, start, limit, gap, form⟩ := e
  cases form with
  | proc perm off dmaj dmin inode file =>
    simp only [MapEntry.wf, MapEntry.withFile, MapForm.setFile, Bool.and_eq_true, Option.all_some] at h
    exact h.2.2
  | brief colon perm file off bid =>
    simp only [MapEntry.wf, MapEntry.withFile, MapForm.setFile, Bool.and_eq_true, Option.all_some] at h
    exact h.2.1.1.1

/-! ### `removeLoggingInfo` -/
theorem removeLoggingInfo_of_firstBracketOK {l : Str} (h : firstBracketOK l = true) : removeLoggingInfo l = l := by
  unfold removeLoggingInfo
  unfold firstBracketOK at h
  cases hq : l.dropWhile (fun b => !isBracket b) with
  | nil => rfl
  | cons c r =>
    rw [hq] at h
    cases r with
    | nil => rfl
    | cons w tail =>
      have hc : c.toNat = 91 := by simpa using h
      have : (c.toNat == 93) = false := by simp [hc]
      simp [this]

theorem removeLoggingInfo_no_colon {l : Str} (h : (58 : UInt8) ∉ l) : removeLoggingInfo l = l := by
  unfold removeLoggingInfo
  cases l.dropWhile (fun b => !isBracket b) with
  | nil => rfl
  | cons c r =>
    cases r with
    | nil => rfl
    | cons w tail =>
      simp only []
      split
      · cases hq : (l.takeWhile (fun b => !isBracket b)).reverse.dropWhile isDigit with
        | nil => rfl
        | cons k r2 =>
          cases r2 with
          | nil => rfl
          | cons x r3 =>
            have hk : k ∈ l := by
              have h1 : k ∈ (l.takeWhile (fun b => !isBracket b)).reverse.dropWhile isDigit := by rw [hq]; simp
              have h2 := (List.dropWhile_sublist isDigit).subset h1
              exact (List.takeWhile_sublist _).subset (List.mem_reverse.1 h2)
            have : (k.toNat == 58) = false := by
              simp only [beq_eq_false_iff_ne]
              intro e
              have : k = 58 := UInt8.toNat_inj.1 (by simpa using e)
              exact h (this ▸ hk)
            simp [this]
      · rfl

theorem firstBracketOK_of_plain {l : Str} (h : Plain l) : firstBracketOK l = true := by
  unfold firstBracketOK
  have : l.dropWhile (fun b => !isBracket b) = [] := by
    have := dropWhile_append_stops (p := fun b => !isBracket b) (a := l) (r := [])
      (fun b hb => by simp [(h b hb).2]) (by simp)
    simpa using this
  rw [this]

theorem firstBracketOK_append_left {a x : Str} (ha : ∀ b ∈ a, isBracket b = false) : firstBracketOK (a ++ x) = firstBracketOK x := by
  unfold firstBracketOK
  rw [List.dropWhile_append_of_pos (fun b hb => by simp [ha b hb])]

theorem firstBracketOK_append_plain_left {a x : Str} (ha : Plain a) : firstBracketOK (a ++ x) = firstBracketOK x :=
  firstBracketOK_append_left (fun b hb => (ha b hb).2)

theorem firstBracketOK_append_plain_right {x b : Str} (hx : firstBracketOK x = true) (hb : Plain b) :
    firstBracketOK (x ++ b) = true := by
  induction x with
  | nil => simpa using firstBracketOK_of_plain hb
  | cons c x ih =>
    unfold firstBracketOK at hx ⊢
    simp only [List.cons_append, List.dropWhile_cons] at hx ⊢
    cases hc : isBracket c with
    | true => simpa [hc] using hx
    | false =>
      simp only [hc, Bool.not_false, if_true] at hx ⊢
      exact ih hx

theorem LogPrefix.remove (p : LogPrefix) (hp : p.wf = true) (rest : Str) : removeLoggingInfo (p.print ++ rest) = rest := by
  simp only [LogPrefix.wf, Bool.and_eq_true, bne_iff_ne, ne_eq, List.all_eq_true, Bool.not_eq_true'] at hp
  obtain ⟨hne, hall⟩ := hp
  have hnb : ∀ b ∈ p.text ++ 58 :: dec p.line, (!isBracket b) = true := by
    intro b hb
    simp only [List.mem_append, List.mem_cons] at hb
    rcases hb with hb | rfl | hb
    · simp [(hall b hb).2]
    · decide
    · have := dec_isDigit p.line b hb
      simp only [isDigit, decide_eq_true_eq] at this
      simp only [isBracket, Bool.not_eq_true', Bool.or_eq_false_iff, beq_eq_false_iff_ne]; omega
  have e : p.print ++ rest = (p.text ++ 58 :: dec p.line) ++ (93 :: 32 :: rest) := by
    simp [LogPrefix.print, List.append_assoc]
  have hS : Stops (fun b => !isBracket b) (93 :: 32 :: rest) := by simp; decide
  unfold removeLoggingInfo
  rw [e, takeWhile_append_stops hnb hS, dropWhile_append_stops hnb hS]
  simp only []
  have hrev : (p.text ++ 58 :: dec p.line).reverse = (dec p.line).reverse ++ 58 :: p.text.reverse := by simp
  have hd : ∀ b ∈ (dec p.line).reverse, isDigit b = true := fun b hb => dec_isDigit p.line b (List.mem_reverse.1 hb)
  have hS2 : Stops isDigit (58 :: p.text.reverse) := by simp; decide
  rw [hrev, takeWhile_append_stops hd hS2, dropWhile_append_stops hd hS2]
  obtain ⟨x, t, hx⟩ : ∃ x t, p.text.reverse = x :: t := by
    cases hq : p.text.reverse with
    | nil => simp at hq; exact absurd hq hne
    | cons x t => exact ⟨x, t, rfl⟩
  have hdne : (dec p.line).reverse.isEmpty = false := by simp [dec_ne_nil]
  simp [hx, hdne, isReSpace]

/-! ### the replacer -/
def pairsOf (env : MapEnv) : List (Str × Str) := env.map (fun p => (36 :: p.1, p.2))

theorem pairsOf_append (env : MapEnv) (n v : Str) : pairsOf (env ++ [(n, v)]) = pairsOf env ++ [(36 :: n, v)] := by
  simp [pairsOf]

theorem replaceFirst_ne_dollar (env : MapEnv) (c : UInt8) (t : Str) (hc : c ≠ 36) :
    replaceFirst (pairsOf env) (c :: t) = none := by
  induction env with
  | nil => rfl
  | cons p env ih =>
    simp only [pairsOf, List.map_cons, replaceFirst] at ih ⊢
    rw [stripPrefix_cons_ne _ _ (Ne.symm hc)]
    exact ih

theorem replaceAllAux_skip (ps : List (Str × Str)) (X R : Str) : replaceAllAux ps X.length (X ++ R) = replaceAllAux ps 0 R := by
  induction X with
  | nil => rfl
  | cons c X ih => simpa [replaceAllAux] using ih

theorem replaceAllAux_plain (env : MapEnv) (A R : Str) (hA : ∀ b ∈ A, b ≠ (36 : UInt8)) :
    replaceAllAux (pairsOf env) 0 (A ++ R) = A ++ replaceAllAux (pairsOf env) 0 R := by
  induction A with
  | nil => rfl
  | cons c A ih =>
    simp only [List.cons_append, replaceAllAux, replaceFirst_ne_dollar env c _ (hA c (by simp))]
    rw [ih (fun b hb => hA b (by simp [hb]))]

theorem replaceAll_id (env : MapEnv) (A : Str) (hA : ∀ b ∈ A, b ≠ (36 : UInt8)) : replaceAll (pairsOf env) A = A := by
  have := replaceAllAux_plain env A [] hA
  simpa [replaceAll, replaceAllAux] using this

theorem replaceAllAux_key (ps : List (Str × Str)) (c : UInt8) (k v R : Str)
    (h : replaceFirst ps (c :: (k ++ R)) = some (k.length + 1, v)) :
    replaceAllAux ps 0 (c :: (k ++ R)) = v ++ replaceAllAux ps 0 R := by
  simp only [replaceAllAux, h, Nat.add_sub_cancel]
  rw [replaceAllAux_skip]

/-- a name made of word bytes, found as a prefix of `name ++ S` where `S` cannot continue a
name, is a prefix of `name` -/
theorem prefix_of_strip (k name S : Str) (hk : ∀ b ∈ k, isWord b = true)
    (hS : S = [] ∨ ∃ c t, S = c :: t ∧ isWord c = false) (h : (stripPrefix k (name ++ S)).isSome = true) :
    k.isPrefixOf name = true := by
  induction k generalizing name with
  | nil => simp [List.isPrefixOf]
  | cons a k ih =>
    cases name with
    | nil =>
      exfalso
      rcases hS with rfl | ⟨c, t, rfl, hc⟩
      · simp [stripPrefix] at h
      · simp only [List.nil_append, stripPrefix] at h
        by_cases hac : a = c
        · subst hac; rw [hk a (by simp)] at hc; cases hc
        · simp [hac] at h
    | cons n name =>
      simp only [List.cons_append, stripPrefix] at h
      by_cases han : a = n
      · subst han
        simp only [beq_self_eq_true, if_true] at h
        simp [List.isPrefixOf, ih name (fun b hb => hk b (by simp [hb])) h]
      · simp [han] at h

theorem replaceFirst_ref (env : MapEnv) (name S v : Str)
    (hS : S = [] ∨ ∃ c t, S = c :: t ∧ isWord c = false)
    (hw : ∀ p ∈ env, ∀ b ∈ p.1, isWord b = true)
    (hpf : ∀ p ∈ env, p.1.isPrefixOf name = true → p.1 = name)
    (hl : env.lookup name = some v) :
    replaceFirst (pairsOf env) (36 :: (name ++ S)) = some (name.length + 1, v) := by
  induction env with
  | nil => simp [MapEnv.lookup] at hl
  | cons p env ih =>
    obtain ⟨k, vk⟩ := p
    simp only [pairsOf, List.map_cons, replaceFirst, stripPrefix, beq_self_eq_true, if_true]
    by_cases hkn : k = name
    · subst hkn
      rw [stripPrefix_append]
      simp only [MapEnv.lookup, List.find?_cons, beq_self_eq_true, Option.map_some, Option.some.injEq] at hl
      simp [hl]
    · have hnone : stripPrefix k (name ++ S) = none := by
        cases hq : stripPrefix k (name ++ S) with
        | none => rfl
        | some r =>
          exfalso
          have := prefix_of_strip k name S (hw (k, vk) (by simp)) hS (by simp [hq])
          exact hkn (hpf (k, vk) (by simp) this)
      rw [hnone]
      have hl' : MapEnv.lookup env name = some v := by
        have hb : (k == name) = false := by simp [hkn]
        simpa [MapEnv.lookup, List.find?_cons, hb] using hl
      exact ih (fun q hq => hw q (by simp [hq])) (fun q hq => hpf q (by simp [hq])) hl'

/-- invariant of the environment while a well-formed section is read -/
def EnvOK (env : MapEnv) : Prop :=
  (∀ p ∈ env, attrNameOK p.1 = true) ∧ (∀ p ∈ env, ∀ q ∈ env, p.1.isPrefixOf q.1 = true → p.1 = q.1)

theorem EnvOK_nil : EnvOK [] := ⟨by simp, by simp⟩

theorem attrNameOK_word {n : Str} (h : attrNameOK n = true) : ∀ b ∈ n, isWord b = true := by
  simp only [attrNameOK, Bool.and_eq_true, List.all_eq_true] at h
  exact h.1

theorem attrNameOK_head {n : Str} (h : attrNameOK n = true) : ∃ c t, n = c :: t ∧ isXDigit c = false ∧ isWord c = true := by
  cases n with
  | nil => simp [attrNameOK] at h
  | cons c t =>
    simp only [attrNameOK, Bool.and_eq_true, List.all_eq_true, Bool.not_eq_true'] at h
    exact ⟨c, t, rfl, h.2, h.1 c (by simp)⟩

theorem EnvOK_snoc {env : MapEnv} (h : EnvOK env) (n v : Str) (hn : attrNameOK n = true)
    (hpf : env.all (fun p => !(p.1.isPrefixOf n) && !(n.isPrefixOf p.1)) = true) : EnvOK (env ++ [(n, v)]) := by
  simp only [List.all_eq_true, Bool.and_eq_true, Bool.not_eq_true'] at hpf
  constructor
  · intro p hp
    rcases List.mem_append.1 hp with hp | hp
    · exact h.1 p hp
    · simp at hp; subst hp; exact hn
  · intro p hp q hq hpq
    rcases List.mem_append.1 hp with hp | hp <;> rcases List.mem_append.1 hq with hq | hq
    · exact h.2 p hp q hq hpq
    · simp at hq; subst hq; rw [(hpf p hp).1] at hpq; cases hpq
    · simp at hp; subst hp; rw [(hpf q hq).2] at hpq; cases hpq
    · simp at hp hq; subst hp hq; rfl

theorem lookup_mem {env : MapEnv} {name v : Str} (h : env.lookup name = some v) : ∃ p ∈ env, p.1 = name := by
  simp only [MapEnv.lookup, Option.map_eq_some_iff] at h
  obtain ⟨p, hp, _⟩ := h
  exact ⟨p, List.mem_of_find?_eq_some hp, by simpa using List.find?_some hp⟩

/-! ### one line -/
theorem parseProcMapsGo_cons (ps : List (Str × Str)) (l : Str) (r : List Str) :
    parseProcMapsGo ps (l :: r) =
      (match parseMappingEntry (replaceAll ps (removeLoggingInfo l)) with
       | .mapping m => m :: parseProcMapsGo ps r
       | .skip => parseProcMapsGo ps r
       | .unrecognized =>
         match splitEq (replaceAll ps (removeLoggingInfo l)) with
         | some (k, v) => parseProcMapsGo (ps ++ [(36 :: trimSpace k, trimSpace v)]) r
         | none => parseProcMapsGo ps r) := rfl

theorem filler_no_dollar {f : Filler} (h : f.wf = true) : ∀ b ∈ f.print, b ≠ (36 : UInt8) := by
  intro b hb
  unfold Filler.print at hb
  rcases List.mem_append.1 hb with hb | hb
  · rw [List.mem_replicate] at hb; rw [hb.2]; decide
  · cases hc : f.comment with
    | none => simp [hc] at hb
    | some t =>
      simp only [hc, List.mem_cons] at hb
      rcases hb with rfl | hb
      · decide
      · simp only [Filler.wf, hc, commentOK, List.all_eq_true, Bool.and_eq_true, bne_iff_ne, ne_eq] at h
        intro e; subst e; exact (h 36 hb).2 rfl

theorem filler_no_eq {f : Filler} (h : f.wf = true) : ∀ b ∈ f.print, b.toNat ≠ 61 := by
  intro b hb
  unfold Filler.print at hb
  rcases List.mem_append.1 hb with hb | hb
  · rw [List.mem_replicate] at hb; rw [hb.2]; decide
  · cases hc : f.comment with
    | none => simp [hc] at hb
    | some t =>
      simp only [hc, List.mem_cons] at hb
      rcases hb with rfl | hb
      · decide
      · simp only [Filler.wf, hc, commentOK, List.all_eq_true, Bool.and_eq_true, bne_iff_ne, ne_eq] at h
        exact (h b hb).1.2

theorem parseProcMapsGo_fillers (env : MapEnv) (fs : List Filler) (hfs : ∀ f ∈ fs, f.wf = true) (rest : List Str) :
    parseProcMapsGo (pairsOf env) (printFillers fs ++ rest) = parseProcMapsGo (pairsOf env) rest := by
  induction fs with
  | nil => rfl
  | cons f fs ih =>
    have hf := hfs f (by simp)
    simp only [printFillers, List.map_cons, List.cons_append] at ih ⊢
    rw [parseProcMapsGo_cons, removeLoggingInfo_no_colon (filler_no_colon hf), replaceAll_id env _ (filler_no_dollar hf),
      parseMappingEntry_filler, splitEq_none _ (filler_no_eq hf)]
    exact ih (fun g hg => hfs g (by simp [hg]))

theorem fileOK_no_dollar {f : Str} (h : fileOK f = true) : ∀ b ∈ f, b ≠ (36 : UInt8) := by
  intro b hb e
  simp only [fileOK, Bool.and_eq_true, List.all_eq_true, bne_iff_ne, ne_eq] at h
  subst e; exact (h.2 36 hb).2 rfl

/-- the line as `parseMappingEntry` sees it -/
theorem seen_of_log (log : Option LogPrefix) (hlog : log.all LogPrefix.wf = true) (L : Str)
    (hL : firstBracketOK L = true) : removeLoggingInfo (optLog log ++ L) = L := by
  cases log with
  | none => simpa [optLog] using removeLoggingInfo_of_firstBracketOK hL
  | some p => exact p.remove (by simpa using hlog) L

theorem MapEntry.wf_fileOK {e : MapEntry} (h : e.wf = true) : e.form.file.all fileOK = true := by
  obtain ⟨indent, ox, width, start, limit, gap, form⟩ := e
  cases form with
  | proc perm off dmaj dmin inode file =>
    simp only [MapEntry.wf, Bool.and_eq_true] at h
    exact h.2.2
  | brief colon perm file off bid =>
    simp only [MapEntry.wf, Bool.and_eq_true] at h
    exact h.2.1.1.1

theorem step_entry (env : MapEnv) (log : Option LogPrefix) (e : MapEntry) (hlog : log.all LogPrefix.wf = true)
    (he : e.wf = true) (hfb : e.form.file.all firstBracketOK = true) (R : List Str) :
    parseProcMapsGo (pairsOf env) ((MapLine.entry log e).print :: R) =
      (match e.mapping with | some m => [m] | none => []) ++ parseProcMapsGo (pairsOf env) R := by
  have hpost := e.Plain_post (MapEntry.wf_bidOK he)
  have hfile := MapEntry.wf_fileOK he
  have hnd : ∀ b ∈ e.print, b ≠ (36 : UInt8) := by
    intro b hb
    rw [e.print_parts] at hb
    simp only [List.mem_append] at hb
    rcases hb with hb | hb | hb
    · exact (e.Plain_pre b hb).1
    · cases hq : e.form.file with
      | none => simp [hq, optField] at hb
      | some f =>
        simp only [hq, optField, List.mem_append] at hb
        rcases hb with hb | hb
        · exact (Plain_sp _ b hb).1
        · exact fileOK_no_dollar (by simpa [hq] using hfile) b hb
    · exact (hpost b hb).1
  have hfbo : firstBracketOK e.print = true := by
    rw [e.print_parts, firstBracketOK_append_plain_left e.Plain_pre]
    cases hq : e.form.file with
    | none => simpa [optField] using firstBracketOK_of_plain hpost
    | some f =>
      simp only [optField, List.append_assoc]
      rw [firstBracketOK_append_plain_left (Plain_sp _)]
      exact firstBracketOK_append_plain_right (by simpa [hq] using hfb) hpost
  rw [parseProcMapsGo_cons]
  simp only [MapLine.print]
  rw [seen_of_log log hlog _ hfbo, replaceAll_id env _ hnd, parseMappingEntry_print e he]
  cases e.mapping <;> rfl

theorem trimSpace_pad (i j : Nat) (s : Str) (hne : s ≠ []) (h1 : Stops isSpace s) (h2 : Stops isSpace s.reverse) :
    trimSpace (sp i ++ (s ++ sp j)) = s := by
  unfold trimSpace
  have hl : trimLeft (sp i ++ (s ++ sp j)) = s ++ sp j := trimLeft_replicate i _ (Stops_append_of_ne_nil hne h1)
  rw [hl]
  unfold trimRight
  rw [List.reverse_append]
  have hsp : ∀ b ∈ (sp j).reverse, isSpace b = true := by
    intro b hb; simp only [sp, List.mem_reverse, List.mem_replicate] at hb; rw [hb.2]; exact isSpace_32
  rw [dropWhile_append_stops hsp h2]; simp

theorem step_attr (env : MapEnv) (log : Option LogPrefix) (indent : Nat) (name : Str) (spaced : Bool) (value : Str)
    (hlog : log.all LogPrefix.wf = true) (hn : attrNameOK name = true) (hv : attrValueOK value = true)
    (hfb : firstBracketOK value = true) (R : List Str) :
    parseProcMapsGo (pairsOf env) ((MapLine.attr log indent name spaced value).print :: R) =
      parseProcMapsGo (pairsOf (env ++ [(name, value)])) R := by
  obtain ⟨c, t, hname, hcx, hcw⟩ := attrNameOK_head hn
  have hword := attrNameOK_word hn
  simp only [attrValueOK, Bool.and_eq_true, bne_iff_ne, ne_eq, List.all_eq_true] at hv
  obtain ⟨hvne, hvall⟩ := hv
  have heq : (if spaced then asc " = " else asc "=") = sp (if spaced then 1 else 0) ++ (61 :: sp (if spaced then 1 else 0)) := by
    cases spaced <;> decide
  -- bytes
  have hwordb : ∀ b ∈ name, b ≠ 36 ∧ isBracket b = false ∧ b.toNat ≠ 61 ∧ isSpace b = false := by
    intro b hb
    have := hword b hb
    simp only [isWord, isDigit, Bool.or_eq_true, decide_eq_true_eq, beq_iff_eq] at this
    refine ⟨?_, ?_, ?_, ?_⟩
    · intro e; subst e; revert this; decide
    · simp only [isBracket, Bool.or_eq_false_iff, beq_eq_false_iff_ne]; omega
    · omega
    · simp only [isSpace, isReSpace, Bool.or_eq_false_iff, beq_eq_false_iff_ne]; omega
  have hvalb : ∀ b ∈ value, b ≠ 36 ∧ isSpace b = false := by
    intro b hb
    have := hvall b hb
    have hp := this.1.1
    simp only [isPrint, decide_eq_true_eq] at hp
    refine ⟨?_, ?_⟩
    · intro e; subst e; exact this.2 rfl
    · have h32 := this.1.2
      simp only [isSpace, isReSpace, Bool.or_eq_false_iff, beq_eq_false_iff_ne]; omega
  let L : Str := sp indent ++ (name ++ ((if spaced then asc " = " else asc "=") ++ value))
  have heqP : Plain (if spaced then asc " = " else asc "=") := by cases spaced <;> decide
  have hnd : ∀ b ∈ L, b ≠ (36 : UInt8) := by
    intro b hb
    simp only [L, List.mem_append] at hb
    rcases hb with hb | hb | hb | hb
    · exact (Plain_sp _ b hb).1
    · exact (hwordb b hb).1
    · exact (heqP b hb).1
    · exact (hvalb b hb).1
  have hfbo : firstBracketOK L = true := by
    simp only [L]
    rw [firstBracketOK_append_plain_left (Plain_sp _), firstBracketOK_append_left (fun b hb => (hwordb b hb).2.1),
      firstBracketOK_append_plain_left heqP]
    exact hfb
  have hunrec : parseMappingEntry L = .unrecognized := by
    have hsk : skipReSpace L = name ++ ((if spaced then asc " = " else asc "=") ++ value) := by
      simp only [L]
      apply skipReSpace_sp
      rw [hname]
      simp only [List.cons_append, Stops_cons, isReSpace, Bool.or_eq_false_iff, beq_eq_false_iff_ne]
      have := (hwordb c (by simp [hname])).2.2.2
      simp only [isSpace, isReSpace, Bool.or_eq_false_iff, beq_eq_false_iff_ne] at this
      omega
    have : matchHexRange L = none := by
      apply matchHexRange_of_skip hsk
      right
      refine ⟨c, t ++ ((if spaced then asc " = " else asc "=") ++ value), by simp [hname], hcx, ?_⟩
      intro e; subst e; revert hcx; decide
    simp [parseMappingEntry, this]
  have hsplit : splitEq L = some (sp indent ++ (name ++ sp (if spaced then 1 else 0)), sp (if spaced then 1 else 0) ++ value) := by
    have e : L = (sp indent ++ (name ++ sp (if spaced then 1 else 0))) ++ 61 :: (sp (if spaced then 1 else 0) ++ value) := by
      simp only [L, heq, List.append_assoc, List.cons_append]
    rw [e]
    apply splitEq_append
    intro b hb
    simp only [List.mem_append] at hb
    rcases hb with hb | hb | hb
    · simp only [sp, List.mem_replicate] at hb; rw [hb.2]; decide
    · exact (hwordb b hb).2.2.1
    · simp only [sp, List.mem_replicate] at hb; rw [hb.2]; decide
  have hnne : name ≠ [] := by rw [hname]; simp
  have hn1 : Stops isSpace name := by rw [hname]; simpa using (hwordb c (by simp [hname])).2.2.2
  have hn2 : Stops isSpace name.reverse := by
    cases hq : name.reverse with
    | nil => simp
    | cons x r =>
      have : x ∈ name := by
        have : x ∈ name.reverse := by rw [hq]; simp
        simpa using this
      simpa using (hwordb x this).2.2.2
  have hv1 : Stops isSpace value := by
    cases hq : value with
    | nil => simp
    | cons x r => simpa using (hvalb x (by simp [hq])).2
  have hv2 : Stops isSpace value.reverse := by
    cases hq : value.reverse with
    | nil => simp
    | cons x r =>
      have : x ∈ value := by
        have : x ∈ value.reverse := by rw [hq]; simp
        simpa using this
      simpa using (hvalb x this).2
  have ht1 : trimSpace (sp indent ++ (name ++ sp (if spaced then 1 else 0))) = name := trimSpace_pad _ _ name hnne hn1 hn2
  have ht2 : trimSpace (sp (if spaced then 1 else 0) ++ value) = value := by
    have := trimSpace_pad (if spaced then 1 else 0) 0 value hvne hv1 hv2
    simpa [sp] using this
  rw [parseProcMapsGo_cons]
  have hp : (MapLine.attr log indent name spaced value).print = optLog log ++ L := rfl
  rw [hp, seen_of_log log hlog L hfbo, replaceAll_id env L hnd, hunrec]
  simp only [hsplit, ht1, ht2, pairsOf_append]

theorem step_entryRef (env : MapEnv) (henv : EnvOK env) (log : Option LogPrefix) (e : MapEntry) (name suffix v : Str)
    (hlog : log.all LogPrefix.wf = true) (hn : attrNameOK name = true) (hsfx : suffixOK suffix = true)
    (hfb : firstBracketOK suffix = true) (hl : env.lookup name = some v) (hwf : (e.withFile (v ++ suffix)).wf = true)
    (R : List Str) :
    parseProcMapsGo (pairsOf env) ((MapLine.entryRef log e name suffix).print :: R) =
      (match (e.withFile (v ++ suffix)).mapping with | some m => [m] | none => []) ++ parseProcMapsGo (pairsOf env) R := by
  have hword := attrNameOK_word hn
  have hbid : e.bidOK = true := by rw [← e.withFile_bidOK (v ++ suffix)]; exact MapEntry.wf_bidOK hwf
  have hpost := e.Plain_post hbid
  have hfile := MapEntry.withFile_wf_file hwf
  have hsfx_nd : ∀ b ∈ suffix, b ≠ (36 : UInt8) := fun b hb => fileOK_no_dollar hfile b (by simp [hb])
  have hnameb : ∀ b ∈ name, isBracket b = false := by
    intro b hb
    have := hword b hb
    simp only [isWord, isDigit, Bool.or_eq_true, decide_eq_true_eq, beq_iff_eq] at this
    simp only [isBracket, Bool.or_eq_false_iff, beq_eq_false_iff_ne]; omega
  -- the printed line and what the glog scanner makes of it
  have hprint : (e.withFile (36 :: (name ++ suffix))).print = (e.pre ++ sp (e.gap + 1)) ++ (36 :: (name ++ (suffix ++ e.post))) := by
    rw [e.withFile_print]; simp [List.append_assoc]
  have hfbo : firstBracketOK ((e.pre ++ sp (e.gap + 1)) ++ (36 :: (name ++ (suffix ++ e.post)))) = true := by
    rw [firstBracketOK_append_plain_left (Plain_append e.Plain_pre (Plain_sp _))]
    rw [show (36 :: (name ++ (suffix ++ e.post)) : Str) = (36 :: name) ++ (suffix ++ e.post) by simp]
    rw [firstBracketOK_append_left (by
      intro b hb
      rcases List.mem_cons.1 hb with rfl | hb
      · decide
      · exact hnameb b hb)]
    exact firstBracketOK_append_plain_right hfb hpost
  -- the replacer
  have hS : suffix ++ e.post = [] ∨ ∃ c t, suffix ++ e.post = c :: t ∧ isWord c = false := by
    cases hq : suffix with
    | cons c t =>
      right
      refine ⟨c, t ++ e.post, by simp, ?_⟩
      simpa [suffixOK, hq] using hsfx
    | nil =>
      rcases e.post_shape with h | ⟨t, h⟩
      · left; simp [h]
      · right; exact ⟨32, t, by simp [h], by decide⟩
  have hpf : ∀ p ∈ env, p.1.isPrefixOf name = true → p.1 = name := by
    obtain ⟨q, hq, hqn⟩ := lookup_mem hl
    intro p hp hpre
    rw [← hqn] at hpre ⊢
    exact henv.2 p hp q hq hpre
  have hrf := replaceFirst_ref env name (suffix ++ e.post) v hS (fun p hp => attrNameOK_word (henv.1 p hp)) hpf hl
  have hrepl : replaceAll (pairsOf env) ((e.pre ++ sp (e.gap + 1)) ++ (36 :: (name ++ (suffix ++ e.post)))) =
      (e.withFile (v ++ suffix)).print := by
    unfold replaceAll
    rw [replaceAllAux_plain env _ _ (fun b hb => (Plain_append e.Plain_pre (Plain_sp _) b hb).1),
      replaceAllAux_key _ 36 name v _ hrf]
    have hid := replaceAllAux_plain env (suffix ++ e.post) [] (by
      intro b hb
      rcases List.mem_append.1 hb with hb | hb
      · exact hsfx_nd b hb
      · exact (hpost b hb).1)
    simp only [List.append_nil, replaceAllAux] at hid
    rw [hid, e.withFile_print]
    simp [List.append_assoc]
  rw [parseProcMapsGo_cons]
  simp only [MapLine.print]
  rw [hprint, seen_of_log log hlog _ hfbo, hrepl, parseMappingEntry_print _ hwf]
  cases (e.withFile (v ++ suffix)).mapping <;> rfl

/-! ### a whole section -/
theorem parseProcMapsGo_line (env : MapEnv) (henv : EnvOK env) (l : MapLine) (hl : l.wfIn env = true) (R : List Str) :
    parseProcMapsGo (pairsOf env) (l.print :: R) =
      (match (l.step env).2 with | some m => [m] | none => []) ++ parseProcMapsGo (pairsOf (l.step env).1) R ∧
    EnvOK (l.step env).1 := by
  cases l with
  | entry log e =>
    simp only [MapLine.wfIn, Bool.and_eq_true] at hl
    exact ⟨step_entry env log e hl.1.1 hl.1.2 hl.2 R, henv⟩
  | entryRef log e name suffix =>
    simp only [MapLine.wfIn, Bool.and_eq_true] at hl
    obtain ⟨⟨⟨⟨hlog, hn⟩, hsfx⟩, hfb⟩, hres⟩ := hl
    cases hq : env.lookup name with
    | none => simp [hq] at hres
    | some v =>
      simp only [hq] at hres
      refine ⟨?_, henv⟩
      simp only [MapLine.step, hq]
      exact step_entryRef env henv log e name suffix v hlog hn hsfx hfb hq hres R
  | attr log indent name spaced value =>
    simp only [MapLine.wfIn, Bool.and_eq_true] at hl
    obtain ⟨⟨⟨⟨hlog, hn⟩, hv⟩, hfb⟩, hpf⟩ := hl
    exact ⟨by simpa [MapLine.step] using step_attr env log indent name spaced value hlog hn hv hfb R,
      EnvOK_snoc henv name value hn hpf⟩

theorem parseProcMapsGo_lines (env : MapEnv) (henv : EnvOK env) (es : List (List Filler × MapLine))
    (hwf : wfLines env es = true) (fs : List Filler) (hfs : ∀ f ∈ fs, f.wf = true) :
    parseProcMapsGo (pairsOf env) (es.flatMap (fun p => printFillers p.1 ++ [p.2.print]) ++ printFillers fs) = mappingsOf env es := by
  induction es generalizing env with
  | nil =>
    have := parseProcMapsGo_fillers env fs hfs []
    simpa [parseProcMapsGo, mappingsOf] using this
  | cons p es ih =>
    simp only [wfLines, Bool.and_eq_true, List.all_eq_true] at hwf
    obtain ⟨⟨hfill, hline⟩, hrest⟩ := hwf
    obtain ⟨h1, h2⟩ := parseProcMapsGo_line env henv p.2 hline
      (es.flatMap (fun p => printFillers p.1 ++ [p.2.print]) ++ printFillers fs)
    simp only [List.flatMap_cons, List.append_assoc, List.singleton_append, List.cons_append, List.nil_append]
    rw [parseProcMapsGo_fillers env p.1 hfill, h1, ih _ h2 hrest]
    simp only [mappingsOf]
    cases (p.2.step env).2 <;> rfl

@[simp] theorem parseProcMaps_nil : parseProcMaps [] = [] := rfl
@[simp] theorem parseProcMapsGo_nil (ps : List (Str × Str)) : parseProcMapsGo ps [] = [] := rfl

theorem parseProcMaps_bodyLines (m : MapSection) (h : m.wf = true) : parseProcMaps m.bodyLines = m.mappings := by
  simp only [MapSection.wf, Bool.and_eq_true, List.all_eq_true] at h
  exact parseProcMapsGo_lines [] EnvOK_nil m.entries h.1 m.post h.2

/-- after a record loop that stopped on the sentinel line (or ran out of lines). -/
theorem parseAdditionalSections_tail (sentinel : Str) (hs : isMemoryMapSentinel sentinel = true)
    (map : Option MapSection) (h : ∀ m, map = some m → m.wf = true) :
    (match tailLines sentinel map with
     | [] => parseAdditionalSections [] []
     | cur :: rest => parseAdditionalSections cur rest) = tailMappings map := by
  cases map with
  | none => simp [tailLines, tailMappings, parseAdditionalSections, skipToSentinel]
  | some m =>
    simp only [tailLines, tailMappings, parseAdditionalSections, hs, if_true]
    exact parseProcMaps_bodyLines m (h m rfl)

end PV.Legacy
