import PprofVerif.Model.Combine
import Mathlib.Tactic.Ring
import Mathlib.Tactic.Linarith
import Mathlib.Data.List.Nodup
/-!
Helper lemmas for C07 (Props/C07.lean): figures are additive over concatenation and invariant
under merge / zero-elimination; negation, base labelling, the float64 path of Scale(-1) on its
exact range; distinct keys of a merge result; rounding bounds of ScaleN / Normalize; the
specification of compatibilizeSampleTypes; CommonValueType picks the finest unit; the
diff-base total of a merged difference.
-/
namespace PV.Combine
theorem figure_append (sel : Vals → Int) (φ : StackKey → Bool) (p q : Prof) :
    figure sel φ (p ++ q) = figure sel φ p + figure sel φ q := by
  induction p with
  | nil => simp [figure]
  | cons s r ih => simp [figure, ih]; ring

theorem figure_flatten (sel : Vals → Int) (φ : StackKey → Bool) (ps : List Prof) :
    figure sel φ ps.flatten = (ps.map (figure sel φ)).sum := by
  induction ps with
  | nil => simp [figure]
  | cons p r ih => simp [figure_append, ih]

theorem figure_map_vals (sel : Vals → Int) (φ : StackKey → Bool) (f : Vals → Vals) (p : Prof) :
    figure sel φ (p.map (fun s => (s.1, f s.2))) = figure (fun v => sel (f v)) φ p := by
  induction p with
  | nil => simp [figure]
  | cons s r ih => simp [figure, ih]

theorem figure_dropZero (sel : Vals → Int) (φ : StackKey → Bool) (p : Prof)
    (h0 : ∀ v, isZero v = true → sel v = 0) : figure sel φ (dropZero p) = figure sel φ p := by
  induction p with
  | nil => simp [dropZero, figure]
  | cons s r ih =>
    unfold dropZero at ih ⊢
    rw [List.filter_cons]
    by_cases hz : isZero s.2 = true
    · simp [hz, figure, ih, h0 _ hz]
    · simp [hz, figure, ih]

theorem col_of_isZero (i : Nat) (v : Vals) (h : isZero v = true) : col i v = 0 := by
  unfold col
  cases hi : v[i]? with
  | none => rfl
  | some x =>
    have hx : x ∈ v := List.mem_of_getElem? hi
    unfold isZero at h
    rw [List.all_eq_true] at h
    have := h x hx
    simpa using this

theorem col_vadd (i : Nat) (a b : Vals) (h : a.length = b.length) :
    col i (vadd a b) = col i a + col i b := by
  unfold col vadd
  rw [List.getElem?_zipWith]
  cases ha : a[i]? with
  | none =>
    have : b[i]? = none := by
      rw [List.getElem?_eq_none_iff] at ha ⊢; omega
    simp [this]
  | some x =>
    cases hb : b[i]? with
    | none =>
      rw [List.getElem?_eq_none_iff] at hb
      have := (List.getElem?_eq_some_iff.mp ha).1
      omega
    | some y => simp


theorem vadd_length (a b : Vals) (h : a.length = b.length) : (vadd a b).length = a.length := by
  simp [vadd, h]

theorem WF_nil (n : Nat) : WF n [] := by intro s hs; cases hs
theorem WF_cons {n : Nat} {s : Sample} {p : Prof} : WF n (s :: p) ↔ s.2.length = n ∧ WF n p := by
  simp [WF]
theorem WF_append {n : Nat} {p q : Prof} : WF n (p ++ q) ↔ WF n p ∧ WF n q := by
  simp only [WF, List.mem_append]
  constructor
  · intro h; exact ⟨fun s hs => h s (Or.inl hs), fun s hs => h s (Or.inr hs)⟩
  · rintro ⟨h1, h2⟩ s (hs | hs); exact h1 s hs; exact h2 s hs
theorem WF_filter {n : Nat} {p : Prof} (f : Sample → Bool) (h : WF n p) : WF n (p.filter f) :=
  fun s hs => h s (List.mem_filter.mp hs).1
theorem WF_dropZero {n : Nat} {p : Prof} (h : WF n p) : WF n (dropZero p) := WF_filter _ h
theorem WF_flatten {n : Nat} {ps : List Prof} (h : ∀ p ∈ ps, WF n p) : WF n ps.flatten := by
  intro s hs
  rw [List.mem_flatten] at hs
  obtain ⟨p, hp, hsp⟩ := hs
  exact h p hp s hsp

theorem addSample_WF {n : Nat} (acc : Prof) (s : Sample) (ha : WF n acc) (hs : s.2.length = n) :
    WF n (addSample acc s) := by
  induction acc with
  | nil => simpa [addSample, WF] using hs
  | cons a r ih =>
    obtain ⟨k, v⟩ := a
    rw [WF_cons] at ha
    unfold addSample
    split
    · rw [WF_cons]; exact ⟨by rw [vadd_length _ _ (by rw [ha.1, hs])]; exact ha.1, ha.2⟩
    · rw [WF_cons]; exact ⟨ha.1, ih ha.2⟩

theorem addSample_figure {n : Nat} (i : Nat) (φ : StackKey → Bool) (acc : Prof) (s : Sample)
    (ha : WF n acc) (hs : s.2.length = n) :
    figure (col i) φ (addSample acc s) = figure (col i) φ acc + (if φ s.1 then col i s.2 else 0) := by
  induction acc with
  | nil => simp [addSample, figure]
  | cons a r ih =>
    obtain ⟨k, v⟩ := a
    rw [WF_cons] at ha
    unfold addSample
    split
    · rename_i hk
      simp only [figure]
      rw [col_vadd i v s.2 (by rw [ha.1, hs])]
      rw [← hk]
      by_cases hφ : φ k = true
      · simp [hφ]; ring
      · simp [hφ]
    · simp only [figure]
      rw [ih ha.2]; ring

theorem foldl_addSample_WF {n : Nat} (q acc : Prof) (ha : WF n acc) (hq : WF n q) :
    WF n (q.foldl addSample acc) := by
  induction q generalizing acc with
  | nil => simpa using ha
  | cons s r ih =>
    rw [WF_cons] at hq
    simp only [List.foldl_cons]
    exact ih _ (addSample_WF acc s ha hq.1) hq.2

theorem foldl_addSample_figure {n : Nat} (i : Nat) (φ : StackKey → Bool) (q acc : Prof)
    (ha : WF n acc) (hq : WF n q) :
    figure (col i) φ (q.foldl addSample acc) = figure (col i) φ acc + figure (col i) φ q := by
  induction q generalizing acc with
  | nil => simp [figure]
  | cons s r ih =>
    rw [WF_cons] at hq
    simp only [List.foldl_cons, figure]
    rw [ih _ (addSample_WF acc s ha hq.1) hq.2, addSample_figure i φ acc s ha hq.1]; ring

theorem mergeRaw_WF {n : Nat} {p : Prof} (h : WF n p) : WF n (mergeRaw p) :=
  foldl_addSample_WF p [] (WF_nil n) h

theorem mergeRaw_figure {n : Nat} (i : Nat) (φ : StackKey → Bool) (p : Prof) (h : WF n p) :
    figure (col i) φ (mergeRaw p) = figure (col i) φ p := by
  unfold mergeRaw
  rw [foldl_addSample_figure i φ p [] (WF_nil n) h]; simp [figure]

theorem merge_WF {n : Nat} {p : Prof} (h : WF n p) : WF n (merge p) :=
  WF_dropZero (mergeRaw_WF (WF_dropZero h))

theorem merge_figure {n : Nat} (i : Nat) (φ : StackKey → Bool) (p : Prof) (h : WF n p) :
    figure (col i) φ (merge p) = figure (col i) φ p := by
  unfold merge
  rw [figure_dropZero _ _ _ (col_of_isZero i), mergeRaw_figure i φ _ (WF_dropZero h),
    figure_dropZero _ _ _ (col_of_isZero i)]

theorem combine_WF {n : Nat} {ps : List Prof} (h : ∀ p ∈ ps, WF n p) : WF n (combine ps) := by
  unfold combine
  split
  · exact h _ (by simp)
  · exact merge_WF (WF_flatten h)

theorem combine_figure {n : Nat} (i : Nat) (φ : StackKey → Bool) (ps : List Prof)
    (h : ∀ p ∈ ps, WF n p) :
    figure (col i) φ (combine ps) = (ps.map (figure (col i) φ)).sum := by
  unfold combine
  split
  · simp
  · rw [merge_figure i φ _ (WF_flatten h), figure_flatten]

theorem col_map_neg (i : Nat) (v : Vals) : col i (v.map (fun x => -x)) = - col i v := by
  unfold col
  rw [List.getElem?_map]
  cases v[i]? <;> simp

theorem WF_map_vals {n : Nat} {p : Prof} (f : Vals → Vals) (hf : ∀ v, (f v).length = v.length)
    (h : WF n p) : WF n (p.map (fun s => (s.1, f s.2))) := by
  intro s hs
  rw [List.mem_map] at hs
  obtain ⟨t, ht, rfl⟩ := hs
  simp [hf, h t ht]

theorem figure_neg_sel (sel : Vals → Int) (φ : StackKey → Bool) (p : Prof) :
    figure (fun v => - sel v) φ p = - figure sel φ p := by
  induction p with
  | nil => simp [figure]
  | cons s r ih =>
    simp only [figure, ih]
    by_cases h : φ s.1 = true <;> simp [h]; ring

theorem neg_WF {n : Nat} {p : Prof} (h : WF n p) : WF n (neg p) :=
  WF_dropZero (WF_map_vals _ (by simp) h)

theorem neg_figure (i : Nat) (φ : StackKey → Bool) (p : Prof) :
    figure (col i) φ (neg p) = - figure (col i) φ p := by
  unfold neg
  rw [figure_dropZero _ _ _ (col_of_isZero i), figure_map_vals]
  simp only [col_map_neg]
  exact figure_neg_sel _ _ _

theorem setBase_WF {n : Nat} {p : Prof} (h : WF n p) : WF n (setBase p) := by
  intro s hs
  unfold setBase at hs
  rw [List.mem_map] at hs
  obtain ⟨t, ht, rfl⟩ := hs
  exact h t ht

theorem setBase_figure (sel : Vals → Int) (ψ : List Nat → Bool) (p : Prof) :
    figure sel (fun k => ψ k.frames) (setBase p) = figure sel (fun k => ψ k.frames) p := by
  induction p with
  | nil => simp [setBase, figure]
  | cons s r ih =>
    unfold setBase at ih ⊢
    simp [figure, ih]

theorem rne53_of_le (v : Int) (h : v.natAbs ≤ 2 ^ 53) : rne53 v = v := by
  unfold rne53
  rw [if_pos h]

theorem scaleNeg1_eq_neg (p : Prof) (h : InF64 p) : scaleNeg1 p = neg p := by
  unfold scaleNeg1 neg
  congr 1
  apply List.map_congr_left
  intro s hs
  congr 1
  apply List.map_congr_left
  intro x hx
  unfold negF64
  rw [rne53_of_le x (h s hs x hx)]

def keys (p : Prof) : List StackKey := p.map (·.1)

theorem addSample_keys (acc : Prof) (s : Sample) :
    keys (addSample acc s) = if s.1 ∈ keys acc then keys acc else keys acc ++ [s.1] := by
  induction acc with
  | nil => simp [addSample, keys]
  | cons a r ih =>
    obtain ⟨k, v⟩ := a
    unfold addSample
    by_cases hk : k = s.1
    · simp [hk, keys]
    · have hk' : ¬ s.1 = k := fun h => hk h.symm
      simp only [hk, if_false]
      unfold keys at ih ⊢
      simp only [List.map_cons, List.mem_cons, hk', false_or, ih]
      split <;> simp

theorem addSample_nodup (acc : Prof) (s : Sample) (h : (keys acc).Nodup) :
    (keys (addSample acc s)).Nodup := by
  rw [addSample_keys]
  split
  · exact h
  · rename_i hn
    rw [List.nodup_append]
    refine ⟨h, by simp, ?_⟩
    intro a ha b hb
    simp at hb
    subst hb
    intro hab; subst hab; exact hn ha

theorem foldl_addSample_nodup (q acc : Prof) (h : (keys acc).Nodup) :
    (keys (q.foldl addSample acc)).Nodup := by
  induction q generalizing acc with
  | nil => simpa using h
  | cons s r ih => exact ih _ (addSample_nodup acc s h)

theorem mergeRaw_nodup (q : Prof) : (keys (mergeRaw q)).Nodup :=
  foldl_addSample_nodup q [] (by simp [keys])

theorem figure_eq_zero_of_forall (sel : Vals → Int) (φ : StackKey → Bool) (p : Prof)
    (h : ∀ s ∈ p, φ s.1 = false) : figure sel φ p = 0 := by
  induction p with
  | nil => rfl
  | cons s r ih =>
    simp only [figure]
    rw [h s (by simp), ih (fun t ht => h t (by simp [ht]))]; simp

/-- in a profile with distinct keys the figure selecting one key is that entry's value. -/
theorem figure_key_of_nodup (sel : Vals → Int) (p : Prof) (hn : (keys p).Nodup) (k : StackKey) (v : Vals)
    (hm : (k, v) ∈ p) : figure sel (fun k' => decide (k' = k)) p = sel v := by
  induction p with
  | nil => cases hm
  | cons s r ih =>
    unfold keys at hn
    rw [List.map_cons, List.nodup_cons] at hn
    simp only [figure]
    rcases List.mem_cons.mp hm with h | h
    · subst h
      have : figure sel (fun k' => decide (k' = k)) r = 0 := by
        apply figure_eq_zero_of_forall
        intro t ht
        simp only [decide_eq_false_iff_not]
        intro he
        apply hn.1
        have hm' : t.1 ∈ List.map (fun x => x.1) r := List.mem_map_of_mem (f := fun x => x.1) ht
        rw [he] at hm'
        exact hm'
      simp [this]
    · have hne : s.1 ≠ k := by
        intro he
        apply hn.1
        rw [he]
        exact List.mem_map_of_mem (f := Prod.fst) h
      simp only [hne, decide_false, Bool.false_eq_true, if_false]
      rw [ih hn.2 h]; simp

theorem mergeRaw_entry {n : Nat} (q : Prof) (hq : WF n q) (k : StackKey) (v : Vals)
    (hm : (k, v) ∈ mergeRaw q) (i : Nat) :
    col i v = figure (col i) (fun k' => decide (k' = k)) q := by
  rw [← mergeRaw_figure i _ q hq]
  exact (figure_key_of_nodup (col i) _ (mergeRaw_nodup q) k v hm).symm

theorem isZero_of_col (v : Vals) (h : ∀ i, col i v = 0) : isZero v = true := by
  unfold isZero
  rw [List.all_eq_true]
  intro x hx
  obtain ⟨i, hi, rfl⟩ := List.getElem_of_mem hx
  have := h i
  unfold col at this
  rw [List.getElem?_eq_getElem hi] at this
  simpa using this

theorem self_difference_entries {n : Nat} (p : Prof) (hp : WF n p) :
    ∀ s ∈ mergeRaw (dropZero (p ++ neg p)), isZero s.2 = true := by
  intro s hs
  obtain ⟨k, v⟩ := s
  apply isZero_of_col
  intro i
  have hwf : WF n (dropZero (p ++ neg p)) := WF_dropZero (WF_append.mpr ⟨hp, neg_WF hp⟩)
  rw [mergeRaw_entry _ hwf k v hs i, figure_dropZero _ _ _ (col_of_isZero i), figure_append, neg_figure]
  omega

theorem merge_self_difference {n : Nat} (p : Prof) (hp : WF n p) : merge (p ++ neg p) = [] := by
  unfold merge
  unfold dropZero
  rw [List.filter_eq_nil_iff]
  intro s hs
  have := self_difference_entries p hp s hs
  simp [this]

theorem round_bound (a : Int) (d : Nat) (hd : 0 < d) :
    -(d : Int) ≤ 2 * ((d : Int) * roundHalfAway a d) - 2 * a ∧
      2 * ((d : Int) * roundHalfAway a d) - 2 * a ≤ d := by
  unfold roundHalfAway
  have h1 := Nat.div_add_mod (2 * a.natAbs + d) (2 * d)
  have h2 := Nat.mod_lt (2 * a.natAbs + d) (show 0 < 2 * d by omega)
  generalize hQ : (2 * a.natAbs + d) / (2 * d) = Q at h1 ⊢
  generalize (2 * a.natAbs + d) % (2 * d) = R at h1 h2
  have h3 : 2 * (d * Q) + R = 2 * a.natAbs + d := by rw [← h1]; ring
  have h4 : ((d : Int) * (Q : Int)) = ((d * Q : Nat) : Int) := by push_cast; ring
  generalize d * Q = X at h3 h4
  simp only []
  split
  · rw [show (d : Int) * -(Q : Int) = -((d : Int) * Q) by ring, h4]; omega
  · rw [h4]; omega

theorem roundHalfAway_one (a : Int) : roundHalfAway a 1 = a := by
  have := round_bound a 1 (by omega)
  omega

theorem scaleVal_ofInt (k v : Int) : scaleVal (Ratio.ofInt k) v = v * k := by
  unfold scaleVal Ratio.ofInt
  exact roundHalfAway_one _

theorem roundHalfAway_mul (v : Int) (d : Nat) (hd : 0 < d) : roundHalfAway (v * d) d = v := by
  have := round_bound (v * d) d hd
  have hd' : (0 : Int) < d := by exact_mod_cast hd
  generalize roundHalfAway (v * d) d = q at this
  have h1 : (d : Int) * (2 * (q - v)) ≤ d := by nlinarith [this.2]
  have h2 : -(d : Int) ≤ (d : Int) * (2 * (q - v)) := by nlinarith [this.1]
  have h3 : 2 * (q - v) ≤ 1 := by
    by_contra hc
    have : (d : Int) * 2 ≤ (d : Int) * (2 * (q - v)) := by
      apply Int.mul_le_mul_of_nonneg_left <;> omega
    omega
  have h4 : -1 ≤ 2 * (q - v) := by
    by_contra hc
    have : (d : Int) * (2 * (q - v)) ≤ (d : Int) * (-2) := by
      apply Int.mul_le_mul_of_nonneg_left <;> omega
    omega
  omega

theorem scaleVal_isOne (r : Ratio) (v : Int) (h : r.isOne = true) : scaleVal r v = v := by
  unfold scaleVal
  unfold Ratio.isOne at h
  have : r.num = (r.den : Int) := by simpa using h
  rw [this]
  exact roundHalfAway_mul v r.den r.pos

theorem scaleVec_length (rs : List Ratio) (v : Vals) (h : rs.length = v.length) :
    (scaleVec rs v).length = v.length := by
  simp [scaleVec, h]

theorem col_scaleVec (rs : List Ratio) (v : Vals) (h : rs.length = v.length) (i : Nat)
    (hi : i < rs.length) : col i (scaleVec rs v) = scaleVal rs[i] (col i v) := by
  unfold col scaleVec
  rw [List.getElem?_zipWith]
  have hv : i < v.length := by omega
  rw [List.getElem?_eq_getElem hi, List.getElem?_eq_getElem hv]
  simp only [Option.getD_some]
  split
  · rename_i h1; rw [scaleVal_isOne _ _ h1]
  · rfl

theorem scaleVec_allOne (rs : List Ratio) (v : Vals) (h : rs.length = v.length)
    (h1 : rs.all Ratio.isOne = true) : scaleVec rs v = v := by
  induction rs generalizing v with
  | nil => cases v <;> simp_all [scaleVec]
  | cons r rs ih =>
    cases v with
    | nil => simp at h
    | cons x xs =>
      simp only [List.all_cons, Bool.and_eq_true] at h1
      simp only [List.length_cons, Nat.add_right_cancel_iff] at h
      have := ih xs h h1.2
      unfold scaleVec at this ⊢
      simp [h1.1, this]

/-- what `scaleN` returns when it returns normally and does something. -/
theorem scaleN_ok (rs : List Ratio) (n : Nat) (p q : Prof) (h : scaleN rs n p = .ok q) :
    n = rs.length ∧ ((rs.all Ratio.isOne = true ∧ q = p) ∨
      (rs.all Ratio.isOne = false ∧ q = dropZero (p.map (fun s => (s.1, scaleVec rs s.2))))) := by
  unfold scaleN at h
  split at h
  · cases h
  · rename_i hn
    refine ⟨by simpa using hn, ?_⟩
    split at h
    · rename_i h1; left; exact ⟨h1, by cases h; rfl⟩
    · rename_i h1
      split at h
      · cases h
      · right; exact ⟨by simpa using h1, by cases h; rfl⟩

theorem scaleN_mem (rs : List Ratio) (n : Nat) (p q : Prof) (h : scaleN rs n p = .ok q)
    (hw : WF n p) (s : Sample) (hs : s ∈ p) (hnz : isZero (scaleVec rs s.2) = false) :
    (s.1, scaleVec rs s.2) ∈ q := by
  obtain ⟨hn, h' | h'⟩ := scaleN_ok rs n p q h
  · rw [h'.2, scaleVec_allOne rs s.2 (by rw [← hn, hw s hs]) h'.1]; exact hs
  · rw [h'.2]
    unfold dropZero
    rw [List.mem_filter]
    refine ⟨List.mem_map.mpr ⟨s, hs, rfl⟩, by simp [hnz]⟩

theorem scaleN_sound (rs : List Ratio) (n : Nat) (p q : Prof) (h : scaleN rs n p = .ok q)
    (hw : WF n p) (t : Sample) (ht : t ∈ q) : ∃ s ∈ p, t = (s.1, scaleVec rs s.2) := by
  obtain ⟨hn, h' | h'⟩ := scaleN_ok rs n p q h
  · rw [h'.2] at ht
    exact ⟨t, ht, by rw [scaleVec_allOne rs t.2 (by rw [← hn, hw t ht]) h'.1]⟩
  · rw [h'.2] at ht
    unfold dropZero at ht
    obtain ⟨s, hs, rfl⟩ := List.mem_map.mp (List.mem_filter.mp ht).1
    exact ⟨s, hs, rfl⟩

theorem scaleN_WF (rs : List Ratio) (n : Nat) (p q : Prof) (h : scaleN rs n p = .ok q)
    (hw : WF n p) : WF n q := by
  obtain ⟨hn, h' | h'⟩ := scaleN_ok rs n p q h
  · rw [h'.2]; exact hw
  · rw [h'.2]
    apply WF_dropZero
    intro t ht
    obtain ⟨s, hs, rfl⟩ := List.mem_map.mp ht
    simp only
    rw [scaleVec_length rs s.2 (by rw [← hn, hw s hs])]; exact hw s hs

theorem figure_congr (sel sel' : Vals → Int) (φ : StackKey → Bool) (p : Prof)
    (h : ∀ s ∈ p, sel s.2 = sel' s.2) : figure sel φ p = figure sel' φ p := by
  induction p with
  | nil => rfl
  | cons s r ih =>
    simp only [figure]
    rw [h s (by simp), ih (fun t ht => h t (by simp [ht]))]

/-- figures of a scaled profile are figures of the column-wise scaled values. -/
theorem scaleN_figure (rs : List Ratio) (n : Nat) (p q : Prof) (h : scaleN rs n p = .ok q)
    (hw : WF n p) (i : Nat) (hi : i < rs.length) (φ : StackKey → Bool) :
    figure (col i) φ q = figure (fun v => scaleVal rs[i] (col i v)) φ p := by
  obtain ⟨hn, h' | h'⟩ := scaleN_ok rs n p q h
  · rw [h'.2]
    apply figure_congr
    intro s hs
    rw [scaleVal_isOne _ _ (List.all_eq_true.mp h'.1 _ (List.getElem_mem hi))]
  · rw [h'.2, figure_dropZero _ _ _ (col_of_isZero i), figure_map_vals]
    apply figure_congr
    intro s hs
    exact col_scaleVec rs s.2 (by rw [← hn, hw s hs]) i hi

theorem figure_mul_sel (sel : Vals → Int) (k : Int) (φ : StackKey → Bool) (p : Prof) :
    figure (fun v => sel v * k) φ p = figure sel φ p * k := by
  induction p with
  | nil => simp [figure]
  | cons s r ih =>
    simp only [figure, ih]
    by_cases h : φ s.1 = true <;> simp [h]; ring

/-- accumulated rounding error of scaling one column: at most half a unit per selected sample. -/
theorem figure_scale_bound (r : Ratio) (i : Nat) (φ : StackKey → Bool) (p : Prof) :
    -((r.den : Int) * p.length) ≤
        2 * ((r.den : Int) * figure (fun v => scaleVal r (col i v)) φ p) - 2 * (figure (col i) φ p * r.num) ∧
      2 * ((r.den : Int) * figure (fun v => scaleVal r (col i v)) φ p) - 2 * (figure (col i) φ p * r.num)
        ≤ (r.den : Int) * p.length := by
  induction p with
  | nil => simp [figure]
  | cons s t ih =>
    simp only [figure, List.length_cons]
    have hd : (0 : Int) ≤ r.den := by omega
    generalize figure (fun v => scaleVal r (col i v)) φ t = F' at ih ⊢
    generalize figure (col i) φ t = F at ih ⊢
    have hb := round_bound (col i s.2 * r.num) r.den r.pos
    generalize (r.den : Int) = D at ih hd hb ⊢
    by_cases h : φ s.1 = true
    · simp only [h, if_true]
      unfold scaleVal
      generalize roundHalfAway (col i s.2 * r.num) r.den = y at hb
      push_cast
      constructor <;> nlinarith [hb.1, hb.2, ih.1, ih.2]
    · simp only [h]
      push_cast
      constructor <;> nlinarith [ih.1, ih.2]

theorem normRatio_spec (b s : Int) (hs : s ≠ 0) :
    ((normRatio b s).den : Int) * b = s * (normRatio b s).num := by
  unfold normRatio
  simp only [hs, dif_neg, not_false_eq_true]
  rcases Int.lt_or_gt_of_ne hs with h | h
  · rw [Int.sign_eq_neg_one_of_neg h]
    have : (s.natAbs : Int) = -s := by omega
    rw [this]; ring
  · rw [Int.sign_eq_one_of_pos h]
    have : (s.natAbs : Int) = s := by omega
    rw [this]; ring

theorem normRatios_length (n : Nat) (p pb : Prof) : (normRatios n p pb).length = n := by
  simp [normRatios]

theorem normRatios_get (n : Nat) (p pb : Prof) (i : Nat) (hi : i < (normRatios n p pb).length) :
    (normRatios n p pb)[i] = normRatio (colSum i pb) (colSum i p) := by
  simp [normRatios]

theorem normalize_bound (n : Nat) (p pb q : Prof) (h : normalize n p pb = .ok q) (hw : WF n p)
    (i : Nat) (hi : i < n) (hs : colSum i p ≠ 0) :
    -(p.length : Int) ≤ 2 * (colSum i q - colSum i pb) ∧ 2 * (colSum i q - colSum i pb) ≤ p.length := by
  unfold normalize at h
  have hi' : i < (normRatios n p pb).length := by rw [normRatios_length]; exact hi
  have hf := scaleN_figure _ n p q h hw i hi' (fun _ => true)
  rw [normRatios_get n p pb i hi'] at hf
  have hb := figure_scale_bound (normRatio (colSum i pb) (colSum i p)) i (fun _ => true) p
  have hsp := normRatio_spec (colSum i pb) (colSum i p) hs
  have hd : (0 : Int) < (normRatio (colSum i pb) (colSum i p)).den := by
    exact_mod_cast (normRatio (colSum i pb) (colSum i p)).pos
  unfold colSum at hsp hs ⊢
  rw [hf]
  generalize figure (fun v => scaleVal (normRatio (colSum i pb) (colSum i p)) (col i v)) (fun _ => true) p = F' at hb ⊢
  unfold colSum at hb hd
  generalize (normRatio (figure (col i) (fun _ => true) pb) (figure (col i) (fun _ => true) p)).num = N at hb hsp
  generalize ((normRatio (figure (col i) (fun _ => true) pb) (figure (col i) (fun _ => true) p)).den : Int) = D at hb hsp hd
  generalize figure (col i) (fun _ => true) pb = B at hb hsp ⊢
  generalize figure (col i) (fun _ => true) p = S at hb hsp
  generalize (p.length : Int) = L at hb ⊢
  have e : 2 * (D * F') - 2 * (S * N) = D * (2 * (F' - B)) := by rw [← hsp]; ring
  rw [e] at hb
  constructor
  · by_contra hc
    have : D * (2 * (F' - B)) ≤ D * (-L - 1) := by
      apply Int.mul_le_mul_of_nonneg_left <;> omega
    nlinarith [hb.1]
  · by_contra hc
    have : D * (L + 1) ≤ D * (2 * (F' - B)) := by
      apply Int.mul_le_mul_of_nonneg_left <;> omega
    nlinarith [hb.2]

/-! ### sample-type alignment -/

theorem mapMO_eq_some_map {α β} (f : α → Option β) (g : α → β) (l : List α)
    (h : ∀ a ∈ l, f a = some (g a)) : mapMO f l = some (l.map g) := by
  induction l with
  | nil => rfl
  | cons a r ih =>
    unfold mapMO
    rw [h a (by simp), ih (fun b hb => h b (by simp [hb]))]
    rfl

theorem mapMOutcome_eq_ok_map {α β} (f : α → Outcome β) (g : α → β) (l : List α)
    (h : ∀ a ∈ l, f a = .ok (g a)) : mapMOutcome f l = .ok (l.map g) := by
  induction l with
  | nil => rfl
  | cons a r ih =>
    unfold mapMOutcome
    rw [h a (by simp), ih (fun b hb => h b (by simp [hb]))]
    rfl

/-- position of the first column named `t` (0 when there is none — only used under `t ∈ types`). -/
def idxOf (t : Nat) (cols : List ColT) : Nat := (findCol t cols).getD 0

theorem findCol_of_mem (t : Nat) (cols : List ColT) (h : t ∈ cols.map (·.typ)) :
    ∃ i, findCol t cols = some i ∧ ∃ hi : i < cols.length, cols[i].typ = t := by
  induction cols with
  | nil => simp at h
  | cons c cs ih =>
    unfold findCol
    by_cases hc : c.typ = t
    · exact ⟨0, by simp [hc], by simp, by simpa using hc⟩
    · have : t ∈ cs.map (·.typ) := by
        simp only [List.map_cons, List.mem_cons] at h
        rcases h with h | h
        · exact absurd h.symm hc
        · exact h
      obtain ⟨i, h1, h2, h3⟩ := ih this
      exact ⟨i + 1, by simp [hc, h1], by simp; omega, by simpa using h3⟩

theorem findCol_idxOf (t : Nat) (cols : List ColT) (h : t ∈ cols.map (·.typ)) :
    findCol t cols = some (idxOf t cols) ∧ ∃ hi : idxOf t cols < cols.length, cols[idxOf t cols].typ = t := by
  obtain ⟨i, h1, h2, h3⟩ := findCol_of_mem t cols h
  unfold idxOf
  rw [h1]
  exact ⟨rfl, h2, h3⟩

theorem getElem?_eq_some_col (v : Vals) (i : Nat) (hi : i < v.length) : v[i]? = some (col i v) := by
  unfold col
  rw [List.getElem?_eq_getElem hi]; rfl

theorem vals_eq_range_map (v : Vals) : v = (List.range v.length).map (fun i => col i v) := by
  apply List.ext_getElem?
  intro i
  by_cases hi : i < v.length
  · rw [getElem?_eq_some_col v i hi, List.getElem?_map, List.getElem?_range hi]; rfl
  · rw [List.getElem?_eq_none (by omega), List.getElem?_eq_none (by simp; omega)]

/-- the column of `p` named `t` (first match), as a total function for the statement below. -/
def colOf (p : TProf) (t : Nat) : ColT := (p.cols[idxOf t p.cols]?).getD ⟨t, ⟨0, 0, 0⟩⟩

/-- **specification of `compatibilizeSampleTypes`**: the columns become exactly `st` (in that
order), each taken with its unit from the column of that name, every sample is kept with its key,
and its `j`-th value is the value it had in the column named `st[j]`. -/
theorem compatibilizeOne_spec (st : List Nat) (p : TProf) (hst : st ≠ [])
    (hin : ∀ t ∈ st, t ∈ p.types) (hw : WF p.cols.length p.samples) :
    compatibilizeOne st p = .ok ⟨st.map (colOf p),
      p.samples.map (fun s => (s.1, st.map (fun t => col (idxOf t p.cols) s.2)))⟩ := by
  unfold compatibilizeOne
  rw [if_neg hst]
  have hre : mapMO (fun t => findCol t p.cols) st = some (st.map (fun t => idxOf t p.cols)) :=
    mapMO_eq_some_map _ _ _ (fun t ht => (findCol_idxOf t p.cols (hin t ht)).1)
  rw [hre]
  simp only
  have hcols : mapMO (fun i => p.cols[i]?) (st.map (fun t => idxOf t p.cols)) = some (st.map (colOf p)) := by
    rw [show st.map (colOf p) = (st.map (fun t => idxOf t p.cols)).map (fun i => (p.cols[i]?).getD ⟨0, ⟨0, 0, 0⟩⟩) by
      rw [List.map_map]; apply List.map_congr_left; intro t ht
      obtain ⟨_, hi, _⟩ := findCol_idxOf t p.cols (hin t ht)
      simp [colOf, List.getElem?_eq_getElem hi]]
    apply mapMO_eq_some_map
    intro i hi
    obtain ⟨t, ht, rfl⟩ := List.mem_map.mp hi
    obtain ⟨_, hi', _⟩ := findCol_idxOf t p.cols (hin t ht)
    simp [List.getElem?_eq_getElem hi']
  have hvals : ∀ s ∈ p.samples, mapMO (fun i => s.2[i]?) (st.map (fun t => idxOf t p.cols))
      = some (st.map (fun t => col (idxOf t p.cols) s.2)) := by
    intro s hs
    rw [show st.map (fun t => col (idxOf t p.cols) s.2) = (st.map (fun t => idxOf t p.cols)).map (fun i => col i s.2) by
      rw [List.map_map]; rfl]
    apply mapMO_eq_some_map
    intro i hi
    obtain ⟨t, ht, rfl⟩ := List.mem_map.mp hi
    obtain ⟨_, hi', _⟩ := findCol_idxOf t p.cols (hin t ht)
    exact getElem?_eq_some_col s.2 _ (by rw [hw s hs]; exact hi')
  have hss : mapMO (fun (s : Sample) => (mapMO (fun i => s.2[i]?) (st.map (fun t => idxOf t p.cols))).map (fun v => (s.1, v))) p.samples
      = some (p.samples.map (fun s => (s.1, st.map (fun t => col (idxOf t p.cols) s.2)))) := by
    apply mapMO_eq_some_map
    intro s hs
    rw [hvals s hs]; rfl
  split
  · -- early return: nothing to modify
    rename_i hid
    obtain ⟨h1, h2⟩ := hid
    have hidx : ∀ j (hj : j < st.length), idxOf st[j] p.cols = j := by
      intro j hj
      have := congrArg (fun l => l[j]?) h1
      simp only [List.getElem?_map, List.getElem?_eq_getElem hj, Option.map_some, List.getElem?_range hj] at this
      exact Option.some.inj this
    have hc : st.map (colOf p) = p.cols := by
      apply List.ext_getElem?
      intro j
      by_cases hj : j < st.length
      · have hj' : j < p.cols.length := by omega
        rw [List.getElem?_map, List.getElem?_eq_getElem hj, List.getElem?_eq_getElem hj']
        simp [colOf, hidx j hj, List.getElem?_eq_getElem hj']
      · rw [List.getElem?_eq_none (by simp; omega), List.getElem?_eq_none (by omega)]
    have hs : p.samples.map (fun s => (s.1, st.map (fun t => col (idxOf t p.cols) s.2))) = p.samples := by
      conv_rhs => rw [← List.map_id p.samples]
      apply List.map_congr_left
      intro s hs
      have hl : s.2.length = st.length := by rw [hw s hs, h2]
      have : st.map (fun t => col (idxOf t p.cols) s.2) = s.2 := by
        conv_rhs => rw [vals_eq_range_map s.2]
        apply List.ext_getElem?
        intro j
        by_cases hj : j < st.length
        · rw [List.getElem?_map, List.getElem?_eq_getElem hj, List.getElem?_map,
            List.getElem?_range (by omega)]
          simp [hidx j hj]
        · rw [List.getElem?_eq_none (by simp; omega), List.getElem?_eq_none (by simp; omega)]
      simp [this]
    rw [hc, hs]
  · rw [hcols, hss]

theorem count_nodup (t : Nat) (l : List Nat) (h : l.Nodup) : l.count t = if t ∈ l then 1 else 0 := by
  induction l with
  | nil => simp
  | cons a r ih =>
    rw [List.nodup_cons] at h
    rw [List.count_cons, ih h.2]
    by_cases hat : a = t
    · subst hat; simp [h.1]
    · have : ¬ t = a := fun e => hat e.symm
      simp [hat, this]

theorem countOcc_spec (t : Nat) (ps : List TProf) (hn : ∀ p ∈ ps, p.types.Nodup) :
    countOcc t ps ≤ ps.length ∧ (countOcc t ps = ps.length ↔ ∀ p ∈ ps, t ∈ p.types) := by
  induction ps with
  | nil => simp [countOcc]
  | cons p r ih =>
    have ih' := ih (fun q hq => hn q (by simp [hq]))
    have hc := count_nodup t p.types (hn p (by simp))
    unfold countOcc at ih' ⊢
    simp only [List.map_cons, List.sum_cons, List.length_cons, List.mem_cons, forall_eq_or_imp]
    rw [hc]
    by_cases ht : t ∈ p.types
    · simp only [ht, if_true, true_and]
      constructor
      · omega
      · rw [← ih'.2]; omega
    · simp only [ht, if_false, false_and, iff_false]
      omega

/-- the common sample types are those of the first profile that occur in every profile. -/
theorem commonTypes_mem (p0 : TProf) (ps : List TProf) (hn : ∀ p ∈ p0 :: ps, p.types.Nodup) (t : Nat) :
    t ∈ commonTypes (p0 :: ps) ↔ ∀ p ∈ p0 :: ps, t ∈ p.types := by
  unfold commonTypes
  rw [List.mem_filter]
  have := (countOcc_spec t (p0 :: ps) hn).2
  constructor
  · rintro ⟨_, h⟩
    exact this.mp (by simpa using h)
  · intro h
    exact ⟨h p0 (by simp), by simpa using this.mpr h⟩

theorem commonTypes_sublist (p0 : TProf) (ps : List TProf) :
    (commonTypes (p0 :: ps)).Sublist p0.types := by
  unfold commonTypes
  exact List.filter_sublist

theorem compatibilize_ok (ps : List TProf) (hne : commonTypes ps ≠ [])
    (hin : ∀ p ∈ ps, ∀ t ∈ commonTypes ps, t ∈ p.types)
    (hw : ∀ p ∈ ps, WF p.cols.length p.samples) :
    compatibilize ps = .ok (ps.map (fun p => ⟨(commonTypes ps).map (colOf p),
      p.samples.map (fun s => (s.1, (commonTypes ps).map (fun t => col (idxOf t p.cols) s.2)))⟩)) := by
  unfold compatibilize
  simp only [hne, if_false]
  apply mapMOutcome_eq_ok_map
  intro p hp
  exact compatibilizeOne_spec _ p hne (hin p hp) (hw p hp)

/-! ### units -/

/-- `CommonValueType` returns a member with the smallest factor (the finest unit) when all the
units belong to one family. -/
theorem commonUnitGo_finest (f : Nat) (hf : f ≠ 0) (min : ColT) (ts : List ColT) (c : ColT)
    (hfam : ∀ t ∈ min :: ts, t.unit.fam = f) (h : commonUnitGo min ts = .ok c) :
    c ∈ min :: ts ∧ ∀ t ∈ min :: ts, c.unit.factor ≤ t.unit.factor := by
  induction ts generalizing min with
  | nil =>
    unfold commonUnitGo at h
    cases h
    simp
  | cons t ts ih =>
    unfold commonUnitGo at h
    split at h
    · cases h
    · have hmin := hfam min (by simp)
      have ht := hfam t (by simp)
      by_cases hfi : finer t.unit min.unit = true
      · rw [if_pos hfi] at h
        obtain ⟨h1, h2⟩ := ih t (fun u hu => hfam u (by
          rcases List.mem_cons.mp hu with hu | hu
          · simp [hu]
          · simp [hu])) h
        have hlt : t.unit.factor < min.unit.factor := by
          unfold finer at hfi
          simp only [Bool.and_eq_true, decide_eq_true_eq] at hfi
          exact hfi.2
        refine ⟨?_, ?_⟩
        · rcases List.mem_cons.mp h1 with h1 | h1
          · simp [h1]
          · simp [h1]
        · intro u hu
          rcases List.mem_cons.mp hu with hu | hu
          · subst hu
            have := h2 t (by simp)
            omega
          · exact h2 u hu
      · rw [if_neg hfi] at h
        obtain ⟨h1, h2⟩ := ih min (fun u hu => hfam u (by
          rcases List.mem_cons.mp hu with hu | hu
          · simp [hu]
          · simp [hu])) h
        have hge : min.unit.factor ≤ t.unit.factor := by
          unfold finer at hfi
          simp only [Bool.and_eq_true, decide_eq_true_eq, bne_iff_ne, ne_eq, beq_iff_eq] at hfi
          by_contra hc
          exact hfi ⟨⟨by rw [ht]; exact hf, by rw [ht, hmin]⟩, by omega⟩
        refine ⟨?_, ?_⟩
        · rcases List.mem_cons.mp h1 with h1 | h1
          · simp [h1]
          · simp [h1]
        · intro u hu
          rcases List.mem_cons.mp hu with hu | hu
          · exact h2 u (by simp [hu])
          · rcases List.mem_cons.mp hu with hu | hu
            · subst hu
              have := h2 min (by simp)
              omega
            · exact h2 u (by simp [hu])

/-! ### diff-base total -/

theorem addSample_nil (s : Sample) : addSample [] s = [s] := rfl
theorem addSample_cons_eq (k : StackKey) (v : Vals) (r : Prof) (s : Sample) (h : k = s.1) :
    addSample ((k, v) :: r) s = (k, vadd v s.2) :: r := by
  simp [addSample, h]
theorem addSample_cons_ne (k : StackKey) (v : Vals) (r : Prof) (s : Sample) (h : ¬ k = s.1) :
    addSample ((k, v) :: r) s = (k, v) :: addSample r s := by
  simp [addSample, h]

theorem addSample_filter (P : StackKey → Bool) (acc : Prof) (s : Sample) :
    (addSample acc s).filter (fun x => P x.1) =
      if P s.1 then addSample (acc.filter (fun x => P x.1)) s else acc.filter (fun x => P x.1) := by
  induction acc with
  | nil =>
    cases h : P s.1 <;> simp [addSample_nil, h]
  | cons a r ih =>
    obtain ⟨k, v⟩ := a
    by_cases hk : k = s.1
    · rw [addSample_cons_eq k v r s hk]
      cases h : P s.1
      · have hk' : P k = false := by rw [hk]; exact h
        simp [hk']
      · have hk' : P k = true := by rw [hk]; exact h
        simp [hk', addSample_cons_eq k v _ s hk]
    · rw [addSample_cons_ne k v r s hk, List.filter_cons, ih]
      cases h : P s.1 <;> cases hk2 : P k <;> simp [hk2, addSample_cons_ne k v _ s hk]

theorem foldl_addSample_filter (P : StackKey → Bool) (q acc : Prof) :
    (q.foldl addSample acc).filter (fun x => P x.1) =
      (q.filter (fun x => P x.1)).foldl addSample (acc.filter (fun x => P x.1)) := by
  induction q generalizing acc with
  | nil => simp
  | cons s r ih =>
    simp only [List.foldl_cons]
    rw [ih, addSample_filter]
    by_cases h : P s.1 = true
    · simp [h]
    · simp [h]

theorem merge_filter (P : StackKey → Bool) (q : Prof) :
    (merge q).filter (fun x => P x.1) = merge (q.filter (fun x => P x.1)) := by
  unfold merge dropZero mergeRaw
  rw [List.filter_filter]
  conv_lhs => rw [show (fun (a : Sample) => (P a.1 && !isZero a.2)) = (fun a => (!isZero a.2) && P a.1) by
    funext a; exact Bool.and_comm _ _]
  rw [← List.filter_filter, foldl_addSample_filter]
  simp only [List.filter_nil]
  congr 2
  rw [List.filter_filter, List.filter_filter]
  congr 1
  funext a; exact Bool.and_comm _ _

theorem addSample_fresh (acc : Prof) (s : Sample) (h : s.1 ∉ keys acc) : addSample acc s = acc ++ [s] := by
  induction acc with
  | nil => rfl
  | cons a r ih =>
    obtain ⟨k, v⟩ := a
    unfold keys at h ih
    simp only [List.map_cons, List.mem_cons, not_or] at h
    unfold addSample
    have : ¬ k = s.1 := fun e => h.1 e.symm
    simp [this, ih h.2]

theorem foldl_addSample_nodup_id (q acc : Prof) (h : (keys (acc ++ q)).Nodup) :
    q.foldl addSample acc = acc ++ q := by
  induction q generalizing acc with
  | nil => simp
  | cons s r ih =>
    simp only [List.foldl_cons]
    have hs : s.1 ∉ keys acc := by
      unfold keys at h ⊢
      rw [List.map_append, List.nodup_append] at h
      intro hm
      exact h.2.2 _ hm _ (by simp) rfl
    rw [addSample_fresh acc s hs, ih]
    · simp
    · simpa using h

theorem mergeRaw_nodup_id (q : Prof) (h : (keys q).Nodup) : mergeRaw q = q := by
  unfold mergeRaw
  rw [foldl_addSample_nodup_id q [] (by simpa using h)]; simp

theorem dropZero_idem (p : Prof) : dropZero (dropZero p) = dropZero p := by
  unfold dropZero; rw [List.filter_filter]; simp

theorem keys_filter_nodup (p : Prof) (f : Sample → Bool) (h : (keys p).Nodup) : (keys (p.filter f)).Nodup := by
  unfold keys at h ⊢
  exact List.Nodup.sublist (List.Sublist.map _ List.filter_sublist) h

theorem merge_nodup_id (q : Prof) (h : (keys q).Nodup) : merge q = dropZero q := by
  unfold merge
  have := mergeRaw_nodup_id (dropZero q) (by unfold dropZero; exact keys_filter_nodup q _ h)
  rw [this, dropZero_idem]

theorem absTotal_dropZero (sel : Vals → Int) (p : Prof) (h0 : ∀ v, isZero v = true → sel v = 0) :
    absTotal sel (dropZero p) = absTotal sel p := by
  induction p with
  | nil => rfl
  | cons s r ih =>
    unfold dropZero at ih ⊢
    rw [List.filter_cons]
    by_cases hz : isZero s.2 = true
    · simp [hz, absTotal, ih, h0 _ hz, absI]
    · simp [hz, absTotal, ih]

theorem absTotal_neg_map (i : Nat) (p : Prof) :
    absTotal (col i) (p.map (fun s => (s.1, s.2.map (fun x => -x)))) = absTotal (col i) p := by
  induction p with
  | nil => rfl
  | cons s r ih =>
    simp only [List.map_cons, absTotal, ih, col_map_neg]
    congr 1
    unfold absI
    split <;> split <;> omega

theorem absTotal_neg (i : Nat) (p : Prof) : absTotal (col i) (neg p) = absTotal (col i) p := by
  unfold neg
  rw [absTotal_dropZero _ _ (col_of_isZero i), absTotal_neg_map]

theorem absTotal_setBase (sel : Vals → Int) (p : Prof) : absTotal sel (setBase p) = absTotal sel p := by
  induction p with
  | nil => rfl
  | cons s r ih => unfold setBase at ih ⊢; simp [absTotal, ih]

theorem keys_neg_setBase_nodup (b : Prof) (hb : ∀ s ∈ b, s.1.base = false) (hnd : (keys b).Nodup) :
    (keys (neg (setBase b))).Nodup := by
  unfold neg
  apply keys_filter_nodup
  unfold keys setBase
  rw [List.map_map, List.map_map]
  unfold keys at hnd
  apply List.Nodup.map_on _ (List.Nodup.of_map _ hnd)
  intro x hx y hy hxy
  simp only [Function.comp] at hxy
  have hk : x.1 = y.1 := by
    have hx0 := hb x hx
    have hy0 := hb y hy
    obtain ⟨⟨fx, tx, bx⟩, vx⟩ := x
    obtain ⟨⟨fy, ty, by'⟩, vy⟩ := y
    simp only [StackKey.mk.injEq] at hxy ⊢
    simp only at hx0 hy0
    exact ⟨hxy.1, hxy.2.1, by rw [hx0, hy0]⟩
  exact List.inj_on_of_nodup_map hnd hx hy hk

theorem filter_base_src (src : Prof) (h : ∀ s ∈ src, s.1.base = false) :
    src.filter (fun s => s.1.base) = [] := by
  rw [List.filter_eq_nil_iff]
  intro s hs
  simp [h s hs]

theorem filter_base_negSetBase (b : Prof) :
    (neg (setBase b)).filter (fun s => s.1.base) = neg (setBase b) := by
  rw [List.filter_eq_self]
  intro s hs
  unfold neg dropZero at hs
  obtain ⟨t, ht, rfl⟩ := List.mem_map.mp (List.mem_filter.mp hs).1
  unfold setBase at ht
  obtain ⟨u, hu, rfl⟩ := List.mem_map.mp ht
  rfl

theorem diffBase_filter_merge (src b : Prof) (hsrc : ∀ s ∈ src, s.1.base = false)
    (hb : ∀ s ∈ b, s.1.base = false) (hnd : (keys b).Nodup) (i : Nat) :
    absTotal (col i) ((merge (src ++ neg (setBase b))).filter (fun s => s.1.base)) = absTotal (col i) b := by
  rw [merge_filter (fun k => k.base), List.filter_append, filter_base_src src hsrc, filter_base_negSetBase,
    List.nil_append, merge_nodup_id _ (keys_neg_setBase_nodup b hb hnd),
    absTotal_dropZero _ _ (col_of_isZero i), absTotal_neg, absTotal_setBase]

end PV.Combine

namespace PV.Combine

/-! ### the pinned survival rule agrees with the repaired one when every column is scaled -/

theorem keepPinned_eq (rs : List Ratio) (v : Vals) (h1 : ∀ r ∈ rs, r.isOne = false) :
    keepPinned rs v = !isZero (scaleVec rs v) := by
  induction rs generalizing v with
  | nil => simp [keepPinned, scaleVec, isZero]
  | cons r rs ih =>
    cases v with
    | nil => simp [keepPinned, scaleVec, isZero]
    | cons x xs =>
      have hr : r.isOne = false := h1 r (by simp)
      have := ih xs (fun q hq => h1 q (by simp [hq]))
      unfold keepPinned scaleVec isZero at this ⊢
      simp only [List.zipWith_cons_cons, List.any_cons, List.all_cons, hr, Bool.not_false, Bool.true_and,
        Bool.false_eq_true, if_false, id, this]
      cases hx : (scaleVal r x == 0) <;> simp [hx, bne]

theorem scaleNPinned_eq_scaleN (rs : List Ratio) (n : Nat) (p : Prof)
    (h1 : ∀ r ∈ rs, r.isOne = false) : scaleNPinned rs n p = scaleN rs n p := by
  unfold scaleNPinned scaleN
  split
  · rfl
  · split
    · rfl
    · split
      · rfl
      · congr 1
        unfold dropZero
        rw [List.filter_map]
        congr 1
        apply List.filter_congr
        intro s _
        simp only [Function.comp]
        exact keepPinned_eq rs s.2 h1

end PV.Combine
