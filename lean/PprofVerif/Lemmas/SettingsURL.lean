import PprofVerif.Lemmas.SettingsDecimal
import PprofVerif.Lemmas.SettingsJSON
/-! Option ↔ URL round trip (C19): `applyURL defaults (makeURL cfg u) = normURL cfg`. -/
namespace PV.Settings

/-! ### queries -/

theorem qget_qdel (q : Query) (k k' : Str) : qget (qdel q k) k' = if k = k' then [] else qget q k' := by
  induction q with
  | nil => simp [qdel, qget]
  | cons p r ih =>
    obtain ⟨a, b⟩ := p
    unfold qdel at ih ⊢
    by_cases h : a = k
    · subst h
      by_cases h' : a = k' <;> simp_all [qget]
    · by_cases h' : k = k'
      · subst h'; simp_all [qget]
      · by_cases h'' : a = k' <;> simp_all [qget]

theorem qget_qset (q : Query) (k v k' : Str) : qget (qset q k v) k' = if k = k' then v else qget q k' := by
  unfold qset
  by_cases h : k = k'
  · simp [qget, h]
  · simp [qget, h, qget_qdel]

/-! ### per-field round trip -/

/-- what the theorem needs of a value: right Go type, ints within int64, floats in canonical text
(fixed points of parse∘print), choice fields hold "" or one of their choices. -/
def ValOK (fo : FloatOps) (f : FieldSpec) (v : Val) : Prop :=
  hasKind f.kind v = true ∧
  match v with
  | .i n => inI64 n = true
  | .f t => fo.parse t = some t ∧ t ≠ []
  | .s s => f.kind = .choice → (s = [] ∨ s ∈ f.choices)
  | .b _ => True

def WF (fo : FloatOps) : List FieldSpec → Config → Prop
  | [], [] => True
  | f :: fs, v :: vs => ValOK fo f v ∧ WF fo fs vs
  | _, _ => False

theorem WF.typed {fo : FloatOps} : ∀ {fs : List FieldSpec} {c : Config}, WF fo fs c → Typed fs c
  | [], [], _ => trivial
  | _ :: fs, _ :: vs, h => ⟨h.1.1, WF.typed (fs := fs) (c := vs) h.2⟩
  | [], _ :: _, h => by simp [WF] at h
  | _ :: _, [], h => by simp [WF] at h

theorem stb_true : stringToBool (b!"true".take 1) = some true := by decide
theorem stb_false : stringToBool (b!"false".take 1) = some false := by decide

/-- the heart of the round trip, for one field: either the URL value is "" and the default is the
(normalised) value, or `set` parses the URL value back to the value. -/
theorem field_roundtrip (fo : FloatOps) (f : FieldSpec) (v : Val) (hd : defaultTyped f = true)
    (hv : ValOK fo f v) :
    (if urlVal f v = [] then some f.default else setVal fo f (urlVal f v)) = some (normVal f v) := by
  obtain ⟨hk, hv⟩ := hv
  unfold defaultTyped at hd
  simp only [Bool.and_eq_true] at hd
  obtain ⟨⟨hdk, hdr⟩, hch⟩ := hd
  unfold urlVal normVal
  cases hkind : f.kind <;> rw [hkind] at hk hdk hch <;> cases v <;> simp [hasKind] at hk <;>
    cases hdef : f.default <;> rw [hdef] at hdk hdr <;> simp [hasKind] at hdk
  · -- bool
    rename_i b d
    cases b <;> cases d <;> simp [getStr, setVal, hkind, stb_true, stb_false] <;> decide
  · -- int
    rename_i n d
    simp only at hv hdr
    by_cases he : showInt n = showInt d
    · have := showInt_inj hv hdr he
      subst this
      simp [getStr]
    · simp [getStr, he, showInt_ne_nil, setVal, hkind, atoi_showInt n hv]
  · -- float
    rename_i t d
    simp only at hv
    by_cases he : t = d
    · subst he; simp [getStr]
    · simp [getStr, he, hv.2, setVal, hkind, hv.1]
  · -- string
    rename_i s d
    by_cases he : s = d
    · subst he
      by_cases h0 : s = [] <;> simp [getStr, h0]
    · by_cases h0 : s = []
      · subst h0; simp [getStr, he]
      · simp [getStr, he, h0, setVal, hkind]
  · -- choice
    rename_i s d
    simp only at hv
    by_cases he : s = d
    · subst he
      by_cases h0 : s = [] <;> simp [getStr, h0]
    · by_cases h0 : s = []
      · subst h0; simp [getStr, he]
      · have hm : s ∈ f.choices := by
          rcases hv hkind with h | h
          · exact absurd h h0
          · exact h
        simp [getStr, he, h0, setVal, hkind, hm]

/-! ### what `makeURL` leaves in the query -/

def urlParams (fs : List FieldSpec) : List Str := (fs.filter (fun f => decide (f.urlparam ≠ []))).map (·.urlparam)

theorem urlParams_cons (f : FieldSpec) (fs : List FieldSpec) :
    urlParams (f :: fs) = if f.urlparam ≠ [] then f.urlparam :: urlParams fs else urlParams fs := by
  unfold urlParams
  by_cases h : f.urlparam = [] <;> simp [List.filter_cons, h]

/-- URL value `makeURL` assigns to parameter `p` (first URL-carried field with that parameter). -/
def urlOf : List FieldSpec → Config → Str → Option Str
  | f :: fs, v :: vs, p => if inURL f = true ∧ f.urlparam = p then some (urlVal f v) else urlOf fs vs p
  | _, _, _ => none

theorem urlOf_none (p : Str) : ∀ (fs : List FieldSpec) (c : Config), p ∉ urlParams fs → urlOf fs c p = none := by
  intro fs
  induction fs with
  | nil => intro c _; cases c <;> rfl
  | cons f fs ih =>
    intro c hp
    cases c with
    | nil => rfl
    | cons v vs =>
      rw [urlParams_cons] at hp
      simp only [urlOf]
      by_cases hu : f.urlparam = []
      · simp only [hu, ne_eq, not_true_eq_false, if_false] at hp
        have : ¬ (inURL f = true ∧ f.urlparam = p) := by
          intro h; simp [inURL, hu] at h
        simp [this, ih vs hp]
      · simp only [ne_eq, hu, not_false_eq_true, if_true, List.mem_cons, not_or] at hp
        have : ¬ (inURL f = true ∧ f.urlparam = p) := fun h => hp.1 h.2.symm
        simp [this, ih vs hp.2]

theorem makeURL_get : ∀ (fs : List FieldSpec) (c : Config) (q : Query) (p : Str),
    allDistinct (urlParams fs) = true →
    qget (makeURL fs c q).1 p = (match urlOf fs c p with | some x => x | none => qget q p) := by
  intro fs
  induction fs with
  | nil => intro c q p _; cases c <;> simp [makeURL, urlOf]
  | cons f fs ih =>
    intro c q p hd
    cases c with
    | nil => simp [makeURL, urlOf]
    | cons v vs =>
      rw [urlParams_cons] at hd
      simp only [makeURL, urlOf]
      by_cases hin : inURL f = true
      · have hu : f.urlparam ≠ [] := by
          intro h; simp [inURL, h] at hin
        simp only [ne_eq, hu, not_false_eq_true, if_true, allDistinct_cons] at hd
        simp only [hin, if_true, true_and]
        -- the query handed to the rest of the table
        have key : ∀ q' : Query, (∀ p', qget q' p' = if f.urlparam = p' then urlVal f v else qget q p') →
            qget (makeURL fs vs q').1 p =
              (match (if f.urlparam = p then some (urlVal f v) else urlOf fs vs p) with
               | some x => x | none => qget q p) := by
          intro q' hq'
          rw [ih vs q' p hd.2]
          by_cases hp : f.urlparam = p
          · subst hp
            simp [urlOf_none f.urlparam fs vs hd.1, hq']
          · simp [hp, hq']
        by_cases hsame : qget q f.urlparam = urlVal f v
        · simp only [hsame, if_true]
          apply key
          intro p'
          by_cases hp' : f.urlparam = p'
          · subst hp'; simp [hsame]
          · simp [hp']
        · simp only [hsame, if_false]
          apply key
          intro p'
          by_cases hx : urlVal f v = []
          · simp only [hx, if_true, qget_qdel]
          · simp only [hx, if_false, qget_qset]
      · simp only [Bool.not_eq_true] at hin
        simp only [hin, Bool.false_eq_true, if_false, false_and]
        by_cases hu : f.urlparam = []
        · simp only [hu, ne_eq, not_true_eq_false, if_false] at hd
          exact ih vs q p hd
        · simp only [ne_eq, hu, not_false_eq_true, if_true, allDistinct_cons] at hd
          exact ih vs q p hd.2

/-- the value `makeURL` assigns to the parameter of a table row. -/
theorem urlOf_row : ∀ (fs : List FieldSpec) (c : Config), allDistinct (urlParams fs) = true →
    ∀ f v, (f, v) ∈ List.zip fs c → f.urlparam ≠ [] →
      urlOf fs c f.urlparam = if inURL f = true then some (urlVal f v) else none := by
  intro fs
  induction fs with
  | nil => intro c _ f v h; simp at h
  | cons f0 fs ih =>
    intro c hd f v hm hu
    cases c with
    | nil => simp at hm
    | cons v0 vs =>
      rw [urlParams_cons] at hd
      simp only [List.zip_cons_cons, List.mem_cons, Prod.mk.injEq] at hm
      rcases hm with ⟨hf, hv⟩ | hm
      · subst hf; subst hv
        simp only [ne_eq, hu, not_false_eq_true, if_true, allDistinct_cons] at hd
        simp only [urlOf, and_true]
        by_cases hin : inURL f = true
        · simp [hin]
        · simp only [Bool.not_eq_true] at hin
          simp [hin, urlOf_none f.urlparam fs vs hd.1]
      · have hmem : f.urlparam ∈ urlParams fs := by
          unfold urlParams
          exact List.mem_map.2 ⟨f, List.mem_filter.2 ⟨(List.of_mem_zip hm).1, by simpa using hu⟩, rfl⟩
        by_cases hu0 : f0.urlparam = []
        · simp only [hu0, ne_eq, not_true_eq_false, if_false] at hd
          have : ¬ (inURL f0 = true ∧ f0.urlparam = f.urlparam) := by
            intro h; simp [inURL, hu0] at h
          simp only [urlOf, this, if_false]
          exact ih vs hd f v hm hu
        · simp only [ne_eq, hu0, not_false_eq_true, if_true, allDistinct_cons] at hd
          have hne : f0.urlparam ≠ f.urlparam := fun e => hd.1 (e ▸ hmem)
          simp only [urlOf, hne, and_false, if_false]
          exact ih vs hd.2 f v hm hu

/-! ### `applyURL` against a query that holds exactly the table's URL values -/

theorem applyURL_of_query (fo : FloatOps) (q : Query) : ∀ (fs : List FieldSpec) (c : Config),
    (∀ f ∈ fs, defaultTyped f = true) → WF fo fs c →
    (∀ f v, (f, v) ∈ List.zip fs c → f.urlparam ≠ [] →
      qget q f.urlparam = if inURL f = true then urlVal f v else []) →
    applyURL fo fs (defaults fs) q = some (normURL fs c) := by
  intro fs
  induction fs with
  | nil => intro c _ hw _; cases c <;> simp_all [applyURL, normURL, defaults, WF]
  | cons f fs ih =>
    intro c hdt hw hq
    cases c with
    | nil => simp [WF] at hw
    | cons v vs =>
      have hrest := ih vs (fun g hg => hdt g (by simp [hg])) hw.2
        (fun g w hm hu => hq g w (by simp [hm]) hu)
      have hrest' : applyURL fo fs (List.map (fun x => x.default) fs) q = some (normURL fs vs) := hrest
      simp only [defaults, List.map_cons, applyURL, normURL]
      by_cases hu : f.urlparam = []
      · have hin : inURL f = false := by simp [inURL, hu]
        simp [hu, hin, hrest']
      · have hqf := hq f v (by simp) hu
        simp only [ne_eq, hu, not_false_eq_true, if_true]
        by_cases hin : inURL f = true
        · simp only [hin, if_true] at hqf
          have hfr := field_roundtrip fo f v (hdt f (by simp)) hw.1
          rw [hqf]
          by_cases hx : urlVal f v = []
          · simp only [hx, if_true] at hfr ⊢
            simp only [Option.some.injEq] at hfr
            simp [hin, hrest', hfr]
          · simp only [hx, if_false] at hfr ⊢
            rw [hfr]
            simp [hin, hrest']
        · simp only [Bool.not_eq_true] at hin
          simp only [hin, Bool.false_eq_true, if_false] at hqf
          simp [hqf, hin, hrest']

/-- **URL round trip.** -/
theorem applyURL_makeURL (fo : FloatOps) (fs : List FieldSpec) (hT : urlTableOK fs = true) (c : Config)
    (hw : WF fo fs c) (u : Query) (hu : ∀ f ∈ fs, inURL f = false → qget u f.urlparam = []) :
    applyURL fo fs (defaults fs) (makeURL fs c u).1 = some (normURL fs c) := by
  unfold urlTableOK at hT
  simp only [Bool.and_eq_true, List.all_eq_true] at hT
  obtain ⟨⟨hd, hdt⟩, _⟩ := hT
  have hd' : allDistinct (urlParams fs) = true := hd
  apply applyURL_of_query fo _ fs c hdt hw
  intro f v hm hup
  rw [makeURL_get fs c u f.urlparam hd', urlOf_row fs c hd' f v hm hup]
  by_cases hin : inURL f = true
  · simp [hin]
  · simp only [Bool.not_eq_true] at hin
    simp [hin, hu f (List.of_mem_zip hm).1 hin]

theorem normURL_eq_normSaved : ∀ (fs : List FieldSpec) (c : Config), allSavedInURL fs = true →
    normURL fs c = normSaved fs c := by
  intro fs
  induction fs with
  | nil => intro c _; cases c <;> rfl
  | cons f fs ih =>
    intro c h
    cases c with
    | nil => rfl
    | cons v vs =>
      unfold allSavedInURL at h ih
      simp only [List.all_cons, Bool.and_eq_true] at h
      have hi : inURL f = f.saved := by
        unfold inURL
        cases hs : f.saved <;> simp_all
      simp [normURL, normSaved, hi, ih vs h.2]

end PV.Settings
