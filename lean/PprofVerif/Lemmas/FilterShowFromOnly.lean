import PprofVerif.Model.Filter
/-!
# C06 helper lemmas: ShowFrom only ever removes, and only from the root side (unconditional)
-/
namespace PV.Filter
open PV

theorem keepThroughLast_prefix {α} (q : α → Bool) (L r : List α) (h : keepThroughLast q L = some r) :
    r <+: L ∧ r ≠ [] := by
  induction L generalizing r with
  | nil => simp [keepThroughLast] at h
  | cons a t ih =>
    unfold keepThroughLast at h
    split at h
    · rename_i r' hr'
      cases h
      exact ⟨(List.prefix_cons_inj a).mpr (ih r' hr').1, by simp⟩
    · split at h
      · cases h; exact ⟨⟨t, rfl⟩, by simp⟩
      · cases h

theorem showFromSample_prefix (p : Profile) (re : Rx) (s s' : Sample) (h : showFromSample p re s = some s') :
    s'.locationIDs <+: s.locationIDs ∧ s'.locationIDs ≠ [] ∧ s'.values = s.values ∧ s'.label = s.label ∧
      s'.numLabel = s.numLabel ∧ s'.numUnit = s.numUnit := by
  unfold showFromSample at h
  split at h
  · rename_i ids hk
    cases h
    have := keepThroughLast_prefix _ _ _ hk
    exact ⟨this.1, this.2, rfl, rfl, rfl, rfl⟩
  · cases h

theorem showFromLoc_prefix (p : Profile) (re : Rx) (l : Location) :
    (showFromLoc p re l).1.lines <+: l.lines ∧ (showFromLoc p re l).1.id = l.id := by
  unfold showFromLoc
  split
  · exact ⟨List.prefix_refl _, rfl⟩
  · split
    · rename_i ls hk
      exact ⟨(keepThroughLast_prefix _ _ _ hk).1, rfl⟩
    · exact ⟨List.prefix_refl _, rfl⟩

theorem showFrom_samples_sublist (p : Profile) (re : Rx) :
    List.Sublist ((showFrom p (some re)).1.samples.map (fun s => (s.values, s.label, s.numLabel)))
      (p.samples.map (fun s => (s.values, s.label, s.numLabel))) := by
  simp only [showFrom]
  induction p.samples with
  | nil => simp
  | cons s r ih =>
    simp only [List.filterMap_cons, List.map_cons]
    split
    · exact List.Sublist.cons _ ih
    · rename_i s' hs
      have := showFromSample_prefix p re s s' hs
      rw [List.map_cons, this.2.2.1, this.2.2.2.1, this.2.2.2.2.1]
      exact List.Sublist.cons_cons _ ih
end PV.Filter
