import PprofVerif.Spec.ElfLoader
import Mathlib.Tactic.Linarith
/-! Helper lemmas for C13: the binary search of `addr2LinerNM.addrInfo`. -/
namespace PV.Elf

theorem sorted_idx (m : List Sym) (hs : SortedByAddr m) (i j : Nat) (a b : Sym)
    (hij : i ≤ j) (ha : m[i]? = some a) (hb : m[j]? = some b) : a.address ≤ b.address := by
  rcases Nat.eq_or_lt_of_le hij with h | h
  · subst h; rw [ha] at hb; cases hb; exact Nat.le_refl _
  · unfold SortedByAddr at hs
    rw [List.pairwise_iff_getElem] at hs
    obtain ⟨hi, hai⟩ := List.getElem?_eq_some_iff.1 ha
    obtain ⟨hj, hbj⟩ := List.getElem?_eq_some_iff.1 hb
    have := hs i j hi hj h
    rw [hai, hbj] at this
    exact this

/-- what the loop guarantees about its result `r` -/
def LoopPost (m : List Sym) (addr r : Nat) : Prop :=
  ∃ s, m[r]? = some s ∧ s.address ≤ addr ∧ ∀ (j : Nat) (t : Sym), m[j]? = some t → t.address ≤ addr → t.address ≤ s.address

theorem nmLoop_spec (m : List Sym) (addr : Nat) (hs : SortedByAddr m) :
    ∀ fuel low high, low < high → high ≤ m.length → high - low ≤ fuel →
      (∃ s, m[low]? = some s ∧ s.address ≤ addr) →
      (∀ s, m[high]? = some s → addr < s.address) →
      ∃ r, nmLoop m addr fuel low high = .ok r ∧ LoopPost m addr r := by
  intro fuel
  induction fuel with
  | zero => intro low high h1 _ h3; omega
  | succ n ih =>
    intro low high hlh hhl hfuel hlow hhigh
    unfold nmLoop
    by_cases hc : low + 1 < high
    · rw [if_pos hc]
      have hmid1 : low < (low + high) / 2 := by omega
      have hmid2 : (low + high) / 2 < high := by omega
      have hmidlen : (low + high) / 2 < m.length := by omega
      obtain ⟨s, hsm⟩ : ∃ s, m[(low + high) / 2]? = some s := ⟨m[(low + high) / 2], by simp [hmidlen]⟩
      simp only [hsm]
      by_cases he : addr = s.address
      · rw [if_pos he]
        refine ⟨_, rfl, s, hsm, by omega, ?_⟩
        intro j t _ ht; omega
      · rw [if_neg he]
        by_cases hg : addr > s.address
        · rw [if_pos hg]
          exact ih _ _ hmid2 hhl (by omega) ⟨s, hsm, by omega⟩ hhigh
        · rw [if_neg hg]
          refine ih _ _ hmid1 (by omega) (by omega) hlow ?_
          intro s' hs'; rw [hsm] at hs'; cases hs'; omega -- X
    · rw [if_neg hc]
      obtain ⟨s, hsl, hsa⟩ := hlow
      refine ⟨low, rfl, s, hsl, hsa, ?_⟩
      intro j t hj ht
      by_cases hjl : j ≤ low
      · exact sorted_idx m hs j low t s hjl hj hsl
      · exfalso
        have hhe : high = low + 1 := by omega
        have hjlen : j < m.length := (List.getElem?_eq_some_iff.1 hj).1
        have hhlen : high < m.length := by omega
        obtain ⟨u, hu⟩ : ∃ u, m[high]? = some u := ⟨m[high], by simp [hhlen]⟩
        have h1 := hhigh u hu
        have h2 := sorted_idx m hs high j u t (by omega) hu hj
        omega

/-- the three ways `addrInfo` can end -/
theorem addrInfo_cases (m : List Sym) (addr : Nat) (hs : SortedByAddr m) :
    (m = [] ∧ addrInfo m addr = .ok none) ∨
    (∃ f l, m.head? = some f ∧ m.getLast? = some l ∧ (addr < f.address ∨ addr ≥ add64 l.address l.size) ∧
        addrInfo m addr = .ok none) ∨
    (∃ f l r s, m.head? = some f ∧ m.getLast? = some l ∧ f.address ≤ addr ∧ addr < add64 l.address l.size ∧
        m[r]? = some s ∧ s.address ≤ addr ∧
        (∀ (j : Nat) (t : Sym), m[j]? = some t → t.address ≤ addr → t.address ≤ s.address) ∧
        addrInfo m addr = if s.isData = true ∧ addr ≥ add64 s.address s.size then .ok none else .ok (some r)) := by
  cases m with
  | nil => left; exact ⟨rfl, rfl⟩
  | cons a l =>
    right
    obtain ⟨z, hz⟩ : ∃ z, (a :: l).getLast? = some z := ⟨(a :: l).getLast (by simp), List.getLast?_eq_some_getLast (by simp)⟩
    by_cases hg : addr < a.address ∨ addr ≥ add64 z.address z.size
    · left
      refine ⟨a, z, rfl, hz, hg, ?_⟩
      unfold addrInfo
      simp only [List.head?_cons, hz]
      rw [if_pos hg]
    · right
      have hpre : ∃ s, (a :: l)[0]? = some s ∧ s.address ≤ addr := ⟨a, rfl, by omega⟩
      obtain ⟨r, hr, s, hsr, hsa, hgr⟩ := nmLoop_spec (a :: l) addr hs ((a :: l).length + 1) 0 (a :: l).length
        (by simp) (Nat.le_refl _) (by omega) hpre (by intro s h; simp at h)
      refine ⟨a, z, r, s, rfl, hz, by omega, by omega, hsr, hsa, hgr, ?_⟩
      unfold addrInfo
      simp only [List.head?_cons, hz]
      rw [if_neg hg, hr]
      simp only [hsr]

end PV.Elf
