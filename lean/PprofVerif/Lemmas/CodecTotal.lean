import PprofVerif.Model.Codec
/-!
# Totality of the wire decoder (helpers for property C02)

`decodeVarint`/`decodeField` never panic and consume at least one byte, hence the fuel
`data.length` handed to `decodeLoop`/`decodePacked` always suffices ("out of fuel" is
unreachable and any larger fuel gives the same result); none of the decoder tables of
profile/encode.go can panic; `unmarshal` never panics.  Core Lean only.
-/
namespace PV
namespace Wire

/-- `decodeVarint` consumes at least one byte. -/
theorem decodeVarintGo_lt : ∀ (data : Bytes) (i u x : Nat) (rest : Bytes),
    decodeVarintGo i u data = .ok (x, rest) → rest.length < data.length
  | [], i, u, x, rest, h => by simp [decodeVarintGo] at h
  | b :: tl, i, u, x, rest, h => by
    rw [decodeVarintGo] at h
    split at h
    · cases h
    · simp only at h
      split at h
      · cases h; simp
      · have := decodeVarintGo_lt tl _ _ _ _ h
        simp; omega

theorem decodeVarint_lt {data : Bytes} {x : Nat} {rest : Bytes}
    (h : decodeVarint data = .ok (x, rest)) : rest.length < data.length :=
  decodeVarintGo_lt data 0 0 x rest h

theorem decodeVarintGo_ne_panic : ∀ (data : Bytes) (i u : Nat) (s : String),
    decodeVarintGo i u data ≠ .panic s
  | [], i, u, s => by simp [decodeVarintGo]
  | b :: tl, i, u, s => by
    rw [decodeVarintGo]
    split
    · simp
    · simp only
      split
      · simp
      · exact decodeVarintGo_ne_panic tl _ _ s

theorem decodeVarint_ne_panic (data : Bytes) (s : String) : decodeVarint data ≠ .panic s :=
  decodeVarintGo_ne_panic data 0 0 s

end Wire
end PV

namespace PV
namespace Wire

theorem decodeField_ne_panic (data : Bytes) (s : String) : decodeField data ≠ .panic s := by
  unfold decodeField
  cases h : decodeVarint data with
  | panic e => exact absurd h (decodeVarint_ne_panic _ _)
  | err e => simp [bind, Outcome.bind]
  | ok p =>
    obtain ⟨x, d⟩ := p
    simp only [bind, Outcome.bind]
    split
    · cases h2 : decodeVarint d with
      | panic e => exact absurd h2 (decodeVarint_ne_panic _ _)
      | err e => simp
      | ok q => simp [pure]
    · split <;> simp [pure]
    · cases h2 : decodeVarint d with
      | panic e => exact absurd h2 (decodeVarint_ne_panic _ _)
      | err e => simp
      | ok q =>
        obtain ⟨n, d2⟩ := q
        simp only
        split <;> simp [pure]
    · split <;> simp [pure]
    · simp

theorem decodeField_lt {data : Bytes} {f : Field} {rest : Bytes}
    (h : decodeField data = .ok (f, rest)) : rest.length < data.length := by
  unfold decodeField at h
  cases h1 : decodeVarint data with
  | panic e => rw [h1] at h; simp [bind, Outcome.bind] at h
  | err e => rw [h1] at h; simp [bind, Outcome.bind] at h
  | ok p =>
    obtain ⟨x, d⟩ := p
    have hd := decodeVarint_lt h1
    rw [h1] at h
    simp only [bind, Outcome.bind] at h
    split at h
    · cases h2 : decodeVarint d with
      | panic e => rw [h2] at h; simp at h
      | err e => rw [h2] at h; simp at h
      | ok q =>
        obtain ⟨u, d2⟩ := q
        have := decodeVarint_lt h2
        rw [h2] at h; simp [pure] at h
        obtain ⟨_, rfl⟩ := h; omega
    · split at h
      · simp at h
      · simp [pure] at h; obtain ⟨_, rfl⟩ := h; simp; omega
    · cases h2 : decodeVarint d with
      | panic e => rw [h2] at h; simp at h
      | err e => rw [h2] at h; simp at h
      | ok q =>
        obtain ⟨n, d2⟩ := q
        have := decodeVarint_lt h2
        rw [h2] at h; simp only at h
        split at h
        · simp at h
        · simp [pure] at h; obtain ⟨_, rfl⟩ := h; simp; omega
    · split at h
      · simp at h
      · simp [pure] at h; obtain ⟨_, rfl⟩ := h; simp; omega
    · simp at h

end Wire
end PV

namespace PV
namespace Wire

/-- With `data.length` fuel (or more) the loop never reports "out of fuel" nor any other
panic, provided the per-field decoder `apply` does not panic. -/
theorem decodeLoop_ne_panic {M : Type} (apply : M → Field → Outcome M)
    (hap : ∀ m f s, apply m f ≠ .panic s) :
    ∀ (fuel : Nat) (m : M) (data : Bytes), data.length ≤ fuel → ∀ s, decodeLoop apply fuel m data ≠ .panic s
  | _, m, [], _, s => by simp [decodeLoop]
  | 0, m, _ :: _, h, s => by simp at h
  | fuel + 1, m, b :: tl, h, s => by
    rw [decodeLoop]
    cases h1 : decodeField (b :: tl) with
    | panic e => exact absurd h1 (decodeField_ne_panic _ _)
    | err e => simp
    | ok p =>
      obtain ⟨f, rest⟩ := p
      have hl := decodeField_lt h1
      simp only
      cases h2 : apply m f with
      | panic e => exact absurd h2 (hap _ _ _)
      | err e => simp
      | ok m' =>
        simp only
        exact decodeLoop_ne_panic apply hap fuel m' rest (by simp at h hl; omega) s

/-- Any sufficient amount of fuel gives the same result: the fuel parameter is only a
termination device, the model computes Go's `for len(data) > 0` loop. -/
theorem decodeLoop_fuel_irrelevant {M : Type} (apply : M → Field → Outcome M) :
    ∀ (fuel fuel' : Nat) (m : M) (data : Bytes), data.length ≤ fuel → data.length ≤ fuel' →
      decodeLoop apply fuel m data = decodeLoop apply fuel' m data
  | _, _, m, [], _, _ => by simp [decodeLoop]
  | 0, _, m, _ :: _, h, _ => by simp at h
  | _, 0, m, _ :: _, _, h => by simp at h
  | fuel + 1, fuel' + 1, m, b :: tl, h, h' => by
    rw [decodeLoop, decodeLoop]
    cases h1 : decodeField (b :: tl) with
    | panic e => rfl
    | err e => rfl
    | ok p =>
      obtain ⟨f, rest⟩ := p
      have hl := decodeField_lt h1
      simp only
      cases h2 : apply m f with
      | panic e => rfl
      | err e => rfl
      | ok m' =>
        simp only
        exact decodeLoop_fuel_irrelevant apply fuel fuel' m' rest (by simp at h hl; omega) (by simp at h' hl; omega)

theorem decodePacked_ne_panic :
    ∀ (fuel : Nat) (data : Bytes), data.length ≤ fuel → ∀ s, decodePacked fuel data ≠ .panic s
  | _, [], _, s => by simp [decodePacked]
  | 0, _ :: _, h, s => by simp at h
  | fuel + 1, b :: tl, h, s => by
    rw [decodePacked]
    cases h1 : decodeVarint (b :: tl) with
    | panic e => exact absurd h1 (decodeVarint_ne_panic _ _)
    | err e => simp [bind, Outcome.bind]
    | ok p =>
      obtain ⟨u, rest⟩ := p
      have hl := decodeVarint_lt h1
      simp only [bind, Outcome.bind]
      have ih := decodePacked_ne_panic fuel rest (by simp at h hl; omega)
      cases h2 : decodePacked fuel rest with
      | panic e => exact absurd h2 (ih _)
      | err e => simp
      | ok r => simp [pure]

theorem decodePacked_fuel_irrelevant :
    ∀ (fuel fuel' : Nat) (data : Bytes), data.length ≤ fuel → data.length ≤ fuel' →
      decodePacked fuel data = decodePacked fuel' data
  | _, _, [], _, _ => by simp [decodePacked]
  | 0, _, _ :: _, h, _ => by simp at h
  | _, 0, _ :: _, _, h => by simp at h
  | fuel + 1, fuel' + 1, b :: tl, h, h' => by
    rw [decodePacked, decodePacked]
    cases h1 : decodeVarint (b :: tl) with
    | panic e => rfl
    | err e => rfl
    | ok p =>
      obtain ⟨u, rest⟩ := p
      have hl := decodeVarint_lt h1
      simp only [bind, Outcome.bind]
      rw [decodePacked_fuel_irrelevant fuel fuel' rest (by simp at h hl; omega) (by simp at h' hl; omega)]

theorem decodeMessage_ne_panic {M : Type} (apply : M → Field → Outcome M)
    (hap : ∀ m f s, apply m f ≠ .panic s) (zero : M) (f : Field) (s : String) :
    decodeMessage apply zero f ≠ .panic s := by
  unfold decodeMessage
  split
  · simp
  · exact decodeLoop_ne_panic apply hap _ _ _ (Nat.le_refl _) s

theorem decodeInt64_ne_panic (f : Field) (s : String) : decodeInt64 f ≠ .panic s := by
  unfold decodeInt64; split <;> simp
theorem decodeUint64_ne_panic (f : Field) (s : String) : decodeUint64 f ≠ .panic s := by
  unfold decodeUint64; split <;> simp
theorem decodeBool_ne_panic (f : Field) (s : String) : decodeBool f ≠ .panic s := by
  unfold decodeBool; split <;> simp
theorem decodeString_ne_panic (f : Field) (s : String) : decodeString f ≠ .panic s := by
  unfold decodeString; split <;> simp

/-- generic: binding a non-panicking computation with a non-panicking continuation. -/
theorem bind_ne_panic {α β} {x : Outcome α} {g : α → Outcome β}
    (hx : ∀ s, x ≠ .panic s) (hg : ∀ a s, g a ≠ .panic s) (s : String) : (x >>= g) ≠ .panic s := by
  cases x with
  | ok a => exact hg a s
  | err e => simp [bind, Outcome.bind]
  | panic e => exact absurd rfl (hx e)

theorem decodeUint64s_ne_panic (f : Field) (xs : List Nat) (s : String) : decodeUint64s f xs ≠ .panic s := by
  unfold decodeUint64s
  split
  · exact bind_ne_panic (decodePacked_ne_panic _ _ (Nat.le_refl _)) (by intro a s; simp [pure]) s
  · exact bind_ne_panic (decodeUint64_ne_panic f) (by intro a s; simp [pure]) s

theorem decodeInt64s_ne_panic (f : Field) (xs : List Int) (s : String) : decodeInt64s f xs ≠ .panic s := by
  unfold decodeInt64s
  split
  · exact bind_ne_panic (decodePacked_ne_panic _ _ (Nat.le_refl _)) (by intro a s; simp [pure]) s
  · exact bind_ne_panic (decodeInt64_ne_panic f) (by intro a s; simp [pure]) s

end Wire
end PV

namespace PV
namespace Codec
open Wire

theorem pure_ne_panic {α} (a : α) (s : String) : (pure a : Outcome α) ≠ .panic s := by simp [pure]

macro "apply_np" : tactic => `(tactic|
  (split <;> first
    | exact pure_ne_panic _ _
    | exact bind_ne_panic (decodeInt64_ne_panic _) (fun _ _ => pure_ne_panic _ _) _
    | exact bind_ne_panic (decodeUint64_ne_panic _) (fun _ _ => pure_ne_panic _ _) _
    | exact bind_ne_panic (decodeBool_ne_panic _) (fun _ _ => pure_ne_panic _ _) _
    | exact bind_ne_panic (decodeUint64s_ne_panic _ _) (fun _ _ => pure_ne_panic _ _) _
    | exact bind_ne_panic (decodeInt64s_ne_panic _ _) (fun _ _ => pure_ne_panic _ _) _))

theorem ValueTypeX.apply_ne_panic (m : ValueTypeX) (f : Field) (s : String) : ValueTypeX.apply m f ≠ .panic s := by
  unfold ValueTypeX.apply; apply_np
theorem LabelX.apply_ne_panic (m : LabelX) (f : Field) (s : String) : LabelX.apply m f ≠ .panic s := by
  unfold LabelX.apply; apply_np
theorem MappingX.apply_ne_panic (m : MappingX) (f : Field) (s : String) : MappingX.apply m f ≠ .panic s := by
  unfold MappingX.apply; apply_np
theorem LineX.apply_ne_panic (m : LineX) (f : Field) (s : String) : LineX.apply m f ≠ .panic s := by
  unfold LineX.apply; apply_np
theorem FunctionX.apply_ne_panic (m : FunctionX) (f : Field) (s : String) : FunctionX.apply m f ≠ .panic s := by
  unfold FunctionX.apply; apply_np

theorem SampleX.apply_ne_panic (m : SampleX) (f : Field) (s : String) : SampleX.apply m f ≠ .panic s := by
  unfold SampleX.apply
  split
  · exact bind_ne_panic (decodeUint64s_ne_panic _ _) (fun _ _ => pure_ne_panic _ _) _
  · exact bind_ne_panic (decodeInt64s_ne_panic _ _) (fun _ _ => pure_ne_panic _ _) _
  · exact bind_ne_panic (decodeMessage_ne_panic _ LabelX.apply_ne_panic _ _) (fun _ _ => pure_ne_panic _ _) _
  · exact pure_ne_panic _ _

theorem LocationX.apply_ne_panic (m : LocationX) (f : Field) (s : String) : LocationX.apply m f ≠ .panic s := by
  unfold LocationX.apply
  split
  · exact bind_ne_panic (decodeUint64_ne_panic _) (fun _ _ => pure_ne_panic _ _) _
  · exact bind_ne_panic (decodeUint64_ne_panic _) (fun _ _ => pure_ne_panic _ _) _
  · exact bind_ne_panic (decodeUint64_ne_panic _) (fun _ _ => pure_ne_panic _ _) _
  · exact bind_ne_panic (decodeMessage_ne_panic _ LineX.apply_ne_panic _ _) (fun _ _ => pure_ne_panic _ _) _
  · exact bind_ne_panic (decodeBool_ne_panic _) (fun _ _ => pure_ne_panic _ _) _
  · exact pure_ne_panic _ _

theorem ProfileX.apply_ne_panic (m : ProfileX) (f : Field) (s : String) : ProfileX.apply m f ≠ .panic s := by
  unfold ProfileX.apply
  split
  · exact bind_ne_panic (decodeMessage_ne_panic _ ValueTypeX.apply_ne_panic _ _) (fun _ _ => pure_ne_panic _ _) _
  · exact bind_ne_panic (decodeMessage_ne_panic _ SampleX.apply_ne_panic _ _) (fun _ _ => pure_ne_panic _ _) _
  · exact bind_ne_panic (decodeMessage_ne_panic _ MappingX.apply_ne_panic _ _) (fun _ _ => pure_ne_panic _ _) _
  · exact bind_ne_panic (decodeMessage_ne_panic _ LocationX.apply_ne_panic _ _) (fun _ _ => pure_ne_panic _ _) _
  · exact bind_ne_panic (decodeMessage_ne_panic _ FunctionX.apply_ne_panic _ _) (fun _ _ => pure_ne_panic _ _) _
  · -- string table: `stringTable[0]` after the append always exists
    refine bind_ne_panic (decodeString_ne_panic _) ?_ _
    intro str s
    cases hm : m.stringTable with
    | nil => simp only [List.nil_append]; split <;> simp [pure]
    | cons a t => simp only [List.cons_append]; split <;> simp [pure]
  · exact bind_ne_panic (decodeInt64_ne_panic _) (fun _ _ => pure_ne_panic _ _) _
  · exact bind_ne_panic (decodeInt64_ne_panic _) (fun _ _ => pure_ne_panic _ _) _
  · split
    · simp
    · exact bind_ne_panic (decodeInt64_ne_panic _) (fun _ _ => pure_ne_panic _ _) _
  · exact bind_ne_panic (decodeInt64_ne_panic _) (fun _ _ => pure_ne_panic _ _) _
  · exact bind_ne_panic (decodeMessage_ne_panic _ ValueTypeX.apply_ne_panic _ _) (fun _ _ => pure_ne_panic _ _) _
  · exact bind_ne_panic (decodeInt64_ne_panic _) (fun _ _ => pure_ne_panic _ _) _
  · exact bind_ne_panic (decodeInt64s_ne_panic _ _) (fun _ _ => pure_ne_panic _ _) _
  · exact bind_ne_panic (decodeInt64_ne_panic _) (fun _ _ => pure_ne_panic _ _) _
  · exact bind_ne_panic (decodeInt64_ne_panic _) (fun _ _ => pure_ne_panic _ _) _
  · exact pure_ne_panic _ _

theorem unmarshal_ne_panic (b : Bytes) (s : String) : unmarshal b ≠ .panic s :=
  decodeLoop_ne_panic _ ProfileX.apply_ne_panic _ _ _ (Nat.le_refl _) s

end Codec
end PV
