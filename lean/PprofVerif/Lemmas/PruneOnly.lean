import PprofVerif.Lemmas.PruneLemmas
/-!
# C11 helper lemmas: Prune only ever removes (unconditional, no `PruneH`)

`scan` returns a prefix of the root-first id list, `dropThroughLast` a suffix of the line list,
and with no matching line anywhere `pruneWith` is the identity.
-/
namespace PV.Prune
open PV

theorem scan_prefix (cls : Nat → LocClass) (ids : List Nat) (fu : Bool) : scan cls ids fu <+: ids := by
  induction ids generalizing fu with
  | nil => simp [scan]
  | cons id r ih =>
    unfold scan
    split
    · exact List.prefix_cons_inj id |>.mpr (ih true)
    · split
      · exact List.nil_prefix
      · exact List.prefix_cons_inj id |>.mpr (ih fu)
    · split
      · exact ⟨r, rfl⟩
      · exact List.prefix_cons_inj id |>.mpr (ih fu)

theorem dropThroughLast_suffix {α} (q : α → Bool) (L s : List α) (h : dropThroughLast q L = some s) :
    s <:+ L := by
  induction L generalizing s with
  | nil => simp [dropThroughLast] at h
  | cons a r ih =>
    unfold dropThroughLast at h
    split at h
    · rename_i s' hs'
      cases h
      exact List.suffix_cons_iff.mpr (Or.inr (ih _ hs'))
    · split at h
      · cases h; exact List.suffix_cons a r
      · cases h

theorem pruneSample_suffix (p : Profile) (q : Str → Bool) (s : Sample) :
    (pruneSample p q s).locationIDs <:+ s.locationIDs := by
  have h := scan_prefix (classOf p q) s.locationIDs.reverse false
  have := List.reverse_suffix.mpr h
  simpa [pruneSample] using this

theorem pruneLoc_suffix (p : Profile) (q : Str → Bool) (l : Location) :
    (pruneLoc p q l).lines <:+ l.lines := by
  unfold pruneLoc
  split
  · rename_i a r h
    exact dropThroughLast_suffix _ _ _ h
  · exact List.suffix_refl _

theorem dropThroughLast_false {α} (L : List α) : dropThroughLast (fun _ => false) L = none := by
  induction L with
  | nil => rfl
  | cons a r ih => simp [dropThroughLast, ih]

theorem scan_all_user (cls : Nat → LocClass) (h : ∀ id, cls id = .user) (ids : List Nat) (fu : Bool) :
    scan cls ids fu = ids := by
  induction ids generalizing fu with
  | nil => rfl
  | cons id r ih => unfold scan; rw [h id]; simp [ih]

theorem dropThroughLast_none_of {α} (q : α → Bool) (L : List α) (h : ∀ x ∈ L, q x = false) :
    dropThroughLast q L = none := by
  induction L with
  | nil => rfl
  | cons a r ih =>
    have h1 := ih (fun x hx => h x (List.mem_cons_of_mem _ hx))
    simp [dropThroughLast, h1, h a List.mem_cons_self]

/-- when no line of any location matches, Prune is the identity -/
theorem pruneWith_no_match (p : Profile) (q : Str → Bool)
    (h : ∀ l ∈ p.locations, ∀ ln ∈ l.lines, lineMatches p q ln = false) : pruneWith p q = p := by
  have hloc : ∀ l ∈ p.locations, pruneLoc p q l = l := by
    intro l hl
    unfold pruneLoc
    rw [dropThroughLast_none_of _ _ (h l hl)]
  have hcls : ∀ id, classOf p q id = .user := by
    intro id
    unfold classOf
    split
    · rename_i l hl
      have hm : l ∈ p.locations := by
        unfold Profile.findLocation at hl
        exact List.mem_of_find?_eq_some hl
      unfold classify
      rw [dropThroughLast_none_of _ _ (h l hm)]
    · rfl
  have hs : ∀ s, pruneSample p q s = s := by
    intro s
    unfold pruneSample
    rw [scan_all_user _ hcls]
    simp
  unfold pruneWith
  have e1 : p.locations.map (pruneLoc p q) = p.locations := by
    conv => rhs; rw [← List.map_id p.locations]
    exact List.map_congr_left (fun l hl => by simpa using hloc l hl)
  have e2 : p.samples.map (pruneSample p q) = p.samples := by
    conv => rhs; rw [← List.map_id p.samples]
    exact List.map_congr_left (fun s _ => by simpa using hs s)
  rw [e1, e2]
/-! ### PruneFrom -/

theorem fromFirst_suffix {α} (q : α → Bool) (L s : List α) (h : fromFirst q L = some s) : s <:+ L := by
  induction L with
  | nil => simp [fromFirst] at h
  | cons a r ih =>
    unfold fromFirst at h
    split at h
    · cases h; exact List.suffix_refl _
    · exact List.suffix_cons_iff.mpr (Or.inr (ih h))

theorem fromFirst_none_of {α} (q : α → Bool) (L : List α) (h : ∀ x ∈ L, q x = false) : fromFirst q L = none := by
  induction L with
  | nil => rfl
  | cons a r ih =>
    simp [fromFirst, h a List.mem_cons_self, ih (fun x hx => h x (List.mem_cons_of_mem _ hx))]

theorem pruneFromSample_suffix (p : Profile) (q : Str → Bool) (s : Sample) :
    (pruneFromSample p q s).locationIDs <:+ s.locationIDs := by
  unfold pruneFromSample
  split
  · rename_i ids h; exact fromFirst_suffix _ _ _ h
  · exact List.suffix_refl _

theorem pruneFromLoc_suffix (p : Profile) (q : Str → Bool) (l : Location) :
    (pruneFromLoc p q l).1.lines <:+ l.lines := by
  unfold pruneFromLoc
  split
  · rename_i ls h; exact fromFirst_suffix _ _ _ h
  · exact List.suffix_refl _

theorem pruneFromWith_no_match (p : Profile) (q : Str → Bool)
    (h : ∀ l ∈ p.locations, ∀ ln ∈ l.lines, lineMatches p q ln = false) : pruneFromWith p q = p := by
  have hloc : ∀ l ∈ p.locations, pruneFromLoc p q l = (l, false) := by
    intro l hl
    unfold pruneFromLoc
    rw [fromFirst_none_of _ _ (h l hl)]
  have hid : ∀ id, pruneFromId p q id = false := by
    intro id
    unfold pruneFromId
    split
    · rename_i l hl
      have hm : l ∈ p.locations := by
        unfold Profile.findLocation at hl
        exact List.mem_of_find?_eq_some hl
      rw [hloc l hm]
    · rfl
  have hs : ∀ s, pruneFromSample p q s = s := by
    intro s
    unfold pruneFromSample
    rw [fromFirst_none_of _ _ (fun x _ => hid x)]
  unfold pruneFromWith
  have e1 : p.locations.map (fun l => (pruneFromLoc p q l).1) = p.locations := by
    conv => rhs; rw [← List.map_id p.locations]
    exact List.map_congr_left (fun l hl => by simp [hloc l hl])
  have e2 : p.samples.map (pruneFromSample p q) = p.samples := by
    conv => rhs; rw [← List.map_id p.samples]
    exact List.map_congr_left (fun s _ => by simpa using hs s)
  rw [e1, e2]
end PV.Prune

/-! ### frame level: the frames after Prune are a sublist of the frames before -/
namespace PV.Prune
open PV PV.FilterSpec

theorem flatMap_sublist_of {α β} (f g : α → List β) (hfg : ∀ a, List.Sublist (f a) (g a)) {l₁ l₂ : List α}
    (h : List.Sublist l₁ l₂) : List.Sublist (l₁.flatMap f) (l₂.flatMap g) := by
  induction h with
  | slnil => simp
  | cons a _ ih => simp only [List.flatMap_cons]; exact List.sublist_append_of_sublist_right ih
  | cons_cons a _ ih => simp only [List.flatMap_cons]; exact List.Sublist.append (hfg a) ih

theorem locFrames_pruneLoc_sublist (p : Profile) (q : Str → Bool) (l : Location) :
    List.Sublist (locFrames (pruneLoc p q l)) (locFrames l) := by
  unfold pruneLoc
  split
  · rename_i a r h
    have hs := dropThroughLast_suffix _ _ _ h
    have hne : l.lines ≠ [] := by
      intro h0; rw [h0] at hs; simp at hs
    rw [locFrames_of_lines_ne hne, locFrames_of_lines_ne (l := { l with lines := a :: r }) (by simp)]
    exact hs.sublist.map _
  · exact List.Sublist.refl _

/-- frames after Prune are, for every sample, a sublist (in order) of the frames before. -/
theorem prune_frames_sublist (p : Profile) (q : Str → Bool) (s : Sample) :
    List.Sublist (frames (pruneWith p q) (pruneSample p q s)) (frames p s) := by
  unfold frames
  apply flatMap_sublist_of _ _ _ (pruneSample_suffix p q s).sublist
  intro id
  rw [locFramesOf_pruned p (pruneWith p q) q rfl id]
  unfold locFramesOf
  cases p.findLocation id with
  | some l => exact locFrames_pruneLoc_sublist p q l
  | none => exact List.Sublist.refl _
end PV.Prune

/-! ### frame level, PruneFrom -/
namespace PV.Prune
open PV PV.FilterSpec

theorem fromFirst_some_ne {α} (q : α → Bool) (L s : List α) (h : fromFirst q L = some s) : s ≠ [] := by
  induction L with
  | nil => simp [fromFirst] at h
  | cons a r ih =>
    unfold fromFirst at h
    split at h
    · cases h; simp
    · exact ih h

theorem locFrames_pruneFromLoc_sublist (p : Profile) (q : Str → Bool) (l : Location) :
    List.Sublist (locFrames (pruneFromLoc p q l).1) (locFrames l) := by
  unfold pruneFromLoc
  split
  · rename_i ls h
    have hs := fromFirst_suffix _ _ _ h
    have hn := fromFirst_some_ne _ _ _ h
    have hne : l.lines ≠ [] := by
      intro h0; rw [h0] at hs; exact hn (List.suffix_nil.mp hs)
    rw [locFrames_of_lines_ne hne, locFrames_of_lines_ne (l := { l with lines := ls }) hn]
    exact hs.sublist.map _
  · exact List.Sublist.refl _

/-- frames after PruneFrom are, for every sample, a sublist (in order) of the frames before. -/
theorem pruneFrom_frames_sublist (p : Profile) (q : Str → Bool) (s : Sample) :
    List.Sublist (frames (pruneFromWith p q) (pruneFromSample p q s)) (frames p s) := by
  unfold frames
  apply flatMap_sublist_of _ _ _ (pruneFromSample_suffix p q s).sublist
  intro id
  rw [locFramesOf_prunedFrom p (pruneFromWith p q) q rfl id]
  unfold locFramesOf
  cases p.findLocation id with
  | some l => exact locFrames_pruneFromLoc_sublist p q l
  | none => exact List.Sublist.refl _
end PV.Prune
