import PprofVerif.Model.Merge
import Mathlib.Data.List.Basic
/-!
Interning lemma bundle (DESIGN Appendix A.1) for the generic memo-table functions of
`Model/Merge.lean`: `pos`, `internStep`, `internBy`, `idOf`, `entryOf`, `renum`.
-/
namespace PV.Merge

section Pos
variable {κ : Type} [DecidableEq κ]

theorem pos_le (k : κ) (ks : List κ) : pos k ks ≤ ks.length := by
  induction ks with
  | nil => simp [pos]
  | cons x xs ih => simp only [pos]; split <;> (simp; try omega)

theorem pos_lt_iff (k : κ) (ks : List κ) : pos k ks < ks.length ↔ k ∈ ks := by
  induction ks with
  | nil => simp [pos]
  | cons x xs ih =>
    simp only [pos]
    by_cases h : x = k
    · simp [h]
    · simp only [h, if_false, List.length_cons, List.mem_cons]
      constructor
      · intro hlt; right; exact ih.mp (by omega)
      · rintro (rfl | hm)
        · exact absurd rfl h
        · have := ih.mpr hm; omega

theorem pos_eq_length_of_not_mem {k : κ} {ks : List κ} (h : k ∉ ks) : pos k ks = ks.length := by
  have h1 := pos_le k ks
  have h2 := (pos_lt_iff k ks).not.mpr h
  omega

theorem getElem?_pos {k : κ} {ks : List κ} (h : k ∈ ks) : ks[pos k ks]? = some k := by
  induction ks with
  | nil => cases h
  | cons x xs ih =>
    simp only [pos]
    by_cases hx : x = k
    · simp [hx]
    · simp only [hx, if_false, List.getElem?_cons_succ]
      rcases List.mem_cons.mp h with rfl | hm
      · exact absurd rfl hx
      · exact ih hm

/-- ids are injective on the keys that are in the table. -/
theorem pos_inj {k1 k2 : κ} {ks : List κ} (h1 : k1 ∈ ks) (h : pos k1 ks = pos k2 ks) : k1 = k2 := by
  have hlt := (pos_lt_iff k1 ks).mpr h1
  have h2 : k2 ∈ ks := (pos_lt_iff k2 ks).mp (by omega)
  have e1 := getElem?_pos h1
  have e2 := getElem?_pos h2
  rw [h] at e1
  rw [e1] at e2
  exact Option.some.inj e2

/-- indices are stable under later interns. -/
theorem pos_append_left {k : κ} {ks : List κ} (l : List κ) (h : k ∈ ks) : pos k (ks ++ l) = pos k ks := by
  induction ks with
  | nil => cases h
  | cons x xs ih =>
    simp only [List.cons_append, pos]
    by_cases hx : x = k
    · simp [hx]
    · simp only [hx, if_false]
      rcases List.mem_cons.mp h with rfl | hm
      · exact absurd rfl hx
      · rw [ih hm]

theorem pos_of_getElem? {k : κ} {ks : List κ} (hn : ks.Nodup) {i : Nat} (h : ks[i]? = some k) :
    pos k ks = i := by
  induction ks generalizing i with
  | nil => simp at h
  | cons x xs ih =>
    simp only [pos]
    cases i with
    | zero => simp at h; simp [h]
    | succ j =>
      simp only [List.getElem?_cons_succ] at h
      have hm : k ∈ xs := List.mem_of_getElem? h
      have hx : x ≠ k := by
        rintro rfl
        exact (List.nodup_cons.mp hn).1 hm
      simp only [hx, if_false]
      rw [ih (List.nodup_cons.mp hn).2 h]
end Pos

section Intern
variable {ε κ : Type} [DecidableEq κ] (key : ε → κ)

theorem internStep_prefix (tab : List ε) (e : ε) : ∃ l, internStep key tab e = tab ++ l := by
  unfold internStep; split
  · exact ⟨[], by simp⟩
  · exact ⟨[e], rfl⟩

theorem internStep_keys_nodup (tab : List ε) (e : ε) (h : (tab.map key).Nodup) :
    ((internStep key tab e).map key).Nodup := by
  unfold internStep; split
  · exact h
  · rename_i hn
    rw [List.map_append, List.map_singleton, List.nodup_append]
    refine ⟨h, by simp, ?_⟩
    intro a ha b hb
    simp only [List.mem_singleton] at hb
    subst hb
    intro hab; subst hab; exact hn ha

theorem mem_internStep_keys (tab : List ε) (e : ε) (k : κ) :
    k ∈ (internStep key tab e).map key ↔ k ∈ tab.map key ∨ k = key e := by
  unfold internStep; split
  · rename_i h
    constructor
    · intro hk; exact Or.inl hk
    · rintro (hk | rfl)
      · exact hk
      · exact h
  · simp [List.map_append]

theorem mem_internStep (tab : List ε) (e x : ε) : x ∈ internStep key tab e → x ∈ tab ∨ x = e := by
  unfold internStep; split
  · intro h; exact Or.inl h
  · intro h; simpa using h

theorem foldl_internStep_prefix (es : List ε) (acc : List ε) :
    ∃ l, es.foldl (internStep key) acc = acc ++ l := by
  induction es generalizing acc with
  | nil => exact ⟨[], by simp⟩
  | cons e es ih =>
    obtain ⟨l1, h1⟩ := internStep_prefix key acc e
    obtain ⟨l2, h2⟩ := ih (internStep key acc e)
    exact ⟨l1 ++ l2, by rw [List.foldl_cons, h2, h1, List.append_assoc]⟩

theorem foldl_internStep_keys_nodup (es : List ε) (acc : List ε) (h : (acc.map key).Nodup) :
    ((es.foldl (internStep key) acc).map key).Nodup := by
  induction es generalizing acc with
  | nil => exact h
  | cons e es ih => exact ih _ (internStep_keys_nodup key acc e h)

theorem mem_foldl_internStep_keys (es : List ε) (acc : List ε) (k : κ) :
    k ∈ (es.foldl (internStep key) acc).map key ↔ k ∈ acc.map key ∨ k ∈ es.map key := by
  induction es generalizing acc with
  | nil => simp
  | cons e es ih =>
    rw [List.foldl_cons, ih, mem_internStep_keys]
    simp only [List.map_cons, List.mem_cons]
    tauto

theorem mem_foldl_internStep (es : List ε) (acc : List ε) (x : ε) :
    x ∈ es.foldl (internStep key) acc → x ∈ acc ∨ x ∈ es := by
  induction es generalizing acc with
  | nil => intro h; exact Or.inl h
  | cons e es ih =>
    intro h
    rcases ih _ h with h1 | h1
    · rcases mem_internStep key acc e x h1 with h2 | h2
      · exact Or.inl h2
      · exact Or.inr (by simp [h2])
    · exact Or.inr (List.mem_cons_of_mem _ h1)

/-- the keys of the table are pairwise distinct … -/
theorem internBy_keys_nodup (es : List ε) : ((internBy key es).map key).Nodup :=
  foldl_internStep_keys_nodup key es [] (by simp)

/-- … and are exactly the keys fed in … -/
theorem mem_internBy_keys (es : List ε) (k : κ) : k ∈ (internBy key es).map key ↔ k ∈ es.map key := by
  unfold internBy; rw [mem_foldl_internStep_keys]; simp

/-- … and every entry is one of the entities fed in. -/
theorem mem_internBy (es : List ε) (x : ε) : x ∈ internBy key es → x ∈ es := by
  intro h
  rcases mem_foldl_internStep key es [] x h with h | h
  · cases h
  · exact h

theorem idOf_pos (tab : List ε) (k : κ) : 1 ≤ idOf key tab k := by unfold idOf; omega

theorem idOf_le (tab : List ε) (k : κ) (h : k ∈ tab.map key) : idOf key tab k ≤ tab.length := by
  unfold idOf
  have := (pos_lt_iff k (tab.map key)).mpr h
  simp at this; omega

/-- ids identify keys (memo bijection). -/
theorem idOf_inj (tab : List ε) {k1 k2 : κ} (h1 : k1 ∈ tab.map key)
    (h : idOf key tab k1 = idOf key tab k2) : k1 = k2 := by
  unfold idOf at h
  exact pos_inj h1 (by omega)

theorem entryOf_eq_getElem? (tab : List ε) (k : κ) (h : k ∈ tab.map key) :
    entryOf key tab k = tab[pos k (tab.map key)]? := by
  induction tab with
  | nil => simp at h
  | cons x xs ih =>
    simp only [entryOf, List.find?_cons, List.map_cons, pos]
    by_cases hx : key x = k
    · simp [hx]
    · simp only [hx, decide_false, if_false, List.getElem?_cons_succ]
      have : k ∈ xs.map key := by
        rw [List.map_cons] at h
        rcases List.mem_cons.mp h with h' | h'
        · exact absurd h'.symm hx
        · exact h'
      exact ih this

/-- looking up a key that is in the table returns an entry with that key. -/
theorem entryOf_spec (tab : List ε) (k : κ) (h : k ∈ tab.map key) :
    ∃ e, entryOf key tab k = some e ∧ key e = k ∧ e ∈ tab ∧ tab[idOf key tab k - 1]? = some e := by
  have hlt := (pos_lt_iff k (tab.map key)).mpr h
  simp only [List.length_map] at hlt
  have he := entryOf_eq_getElem? key tab k h
  have hk := getElem?_pos h
  rw [List.getElem?_map] at hk
  cases hg : tab[pos k (tab.map key)]? with
  | none => rw [hg] at hk; simp at hk
  | some e =>
    rw [hg] at hk he
    simp only [Option.map_some, Option.some.injEq] at hk
    refine ⟨e, he, hk, List.mem_of_getElem? hg, ?_⟩
    unfold idOf; simpa using hg

/-- `lookup k` returns the *first* entity that was interned under `k`. -/
theorem find?_foldl_internStep (es acc : List ε) (k : κ) :
    (es.foldl (internStep key) acc).find? (fun e => decide (key e = k)) =
      (acc.find? (fun e => decide (key e = k))).or (es.find? (fun e => decide (key e = k))) := by
  induction es generalizing acc with
  | nil => simp
  | cons e es ih =>
    rw [List.foldl_cons, ih]
    unfold internStep
    split
    · rename_i hin
      by_cases hk : key e = k
      · -- then acc already has an entry with key k
        obtain ⟨a, ha, hka⟩ := List.mem_map.mp hin
        have : (acc.find? (fun e => decide (key e = k))).isSome := by
          rw [List.find?_isSome]; exact ⟨a, ha, by simp [hka, hk]⟩
        cases hf : acc.find? (fun e => decide (key e = k)) with
        | none => rw [hf] at this; simp at this
        | some x => simp
      · simp [hk]
    · rename_i hin
      rw [List.find?_append]
      by_cases hk : key e = k
      · have hnone : acc.find? (fun e => decide (key e = k)) = none := by
          rw [List.find?_eq_none]
          intro x hx
          simp only [decide_eq_true_eq]
          intro hkx
          exact hin (List.mem_map.mpr ⟨x, hx, hkx.trans hk.symm⟩)
        simp [hnone, hk]
      · simp only [List.find?_cons, hk, decide_false, List.find?_nil]
        cases acc.find? (fun e => decide (key e = k)) <;> simp

theorem entryOf_internBy (es : List ε) (k : κ) :
    entryOf key (internBy key es) k = es.find? (fun e => decide (key e = k)) := by
  unfold entryOf internBy
  rw [find?_foldl_internStep]; simp
end Intern

section Renum
variable {ε : Type} (setId : ε → Nat → ε)

theorem renum_length (n : Nat) (tab : List ε) : (renum setId n tab).length = tab.length := by
  induction tab generalizing n with
  | nil => rfl
  | cons e es ih => simp [renum, ih]

theorem renum_getElem? (n : Nat) (tab : List ε) (i : Nat) :
    (renum setId n tab)[i]? = (tab[i]?).map (fun e => setId e (n + i)) := by
  induction tab generalizing n i with
  | nil => simp [renum]
  | cons e es ih =>
    cases i with
    | zero => simp [renum]
    | succ j =>
      simp only [renum, List.getElem?_cons_succ]
      rw [ih]; congr 1; funext x; congr 1; omega

theorem renum_map {β : Type} (f : ε → β) (hf : ∀ e n, f (setId e n) = f e) (n : Nat) (tab : List ε) :
    (renum setId n tab).map f = tab.map f := by
  induction tab generalizing n with
  | nil => rfl
  | cons e es ih => simp [renum, hf, ih]

theorem renum_ids (getId : ε → Nat) (hget : ∀ e n, getId (setId e n) = n) (n : Nat) (tab : List ε) :
    (renum setId n tab).map getId = List.range' n tab.length := by
  induction tab generalizing n with
  | nil => rfl
  | cons e es ih => simp [renum, hget, ih, List.range'_succ]

/-- `entries[i].id = i+1`: finding by id in the renumbered table returns the entry at that index. -/
theorem find?_renum (getId : ε → Nat) (hget : ∀ e n, getId (setId e n) = n) (n : Nat) (tab : List ε)
    (i : Nat) (e : ε) (h : tab[i]? = some e) :
    (renum setId n tab).find? (fun x => getId x == n + i) = some (setId e (n + i)) := by
  induction tab generalizing n i with
  | nil => simp at h
  | cons x xs ih =>
    cases i with
    | zero =>
      simp only [List.getElem?_cons_zero, Option.some.injEq] at h
      subst h
      simp [renum, hget]
    | succ j =>
      simp only [List.getElem?_cons_succ] at h
      simp only [renum, List.find?_cons, hget]
      have hne : (n == n + (j + 1)) = false := by simp
      rw [hne]
      have := ih (n + 1) j h
      rw [show n + 1 + j = n + (j + 1) by omega] at this
      exact this
end Renum

end PV.Merge
