import PprofVerif.Lemmas.StacksFrames
import PprofVerif.Lemmas.StacksLoop
import PprofVerif.Lemmas.StacksPlaces
import PprofVerif.Lemmas.StacksUnique
/-! C17 helper lemmas, part E: the whole of `Stacks()` in closed form, and the facts about the
specification functions `firstIdx` / `placesFrom` the property theorems read off. -/
namespace PV.Stacks
open PV

theorem Inv.range {o : Opts} {acc : St × Slice Stack} {done : List (Int × List Frame)} (h : Inv o acc done) :
    ∀ st ∈ acc.2.elems, ∀ j ∈ st.sources.elems, j < acc.1.sources.elems.length := by
  intro st hst j hj
  rw [h.stacks] at hst
  obtain ⟨y, hy, rfl⟩ := List.mem_map.1 hst
  exact inRange h.wf y.2 (h.known y hy) j hj

/-- closed form of the result of `build`. -/
def result (total : Int) (st : St) (rs : List (Int × List Frame)) : StackSet :=
  { total := total,
    stacks := Slice.lit (rs.map (mkStack st.srcs)),
    sources := Slice.lit (st.sources.elems.mapIdx (fun i s =>
      addP s (Spec.placesOf (rs.map (mkStack st.srcs)) i))) }

theorem build_spec' (o : Opts) (total : Int) (rs : List (Int × List Frame)) :
    ∃ st, Inv o (st, Slice.lit (rs.map (mkStack st.srcs))) rs ∧ UQ st ∧ build o total rs = .ok (result total st rs) := by
  obtain ⟨acc, hm, inv⟩ := makeInitialStacks_spec o rs
  have h2 : acc.2 = Slice.lit (rs.map (mkStack acc.1.srcs)) := slice_eq_lit _ _ inv.snn inv.stacks
  have hsrc : acc.1.sources = ⟨true, acc.1.sources.elems⟩ := by
    have := inv.wf.nn
    cases hs : acc.1.sources with
    | mk nn el => simp_all
  refine ⟨acc.1, by rw [← h2]; exact inv, UQ_fold o rs _ [] (Inv_init o) UQ_init acc hm, ?_⟩
  have hfp := fillPlaces_spec acc.2.elems 0 true acc.1.sources.elems inv.range (by
    intro s hs
    obtain ⟨i, hi⟩ := List.mem_iff_getElem?.1 hs
    rw [(inv.self i s hi).2]; rfl)
  rw [← hsrc] at hfp
  simp only [build, hm, hfp, bind, Outcome.bind, pure, result, Spec.placesOf]
  rw [h2]
  rfl

theorem build_spec (o : Opts) (total : Int) (rs : List (Int × List Frame)) :
    ∃ st, Inv o (st, Slice.lit (rs.map (mkStack st.srcs))) rs ∧ build o total rs = .ok (result total st rs) := by
  obtain ⟨st, inv, _, hb⟩ := build_spec' o total rs
  exact ⟨st, inv, hb⟩

/-- the (FullName, UniqueName) list of the result satisfies `UQN`. -/
theorem stacks_uq {o : Opts} {p : Profile} {idx : Nat} {ss : StackSet} (h : stacks o p idx = .ok ss) :
    UQN (ss.sources.elems.map nm) := by
  simp only [stacks] at h
  cases hr : resolve p idx with
  | err e => simp [hr, bind, Outcome.bind] at h
  | panic e => simp [hr, bind, Outcome.bind] at h
  | ok rs =>
    simp only [hr, bind, Outcome.bind] at h
    obtain ⟨st, _, uq, hb⟩ := build_spec' o (computeTotal ((rs.zip p.samples).map fun x => (x.1.1, diffBase x.2))) rs
    rw [hb] at h
    injection h with h
    subst h
    simpa [result, Slice.lit, map_nm_mapIdx_addP] using uq.uniq

/-! ### facts about the specification functions -/

theorem firstIdx_eq_some_iff (i : Nat) (l : List Nat) (b : Nat) :
    Spec.firstIdx i l = some b ↔ l[b]? = some i ∧ ∀ b', b' < b → l[b']? ≠ some i := by
  induction l generalizing b with
  | nil => simp [Spec.firstIdx]
  | cons x r ih =>
    simp only [Spec.firstIdx]
    by_cases e : x = i
    · subst e
      simp only [if_true, Option.some.injEq]
      constructor
      · rintro rfl; simp
      · rintro ⟨_, h2⟩
        cases b with
        | zero => rfl
        | succ n => exact absurd (by simp) (h2 0 (by omega))
    · simp only [if_neg e]
      cases b with
      | zero =>
        simp only [List.getElem?_cons_zero, Option.some.injEq]
        constructor
        · intro h; cases hf : Spec.firstIdx i r <;> simp [hf] at h
        · rintro ⟨h, _⟩; exact absurd h e
      | succ n =>
        have := ih n
        constructor
        · intro h
          have h' : Spec.firstIdx i r = some n := by
            cases hf : Spec.firstIdx i r with
            | none => simp [hf] at h
            | some m => simp [hf] at h; simp [h]
          obtain ⟨h1, h2⟩ := this.1 h'
          refine ⟨by simpa using h1, ?_⟩
          intro b' hb'
          cases b' with
          | zero => simpa using e
          | succ m => simpa using h2 m (by omega)
        · rintro ⟨h1, h2⟩
          have h' := this.2 ⟨by simpa using h1, fun b' hb' => by simpa using h2 (b'+1) (by omega)⟩
          simp [h']

theorem mem_placesFrom (i : Nat) (ls : List (List Nat)) : ∀ (a0 a b : Nat),
    (a, b) ∈ Spec.placesFrom i a0 ls ↔ ∃ k l, ls[k]? = some l ∧ a = a0 + k ∧ Spec.firstIdx i l = some b := by
  induction ls with
  | nil => intro a0 a b; simp [Spec.placesFrom]
  | cons l r ih =>
    intro a0 a b
    have hrec : (a, b) ∈ Spec.placesFrom i (a0+1) r ↔
        ∃ k l', (l :: r)[k+1]? = some l' ∧ a = a0 + (k+1) ∧ Spec.firstIdx i l' = some b := by
      rw [ih]
      constructor
      · rintro ⟨k, l', h1, h2, h3⟩; exact ⟨k, l', by simpa using h1, by omega, h3⟩
      · rintro ⟨k, l', h1, h2, h3⟩; exact ⟨k, l', by simpa using h1, by omega, h3⟩
    have hsplit : (∃ k l', (l :: r)[k]? = some l' ∧ a = a0 + k ∧ Spec.firstIdx i l' = some b) ↔
        (a = a0 ∧ Spec.firstIdx i l = some b) ∨
        (∃ k l', (l :: r)[k+1]? = some l' ∧ a = a0 + (k+1) ∧ Spec.firstIdx i l' = some b) := by
      constructor
      · rintro ⟨k, l', h1, h2, h3⟩
        cases k with
        | zero =>
          simp only [List.getElem?_cons_zero, Option.some.injEq] at h1
          subst h1; exact Or.inl ⟨by omega, h3⟩
        | succ n => exact Or.inr ⟨n, l', h1, h2, h3⟩
      · rintro (⟨h2, h3⟩ | ⟨k, l', h1, h2, h3⟩)
        · exact ⟨0, l, by simp, by omega, h3⟩
        · exact ⟨k+1, l', h1, h2, h3⟩
    rw [hsplit, ← hrec]
    simp only [Spec.placesFrom]
    cases hf : Spec.firstIdx i l with
    | none => simp
    | some b0 =>
      simp only [List.mem_cons, Prod.mk.injEq, Option.some.injEq]
      constructor
      · rintro (⟨rfl, rfl⟩ | h)
        · exact Or.inl ⟨rfl, rfl⟩
        · exact Or.inr h
      · rintro (⟨rfl, rfl⟩ | h)
        · exact Or.inl ⟨rfl, rfl⟩
        · exact Or.inr h

theorem placesFrom_ge (i : Nat) (ls : List (List Nat)) (a0 : Nat) :
    ∀ pl ∈ Spec.placesFrom i a0 ls, a0 ≤ pl.1 := by
  intro pl hpl
  obtain ⟨k, l, _, h2, _⟩ := (mem_placesFrom i ls a0 pl.1 pl.2).1 hpl
  omega

theorem placesFrom_pairwise (i : Nat) (ls : List (List Nat)) : ∀ a0,
    List.Pairwise (fun x y : Nat × Nat => x.1 < y.1) (Spec.placesFrom i a0 ls) := by
  induction ls with
  | nil => intro a0; simp [Spec.placesFrom]
  | cons l r ih =>
    intro a0
    simp only [Spec.placesFrom]
    cases Spec.firstIdx i l with
    | none => exact ih (a0+1)
    | some b =>
      refine List.Pairwise.cons ?_ (ih (a0+1))
      intro pl hpl
      have := placesFrom_ge i r (a0+1) pl hpl
      show a0 < pl.1
      omega

/-- samples → values, from the successful resolution. -/
theorem values_of_resolve (p : Profile) (idx : Nat) :
    ∀ (samples : List Sample) (rs : List (Int × List Frame)),
    samples.map (Spec.resolveOne p idx) = rs.map some →
    samples.filterMap (fun s => s.values[idx]?) = rs.map (·.1) := by
  intro samples
  induction samples with
  | nil => intro rs h; cases rs <;> simp at h ⊢
  | cons s t ih =>
    intro rs h
    cases rs with
    | nil => simp at h
    | cons r rs0 =>
      simp only [List.map_cons, List.cons.injEq] at h
      obtain ⟨h1, h2⟩ := h
      have hv : s.values[idx]? = some r.1 := by
        simp only [Spec.resolveOne] at h1
        cases hv : s.values[idx]? with
        | none => simp [hv] at h1
        | some v =>
          cases hf : Spec.sampleFrames p s with
          | none => simp [hv, hf] at h1
          | some fs => simp [hv, hf] at h1; simp [← h1]
      simp [hv, ih rs0 h2]

theorem stacks_ok {o : Opts} {p : Profile} {idx : Nat} {ss : StackSet} (h : stacks o p idx = .ok ss) :
    ∃ rs st total, Spec.resolve p idx = some rs ∧
      Inv o (st, Slice.lit (rs.map (mkStack st.srcs))) rs ∧ ss = result total st rs := by
  simp only [stacks] at h
  cases hr : resolve p idx with
  | err e => simp [hr, bind, Outcome.bind] at h
  | panic e => simp [hr, bind, Outcome.bind] at h
  | ok rs =>
    simp only [hr, bind, Outcome.bind] at h
    obtain ⟨st, inv, hb⟩ := build_spec o (computeTotal ((rs.zip p.samples).map fun x => (x.1.1, diffBase x.2))) rs
    rw [hb] at h
    exact ⟨rs, st, _, resolve_spec p idx rs hr, inv, by injection h with h; exact h.symm⟩

theorem resolveOne_some {p : Profile} {idx : Nat} {s : Sample} {r : Int × List Frame}
    (h : Spec.resolveOne p idx s = some r) :
    s.values[idx]? = some r.1 ∧ Spec.sampleFrames p s = some r.2 := by
  simp only [Spec.resolveOne] at h
  cases hv : s.values[idx]? with
  | none => simp [hv] at h
  | some v =>
    cases hf : Spec.sampleFrames p s with
    | none => simp [hv, hf] at h
    | some fs => simp [hv, hf] at h; simp [← h]

theorem resolve_at {p : Profile} {idx : Nat} {rs : List (Int × List Frame)}
    (h : Spec.resolve p idx = some rs) :
    rs.length = p.samples.length ∧
    ∀ i (hi : i < p.samples.length), ∃ r, rs[i]? = some r ∧
      p.samples[i].values[idx]? = some r.1 ∧ Spec.sampleFrames p p.samples[i] = some r.2 := by
  rw [Spec.resolve, optMap_eq_some_iff] at h
  have hlen : rs.length = p.samples.length := by
    have := congrArg List.length h
    simpa using this.symm
  refine ⟨hlen, ?_⟩
  intro i hi
  have hi' : i < rs.length := by omega
  have := congrArg (fun l => l[i]?) h
  simp only [List.getElem?_map, List.getElem?_eq_getElem hi, List.getElem?_eq_getElem hi',
    Option.map_some, Option.some.injEq] at this
  exact ⟨rs[i], List.getElem?_eq_getElem hi', resolveOne_some this⟩

theorem result_source_get {total : Int} {st : St} {rs : List (Int × List Frame)} {i : Nat} {s : Source}
    (h : (result total st rs).sources.elems[i]? = some s) :
    ∃ s0, st.sources.elems[i]? = some s0 ∧
      s = addP s0 (Spec.placesOf (rs.map (mkStack st.srcs)) i) := by
  simp only [result, Slice.lit, List.getElem?_mapIdx, Option.map_eq_some_iff] at h
  obtain ⟨s0, h0, rfl⟩ := h
  exact ⟨s0, h0, rfl⟩

theorem result_source_of {total : Int} {st : St} {rs : List (Int × List Frame)} {i : Nat} {s0 : Source}
    (h : st.sources.elems[i]? = some s0) :
    (result total st rs).sources.elems[i]? =
      some (addP s0 (Spec.placesOf (rs.map (mkStack st.srcs)) i)) := by
  simp [result, Slice.lit, List.getElem?_mapIdx, h]

end PV.Stacks
