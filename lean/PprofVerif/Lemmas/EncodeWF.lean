import PprofVerif.Lemmas.MessagesNested
import PprofVerif.Lemmas.PostPre
/-!
# From an encoding to the wire and back (property C01, composition of the two halves)

* size bounds of the fixed-shape messages (`encodeVarint` of a uint64 has at most 10 bytes, so
  Label/Line/ValueType/Function/Mapping bodies are far below 2^64 bytes);
* `WF_of_EncRel`, `Sized_of_EncRel`: the output of `preEncode` on a profile whose integers fit
  their Go types satisfies the hypotheses of the wire round trip, given the residual size
  conditions `EncSizes` (string table shorter than 2^63 entries, variable-length bodies shorter
  than 2^64 bytes);
* `EncSizes_of_counts`: `EncSizes` follows from plain element counts (< 2^56);
* `parseUncompressed_encode`: parsing the bytes of a well-formed wire message is `postDecode`
  of that message (the elided all-zero `PeriodType` is invisible to `postDecode`).
-/
namespace PV
namespace Codec
open Wire

/-! ### sizes of the fixed-shape messages -/

theorem encodeVarint_length_le_pow : ∀ (n x : Nat), x < 128 ^ (n + 1) → (encodeVarint x).length ≤ n + 1
  | 0, x, h => by
    rw [encodeVarint]
    have : ¬ x ≥ 128 := by simpa using h
    simp [this]
  | n + 1, x, h => by
    rw [encodeVarint]
    by_cases hx : x ≥ 128
    · simp only [hx, dite_true, List.length_cons]
      have : x / 128 < 128 ^ (n + 1) := by
        rw [Nat.div_lt_iff_lt_mul (by decide)]
        calc x < 128 ^ (n + 1 + 1) := h
          _ = 128 ^ (n + 1) * 128 := Nat.pow_succ _ _
      have := encodeVarint_length_le_pow n (x / 128) this
      omega
    · simp [hx]

theorem encodeVarint_length_le (x : Nat) (h : x < two64) : (encodeVarint x).length ≤ 10 :=
  encodeVarint_length_le_pow 9 x (Nat.lt_of_lt_of_le h (by decide))

theorem encodeVarint_length_small (x : Nat) (h : x < 128) : (encodeVarint x).length ≤ 1 :=
  encodeVarint_length_le_pow 0 x (by simpa using h)

theorem toU64_lt (i : Int) : toU64 i < two64 := by
  unfold toU64 two64
  omega

theorem encodeUint64_length_le (tag x : Nat) (ht : tag < 16) (hx : x < two64) : (encodeUint64 tag x).length ≤ 11 := by
  unfold encodeUint64
  have h1 := encodeVarint_length_small (tag * 8) (by omega)
  have h2 := encodeVarint_length_le x hx
  simp only [List.length_append]; omega

theorem encodeUint64Opt_length_le (tag x : Nat) (ht : tag < 16) (hx : x < two64) : (encodeUint64Opt tag x).length ≤ 11 := by
  unfold encodeUint64Opt
  split
  · simp
  · exact encodeUint64_length_le tag x ht hx

theorem encodeInt64Opt_length_le (tag : Nat) (i : Int) (ht : tag < 16) : (encodeInt64Opt tag i).length ≤ 11 := by
  unfold encodeInt64Opt encodeInt64
  split
  · simp
  · exact encodeUint64_length_le tag _ ht (toU64_lt i)

theorem encodeBoolOpt_length_le (tag : Nat) (b : Bool) (ht : tag < 16) : (encodeBoolOpt tag b).length ≤ 11 := by
  unfold encodeBoolOpt
  split
  · exact encodeUint64_length_le tag 1 ht (by decide)
  · simp

theorem two64_big : 200 < two64 := by decide

theorem LabelX.encode_length_lt (l : LabelX) : l.encode.length < two64 := by
  unfold LabelX.encode
  have h1 := encodeInt64Opt_length_le 1 l.keyX (by decide)
  have h2 := encodeInt64Opt_length_le 2 l.strX (by decide)
  have h3 := encodeInt64Opt_length_le 3 l.numX (by decide)
  have h4 := encodeInt64Opt_length_le 4 l.unitX (by decide)
  have := two64_big
  simp only [List.length_append]; omega

theorem LineX.encode_length_lt (l : LineX) (h : l.functionIDX < two64) : l.encode.length < two64 := by
  unfold LineX.encode
  have h1 := encodeUint64Opt_length_le 1 l.functionIDX (by decide) h
  have h2 := encodeInt64Opt_length_le 2 l.line (by decide)
  have h3 := encodeInt64Opt_length_le 3 l.column (by decide)
  have := two64_big
  simp only [List.length_append]; omega

theorem ValueTypeX.encode_length_lt (v : ValueTypeX) : v.encode.length < two64 := by
  unfold ValueTypeX.encode
  have h1 := encodeInt64Opt_length_le 1 v.typeX (by decide)
  have h2 := encodeInt64Opt_length_le 2 v.unitX (by decide)
  have := two64_big
  simp only [List.length_append]; omega

theorem FunctionX.encode_length_lt (f : FunctionX) (h : f.id < two64) : f.encode.length < two64 := by
  unfold FunctionX.encode
  have h1 := encodeUint64Opt_length_le 1 f.id (by decide) h
  have h2 := encodeInt64Opt_length_le 2 f.nameX (by decide)
  have h3 := encodeInt64Opt_length_le 3 f.systemNameX (by decide)
  have h4 := encodeInt64Opt_length_le 4 f.filenameX (by decide)
  have h5 := encodeInt64Opt_length_le 5 f.startLine (by decide)
  have := two64_big
  simp only [List.length_append]; omega

theorem MappingX.encode_length_lt (m : MappingX) (h1 : m.id < two64) (h2 : m.start < two64)
    (h3 : m.limit < two64) (h4 : m.offset < two64) : m.encode.length < two64 := by
  unfold MappingX.encode
  have a1 := encodeUint64Opt_length_le 1 m.id (by decide) h1
  have a2 := encodeUint64Opt_length_le 2 m.start (by decide) h2
  have a3 := encodeUint64Opt_length_le 3 m.limit (by decide) h3
  have a4 := encodeUint64Opt_length_le 4 m.offset (by decide) h4
  have a5 := encodeInt64Opt_length_le 5 m.fileX (by decide)
  have a6 := encodeInt64Opt_length_le 6 m.buildIDX (by decide)
  have a7 := encodeBoolOpt_length_le 7 m.hasFunctions (by decide)
  have a8 := encodeBoolOpt_length_le 8 m.hasFilenames (by decide)
  have a9 := encodeBoolOpt_length_le 9 m.hasLineNumbers (by decide)
  have a10 := encodeBoolOpt_length_le 10 m.hasInlineFrames (by decide)
  have := two64_big
  simp only [List.length_append]; omega


/-! ### `WF` and `Sized` of an encoding -/

/-- every integer of the profile fits its Go type (`uint64` ids/addresses, `int64` values) -/
structure InRange (p : Profile) : Prop where
  timeNanos : InI64 p.timeNanos
  durationNanos : InI64 p.durationNanos
  period : InI64 p.period
  samples : ∀ s ∈ p.samples, (∀ id ∈ s.locationIDs, id < two64) ∧ (∀ v ∈ s.values, InI64 v) ∧
    (∀ e ∈ s.numLabel, ∀ v ∈ e.2, InI64 v)
  mappings : ∀ m ∈ p.mappings, m.id < two64 ∧ m.start < two64 ∧ m.limit < two64 ∧ m.offset < two64
  locations : ∀ l ∈ p.locations, l.id < two64 ∧ l.mappingID < two64 ∧ l.address < two64 ∧
    ∀ ln ∈ l.lines, ln.functionID < two64 ∧ InI64 ln.line ∧ InI64 ln.column
  functions : ∀ f ∈ p.functions, f.id < two64 ∧ InI64 f.startLine

/-- the size side conditions that are not implied by the shape of the message: the string
table has fewer than 2^63 entries (indices are `int64`), and every variable-length body is
shorter than 2^64 bytes. -/
structure EncSizes (x : ProfileX) : Prop where
  tab : x.stringTable.length < two63
  strs : ∀ s ∈ x.stringTable, s.length < two64
  samples : ∀ s ∈ x.sample, s.encode.length < two64 ∧ (s.locationIDX.flatMap encodeVarint).length < two64 ∧
    ((s.value.map toU64).flatMap encodeVarint).length < two64
  locations : ∀ l ∈ x.location, l.encode.length < two64
  comments : ((x.commentX.map toU64).flatMap encodeVarint).length < two64

theorem InI64_of_Res {t : StrTab} {i : Int} {s : Str} (h : Res t i s) (ht : t.length < two63) : InI64 i := by
  have h1 := h.1
  have h2 := h.lt_length
  unfold InI64
  unfold two63 at ht ⊢
  omega

theorem InI64_zero : InI64 0 := by decide

theorem LabelX.WF_of_Denotes {t : StrTab} (ht : t.length < two63) {l : LabelX} {sl : SemLabel}
    (h : Denotes t l sl) (hv : ∀ k v u, sl = SemLabel.num k v u → InI64 v) : l.WF := by
  cases sl with
  | str k v =>
    obtain ⟨a, b, c, d⟩ := h
    exact ⟨InI64_of_Res a ht, InI64_of_Res b ht, c ▸ InI64_zero, d ▸ InI64_zero⟩
  | num k v u =>
    obtain ⟨a, b, c, d⟩ := h
    exact ⟨InI64_of_Res a ht, b ▸ InI64_zero, c ▸ hv k v u rfl, InI64_of_Res d ht⟩

theorem semLabels_num_mem {s : Sample} {k : Str} {v : Int} {u : Str} (h : SemLabel.num k v u ∈ semLabels s) :
    ∃ e ∈ s.numLabel, v ∈ e.2 := by
  rw [semLabels_eq, List.mem_append] at h
  rcases h with h | h
  · obtain ⟨e, _, he⟩ := List.mem_flatMap.mp h
    obtain ⟨_, _, hh⟩ := List.mem_map.mp he
    cases hh
  · obtain ⟨e, hin, he⟩ := List.mem_flatMap.mp h
    obtain ⟨pr, hpr, hh⟩ := List.mem_map.mp he
    cases hh
    exact ⟨e, hin, (List.of_mem_zip hpr).1⟩

theorem SampleX.WF_of_SampRel {t : StrTab} (ht : t.length < two63) {s : Sample} {x : SampleX}
    (h : SampRel t s x)
    (hr : (∀ id ∈ s.locationIDs, id < two64) ∧ (∀ v ∈ s.values, InI64 v) ∧ (∀ e ∈ s.numLabel, ∀ v ∈ e.2, InI64 v))
    (h1 : (x.locationIDX.flatMap encodeVarint).length < two64)
    (h2 : ((x.value.map toU64).flatMap encodeVarint).length < two64) : x.WF := by
  obtain ⟨e1, e2, hd⟩ := h
  refine ⟨e1 ▸ hr.1, e2 ▸ hr.2.1, ?_, h1, h2, fun l _ => l.encode_length_lt⟩
  intro l hl
  obtain ⟨sl, hsl, hden⟩ := All2.forall_right hd l hl
  apply LabelX.WF_of_Denotes ht hden
  intro k v u hk
  subst hk
  obtain ⟨e, he, hv⟩ := semLabels_num_mem hsl
  exact hr.2.2 e he v hv

theorem WF_of_EncRel {p : Profile} {x : ProfileX} (h : EncRel p x) (hr : InRange p) (hz : EncSizes x) : x.WF := by
  have ht := hz.tab
  refine ⟨?_, ?_, ?_, ?_, ?_, ?_, InI64_of_Res h.dropFrames ht, InI64_of_Res h.keepFrames ht,
    h.timeNanos ▸ hr.timeNanos, h.durationNanos ▸ hr.durationNanos, ?_, h.period ▸ hr.period, ?_,
    InI64_of_Res h.defaultSampleType ht, InI64_of_Res h.docURL ht⟩
  · intro vx hvx
    obtain ⟨v, _, hv⟩ := All2.forall_right h.sampleType vx hvx
    exact ⟨InI64_of_Res hv.1 ht, InI64_of_Res hv.2 ht⟩
  · intro sx hsx
    obtain ⟨s, hs, hrel⟩ := All2.forall_right h.sample sx hsx
    exact SampleX.WF_of_SampRel ht hrel (hr.samples s hs) (hz.samples sx hsx).2.1 (hz.samples sx hsx).2.2
  · intro mx hmx
    obtain ⟨m, hm, a, b, c, d, _, _, _, _, r1, r2⟩ := All2.forall_right h.mapping mx hmx
    obtain ⟨q1, q2, q3, q4⟩ := hr.mappings m hm
    exact ⟨a ▸ q1, b ▸ q2, c ▸ q3, d ▸ q4, InI64_of_Res r1 ht, InI64_of_Res r2 ht⟩
  · intro lx hlx
    rw [h.location] at hlx
    obtain ⟨l, hl, rfl⟩ := List.mem_map.mp hlx
    obtain ⟨q1, q2, q3, q4⟩ := hr.locations l hl
    refine ⟨q1, q2, q3, ?_, ?_⟩
    · intro lnx hlnx
      obtain ⟨ln, hln, rfl⟩ := List.mem_map.mp hlnx
      exact q4 ln hln
    · intro lnx hlnx
      obtain ⟨ln, hln, rfl⟩ := List.mem_map.mp hlnx
      exact LineX.encode_length_lt _ (q4 ln hln).1
  · intro fx hfx
    obtain ⟨f, hf, a, b, r1, r2, r3⟩ := All2.forall_right h.function fx hfx
    obtain ⟨q1, q2⟩ := hr.functions f hf
    exact ⟨a ▸ q1, InI64_of_Res r1 ht, InI64_of_Res r2 ht, InI64_of_Res r3 ht, b ▸ q2⟩
  · right
    rw [List.head?_eq_getElem?]
    exact h.inv.head
  · intro pt hpt
    have := h.periodType
    rw [hpt] at this
    cases hp : p.periodType with
    | none => rw [hp] at this; exact this.elim
    | some v => rw [hp] at this; exact ⟨InI64_of_Res this.1 ht, InI64_of_Res this.2 ht⟩
  · intro c hc
    obtain ⟨s, _, hres⟩ := All2.forall_right h.comments c hc
    exact InI64_of_Res hres ht

theorem Sized_of_EncRel {p : Profile} {x : ProfileX} (h : EncRel p x) (hr : InRange p) (hz : EncSizes x) : x.Sized := by
  refine ⟨fun v _ => v.encode_length_lt, fun s hs => (hz.samples s hs).1, ?_, hz.locations, ?_, hz.strs,
    fun pt _ => pt.encode_length_lt, hz.comments⟩
  · intro mx hmx
    obtain ⟨m, hm, a, b, c, d, _⟩ := All2.forall_right h.mapping mx hmx
    obtain ⟨q1, q2, q3, q4⟩ := hr.mappings m hm
    exact mx.encode_length_lt (a ▸ q1) (b ▸ q2) (c ▸ q3) (d ▸ q4)
  · intro fx hfx
    obtain ⟨f, hf, a, _⟩ := All2.forall_right h.function fx hfx
    exact fx.encode_length_lt (a ▸ (hr.functions f hf).1)


/-! ### composition with the wire half -/

theorem getD_normPT (o : Option ValueTypeX) : (normPT o).getD {} = o.getD {} := by
  cases o with
  | none => rfl
  | some pt =>
    simp only [normPT]
    split
    · rfl
    · rename_i hn
      obtain ⟨a, b⟩ := pt
      simp only [ne_eq, not_or, Decidable.not_not] at hn
      obtain ⟨rfl, rfl⟩ := hn
      rfl

/-- the only thing the wire changes (an all-zero `PeriodType` is elided) is invisible to `postDecode` -/
theorem postDecode_normPT (x : ProfileX) :
    postDecode { x with periodType := normPT x.periodType } = postDecode x := by
  unfold postDecode
  simp only [getD_normPT]

theorem ProfileX.encode_ne_nil (x : ProfileX) : x.encode.length ≠ 0 := by
  intro h
  have hnil : x.encode = [] := List.eq_nil_of_length_eq_zero h
  unfold ProfileX.encode at hnil
  simp only [List.append_eq_nil_iff] at hnil
  have h14 := hnil.1.2
  unfold encodeInt64 encodeUint64 at h14
  simp only [List.append_eq_nil_iff] at h14
  exact encodeVarint_ne_nil _ h14.1

/-- parsing the bytes of any well-formed, sized wire message = `postDecode` of the message -/
theorem parseUncompressed_encode (x : ProfileX) (hwf : x.WF) (hsz : x.Sized) :
    parseUncompressed x.encode = postDecode x := by
  unfold parseUncompressed
  simp only [ProfileX.encode_ne_nil x, if_false]
  rw [unmarshal_encode x hwf hsz, Outcome.bind_ok, postDecode_normPT]

/-! ### discharging `EncSizes` from element counts -/

theorem length_flatMap_le {α β} (f : α → List β) (c : Nat) :
    ∀ (xs : List α), (∀ x ∈ xs, (f x).length ≤ c) → (xs.flatMap f).length ≤ c * xs.length
  | [], _ => by simp
  | x :: xs, h => by
    have ih := length_flatMap_le f c xs (fun y hy => h y (List.mem_cons_of_mem _ hy))
    have hx := h x (by simp)
    simp only [List.flatMap_cons, List.length_append, List.length_cons]
    rw [Nat.mul_succ]; omega

theorem encodeLength_length_le (tag len : Nat) (ht : tag < 16) (hl : len < two64) : (encodeLength tag len).length ≤ 11 := by
  unfold encodeLength
  have h1 := encodeVarint_length_small (tag * 8 + 2) (by omega)
  have h2 := encodeVarint_length_le len hl
  simp only [List.length_append]; omega

theorem encodeMessage_length_le (tag : Nat) (body : Bytes) (ht : tag < 16) (hl : body.length < two64) :
    (encodeMessage tag body).length ≤ 11 + body.length := by
  unfold encodeMessage
  have := encodeLength_length_le tag body.length ht hl
  simp only [List.length_append]; omega

theorem packed_length_le (xs : List Nat) (h : ∀ x ∈ xs, x < two64) : (xs.flatMap encodeVarint).length ≤ 10 * xs.length :=
  length_flatMap_le _ 10 xs (fun x hx => encodeVarint_length_le x (h x hx))

theorem encodeUint64s_length_le (tag : Nat) (xs : List Nat) (ht : tag < 16) (h : ∀ x ∈ xs, x < two64)
    (hn : 10 * xs.length < two64) : (encodeUint64s tag xs).length ≤ 11 + 11 * xs.length := by
  unfold encodeUint64s
  have hp := packed_length_le xs h
  split
  · have := encodeMessage_length_le tag (xs.flatMap encodeVarint) ht (by omega)
    omega
  · have := length_flatMap_le (encodeUint64 tag) 11 xs (fun x hx => encodeUint64_length_le tag x ht (h x hx))
    omega

theorem SampleX.encode_length_le (s : SampleX) (h1 : ∀ x ∈ s.locationIDX, x < two64)
    (hn1 : 10 * s.locationIDX.length < two64) (hn2 : 10 * s.value.length < two64) :
    s.encode.length ≤ 22 + 11 * s.locationIDX.length + 11 * s.value.length + 55 * s.labelX.length := by
  unfold SampleX.encode encodeInt64s
  have a1 := encodeUint64s_length_le 1 s.locationIDX (by decide) h1 hn1
  have a2 := encodeUint64s_length_le 2 (s.value.map toU64) (by decide)
    (fun x hx => by obtain ⟨v, _, rfl⟩ := List.mem_map.mp hx; exact toU64_lt v) (by simpa using hn2)
  have a3 := length_flatMap_le (fun (l : LabelX) => encodeMessage 3 l.encode) 55 s.labelX (fun l _ => by
    have := encodeMessage_length_le 3 l.encode (by decide) l.encode_length_lt
    have h1 := encodeInt64Opt_length_le 1 l.keyX (by decide)
    have h2 := encodeInt64Opt_length_le 2 l.strX (by decide)
    have h3 := encodeInt64Opt_length_le 3 l.numX (by decide)
    have h4 := encodeInt64Opt_length_le 4 l.unitX (by decide)
    have hl : l.encode.length ≤ 44 := by
      unfold LabelX.encode; simp only [List.length_append]; omega
    omega)
  simp only [List.length_map] at a2
  simp only [List.length_append]; omega

theorem LocationX.encode_length_le (l : LocationX) (h1 : l.id < two64) (h2 : l.mappingIDX < two64)
    (h3 : l.address < two64) (h4 : ∀ ln ∈ l.line, ln.functionIDX < two64) :
    l.encode.length ≤ 44 + 44 * l.line.length := by
  unfold LocationX.encode
  have a1 := encodeUint64Opt_length_le 1 l.id (by decide) h1
  have a2 := encodeUint64Opt_length_le 2 l.mappingIDX (by decide) h2
  have a3 := encodeUint64Opt_length_le 3 l.address (by decide) h3
  have a4 := length_flatMap_le (fun (x : LineX) => encodeMessage 4 x.encode) 44 l.line (fun ln hln => by
    have := encodeMessage_length_le 4 ln.encode (by decide) (ln.encode_length_lt (h4 ln hln))
    have b1 := encodeUint64Opt_length_le 1 ln.functionIDX (by decide) (h4 ln hln)
    have b2 := encodeInt64Opt_length_le 2 ln.line (by decide)
    have b3 := encodeInt64Opt_length_le 3 ln.column (by decide)
    have hl : ln.encode.length ≤ 33 := by
      unfold LineX.encode; simp only [List.length_append]; omega
    omega)
  have a5 := encodeBoolOpt_length_le 5 l.isFolded (by decide)
  simp only [List.length_append]; omega

/-- `EncSizes` follows from plain element counts (any count below 2^56 is enough). -/
theorem EncSizes_of_counts {x : ProfileX} (htab : x.stringTable.length < two63)
    (hstr : ∀ s ∈ x.stringTable, s.length < two64)
    (hs : ∀ s ∈ x.sample, (∀ i ∈ s.locationIDX, i < two64) ∧
      s.locationIDX.length + s.value.length + s.labelX.length < 2 ^ 56)
    (hl : ∀ l ∈ x.location, l.id < two64 ∧ l.mappingIDX < two64 ∧ l.address < two64 ∧
      (∀ ln ∈ l.line, ln.functionIDX < two64) ∧ l.line.length < 2 ^ 56)
    (hc : x.commentX.length < 2 ^ 56) : EncSizes x := by
  refine ⟨htab, hstr, ?_, ?_, ?_⟩
  · intro s hs'
    obtain ⟨h1, hn⟩ := hs s hs'
    have e := SampleX.encode_length_le s h1 (by unfold two64; omega) (by unfold two64; omega)
    have p1 := packed_length_le s.locationIDX h1
    have p2 := packed_length_le (s.value.map toU64)
      (fun x hx => by obtain ⟨v, _, rfl⟩ := List.mem_map.mp hx; exact toU64_lt v)
    simp only [List.length_map] at p2
    unfold two64
    refine ⟨by omega, by omega, by omega⟩
  · intro l hl'
    obtain ⟨h1, h2, h3, h4, hn⟩ := hl l hl'
    have e := LocationX.encode_length_le l h1 h2 h3 h4
    unfold two64; omega
  · have p := packed_length_le (x.commentX.map toU64)
      (fun x hx => by obtain ⟨v, _, rfl⟩ := List.mem_map.mp hx; exact toU64_lt v)
    simp only [List.length_map] at p
    unfold two64; omega

end Codec
end PV
