import PprofVerif.Lemmas.LegacyThread
/-!
Helper lemmas for C14: line-ending and termination variants of the text formats.  `bufio.ScanLines`
reads the same lines whatever mixture of `\n` / `\r\n` terminates them and whether or not the last
line is terminated, so the `parse ∘ print` theorems of the Scanner-based parsers (count, heap,
contention, threadz) hold for every such rendering of the document's lines.
-/
namespace PV.Legacy
open PV

theorem splitLinesAux_last (l acc : Str) (h : ∀ b ∈ l, b.toNat ≠ 10) :
    splitLinesAux l acc = if (acc.reverse ++ l).isEmpty then [] else [dropCR (acc.reverse ++ l)] := by
  induction l generalizing acc with
  | nil => simp [splitLinesAux]
  | cons b l ih =>
    have hb : b.toNat ≠ 10 := h b (by simp)
    simp only [splitLinesAux, beq_iff_eq, hb, if_false]
    rw [ih (b :: acc) (fun x hx => h x (by simp [hx]))]
    simp

theorem dropCR_snoc_cr {l : Str} : dropCR (l ++ [13]) = l := by
  simp [dropCR]

theorem splitLinesAux_eol (c : Bool) (l rest : Str) (h : LineOK l) :
    splitLinesAux (l ++ eol c ++ rest) [] = l :: splitLinesAux rest [] := by
  cases c with
  | false =>
    simp only [eol, Bool.false_eq_true, if_false, List.append_assoc, List.singleton_append]
    rw [splitLinesAux_line l rest [] (fun b hb => (h b hb).1)]
    simp [dropCR_of_ok h]
  | true =>
    have e : l ++ eol true ++ rest = (l ++ [13]) ++ 10 :: rest := by simp [eol]
    rw [e, splitLinesAux_line (l ++ [13]) rest [] (by
      intro b hb
      rcases List.mem_append.1 hb with hb | hb
      · exact (h b hb).1
      · simp at hb; subst hb; decide)]
    simp [dropCR_snoc_cr]

/-- `bufio.ScanLines` reads the lines back whatever mixture of `\n` / `\r\n` terminates them, and
whether or not the last line is terminated (an unterminated EMPTY last line is no line). -/
theorem splitLines_renderLines (cs : List Bool) (noFinal : Bool) (ls : List Str) (h : ∀ l ∈ ls, LineOK l)
    (hlast : noFinal = true → ls.getLast? ≠ some []) : splitLines (renderLines cs noFinal ls) = ls := by
  unfold splitLines
  induction ls generalizing cs with
  | nil => simp [renderLines, splitLinesAux]
  | cons l r ih =>
    cases r with
    | nil =>
      have hl := h l (by simp)
      cases noFinal with
      | true =>
        have hne : l ≠ [] := by
          intro e; apply hlast rfl; simp [e]
        simp only [renderLines, if_true, List.append_nil]
        rw [splitLinesAux_last l [] (fun b hb => (hl b hb).1)]
        simp [hne, dropCR_of_ok hl]
      | false =>
        simp only [renderLines, Bool.false_eq_true, if_false]
        have := splitLinesAux_eol (cs.headD false) l [] hl
        simpa [splitLinesAux] using this
    | cons l2 r2 =>
      simp only [renderLines]
      rw [splitLinesAux_eol _ l _ (h l (by simp))]
      congr 1
      exact ih cs.tail (fun x hx => h x (by simp [hx])) (by
        intro hn; have := hlast hn; simpa [List.getLast?_cons_cons] using this)

theorem renderLines_unlines (ls : List Str) : renderLines [] false ls = unlines ls := by
  induction ls with
  | nil => rfl
  | cons l r ih =>
    cases r with
    | nil => simp [renderLines, unlines, eol]
    | cons l2 r2 =>
      simp only [renderLines, List.headD_nil, List.tail_nil]
      rw [ih]; simp [unlines, eol]

theorem parseGoCount_renderLines (cs : List Bool) (nf : Bool) (d : CountDoc) (h : d.wf = true)
    (hlast : nf = true → d.lines.getLast? ≠ some []) :
    parseGoCount (renderLines cs nf d.lines) = .ok (expectedCount d) := by
  have := parseGoCount_printCount d h
  unfold parseGoCount at this ⊢
  rw [splitLines_printCount d h] at this
  rw [splitLines_renderLines cs nf d.lines (d.lines_ok h) hlast]; exact this

theorem parseHeap_renderLines (scale : ScaleFn) (cs : List Bool) (nf : Bool) (d : HeapDoc) (h : d.wf = true)
    (hlast : nf = true → d.lines.getLast? ≠ some []) :
    parseHeap scale (renderLines cs nf d.lines) = .ok (expectedHeap scale d) := by
  have := parseHeap_printHeap scale d h
  unfold parseHeap at this ⊢
  rw [splitLines_printHeap d h] at this
  rw [splitLines_renderLines cs nf d.lines (d.lines_ok h) hlast]; exact this

theorem parseContention_renderLines (cyc : CycFn) (cs : List Bool) (nf : Bool) (d : ContDoc) (h : d.wf = true)
    (hlast : nf = true → d.lines.getLast? ≠ some []) :
    parseContention cyc (renderLines cs nf d.lines) = .ok (expectedContention cyc d) := by
  have := parseContention_printContention cyc d h
  unfold parseContention at this ⊢
  rw [splitLines_printContention d h] at this
  rw [splitLines_renderLines cs nf d.lines (d.lines_ok h) hlast]; exact this

theorem parseThread_renderLines (cs : List Bool) (nf : Bool) (d : ThreadDoc) (h : d.wf = true)
    (hlast : nf = true → d.lines.getLast? ≠ some []) :
    parseThread (renderLines cs nf d.lines) = .ok (expectedThread d) := by
  have := parseThread_printThread d h
  unfold parseThread at this ⊢
  rw [splitLines_printThread d h] at this
  rw [splitLines_renderLines cs nf d.lines (d.lines_ok h) hlast]; exact this

end PV.Legacy
