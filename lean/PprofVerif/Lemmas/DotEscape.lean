import PprofVerif.Model.Dot
/-! C18 helper lemmas: `escapeForDot` byte-wise, quoted-string scanning of escaped text,
    closure of "safe between quotes" under concatenation, display round trip. Core Lean only. -/
namespace PV.Dot

theorem replaceByte_eq_flatMap (c : UInt8) (rep s : Bytes) :
    replaceByte c rep s = s.flatMap (fun b => if b = c then rep else [b]) := by
  induction s with
  | nil => rfl
  | cons b r ih =>
    simp only [replaceByte, List.flatMap_cons]
    split <;> simp [ih]

theorem escByte_eq (b : UInt8) :
    List.flatMap (fun x => List.flatMap (fun b => if b = NL then [BS, LL] else [b]) (if x = DQ then [BS, DQ] else [x]))
      (if b = BS then [BS, BS] else [b]) = escByte b := by
  unfold escByte
  by_cases h1 : b = BS
  · subst h1; decide
  · by_cases h2 : b = DQ
    · subst h2; decide
    · by_cases h3 : b = NL
      · subst h3; decide
      · simp [h1, h2, h3]

/-- the three nested `ReplaceAll` calls act byte by byte -/
theorem escape_eq_flatMap (s : Bytes) : escape s = s.flatMap escByte := by
  simp only [escape, escapeSpec, List.foldl, replaceByte_eq_flatMap, List.flatMap_assoc]
  congr 1
  funext b
  exact escByte_eq b

theorem BS_ne_DQ : ¬ BS = DQ := by decide

theorem scanA_of_qsafeA (b : Bytes) : ∀ (esc : Bool), qsafeA esc b = true → ∀ r,
    scanA esc (b ++ DQ :: r) = some (b, r) := by
  induction b with
  | nil =>
    intro esc h r
    cases esc
    · simp [scanA]
    · simp [qsafeA] at h
  | cons x t ih =>
    intro esc h r
    cases esc
    · by_cases hx : x = DQ
      · simp [qsafeA, hx] at h
      · by_cases hb : x = BS
        · subst hb
          have h' : qsafeA true t = true := by simpa [qsafeA, BS_ne_DQ] using h
          simp [scanA, BS_ne_DQ, ih true h' r]
        · have h' : qsafeA false t = true := by simpa [qsafeA, hx, hb] using h
          simp [scanA, hx, hb, ih false h' r]
    · have h' : qsafeA false t = true := by simpa [qsafeA] using h
      simp [scanA, ih false h' r]

theorem scanQ_of_qsafeB (b : Bytes) (h : qsafeB b = true) (r : Bytes) :
    scanQ (b ++ DQ :: r) = some (b, r) := scanA_of_qsafeA b false h r

theorem qsafeA_append (a b : Bytes) : ∀ (esc : Bool), qsafeA esc a = true → qsafeA false b = true →
    qsafeA esc (a ++ b) = true := by
  induction a with
  | nil =>
    intro esc ha hb
    cases esc
    · simpa using hb
    · simp [qsafeA] at ha
  | cons x t ih =>
    intro esc ha hb
    cases esc
    · by_cases hx : x = DQ
      · simp [qsafeA, hx] at ha
      · by_cases hbs : x = BS
        · subst hbs
          have h' : qsafeA true t = true := by simpa [qsafeA, BS_ne_DQ] using ha
          simpa [qsafeA, BS_ne_DQ] using ih true h' hb
        · have h' : qsafeA false t = true := by simpa [qsafeA, hx, hbs] using ha
          simpa [qsafeA, hx, hbs] using ih false h' hb
    · have h' : qsafeA false t = true := by simpa [qsafeA] using ha
      simpa [qsafeA] using ih false h' hb

theorem qsafeB_append (a b : Bytes) (ha : qsafeB a = true) (hb : qsafeB b = true) :
    qsafeB (a ++ b) = true := qsafeA_append a b false ha hb

theorem qsafeB_escByte (b : UInt8) : qsafeB (escByte b) = true := by
  unfold escByte
  by_cases h1 : b = BS
  · subst h1; decide
  · by_cases h2 : b = DQ
    · subst h2; decide
    · by_cases h3 : b = NL
      · subst h3; decide
      · simp [h1, h2, h3, qsafeB, qsafeA]

theorem qsafeB_flatMap_escByte (s : Bytes) : qsafeB (s.flatMap escByte) = true := by
  induction s with
  | nil => rfl
  | cons b r ih => simpa [List.flatMap_cons] using qsafeB_append _ _ (qsafeB_escByte b) ih

theorem qsafeB_escape (s : Bytes) : qsafeB (escape s) = true := by
  rw [escape_eq_flatMap]; exact qsafeB_flatMap_escByte s

theorem unescape_escByte_append (b : UInt8) (t : Bytes) :
    unescapeA false (escByte b ++ t) = b :: unescapeA false t := by
  have e1 : ¬ DQ = BS := by decide
  have e2 : ¬ NL = BS := by decide
  have e3 : ¬ NL = DQ := by decide
  have e4 : ¬ BS = LL := by decide
  have e5 : ¬ DQ = LL := by decide
  have e6 : ¬ BS = 0x6e := by decide
  have e7 : ¬ DQ = 0x6e := by decide
  unfold escByte
  by_cases h1 : b = BS
  · subst h1; simp [unescapeA, e4, e6]
  · by_cases h2 : b = DQ
    · subst h2; simp [unescapeA, e1, e5, e7]
    · by_cases h3 : b = NL
      · subst h3; simp [unescapeA, e2, e3]
      · simp [h1, h2, h3, unescapeA]

theorem unescape_escape (s : Bytes) : unescape (escape s) = s := by
  rw [escape_eq_flatMap]
  unfold unescape
  induction s with
  | nil => rfl
  | cons b r ih => simp [List.flatMap_cons, unescape_escByte_append, ih]

theorem not_mem_NL_escByte (b : UInt8) : NL ∉ escByte b := by
  unfold escByte
  by_cases h1 : b = BS
  · subst h1; decide
  · by_cases h2 : b = DQ
    · subst h2; decide
    · by_cases h3 : b = NL
      · subst h3; decide
      · simp [h1, h2, h3]; exact fun h => h3 h.symm

theorem not_mem_NL_escape (s : Bytes) : NL ∉ escape s := by
  rw [escape_eq_flatMap]
  simp only [List.mem_flatMap, not_exists, not_and]
  intro b _
  exact not_mem_NL_escByte b

end PV.Dot
