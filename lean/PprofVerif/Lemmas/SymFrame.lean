import PprofVerif.Lemmas.SymBasic
/-!
Helper lemmas for C12 (2/3): what the local and the remote step may change in the location and
mapping tables (frame condition, "mappings with symbols are left alone").  Core Lean only.
-/
namespace PV.Sym
open PV

/-- pointwise relation between two lists of the same length. -/
inductive Rel₂ {α β : Type} (R : α → β → Prop) : List α → List β → Prop
  | nil : Rel₂ R [] []
  | cons {a b as bs} : R a b → Rel₂ R as bs → Rel₂ R (a :: as) (b :: bs)

namespace Rel₂
variable {α β γ : Type}

theorem refl {R : α → α → Prop} (h : ∀ a, R a a) : ∀ l, Rel₂ R l l
  | [] => .nil
  | a :: l => .cons (h a) (refl h l)

theorem mono {R S : α → β → Prop} (h : ∀ a b, R a b → S a b) {as bs} (r : Rel₂ R as bs) : Rel₂ S as bs := by
  induction r with
  | nil => exact .nil
  | cons hab _ ih => exact .cons (h _ _ hab) ih

/-- like `mono`, but the implication may use membership of the left element. -/
theorem mono_mem {R S : α → β → Prop} {as bs} (r : Rel₂ R as bs)
    (h : ∀ a b, a ∈ as → R a b → S a b) : Rel₂ S as bs := by
  induction r with
  | nil => exact .nil
  | cons hab _ ih =>
    refine .cons (h _ _ (List.mem_cons_self ..) hab) (ih ?_)
    intro a b ha; exact h a b (List.mem_cons_of_mem _ ha)

theorem comp {R : α → β → Prop} {S : β → γ → Prop} {T : α → γ → Prop}
    (h : ∀ a b c, R a b → S b c → T a c) {as bs cs} (r : Rel₂ R as bs) (s : Rel₂ S bs cs) :
    Rel₂ T as cs := by
  induction r generalizing cs with
  | nil => cases s; exact .nil
  | cons hab _ ih => cases s with | cons hbc s' => exact .cons (h _ _ _ hab hbc) (ih s')

theorem map_eq {R : α → β → Prop} {f : α → γ} {g : β → γ} (h : ∀ a b, R a b → f a = g b)
    {as bs} (r : Rel₂ R as bs) : as.map f = bs.map g := by
  induction r with
  | nil => rfl
  | cons hab _ ih => simp [h _ _ hab, ih]

theorem mem_right {R : α → β → Prop} {as bs} (r : Rel₂ R as bs) {b} (hb : b ∈ bs) :
    ∃ a ∈ as, R a b := by
  induction r with
  | nil => cases hb
  | cons hab _ ih =>
    cases hb with
    | head => exact ⟨_, List.mem_cons_self .., hab⟩
    | tail _ h => obtain ⟨a, ha, r⟩ := ih h; exact ⟨a, List.mem_cons_of_mem _ ha, r⟩

theorem get? {R : α → β → Prop} {as bs} (r : Rel₂ R as bs) (i : Nat) {a} (ha : as[i]? = some a) :
    ∃ b, bs[i]? = some b ∧ R a b := by
  induction r generalizing i with
  | nil => simp at ha
  | cons hab _ ih =>
    cases i with
    | zero => simp at ha; subst ha; exact ⟨_, by simp, hab⟩
    | succ i => simp at ha; simpa using ih i ha

theorem get?_right {R : α → β → Prop} {as bs} (r : Rel₂ R as bs) (i : Nat) {b} (hb : bs[i]? = some b) :
    ∃ a, as[i]? = some a ∧ R a b := by
  induction r generalizing i with
  | nil => simp at hb
  | cons hab _ ih =>
    cases i with
    | zero => simp at hb; subst hb; exact ⟨_, by simp, hab⟩
    | succ i => simp at hb; simpa using ih i hb

end Rel₂

/-! ### relations on mappings and locations -/

/-- what no step changes in a mapping; flags only ever go from false to true. -/
def MapFrame (m m' : Mapping) : Prop :=
  m'.id = m.id ∧ m'.start = m.start ∧ m'.limit = m.limit ∧ m'.offset = m.offset ∧
  m'.file = m.file ∧ m'.buildID = m.buildID ∧
  (m.hasFunctions = true → m'.hasFunctions = true) ∧ (m.hasFilenames = true → m'.hasFilenames = true) ∧
  (m.hasLineNumbers = true → m'.hasLineNumbers = true) ∧ (m.hasInlineFrames = true → m'.hasInlineFrames = true)

theorem MapFrame.refl (m : Mapping) : MapFrame m m := by simp [MapFrame]

theorem MapFrame.trans {a b c : Mapping} (h1 : MapFrame a b) (h2 : MapFrame b c) : MapFrame a c := by
  obtain ⟨a1, a2, a3, a4, a5, a6, a7, a8, a9, a10⟩ := h1
  obtain ⟨b1, b2, b3, b4, b5, b6, b7, b8, b9, b10⟩ := h2
  exact ⟨b1.trans a1, b2.trans a2, b3.trans a3, b4.trans a4, b5.trans a5, b6.trans a6,
    fun h => b7 (a7 h), fun h => b8 (a8 h), fun h => b9 (a9 h), fun h => b10 (a10 h)⟩

/-- `touch m` = the step is allowed to work on `m`. -/
def MapRel (touch : Mapping → Prop) (m m' : Mapping) : Prop := MapFrame m m' ∧ (¬ touch m → m' = m)

/-- a location keeps id, mapping and address; it is unchanged unless its mapping id is in `T`. -/
def LocRel (T : Nat → Prop) (l l' : Location) : Prop :=
  l'.id = l.id ∧ l'.mappingID = l.mappingID ∧ l'.address = l.address ∧ (¬ T l.mappingID → l' = l)

theorem LocRel.refl (T : Nat → Prop) (l : Location) : LocRel T l l := by simp [LocRel]

theorem LocRel.mono {T U : Nat → Prop} (h : ∀ i, T i → U i) {l l'} (r : LocRel T l l') : LocRel U l l' :=
  ⟨r.1, r.2.1, r.2.2.1, fun hn => r.2.2.2 (fun ht => hn (h _ ht))⟩

theorem LocRel.comp {T U : Nat → Prop} {a b c : Location} (r1 : LocRel T a b) (r2 : LocRel U b c) :
    LocRel (fun i => T i ∨ U i) a c := by
  refine ⟨r2.1.trans r1.1, r2.2.1.trans r1.2.1, r2.2.2.1.trans r1.2.2.1, ?_⟩
  intro hn
  have h1 : b = a := r1.2.2.2 (fun h => hn (Or.inl h))
  have h2 : c = b := r2.2.2.2 (fun h => hn (Or.inr (by rw [h1] at h; exact h)))
  rw [h2, h1]

/-- the local step works on `m` unless it already has symbols and force is off. -/
def touchL (force : Bool) (m : Mapping) : Prop :=
  ¬ (force = false ∧ (m.hasFunctions = true ∨ m.hasFilenames = true ∨ m.hasLineNumbers = true))
/-- the remote step works on `m` unless it already has function names and force is off. -/
def touchR (force : Bool) (m : Mapping) : Prop := ¬ (force = false ∧ m.hasFunctions = true)

theorem touchR_of_touchL {force m} (h : touchL force m) : touchR force m :=
  fun hr => h ⟨hr.1, Or.inl hr.2⟩

/-! ### local step -/

theorem symFrames_mapFrame (st : LSt) (m : Mapping) (frs : List Frame) :
    MapFrame m (symFrames st m frs).2.1 := by
  induction frs generalizing st m with
  | nil => exact MapFrame.refl m
  | cons fr rest ih =>
    simp only [symFrames]
    refine MapFrame.trans ?_ (ih _ _)
    simp only [MapFrame, Bool.or_eq_true, true_and]
    exact ⟨fun h => Or.inl h, fun h => Or.inl h, fun h => Or.inl h, fun h => h⟩

theorem symLocation_rel {σ} (tool : ObjTool σ) (s : σ) (st : LSt) (m : Mapping) (l : Location) :
    MapFrame m (symLocation tool s st m l).2.2.1 ∧
    LocRel (fun _ => True) l (symLocation tool s st m l).2.2.2 := by
  unfold symLocation
  split
  · rename_i s1 fr frs _
    refine ⟨?_, by simp [LocRel]⟩
    refine MapFrame.trans (symFrames_mapFrame st m (fr :: frs)) ?_
    simp [MapFrame]
  · exact ⟨MapFrame.refl m, LocRel.refl _ l⟩

theorem symLocs_rel {σ} (tool : ObjTool σ) (mid : Nat) (s : σ) (st : LSt) (m : Mapping)
    (locs : List Location) :
    MapFrame m (symLocs tool mid s st m locs).2.2.1 ∧
    Rel₂ (LocRel (· = mid)) locs (symLocs tool mid s st m locs).2.2.2 := by
  induction locs generalizing s st m with
  | nil => exact ⟨MapFrame.refl m, .nil⟩
  | cons l rest ih =>
    simp only [symLocs]
    split
    · rename_i hl
      have h1 := symLocation_rel tool s st m l
      have h2 := ih (symLocation tool s st m l).1 (symLocation tool s st m l).2.1
        (symLocation tool s st m l).2.2.1
      refine ⟨MapFrame.trans h1.1 h2.1, .cons ?_ h2.2⟩
      exact ⟨h1.2.1, h1.2.2.1, h1.2.2.2.1, fun hn => absurd hl hn⟩
    · have h2 := ih s st m
      exact ⟨h2.1, .cons (LocRel.refl _ l) h2.2⟩

theorem touchL_of_not_skip {isSourceURL : Str → Bool} {force locs m}
    (h : localSkip isSourceURL force locs m = false) : touchL force m := by
  intro ⟨hf, hs⟩
  simp only [localSkip, Bool.or_eq_false_iff, Bool.and_eq_false_iff] at h
  have h2 := h.1.1.1.2
  subst hf
  rcases hs with hs | hs | hs <;> simp [hs] at h2

theorem localMapping_rel {σ} (tool : ObjTool σ) (isSourceURL : Str → Bool) (force : Bool)
    (s : σ) (st : LSt) (locs : List Location) (m : Mapping) :
    MapRel (touchL force) m (localMapping tool isSourceURL force s st locs m).2.2.2 ∧
    Rel₂ (LocRel (fun i => i = m.id ∧ touchL force m)) locs
      (localMapping tool isSourceURL force s st locs m).2.2.1 := by
  have idl : Rel₂ (LocRel (fun i => i = m.id ∧ touchL force m)) locs locs := Rel₂.refl (LocRel.refl _) locs
  have idm : MapRel (touchL force) m m := ⟨MapFrame.refl m, fun _ => rfl⟩
  unfold localMapping
  split
  · exact ⟨idm, idl⟩
  · rename_i hskip
    have ht : touchL force m := touchL_of_not_skip (by simpa using hskip)
    split
    · simp only []
      split
      · exact ⟨idm, idl⟩
      · have h := symLocs_rel tool m.id (tool.buildID ‹σ›).1 st m locs
        refine ⟨⟨h.1, fun hn => absurd ht hn⟩, h.2.mono ?_⟩
        intro a b r
        exact r.mono (fun i hi => ⟨hi, ht⟩)
    · exact ⟨idm, idl⟩

theorem localLoop_rel {σ} (tool : ObjTool σ) (isSourceURL : Str → Bool) (force : Bool)
    (s : σ) (st : LSt) (locs : List Location) (ms : List Mapping) :
    Rel₂ (MapRel (touchL force)) ms (localLoop tool isSourceURL force s st locs ms).2.2.2 ∧
    Rel₂ (LocRel (fun i => ∃ m ∈ ms, m.id = i ∧ touchL force m)) locs
      (localLoop tool isSourceURL force s st locs ms).2.2.1 := by
  induction ms generalizing s st locs with
  | nil => exact ⟨.nil, Rel₂.refl (LocRel.refl _) locs⟩
  | cons m rest ih =>
    simp only [localLoop]
    have h1 := localMapping_rel tool isSourceURL force s st locs m
    have h2 := ih (localMapping tool isSourceURL force s st locs m).1
      (localMapping tool isSourceURL force s st locs m).2.1
      (localMapping tool isSourceURL force s st locs m).2.2.1
    refine ⟨.cons h1.1 h2.1, ?_⟩
    refine Rel₂.comp ?_ h1.2 h2.2
    intro a b c r1 r2
    refine (LocRel.comp r1 r2).mono ?_
    intro i hi
    rcases hi with ⟨e, ht⟩ | ⟨m', hm', e, ht⟩
    · exact ⟨m, List.mem_cons_self .., e.symm, ht⟩
    · exact ⟨m', List.mem_cons_of_mem _ hm', e, ht⟩

theorem doLocal_rel {σ} (tool : ObjTool σ) (isSourceURL : Str → Bool) (force : Bool)
    (s : σ) (tab : FTab) (locs : List Location) (ms : List Mapping) :
    Rel₂ (MapRel (touchL force)) ms (doLocal tool isSourceURL force s tab locs ms).2.2.2 ∧
    Rel₂ (LocRel (fun i => ∃ m ∈ ms, m.id = i ∧ touchL force m)) locs
      (doLocal tool isSourceURL force s tab locs ms).2.2.1 := by
  unfold doLocal
  exact localLoop_rel tool isSourceURL force s _ locs ms

/-! ### remote step -/

theorem applyLine_rel (mid : Nat) (lm : List (Nat × Nat)) (l : Location) :
    LocRel (· = mid) l (applyLine mid lm l) := by
  unfold applyLine
  split
  · rename_i h
    split
    · exact ⟨rfl, rfl, rfl, fun hn => absurd h hn⟩
    · exact LocRel.refl _ l
  · exact LocRel.refl _ l

theorem map_applyLine_rel (mid : Nat) (lm : List (Nat × Nat)) (locs : List Location) :
    Rel₂ (LocRel (· = mid)) locs (locs.map (applyLine mid lm)) := by
  induction locs with
  | nil => exact .nil
  | cons l rest ih => exact .cons (applyLine_rel mid lm l) ih

theorem symbolizeMapping_rel {τ} (z : Symz τ) (src : Str) (off : Int) (mid : Nat)
    (t : τ) (tab : FTab) (locs : List Location) :
    Rel₂ (LocRel (· = mid)) locs (symbolizeMapping z src off mid t tab locs).2.2.1 := by
  have idl : Rel₂ (LocRel (· = mid)) locs locs := Rel₂.refl (LocRel.refl _) locs
  unfold symbolizeMapping
  split
  · exact idl
  · exact idl
  · split
    · simp only []
      split
      · exact idl
      · exact map_applyLine_rel mid _ locs
    · exact idl

theorem remoteMapping_rel {τ} (z : Symz τ) (force : Bool) (sources : Sources)
    (t : τ) (tab : FTab) (locs : List Location) (m : Mapping) :
    MapRel (touchR force) m (remoteMapping z force sources t tab locs m).2.2.2.1 ∧
    Rel₂ (LocRel (fun i => i = m.id ∧ touchR force m)) locs
      (remoteMapping z force sources t tab locs m).2.2.1 := by
  have idl : Rel₂ (LocRel (fun i => i = m.id ∧ touchR force m)) locs locs := Rel₂.refl (LocRel.refl _) locs
  have idm : MapRel (touchR force) m m := ⟨MapFrame.refl m, fun _ => rfl⟩
  unfold remoteMapping
  split
  · exact ⟨idm, idl⟩
  · rename_i hskip
    have ht : touchR force m := by
      intro ⟨hf, hs⟩; apply hskip; simp [hf, hs]
    simp only []
    split
    · exact ⟨idm, idl⟩
    · rename_i src _
      have h := symbolizeMapping_rel z (z.symbolzURL src.source) (srcOffset src.start m.start) m.id t tab locs
      have hl : Rel₂ (LocRel (fun i => i = m.id ∧ touchR force m)) locs
          (symbolizeMapping z (z.symbolzURL src.source) (srcOffset src.start m.start) m.id t tab locs).2.2.1 :=
        h.mono (fun a b r => r.mono (fun i hi => ⟨hi, ht⟩))
      split
      · exact ⟨idm, hl⟩
      · refine ⟨⟨?_, fun hn => absurd ht hn⟩, hl⟩
        simp [MapFrame]

theorem remoteLoop_rel {τ} (z : Symz τ) (force : Bool) (sources : Sources)
    (t : τ) (tab : FTab) (locs : List Location) (ms : List Mapping) :
    Rel₂ (MapRel (touchR force)) ms (remoteLoop z force sources t tab locs ms).2.2.2.1 ∧
    Rel₂ (LocRel (fun i => ∃ m ∈ ms, m.id = i ∧ touchR force m)) locs
      (remoteLoop z force sources t tab locs ms).2.2.1 := by
  induction ms generalizing t tab locs with
  | nil => exact ⟨.nil, Rel₂.refl (LocRel.refl _) locs⟩
  | cons m rest ih =>
    simp only [remoteLoop]
    have h1 := remoteMapping_rel z force sources t tab locs m
    have lift : ∀ {ls : List Location}, Rel₂ (LocRel (fun i => i = m.id ∧ touchR force m)) locs ls →
        Rel₂ (LocRel (fun i => ∃ m' ∈ m :: rest, m'.id = i ∧ touchR force m')) locs ls := by
      intro ls r
      exact r.mono (fun a b r => r.mono (fun i hi => ⟨m, List.mem_cons_self .., hi.1.symm, hi.2⟩))
    split
    · exact ⟨.cons h1.1 (Rel₂.refl (fun m => ⟨MapFrame.refl m, fun _ => rfl⟩) rest), lift h1.2⟩
    · have h2 := ih (remoteMapping z force sources t tab locs m).1
        (remoteMapping z force sources t tab locs m).2.1
        (remoteMapping z force sources t tab locs m).2.2.1
      refine ⟨.cons h1.1 h2.1, ?_⟩
      refine Rel₂.comp ?_ h1.2 h2.2
      intro a b c r1 r2
      refine (LocRel.comp r1 r2).mono ?_
      intro i hi
      rcases hi with ⟨e, ht⟩ | ⟨m', hm', e, ht⟩
      · exact ⟨m, List.mem_cons_self .., e.symm, ht⟩
      · exact ⟨m', List.mem_cons_of_mem _ hm', e, ht⟩

/-! ### both steps -/

theorem symbolizeTables_rel {σ τ} (env : Env σ τ) (o : Opts) (sources : Sources) (p : Profile) (s : σ) (t : τ) :
    Rel₂ (MapRel (touchR o.force)) p.mappings (symbolizeTables env o sources p s t).2.2.2.1 ∧
    Rel₂ (LocRel (fun i => ∃ m ∈ p.mappings, m.id = i ∧ touchR o.force m)) p.locations
      (symbolizeTables env o sources p s t).2.2.1 := by
  -- the local step, stated with the weaker `touchR`
  have hL : ∀ tab0 : FTab,
      Rel₂ (MapRel (touchL o.force)) p.mappings
        (if o.locl then doLocal env.tool env.isSourceURL o.force s tab0 p.locations p.mappings
         else (s, tab0, p.locations, p.mappings)).2.2.2 ∧
      Rel₂ (LocRel (fun i => ∃ m ∈ p.mappings, m.id = i ∧ touchR o.force m)) p.locations
        (if o.locl then doLocal env.tool env.isSourceURL o.force s tab0 p.locations p.mappings
         else (s, tab0, p.locations, p.mappings)).2.2.1 := by
    intro tab0
    split
    · have h := doLocal_rel env.tool env.isSourceURL o.force s tab0 p.locations p.mappings
      exact ⟨h.1, h.2.mono (fun a b r => r.mono (fun i ⟨m, hm, e, ht⟩ => ⟨m, hm, e, touchR_of_touchL ht⟩))⟩
    · exact ⟨Rel₂.refl (fun m => ⟨MapFrame.refl m, fun _ => rfl⟩) _, Rel₂.refl (LocRel.refl _) _⟩
  have weak : ∀ {ms' : List Mapping}, Rel₂ (MapRel (touchL o.force)) p.mappings ms' →
      Rel₂ (MapRel (touchR o.force)) p.mappings ms' :=
    fun r => r.mono (fun a b ⟨hf, hu⟩ => ⟨hf, fun hn => hu (fun hl => hn (touchR_of_touchL hl))⟩)
  unfold symbolizeTables
  simp only []
  have h1 := hL { functions := p.functions, top := 0, wrapped := false }
  split
  · have h2 := remoteLoop_rel env.symz o.force sources t
      (if o.locl then doLocal env.tool env.isSourceURL o.force s { functions := p.functions, top := 0, wrapped := false } p.locations p.mappings
       else (s, { functions := p.functions, top := 0, wrapped := false }, p.locations, p.mappings)).2.1
      (if o.locl then doLocal env.tool env.isSourceURL o.force s { functions := p.functions, top := 0, wrapped := false } p.locations p.mappings
       else (s, { functions := p.functions, top := 0, wrapped := false }, p.locations, p.mappings)).2.2.1
      (if o.locl then doLocal env.tool env.isSourceURL o.force s { functions := p.functions, top := 0, wrapped := false } p.locations p.mappings
       else (s, { functions := p.functions, top := 0, wrapped := false }, p.locations, p.mappings)).2.2.2
    constructor
    · -- mappings: a mapping protected from the remote step was protected from the local step too
      refine Rel₂.comp ?_ h1.1 h2.1
      intro a b c r1 r2
      refine ⟨MapFrame.trans r1.1 r2.1, ?_⟩
      intro hn
      have hb : b = a := r1.2 (fun hl => hn (touchR_of_touchL hl))
      have hc : c = b := r2.2 (by rw [hb]; exact hn)
      rw [hc, hb]
    · refine Rel₂.comp ?_ h1.2 h2.2
      intro a b c r1 r2
      refine (LocRel.comp r1 r2).mono ?_
      intro i hi
      rcases hi with h | ⟨m1, hm1, e, ht⟩
      · exact h
      · obtain ⟨m0, hm0, r⟩ := h1.1.mem_right hm1
        refine ⟨m0, hm0, r.1.1.symm.trans e, ?_⟩
        intro hp
        have : m1 = m0 := r.2 (fun hl => hl ⟨hp.1, Or.inl hp.2⟩)
        exact ht (by rw [this]; exact hp)
  · exact ⟨weak h1.1, h1.2⟩

/-- without the remote step the local rule applies: any of the three flags protects. -/
theorem symbolizeTables_rel_local {σ τ} (env : Env σ τ) (o : Opts) (sources : Sources) (p : Profile)
    (s : σ) (t : τ) (hr : o.remote = false) :
    Rel₂ (MapRel (touchL o.force)) p.mappings (symbolizeTables env o sources p s t).2.2.2.1 ∧
    Rel₂ (LocRel (fun i => ∃ m ∈ p.mappings, m.id = i ∧ touchL o.force m)) p.locations
      (symbolizeTables env o sources p s t).2.2.1 := by
  unfold symbolizeTables
  simp only [hr, Bool.false_eq_true, if_false]
  split
  · exact doLocal_rel env.tool env.isSourceURL o.force s _ p.locations p.mappings
  · exact ⟨Rel₂.refl (fun m => ⟨MapFrame.refl m, fun _ => rfl⟩) _, Rel₂.refl (LocRel.refl _) _⟩

end PV.Sym
