import PprofVerif.Lemmas.MergeTop
import PprofVerif.Lemmas.MergeDedup
/-!
**Merging a profile that is already in normal form is the identity** — on the *full* canonical
form: ids, table order, every field (`mergeOnce_fix`, `merge_fix`).

The output `r` of one pass of `Merge` has tables numbered `1..n` in first-occurrence order of the
traversal (sources → samples → locations → mapping, then lines → functions) with every key once
and — when it has no all-zero sample — every table entry referenced.  Traversing `r` itself
therefore meets the entries of each table in table order (`Lemmas/MergeDedup`), every entity met
*is* a table entry, and so the memo tables of the second merge are the tables of `r`, every id is
re-assigned to itself, every sample is keyed as before and the header is reproduced.

Part 1: what an id of the output resolves to, *exactly* (`outFn`, `outMap`, `outLoc`).
Part 2: re-keying the resolved output under the renumbered tables gives back the first keys.
Part 3: the tables and the sample memo of the second pass; the header; the fixed point.
-/
namespace PV.Merge
open PV.Spec
open PV.Wire (InI64 two63)

/-! ## Part 1: exact resolution of the output -/

/-- first function interned under the key of `f` (`pm.functions[f.key()]`). -/
def firstFn (ftab : List Function) (f : Function) : Function :=
  match entryOf functionKey ftab (functionKey f) with
  | some f' => f'
  | none => f

/-- the `Function` of the merged profile that `f` was mapped to. -/
def outFn (ftab : List Function) (f : Function) : Function :=
  setFunctionId (firstFn ftab f) (idOf functionKey ftab (functionKey f))

/-- the `Mapping` of the merged profile that `m` was mapped to. -/
def outMap (mtab : List Mapping) (m : Mapping) : Mapping :=
  setMappingId (firstSeen mtab m) (idOf mappingKey mtab (mappingKey m))

def outLine (ftab : List Function) (ln : RLine) : RLine :=
  { fn := ln.fn.map (outFn ftab), line := ln.line, column := ln.column }

/-- the resolved `Location` of the merged profile built from `l`, carrying id `i`. -/
def outLoc (ftab : List Function) (mtab : List Mapping) (i : Nat) (l : RLocation) : RLocation :=
  { id := i, mapping := l.mapping.map (outMap mtab), address := (remapLoc ftab mtab l).address,
    lines := l.lines.map (outLine ftab), isFolded := l.isFolded }

theorem functionKey_setId (f : Function) (i : Nat) : functionKey (setFunctionId f i) = functionKey f := rfl
theorem mappingKey_setId (m : Mapping) (i : Nat) : mappingKey (setMappingId m i) = mappingKey m := rfl

theorem renum_functionKeys (ftab : List Function) :
    (renum setFunctionId 1 ftab).map functionKey = ftab.map functionKey :=
  renum_map setFunctionId functionKey functionKey_setId 1 ftab

theorem renum_mappingKeys (mtab : List Mapping) :
    (renum setMappingId 1 mtab).map mappingKey = mtab.map mappingKey :=
  renum_map setMappingId mappingKey mappingKey_setId 1 mtab

theorem outFn_key {ftab : List Function} {f : Function} (hf : functionKey f ∈ ftab.map functionKey) :
    functionKey (outFn ftab f) = functionKey f := by
  obtain ⟨f0, he, hk, _, _⟩ := entryOf_spec functionKey ftab (functionKey f) hf
  simp only [outFn, firstFn, he, functionKey_setId]
  exact hk

theorem outFn_mem {ftab : List Function} {f : Function} (hf : functionKey f ∈ ftab.map functionKey) :
    outFn ftab f ∈ renum setFunctionId 1 ftab := by
  obtain ⟨f0, he, _, _, hget⟩ := entryOf_spec functionKey ftab (functionKey f) hf
  have hpos := idOf_pos functionKey ftab (functionKey f)
  have := renum_getElem? setFunctionId 1 ftab (idOf functionKey ftab (functionKey f) - 1)
  rw [hget, show 1 + (idOf functionKey ftab (functionKey f) - 1) = idOf functionKey ftab (functionKey f) by omega] at this
  simp only [outFn, firstFn, he]
  exact List.mem_of_getElem? this

theorem outMap_key {mtab : List Mapping} {m : Mapping} (hm : mappingKey m ∈ mtab.map mappingKey) :
    mappingKey (outMap mtab m) = mappingKey m := by
  obtain ⟨m0, he, hk, _, _⟩ := entryOf_spec mappingKey mtab (mappingKey m) hm
  simp only [outMap, firstSeen, he, mappingKey_setId]
  exact hk

theorem outMap_mem {mtab : List Mapping} {m : Mapping} (hm : mappingKey m ∈ mtab.map mappingKey) :
    outMap mtab m ∈ renum setMappingId 1 mtab := by
  obtain ⟨m0, he, _, _, hget⟩ := entryOf_spec mappingKey mtab (mappingKey m) hm
  have hpos := idOf_pos mappingKey mtab (mappingKey m)
  have := renum_getElem? setMappingId 1 mtab (idOf mappingKey mtab (mappingKey m) - 1)
  rw [hget, show 1 + (idOf mappingKey mtab (mappingKey m) - 1) = idOf mappingKey mtab (mappingKey m) by omega] at this
  simp only [outMap, firstSeen, he]
  exact List.mem_of_getElem? this

theorem outMap_start (mtab : List Mapping) (m : Mapping) : (outMap mtab m).start = (firstSeen mtab m).start := rfl

theorem findFunction_out_exact {r : Profile} {t : Tables} (h : HasTables r t) (f : Function)
    (hf : functionKey f ∈ t.ftab.map functionKey) :
    r.findFunction (idOf functionKey t.ftab (functionKey f)) = some (outFn t.ftab f) := by
  obtain ⟨f0, he, _, _, hget⟩ := entryOf_spec functionKey t.ftab (functionKey f) hf
  have hpos := idOf_pos functionKey t.ftab (functionKey f)
  have := find?_renum setFunctionId (·.id) (fun _ _ => rfl) 1 t.ftab _ f0 hget
  rw [show 1 + (idOf functionKey t.ftab (functionKey f) - 1) = idOf functionKey t.ftab (functionKey f) by omega] at this
  unfold Profile.findFunction
  rw [h.functions, this]
  simp only [outFn, firstFn, he]

theorem findMapping_out_exact {r : Profile} {t : Tables} (h : HasTables r t) (m : Mapping)
    (hm : mappingKey m ∈ t.mtab.map mappingKey) :
    r.findMapping (idOf mappingKey t.mtab (mappingKey m)) = some (outMap t.mtab m) := by
  obtain ⟨m0, he, _, _, hget⟩ := entryOf_spec mappingKey t.mtab (mappingKey m) hm
  have hpos := idOf_pos mappingKey t.mtab (mappingKey m)
  have := find?_renum setMappingId (·.id) (fun _ _ => rfl) 1 t.mtab _ m0 hget
  rw [show 1 + (idOf mappingKey t.mtab (mappingKey m) - 1) = idOf mappingKey t.mtab (mappingKey m) by omega] at this
  unfold Profile.findMapping
  rw [h.mappings, this]
  simp only [outMap, firstSeen, he]

theorem resolveLine_out_exact {r : Profile} {t : Tables} (h : HasTables r t) (ln : RLine)
    (hf : ∀ f, ln.fn = some f → functionKey f ∈ t.ftab.map functionKey) :
    resolveLine r (remapLine t.ftab ln) = some (outLine t.ftab ln) := by
  rw [remapLine_eq]
  unfold resolveLine outLine
  cases hfn : ln.fn with
  | none => simp [fidOpt]
  | some f =>
    have hne : idOf functionKey t.ftab (functionKey f) ≠ 0 := by
      have := idOf_pos functionKey t.ftab (functionKey f); omega
    simp only [fidOpt, hne, if_false, findFunction_out_exact h f (hf f hfn), Option.map_some]

theorem optMap_map_eq {α β γ : Type} (f : β → Option γ) (g : α → β) (k : α → γ) :
    ∀ (xs : List α), (∀ x ∈ xs, f (g x) = some (k x)) → optMap f (xs.map g) = some (xs.map k)
  | [], _ => rfl
  | x :: xs, h => by
    simp only [List.map_cons, optMap, h x (by simp),
      optMap_map_eq f g k xs (fun a ha => h a (List.mem_cons_of_mem _ ha))]

theorem remapLoc_lines (ftab : List Function) (mtab : List Mapping) (l : RLocation) :
    (remapLoc ftab mtab l).lines = l.lines.map (remapLine ftab) := by
  unfold remapLoc; cases l.mapping <;> rfl

theorem remapLoc_isFolded (ftab : List Function) (mtab : List Mapping) (l : RLocation) :
    (remapLoc ftab mtab l).isFolded = l.isFolded := by
  unfold remapLoc; cases l.mapping <;> rfl

theorem remapLoc_mappingID (ftab : List Function) (mtab : List Mapping) (l : RLocation) :
    (remapLoc ftab mtab l).mappingID = midOpt mtab l.mapping := by
  unfold remapLoc midOpt; cases l.mapping <;> rfl

/-- a remapped location with id `i` resolves in the merged profile to exactly `outLoc … i l`. -/
theorem resolveLoc_out_exact {r : Profile} {t : Tables} (h : HasTables r t) (l : RLocation) (i : Nat)
    (hin : LocIn t.ftab t.mtab l) :
    resolveLoc r (setLocationId (remapLoc t.ftab t.mtab l) i) = some (outLoc t.ftab t.mtab i l) := by
  have hlines : optMap (resolveLine r) (l.lines.map (remapLine t.ftab)) = some (l.lines.map (outLine t.ftab)) :=
    optMap_map_eq _ _ _ _ (fun ln hln => resolveLine_out_exact h ln (hin.2 ln hln))
  have hmap : resolveMappingRef r (midOpt t.mtab l.mapping) = some (l.mapping.map (outMap t.mtab)) := by
    unfold resolveMappingRef midOpt
    cases hm : l.mapping with
    | none => simp
    | some m =>
      have hne : idOf mappingKey t.mtab (mappingKey m) ≠ 0 := by
        have := idOf_pos mappingKey t.mtab (mappingKey m); omega
      simp only [hne, if_false, findMapping_out_exact h m (hin.1 m hm), Option.map_some]
  unfold resolveLoc
  have e1 : (setLocationId (remapLoc t.ftab t.mtab l) i).mappingID = midOpt t.mtab l.mapping :=
    remapLoc_mappingID _ _ _
  have e2 : (setLocationId (remapLoc t.ftab t.mtab l) i).lines = l.lines.map (remapLine t.ftab) :=
    remapLoc_lines _ _ _
  have e3 : (setLocationId (remapLoc t.ftab t.mtab l) i).isFolded = l.isFolded := remapLoc_isFolded _ _ _
  have e4 : (setLocationId (remapLoc t.ftab t.mtab l) i).id = i := rfl
  have e5 : (setLocationId (remapLoc t.ftab t.mtab l) i).address = (remapLoc t.ftab t.mtab l).address := rfl
  rw [e1, hmap, e2, hlines, e3, e4, e5]
  rfl

/-- the id given to a traversed location resolves to `outLoc` of the *first* traversed location
with the same key — the one whose remapping is the table entry at that id. -/
theorem resolveLocID_out_exact {r : Profile} (srcs : List Src) (h : HasTables r (buildTables srcs))
    (l : RLocation) (hl : l ∈ allLocs srcs) :
    ∃ l0 ∈ allLocs srcs,
      (buildTables srcs).ltab[(buildTables srcs).lid l - 1]? =
        some (locKeyOf (buildTables srcs).ftab (buildTables srcs).mtab l0,
              remapLoc (buildTables srcs).ftab (buildTables srcs).mtab l0) ∧
      locKeyOf (buildTables srcs).ftab (buildTables srcs).mtab l0 =
        locKeyOf (buildTables srcs).ftab (buildTables srcs).mtab l ∧
      1 ≤ (buildTables srcs).lid l ∧
      resolveLocID r ((buildTables srcs).lid l) =
        some (outLoc (buildTables srcs).ftab (buildTables srcs).mtab ((buildTables srcs).lid l) l0) := by
  let t := buildTables srcs
  have hk := locKey_mem_ltab srcs hl
  obtain ⟨e, _, hek, hemem, hget⟩ := entryOf_spec Prod.fst t.ltab (locKeyOf t.ftab t.mtab l) hk
  have hsrc : e ∈ (allLocs srcs).map fun l => (locKeyOf t.ftab t.mtab l, remapLoc t.ftab t.mtab l) :=
    mem_internBy Prod.fst _ e hemem
  obtain ⟨l0, hl0, rfl⟩ := List.mem_map.mp hsrc
  have hpos := idOf_pos Prod.fst t.ltab (locKeyOf t.ftab t.mtab l)
  have hget2 : (t.ltab.map (·.2))[idOf Prod.fst t.ltab (locKeyOf t.ftab t.mtab l) - 1]? =
      some (remapLoc t.ftab t.mtab l0) := by
    rw [List.getElem?_map, hget]; rfl
  have hfind := find?_renum setLocationId (·.id) (fun _ _ => rfl) 1 (t.ltab.map (·.2)) _ _ hget2
  rw [show 1 + (idOf Prod.fst t.ltab (locKeyOf t.ftab t.mtab l) - 1) =
      idOf Prod.fst t.ltab (locKeyOf t.ftab t.mtab l) by omega] at hfind
  have hne : (buildTables srcs).lid l ≠ 0 := by rw [tables_lid]; exact Nat.ne_of_gt hpos
  refine ⟨l0, hl0, hget, hek, hpos, ?_⟩
  unfold resolveLocID Profile.findLocation
  rw [if_neg hne, h.locations, tables_lid, hfind]
  exact resolveLoc_out_exact h l0 _ (locIn_of_mem_allLocs srcs hl0)

/-! ## Part 2: re-keying the resolved output under the renumbered tables -/

theorem idOf_renum_fn (ftab : List Function) (k : FunctionKey) :
    idOf functionKey (renum setFunctionId 1 ftab) k = idOf functionKey ftab k := by
  unfold idOf; rw [renum_functionKeys]

theorem idOf_renum_map (mtab : List Mapping) (k : MappingKey) :
    idOf mappingKey (renum setMappingId 1 mtab) k = idOf mappingKey mtab k := by
  unfold idOf; rw [renum_mappingKeys]

theorem remapLine_out (ftab : List Function) (ln : RLine)
    (hf : ∀ f, ln.fn = some f → functionKey f ∈ ftab.map functionKey) :
    remapLine (renum setFunctionId 1 ftab) (outLine ftab ln) = remapLine ftab ln := by
  rw [remapLine_eq, remapLine_eq]
  unfold outLine
  cases hfn : ln.fn with
  | none => rfl
  | some f => simp only [Option.map_some, fidOpt, idOf_renum_fn, outFn_key (hf f hfn)]

theorem firstSeen_out {mtab : List Mapping} (hn : (mtab.map mappingKey).Nodup) {m : Mapping}
    (hm : mappingKey m ∈ mtab.map mappingKey) :
    firstSeen (renum setMappingId 1 mtab) (outMap mtab m) = outMap mtab m := by
  unfold firstSeen
  rw [entryOf_of_mem mappingKey _ (by rw [renum_mappingKeys]; exact hn) _ (outMap_mem hm)]

theorem addU64_rebase_self (a d s : Nat) : addU64 (addU64 a d) (subU64 s s) = addU64 a d := by
  unfold addU64 subU64; omega

/-- remapping the resolved output location under the renumbered tables gives the first remapping. -/
theorem remapLoc_out {ftab : List Function} {mtab : List Mapping} (hn : (mtab.map mappingKey).Nodup)
    (i : Nat) (l : RLocation) (hin : LocIn ftab mtab l) :
    remapLoc (renum setFunctionId 1 ftab) (renum setMappingId 1 mtab) (outLoc ftab mtab i l) =
      remapLoc ftab mtab l := by
  have hlines : (l.lines.map (outLine ftab)).map (remapLine (renum setFunctionId 1 ftab)) =
      l.lines.map (remapLine ftab) := by
    rw [List.map_map]
    apply List.map_congr_left
    intro ln hln
    exact remapLine_out ftab ln (hin.2 ln hln)
  unfold outLoc
  cases hm : l.mapping with
  | none =>
    simp only [Option.map_none]
    unfold remapLoc
    simp only [hm, hlines]
  | some m =>
    simp only [Option.map_some]
    have hk := hin.1 m hm
    unfold remapLoc
    simp only [hm, hlines, firstSeen_out hn hk, idOf_renum_map, outMap_key hk, addU64_rebase_self]

theorem locKeyOf_out {ftab : List Function} {mtab : List Mapping} (hn : (mtab.map mappingKey).Nodup)
    (i : Nat) (l : RLocation) (hin : LocIn ftab mtab l) :
    locKeyOf (renum setFunctionId 1 ftab) (renum setMappingId 1 mtab) (outLoc ftab mtab i l) =
      locKeyOf ftab mtab l := by
  unfold locKeyOf
  rw [remapLoc_out hn i l hin]
  congr 1
  unfold outLoc
  cases hm : l.mapping with
  | none => rfl
  | some m =>
    simp only [Option.map_some]
    rw [firstSeen_out hn (hin.1 m hm), outMap_start]

theorem funcsOfLoc_out (ftab : List Function) (mtab : List Mapping) (i : Nat) (l : RLocation) :
    funcsOfLoc (outLoc ftab mtab i l) = (funcsOfLoc l).map (outFn ftab) := by
  unfold funcsOfLoc outLoc outLine
  simp only [List.filterMap_map, List.map_filterMap]
  rfl

/-! ### frame identity determines the function and mapping keys met at a location -/

theorem fkeys_of_lineIdents : ∀ (la lb : List RLine), la.map lineIdent = lb.map lineIdent →
    (la.filterMap (·.fn)).map functionKey = (lb.filterMap (·.fn)).map functionKey
  | [], [], _ => rfl
  | [], _ :: _, h => by simp at h
  | _ :: _, [], h => by simp at h
  | a :: la, b :: lb, h => by
    simp only [List.map_cons, List.cons.injEq] at h
    have ih := fkeys_of_lineIdents la lb h.2
    have hfn : a.fn.map funcIdent = b.fn.map funcIdent := congrArg LineIdent.fn h.1
    simp only [List.filterMap_cons]
    cases ha : a.fn with
    | none =>
      cases hb : b.fn with
      | none => simpa using ih
      | some g => rw [ha, hb] at hfn; simp at hfn
    | some f =>
      cases hb : b.fn with
      | none => rw [ha, hb] at hfn; simp at hfn
      | some g =>
        rw [ha, hb] at hfn
        simp only [Option.map_some, Option.some.injEq] at hfn
        simp only [List.map_cons, ih, (functionKey_eq_iff f g).mpr hfn]

theorem fkeys_of_frameIdent {a b : RLocation} (h : frameIdent a = frameIdent b) :
    (funcsOfLoc a).map functionKey = (funcsOfLoc b).map functionKey :=
  fkeys_of_lineIdents a.lines b.lines (congrArg FrameIdent.lines h)

theorem mkeys_of_frameIdent {a b : RLocation} (h : frameIdent a = frameIdent b) :
    a.mapping.toList.map mappingKey = b.mapping.toList.map mappingKey := by
  have hm : a.mapping.map mapIdent = b.mapping.map mapIdent := congrArg FrameIdent.mapping h
  cases ha : a.mapping with
  | none =>
    cases hb : b.mapping with
    | none => rfl
    | some g => rw [ha, hb] at hm; simp at hm
  | some f =>
    cases hb : b.mapping with
    | none => rw [ha, hb] at hm; simp at hm
    | some g =>
      rw [ha, hb] at hm
      simp only [Option.map_some, Option.some.injEq] at hm
      simp only [Option.toList_some, List.map_cons, List.map_nil, (mappingKey_eq_iff f g).mpr hm]

theorem filterMap_eq_flatMap_toList {α β : Type} (f : α → Option β) (l : List α) :
    l.filterMap f = l.flatMap (fun a => (f a).toList) := by
  induction l with
  | nil => rfl
  | cons a l ih =>
    simp only [List.filterMap_cons, List.flatMap_cons, ← ih]
    cases f a <;> rfl

/-! ### shape of the mapping traversal: at most one pre-inserted mapping, then the locations' -/

theorem allLocs_cons (src : Src) (rest : List Src) :
    allLocs (src :: rest) = (processed src).flatMap (·.locs) ++ allLocs rest := by
  simp only [allLocs, allSamples, List.flatMap_cons, List.flatMap_append]

theorem seenMappings_form (srcs : List Src) : ∀ (acc : List Mapping),
    ∃ pre, seenMappings acc srcs = acc ++ pre ++ (allLocs srcs).filterMap (·.mapping) ∧ pre.length ≤ 1 ∧
      (acc ≠ [] → pre = []) := by
  induction srcs with
  | nil => intro acc; exact ⟨[], by simp [seenMappings, allLocs, allSamples], by simp, fun _ => rfl⟩
  | cons src rest ih =>
    intro acc
    simp only [seenMappings, allLocs_cons, List.filterMap_append]
    cases acc with
    | nil =>
      simp only [List.isEmpty_nil, if_true, List.nil_append]
      cases hf : src.firstMapping with
      | some m =>
        obtain ⟨pre, h1, _, h3⟩ := ih ((some m).toList ++ ((processed src).flatMap (·.locs)).filterMap (·.mapping))
        have : pre = [] := h3 (by simp)
        subst this
        exact ⟨[m], by rw [h1]; simp, by simp, fun h => absurd rfl h⟩
      | none =>
        simp only [Option.toList_none, List.nil_append]
        obtain ⟨pre, h1, h2, h3⟩ := ih (((processed src).flatMap (·.locs)).filterMap (·.mapping))
        by_cases hL : ((processed src).flatMap (·.locs)).filterMap (·.mapping) = []
        · rw [hL] at h1 ⊢
          exact ⟨pre, by rw [h1]; simp, h2, fun h => absurd rfl h⟩
        · have : pre = [] := h3 hL
          subst this
          exact ⟨[], by rw [h1]; simp, by simp, fun h => absurd rfl h⟩
    | cons a acc =>
      simp only [List.isEmpty_cons, Bool.false_eq_true, if_false]
      obtain ⟨pre, h1, _, h3⟩ := ih (a :: acc ++ ((processed src).flatMap (·.locs)).filterMap (·.mapping))
      have : pre = [] := h3 (by simp)
      subst this
      exact ⟨[], by rw [h1]; simp, by simp, fun _ => rfl⟩

end PV.Merge

namespace PV.Merge
open PV.Spec
open PV.Wire (InI64 two63)

/-! ## Part 3: the second pass -/

theorem forall₂_append' {α β : Type} {R : α → β → Prop} : ∀ {a : List α} {b : List β} {c : List α} {d : List β},
    List.Forall₂ R a b → List.Forall₂ R c d → List.Forall₂ R (a ++ c) (b ++ d)
  | _, _, _, _, List.Forall₂.nil, h => h
  | _, _, _, _, List.Forall₂.cons hr hrs, h => List.Forall₂.cons hr (forall₂_append' hrs h)

theorem forall₂_flatMap {α β γ δ : Type} {P : α → β → Prop} {R : γ → δ → Prop} (f : α → List γ) (g : β → List δ) :
    ∀ {as : List α} {bs : List β}, List.Forall₂ P as bs → (∀ a b, P a b → List.Forall₂ R (f a) (g b)) →
      List.Forall₂ R (as.flatMap f) (bs.flatMap g)
  | _, _, List.Forall₂.nil, _ => List.Forall₂.nil
  | _, _, List.Forall₂.cons hr hrs, h => by
    simp only [List.flatMap_cons]
    exact forall₂_append' (h _ _ hr) (forall₂_flatMap f g hrs h)

theorem forall₂_map_left' {α β γ : Type} {R : γ → β → Prop} (f : α → γ) :
    ∀ {as : List α} {bs : List β}, List.Forall₂ (fun a b => R (f a) b) as bs → List.Forall₂ R (as.map f) bs
  | _, _, List.Forall₂.nil => List.Forall₂.nil
  | _, _, List.Forall₂.cons hr hrs => List.Forall₂.cons hr (forall₂_map_left' f hrs)

theorem forall₂_imp' {α β : Type} {R S : α → β → Prop} (h : ∀ a b, R a b → S a b) :
    ∀ {as : List α} {bs : List β}, List.Forall₂ R as bs → List.Forall₂ S as bs
  | _, _, List.Forall₂.nil => List.Forall₂.nil
  | _, _, List.Forall₂.cons hr hrs => List.Forall₂.cons (h _ _ hr) (forall₂_imp' h hrs)

theorem flatMap_of_resolved {κ' : Type} (ρ : Nat → Option RLocation) (g : RLocation → List κ') :
    ∀ {ids : List Nat} {ys : List RLocation}, List.Forall₂ (fun id rl => ρ id = some rl) ids ys →
      ys.flatMap g = ids.flatMap (fun id => match ρ id with | some rl => g rl | none => [])
  | _, _, List.Forall₂.nil => rfl
  | _, _, List.Forall₂.cons hr hrs => by
    simp only [List.flatMap_cons, hr, flatMap_of_resolved ρ g hrs]

theorem renum_renum {ε : Type} (setId : ε → Nat → ε) (h : ∀ e a b, setId (setId e a) b = setId e b) :
    ∀ (n m : Nat) (tab : List ε), renum setId n (renum setId m tab) = renum setId n tab
  | _, _, [] => rfl
  | n, m, e :: es => by simp only [renum, h, renum_renum setId h (n + 1) (m + 1) es]

/-- relation between an id of the merged profile and the resolved location behind it. -/
def OutRel (r : Profile) (srcs : List Src) (id : Nat) (rl : RLocation) : Prop :=
  resolveLocID r id = some rl ∧ 1 ≤ id ∧ ∃ l0 ∈ allLocs srcs,
    (buildTables srcs).ltab[id - 1]? =
      some (locKeyOf (buildTables srcs).ftab (buildTables srcs).mtab l0,
            remapLoc (buildTables srcs).ftab (buildTables srcs).mtab l0) ∧
    rl = outLoc (buildTables srcs).ftab (buildTables srcs).mtab id l0

theorem outRel_of_mem {r : Profile} (srcs : List Src) (h : HasTables r (buildTables srcs))
    {l : RLocation} (hl : l ∈ allLocs srcs) :
    ∃ rl, OutRel r srcs ((buildTables srcs).lid l) rl ∧
      ∀ l0, (buildTables srcs).ltab[(buildTables srcs).lid l - 1]? =
          some (locKeyOf (buildTables srcs).ftab (buildTables srcs).mtab l0,
                remapLoc (buildTables srcs).ftab (buildTables srcs).mtab l0) →
        locKeyOf (buildTables srcs).ftab (buildTables srcs).mtab l0 =
          locKeyOf (buildTables srcs).ftab (buildTables srcs).mtab l := by
  obtain ⟨l0, hl0, hget, hkey, hpos, hres⟩ := resolveLocID_out_exact srcs h l hl
  refine ⟨_, ⟨hres, hpos, l0, hl0, hget, rfl⟩, ?_⟩
  intro l1 h1
  rw [hget] at h1
  simp only [Option.some.injEq, Prod.mk.injEq] at h1
  rw [← h1.1]; exact hkey

/-- **transfer by id**: a key sequence read off the resolved locations of the output, along any
id list with the same de-duplication as the ids of the first traversal, de-duplicates like the
corresponding key sequence of the first traversal. -/
theorem dedup_transfer {κ' : Type} [DecidableEq κ'] {r : Profile} (srcs : List Src)
    (g gX : RLocation → List κ') (ids : List Nat) (Y : List RLocation)
    (hY : List.Forall₂ (OutRel r srcs) ids Y)
    (hD : dedupKeys ids = dedupKeys ((allLocs srcs).map (buildTables srcs).lid))
    (hX : ∀ x ∈ allLocs srcs, ∃ rl, OutRel r srcs ((buildTables srcs).lid x) rl ∧ g rl = gX x) :
    dedupKeys (Y.flatMap g) = dedupKeys ((allLocs srcs).flatMap gX) := by
  let hid : Nat → List κ' := fun id => match resolveLocID r id with | some rl => g rl | none => []
  have h1 : Y.flatMap g = ids.flatMap hid :=
    flatMap_of_resolved (resolveLocID r) g (forall₂_imp' (fun _ _ h => h.1) hY)
  have h2 : (allLocs srcs).flatMap gX = ((allLocs srcs).map (buildTables srcs).lid).flatMap hid := by
    rw [List.flatMap_map]
    apply List.flatMap_congr
    intro x hx
    obtain ⟨rl, hrel, hg⟩ := hX x hx
    simp only [hid, hrel.1, hg]
  rw [h1, h2]
  exact dedupKeys_flatMap_congr hid _ _ hD

end PV.Merge

namespace PV.Merge
open PV.Spec
open PV.Wire (InI64 two63)

/-! ### the header of a merge result is reproduced by `combineHeaders [r]` -/

theorem combineHeaders_normal {first : Profile} {rest : List Profile} {hdr : Profile}
    (hh : combineHeaders first rest = .ok hdr) : hdr.comments.Nodup ∧ InI64 hdr.durationNanos := by
  unfold combineHeaders at hh
  split at hh
  · cases hh
  · cases hh
  · simp only [Outcome.ok.injEq] at hh
    subst hh
    simp only [hdr_comments_spec, hdr_duration_spec]
    exact ⟨dedupInOrder_nodup _, sumI64_InI64 _⟩

theorem hdrStep_single (p : Profile) (hc : p.comments.Nodup) (hd : InI64 p.durationNanos) :
    hdrStep {} p = { timeNanos := p.timeNanos, durationNanos := p.durationNanos, period := p.period,
                     comments := p.comments, docURL := p.docURL, defaultSampleType := p.defaultSampleType } := by
  unfold hdrStep
  simp only [HdrAcc.mk.injEq]
  refine ⟨?_, ?_, ?_, ?_, ?_, ?_⟩
  · by_cases h0 : p.timeNanos = 0 <;> simp [h0]
  · rw [Int.zero_add]; exact wrapI64_of_InI64 hd
  · simp
  · rw [foldl_addComment]
    simp only [List.nil_append, List.not_mem_nil, not_false_eq_true, decide_true, List.filter_true]
    exact dedupInOrder_of_nodup _ hc
  · simp
  · simp

theorem map_eq_flatMap_singleton {α β : Type} (f : α → β) (l : List α) :
    l.map f = l.flatMap (fun x => [f x]) := by
  induction l with
  | nil => rfl
  | cons a l ih => simp only [List.map_cons, List.flatMap_cons, ih, List.singleton_append]

theorem map_head?_toList {α β : Type} (f : α → β) (l : List α) :
    (l.head?.toList).map f = (l.map f).head?.toList := by
  cases l <;> rfl

theorem forall₂_map_eq_left {α β : Type} {R : α → β → Prop} (f : β → α) :
    ∀ {xs : List α} {ys : List β}, List.Forall₂ R xs ys → (∀ x y, R x y → f y = x) → ys.map f = xs
  | _, _, List.Forall₂.nil, _ => rfl
  | _, _, List.Forall₂.cons hr hrs, h => by
    simp only [List.map_cons, h _ _ hr, forall₂_map_eq_left f hrs h]

theorem buildTables_eq (srcs : List Src) : buildTables srcs =
    ⟨internBy functionKey (allFuncs srcs), internBy mappingKey (seenMappings [] srcs),
     internBy Prod.fst ((allLocs srcs).map fun l =>
       (locKeyOf (internBy functionKey (allFuncs srcs)) (internBy mappingKey (seenMappings [] srcs)) l,
        remapLoc (internBy functionKey (allFuncs srcs)) (internBy mappingKey (seenMappings [] srcs)) l))⟩ := rfl

/-- **One pass of `Merge` is idempotent on the full canonical form**: if a pass over valid
sources produced `r` without an all-zero sample, a pass over `[r]` returns `r` itself — same
ids, same table order, same samples, same header. -/
theorem mergeOnce_fix (n : Nat) (first : Profile) (rest : List Profile) (hdr : Profile) (srcs : List Src)
    (tab : List (Str × Sample))
    (hh : combineHeaders first rest = .ok hdr)
    (hok : List.Forall₂ (SrcOK n) (first :: rest) srcs)
    (htab : accumulate [] ((allSamples srcs).map (keyedSample (buildTables srcs))) = .ok tab)
    (hnz : ∀ e ∈ tab, isZeroSample e.2.values = false) :
    mergeOnce [mkOut hdr (buildTables srcs) tab] = .ok (mkOut hdr (buildTables srcs) tab) := by
  have hT := mkOut_hasTables hdr (buildTables srcs) tab
  have hXin : ∀ x ∈ allLocs srcs, LocIn (buildTables srcs).ftab (buildTables srcs).mtab x :=
    fun x hx => locIn_of_mem_allLocs srcs hx
  have hmn : ((buildTables srcs).mtab.map mappingKey).Nodup := internBy_keys_nodup mappingKey _
  have hln : ((buildTables srcs).ltab.map Prod.fst).Nodup := internBy_keys_nodup Prod.fst _
  -- facts about the traversed samples
  have hS : ∀ s ∈ allSamples srcs, VecOK n s.values ∧ (∀ kv ∈ s.numLabel, ∀ v ∈ kv.2, InI64 v) := by
    intro s hs
    obtain ⟨src, hsrc, hmem, _⟩ := mem_allSamples.mp hs
    obtain ⟨p, _, hp⟩ := forall₂_mem_right hok hsrc
    exact ⟨hp.ok s hmem, hp.nums s hmem⟩
  have hitems : ∀ x ∈ (allSamples srcs).map (keyedSample (buildTables srcs)), VecOK n x.2.values := by
    intro x hx
    obtain ⟨s, hs, rfl⟩ := List.mem_map.mp hx
    exact (hS s hs).1
  obtain ⟨tab', htab', hinv⟩ := accumulate_spec _ hitems
  rw [htab] at htab'
  simp only [Outcome.ok.injEq] at htab'
  subst htab'
  have hkeysTab := accumulate_keys _ _ htab
  -- every entry has the key and the shape of a traversed sample
  have hshape : ∀ e ∈ tab, ∃ s ∈ allSamples srcs, e.1 = sampleKey (remapSample (buildTables srcs).lid s) ∧
      SameShape e.2 (remapSample (buildTables srcs).lid s) := by
    intro e he
    obtain ⟨x, hx, hxk, hsh⟩ := hinv.shape e he
    obtain ⟨s, hs, rfl⟩ := List.mem_map.mp hx
    exact ⟨s, hs, hxk.symm, hsh⟩
  have hidsOf : ∀ a ∈ (allSamples srcs).map (keyedSample (buildTables srcs)) ++ tab, ∃ s ∈ allSamples srcs,
      a.1 = sampleKey (remapSample (buildTables srcs).lid s) ∧
      a.2.locationIDs = s.locs.map (buildTables srcs).lid := by
    intro a ha
    rcases List.mem_append.mp ha with ha | ha
    · obtain ⟨s, hs, rfl⟩ := List.mem_map.mp ha
      exact ⟨s, hs, rfl, rfl⟩
    · obtain ⟨s, hs, h1, h2⟩ := hshape a ha
      exact ⟨s, hs, h1, h2.1⟩
  -- the location ids met along the result de-duplicate like those met along the inputs
  have hDD : dedupKeys (tab.flatMap (·.2.locationIDs)) =
      dedupKeys ((allLocs srcs).map (buildTables srcs).lid) := by
    have h1 := dedupKeys_flatMap_table (fun e : Str × Sample => e.1) (fun e => e.2.locationIDs)
      ((allSamples srcs).map (keyedSample (buildTables srcs))) tab hkeysTab (by
        intro a ha b hb hab
        obtain ⟨sa, hsa, ka, ia⟩ := hidsOf a ha
        obtain ⟨sb, hsb, kb, ib⟩ := hidsOf b hb
        have hne : ∀ (s : RSample), ∀ id ∈ (remapSample (buildTables srcs).lid s).locationIDs, id ≠ 0 := by
          intro s id hid
          obtain ⟨l, _, rfl⟩ := List.mem_map.mp hid
          have := idOf_pos Prod.fst (buildTables srcs).ltab (locKeyOf (buildTables srcs).ftab (buildTables srcs).mtab l)
          rw [tables_lid]; omega
        have := (sampleKey_inj _ _ (hne sa) (hne sb) (hS sa hsa).2 (hS sb hsb).2 (by rw [← ka, ← kb, hab])).1
        rw [ia, ib]; exact this)
    rw [h1, List.flatMap_map]
    have : (allLocs srcs).map (buildTables srcs).lid =
        (allSamples srcs).flatMap (fun s => s.locs.map (buildTables srcs).lid) := by
      simp only [allLocs, List.map_flatMap]
    rw [this]
    rfl
  -- resolve every entry
  let P : Str × Sample → RSample → Prop := fun e rs =>
    (∃ s ∈ allSamples srcs, e.1 = sampleKey (remapSample (buildTables srcs).lid s) ∧
      SameShape e.2 (remapSample (buildTables srcs).lid s)) ∧
    rs.values = e.2.values ∧ rs.label = e.2.label ∧ rs.numLabel = e.2.numLabel ∧ rs.numUnit = e.2.numUnit ∧
    List.Forall₂ (OutRel (mkOut hdr (buildTables srcs) tab) srcs) e.2.locationIDs rs.locs
  have hentry : ∀ e ∈ tab, ∃ rs, resolveSample (mkOut hdr (buildTables srcs) tab) e.2 = some rs ∧ P e rs := by
    intro e he
    obtain ⟨s, hs, h1, h2⟩ := hshape e he
    obtain ⟨locs, hl, hfa⟩ := optMap_map_exists (resolveLocID (mkOut hdr (buildTables srcs) tab)) (buildTables srcs).lid
      (fun x rl => OutRel (mkOut hdr (buildTables srcs) tab) srcs ((buildTables srcs).lid x) rl) s.locs (by
        intro x hx
        obtain ⟨rl, hrel, _⟩ := outRel_of_mem srcs hT (mem_allLocs_of_sample hs hx)
        exact ⟨rl, hrel.1, hrel⟩)
    have hids : e.2.locationIDs = s.locs.map (buildTables srcs).lid := h2.1
    refine ⟨⟨locs, e.2.values, e.2.label, e.2.numLabel, e.2.numUnit⟩, by simp only [resolveSample, hids, hl],
      ⟨s, hs, h1, h2⟩, rfl, rfl, rfl, rfl, ?_⟩
    rw [hids]
    exact forall₂_map_left' _ hfa
  obtain ⟨rr, hrr, hfa⟩ := optMap_map_exists (resolveSample (mkOut hdr (buildTables srcs) tab))
    (fun e : Str × Sample => e.2) P tab hentry
  have hres : resolve (mkOut hdr (buildTables srcs) tab) = some rr := hrr
  -- the single source of the second pass
  have h2 : optMap resolveSrc [mkOut hdr (buildTables srcs) tab] =
      some [⟨rr, (mkOut hdr (buildTables srcs) tab).mappings.head?⟩] := by
    simp only [optMap, resolveSrc, hres]
  have hproc : processed ⟨rr, (mkOut hdr (buildTables srcs) tab).mappings.head?⟩ = rr := by
    unfold processed
    rw [List.filter_eq_self]
    intro rs hrs
    obtain ⟨e, he, hp⟩ := forall₂_mem_right hfa hrs
    rw [hp.2.1, hnz e he]; rfl
  have hall : allSamples [⟨rr, (mkOut hdr (buildTables srcs) tab).mappings.head?⟩] = rr := by
    simp only [allSamples, List.flatMap_cons, List.flatMap_nil, List.append_nil, hproc]
  have hYeq : allLocs [⟨rr, (mkOut hdr (buildTables srcs) tab).mappings.head?⟩] = rr.flatMap (·.locs) := by
    simp only [allLocs, hall]
  have hYrel : List.Forall₂ (OutRel (mkOut hdr (buildTables srcs) tab) srcs) (tab.flatMap (·.2.locationIDs))
      (rr.flatMap (·.locs)) :=
    forall₂_flatMap _ _ hfa (fun e rs hp => hp.2.2.2.2.2)
  have hYmem : ∀ y ∈ rr.flatMap (·.locs), ∃ id, ∃ l0 ∈ allLocs srcs,
      (buildTables srcs).ltab[id - 1]? =
        some (locKeyOf (buildTables srcs).ftab (buildTables srcs).mtab l0,
              remapLoc (buildTables srcs).ftab (buildTables srcs).mtab l0) ∧
      y = outLoc (buildTables srcs).ftab (buildTables srcs).mtab id l0 := by
    intro y hy
    obtain ⟨id, _, hrel⟩ := forall₂_mem_right hYrel hy
    obtain ⟨_, _, l0, hl0, hget, hy⟩ := hrel
    exact ⟨id, l0, hl0, hget, hy⟩
  -- (F) the function table
  have hF : internBy functionKey (allFuncs [⟨rr, (mkOut hdr (buildTables srcs) tab).mappings.head?⟩]) =
      renum setFunctionId 1 (buildTables srcs).ftab := by
    apply internBy_eq_table functionKey
    · rw [renum_functionKeys]; exact internBy_keys_nodup functionKey _
    · intro f hf
      simp only [allFuncs, hYeq, List.mem_flatMap] at hf
      obtain ⟨y, hy, hfy⟩ := hf
      obtain ⟨id, l0, hl0, _, rfl⟩ := hYmem y (List.mem_flatMap.mpr hy)
      rw [funcsOfLoc_out] at hfy
      obtain ⟨f0, hf0, rfl⟩ := List.mem_map.mp hfy
      apply outFn_mem
      simp only [funcsOfLoc, List.mem_filterMap] at hf0
      obtain ⟨ln, hln, hfn⟩ := hf0
      exact (hXin l0 hl0).2 ln hln f0 hfn
    · rw [renum_functionKeys]
      have e1 : (allFuncs [⟨rr, (mkOut hdr (buildTables srcs) tab).mappings.head?⟩]).map functionKey =
          (rr.flatMap (·.locs)).flatMap (fun y => (funcsOfLoc y).map functionKey) := by
        simp only [allFuncs, hYeq, List.map_flatMap]
      rw [e1, dedup_transfer srcs (fun y => (funcsOfLoc y).map functionKey) (fun y => (funcsOfLoc y).map functionKey)
        _ _ hYrel hDD]
      · rw [← List.map_flatMap]
        exact (internBy_keys functionKey (allFuncs srcs)).symm
      · intro x hx
        obtain ⟨rl, hrel, hkey⟩ := outRel_of_mem srcs hT hx
        refine ⟨rl, hrel, ?_⟩
        obtain ⟨_, _, l0, hl0, hget, rfl⟩ := hrel
        rw [funcsOfLoc_out, List.map_map]
        have e2 : (funcsOfLoc l0).map (functionKey ∘ outFn (buildTables srcs).ftab) = (funcsOfLoc l0).map functionKey := by
          apply List.map_congr_left
          intro f hf
          simp only [funcsOfLoc, List.mem_filterMap] at hf
          obtain ⟨ln, hln, hfn⟩ := hf
          exact outFn_key ((hXin l0 hl0).2 ln hln f hfn)
        rw [e2]
        exact fkeys_of_frameIdent ((locKeyOf_eq_iff _ _ l0 x (hXin l0 hl0)).mp (hkey l0 hget))
  -- (M) the mapping table
  have hseen : seenMappings [] [⟨rr, (mkOut hdr (buildTables srcs) tab).mappings.head?⟩] =
      (mkOut hdr (buildTables srcs) tab).mappings.head?.toList ++ (rr.flatMap (·.locs)).filterMap (·.mapping) := by
    simp only [seenMappings, List.isEmpty_nil, if_true, List.nil_append, hproc]
  have hM : internBy mappingKey (seenMappings [] [⟨rr, (mkOut hdr (buildTables srcs) tab).mappings.head?⟩]) =
      renum setMappingId 1 (buildTables srcs).mtab := by
    rw [hseen]
    apply internBy_eq_table mappingKey
    · rw [renum_mappingKeys]; exact hmn
    · intro m hm
      rcases List.mem_append.mp hm with hm | hm
      · rw [Option.mem_toList] at hm
        have := List.mem_of_mem_head? hm
        rw [hT.mappings] at this
        exact this
      · rw [List.mem_filterMap] at hm
        obtain ⟨y, hy, hmy⟩ := hm
        obtain ⟨id, l0, hl0, _, rfl⟩ := hYmem y hy
        simp only [outLoc] at hmy
        cases hm0 : l0.mapping with
        | none => rw [hm0] at hmy; cases hmy
        | some m0 =>
          rw [hm0] at hmy
          simp only [Option.map_some, Option.some.injEq] at hmy
          subst hmy
          exact outMap_mem ((hXin l0 hl0).1 m0 hm0)
    · obtain ⟨pre, hform, hlen, _⟩ := seenMappings_form srcs []
      have hmk : (buildTables srcs).mtab.map mappingKey =
          dedupKeys (pre.map mappingKey ++ ((allLocs srcs).filterMap (·.mapping)).map mappingKey) := by
        have : (buildTables srcs).mtab = internBy mappingKey (seenMappings [] srcs) := rfl
        rw [this, internBy_keys, hform]
        simp
      have hhead : ((mkOut hdr (buildTables srcs) tab).mappings.head?.toList).map mappingKey =
          (dedupKeys (pre.map mappingKey ++ ((allLocs srcs).filterMap (·.mapping)).map mappingKey)).head?.toList := by
        rw [map_head?_toList, hT.mappings, renum_mappingKeys, hmk]
      rw [renum_mappingKeys, List.map_append, hhead, hmk]
      apply dedupKeys_preinsert _ _ _ (by simpa using hlen)
      rw [filterMap_eq_flatMap_toList, filterMap_eq_flatMap_toList, List.map_flatMap, List.map_flatMap]
      apply dedup_transfer srcs (fun y => y.mapping.toList.map mappingKey) (fun y => y.mapping.toList.map mappingKey)
        _ _ hYrel hDD
      intro x hx
      obtain ⟨rl, hrel, hkey⟩ := outRel_of_mem srcs hT hx
      refine ⟨rl, hrel, ?_⟩
      obtain ⟨_, _, l0, hl0, hget, rfl⟩ := hrel
      have e2 : (outLoc (buildTables srcs).ftab (buildTables srcs).mtab ((buildTables srcs).lid x) l0).mapping.toList.map mappingKey =
          l0.mapping.toList.map mappingKey := by
        simp only [outLoc]
        cases hm0 : l0.mapping with
        | none => rfl
        | some m0 =>
          simp only [Option.map_some, Option.toList_some, List.map_cons, List.map_nil,
            outMap_key ((hXin l0 hl0).1 m0 hm0)]
      rw [e2]
      exact mkeys_of_frameIdent ((locKeyOf_eq_iff _ _ l0 x (hXin l0 hl0)).mp (hkey l0 hget))
  -- (L) the location table
  have hL : internBy Prod.fst ((rr.flatMap (·.locs)).map fun l =>
        (locKeyOf (renum setFunctionId 1 (buildTables srcs).ftab) (renum setMappingId 1 (buildTables srcs).mtab) l,
         remapLoc (renum setFunctionId 1 (buildTables srcs).ftab) (renum setMappingId 1 (buildTables srcs).mtab) l)) =
      (buildTables srcs).ltab := by
    apply internBy_eq_table Prod.fst
    · exact hln
    · intro p hp
      obtain ⟨y, hy, rfl⟩ := List.mem_map.mp hp
      obtain ⟨id, l0, hl0, hget, rfl⟩ := hYmem y hy
      rw [locKeyOf_out hmn _ _ (hXin l0 hl0), remapLoc_out hmn _ _ (hXin l0 hl0)]
      exact List.mem_of_getElem? hget
    · rw [List.map_map]
      have e1 : (rr.flatMap (·.locs)).map (Prod.fst ∘ fun l =>
          (locKeyOf (renum setFunctionId 1 (buildTables srcs).ftab) (renum setMappingId 1 (buildTables srcs).mtab) l,
           remapLoc (renum setFunctionId 1 (buildTables srcs).ftab) (renum setMappingId 1 (buildTables srcs).mtab) l)) =
          (rr.flatMap (·.locs)).flatMap (fun y =>
            [locKeyOf (renum setFunctionId 1 (buildTables srcs).ftab) (renum setMappingId 1 (buildTables srcs).mtab) y]) := by
        rw [map_eq_flatMap_singleton]
        rfl
      rw [e1, dedup_transfer srcs _ (fun x => [locKeyOf (buildTables srcs).ftab (buildTables srcs).mtab x]) _ _ hYrel hDD]
      · have : (buildTables srcs).ltab = internBy Prod.fst ((allLocs srcs).map fun l =>
            (locKeyOf (buildTables srcs).ftab (buildTables srcs).mtab l, remapLoc (buildTables srcs).ftab (buildTables srcs).mtab l)) := rfl
        rw [this, internBy_keys, List.map_map, map_eq_flatMap_singleton]
        rfl
      · intro x hx
        obtain ⟨rl, hrel, hkey⟩ := outRel_of_mem srcs hT hx
        refine ⟨rl, hrel, ?_⟩
        obtain ⟨_, _, l0, hl0, hget, rfl⟩ := hrel
        rw [locKeyOf_out hmn _ _ (hXin l0 hl0), hkey l0 hget]
  have hBT : buildTables [⟨rr, (mkOut hdr (buildTables srcs) tab).mappings.head?⟩] =
      ⟨renum setFunctionId 1 (buildTables srcs).ftab, renum setMappingId 1 (buildTables srcs).mtab,
       (buildTables srcs).ltab⟩ := by
    rw [buildTables_eq [⟨rr, (mkOut hdr (buildTables srcs) tab).mappings.head?⟩], hF, hM, hYeq, hL]
  -- (S) the samples are keyed as before
  have hlid' : ∀ id rl, OutRel (mkOut hdr (buildTables srcs) tab) srcs id rl →
      Tables.lid ⟨renum setFunctionId 1 (buildTables srcs).ftab, renum setMappingId 1 (buildTables srcs).mtab,
        (buildTables srcs).ltab⟩ rl = id := by
    intro id rl hrel
    obtain ⟨_, hpos, l0, hl0, hget, rfl⟩ := hrel
    show idOf Prod.fst (buildTables srcs).ltab (locKeyOf _ _ _) = id
    rw [locKeyOf_out hmn _ _ (hXin l0 hl0)]
    have := idOf_of_getElem? Prod.fst (buildTables srcs).ltab hln (id - 1) _ hget
    simp only at this
    rw [this]; omega
  have hitems' : rr.map (keyedSample ⟨renum setFunctionId 1 (buildTables srcs).ftab,
      renum setMappingId 1 (buildTables srcs).mtab, (buildTables srcs).ltab⟩) = tab := by
    apply forall₂_map_eq_left _ hfa
    intro e rs hp
    obtain ⟨⟨s, hs, hk, hsh⟩, hv, hlab, hnl, hnu, hlocs⟩ := hp
    obtain ⟨k, ⟨ids, vals, lab, nl, nu⟩⟩ := e
    obtain ⟨s1, s2, s3, s4⟩ := hsh
    simp only at hk hv hlab hnl hnu hlocs s1 s2 s3 s4
    have hl : rs.locs.map (Tables.lid ⟨renum setFunctionId 1 (buildTables srcs).ftab,
        renum setMappingId 1 (buildTables srcs).mtab, (buildTables srcs).ltab⟩) = ids :=
      forall₂_map_eq_left _ hlocs hlid'
    have hu : (rs.numLabel.map fun kv => (kv.1, unitsOf rs.numUnit kv.1)) = nu := by
      rw [hnl, hnu, s3, s4]
      simp only [remapSample]
      apply List.map_congr_left
      intro kv hkv
      rw [lookup_map_units (unitsOf s.numUnit) s.numLabel kv.1 (List.mem_map_of_mem hkv)]
    have hs' : remapSample (Tables.lid ⟨renum setFunctionId 1 (buildTables srcs).ftab,
        renum setMappingId 1 (buildTables srcs).mtab, (buildTables srcs).ltab⟩) rs = ⟨ids, vals, lab, nl, nu⟩ := by
      unfold remapSample
      rw [hl, hv, hlab, hnl, ← hnl, hu, hnl]
    show (sampleKey (remapSample _ rs), remapSample _ rs) = _
    rw [hs', hk]
    congr 1
    apply sampleKey_congr
    · exact s1
    · exact s2
    · show labelsWithUnits nl nu = _
      rw [s3, s4]
  have hacc : accumulate [] ((allSamples [⟨rr, (mkOut hdr (buildTables srcs) tab).mappings.head?⟩]).map
      (keyedSample (buildTables [⟨rr, (mkOut hdr (buildTables srcs) tab).mappings.head?⟩]))) = .ok tab := by
    rw [hall, hBT, hitems']
    exact accumulate_nodup tab hinv.nodup
  -- (H) the header
  obtain ⟨hcn, hdn⟩ := combineHeaders_normal hh
  have hH : combineHeaders (mkOut hdr (buildTables srcs) tab) [] = .ok
      { sampleType := hdr.sampleType, defaultSampleType := hdr.defaultSampleType, samples := [],
        mappings := [], locations := [], functions := [], comments := hdr.comments, docURL := hdr.docURL,
        dropFrames := hdr.dropFrames, keepFrames := hdr.keepFrames, timeNanos := hdr.timeNanos,
        durationNanos := hdr.durationNanos, periodType := hdr.periodType, period := hdr.period } := by
    unfold combineHeaders
    simp only [compatibleAll, List.foldl_cons, List.foldl_nil]
    rw [hdrStep_single (mkOut hdr (buildTables srcs) tab) hcn hdn]
    rfl
  rw [mergeOnce_eq _ [] _ _ tab hH h2 hacc, hBT]
  congr 1
  unfold mkOut
  simp only [renum_renum setMappingId (fun _ _ _ => rfl), renum_renum setFunctionId (fun _ _ _ => rfl)]

end PV.Merge

namespace PV.Merge
open PV.Spec
open PV.Wire (InI64 two63)

/-! ### from one pass to `merge` -/

/-- the result of one pass over valid inputs, with its ingredients. -/
theorem mergeOnce_form (first : Profile) (rest : List Profile) (h : Inputs first rest) :
    ∃ hdr srcs tab, combineHeaders first rest = .ok hdr ∧
      List.Forall₂ (SrcOK first.sampleType.length) (first :: rest) srcs ∧
      accumulate [] ((allSamples srcs).map (keyedSample (buildTables srcs))) = .ok tab ∧
      mergeOnce (first :: rest) = .ok (mkOut hdr (buildTables srcs) tab) := by
  obtain ⟨hdr, hh, _, _, _⟩ := combineHeaders_ok_fields first rest h.compat
  obtain ⟨srcs, hsrcs, hfa⟩ := srcs_of_valid first.sampleType.length (first :: rest) h.valid h.typed h.lengths
  have hitems : ∀ x ∈ (allSamples srcs).map (keyedSample (buildTables srcs)), VecOK first.sampleType.length x.2.values := by
    intro x hx
    obtain ⟨s, hs, rfl⟩ := List.mem_map.mp hx
    obtain ⟨src, hsrc, hmem, _⟩ := mem_allSamples.mp hs
    obtain ⟨p, _, hp⟩ := forall₂_mem_right hfa hsrc
    exact hp.ok s hmem
  obtain ⟨tab, htab, _⟩ := accumulate_spec _ hitems
  exact ⟨hdr, srcs, tab, hh, hfa, htab, mergeOnce_eq first rest hdr srcs tab hh hsrcs htab⟩

/-- whatever `mergeFuel` returns is the result of a single pass over valid inputs and has no
all-zero sample. -/
theorem mergeFuel_last : ∀ (fuel : Nat) (first : Profile) (rest : List Profile) (r : Profile),
    Inputs first rest → mergeFuel fuel (first :: rest) = .ok r →
    ∃ f' r', Inputs f' r' ∧ mergeOnce (f' :: r') = .ok r ∧ r.samples.any (fun s => isZeroSample s.values) = false
  | 0, _, _, _, _, h => by simp [mergeFuel] at h
  | fuel + 1, first, rest, r, hin, h => by
    obtain ⟨hdr, r1, _, _, _, hr1, hp1⟩ := mergeOnce_pass first rest hin
    simp only [mergeFuel, hr1] at h
    by_cases hz : r1.samples.any (fun s => isZeroSample s.values) = true
    · rw [if_pos hz] at h
      have hin2 : Inputs r1 [] := ⟨by intro p hp; simp at hp; subst hp; exact hp1.valid,
        by intro p hp; simp at hp; subst hp; exact hp1.typed, compatibleB_self_single r1⟩
      exact mergeFuel_last fuel r1 [] r hin2 h
    · rw [if_neg hz] at h
      simp only [Outcome.ok.injEq] at h
      subst h
      exact ⟨first, rest, hin, hr1, by simpa using hz⟩

/-- **the result of `Merge` is a fixed point of `Merge`** (hence of `Compact`) — on the full
canonical form: merging `[r]` returns `r` itself, id for id, entry for entry. -/
theorem merge_fix (first : Profile) (rest : List Profile) (h : Inputs first rest) :
    ∃ r, merge (first :: rest) = .ok r ∧ merge [r] = .ok r := by
  obtain ⟨r, hr, _⟩ := merge_spec first rest h
  refine ⟨r, hr, ?_⟩
  obtain ⟨f', r', hin', hlast, hz⟩ := mergeFuel_last _ first rest r h hr
  obtain ⟨hdr, srcs, tab, hh, hfa, htab, hform⟩ := mergeOnce_form f' r' hin'
  rw [hlast] at hform
  simp only [Outcome.ok.injEq] at hform
  subst hform
  have hnz : ∀ e ∈ tab, isZeroSample e.2.values = false := by
    intro e he
    rw [List.any_eq_false] at hz
    have := hz e.2 (List.mem_map_of_mem (f := fun e : Str × Sample => e.2) he)
    simpa using this
  have hfix := mergeOnce_fix _ f' r' hdr srcs tab hh hfa htab hnz
  unfold merge
  simp only [mergeFuel, hfix, hz, Bool.false_eq_true, if_false]

/-- **normal form of a merge result**: the tables carry ids `1..n` in table order and every
function / mapping / location key at most once. -/
theorem merge_tables_normal (first : Profile) (rest : List Profile) (h : Inputs first rest) :
    ∃ r, merge (first :: rest) = .ok r ∧
      r.functions.map (·.id) = List.range' 1 r.functions.length ∧
      r.mappings.map (·.id) = List.range' 1 r.mappings.length ∧
      r.locations.map (·.id) = List.range' 1 r.locations.length ∧
      (r.functions.map functionKey).Nodup ∧ (r.mappings.map mappingKey).Nodup := by
  obtain ⟨r, hr, _⟩ := merge_spec first rest h
  refine ⟨r, hr, ?_⟩
  obtain ⟨f', r', hin', hlast, _⟩ := mergeFuel_last _ first rest r h hr
  obtain ⟨hdr, srcs, tab, _, _, _, hform⟩ := mergeOnce_form f' r' hin'
  rw [hlast] at hform
  simp only [Outcome.ok.injEq] at hform
  subst hform
  have e1 : (mkOut hdr (buildTables srcs) tab).functions = renum setFunctionId 1 (buildTables srcs).ftab := rfl
  have e2 : (mkOut hdr (buildTables srcs) tab).mappings = renum setMappingId 1 (buildTables srcs).mtab := rfl
  have e3 : (mkOut hdr (buildTables srcs) tab).locations =
      renum setLocationId 1 ((buildTables srcs).ltab.map (·.2)) := rfl
  refine ⟨?_, ?_, ?_, ?_, ?_⟩
  · rw [e1, renum_length]; exact renum_ids setFunctionId (·.id) (fun _ _ => rfl) 1 _
  · rw [e2, renum_length]; exact renum_ids setMappingId (·.id) (fun _ _ => rfl) 1 _
  · rw [e3, renum_length]; exact renum_ids setLocationId (·.id) (fun _ _ => rfl) 1 _
  · rw [e1, renum_functionKeys]; exact internBy_keys_nodup functionKey _
  · rw [e2, renum_mappingKeys]; exact internBy_keys_nodup mappingKey _

end PV.Merge
