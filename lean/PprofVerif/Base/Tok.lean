import PprofVerif.Base.Basic
/-
Token reader/writer for the line protocol (DESIGN §1.3, Appendix C).
A line is a list of space separated tokens: decimal integers, `x<hex>` byte strings.
Lists are length-prefixed.
-/
namespace PV

abbrev Rd := StateT (List String) Option

namespace Rd
def tok : Rd String := fun ts => match ts with
  | [] => none
  | t :: r => some (t, r)
def nat : Rd Nat := do let t ← tok; match t.toNat? with | some n => pure n | none => failure
def int : Rd Int := do let t ← tok; match t.toInt? with | some n => pure n | none => failure
def bool : Rd Bool := do let n ← nat; pure (n != 0)
def str : Rd Str := do let t ← tok; match Str.ofTok? t with | some s => pure s | none => failure
def rep {α} (p : Rd α) : Nat → Rd (List α)
  | 0 => pure []
  | n+1 => do let a ← p; let r ← rep p n; pure (a :: r)
def list {α} (p : Rd α) : Rd (List α) := do let n ← nat; rep p n
def opt {α} (p : Rd α) : Rd (Option α) := do
  let n ← nat
  if n == 0 then pure none else do let a ← p; pure (some a)
def run {α} (p : Rd α) (ts : List String) : Option α :=
  match p ts with
  | some (a, []) => some a
  | _ => none
/-- run, allowing trailing tokens (returned). -/
def run' {α} (p : Rd α) (ts : List String) : Option (α × List String) := p ts
end Rd

/-- token writer: a list of tokens, joined by spaces at the end. -/
abbrev Wr := List String

namespace Wr
def nat (n : Nat) : Wr := [toString n]
def int (n : Int) : Wr := [toString n]
def bool (b : Bool) : Wr := [if b then "1" else "0"]
def str (s : Str) : Wr := [s.toTok]
def list {α} (f : α → Wr) (l : List α) : Wr := toString l.length :: l.flatMap f
def opt {α} (f : α → Wr) : Option α → Wr
  | none => ["0"]
  | some a => "1" :: f a
def render (w : Wr) : String := " ".intercalate w
end Wr

end PV
