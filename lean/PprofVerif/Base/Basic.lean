/-
Base definitions shared by every model: byte strings, the `Outcome` type that
makes Go panics and Go errors *values* of the model, hex transport encoding.
Core Lean only (no Mathlib): everything here is linked into the `pvdrv` driver.
-/
namespace PV

/-- A Go `string`/`[]byte`: an arbitrary byte sequence (not necessarily UTF-8). -/
abbrev Str := List UInt8

/-- Result of running a piece of Go code: a value, a returned `error`, or a run-time panic
(index out of range, nil dereference, explicit `panic`). Nothing is defaulted. -/
inductive Outcome (α : Type) where
  | ok    : α → Outcome α
  | err   : String → Outcome α
  | panic : String → Outcome α
  deriving Repr, DecidableEq

namespace Outcome
@[inline] def bind {α β} (x : Outcome α) (f : α → Outcome β) : Outcome β :=
  match x with
  | ok a => f a
  | err e => err e
  | panic s => panic s
instance : Monad Outcome where
  pure := ok
  bind := bind
def isOk {α} : Outcome α → Bool | ok _ => true | _ => false
def isPanic {α} : Outcome α → Bool | panic _ => true | _ => false
def cls {α} : Outcome α → String | ok _ => "ok" | err _ => "err" | panic _ => "panic"
@[simp] theorem bind_ok {α β} (a : α) (f : α → Outcome β) : (ok a >>= f) = f a := rfl
@[simp] theorem bind_err {α β} (e : String) (f : α → Outcome β) : (err e >>= f) = err e := rfl
@[simp] theorem bind_panic {α β} (e : String) (f : α → Outcome β) : (panic e >>= f) = panic e := rfl
@[simp] theorem pure_eq {α} (a : α) : (pure a : Outcome α) = ok a := rfl
end Outcome

/-! ### hex transport -/
def hexDigit (n : Nat) : Char :=
  if n < 10 then Char.ofNat (48 + n) else Char.ofNat (87 + n)

def hexVal (c : Char) : Option Nat :=
  if '0' ≤ c ∧ c ≤ '9' then some (c.toNat - 48)
  else if 'a' ≤ c ∧ c ≤ 'f' then some (c.toNat - 87)
  else if 'A' ≤ c ∧ c ≤ 'F' then some (c.toNat - 55)
  else none

def bytesToHexChars : List UInt8 → List Char
  | [] => []
  | b :: bs => hexDigit (b.toNat / 16) :: hexDigit (b.toNat % 16) :: bytesToHexChars bs

/-- transport form of a byte string: `x` followed by lower-case hex (so "" is `x`). -/
def Str.toTok (s : Str) : String := String.ofList ('x' :: bytesToHexChars s)

def hexCharsToBytes : List Char → Option (List UInt8)
  | [] => some []
  | [_] => none
  | a :: b :: rest => do
    let h ← hexVal a
    let l ← hexVal b
    let r ← hexCharsToBytes rest
    pure (UInt8.ofNat (h * 16 + l) :: r)

def Str.ofTok? (t : String) : Option Str :=
  match t.toList with
  | 'x' :: cs => hexCharsToBytes cs
  | _ => none

/-- ASCII literal → bytes (for model constants such as "[kernel.kallsyms]"). -/
def Str.ofString (s : String) : Str := s.toUTF8.toList

def Str.toStringLossy (s : Str) : String :=
  String.ofList (s.map fun b => Char.ofNat b.toNat)

/-- bytewise lexicographic `<` on byte strings — Go's string `<`. -/
def Str.lt : Str → Str → Bool
  | [], [] => false
  | [], _ :: _ => true
  | _ :: _, [] => false
  | a :: as, b :: bs => if a < b then true else if b < a then false else Str.lt as bs

def Str.le (a b : Str) : Bool := !(Str.lt b a)

end PV
