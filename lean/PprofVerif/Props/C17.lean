import PprofVerif.Model.Stacks
import PprofVerif.Spec.Stacks
namespace PV.Props.C17
open PV PV.Stacks
end PV.Props.C17
