import PprofVerif.Lemmas.StacksBuild
import PprofVerif.Lemmas.StacksValid
import PprofVerif.Lemmas.StacksExample
import PprofVerif.Lemmas.StacksAggregate
import PprofVerif.Lemmas.StacksSelect
import PprofVerif.Lemmas.StacksTrim
/-!
# C17 — flame-graph stack data is a faithful, self-consistent index of samples

Property theorems only (helper lemmas: `Lemmas/Stacks{Frames,Intern,Loop,Places,Build,Valid}.lean`).
They are about `PV.Stacks.stacks p idx`, the executable model of
`report.New(p, {SampleValue: v[idx]}).Stacks()` (Model/Stacks.lean), which the correspondence check
ties to internal/report/stacks.go on every run, and they quantify over ALL profiles: each theorem
assumes only that the model run succeeded (`stacks p idx = .ok ss`), which `stacks_never_panic`
shows for every valid profile.  "The sample's frames" are `Spec.sampleFrames` (Spec/Stacks.lean):
the lines of the sample's locations, caller first, every line but the last of its location
flagged as inlined; a location without lines contributes no frame.
-/
namespace PV.Props.C17
open PV PV.Stacks

/-- On a valid profile (CheckValid + references inside the tables) and a sample index inside the
sample types, no index expression of `Stacks()` is out of range and no pointer is nil. -/
theorem stacks_never_panic (o : Opts) (p : Profile) (idx : Nat) (hv : p.Valid) (hi : idx < p.sampleType.length) :
    ∃ ss, stacks o p idx = .ok ss := by
  obtain ⟨rs, hr⟩ := valid_resolve p idx hv hi
  obtain ⟨st, _, hb⟩ := build_spec o (computeTotal ((rs.zip p.samples).map fun x => (x.1.1, diffBase x.2))) rs
  exact ⟨_, by simp only [stacks, hr, bind, Outcome.bind]; exact hb⟩

-- non-vacuity: `exProfile` (main → [f ⊃ inlined g] → [f ⊃ inlined g], a location without lines, an
-- empty stack) is valid, so every theorem below applies to it with `idx = 0`; its first stack is
-- recursive and the place lists show the outermost occurrence only.
example : exProfile.Valid ∧ 0 < exProfile.sampleType.length := by decide
example : (match stacks Opts.default exProfile 0 with
    | .ok ss => (ss.stacks.elems.map (·.sources.elems), ss.sources.elems.map (·.places.elems),
                 ss.sources.elems.map (·.self), ss.sources.elems.map (·.inlined))
    | _ => ([], [], [], [])) =
    ([[0, 1, 2, 3, 2, 3], [0], [0, 1]],
     [[(0, 0), (1, 0), (2, 0)], [(0, 1), (2, 1)], [(0, 2)], [(0, 3)]],
     [-2, 7, 0, 5], [false, false, false, true]) := by decide

/-- One stack per sample, in sample order, carrying that sample's selected value. -/
theorem stacks_one_per_sample (o : Opts) (p : Profile) (idx : Nat) (ss : StackSet) (h : stacks o p idx = .ok ss) :
    ss.stacks.elems.length = p.samples.length ∧
    ∀ i (hi : i < p.samples.length), ∃ st, ss.stacks.elems[i]? = some st ∧
      p.samples[i].values[idx]? = some st.value := by
  obtain ⟨rs, st, total, hres, _, rfl⟩ := stacks_ok h
  obtain ⟨hlen, hat⟩ := resolve_at hres
  refine ⟨by simp [result, Slice.lit, hlen], ?_⟩
  intro i hi
  obtain ⟨r, hr, hv, _⟩ := hat i hi
  exact ⟨mkStack st.srcs r, by simp [result, Slice.lit, hr], hv⟩

/-- Every stack is the synthetic root (index 0) followed by the sources of the sample's frames from
caller to callee, for ONE map `src` from frame identities (function name, file name, line, column,
inlined) to source indices; `src` never yields the root, the source it yields shows the frame's
full name, trimmed file name and inlined flag, and two different identities never share a source. -/
theorem stack_sources_eq_frames (o : Opts) (p : Profile) (idx : Nat) (ss : StackSet) (h : stacks o p idx = .ok ss) :
    ∃ src : Key → Nat,
      (∀ i (hi : i < p.samples.length), ∃ st fs, ss.stacks.elems[i]? = some st ∧
          Spec.sampleFrames p p.samples[i] = some fs ∧
          st.sources.elems = 0 :: fs.map (fun f => src f.key)) ∧
      (∀ s ∈ p.samples, ∀ fs, Spec.sampleFrames p s = some fs → ∀ f ∈ fs,
          1 ≤ src f.key ∧ ∃ so, ss.sources.elems[src f.key]? = some so ∧
            so.fullName = f.key.fullName o ∧ so.fileName = f.key.fileName o ∧ so.inlined = f.inlined) ∧
      (∀ s ∈ p.samples, ∀ s' ∈ p.samples, ∀ fs gs, Spec.sampleFrames p s = some fs →
          Spec.sampleFrames p s' = some gs → ∀ f ∈ fs, ∀ g ∈ gs, src f.key = src g.key → f.key = g.key) ∧
      (∃ so, ss.sources.elems[0]? = some so ∧ so.fullName = Str.ofString "root" ∧ so.inlined = false) := by
  obtain ⟨rs, st, total, hres, inv, rfl⟩ := stacks_ok h
  obtain ⟨hlen, hat⟩ := resolve_at hres
  -- frames of a sample are known to the final `srcs` map
  have hknown : ∀ s ∈ p.samples, ∀ fs, Spec.sampleFrames p s = some fs → ∀ f ∈ fs,
      ∃ j, st.srcs.lookup f.key = some j := by
    intro s hs fs hfs f hf
    obtain ⟨i, hi, rfl⟩ := List.getElem_of_mem hs
    obtain ⟨r, hr, _, hfr⟩ := hat i hi
    have hr2 : r.2 = fs := by rw [hfs] at hfr; exact (Option.some.inj hfr).symm
    have := inv.known r (List.mem_of_getElem? hr) f (hr2 ▸ hf)
    cases hl : st.srcs.lookup f.key with
    | none => simp [hl] at this
    | some j => exact ⟨j, rfl⟩
  refine ⟨fun k => (st.srcs.lookup k).getD 0, ?_, ?_, ?_, ?_⟩
  · intro i hi
    obtain ⟨r, hr, _, hfr⟩ := hat i hi
    exact ⟨mkStack st.srcs r, r.2, by simp [result, Slice.lit, hr], hfr, rfl⟩
  · intro s hs fs hfs f hf
    obtain ⟨j, hj⟩ := hknown s hs fs hfs f hf
    obtain ⟨s0, hs0, hd⟩ := inv.wf.desc _ _ hj
    simp only [hj, Option.getD_some]
    exact ⟨(inv.wf.rng _ _ hj).1, _, result_source_of hs0, hd.1, hd.2.1, hd.2.2⟩
  · intro s hs s' hs' fs gs hfs hgs f hf g hg he
    obtain ⟨j, hj⟩ := hknown s hs fs hfs f hf
    obtain ⟨j', hj'⟩ := hknown s' hs' gs hgs g hg
    simp only [hj, hj', Option.getD_some] at he
    subst he
    exact inv.wf.inj _ _ _ hj hj'
  · obtain ⟨s0, hs0, hn⟩ := inv.root
    exact ⟨_, result_source_of hs0, hn.1, hn.2⟩

/-- Stack values sum to the signed total of the selected sample value. -/
theorem values_sum (o : Opts) (p : Profile) (idx : Nat) (ss : StackSet) (h : stacks o p idx = .ok ss) :
    (ss.stacks.elems.map (·.value)).sum = (p.samples.filterMap (fun s => s.values[idx]?)).sum := by
  obtain ⟨rs, st, total, hres, _, rfl⟩ := stacks_ok h
  rw [Spec.resolve, optMap_eq_some_iff] at hres
  rw [values_of_resolve p idx p.samples rs hres]
  simp [result, Slice.lit, List.map_map, Function.comp_def, mkStack]

/-- Each source's self value is the sum of the values of the stacks it terminates. -/
theorem self_spec (o : Opts) (p : Profile) (idx : Nat) (ss : StackSet) (h : stacks o p idx = .ok ss) :
    ∀ (i : Nat) (s : Source), ss.sources.elems[i]? = some s →
      s.self = ((ss.stacks.elems.filter (fun st => st.sources.elems.getLast? == some i)).map (·.value)).sum := by
  obtain ⟨rs, st, total, _, inv, rfl⟩ := stacks_ok h
  intro i s hs
  obtain ⟨s0, hs0, rfl⟩ := result_source_get hs
  exact (inv.self i s0 hs0).1

/-- Each source's place index lists every stack containing it exactly once, at its outermost
occurrence: `(a, b)` is listed iff stack `a` has the source at position `b` and at no earlier
position; and the list is strictly increasing in the stack number (so no stack is listed twice). -/
theorem places_complete_unique_first (o : Opts) (p : Profile) (idx : Nat) (ss : StackSet) (h : stacks o p idx = .ok ss) :
    ∀ (i : Nat) (s : Source), ss.sources.elems[i]? = some s →
      (∀ a b, (a, b) ∈ s.places.elems ↔
        ∃ st, ss.stacks.elems[a]? = some st ∧ st.sources.elems[b]? = some i ∧
          ∀ b', b' < b → st.sources.elems[b']? ≠ some i) ∧
      List.Pairwise (fun x y : Nat × Nat => x.1 < y.1) s.places.elems := by
  obtain ⟨rs, st, total, _, inv, rfl⟩ := stacks_ok h
  intro i s hs
  obtain ⟨s0, hs0, rfl⟩ := result_source_get hs
  have hpl : (addP s0 (Spec.placesOf (rs.map (mkStack st.srcs)) i)).places.elems
      = Spec.placesOf (rs.map (mkStack st.srcs)) i := by
    simp [addP, (inv.self i s0 hs0).2, Slice.lit]
  rw [hpl]
  refine ⟨?_, placesFrom_pairwise i _ 0⟩
  intro a b
  rw [Spec.placesOf, mem_placesFrom]
  simp only [result, Slice.lit, List.getElem?_map, Option.map_eq_some_iff, Nat.zero_add]
  constructor
  · rintro ⟨k, l, ⟨sk, hk, rfl⟩, rfl, hf⟩
    exact ⟨sk, hk, (firstIdx_eq_some_iff i _ b).1 hf⟩
  · rintro ⟨sk, hk, hf⟩
    exact ⟨a, _, ⟨sk, hk, rfl⟩, rfl, (firstIdx_eq_some_iff i _ b).2 hf⟩

/-- Every index the client dereferences is in range: a stack is never empty and starts at the
root, its entries index `Sources`; a place `(a, b)` of source `i` indexes `Stacks` and that stack's
`Sources`, and the slot it names holds `i`. -/
theorem indices_in_range (o : Opts) (p : Profile) (idx : Nat) (ss : StackSet) (h : stacks o p idx = .ok ss) :
    (∀ st ∈ ss.stacks.elems, st.sources.elems.head? = some 0 ∧
        ∀ j ∈ st.sources.elems, j < ss.sources.elems.length) ∧
    (∀ (i : Nat) (s : Source), ss.sources.elems[i]? = some s → ∀ pl ∈ s.places.elems,
        ∃ st, ss.stacks.elems[pl.1]? = some st ∧ st.sources.elems[pl.2]? = some i) := by
  refine ⟨?_, ?_⟩
  · obtain ⟨rs, st, total, _, inv, rfl⟩ := stacks_ok h
    intro sk hsk
    have hr := inv.range sk hsk
    simp only [result, Slice.lit, List.mem_map] at hsk
    obtain ⟨x, _, rfl⟩ := hsk
    exact ⟨rfl, by simpa [result, Slice.lit, List.length_mapIdx] using hr⟩
  · intro i s hs pl hpl
    obtain ⟨sk, h1, h2, _⟩ := ((places_complete_unique_first o p idx ss h i s hs).1 pl.1 pl.2).1 hpl
    exact ⟨sk, h1, h2⟩

/-- No array of the stack set is nil (JSON `null`): `Stacks`, `Sources`, every `Stack.Sources`,
every `StackSource.Places` — also for a profile without samples and for sources/stacks that
stay empty. -/
theorem arrays_nonnil (o : Opts) (p : Profile) (idx : Nat) (ss : StackSet) (h : stacks o p idx = .ok ss) :
    ss.stacks.nonnil = true ∧ ss.sources.nonnil = true ∧
    (∀ st ∈ ss.stacks.elems, st.sources.nonnil = true) ∧
    (∀ s ∈ ss.sources.elems, s.places.nonnil = true) := by
  obtain ⟨rs, st, total, _, _, rfl⟩ := stacks_ok h
  refine ⟨rfl, rfl, ?_, ?_⟩
  · intro sk hsk
    simp only [result, Slice.lit, List.mem_map] at hsk
    obtain ⟨x, _, rfl⟩ := hsk
    rfl
  · intro s hs
    obtain ⟨i, hi⟩ := List.mem_iff_getElem?.1 hs
    obtain ⟨s0, _, rfl⟩ := result_source_get hi
    rfl

/-- Granularity never removes a frame: under any granularity that keeps inlined frames
(functions, filefunctions, files, lines; columns on or off) the frames of every sample in the
aggregated view `Spec.aggregate f p` are the frames of the sample in `p`, one for one and in the
same order, each reduced to the attributes the granularity shows (`Spec.aggFrame`) — so, by
`stack_sources_eq_frames` applied to `Spec.aggregate f p`, a stack of the flame-graph view has
one entry per line of the sample's locations; two equal consecutive frames (a function inlined
into itself, direct recursion) stay two entries. -/
theorem granularity_keeps_frames (f : Spec.AggFlags) (hn : f.none = false) (hi : f.inlines = true)
    (p : Profile) (s : Sample) :
    Spec.sampleFrames (Spec.aggregate f p) s = (Spec.sampleFrames p s).map (·.map (Spec.aggFrame f)) ∧
    ∀ fs, Spec.sampleFrames p s = some fs →
      ∃ gs, Spec.sampleFrames (Spec.aggregate f p) s = some gs ∧ gs.length = fs.length := by
  have h := sampleFrames_aggregate f hn hi p s
  refine ⟨h, ?_⟩
  intro fs hfs
  exact ⟨fs.map (Spec.aggFrame f), by rw [h, hfs]; rfl, by simp⟩

-- non-vacuity: filefunctions granularity on `exProfile` — the recursive inlined chain keeps its 5 frames
example : (Spec.sampleFrames (Spec.aggregate ⟨false, true, true, true, false, false⟩ exProfile)
    { locationIDs := [2, 2, 3, 1], values := [5], label := [], numLabel := [], numUnit := [] }).map
      (·.map (fun fr => (fr.name, fr.line, fr.inlined))) =
    some [([109], 0, false), ([102], 0, false), ([103], 0, true), ([102], 0, false), ([103], 0, true)] := by decide

/-- Selecting the sample value by name (`si=<name>`, `-sample_index=<name>`) picks a column whose
type name is byte-for-byte the given text (or the text without the legacy `inuse_` prefix), the
FIRST such column; no case folding or other normalisation.  (Texts that are numbers are indices,
the empty text is the default selection — excluded here.) -/
theorem select_by_name_exact (p : Profile) (sel : Str) (i : Nat) (h : selectIndex p sel = .ok i)
    (hne : sel ≠ []) (hnum : atoi sel = none) :
    ∃ t, p.sampleType[i]? = some t ∧ (t.typ = sel ∨ t.typ = trimInuse sel) ∧
      ∀ j, j < i → ∀ t', p.sampleType[j]? = some t' → t'.typ ≠ sel ∧ t'.typ ≠ trimInuse sel := by
  simp only [selectIndex, hne, hnum, if_false] at h
  by_cases he : p.sampleType = []
  · simp [he] at h
  · simp only [he, if_false] at h
    cases hf : firstType (fun t => t = sel || t = trimInuse sel) p.sampleType 0 with
    | none => simp [hf] at h
    | some k =>
      simp only [hf, Outcome.ok.injEq] at h
      subst h
      obtain ⟨_, t, h1, h2, h3⟩ := firstType_spec _ _ 0 k hf
      refine ⟨t, by simpa using h1, by simpa using h2, ?_⟩
      intro j hj t' ht'
      have := h3 j (by simpa using hj) t' ht'
      simpa using this

/-- A name no sample type carries exactly is rejected (an error, never a silent other column). -/
theorem select_unknown_name_rejected (p : Profile) (sel : Str) (hne : sel ≠ []) (hnum : atoi sel = none)
    (hno : ∀ t ∈ p.sampleType, t.typ ≠ sel ∧ t.typ ≠ trimInuse sel) :
    ∃ e, selectIndex p sel = .err e := by
  simp only [selectIndex, hne, hnum, if_false]
  by_cases he : p.sampleType = []
  · exact ⟨"profile has no samples", by simp [he]⟩
  · simp only [he, if_false]
    cases hf : firstType (fun t => t = sel || t = trimInuse sel) p.sampleType 0 with
    | none => exact ⟨_, rfl⟩
    | some k =>
      obtain ⟨_, t, h1, h2, _⟩ := firstType_spec _ _ 0 k hf
      have hm : t ∈ p.sampleType := List.mem_of_getElem? h1
      have := hno t hm
      simp [this.1, this.2] at h2

-- non-vacuity: ["Events","events"]: the name "events" selects column 1, "Events" column 0, "EVENTS"
-- none, "1" is an index, "" the default (last), "inuse_events" is "events"
example :
    let ev : Str := [101, 118, 101, 110, 116, 115]
    let p : Profile := { exProfile with sampleType := [⟨[69, 118, 101, 110, 116, 115], []⟩, ⟨ev, []⟩] }
    selectIndex p ev = .ok 1 ∧ selectIndex p [69, 118, 101, 110, 116, 115] = .ok 0 ∧
    (selectIndex p [69, 86, 69, 78, 84, 83]).isOk = false ∧ selectIndex p [49] = .ok 1 ∧
    selectIndex p [] = .ok 1 ∧ selectIndex p (inusePrefix ++ ev) = .ok 1 ∧ atoi ev = none := by decide

/-
Unique names.  Full statement (what `UniqueName` is documented for — "disambiguates functions with
same names"):
  theorem unique_names_injective : ∀ i j s t, 1 ≤ i → i < j → sources[i]? = some s →
      sources[j]? = some t → s.uniqueName ≠ t.uniqueName
It is FALSE of the code as it is (known finding C17/unique/collision/inlined-and-plain-copy-of-a-homonym):
`unique_names_injective_fails_witness` below.  Proved: the part of it the naming scheme does deliver.
-/

/-- Among the sources that share a full name exactly the first one (lowest index) keeps it as its
unique name; every other one gets `FullName#<a function id>`, which differs from the full name. So
two sources with the same full name never both answer to that name. -/
theorem unique_names_injective_partial (o : Opts) (p : Profile) (idx : Nat) (ss : StackSet)
    (h : stacks o p idx = .ok ss) :
    ∀ (j : Nat) (t : Source), 1 ≤ j → ss.sources.elems[j]? = some t →
      (t.uniqueName = t.fullName ∨ ∃ id, t.uniqueName = t.fullName ++ hash ++ decNat id) ∧
      (t.uniqueName = t.fullName ↔
        ∀ (i : Nat) (s : Source), 1 ≤ i → i < j → ss.sources.elems[i]? = some s → s.fullName ≠ t.fullName) := by
  have uq := stacks_uq h
  intro j t hj ht
  have hne : ∀ id, t.fullName ++ hash ++ decNat id ≠ t.fullName := by
    intro id he
    rw [List.append_assoc, List.append_right_eq_self] at he
    exact absurd (congrArg List.length he) (by simp [Stacks.hash])
  have hq : (ss.sources.elems.map nm)[j]? = some (nm t) := by simp [ht]
  rcases uq j (nm t) hj hq with ⟨h1, h2⟩ | ⟨⟨id, h1⟩, i, r, hi, hij, hr, hre⟩
  · refine ⟨Or.inl h1, fun _ => ?_, fun _ => h1⟩
    intro i s hi hij hs
    exact h2 i (nm s) hi hij (by simp [hs])
  · refine ⟨Or.inr ⟨id, h1⟩, fun hp => ?_, fun hall => ?_⟩
    · exact absurd (h1.symm.trans hp) (hne id)
    · simp only [List.getElem?_map, Option.map_eq_some_iff] at hr
      obtain ⟨s, hs, rfl⟩ := hr
      exact absurd hre (hall i s hi hij hs)

/-- Witness that full injectivity fails on the model of the code as it is: `f` of file a, then a
location where `f` of file b is inlined into itself — the plain and the inlined copy of the second
`f` both get the unique name `f#2`. -/
theorem unique_names_injective_fails_witness :
    (match stacks Opts.default uqProfile 0 with
      | .ok ss => ss.sources.elems.map (fun s => (s.uniqueName, s.inlined))
      | _ => []) =
    [([], false), ([102], false), ([102, 35, 50], false), ([102, 35, 50], true)] := by decide

/-- `FileName` is the function's file name with a prefix removed — whatever `-trim_path` and
`-source_path` are, it names a tail of a path of the profile (never text from the options or the
environment). -/
theorem file_name_is_suffix (o : Opts) (k : Key) : ∃ n, k.fileName o = k.file.drop n :=
  trimPath_drop o k.file

-- non-vacuity: trim_path "/r/p" removes that prefix ("/r/p/u/x.go" ↦ "u/x.go") and only as a prefix
-- ("/o/p/u/x.go" stays); source_path "/r/p" alone cuts after the component "/p/" anywhere
example :
    trimPath ⟨[47, 114, 47, 112], []⟩ [47, 114, 47, 112, 47, 117, 47, 120, 46, 103, 111] = [117, 47, 120, 46, 103, 111] ∧
    trimPath ⟨[47, 114, 47, 112], []⟩ [47, 111, 47, 112, 47, 117, 47, 120, 46, 103, 111] =
      [47, 111, 47, 112, 47, 117, 47, 120, 46, 103, 111] ∧
    trimPath ⟨[], [47, 114, 47, 112]⟩ [47, 111, 47, 112, 47, 117, 47, 120, 46, 103, 111] = [117, 47, 120, 46, 103, 111] := by
  decide

end PV.Props.C17
