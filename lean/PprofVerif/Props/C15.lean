import PprofVerif.Model.Measure
import PprofVerif.Spec.Units
namespace PV.Props.C15
open PV PV.Measure

theorem table_nonempty : table ≠ [] := by decide

end PV.Props.C15
