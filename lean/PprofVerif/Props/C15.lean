import PprofVerif.Lemmas.Measure
import PprofVerif.Model.MeasureFacts
import PprofVerif.Spec.Units
/-!
# C15 — Unit conversion and value formatting preserve magnitude

Property theorems only (helper lemmas live in `Lemmas/Measure.lean`).  They are about the
executable model `Model/Measure.lean` of `internal/measurement` in EXACT rational arithmetic (`Q`;
`≃` below is `Q.eqv`, equality of the denoted rationals by cross-multiplication), over the unit
table `table` that `tools/extract/units.go` regenerates from `measurement.UnitTypes` on every
run.  Two kinds of statements:

* **table facts**, decided by the kernel on the regenerated table each run (`decide`): they fail
  to elaborate when /repo's table stops having the property;
* **theorems for all values** — all `Int` values (hence all int64, MinInt64 included), all unit
  strings — about ANY table `T` that passes the table facts they name as hypotheses; together
  with the table facts they are statements about the real table.

What float64 rounding adds to the exact results is not covered here: the correspondence check
compares the real code with this model within relative 2⁻⁵⁰ (exactly where IEEE arithmetic is
exact).  The model is of the code repaired by fixes/C15-sniffunit-mus.patch and
fixes/C15-autoscale-minint64.patch and fixes/C15-canonical-name-is-a-unit-name.patch.
-/
namespace PV.Props.C15
open PV PV.Measure

set_option maxRecDepth 8000

/-! ## table facts (re-decided on every run) -/

/-- every factor is a positive rational and no two units of a family have the same size -/
theorem factors_positive_distinct : factorsPosB table = true ∧ factorsDistinctB table = true := by
  decide

/-- no alias of one family — nor its plural — is an alias of another family -/
theorem aliases_disjoint_across_families : aliasesDisjointB table = true := by decide

/-- sniffing a unit's canonical (printed) name, any listed alias, the plural of names of two or
more bytes, and the upper-case spellings of all of them finds exactly that unit; aliases are
listed in lower case -/
theorem every_alias_recognised :
    everyAliasRecognisedB table = true ∧ aliasesLowerB table = true := by decide

/-- the default unit of every family is one of its units (same printed name, same size) -/
theorem default_unit_in_family : defaultInFamilyB table = true := by decide

/-- "auto" and "minimum" are not unit names -/
theorem auto_words_are_not_units : autoNotUnitB table = true := by decide

/-- the table says what the hand-written dictionary `Spec/Units.lean` says: the same families,
the same printed names, the same sets of names, and the same size ratios
(2^10 steps for bytes, 10^3 / 3600 for time, decimal prefixes for GCU within float64 rounding) -/
theorem table_refines_spec : refinesSpecB table = true := by decide

/-- in every family except GCU (whose factors are float64 values of decimal fractions) a larger
unit is a whole number of hundredths of a smaller one — the hypothesis of `label_monotone_partial` -/
theorem unit_steps_centesimal :
    (table.all fun F => centesimalB F || F.name == [71, 67, 85]) = true := by decide

/-! ## conversion -/

/-- **Same family ⇒ exact ratio.**  If the first family that recognises the source string is `F`
(source unit `ua`) and the target string denotes `ub` in `F`, the result carries `ub`'s name and
its value is `v · (f_a / f_b)`; equivalently value · f_b = v · f_a. -/
theorem scale_same_family_exact (T : Table) (hpos : factorsPosB T = true) (v : Int) (frm dst : Str)
    (F : Family) (ua ub : MUnit) (hf : firstFamily T frm = some (F, ua))
    (hd : isAuto dst = false) (ht : sniffUnit F dst = some ub) :
    (scale T v frm dst).2 = ub.name ∧
    Q.eqv (scale T v frm dst).1 ((Q.ofInt v).mul (ua.factor.div ub.factor)) ∧
    Q.eqv ((scale T v frm dst).1.mul ub.factor) ((Q.ofInt v).mul ua.factor) := by
  rw [scale_eq_core, scaleCore_eq, hf]
  simp only [convertFrom, hd, ht, Bool.false_eq_true, if_false]
  obtain ⟨hF, _⟩ := firstFamily_some hf
  have pb := (posU_of_table hpos hF).2 ub (sniffUnit_some ht).1
  exact ⟨trivial, Q.mul_div_assoc _ _ _, Q.div_mul_cancel _ _ pb.1⟩

example : firstFamily table [107, 98] /- "kb" -/ ≠ none ∧ isAuto [77, 66] /- "MB" -/ = false := by decide

/-- **Identity for equal units**: when source and target strings denote the same unit (in
particular when they are the same string) the value is unchanged. -/
theorem scale_id (T : Table) (hpos : factorsPosB T = true) (v : Int) (frm dst : Str)
    (F : Family) (ua : MUnit) (hf : firstFamily T frm = some (F, ua))
    (hd : isAuto dst = false) (ht : sniffUnit F dst = some ua) :
    (scale T v frm dst).2 = ua.name ∧ Q.eqv (scale T v frm dst).1 (Q.ofInt v) := by
  obtain ⟨h1, _, h3⟩ := scale_same_family_exact T hpos v frm dst F ua ua hf hd ht
  refine ⟨h1, ?_⟩
  obtain ⟨hF, hs⟩ := firstFamily_some hf
  have pa := (posU_of_table hpos hF).2 ua (sniffUnit_some hs).1
  have pn : (0 : Int) < ua.fnum := pa.1
  have pd : (0 : Int) < ua.fden := by exact_mod_cast pa.2
  unfold Q.eqv at h3 ⊢
  simp only [Q.mul, Q.ofInt, Gen.Units.RawUnit.factor] at h3 ⊢
  push_cast at h3 ⊢
  have hpp : (0 : Int) < ua.fnum * ua.fden := Int.mul_pos pn pd
  apply Int.eq_of_mul_eq_mul_right (ne_of_gt hpp)
  linarith [h3]

example : (firstFamily table [66] /- "B" -/).map (·.2) =
    (firstFamily table [98, 121, 116, 101, 115] /- "bytes" -/).map (·.2) ∧
    (firstFamily table [66]).isSome = true := by
  decide

/-- **Commutes with negation**, for every value (in exact arithmetic the `value < 0 && -value > 0`
guard of `Scale` is transparent; for int64 the statement is about v ≠ MinInt64, whose negation is
not an int64). -/
theorem scale_neg (T : Table) (v : Int) (frm dst : Str) :
    scale T (-v) frm dst = ((scale T v frm dst).1.neg, (scale T v frm dst).2) := by
  rw [scale_eq_core, scale_eq_core, scaleCore_neg]

/-- the MinInt64 guard: `Scale` on MinInt64 does not recurse and agrees with the exact formula -/
theorem scale_minInt64_guard (T : Table) (frm dst : Str) :
    scale T minInt64 frm dst = scaleCore T minInt64 frm dst ∧ negI64 minInt64 = minInt64 := by
  exact ⟨scale_eq_core T minInt64 frm dst, by decide⟩

/-- **Never crosses families, never treats an unknown unit as a known one.**
(1) A source string no family recognises: factor 1, value unchanged, the target string passed
through ("" for the skip words).  (2) A source unit of family `F`: whatever the target is (a unit of
`F`, of another family, unknown, "auto", "minimum"), the result is expressed in a unit `u` of `F`
itself (one of its units or its default unit) and value · f_u = v · f_a — the magnitude is
preserved and no unit of another family is ever attached.  (3) A target that `F` does not
recognise gives the result in `F`'s default unit. -/
theorem scale_never_crosses_family (T : Table) (hpos : factorsPosB T = true) (v : Int) (frm dst : Str) :
    (firstFamily T frm = none → scale T v frm dst = passthrough v dst) ∧
    (∀ F ua, firstFamily T frm = some (F, ua) →
      (∃ u, (u ∈ F.units ∨ u = F.default) ∧ (scale T v frm dst).2 = u.name ∧
        Q.eqv ((scale T v frm dst).1.mul u.factor) ((Q.ofInt v).mul ua.factor)) ∧
      (isAuto dst = false → sniffUnit F dst = none →
        scale T v frm dst = (((Q.ofInt v).mul ua.factor).div F.default.factor, F.default.name))) := by
  rw [scale_eq_core, scaleCore_eq]
  refine ⟨fun h => by rw [h], ?_⟩
  intro F ua hf
  rw [hf]
  obtain ⟨hF, hs⟩ := firstFamily_some hf
  obtain ⟨pd, pu⟩ := posU_of_table hpos hF
  refine ⟨?_, ?_⟩
  · obtain ⟨u, hu, hname, hval⟩ := convertFrom_magnitude F ua v dst pu
    refine ⟨u, hu, hname, ?_⟩
    simp only
    rw [hval]
    have : PosU u := by
      rcases hu with h | h
      · exact pu u h
      · rw [h]; exact pd
    exact Q.div_mul_cancel _ _ this.1
  · intro hd hn
    simp only [convertFrom, hd, hn, Bool.false_eq_true, if_false]

example : firstFamily table [119, 105, 100, 103, 101, 116, 115] /- "widgets" -/ = none := by decide
example : (match firstFamily table [107, 98] /- "kb" -/ with
    | some (F, _) => (sniffUnit F [109, 115] /- "ms" -/).isNone
    | none => false) = true := by
  decide

/-- **Automatic selection picks the largest unit that keeps the magnitude at or above one.**
For a source unit `ua` of family `F` and `v ≠ 0`, the target "auto"/"minimum" yields a unit `u` of
`F` with value = v·f_a / f_u, `1 ≤ |v|·f_a / f_u`, and every unit `w` of `F` that also keeps the
magnitude at or above one is no larger than `u`.  For `v = 0` the default unit is used. -/
theorem autoscale_largest_ge_one (T : Table) (hpos : factorsPosB T = true) (v : Int) (frm dst : Str)
    (F : Family) (ua : MUnit) (hf : firstFamily T frm = some (F, ua)) (hd : isAuto dst = true) :
    (v ≠ 0 → ∃ u ∈ F.units,
      scale T v frm dst = (((Q.ofInt v).mul ua.factor).div u.factor, u.name) ∧
      Qual ((Q.ofInt v).mul ua.factor) u ∧
      ∀ w ∈ F.units, Qual ((Q.ofInt v).mul ua.factor) w → Q.le w.factor u.factor) ∧
    (v = 0 → scale T v frm dst = (((Q.ofInt 0).mul ua.factor).div F.default.factor, F.default.name)) := by
  rw [scale_eq_core, scaleCore_eq, hf]
  obtain ⟨hF, hs⟩ := firstFamily_some hf
  obtain ⟨_, pu⟩ := posU_of_table hpos hF
  have hua := (sniffUnit_some hs).1
  have pa := pu ua hua
  have spec := autoScale_spec F ((Q.ofInt v).mul ua.factor) pu
  simp only [convertFrom, hd, if_true]
  refine ⟨?_, ?_⟩
  · intro hv
    cases ha : autoScale F ((Q.ofInt v).mul ua.factor) with
    | none =>
      -- impossible: the source unit itself keeps |v| ≥ 1
      rw [ha] at spec
      exfalso
      apply spec ua hua
      unfold Qual Q.le
      simp only [Q.abs, Q.div, Q.mul, Q.ofInt, Q.one, Gen.Units.RawUnit.factor,
        Int.sign_eq_one_of_pos pa.1, Int.natAbs_mul]
      have hv1 : 1 ≤ v.natAbs := Int.natAbs_pos.2 hv
      have hn : 0 < ua.fnum.natAbs := Int.natAbs_pos.2 (ne_of_gt pa.1)
      have key : 1 * ua.fden * ua.fnum.natAbs ≤ v.natAbs * ua.fnum.natAbs * ua.fden := by
        have := Nat.mul_le_mul_right (ua.fnum.natAbs * ua.fden) hv1
        calc 1 * ua.fden * ua.fnum.natAbs = 1 * (ua.fnum.natAbs * ua.fden) := by ring
          _ ≤ v.natAbs * (ua.fnum.natAbs * ua.fden) := this
          _ = v.natAbs * ua.fnum.natAbs * ua.fden := by ring
      have key' : ((1 * ua.fden * ua.fnum.natAbs : Nat) : Int) ≤ ((v.natAbs * ua.fnum.natAbs * ua.fden : Nat) : Int) := by
        exact_mod_cast key
      push_cast at key' ⊢
      linarith [key']
    | some r =>
      rw [ha] at spec
      obtain ⟨u, hu, hr, hq, hmax⟩ := spec
      exact ⟨u, hu, hr, hq, hmax⟩
  · intro hv
    subst hv
    cases ha : autoScale F ((Q.ofInt 0).mul ua.factor) with
    | none => rfl
    | some r =>
      rw [ha] at spec
      obtain ⟨u, hu, _, hq, _⟩ := spec
      exfalso
      have pw := pu u hu
      unfold Qual Q.le at hq
      simp only [Q.abs, Q.div, Q.mul, Q.ofInt, Q.one, Gen.Units.RawUnit.factor,
        Int.sign_eq_one_of_pos pw.1, Int.zero_mul, Int.natAbs_zero] at hq
      have hn : 0 < u.fnum.natAbs := Int.natAbs_pos.2 (ne_of_gt pw.1)
      have hpos' : 0 < 1 * ua.fden * u.fnum.natAbs := Nat.mul_pos (Nat.mul_pos (by decide) pa.2) hn
      have : ((0 : Nat) : Int) < ((1 * ua.fden * u.fnum.natAbs : Nat) : Int) := by exact_mod_cast hpos'
      simp at hq this
      omega

example : isAuto sAuto = true ∧ isAuto sMinimum = true := by decide

/-! ## labels -/

/-- the number `ScaledLabel` prints is the scaled value rounded to two decimals, and a value that
rounds to zero is printed as a bare "0" -/
theorem label_number (T : Table) (v : Int) (frm dst : Str) :
    Q.eqv (label T v frm dst).1 (round2 (scale T v frm dst).1) ∧
    ((round2 (scale T v frm dst).1).num ≠ 0 → (label T v frm dst).2 = (scale T v frm dst).2) := by
  unfold label
  simp only
  split
  · rename_i h
    exact ⟨by simp [Q.eqv, Q.zero, h], fun hne => absurd h hne⟩
  · exact ⟨Q.eqv_refl _, fun _ => rfl⟩

/-
Full statement `label_monotone` (not proved): for every table passing the table facts, every
family and all values v₁ ≤ v₂, label(v₁) read back with its unit ≤ label(v₂) read back with its
unit.  What is missing: (a) families whose unit ratios are not whole hundredths — over exact
rationals the statement is FALSE by one float64 ulp for the GCU family, whose factors are the
float64 values of 1e-9, 1e-6, 1e-3 (round2 of a value just below a unit step can exceed the step
by 2⁻⁵² relative); (b) negative values follow from `scale_neg` and the oddness of `round2`, not
stated here.
-/

/-- **Labels are monotone in the value** (proved part): in a family whose unit steps are whole
hundredths (`centesimalB`: bytes and time, see `unit_steps_centesimal`), for values
1 ≤ v₁ ≤ v₂ in the same source unit with automatic unit selection, the two labels carry units
`u₁`, `u₂` of the family, and the printed numbers read back with their units are ordered:
round2(x₁)·f₁ ≤ round2(x₂)·f₂. -/
theorem label_monotone_partial (T : Table) (hpos : factorsPosB T = true) (frm dst : Str)
    (F : Family) (ua : MUnit) (hf : firstFamily T frm = some (F, ua)) (hd : isAuto dst = true)
    (hcent : centesimalB F = true) (v1 v2 : Int) (h1 : 1 ≤ v1) (h12 : v1 ≤ v2) :
    ∃ u1 ∈ F.units, ∃ u2 ∈ F.units,
      (scale T v1 frm dst).2 = u1.name ∧ (scale T v2 frm dst).2 = u2.name ∧
      Q.le ((round2 (scale T v1 frm dst).1).mul u1.factor) ((round2 (scale T v2 frm dst).1).mul u2.factor) := by
  obtain ⟨hF, hs⟩ := firstFamily_some hf
  obtain ⟨_, pu⟩ := posU_of_table hpos hF
  have pa := pu ua (sniffUnit_some hs).1
  obtain ⟨a1, _⟩ := autoscale_largest_ge_one T hpos v1 frm dst F ua hf hd
  obtain ⟨a2, _⟩ := autoscale_largest_ge_one T hpos v2 frm dst F ua hf hd
  obtain ⟨u1, hu1, e1, q1, m1⟩ := a1 (by omega)
  obtain ⟨u2, hu2, e2, q2, m2⟩ := a2 (by omega)
  refine ⟨u1, hu1, u2, hu2, by rw [e1], by rw [e2], ?_⟩
  rw [e1, e2]
  have pn : (0 : Int) < ua.fnum := pa.1
  have pd : (0 : Int) < ua.fden := by exact_mod_cast pa.2
  apply autoLabel_mono F pu hcent _ _ _ _ _ _ u1 u2 hu1 hu2 q1 q2 m1 m2
  · simp only [Q.mul, Q.ofInt, Gen.Units.RawUnit.factor]
    exact Int.mul_nonneg (by omega) (le_of_lt pn)
  · simp only [Q.mul, Q.ofInt, Gen.Units.RawUnit.factor]; exact Nat.mul_pos (by decide) pa.2
  · simp only [Q.mul, Q.ofInt, Gen.Units.RawUnit.factor]; exact Nat.mul_pos (by decide) pa.2
  · unfold Q.le
    simp only [Q.mul, Q.ofInt, Gen.Units.RawUnit.factor]
    push_cast
    have := Int.mul_le_mul_of_nonneg_right h12 (le_of_lt (Int.mul_pos pn pd))
    nlinarith [this]

example : (table.filter centesimalB).length = 2 := by decide

/-! ## the report's value formatter (`-divide_by`) -/

/-- `int64(float64(v)·r)`: the divided value is within one sample unit of `v·r`, truncated toward
zero (stated without dividing: |v·r.num − w·r.den| < r.den). -/
theorem scaleByRatio_truncates (v : Int) (r : Q) (hd : 0 < r.den) :
    (v * r.num - scaleByRatio v r * r.den).natAbs < r.den ∧
    (0 ≤ v * r.num → 0 ≤ scaleByRatio v r ∧ scaleByRatio v r * r.den ≤ v * r.num) ∧
    (v * r.num ≤ 0 → scaleByRatio v r ≤ 0 ∧ v * r.num ≤ scaleByRatio v r * r.den) :=
  scaleByRatio_bounds v r hd

/-- **Formatting with a ratio labels the DIVIDED value**: for a ratio r > 0, r ≠ 1 the printed
number is the rounded scaled value of `w = scaleByRatio v r`, and under automatic unit selection
the unit is the largest unit of the source's family that keeps the magnitude of `w` — the value
actually printed, not the undivided `v` — at or above one. -/
theorem formatValue_labels_divided_value (T : Table) (hpos : factorsPosB T = true) (r : Q)
    (hr : Q.lt Q.zero r) (hr1 : ¬ Q.eqv r Q.one) (v : Int) (frm dst : Str)
    (F : Family) (ua : MUnit) (hf : firstFamily T frm = some (F, ua)) (hd : isAuto dst = true) :
    formatValue T r v frm dst = label T (scaleByRatio v r) frm dst ∧
    Q.eqv (formatValue T r v frm dst).1 (round2 (scale T (scaleByRatio v r) frm dst).1) ∧
    (scaleByRatio v r ≠ 0 → ∃ u ∈ F.units,
      scale T (scaleByRatio v r) frm dst =
        (((Q.ofInt (scaleByRatio v r)).mul ua.factor).div u.factor, u.name) ∧
      Qual ((Q.ofInt (scaleByRatio v r)).mul ua.factor) u ∧
      ∀ w ∈ F.units, Qual ((Q.ofInt (scaleByRatio v r)).mul ua.factor) w → Q.le w.factor u.factor) := by
  have e : formatValue T r v frm dst = label T (scaleByRatio v r) frm dst := by
    unfold formatValue
    have h1 : Q.ltB Q.zero r = true := by simpa [Q.ltB] using hr
    have h2 : decide (Q.eqv r Q.one) = false := by simpa using hr1
    simp [h1, h2]
  refine ⟨e, ?_, ?_⟩
  · rw [e]; exact (label_number T _ frm dst).1
  · exact (autoscale_largest_ge_one T hpos _ frm dst F ua hf hd).1

example : scaleByRatio 4194304 ⟨1, 1024⟩ = 4096 ∧ scaleByRatio (-7) ⟨1, 2⟩ = -3 ∧
    (formatValue table ⟨1, 1024⟩ 4194304 [98] /- "b" -/ sMinimum).2 = [107, 66] /- "kB" -/ := by decide

/-! ## the one output unit of a report (`unit=minimum`) -/

/-- **The unit `selectOutputUnit` chooses does not depend on the signs of the values**: two
graphs whose nodes have the same magnitudes, node by node (a diff profile and its mirror image,
or any subset of entries negated), get the same output unit. -/
theorem selectOutputUnit_sign_invariant (T : Table) (a b : List (Int × Int)) (h : SameMagnitudes a b)
    (total : Int) (r : Q) (su : Str) (cg : Bool) :
    selectOutputUnit T a total r su cg = selectOutputUnit T b total r su cg :=
  selectOutputUnit_congr T h total r su cg

/-- in particular under negation of every value -/
theorem selectOutputUnit_neg (T : Table) (a : List (Int × Int)) (total : Int) (r : Q) (su : Str) (cg : Bool) :
    selectOutputUnit T (a.map fun n => (-n.1, -n.2)) total r su cg = selectOutputUnit T a total r su cg :=
  selectOutputUnit_congr T (sameMagnitudes_neg a) total r su cg

example : SameMagnitudes [(20000, 20000), (6000, 6000), (-3, -3)] [(-20000, -20000), (6000, 6000), (3, 3)] ∧
    selectOutputUnit table [(20000, 20000), (6000, 6000), (-3, -3)] 26003 Q.one [109, 115] /- "ms" -/ false
      = [109, 115] := by
  refine ⟨?_, by decide⟩
  exact .cons rfl rfl (.cons rfl rfl (.cons rfl rfl .nil))

/-- **The smallest non-zero value stays visible**: without a ratio, for a sample unit `ua` of family
`F` and a graph whose smallest non-zero magnitude is `m`, the chosen unit is a unit `u` of `F` that
keeps `m` — or, when the ×100 rule applies, `100·m` — at or above one, so `m` is printed as at
least 0.01 and never as 0. -/
theorem selectOutputUnit_keeps_smallest_visible (T : Table) (hpos : factorsPosB T = true)
    (nodes : List (Int × Int)) (total : Int) (su : Str) (cg : Bool)
    (F : Family) (ua : MUnit) (hf : firstFamily T su = some (F, ua)) (hm : minMagnitude nodes ≠ 0) :
    ∃ u ∈ F.units, (u.name ≠ [] → selectOutputUnit T nodes total Q.one su cg = u.name) ∧
      (Qual ((Q.ofInt (minMagnitude nodes : Nat)).mul ua.factor) u ∨
       Qual ((Q.ofInt (100 * (minMagnitude nodes : Nat))).mul ua.factor) u) := by
  have hauto : isAuto sMinimum = true := by decide
  have hm' : ((minMagnitude nodes : Nat) : Int) ≠ 0 := by exact_mod_cast hm
  have h100 : (100 * ((minMagnitude nodes : Nat) : Int)) ≠ 0 := by omega
  obtain ⟨a1, _⟩ := autoscale_largest_ge_one T hpos (minMagnitude nodes : Nat) su sMinimum F ua hf hauto
  obtain ⟨a2, _⟩ := autoscale_largest_ge_one T hpos (100 * (minMagnitude nodes : Nat)) su sMinimum F ua hf hauto
  obtain ⟨u1, hu1, e1, q1, _⟩ := a1 hm'
  obtain ⟨u2, hu2, e2, q2, _⟩ := a2 h100
  have hact : (Q.ltB Q.zero Q.one && !decide (Q.eqv Q.one Q.one)) = false := by decide
  unfold selectOutputUnit
  simp only [hact, hm', if_false, Bool.false_eq_true]
  split
  · refine ⟨u2, hu2, ?_, Or.inr q2⟩
    intro hne
    rw [e2]; simp [hne]
  · refine ⟨u1, hu1, ?_, Or.inl q1⟩
    intro hne
    rw [e1]; simp [hne]

/-! ## harmonising several profiles -/

/-- **`ScaleProfiles` preserves each profile's physical totals.**  For a table passing the table
facts, whenever the model of `ScaleProfiles` succeeds on profiles `ps`, every output profile is the
input profile `Harmonised`: sample types keep their Type; the ratio of column `i` times the
physical size of its new unit is the physical size of its old unit; every sample value is
multiplied by the ratio of its column; the period is converted the same way — and therefore, for
every column, (Σ new values) · size(new unit) = (Σ old values) · size(old unit). -/
theorem scaleProfiles_preserves_totals (T : Table) (hpos : factorsPosB T = true)
    (hdis : aliasesDisjointB T = true) (hauto : autoNotUnitB T = true)
    (ps : List MProf) (out : List MProfOut) (h : scaleProfiles T ps = .ok out) :
    ∃ f : MProf → MProfOut, out = ps.map f ∧ ∀ p ∈ ps,
      Harmonised T p (f p) ∧
      ((∀ s ∈ p.samples, s.length = p.sampleTypes.length) →
        ∀ i (h1 : i < p.sampleTypes.length) (h2 : i < (f p).sampleTypes.length),
          Q.eqv ((colTotalQ (f p).samples i).mul (phys T (f p).sampleTypes[i].unit))
            ((Q.ofInt (colTotal p.samples i)).mul (phys T p.sampleTypes[i].unit))) := by
  obtain ⟨f, hout, hf⟩ := scaleProfiles_spec hpos (uniqueFamily_of_disjoint T hdis) hauto ps out h
  exact ⟨f, hout, fun p hp => ⟨hf p hp, fun hrows i h1 h2 => harmonised_totals (hf p hp) hrows i h1 h2⟩⟩

/-- the common type `CommonValueType` returns is one of the inputs and every input is compatible
with it (same unit string, or a unit of the same family) -/
theorem commonValueType_is_compatible_input (T : Table) (hdis : aliasesDisjointB T = true)
    (l : List VT) (c : VT) (h : commonValueType T l = .ok (some c)) :
    c ∈ l ∧ ∀ t ∈ l, CompatU T t.unit c.unit :=
  commonValueType_ok (uniqueFamily_of_disjoint T hdis) h

example : (scaleProfiles table
    [{ periodType := none, period := 0, sampleTypes := [⟨[], [109, 115]⟩], samples := [[5]] },
     { periodType := none, period := 0, sampleTypes := [⟨[], [110, 115]⟩], samples := [[7]] }]).isOk = true := by
  decide

/-! ## percentages -/

/-- **Percentages are computed from absolute ratios**: the ratio is `|v| · 100 / |total|`
(stated without dividing), insensitive to the signs of value and total, never negative, and 0
for a zero total. -/
theorem percentage_abs (v t : Int) :
    (t ≠ 0 → (pctRatio v t).num * t.natAbs = v.natAbs * 100 * (pctRatio v t).den ∧ 0 < (pctRatio v t).den) ∧
    pctRatio (-v) t = pctRatio v t ∧ pctRatio v (-t) = pctRatio v t ∧
    0 ≤ (pctRatio v t).num ∧ pctRatio v 0 = Q.zero := by
  refine ⟨?_, ?_, ?_, ?_, ?_⟩
  · intro ht
    unfold pctRatio
    simp only [ht, if_false, Q.mul, Q.abs, Q.div, Q.ofInt]
    refine ⟨?_, by simp; omega⟩
    have hs : t.sign.natAbs = 1 := by
      rcases Int.lt_or_gt_of_ne ht with h | h
      · rw [Int.sign_eq_neg_one_of_neg h]; rfl
      · rw [Int.sign_eq_one_of_pos h]; rfl
    simp only [Int.natAbs_mul, hs, Nat.mul_one, Nat.one_mul]
    push_cast
    ring
  · unfold pctRatio
    by_cases ht : t = 0
    · simp [ht]
    · simp [ht, Q.mul, Q.abs, Q.div, Q.ofInt, Int.natAbs_mul]
  · unfold pctRatio
    by_cases ht : t = 0
    · simp [ht]
    · simp [ht, Q.mul, Q.abs, Q.div, Q.ofInt, Int.natAbs_mul, Int.sign_neg]
  · unfold pctRatio
    by_cases ht : t = 0
    · simp [ht, Q.zero]
    · simp only [ht, if_false, Q.mul, Q.abs, Q.div, Q.ofInt]
      exact Int.mul_nonneg (Int.natCast_nonneg _) (by decide)
  · simp [pctRatio]

example : pctRatio (-1) 3 = ⟨100, 3⟩ ∧ pctClass (pctRatio 9995 10000) = .hundred := by decide

end PV.Props.C15
