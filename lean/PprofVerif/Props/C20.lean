import PprofVerif.Lemmas.Conc
import PprofVerif.Gen.LockFacts
/-!
# C20 — shared profile and tool state is safe under concurrent use

Property theorems only (helper lemmas live in `Lemmas/Conc.lean`).

**What is proved.**  For the executable interleaving semantics of `Model/Conc.lean` — threads made
of sections `lock m; body; unlock m` whose bodies are sequences of atomic accesses that other
threads may interleave with — for ALL sets of threads and ALL schedules:

* `mutual_exclusion`: a mutex never has two holders;
* `lock_discipline_serialisable`: if every access to a variable `v` happens in a section that holds
  `L v`, every terminated execution leaves exactly the memory obtained by running the section
  bodies one after the other, uninterrupted, in lock-acquisition order, and that order respects
  every thread's program order (so no torn state, no lost update, and the result is one of the
  results of "the same operations run one at a time");
* `no_deadlock_single_lock_per_op`: a program whose sections take at most one lock is never stuck
  and every execution has exactly `totalSteps` steps; `no_deadlock_ordered_locks`: the same progress
  for nested locks acquired in rank order; `slots_disjoint_writes`: goroutines that write only
  their own slot (fetch.go's fork/join) leave the sequential result;
* `rwlock_writer_exclusive`, `rwlock_reads_see_whole_values`: for a `sync.RWMutex` (writers exclusive,
  readers may overlap) every value read is the value after a prefix of complete write sections and
  the final value is the writes in lock-acquisition order — this is what licenses a READ site that
  holds only the read lock, and nothing licenses a write there;
* `once_single_init`: any number of concurrent `once.Do` calls run exactly one initialiser, once;
* `excl_create_distinct_names`: `k` concurrent `newTempFile` loops return pairwise distinct names,
  none of which existed before, existing files keep their contents, and a loop gives up only when
  every name below the limit is taken;
* witnesses that the hypotheses matter: `nested_locks_can_deadlock`,
  `unguarded_access_not_serialisable`, `nonexcl_create_collides`.

**What ties this to pprof.**  The per-run obligations at the end are evaluated by `decide` over
`Gen/LockFacts.lean`, which tools/extract/lockfacts.go REGENERATES from /repo's current source on
every run: every syntactic access site of the guarded variables is dominated by its guard
(`all_sites_guarded`), nested acquisitions follow a lock hierarchy (`lock_order_acyclic`),
newTempFile opens with `O_CREATE|O_EXCL` and retries on EEXIST (`tempfile_excl`), every goroutine
is joined by a WaitGroup before its results are read (`goroutines_joined`), and the copy-on-write
`binrep` is written only while fresh (`immutable_written_only_fresh`).

**Outside the model** (trusted / checked only by the `-race` run of harness/c20.go): the Go memory
model (that a held `sync.Mutex` / completed `sync.Once` / `WaitGroup.Wait` orders the accesses),
the scheduler, the kernel's atomic `O_EXCL`, aliasing the syntactic site analysis cannot see
(reflection, pointers that escape a locked region), and the race detector's completeness.
-/
namespace PV.Props.C20
open PV.Conc PV.ConcFacts

/-! ## the protocol, for all thread sets and all interleavings -/

/-- At most one holder: in every configuration reachable by any schedule of any program, two
different threads never hold the same mutex. -/
theorem mutual_exclusion {σ : Type} (prog : List (Thread σ)) (mem0 : Mem σ) (sched : List Nat)
    (c' : Config σ) (log : List (Nat × Section σ))
    (hrun : exec (initial prog mem0) sched = some (c', log))
    (i j m : Nat) (ti tj : TState σ) (hij : i ≠ j)
    (hi : c'.ts[i]? = some ti) (hj : c'.ts[j]? = some tj) :
    ¬ (ti.holds m = true ∧ tj.holds m = true) := by
  intro ⟨h1, h2⟩
  exact mutexInv_exec (mutexInv_initial prog mem0) hrun i j m ti tj hij hi hj h1 h2

/-- **Lock discipline ⇒ serialisable.**  `L v` is the mutex guarding variable `v`; the program is
disciplined when every section holds exactly the mutex that guards everything its body touches.
Then for every schedule that runs the program to termination:
1. the final memory is the memory produced by running the entered sections sequentially, each body
   uninterrupted, in the order in which their locks were acquired;
2. that order contains, for every thread, exactly its sections in program order;
3. and nothing else. -/
theorem lock_discipline_serialisable {σ : Type} (L : Nat → Nat) (prog : List (Thread σ))
    (hd : Disciplined L prog) (mem0 : Mem σ) (sched : List Nat) (c' : Config σ)
    (log : List (Nat × Section σ))
    (hrun : exec (initial prog mem0) sched = some (c', log)) (hterm : c'.terminated = true) :
    c'.mem = runSerial (log.map (·.2)) mem0 ∧
    (∀ (i : Nat) (h : i < prog.length), sectionsOf log i = prog[i]) ∧
    (∀ e ∈ log, e.1 < prog.length) := by
  have hts : ∀ (i : Nat) (t : TState σ), (initial prog mem0).ts[i]? = some t →
      ∃ h : i < prog.length, t = .idle prog[i] := by
    intro i t hi
    simp only [initial, List.getElem?_map] at hi
    cases hp : prog[i]? with
    | none => rw [hp] at hi; cases hi
    | some th =>
      rw [hp] at hi; cases hi
      rcases List.getElem?_eq_some_iff.mp hp with ⟨hlt, rfl⟩
      exact ⟨hlt, rfl⟩
  have hgood : GoodCfg L (initial prog mem0) := by
    refine ⟨?_, mutexInv_initial prog mem0⟩
    intro i t hi
    rcases hts i t hi with ⟨hlt, rfl⟩
    intro s hs
    exact hd prog[i] (List.getElem_mem hlt) s hs
  refine ⟨?_, ?_, ?_⟩
  · funext v
    rw [exec_var hgood hrun hterm v, runSerial_apply, List.foldl_map]
    congr 1
    apply pendAll_silent
    intro t ht x
    simp only [initial, List.mem_map] at ht
    rcases ht with ⟨th, _, rfl⟩
    rfl
  · intro i hlt
    have hi : (initial prog mem0).ts[i]? = some (.idle prog[i]) := by
      simp [initial, hlt]
    rcases exec_rest hrun hi with ⟨t', ht', hr⟩
    have := finished_rest (terminated_getElem hterm ht')
    rw [this] at hr
    simpa [restOf] using hr.symm
  · intro e he
    rcases exec_log_mem hrun e he with ⟨t, ht, _⟩
    exact (hts e.1 t ht).1

/-- **One lock at a time ⇒ no deadlock, and termination.**  If no section takes two locks then
after any schedule (a) unless every thread has finished, some thread can take a step,
(b) the schedule is no longer than `totalSteps prog`, and (c) it has exactly that length when all
threads have finished.  So every execution can be extended until it terminates, and does so after
`totalSteps prog` steps. -/
theorem no_deadlock_single_lock_per_op {σ : Type} (prog : List (Thread σ)) (hs : SingleLock prog)
    (mem0 : Mem σ) (sched : List Nat) (c' : Config σ) (log : List (Nat × Section σ))
    (hrun : exec (initial prog mem0) sched = some (c', log)) :
    (c'.terminated = false → canStep c' = true) ∧
    sched.length ≤ totalSteps prog ∧
    (c'.terminated = true → sched.length = totalSteps prog) := by
  have hsingle : SingleCfg (initial prog mem0) := by
    intro i t hi
    simp only [initial, List.getElem?_map] at hi
    cases hp : prog[i]? with
    | none => rw [hp] at hi; cases hi
    | some th =>
      rw [hp] at hi; cases hi
      exact hs th (List.mem_of_getElem? hp)
  have hsize : cfgSize (initial prog mem0).ts = totalSteps prog := by
    simp [cfgSize, initial, totalSteps, List.map_map, Function.comp_def, tSize, restSize]
  have hlen := exec_length hrun
  rw [hsize] at hlen
  refine ⟨progress (singleCfg_exec hsingle hrun), by omega, ?_⟩
  intro hterm
  have : cfgSize c'.ts = 0 := cfgSize_terminated hterm
  omega

/-- **Lock hierarchy ⇒ no deadlock.**  Sections may take several (nested) locks; if every section
acquires them in strictly increasing `rank`, then after any schedule either every thread has
finished or some thread can take a step; and (for every program) a schedule is never longer than
`totalSteps prog`.  `no_deadlock_single_lock_per_op` is the special case of at most one lock. -/
theorem no_deadlock_ordered_locks {σ : Type} (rank : Nat → Nat) (prog : List (Thread σ))
    (ho : OrderedLocks rank prog) (mem0 : Mem σ) (sched : List Nat) (c' : Config σ)
    (log : List (Nat × Section σ)) (hrun : exec (initial prog mem0) sched = some (c', log)) :
    (c'.terminated = false → canStep c' = true) ∧ sched.length ≤ totalSteps prog := by
  have hord : OrdCfg rank (initial prog mem0) := by
    intro i t hi
    simp only [initial, List.getElem?_map] at hi
    cases hp : prog[i]? with
    | none => rw [hp] at hi; cases hi
    | some th =>
      rw [hp] at hi; cases hi
      exact ho th (List.mem_of_getElem? hp)
  have hsize : cfgSize (initial prog mem0).ts = totalSteps prog := by
    simp [cfgSize, initial, totalSteps, List.map_map, Function.comp_def, tSize, restSize]
  have hlen := exec_length hrun
  rw [hsize] at hlen
  exact ⟨progress_ordered (ordCfg_exec hord hrun), by omega⟩

/-- **Fork/join with one result slot per goroutine** (fetch.go: `go func(s *profileSource){…}(&sources[i])`,
then `wg.Wait()`): if goroutine `i` only ever writes slot `i` — with or without locks — then in
every terminated execution slot `v` holds exactly what goroutine `v` running alone would have left
there, and slots without a goroutine are untouched. -/
theorem slots_disjoint_writes {σ : Type} (prog : List (Thread σ))
    (hown : ∀ (i : Nat) (t : Thread σ), prog[i]? = some t → ∀ s ∈ t, ∀ a ∈ s.body, a.var = i)
    (mem0 : Mem σ) (sched : List Nat) (c' : Config σ) (log : List (Nat × Section σ))
    (hrun : exec (initial prog mem0) sched = some (c', log)) (hterm : c'.terminated = true) (v : Nat) :
    c'.mem v = match prog[v]? with
               | some t => runSerial t mem0 v
               | none => mem0 v := by
  have ho : OwnSlot (initial prog mem0).ts := by
    intro i t hi a ha
    simp only [initial, List.getElem?_map] at hi
    cases hp : prog[i]? with
    | none => rw [hp] at hi; cases hi
    | some th =>
      rw [hp] at hi; cases hi
      simp only [remaining, List.mem_flatMap] at ha
      rcases ha with ⟨s, hs, has⟩
      exact hown i th hp s hs a has
  rw [exec_slots ho hrun hterm v]
  unfold slotFinal
  simp only [initial, List.getElem?_map]
  cases hp : prog[v]? with
  | none => rfl
  | some th =>
    simp only [Option.map_some, remaining]
    rw [actsOn_flatMap, runSerial_apply]

/-- thread 0 takes mutex 0 then 1, thread 1 takes 1 then 0 -/
def abba : List (Thread Unit) := [[⟨[0, 1], []⟩], [⟨[1, 0], []⟩]]

/-- The hypothesis of `no_deadlock_single_lock_per_op` matters: with nested locks the schedule
"thread 0, thread 1" reaches a configuration that is not terminated and in which no thread can
step. -/
theorem nested_locks_can_deadlock :
    (exec (initial abba fun _ => ()) [0, 1]).map (fun r => (r.1.terminated, canStep r.1))
      = some (false, false) := by decide

/-- `lock 0; v := 1; v := v + 1; unlock 0` -/
def guardedSec : Section Nat := ⟨[0], [⟨0, fun _ => 1⟩, ⟨0, fun x => x + 1⟩]⟩
/-- `v := 10` holding nothing -/
def unguardedSec : Section Nat := ⟨[], [⟨0, fun _ => 10⟩]⟩
def racy : List (Thread Nat) := [[guardedSec], [unguardedSec]]

/-- The hypothesis of `lock_discipline_serialisable` matters: one unguarded access and the final
value (11) is the result of neither sequential order (10 and 2). -/
theorem unguarded_access_not_serialisable :
    (exec (initial racy fun _ => 0) [0, 0, 1, 1, 1, 0, 0]).map (fun r => (r.1.terminated, r.1.mem 0))
      = some (true, 11) ∧
    runSerial [guardedSec, unguardedSec] (fun _ => 0) 0 = 10 ∧
    runSerial [unguardedSec, guardedSec] (fun _ => 0) 0 = 2 := by decide

/-- **sync.Once.**  Thread `i` calls `o.Do(f)` for every `f` in `inits[i]` (any number of threads,
any number of calls, any initialisers).  In every terminated execution exactly one of the supplied
initialisers has been applied, exactly once, to the initial value, and the Once is marked done. -/
theorem once_single_init {τ : Type} (o : Nat) (inits : List (List (τ → τ))) (x0 : τ)
    (mem0 : Mem (Bool × τ)) (h0 : mem0 o = (false, x0)) (sched : List Nat)
    (c' : Config (Bool × τ)) (log : List (Nat × Section (Bool × τ)))
    (hrun : exec (initial (onceProg o inits) mem0) sched = some (c', log))
    (hterm : c'.terminated = true) (hne : ∃ fs ∈ inits, fs ≠ []) :
    ∃ f, (∃ fs ∈ inits, f ∈ fs) ∧ c'.mem o = (true, f x0) := by
  have hser := lock_discipline_serialisable (fun v => v) (onceProg o inits)
    (onceProg_disciplined o inits) mem0 sched c' log hrun hterm
  -- every logged section is a once-section of one of the initialisers
  have hall : ∀ e ∈ log, ∃ f, (∃ fs ∈ inits, f ∈ fs) ∧ e.2 = onceSection o f := by
    intro e he
    rcases exec_log_mem hrun e he with ⟨t, ht, hm⟩
    simp only [initial, List.getElem?_map] at ht
    cases hp : (onceProg o inits)[e.1]? with
    | none => rw [hp] at ht; cases ht
    | some th =>
      rw [hp] at ht; cases ht
      have hth := List.mem_of_getElem? hp
      simp only [onceProg, List.mem_map] at hth
      rcases hth with ⟨fs, hfs, rfl⟩
      simp only [restOf, List.mem_map] at hm
      rcases hm with ⟨f, hf, hfe⟩
      exact ⟨f, ⟨fs, hfs, hf⟩, hfe.symm⟩
  -- the log is not empty
  rcases hne with ⟨fs, hfs, hfsne⟩
  rcases List.getElem_of_mem hfs with ⟨i, hi, hget⟩
  have hlen : i < (onceProg o inits).length := by simpa [onceProg] using hi
  have hsec := hser.2.1 i hlen
  have hlogne : log ≠ [] := by
    intro hnil
    rw [hnil] at hsec
    simp [sectionsOf, onceProg, hget] at hsec
    exact hfsne hsec
  cases log with
  | nil => exact absurd rfl hlogne
  | cons e log' =>
    rcases hall e (by simp) with ⟨f, hf, hef⟩
    refine ⟨f, hf, ?_⟩
    rw [hser.1, runSerial_apply, h0]
    simp only [List.map_cons]
    rw [hef]
    apply once_fold
    intro s hs
    simp only [List.mem_map] at hs
    rcases hs with ⟨e', he', rfl⟩
    rcases hall e' (by simp [he']) with ⟨g, _, hg⟩
    exact ⟨g, hg⟩

/-- **Exclusive create.**  `k` concurrent runs of newTempFile's loop (`O_CREATE|O_EXCL`, next index
on EEXIST) on a directory `d0`, any schedule, stopped at any point: (1) two creators never hold the
same name; (2) every file that existed before still has its content; (3) a returned name did not
exist before and contains what its creator wrote; (4) a creator gives up only when every index
below the limit is taken. -/
theorem excl_create_distinct_names (limit : Nat) (tag : Nat → Nat) (d0 : FS.Dir) (k : Nat)
    (sched : List Nat) (s' : FS.State)
    (hrun : FS.exec true limit tag (FS.start d0 k) sched = some s') :
    (∀ (i j n : Nat), i ≠ j → s'.cs[i]? = some (.got n) → s'.cs[j]? = some (.got n) → False) ∧
    (∀ n c, d0 n = some c → s'.dir n = some c) ∧
    (∀ (i n : Nat), s'.cs[i]? = some (.got n) → d0 n = none ∧ s'.dir n = some (tag i)) ∧
    (∀ (i : Nat), s'.cs[i]? = some .gaveUp → ∀ n, 1 ≤ n → n < limit → (s'.dir n).isSome = true) := by
  have hinv := FS.inv_exec (FS.inv_start limit tag d0 k) hrun
  exact ⟨hinv.distinct, hinv.keep, hinv.got, hinv.gaveUp⟩

/-- **sync.RWMutex: a writer excludes everybody.**  In every state reachable by any schedule of any
program, while one thread holds the write lock every other thread holds nothing (readers may
overlap with readers only). -/
theorem rwlock_writer_exclusive {σ : Type} (x0 : σ) (prog : List (List (RW.Op σ))) (sched : List Nat)
    (s' : RW.State σ) (hrun : RW.exec (RW.start x0 prog) sched = some s')
    (i j : Nat) (ti tj : RW.TS σ) (hij : i ≠ j) (hi : s'.ts[i]? = some ti) (hj : s'.ts[j]? = some tj)
    (hw : ti.isWriting = true) : tj.isIdle = true :=
  (RW.inv_exec (RW.inv_start x0 prog) hrun).excl i j ti tj hij hi hj hw

/-- **sync.RWMutex: reads see whole values, writes serialise.**  Write sections are sequences of
atomic updates (not atomic as a whole); reads hold only the read lock.  For every program and
schedule, stopped anywhere: every value a reader has seen is the value after some PREFIX of the
write sections in lock-acquisition order, each run completely (never a half-applied write); and
once all threads have finished the variable holds the value of all write sections run one after
the other in that order. -/
theorem rwlock_reads_see_whole_values {σ : Type} (x0 : σ) (prog : List (List (RW.Op σ)))
    (sched : List Nat) (s' : RW.State σ) (hrun : RW.exec (RW.start x0 prog) sched = some s') :
    (∀ e ∈ s'.obs, ∃ k, k ≤ s'.wlog.length ∧ e.2 = RW.runWrites (s'.wlog.reverse.take k) x0) ∧
    (s'.terminated = true → s'.val = RW.runWrites s'.wlog.reverse x0) := by
  have hinv := RW.inv_exec (RW.inv_start x0 prog) hrun
  refine ⟨hinv.reads, fun hterm => ?_⟩
  have := hinv.value
  rw [RW.pend_terminated hterm] at this
  simpa [RW.applyAll] using this

/-- two writers adding 1 twice (non-atomically) and two readers -/
def rwProg : List (List (RW.Op Nat)) :=
  [[.write [(· + 1), (· + 1)]], [.read], [.write [(· + 1), (· + 1)], .read], [.read]]

-- the readers overlap with each other (1 and 3 hold the read lock together) and see 2, never 1 or 3
example : (RW.exec (RW.start 0 rwProg) [0, 0, 0, 0, 1, 3, 1, 3, 3, 1, 2, 2, 2, 2, 2, 2, 2]).map
    (fun s => (s.terminated, s.val, s.obs.map (·.2))) = some (true, 4, [4, 2, 2]) := by decide

-- a reader cannot get in while a write is half done, nor a writer while a reader holds the lock
example : (RW.exec (RW.start 0 rwProg) [0, 0, 1]).isNone = true ∧
    (RW.exec (RW.start 0 rwProg) [1, 0]).isNone = true := by decide

/-- a directory in which `profile001` exists with content 7 -/
def oneFile : FS.Dir := fun n => if n = 1 then some 7 else none

/-- Without `O_EXCL` (the open succeeds on an existing name) two concurrent creators both return
`profile001` and the existing file is overwritten. -/
theorem nonexcl_create_collides :
    (FS.exec false 10000 (fun i => 100 + i) (FS.start oneFile 2) [0, 1]).map
        (fun s => (s.cs, s.dir 1)) = some ([.got 1, .got 1], some 101) := by decide

/-! ## non-vacuity of the hypotheses -/

/-- two counters, each guarded by its own mutex, incremented non-atomically (two actions) -/
def incr (v : Nat) : Section Nat := ⟨[v], [⟨v, fun x => x + 1⟩, ⟨v, fun x => x + 1⟩]⟩
def counters : List (Thread Nat) := [[incr 0], [incr 1], [incr 0, incr 1]]

example : Disciplined (fun v => v) counters ∧ SingleLock counters := by
  refine ⟨?_, ?_⟩
  · intro t ht s hs
    simp [counters] at ht
    rcases ht with rfl | rfl | rfl <;> simp at hs
    · subst hs; exact ⟨0, rfl, by simp [incr]⟩
    · subst hs; exact ⟨1, rfl, by simp [incr]⟩
    · rcases hs with rfl | rfl
      · exact ⟨0, rfl, by simp [incr]⟩
      · exact ⟨1, rfl, by simp [incr]⟩
  · intro t ht s hs
    simp [counters] at ht
    rcases ht with rfl | rfl | rfl <;> simp at hs
    · subst hs; simp [incr]
    · subst hs; simp [incr]
    · rcases hs with rfl | rfl <;> simp [incr]

-- a schedule that interleaves the bodies of threads 0 and 1 terminates with the sequential result
example : (exec (initial counters fun _ => 0) [0, 1, 0, 1, 1, 0, 0, 2, 1, 2, 2, 2, 2, 2, 2, 2]).map
    (fun r => (r.1.terminated, r.1.mem 0, r.1.mem 1, r.2.map (·.1))) = some (true, 4, 4, [0, 1, 2, 2]) := by
  decide

-- a step of a thread that waits for a held mutex is not a schedule
example : (exec (initial counters fun _ => 0) [0, 2]).isNone = true := by decide

-- once: three goroutines, four calls, counting initialiser: the counter ends at exactly 1
example : (exec (initial (onceProg 0 [[(· + 1)], [(· + 1), (· + 1)], [(· + 1)]]) fun _ => (false, 0))
    [2, 2, 2, 0, 0, 0, 1, 1, 1, 1, 1, 1]).map (fun r => (r.1.terminated, r.1.mem 0))
    = some (true, (true, 1)) := by decide

-- exclusive create: 3 creators, indices 1 and 3 taken: they end with 5, 2, 4
example : (FS.exec true 10000 id (FS.start (fun n => if n = 1 ∨ n = 3 then some 9 else none) 3)
    [0, 1, 2, 1, 0, 2, 2, 2, 0, 0, 0]).map (fun s => s.cs) = some [.got 5, .got 2, .got 4] := by decide

/-- both threads nest mutex 1 inside mutex 0 (the same order): a lock hierarchy -/
def nestedOrdered : List (Thread Nat) :=
  [[⟨[0, 1], [⟨0, fun x => x + 1⟩]⟩], [⟨[0, 1], [⟨0, fun x => x * 2⟩]⟩]]

example : OrderedLocks (fun m => m) nestedOrdered := by
  intro t ht s hs
  simp [nestedOrdered] at ht
  rcases ht with rfl | rfl <;> simp at hs <;> subst hs <;> simp

-- … and it runs to completion (thread 1 waits for thread 0)
example : (exec (initial nestedOrdered fun _ => 3) [0, 0, 0, 0, 1, 1, 1, 1]).map
    (fun r => (r.1.terminated, r.1.mem 0)) = some (true, 8) := by decide

/-- three goroutines, goroutine `i` writes only slot `i`, no locks at all -/
def slots : List (Thread Nat) :=
  [[⟨[], [⟨0, fun _ => 10⟩]⟩], [⟨[], [⟨1, fun _ => 11⟩, ⟨1, fun x => x + 1⟩]⟩], [⟨[], [⟨2, fun _ => 12⟩]⟩]]

example : ∀ (i : Nat) (t : Thread Nat), slots[i]? = some t → ∀ s ∈ t, ∀ a ∈ s.body, a.var = i := by
  intro i t hi s hs a ha
  match i with
  | 0 => simp [slots] at hi; subst hi; simp at hs; subst hs; simp at ha; subst ha; rfl
  | 1 => simp [slots] at hi; subst hi; simp at hs; subst hs; simp at ha; rcases ha with rfl | rfl <;> rfl
  | 2 => simp [slots] at hi; subst hi; simp at hs; subst hs; simp at ha; subst ha; rfl
  | n + 3 => simp [slots] at hi

example : (exec (initial slots fun _ => 0) [1, 0, 2, 1, 0, 2, 1, 2, 0, 1]).map
    (fun r => (r.1.terminated, r.1.mem 0, r.1.mem 1, r.1.mem 2, r.1.mem 3)) = some (true, 10, 12, 12, 0) := by
  decide
/-! ## per-run obligations over the regenerated lock facts -/

open PV.Gen.LockFacts in
/-- Every syntactic access site of every guarded variable in the current source is dominated by
the variable's guard (mutex held / inside or after the `Once`), or the object is still
thread-local (fresh, under construction, package initialisation), or it is a read in `Close`;
a site that holds only the READ lock of a `sync.RWMutex` is accepted for reads and rejected for
writes; and every guarded variable is in fact accessed under its guard somewhere. -/
theorem all_sites_guarded : allSitesOk guards sites = true ∧ allGuardsUsed guards sites = true := by
  decide +kernel

open PV.Gen.LockFacts in
/-- Wherever a function of profile/, internal/driver/, internal/binutils/ acquires a mutex or enters a
`Once` while holding another one (directly, through callees, or across these packages), the inner
guard has a strictly higher rank in the regenerated rank table: the nesting relation is acyclic — the
hypothesis `OrderedLocks` of `no_deadlock_ordered_locks`.  (On the pinned tree plus fixes there is
one nesting: `editSettings` holds `settingsMu` and reads the option store under `currentMu`.) -/
theorem lock_order_acyclic : lockOrderOk lockRank nestedEdges = true := by decide

open PV.Gen.LockFacts in
/-- No function leaves an explicit `Lock … Unlock` region early with the mutex still held (a
`return` there is fine only after an `Unlock` in the same branch).  Other uses of sync primitives
that have none of the recognised shapes are listed in `looseSync` and simply guard nothing. -/
theorem no_lock_leak : noLeak looseSync = true := by decide

open PV.Gen.LockFacts in
/-- No read-modify-write of a mutex-guarded package variable is split over two critical sections
(read the value under the lock or through a getter, write a value computed from it back under the
lock again or through a setter): `lock_discipline_serialisable` makes each SECTION atomic, so an
update that must not be lost has to be one section.  (Start-up code is exempt, see `startupFns`.) -/
theorem no_split_rmw : noSplitRmw splitRMW = true := by decide

open PV.Gen.LockFacts in
/-- Every `os.Rename` — which replaces its destination — runs under a mutex.  The name that
`excl_create_distinct_names` makes exclusive is the name passed to `O_CREATE|O_EXCL`; a file renamed
afterwards to a name that was never reserved can replace another goroutine's (or an earlier) file. -/
theorem rename_targets_serialised : renamesOk renames = true := by decide

open PV.Gen.LockFacts in
/-- Every assignment to a package-level variable made inside a function is covered by a mutex, is in
the body of a `sync.Once` (the hypothesis of `once_single_init`: lazy initialisation goes through
`Do`) or in `init`, or is one of the start-up writes. -/
theorem globals_written_under_barrier : globalsOk globalWrites = true := by decide

open PV.Gen.LockFacts in
/-- newTempFile opens with `O_CREATE|O_EXCL` and retries on EEXIST: the step relation of
`excl_create_distinct_names` (`excl = true`). -/
theorem tempfile_excl : tempExcl tempFile = true := by decide

open PV.Gen.LockFacts in
/-- Every goroutine pprof starts in these packages is joined — `wg.Wait()` after `defer wg.Done()`,
`<-done` after `defer close(done)`, or one channel receive per spawned goroutine — before anything
it writes (its own variables, its own slot of the slot slice) is used by the spawner or a sibling;
or it is the detached `go openBrowser`.  (A body run inline on the spawning goroutine is not a
goroutine and needs no join.) -/
theorem goroutines_joined : goSites.all goOk = true := by decide

open PV.Gen.LockFacts in
/-- The copy-on-write tool configuration `binrep` is written only while the object is fresh
(never after it was published through `Binutils.rep`). -/
theorem immutable_written_only_fresh : immutableOk immutableWrites = true := by decide

end PV.Props.C20
