import PprofVerif.Lemmas.SymWrap
/-!
# C12 — Symbolization only adds names; measurements are untouched

Property theorems only (helper lemmas: `Lemmas/Sym{Basic,Frame,Valid,Final,Wrap}.lean`).  All theorems
are about `Sym.symbolize` (`Model/Symbolize.lean`), the executable model of
`Symbolizer.Symbolize` = mode parsing; `doLocalSymbolize`; `symbolz.Symbolize`; `Demangle`, and hold
for **every** profile, mode string, source table and for **every** behaviour of the plug-ins: the
object-file tool and the symbolz POST are arbitrary state machines (`ObjTool σ`, `Symz τ`, any
`σ τ`), `url.Parse`, the response-line parser and `demangle.Filter` are arbitrary functions.
The correspondence check (harness/c12.go) ties the model to the Go code on every run.
The model is the repaired behaviour (fixes/C12-*.patch).
-/
namespace PV.Props.C12
open PV PV.Sym

variable {σ τ : Type}

/-- **Frame condition.** Whatever the plug-ins answer: samples (count, order, values, labels,
location-id lists) and all header fields are unchanged; every location keeps id, mapping and
address, every mapping keeps id, start, limit, offset, file and build id, in table order; the
existing functions stay in place with their id, system name, file name and start line. Only lines
(with the folded flag), function names, new functions and the has-symbols flags can differ. -/
theorem symbolize_frame_condition (env : Env σ τ) (mode : Str) (sources : Sources) (p : Profile)
    (s : σ) (t : τ) :
    let q := (symbolize env mode sources p s t).profile
    q.samples = p.samples ∧ q.sampleType = p.sampleType ∧ q.defaultSampleType = p.defaultSampleType ∧
    q.comments = p.comments ∧ q.docURL = p.docURL ∧ q.dropFrames = p.dropFrames ∧
    q.keepFrames = p.keepFrames ∧ q.timeNanos = p.timeNanos ∧ q.durationNanos = p.durationNanos ∧
    q.periodType = p.periodType ∧ q.period = p.period ∧
    q.locations.map (fun l => (l.id, l.mappingID, l.address)) =
      p.locations.map (fun l => (l.id, l.mappingID, l.address)) ∧
    q.mappings.map (fun m => (m.id, m.start, m.limit, m.offset, m.file, m.buildID)) =
      p.mappings.map (fun m => (m.id, m.start, m.limit, m.offset, m.file, m.buildID)) ∧
    ∃ extra, q.functions.map (fun f => (f.id, f.systemName, f.filename, f.startLine)) =
      p.functions.map (fun f => (f.id, f.systemName, f.filename, f.startLine)) ++ extra := by
  intro q
  cases hm : parseMode mode with
  | none =>
    have h := (symbolize_none env mode sources p s t hm).1
    have hq : q = p := h
    rw [hq]
    exact ⟨rfl, rfl, rfl, rfl, rfl, rfl, rfl, rfl, rfl, rfl, rfl, rfl, rfl, [], by simp⟩
  | some o =>
    have h := (symbolize_some env mode sources p s t o hm).1
    have hq : q = _ := h
    rw [hq]
    have hr := symbolizeTables_rel env o sources p s t
    refine ⟨rfl, rfl, rfl, rfl, rfl, rfl, rfl, rfl, rfl, rfl, rfl, ?_, ?_, ?_⟩
    · exact (hr.2.map_eq (f := fun l => (l.id, l.mappingID, l.address))
        (g := fun l => (l.id, l.mappingID, l.address))
        (fun a b r => by simp [r.1, r.2.1, r.2.2.1])).symm
    · exact (hr.1.map_eq (f := fun m => (m.id, m.start, m.limit, m.offset, m.file, m.buildID))
        (g := fun m => (m.id, m.start, m.limit, m.offset, m.file, m.buildID))
        (fun a b r => by
          obtain ⟨⟨h1, h2, h3, h4, h5, h6, _⟩, _⟩ := r
          simp [h1, h2, h3, h4, h5, h6])).symm
    · -- functions: the table is extended, then demangled (names only)
      obtain ⟨extra, he, _⟩ := symbolizeTables_spec_ext env o sources p s t
      simp only [finalFunctions]
      split
      · exact ⟨extra.map (fun f => (f.id, f.systemName, f.filename, f.startLine)), by rw [he]; simp⟩
      · refine ⟨extra.map (fun f => (f.id, f.systemName, f.filename, f.startLine)), ?_⟩
        rw [he]
        simp only [demangle, List.map_map, List.map_append]
        congr 1 <;> (apply List.map_congr_left; intro f _
                     obtain ⟨a, b, c, d⟩ := demangleOne_frame env.filter o.force o.dmode f
                     simp [a, b, c, d])

/-- **Has-symbols flags only go from false to true**, mapping by mapping. -/
theorem symbolize_flags_monotone (env : Env σ τ) (mode : Str) (sources : Sources) (p : Profile)
    (s : σ) (t : τ) (i : Nat) (m : Mapping) (hm : p.mappings[i]? = some m) :
    ∃ m', (symbolize env mode sources p s t).profile.mappings[i]? = some m' ∧
      (m.hasFunctions = true → m'.hasFunctions = true) ∧ (m.hasFilenames = true → m'.hasFilenames = true) ∧
      (m.hasLineNumbers = true → m'.hasLineNumbers = true) ∧
      (m.hasInlineFrames = true → m'.hasInlineFrames = true) := by
  cases hp : parseMode mode with
  | none =>
    rw [(symbolize_none env mode sources p s t hp).1]
    exact ⟨m, hm, id, id, id, id⟩
  | some o =>
    rw [(symbolize_some env mode sources p s t o hp).1]
    obtain ⟨m', hm', r⟩ := (symbolizeTables_rel env o sources p s t).1.get? i hm
    obtain ⟨⟨_, _, _, _, _, _, f1, f2, f3, f4⟩, _⟩ := r
    exact ⟨m', hm', f1, f2, f3, f4⟩

/-- **The result is a valid profile with unique ids** (the re-check of fetch.go:117 cannot fail),
provided the input is valid and the function-id counter did not overflow uint64 during the run
(`wrapped` is the model's ghost flag for `maxFunctionID++` wrapping to 0; see
`symbolize_not_wrapped` for a sufficient condition on the input). -/
theorem symbolize_valid (env : Env σ τ) (mode : Str) (sources : Sources) (p : Profile) (s : σ) (t : τ)
    (hv : p.Valid) (hw : (symbolize env mode sources p s t).wrapped = false) :
    (symbolize env mode sources p s t).profile.Valid := by
  unfold Profile.Valid at hv ⊢
  cases hp : parseMode mode with
  | none => rw [(symbolize_none env mode sources p s t hp).1]; exact hv
  | some o =>
    have hs := symbolize_some env mode sources p s t o hp
    rw [hs.2] at hw
    rw [hs.1]
    have hr := symbolizeTables_rel env o sources p s t
    have hsp := symbolizeTables_spec env o sources p s t (good_of_valid p hv) (locsIn_of_valid p hv)
    have hgood : Good (symbolizeTables env o sources p s t).2.1.functions := hsp.1 hw
    apply validB_replace p _ _ _ hv
    · exact (hr.1.map_eq (f := fun m => m.id) (g := fun m => m.id) (fun a b r => r.1.1.symm)).symm
    · exact (hr.2.map_eq (f := fun l => l.id) (g := fun l => l.id) (fun a b r => r.1.symm)).symm
    · intro l' hl'
      obtain ⟨l, hl, r⟩ := hr.2.mem_right hl'
      exact ⟨l, hl, r.2.1⟩
    · unfold finalFunctions
      split
      · exact hgood
      · exact good_demangle _ _ _ _ hgood
    · unfold finalFunctions
      split
      · exact hsp.2.2
      · exact locsIn_demangle _ _ _ _ _ hsp.2.2

/-- The hypothesis of `symbolize_valid` holds whenever the largest function id of the input plus
the number of functions added by the run fits a uint64 (the repaired code allocates above the
largest id in use; ids next to 2⁶⁴ are the one case it does not handle). -/
theorem symbolize_not_wrapped (env : Env σ τ) (mode : Str) (sources : Sources) (p : Profile) (s : σ) (t : τ)
    (h : maxFuncID p.functions +
      ((symbolize env mode sources p s t).profile.functions.length - p.functions.length) < two64) :
    (symbolize env mode sources p s t).wrapped = false := by
  cases hp : parseMode mode with
  | none => exact (symbolize_none env mode sources p s t hp).2
  | some o =>
    have hs := symbolize_some env mode sources p s t o hp
    rw [hs.2]
    rw [hs.1] at h
    simp only [finalFunctions_length] at h
    exact (symbolizeTables_winv env o sources p s t).2.2.2 h

/-- **Mappings that already carry function names are left alone unless force is requested**: when
the mode does not request force, such a mapping is returned unchanged (flags included), and every
location of it is returned unchanged (same lines, same folded flag). "Requests force" is
`(parseMode mode).force`: a `force` option or `demangle=full|none|templates`. -/
theorem symbolize_respects_has_symbols (env : Env σ τ) (mode : Str) (sources : Sources) (p : Profile)
    (s : σ) (t : τ) (o : Opts) (hp : parseMode mode = some o) (hforce : o.force = false) :
    let q := (symbolize env mode sources p s t).profile
    (∀ (i : Nat) (m : Mapping), p.mappings[i]? = some m → m.hasFunctions = true → q.mappings[i]? = some m) ∧
    (∀ (i : Nat) (l : Location), p.locations[i]? = some l →
        (∀ m ∈ p.mappings, m.id = l.mappingID → m.hasFunctions = true) → q.locations[i]? = some l) := by
  intro q
  have hq : q = _ := (symbolize_some env mode sources p s t o hp).1
  rw [hq]
  have hr := symbolizeTables_rel env o sources p s t
  constructor
  · intro i m hm hf
    obtain ⟨m', hm', r⟩ := hr.1.get? i hm
    have : m' = m := r.2 (fun ht => ht ⟨hforce, hf⟩)
    rw [← this]; exact hm'
  · intro i l hl hall
    obtain ⟨l', hl', r⟩ := hr.2.get? i hl
    have : l' = l := r.2.2.2 (fun ⟨m, hm, e, ht⟩ => ht ⟨hforce, hall m hm e⟩)
    rw [← this]; exact hl'

/-- When the mode disables the remote step (`local`, `fastlocal`), any of HasFunctions,
HasFilenames, HasLineNumbers protects a mapping and its locations (symbolizer.go:159). -/
theorem symbolize_respects_has_symbols_local (env : Env σ τ) (mode : Str) (sources : Sources)
    (p : Profile) (s : σ) (t : τ) (o : Opts) (hp : parseMode mode = some o) (hforce : o.force = false)
    (hremote : o.remote = false) :
    let q := (symbolize env mode sources p s t).profile
    let carries := fun m : Mapping => m.hasFunctions = true ∨ m.hasFilenames = true ∨ m.hasLineNumbers = true
    (∀ (i : Nat) (m : Mapping), p.mappings[i]? = some m → carries m → q.mappings[i]? = some m) ∧
    (∀ (i : Nat) (l : Location), p.locations[i]? = some l →
        (∀ m ∈ p.mappings, m.id = l.mappingID → carries m) → q.locations[i]? = some l) := by
  intro q carries
  have hq : q = _ := (symbolize_some env mode sources p s t o hp).1
  rw [hq]
  have hr := symbolizeTables_rel_local env o sources p s t hremote
  constructor
  · intro i m hm hf
    obtain ⟨m', hm', r⟩ := hr.1.get? i hm
    have : m' = m := r.2 (fun ht => ht ⟨hforce, hf⟩)
    rw [← this]; exact hm'
  · intro i l hl hall
    obtain ⟨l', hl', r⟩ := hr.2.get? i hl
    have : l' = l := r.2.2.2 (fun ⟨m, hm, e, ht⟩ => ht ⟨hforce, hall m hm e⟩)
    rw [← this]; exact hl'

/-- **Driver level** (`fetchProfiles`: Symbolize, RemoveUninteresting, unsourceMappings): for a
profile without a drop_frames expression the fetched-and-symbolized profile has exactly the
samples of the input (count, order, values, labels, location ids), every location keeps id,
mapping and address, every mapping keeps id, start, limit and offset — nothing between fetching
and reporting sums, drops or renumbers measurements, whatever the plug-ins answer. (With a
drop_frames expression frames are pruned by name, which is the documented purpose of names.) -/
theorem fetch_symbolize_measurements_untouched (env : Env σ τ) (prune : Profile → Profile)
    (isAbsURL : Str → Bool) (mode : Str) (sources : Sources) (p : Profile) (s : σ) (t : τ) (q : Profile)
    (hd : p.dropFrames = []) (h : fetchStep env prune isAbsURL mode sources p s t = some q) :
    q.samples = p.samples ∧ q.sampleType = p.sampleType ∧
    q.locations.map (fun l => (l.id, l.mappingID, l.address)) =
      p.locations.map (fun l => (l.id, l.mappingID, l.address)) ∧
    q.mappings.map (fun m => (m.id, m.start, m.limit, m.offset)) =
      p.mappings.map (fun m => (m.id, m.start, m.limit, m.offset)) := by
  have hf := symbolize_frame_condition env mode sources p s t
  simp only [] at hf
  obtain ⟨h1, h2, _, _, _, h6, _, _, _, _, _, h12, h13, _⟩ := hf
  unfold fetchStep at h
  simp only [] at h
  split at h
  · cases h
  · rw [if_pos (by rw [h6]; exact hd)] at h
    simp only [Option.some.injEq] at h
    subst h
    refine ⟨h1, h2, h12, ?_⟩
    simp only [unsourceMappings, List.map_map]
    have : p.mappings.map (fun m => (m.id, m.start, m.limit, m.offset)) =
        ((symbolize env mode sources p s t).profile.mappings.map
          (fun m => (m.id, m.start, m.limit, m.offset, m.file, m.buildID))).map
          (fun x => (x.1, x.2.1, x.2.2.1, x.2.2.2.1)) := by
      rw [h13, List.map_map]; rfl
    rw [this, List.map_map]
    apply List.map_congr_left
    intro m _
    simp only [Function.comp]
    split <;> rfl

/-- Mode `none`/`no` returns the profile as it is. -/
theorem symbolize_none_identity (env : Env σ τ) (mode : Str) (sources : Sources) (p : Profile)
    (s : σ) (t : τ) (h : parseMode mode = none) : (symbolize env mode sources p s t).profile = p :=
  (symbolize_none env mode sources p s t h).1

/-- **`adjust`** (symbolz.go:184) computes `addr + offset` exactly and signals overflow exactly when
the sum leaves the uint64 range — for every uint64 address and int64 offset, `MinInt64` included. -/
theorem adjust_spec (addr : Nat) (off : Int) (ha : addr < two64)
    (hlo : -(two63 : Int) ≤ off) (hhi : off < (two63 : Int)) :
    adjust addr off =
      if 0 ≤ (addr : Int) + off ∧ (addr : Int) + off < (two64 : Int)
      then some ((addr : Int) + off).toNat else none :=
  adjust_eq addr off ha hlo hhi

/-- **`removeMatching`** only deletes bytes (the result is a subsequence of the name), is the
identity on names without brackets, and drops a bracket group without nested brackets together
with its brackets, continuing after it. -/
theorem removeMatching_spec (a b : UInt8) (hab : a ≠ b) :
    (∀ s, (removeMatching s a b).Sublist s) ∧
    (∀ s, a ∉ s → b ∉ s → removeMatching s a b = s) ∧
    (∀ pre mid post, a ∉ pre → b ∉ pre → a ∉ mid → b ∉ mid →
      removeMatching (pre ++ a :: (mid ++ b :: post)) a b = pre ++ removeMatching post a b) :=
  ⟨fun s => removeMatching_sublist s a b, fun s ha hb => removeMatching_noop s a b ha hb,
   fun pre mid post h1 h2 h3 h4 => removeMatching_group pre mid post a b hab h1 h2 h3 h4⟩

/-- **Demangling never replaces a non-empty name by an empty one**, assuming `demangle.Filter`
returns a non-empty string for a non-empty argument: for every function, force flag and
demangler mode; id, system name, file name and start line are unchanged. -/
theorem demangle_nonempty (filter : List DOpt → Str → Str)
    (hf : ∀ o s, s ≠ [] → filter o s ≠ []) (force : Bool) (dm : DMode) (fs : List Function)
    (i : Nat) (f : Function) (hi : fs[i]? = some f) (hn : f.name ≠ []) :
    ∃ g, (demangle filter force dm fs)[i]? = some g ∧ g.name ≠ [] ∧ g.id = f.id ∧
      g.systemName = f.systemName ∧ g.filename = f.filename ∧ g.startLine = f.startLine := by
  refine ⟨demangleOne filter force dm f, ?_, demangleOne_name_ne_nil filter hf force dm f hn,
    demangleOne_frame filter force dm f⟩
  simp [demangle, hi]

/-- … and through the whole of `Symbolize`: an existing function with a non-empty name keeps a
non-empty name, and a function created by symbolization (its name is the non-empty name the
plug-in reported) does not end up with an empty name. -/
theorem symbolize_names_nonempty (env : Env σ τ) (hf : ∀ o s, s ≠ [] → env.filter o s ≠ [])
    (mode : Str) (sources : Sources) (p : Profile) (s : σ) (t : τ) :
    let q := (symbolize env mode sources p s t).profile
    (∀ (i : Nat) (f : Function), p.functions[i]? = some f → f.name ≠ [] →
        ∃ g : Function, q.functions[i]? = some g ∧ g.name ≠ []) ∧
    (∀ (i : Nat) (g : Function), p.functions.length ≤ i → q.functions[i]? = some g →
        g.systemName ≠ [] → g.name ≠ []) := by
  intro q
  cases hm : parseMode mode with
  | none =>
    have hq : q = p := (symbolize_none env mode sources p s t hm).1
    rw [hq]
    refine ⟨fun i f h hn => ⟨f, h, hn⟩, ?_⟩
    intro i g hi hg
    have := List.getElem?_eq_none hi
    rw [this] at hg; cases hg
  | some o =>
    have hq : q = _ := (symbolize_some env mode sources p s t o hm).1
    rw [hq]
    obtain ⟨extra, he, hex⟩ := symbolizeTables_spec_ext env o sources p s t
    simp only [finalFunctions]
    constructor
    · intro i f hi hn
      have hi' : (p.functions ++ extra)[i]? = some f := by
        rw [List.getElem?_append_left (by
          have := List.getElem?_eq_some_iff.mp hi; exact this.1)]; exact hi
      split
      · exact ⟨f, by rw [he]; exact hi', hn⟩
      · obtain ⟨g, hg, hgn, _⟩ := demangle_nonempty env.filter hf o.force o.dmode
          (symbolizeTables env o sources p s t).2.1.functions i f (by rw [he]; exact hi') hn
        exact ⟨g, hg, hgn⟩
    · intro i g hi hg hsys
      split at hg
      · rw [he, List.getElem?_append_right hi] at hg
        have hmem : g ∈ extra := List.mem_of_getElem? hg
        rw [hex g hmem]; exact hsys
      · simp only [demangle, List.getElem?_map] at hg
        cases hx : (symbolizeTables env o sources p s t).2.1.functions[i]? with
        | none => rw [hx] at hg; simp at hg
        | some f0 =>
          rw [hx] at hg
          simp only [Option.map_some, Option.some.injEq] at hg
          rw [he, List.getElem?_append_right hi] at hx
          have hmem : f0 ∈ extra := List.mem_of_getElem? hx
          have hfr := demangleOne_frame env.filter o.force o.dmode f0
          rw [← hg] at hsys ⊢
          rw [hfr.2.1] at hsys
          exact demangleOne_name_ne_nil env.filter hf o.force o.dmode f0 (by rw [hex f0 hmem]; exact hsys)

/-! ### non-vacuity and the two defects of the pinned tree -/

/-- an object tool that opens every file and reports one frame `<unknown>` for every address. -/
def exTool : ObjTool Unit where
  openFile _ _ := ((), .ok ())
  buildID _ := ((), [])
  sourceLine _ a := ((), .ok [{ func := b!"<unknown>", file := b!"a.c", line := Int.ofNat a, column := 0, startLine := 1 }])
  close _ := ()

def exEnv : Env Unit Unit where
  tool := exTool
  isSourceURL _ := false
  symz := { symbolzURL := fun _ => [], post := fun _ _ _ => ((), .err "none"), parseLine := fun _ => none }
  filter _ s := s

/-- a valid profile with a sparse function id (5), a symbolized mapping (1) and an unsymbolized one (2). -/
def exProfile : Profile :=
  { (default : Profile) with
    sampleType := [{ typ := b!"cpu", unit := b!"ns" }]
    samples := [{ locationIDs := [1, 2], values := [7], label := [(b!"k", [b!"v"])], numLabel := [], numUnit := [] }]
    mappings := [{ id := 1, start := 4096, limit := 8192, offset := 0, file := b!"/bin/a", buildID := [],
                   hasFunctions := true, hasFilenames := false, hasLineNumbers := false, hasInlineFrames := false },
                 { id := 2, start := 8192, limit := 12288, offset := 0, file := b!"/lib/b.so", buildID := [],
                   hasFunctions := false, hasFilenames := false, hasLineNumbers := false, hasInlineFrames := false }]
    locations := [{ id := 1, mappingID := 1, address := 4100, lines := [{ functionID := 5, line := 3, column := 0 }], isFolded := false },
                  { id := 2, mappingID := 2, address := 8200, lines := [], isFolded := false }]
    functions := [{ id := 5, name := b!"main", systemName := b!"main", filename := b!"m.c", startLine := 1 }] }

-- hypotheses of `symbolize_valid` / `symbolize_respects_has_symbols` / `symbolize_names_nonempty` hold for
-- a run that really symbolizes: mapping 2 gets a new function (id 6, above the sparse id 5) whose
-- name `<unknown>` survives demangling; mapping 1 and its location are untouched
example :
    exProfile.Valid ∧ (symbolize exEnv b!"local" [] exProfile () ()).wrapped = false ∧
    (parseMode b!"local").map (fun o => (o.force, o.remote)) = some (false, false) ∧
    (symbolize exEnv b!"local" [] exProfile () ()).profile.Valid ∧
    (symbolize exEnv b!"local" [] exProfile () ()).profile.functions.map (fun f => (f.id, f.name)) =
      [(5, b!"main"), (6, b!"<unknown>")] ∧
    (symbolize exEnv b!"local" [] exProfile () ()).profile.locations.map (fun l => l.lines.map (·.functionID)) =
      [[5], [6]] ∧
    (symbolize exEnv b!"local" [] exProfile () ()).profile.mappings.map (·.hasFunctions) = [true, true] := by
  decide

-- `adjust_spec`: the extreme arguments of symbolz_test.go's table
example : adjust 18446744073709551615 1 = none ∧ adjust 9223372036854775808 (-9223372036854775808) = some 0 ∧
    adjust 0 (-1) = none ∧ adjust 9223372036854775808 9223372036854775807 = some 18446744073709551615 := by
  decide

-- defect #11 of the pinned tree: stripping can delete the whole name; the repaired heuristic keeps it
example : removeMatching b!"<unknown>" 60 62 = [] ∧
    heuristicName (dmodeOptions .dflt) b!"<unknown>" = b!"<unknown>" := by decide

-- `removeMatching_spec` instance: "foo::baz<double>(double)" → "foo::baz<double>"
example : removeMatching b!"foo::baz<double>(double)" 40 41 = b!"foo::baz<double>" := by decide

-- mode parsing: which modes request force (hypothesis of `symbolize_respects_has_symbols`)
example : (parseMode b!"local").map (·.force) = some false ∧
    (parseMode b!"remote:FORCE").map (·.force) = some true ∧
    (parseMode b!"demangle=templates").map (·.force) = some true ∧
    (parseMode b!"fastlocal").map (·.remote) = some false ∧ parseMode b!"local:none" = none := by decide

-- defect #10 of the pinned tree: with an existing function id 5 and `len+1` allocation five new
-- functions would reach id 5 again; the repaired allocation continues above the largest id
example : ((FTab.rescan { functions := [{ id := 5, name := [], systemName := [], filename := [], startLine := 0 }],
                          top := 0, wrapped := false }).alloc b!"f" [] 0).2 = 6 := by decide

-- `fetch_symbolize_measurements_untouched`: its hypotheses hold for a fetch that really symbolizes
example : exProfile.dropFrames = [] ∧
    ((fetchStep exEnv id (fun _ => false) b!"local" [] exProfile () ()).map
      (fun q => (q.samples.length, q.functions.length))) = some (1, 2) := by decide

/-! #### mapping file names through the fetch path — known finding
`C12/driver/tables/url-like-file-without-buildid-cleared`

Full statement (what "only adds names" asks for; FALSE of the code as it is, see the witness):

    fetchStep … p = some q → p.dropFrames = [] →
      q.mappings.map (fun m => (m.file, m.buildID)) = p.mappings.map (fun m => (m.file, m.buildID))
      -- up to the documented substitution: a mapping with neither build id nor file that
      -- collectMappingSources filled with the source URL gets no file back

`unsourceMappings` clears the file of EVERY mapping without build id whose file parses as an
absolute URL; it cannot tell the source URL it is meant to remove from a genuine name such as
`C:\svc\server.exe`, `jar:file:/a.jar!/x.so` or `x:y`. Proved: the statement under the hypothesis
that excludes such mappings; and a witness that it fails without it. -/

theorem fetch_keeps_mapping_files_partial (env : Env σ τ) (prune : Profile → Profile)
    (isAbsURL : Str → Bool) (mode : Str) (sources : Sources) (p : Profile) (s : σ) (t : τ) (q : Profile)
    (hd : p.dropFrames = [])
    (hx : ∀ m ∈ p.mappings, m.buildID = [] → isAbsURL m.file = false)
    (h : fetchStep env prune isAbsURL mode sources p s t = some q) :
    q.mappings.map (fun m => (m.file, m.buildID)) = p.mappings.map (fun m => (m.file, m.buildID)) := by
  have hf := symbolize_frame_condition env mode sources p s t
  simp only [] at hf
  obtain ⟨_, _, _, _, _, h6, _, _, _, _, _, _, h13, _⟩ := hf
  unfold fetchStep at h
  simp only [] at h
  split at h
  · cases h
  · rw [if_pos (by rw [h6]; exact hd)] at h
    simp only [Option.some.injEq] at h
    subst h
    have key : ∀ m' ∈ (symbolize env mode sources p s t).profile.mappings,
        m'.buildID = [] → isAbsURL m'.file = false := by
      intro m' hm' hb
      have hmem : (m'.id, m'.start, m'.limit, m'.offset, m'.file, m'.buildID) ∈
          (symbolize env mode sources p s t).profile.mappings.map
            (fun m => (m.id, m.start, m.limit, m.offset, m.file, m.buildID)) :=
        List.mem_map.mpr ⟨m', hm', rfl⟩
      rw [h13] at hmem
      obtain ⟨m, hm, e⟩ := List.mem_map.mp hmem
      simp only [Prod.mk.injEq] at e
      obtain ⟨_, _, _, _, e5, e6⟩ := e
      rw [← e5]
      exact hx m hm (by rw [e6]; exact hb)
    have hfb : p.mappings.map (fun m => (m.file, m.buildID)) =
        ((symbolize env mode sources p s t).profile.mappings.map
          (fun m => (m.id, m.start, m.limit, m.offset, m.file, m.buildID))).map
          (fun x => (x.2.2.2.2.1, x.2.2.2.2.2)) := by
      rw [h13, List.map_map]; rfl
    rw [hfb]
    simp only [unsourceMappings, List.map_map]
    apply List.map_congr_left
    intro m' hm'
    simp only [Function.comp]
    split
    · rename_i hc
      have := key m' hm' hc.1
      rw [this] at hc
      exact absurd hc.2 (by simp)
    · rfl

/-- the full statement fails: a valid profile whose only mapping has no build id and the file
name `x:y` (an absolute URL for `url.Parse`) comes back without file name — with mode `none`, i.e.
without any symbolization at all. -/
theorem fetch_clears_url_like_file_witness :
    ∃ (p q : Profile), p.Valid ∧ p.dropFrames = [] ∧
      fetchStep (σ := Unit) (τ := Unit)
        { tool := { openFile := fun _ _ => ((), .err "none"), buildID := fun _ => ((), []),
                    sourceLine := fun _ _ => ((), .err "none"), close := fun _ => () },
          isSourceURL := fun _ => false,
          symz := { symbolzURL := fun _ => [], post := fun _ _ _ => ((), .err "none"), parseLine := fun _ => none },
          filter := fun _ s => s }
        id (fun f => f == b!"x:y") b!"none" [] p () () = some q ∧
      p.mappings.map (fun m => (m.file, m.buildID)) = [(b!"x:y", [])] ∧
      q.mappings.map (fun m => (m.file, m.buildID)) = [([], [])] :=
  ⟨{ (default : Profile) with
      mappings := [{ id := 1, start := 4096, limit := 8192, offset := 0, file := b!"x:y", buildID := [],
                     hasFunctions := false, hasFilenames := false, hasLineNumbers := false, hasInlineFrames := false }] },
   { (default : Profile) with
      mappings := [{ id := 1, start := 4096, limit := 8192, offset := 0, file := [], buildID := [],
                     hasFunctions := false, hasFilenames := false, hasLineNumbers := false, hasInlineFrames := false }] },
   by decide⟩

-- hypotheses of `fetch_keeps_mapping_files_partial` are satisfiable by a run that symbolizes
example : exProfile.dropFrames = [] ∧ (∀ m ∈ exProfile.mappings, m.buildID = [] → (fun _ : Str => false) m.file = false) ∧
    ((fetchStep exEnv id (fun _ => false) b!"local" [] exProfile () ()).map
      (fun q => q.mappings.map (·.file))) = some [b!"/bin/a", b!"/lib/b.so"] := by
  refine ⟨by decide, fun _ _ _ => rfl, by decide⟩

end PV.Props.C12
