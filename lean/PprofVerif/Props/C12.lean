import PprofVerif.Model.Symbolize
namespace PV.Props.C12
open PV PV.Sym
end PV.Props.C12
