import PprofVerif.Lemmas.Session
import PprofVerif.Model.Codec
import PprofVerif.Lemmas.ComposeCodec
import PprofVerif.Lemmas.ComposeParse
/-!
# C10 — each interactive command or web request sees the pristine profile

Property theorems only (helper lemmas: `Lemmas/Session.lean`).  All statements are about the
executable model `Model/Session.lean` of `interactive`, `parseCommandLine`, `configure`, `makeReport`,
for EVERY history of lines / requests and for EVERY report generator `E.report`, including generators
that return a mutated profile (the model of "generateReport is allowed to modify p").

What the theorems assume of the code — that the report generator's observable output is a function of
(the profile handed to it, the configuration handed to it, the command) and that nothing else in the
process carries state from one command to the next — is exactly what `harness/c10.go` checks on the
real `pprof` binary and the real web handlers on every run.
-/
namespace PV.Props.C10
open PV PV.Session

variable {π ρ σ μ : Type}

/-- No line — assignment, command with arguments, shortcut, `quit`, malformed input — changes the
pre-serialised profile, the sample-type table or the default type of the session. -/
theorem step_preserves_copier (E : Env π ρ) (s : Session) (line : Str) :
    (step E s line).1.copier = s.copier ∧ (step E s line).1.stypes = s.stypes ∧
    (step E s line).1.dfltType = s.dfltType :=
  step_frame E s line

/-- …and so does every history. -/
theorem history_preserves_copier (E : Env π ρ) (s : Session) (h : List Str) :
    (run E s h).copier = s.copier ∧ (run E s h).stypes = s.stypes ∧ (run E s h).dfltType = s.dfltType :=
  run_frame E h s

/-- **History independence.** After ANY history `h` that left the session running, the events
produced by a report command line `c` are: the report generator applied to a fresh decode of the
ORIGINAL copier bytes, under the per-command configuration that `parseCommandLine` derives from the
option values in effect after `h` and from `c`'s own arguments — `report P₀ (cfgAfter h) (args c)`.
Nothing else of `h` (which commands ran, with which filters, how they mutated their copy) is visible. -/
theorem command_output_history_independent (E : Env π ρ) (s₀ : Session) (h : List Str) (c : Str)
    (alive : (run E s₀ h).done = false) (hc : isReportLine s₀.stypes c = true) :
    (step E (run E s₀ h) c).2 = commandOutput E s₀.copier (cfgAfter E s₀ h) c := by
  have hf := run_frame E h s₀
  have hc' : isReportLine (run E s₀ h).stypes c = true := by rw [hf.2.1]; exact hc
  rw [step_report E (run E s₀ h) c alive hc', hf.1]
  rfl

/-- **The oracle the harness evaluates on the real code.** The events of `c` after `h` equal the events
of `c` in a session that replays only the assignment lines of `h` (the fresh reference session). -/
theorem command_output_equals_assignment_replay (E : Env π ρ) (s₀ : Session) (h : List Str) (c : Str)
    (alive : (run E s₀ h).done = false) :
    (step E (run E s₀ h) c).2 = (step E (run E s₀ (h.filter (isAssignLine s₀.stypes))) c).2 := by
  rw [run_filter_assign E h s₀ alive]

/-- the option values after `h` are those after the assignment lines of `h` alone. -/
theorem cfgAfter_assignments_only (E : Env π ρ) (s₀ : Session) (h : List Str)
    (alive : (run E s₀ h).done = false) :
    cfgAfter E s₀ (h.filter (isAssignLine s₀.stypes)) = cfgAfter E s₀ h := by
  unfold cfgAfter; rw [run_filter_assign E h s₀ alive]

/-- **Command-line arguments do not persist.** A line that is not an assignment — in particular a
command with focus/ignore expressions, a node count, `-cum`, `> file` — leaves every option value
as it was. -/
theorem args_do_not_persist (E : Env π ρ) (s : Session) (line : Str)
    (hl : isAssignLine s.stypes line = false) : (step E s line).1.cfg = s.cfg := by
  rcases step_nonassign E s line hl with h | h <;> rw [h]

/-- …hence the next command's output is what it would have been without the command before it. -/
theorem args_do_not_leak_into_next_command (E : Env π ρ) (s₀ : Session) (h : List Str) (c₁ c₂ : Str)
    (hl : isAssignLine s₀.stypes c₁ = false) (alive : (run E s₀ (h ++ [c₁])).done = false) :
    (step E (run E s₀ (h ++ [c₁])) c₂).2 = (step E (run E s₀ h) c₂).2 := by
  have hst : (run E s₀ h).stypes = s₀.stypes := (run_frame E h s₀).2.1
  rw [run_append] at alive ⊢
  have : run E (run E s₀ h) [c₁] = run E s₀ h :=
    run_nonassign E [c₁] (run E s₀ h) (by intro c hcm; simp at hcm; rw [hcm, hst]; exact hl) alive
  rw [this]

/-- **Assignments persist.** If the line `a` is an accepted assignment (not a shortcut; `assign`
returns the new option record `c'`), then `c'` is the option record in effect after `a` followed by
any number of non-assignment lines — until it is changed by another assignment. -/
theorem assignments_persist (E : Env π ρ) (s : Session) (a : Str) (cs : List Str) (c' : Config)
    (hd : s.done = false)
    (hns : lookupShortcut s.stypes (trimSpace a) = none)
    (ha : isAssignInput (trimSpace a) = true)
    (hok : assign E.floatNorm s (trimSpace (splitEq (trimSpace a)).1) (splitEq (trimSpace a)).2 = .ok c')
    (hcs : ∀ c ∈ cs, isAssignLine s.stypes c = false) :
    cfgAfter E s (a :: cs) = c' := by
  unfold cfgAfter run
  have h1 : step E s a = ({ s with cfg := c' }, []) := by
    unfold step
    rw [expand_nonempty _ _ hns, stepInputs_single E s _ hd, stepInput_assign E s _ ha, hok]
  rw [h1]
  exact run_nonassign_cfg E cs _ hcs

/-- the value an accepted assignment to a plain string option stores: the text after `=`, comment
and surrounding blanks removed; every other option keeps its value. -/
theorem assignment_sets_value (fl : Str → Option Str) (s : Session) (f : FieldD) (rhs : Str) (c' : Config)
    (hf : lookupField f.name = some f) (hk : f.kind = .str) (hch : f.choices = [])
    (hn : (f.name == lit "sample_index") = false) (hkeys : f.name ∈ s.cfg.keys)
    (hok : assign fl s f.name (some rhs) = .ok c') :
    c'.get f.name = some (cleanValue rhs) ∧ ∀ m, m ≠ f.name → c'.get m = s.cfg.get m := by
  unfold assign at hok
  simp only [Option.isNone_some, Bool.false_and, Bool.false_eq_true, ↓reduceIte, hn] at hok
  unfold configure at hok
  simp only [hf, BEq.rfl, ↓reduceIte] at hok
  unfold setField at hok
  simp only [hk, hch, List.isEmpty_nil, ↓reduceIte] at hok
  cases hok
  exact ⟨get_put_same _ _ _ hkeys, fun m hm => get_put_other _ _ _ _ hm⟩

/-- the option record always has exactly the keys of the option table. -/
theorem options_keys_invariant (E : Env π ρ) (h : List Str) (s : Session)
    (hk : s.cfg.keys = defaultConfig.keys) : (cfgAfter E s h).keys = defaultConfig.keys := by
  unfold cfgAfter
  induction h generalizing s with
  | nil => exact hk
  | cons l t ih =>
    unfold run
    apply ih
    unfold step
    generalize expand s.stypes l = is
    induction is generalizing s with
    | nil => exact hk
    | cons i r ih2 =>
      unfold stepInputs
      split
      · exact hk
      · simp only
        apply ih2
        by_cases ha : isAssignInput i = true
        · rw [stepInput_assign E s i ha]
          split
          · rename_i c hc; simp only; rw [assign_keys hc]; exact hk
          · exact hk
        · rw [stepInput_nonassign_cfg E s i (by simpa using ha)]; exact hk

/-- **Web requests.** Whatever requests were served before (views with any filters, downloads,
saving and deleting configurations), the report part of the response to a view request is a function
of the ORIGINAL copier bytes, the process options and the request's own URL parameters only. -/
theorem web_request_independent (E : WebEnv π ρ σ μ) (w : Web σ) (earlier : List Req) (e : Endpoint)
    (ps : List (Str × Str)) :
    (handle E (serve E w earlier) (.view e ps)).2.body = viewOutput E w.copier w.cfg e ps := by
  rw [handle_view, (serve_frame E earlier w).1, (serve_frame E earlier w).2]

/-- `/download` returns the original serialised profile after any sequence of requests. -/
theorem web_download_independent (E : WebEnv π ρ σ μ) (w : Web σ) (earlier : List Req) :
    (handle E (serve E w earlier) .download).2 = (.blob w.copier : Resp ρ μ) := by
  unfold handle
  simp only [(serve_frame E earlier w).1]

/-- With the codec of C01 as decoder: if the copier holds the serialisation of `P₀` and the codec
round trip gives `normalize P₀` (C01's `decode_encode`, tied to profile/encode.go by C01's
correspondence), every report command after every live history is the report generator run on
`normalize P₀`. -/
theorem command_sees_normalized_profile (report : Profile → Config → List Str → ρ × Profile)
    (fl : Str → Option Str) (P₀ : Profile) (b : Str) (stypes : List Str) (dflt : Str)
    (h : List Str) (c : Str) (cmd : List Str) (vcfg : Config)
    (hser : Codec.serialize P₀ = .ok b)
    (hrt : Codec.parseUncompressed b = .ok (Codec.Profile.normalize P₀))
    (alive : (run ⟨Codec.parseUncompressed, report, fl⟩ (init b stypes dflt) h).done = false)
    (hc : isReportLine stypes c = true)
    (hp : parseCommandLine (cfgAfter ⟨Codec.parseUncompressed, report, fl⟩ (init b stypes dflt) h)
            (fields (trimSpace c)) = .ok (cmd, vcfg)) :
    (step ⟨Codec.parseUncompressed, report, fl⟩ (run ⟨Codec.parseUncompressed, report, fl⟩ (init b stypes dflt) h) c).2
      = [.report (report (Codec.Profile.normalize P₀) vcfg cmd).1] := by
  have _ := hser
  rw [command_output_history_independent _ _ h c alive hc]
  unfold commandOutput
  cases hf : fields (trimSpace c) with
  | nil =>
    unfold isReportLine at hc
    rw [hf] at hc
    simp at hc
  | cons t0 rest =>
    rw [hf] at hp
    simp only [hp]
    simp only [init, hrt]

/-! ### non-vacuity: the hypotheses are met by ordinary sessions -/

section Examples

/-- a report generator that DOES mutate its argument (it returns `p + 1`). -/
def exEnv : Env Nat (Nat × List Str × Config) :=
  { decode := fun b => .ok b.length, report := fun p c cmd => ((p, cmd, c), p + 1), floatNorm := fun s => some s }

def exInit : Session := init [1, 2, 3] [lit "samples", lit "cpu"] []

def exHistory : List Str :=
  [lit "top 5 foo -bar", lit "focus=main //: comment", lit "tags k", lit "peek . >out", lit "cum=1", lit "traces"]

-- the history is live, the probe is a report line, and a mutating report precedes it
example : (run exEnv exInit exHistory).done = false := by decide +kernel
example : isReportLine exInit.stypes (lit "top10 -cum") = true := by decide +kernel
example : (exHistory.filter (isAssignLine exInit.stypes)) = [lit "focus=main //: comment", lit "cum=1"] := by decide +kernel
example : (cfgAfter exEnv exInit exHistory).get (lit "focus") = some (lit "main") ∧
          (cfgAfter exEnv exInit exHistory).get (lit "sort") = some (lit "cum") ∧
          (cfgAfter exEnv exInit exHistory).get (lit "nodecount") = some (lit "-1") ∧
          (cfgAfter exEnv exInit exHistory).get (lit "output") = some [] := by decide +kernel
-- hypotheses of assignments_persist / assignment_sets_value
example : lookupShortcut exInit.stypes (trimSpace (lit "focus=main")) = none ∧
          isAssignInput (trimSpace (lit "focus=main")) = true ∧
          (assign exEnv.floatNorm exInit (lit "focus") (some (lit "main"))).toBool = true := by decide +kernel
example : ∃ f, lookupField f.name = some f ∧ f.kind = .str ∧ f.choices = [] ∧
    (f.name == lit "sample_index") = false ∧ f.name ∈ exInit.cfg.keys :=
  ⟨mk "focus" .str "f" "", by decide +kernel, by decide +kernel, by decide +kernel, by decide +kernel,
    by decide +kernel⟩
example : exInit.cfg.keys = defaultConfig.keys := by decide +kernel
-- shortcut lines are assignment lines; a command line with arguments is not
example : isAssignLine exInit.stypes (lit " total_cpu ") = true ∧ isAssignLine exInit.stypes (lit ":") = true ∧
          isAssignLine exInit.stypes (lit "top 5 foo") = false := by decide +kernel

end Examples

/-! ## composed with C01 (and C02): the decoder is the real codec model

`command_sees_normalized_profile` takes the codec round trip as hypothesis `hrt`.  Here it is
discharged by C01's `parse_serialize` (through its lemma-level twin
`Codec.parse_serialize_normalize`, Lemmas/ComposeCodec.lean): the statement is now about `Codec.serialize` /
`Codec.parseUncompressed` (tied to profile/encode.go by C01's correspondence) for every profile
meeting C01's hypotheses; for a profile that itself came out of the parser (C02) only the size
side condition `EncSizes` remains. -/

/-- **Every report command sees the normalised original, with the real codec.**  For every valid
profile `P₀` with aligned units, key-sorted label maps, integers in their Go types and a
re-encoding within the size limits: `makeProfileCopier` succeeds (bytes `b`), and in the session
started from `b`, after EVERY live history `h`, EVERY report command line `c` produces exactly the
report generator's output on `normalize P₀` — whatever earlier commands did to their copies. -/
theorem command_sees_normalized_profile_codec (report : Profile → Config → List Str → ρ × Profile)
    (fl : Str → Option Str) (P₀ : Profile) (stypes : List Str) (dflt : Str)
    (hv : P₀.Valid) (ha : P₀.unitsAligned = true) (hs : P₀.mapsSorted = true) (hr : Codec.InRange P₀)
    (hz : ∀ x, Codec.preEncode P₀ = .ok x → Codec.EncSizes x) :
    ∃ b, Codec.serialize P₀ = .ok b ∧
      ∀ (h : List Str) (c : Str) (cmd : List Str) (vcfg : Config),
        (run ⟨Codec.parseUncompressed, report, fl⟩ (init b stypes dflt) h).done = false →
        isReportLine stypes c = true →
        parseCommandLine (cfgAfter ⟨Codec.parseUncompressed, report, fl⟩ (init b stypes dflt) h)
            (fields (trimSpace c)) = .ok (cmd, vcfg) →
        (step ⟨Codec.parseUncompressed, report, fl⟩
            (run ⟨Codec.parseUncompressed, report, fl⟩ (init b stypes dflt) h) c).2
          = [.report (report (Codec.Profile.normalize P₀) vcfg cmd).1] := by
  obtain ⟨b, hser, hrt⟩ := Codec.parse_serialize_normalize P₀ hv ha hs hr hz
  exact ⟨b, hser, fun h c cmd vcfg alive hc hp =>
    command_sees_normalized_profile report fl P₀ b stypes dflt h c cmd vcfg hser hrt alive hc hp⟩

/-- … and when `P₀` is itself what `ParseData` returned for some input file `b₀` (the CLI's
situation), validity, alignment, sortedness and the integer ranges are all consequences (C02);
only the size side condition on the re-encoding remains. -/
theorem command_sees_normalized_parsed_profile (report : Profile → Config → List Str → ρ × Profile)
    (fl : Str → Option Str) (b₀ : Str) (P₀ : Profile) (stypes : List Str) (dflt : Str)
    (hparse : Parse.parseData b₀ = .ok P₀)
    (hz : ∀ x, Codec.preEncode P₀ = .ok x → Codec.EncSizes x) :
    ∃ b, Codec.serialize P₀ = .ok b ∧
      ∀ (h : List Str) (c : Str) (cmd : List Str) (vcfg : Config),
        (run ⟨Codec.parseUncompressed, report, fl⟩ (init b stypes dflt) h).done = false →
        isReportLine stypes c = true →
        parseCommandLine (cfgAfter ⟨Codec.parseUncompressed, report, fl⟩ (init b stypes dflt) h)
            (fields (trimSpace c)) = .ok (cmd, vcfg) →
        (step ⟨Codec.parseUncompressed, report, fl⟩
            (run ⟨Codec.parseUncompressed, report, fl⟩ (init b stypes dflt) h) c).2
          = [.report (report (Codec.Profile.normalize P₀) vcfg cmd).1] := by
  obtain ⟨hv, ha, hs, hr⟩ := Parse.parseData_ok_contract b₀ P₀ hparse
  exact command_sees_normalized_profile_codec report fl P₀ stypes dflt hv ha hs hr hz

-- non-vacuity: the sample input of C02 is accepted; its result meets every hypothesis of both forms
example : Parse.parseData Parse.sampleBytes = .ok Parse.sampleParsed ∧
    Parse.sampleParsed.Valid ∧ Parse.sampleParsed.unitsAligned = true ∧ Parse.sampleParsed.mapsSorted = true ∧
    ∀ x, Codec.preEncode Parse.sampleParsed = .ok x → Codec.EncSizes x :=
  ⟨Parse.parseData_sampleBytes, by decide, by decide, by decide, Parse.sampleParsed_encSizes⟩

end PV.Props.C10
