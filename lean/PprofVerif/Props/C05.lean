import PprofVerif.Lemmas.TrimTotal
/-!
# C05 — trimming hides entries but never changes the numbers of those shown

Property theorems only.  `newGraph K ss` is the model of `graph.New` with `Options.KeptNodes = K`
(the rebuild step of `Report.newTrimmedGraph`), `newGraph allKept ss` the untrimmed graph.  All
statements are for every kept predicate `K`, every sample list, every key type.
-/
namespace PV.Props.C05
open PV PV.GSpec PV.Graph PV.Trim

variable {κ : Type} [DecidableEq κ]

/-- for every kept set, a kept entry has exactly the flat and cum (value sum and divisor sum) it has
in the untrimmed graph. -/
theorem rebuild_flat_cum_invariant (K : κ → Bool) (ss : List (GSample κ)) (n : κ) (hn : K n = true) :
    (newGraph K ss).flat n = (newGraph allKept ss).flat n ∧
    (newGraph K ss).cum n = (newGraph allKept ss).cum n := by
  rw [newGraph_flat, newGraph_flat, newGraph_cum, newGraph_cum, flatSpecK_allKept, cumSpecK_allKept,
    flatSpecK_of_kept K ss n hn, cumSpecK_of_kept K ss n hn]
  exact ⟨rfl, rfl⟩

/-- no node and no edge of the rebuilt graph mentions a removed entry. -/
theorem rebuild_edges_within_kept (K : κ → Bool) (ss : List (GSample κ)) :
    (∀ n, thas (newGraph K ss).nodes n = true → K n = true) ∧
    (∀ a b, (newGraph K ss).hasEdge a b = true → K a = true ∧ K b = true) :=
  newGraph_keys_kept K ss

/-- an edge of the rebuilt graph that is not marked residual has its untrimmed weight. -/
theorem rebuild_nonresidual_edge_invariant (K : κ → Bool) (ss : List (GSample κ)) (a b : κ)
    (he : (newGraph K ss).hasEdge a b = true) (hr : (newGraph K ss).residual a b = false) :
    (newGraph K ss).weight a b = (newGraph allKept ss).weight a b := by
  obtain ⟨ha, hb⟩ := (newGraph_keys_kept K ss).2 a b he
  rw [newGraph_residual] at hr
  rw [newGraph_weight, newGraph_weight, edgeSpecK_allKept, edgeSpecK_of_nonresidual K ss a b ha hb hr]

/-- every edge of the rebuilt graph: weight = Σ over samples in which a,b are adjacent after deleting
the removed entries; marked residual iff in some counted sample that (first) adjacency bypasses a
removed entry; present iff some counted sample has the adjacency. -/
theorem rebuild_residual_edge_spec (K : κ → Bool) (ss : List (GSample κ)) (a b : κ) :
    (newGraph K ss).weight a b = edgeSpecK K ss a b ∧
    (newGraph K ss).residual a b = edgeResidualSpecK K ss a b ∧
    (newGraph K ss).hasEdge a b = edgeExistsK K ss a b :=
  ⟨newGraph_weight K ss a b, newGraph_residual K ss a b, newGraph_hasEdge K ss a b⟩

/-- every listed row of the rebuilt graph belongs to a kept entry and carries that entry's untrimmed
(specification) flat and cum — the table a report prints from. -/
theorem rebuild_listed_rows_spec (K : κ → Bool) (ss : List (GSample κ)) (n : κ) (a : NodeAcc)
    (h : (n, a) ∈ (newGraph K ss).shownNodes) :
    K n = true ∧ a.flat = flatSpec ss n ∧ a.cum = cumSpec ss n :=
  shownNodes_spec K ss n a h

/-- the legend's "accounting for" figure (`graphTotal`) is the sum of the flat values shown, each
being the entry's untrimmed flat. -/
theorem accounting_for_eq_sum_shown (K : κ → Bool) (ss : List (GSample κ)) :
    graphTotal (newGraph K ss) =
      ((newGraph K ss).shownNodes.map (fun p => (flatSpec ss p.1).value)).sum :=
  graphTotal_eq K ss

/-- text reports, step 1: the node cutoff removes exactly the entries whose |cum| is below
`cutoff = |trunc(Σ flat · nodefraction)|` (nothing when the cutoff is 0), keeping the order. -/
theorem cutoff_removes_exactly (o : TrimOpts) (es : List Entry) (e : Entry) :
    (e ∈ afterCutoff o es ↔
      e ∈ es ∧ (0 < cutoffOf ((es.map (·.flat)).sum) o.fracNum o.fracDen →
                cutoffOf ((es.map (·.flat)).sum) o.fracNum o.fracDen ≤ absI e.cum)) ∧
    (afterCutoff o es).Sublist es :=
  ⟨mem_afterCutoff o es e, afterCutoff_sublist o es⟩

/-- text reports, step 2: what is shown is a prefix — of length min(nodecount, #survivors) when
nodecount > 0, everything otherwise — of the survivors arranged by the active order; that
arrangement is a permutation of the survivors, and it is sorted whenever the comparator is a strict
total order (C08's theorem about graph.go's comparators). -/
theorem topN_is_prefix_of_sorted (o : TrimOpts) (es : List Entry) :
    trimText o es <+: sortBy (order o) (afterCutoff o es) ∧
    (sortBy (order o) (afterCutoff o es)).Perm (afterCutoff o es) ∧
    (0 < o.nodeCount → (trimText o es).length = min o.nodeCount (afterCutoff o es).length) ∧
    (o.nodeCount = 0 → trimText o es = sortBy (order o) (afterCutoff o es)) ∧
    (StrictTotal (order o) →
      (sortBy (order o) (afterCutoff o es)).Pairwise (fun a b => order o b a = false)) := by
  refine ⟨topN_prefix _ _, sortBy_perm _ _, ?_, ?_, fun h => sortBy_sorted _ h _⟩
  · intro hn
    unfold trimText
    rw [topN_length _ _ hn, (sortBy_perm _ _).length_eq]
  · intro hn
    unfold trimText topN
    simp [hn]

-- non-vacuity: Σflat = 10, nodefraction 1/2 → cutoff 5; entry with cum 4 is removed; top 1 by flat
example : let es : List Entry := [⟨0, [97], [97], 3, 10⟩, ⟨1, [98], [98], 7, 7⟩, ⟨2, [99], [99], 0, 4⟩]
    (trimText ⟨1, 2, 1, false⟩ es).map (·.id) = [1] ∧ (trimText ⟨1, 2, 0, true⟩ es).map (·.id) = [0, 1] := by decide

-- non-vacuity: chain 1→2→3 (value 7) and 1→3 (value 2), entry 2 removed: edge 1→3 gets 9 and is residual
example : let ss : List (GSample Nat) := [{ frames := [1, 2, 3], w := 7, d := 0 }, { frames := [1, 3], w := 2, d := 0 }]
    let K : Nat → Bool := fun n => n != 2
    ((newGraph K ss).weight 1 3 = ⟨9, 0⟩ ∧ (newGraph K ss).residual 1 3 = true ∧
     (newGraph K ss).hasEdge 1 2 = false ∧ (newGraph K ss).cum 3 = ⟨9, 0⟩ ∧ (newGraph K ss).flat 3 = ⟨9, 0⟩ ∧
     (newGraph allKept ss).weight 1 3 = ⟨2, 0⟩) := by decide

end PV.Props.C05
