import PprofVerif.Lemmas.TrimTotal
import PprofVerif.Lemmas.ComposeTrimOrder
import PprofVerif.Lemmas.TrimTreeMain
/-!
# C05 — trimming hides entries but never changes the numbers of those shown

Property theorems only.  `newGraph K ss` is the model of `graph.New` with `Options.KeptNodes = K`
(the rebuild step of `Report.newTrimmedGraph`), `newGraph allKept ss` the untrimmed graph.  All
statements are for every kept predicate `K`, every sample list, every key type.
-/
namespace PV.Props.C05
open PV PV.GSpec PV.Graph PV.Trim

variable {κ : Type} [DecidableEq κ]

/-- for every kept set, a kept entry has exactly the flat and cum (value sum and divisor sum) it has
in the untrimmed graph. -/
theorem rebuild_flat_cum_invariant (K : κ → Bool) (ss : List (GSample κ)) (n : κ) (hn : K n = true) :
    (newGraph K ss).flat n = (newGraph allKept ss).flat n ∧
    (newGraph K ss).cum n = (newGraph allKept ss).cum n := by
  rw [newGraph_flat, newGraph_flat, newGraph_cum, newGraph_cum, flatSpecK_allKept, cumSpecK_allKept,
    flatSpecK_of_kept K ss n hn, cumSpecK_of_kept K ss n hn]
  exact ⟨rfl, rfl⟩

/-- no node and no edge of the rebuilt graph mentions a removed entry. -/
theorem rebuild_edges_within_kept (K : κ → Bool) (ss : List (GSample κ)) :
    (∀ n, thas (newGraph K ss).nodes n = true → K n = true) ∧
    (∀ a b, (newGraph K ss).hasEdge a b = true → K a = true ∧ K b = true) :=
  newGraph_keys_kept K ss

/-- an edge of the rebuilt graph that is not marked residual has its untrimmed weight. -/
theorem rebuild_nonresidual_edge_invariant (K : κ → Bool) (ss : List (GSample κ)) (a b : κ)
    (he : (newGraph K ss).hasEdge a b = true) (hr : (newGraph K ss).residual a b = false) :
    (newGraph K ss).weight a b = (newGraph allKept ss).weight a b := by
  obtain ⟨ha, hb⟩ := (newGraph_keys_kept K ss).2 a b he
  rw [newGraph_residual] at hr
  rw [newGraph_weight, newGraph_weight, edgeSpecK_allKept, edgeSpecK_of_nonresidual K ss a b ha hb hr]

/-- every edge of the rebuilt graph: weight = Σ over samples in which a,b are adjacent after deleting
the removed entries; marked residual iff in some counted sample that (first) adjacency bypasses a
removed entry; present iff some counted sample has the adjacency. -/
theorem rebuild_residual_edge_spec (K : κ → Bool) (ss : List (GSample κ)) (a b : κ) :
    (newGraph K ss).weight a b = edgeSpecK K ss a b ∧
    (newGraph K ss).residual a b = edgeResidualSpecK K ss a b ∧
    (newGraph K ss).hasEdge a b = edgeExistsK K ss a b :=
  ⟨newGraph_weight K ss a b, newGraph_residual K ss a b, newGraph_hasEdge K ss a b⟩

/-- every listed row of the rebuilt graph belongs to a kept entry and carries that entry's untrimmed
(specification) flat and cum — the table a report prints from. -/
theorem rebuild_listed_rows_spec (K : κ → Bool) (ss : List (GSample κ)) (n : κ) (a : NodeAcc)
    (h : (n, a) ∈ (newGraph K ss).shownNodes) :
    K n = true ∧ a.flat = flatSpec ss n ∧ a.cum = cumSpec ss n :=
  shownNodes_spec K ss n a h

/-- the legend's "accounting for" figure (`graphTotal`) is the sum of the flat values shown, each
being the entry's untrimmed flat. -/
theorem accounting_for_eq_sum_shown (K : κ → Bool) (ss : List (GSample κ)) :
    graphTotal (newGraph K ss) =
      ((newGraph K ss).shownNodes.map (fun p => (flatSpec ss p.1).value)).sum :=
  graphTotal_eq K ss

/-- text reports, step 1: the node cutoff removes exactly the entries whose |cum| is below
`cutoff = |trunc(Σ flat · nodefraction)|` (nothing when the cutoff is 0), keeping the order. -/
theorem cutoff_removes_exactly (o : TrimOpts) (es : List Entry) (e : Entry) :
    (e ∈ afterCutoff o es ↔
      e ∈ es ∧ (0 < cutoffOf ((es.map (·.flat)).sum) o.fracNum o.fracDen →
                cutoffOf ((es.map (·.flat)).sum) o.fracNum o.fracDen ≤ absI e.cum)) ∧
    (afterCutoff o es).Sublist es :=
  ⟨mem_afterCutoff o es e, afterCutoff_sublist o es⟩

/-- text reports, step 2: what is shown is a prefix — of length min(nodecount, #survivors) when
nodecount > 0, everything otherwise — of the survivors arranged by the active order; that
arrangement is a permutation of the survivors, and it is sorted whenever the comparator is a strict
total order (C08's theorem about graph.go's comparators).
NB: `StrictTotal (order o)` cannot be met (`strictTotal_unsatisfiable` below: the comparators do not
read the entry id), so the LAST conjunct is vacuous; the unconditional sortedness statement is
`topN_is_prefix_of_sorted_regenerated_order` in the section "composed with C08". -/
theorem topN_is_prefix_of_sorted (o : TrimOpts) (es : List Entry) :
    trimText o es <+: sortBy (order o) (afterCutoff o es) ∧
    (sortBy (order o) (afterCutoff o es)).Perm (afterCutoff o es) ∧
    (0 < o.nodeCount → (trimText o es).length = min o.nodeCount (afterCutoff o es).length) ∧
    (o.nodeCount = 0 → trimText o es = sortBy (order o) (afterCutoff o es)) ∧
    (StrictTotal (order o) →
      (sortBy (order o) (afterCutoff o es)).Pairwise (fun a b => order o b a = false)) := by
  refine ⟨topN_prefix _ _, sortBy_perm _ _, ?_, ?_, fun h => sortBy_sorted _ h _⟩
  · intro hn
    unfold trimText
    rw [topN_length _ _ hn, (sortBy_perm _ _).length_eq]
  · intro hn
    unfold trimText topN
    simp [hn]

-- non-vacuity: Σflat = 10, nodefraction 1/2 → cutoff 5; entry with cum 4 is removed; top 1 by flat
example : let es : List Entry := [⟨0, [97], [97], 3, 10⟩, ⟨1, [98], [98], 7, 7⟩, ⟨2, [99], [99], 0, 4⟩]
    (trimText ⟨1, 2, 1, false⟩ es).map (·.id) = [1] ∧ (trimText ⟨1, 2, 0, true⟩ es).map (·.id) = [0, 1] := by decide

-- non-vacuity: chain 1→2→3 (value 7) and 1→3 (value 2), entry 2 removed: edge 1→3 gets 9 and is residual
example : let ss : List (GSample Nat) := [{ frames := [1, 2, 3], w := 7, d := 0 }, { frames := [1, 3], w := 2, d := 0 }]
    let K : Nat → Bool := fun n => n != 2
    ((newGraph K ss).weight 1 3 = ⟨9, 0⟩ ∧ (newGraph K ss).residual 1 3 = true ∧
     (newGraph K ss).hasEdge 1 2 = false ∧ (newGraph K ss).cum 3 = ⟨9, 0⟩ ∧ (newGraph K ss).flat 3 = ⟨9, 0⟩ ∧
     (newGraph allKept ss).weight 1 3 = ⟨2, 0⟩) := by decide

/-! ## `Graph.TrimTree` (call trees: dot and callgrind reports with `call_tree`)

`trimNewTree sortIn K g nodes` is the model of `g.TrimTree(kept)` (`Model/TrimTree.lean`: the loop
over `g.Nodes` with its two `panic` sites, the re-parenting of the children of a removed node, the
`Residual` mark, followed by `RemoveRedundantEdges`) applied to a tree `g = newTree ss`; `nodes` is
`g.Nodes` — the listed nodes in ANY order (the code sorts them, and collects them from maps) —,
`st.ins` / `st.outs` are the `In` / `Out` maps of all nodes afterwards.  `removed` is the set of
listed nodes that are not kept.  All statements: every sample list, every kept set, every order of
the node list, every `EdgeMap.Sort` that returns a permutation. -/
section TrimTree
open PV.TrimTree

/-- in a tree built by `newTree` every node has exactly one parent — the node its path names —, so
`len(n.In) ≤ 1` for every node. -/
theorem newTree_single_parent (ss : List (GSample κ)) (a a' b : List κ)
    (h : (newTree ss).hasEdge a b = true) (h' : (newTree ss).hasEdge a' b = true) :
    a = a' ∧ a = b.dropLast ∧ 2 ≤ b.length ∧ (inEdges (newTree ss).edges b).length ≤ 1 := by
  have hF := newTree_pathForest ss
  have hm : ∀ x, (newTree ss).hasEdge x b = true → 2 ≤ b.length ∧ x = b.dropLast := by
    intro x hx
    have : (tfind (newTree ss).edges (x, b)).isSome = true := by rw [← thas_eq_tfind]; exact hx
    obtain ⟨e, he⟩ := Option.isSome_iff_exists.mp this
    exact hF.shape _ _ _ (mem_of_tfind he)
  refine ⟨(hm a h).2.trans (hm a' h').2.symm, (hm a h).2, (hm a h).1, ?_⟩
  exact inEdges_le_one (inv_initial hF (fun _ => true)) b (by simp [removedOf])

/-- neither `panic("TrimTree only works on trees")` nor `panic("Get parent assertion failed…")` is
reachable when TrimTree runs on a tree built by `newTree` (nor is the model's fuel ever exhausted). -/
theorem trimTree_never_panics (sortIn : ETable (List κ) → ETable (List κ)) (hsort : ∀ l, (sortIn l).Perm l)
    (K : List κ → Bool) (ss : List (GSample κ)) (nodes : List (List κ × NodeAcc))
    (hperm : nodes.Perm (newTree ss).shownNodes) :
    ∃ st, trimNewTree sortIn K (newTree ss) nodes = .ok st := by
  obtain ⟨st, hs, _, _⟩ := trimNewTree_ok sortIn hsort K ss nodes hperm
  exact ⟨st, hs⟩

/-- the node list afterwards is exactly the kept listed nodes (in their order), each with the flat
and cum it had: the untrimmed call-tree figures of the specification. -/
theorem trimTree_preserves_values (sortIn : ETable (List κ) → ETable (List κ)) (hsort : ∀ l, (sortIn l).Perm l)
    (K : List κ → Bool) (ss : List (GSample κ)) (nodes : List (List κ × NodeAcc))
    (hperm : nodes.Perm (newTree ss).shownNodes) (st : TState (List κ))
    (h : trimNewTree sortIn K (newTree ss) nodes = .ok st) :
    st.nodes = nodes.filter (fun c => K c.1) ∧
    ∀ n a, (n, a) ∈ st.nodes → K n = true ∧ (n, a) ∈ (newTree ss).shownNodes ∧
      a.flat = flatSpec (ss.map treeSample) n ∧ a.cum = cumSpec (ss.map treeSample) n := by
  obtain ⟨st', hs, _, hn⟩ := trimNewTree_ok sortIn hsort K ss nodes hperm
  rw [h] at hs
  obtain rfl := Outcome.ok.inj hs
  refine ⟨hn, ?_⟩
  intro n a hm
  rw [hn] at hm
  obtain ⟨hm1, hk⟩ := List.mem_filter.mp hm
  have hsh := hperm.mem_iff.mp hm1
  exact ⟨hk, hsh, tree_shownNodes_spec ss n a hsh⟩

/-- the edges afterwards, seen from either end (`b.In[a]` for every `b` that was not removed,
`a.Out[b]` for every `a` that was not removed — so for every listed node, and the two views agree):
the edge `a → b` exists iff `b` was not removed, had a parent edge in the tree and `a` is `b`'s
nearest ancestor that was not removed; it has the weight of `b`'s original parent edge (= Σ over the
samples through `b`) and is residual iff `a` is not `b`'s original parent (`GSpec.trimEdgeSpec`). -/
theorem trimTree_marks_residual (sortIn : ETable (List κ) → ETable (List κ)) (hsort : ∀ l, (sortIn l).Perm l)
    (K : List κ → Bool) (ss : List (GSample κ)) (nodes : List (List κ × NodeAcc))
    (hperm : nodes.Perm (newTree ss).shownNodes) (st : TState (List κ))
    (h : trimNewTree sortIn K (newTree ss) nodes = .ok st) :
    let removed := removedOf K (nodes.map Prod.fst)
    (∀ a b, removed b = false →
      (tfind st.ins (a, b)).map (fun e => (e.weight, e.residual)) = trimEdgeSpec removed ss a b) ∧
    (∀ a b, removed a = false →
      (tfind st.outs (a, b)).map (fun e => (e.weight, e.residual)) = trimEdgeSpec removed ss a b) := by
  obtain ⟨st', hs, hI, _⟩ := trimNewTree_ok sortIn hsort K ss nodes hperm
  rw [h] at hs
  obtain rfl := Outcome.ok.inj hs
  exact ⟨fun a b hb => by rw [hI.insSpec a b hb, specE_eq_trimEdgeSpec],
    fun a b ha => by rw [hI.outsSpec a b ha, specE_eq_trimEdgeSpec]⟩

/-- what that specification means: an edge `a → b` of the trimmed tree joins a surviving node to its
surviving descendant across removed nodes only; it is marked residual iff at least one removed node
is bypassed (then `b`'s own parent is among them), and an edge that is not residual is the original
parent edge with its original weight. -/
theorem trimTree_residual_iff_bypass (removed : List κ → Bool) (ss : List (GSample κ)) (a b : List κ)
    (w : WD) (r : Bool) (h : trimEdgeSpec removed ss a b = some (w, r)) :
    removed b = false ∧ removed a = false ∧ a ∈ ancestors b ∧
    (∀ x ∈ ancestors b, a.length < x.length → removed x = true) ∧
    (r = true ↔ a ≠ b.dropLast) ∧ (r = true → removed b.dropLast = true) ∧
    w = edgeSpec (ss.map treeSample) b.dropLast b ∧ edgeExists (ss.map treeSample) b.dropLast b = true :=
  trimEdgeSpec_some h

/-- no edge of a node that is still listed mentions a removed node; and when every node of the tree
is listed (no node with all-zero figures, which `selectNodesForGraph` leaves out of `g.Nodes`
although it stays linked) both ends of every such edge are kept nodes. -/
theorem trimTree_no_dangling (sortIn : ETable (List κ) → ETable (List κ)) (hsort : ∀ l, (sortIn l).Perm l)
    (K : List κ → Bool) (ss : List (GSample κ)) (nodes : List (List κ × NodeAcc))
    (hperm : nodes.Perm (newTree ss).shownNodes) (st : TState (List κ))
    (h : trimNewTree sortIn K (newTree ss) nodes = .ok st) (a b : List κ) (e : EdgeAcc)
    (he : (tfind st.ins (a, b) = some e ∧ removedOf K (nodes.map Prod.fst) b = false) ∨
          (tfind st.outs (a, b) = some e ∧ removedOf K (nodes.map Prod.fst) a = false)) :
    (removedOf K (nodes.map Prod.fst) a = false ∧ removedOf K (nodes.map Prod.fst) b = false) ∧
    ((∀ n, (newTree ss).hasNode n = true → n ∈ nodes.map Prod.fst) → K a = true ∧ K b = true) := by
  obtain ⟨h1, h2⟩ := trimTree_marks_residual sortIn hsort K ss nodes hperm st h
  have hspec : trimEdgeSpec (removedOf K (nodes.map Prod.fst)) ss a b = some (e.weight, e.residual) := by
    rcases he with ⟨hf, hr⟩ | ⟨hf, hr⟩
    · rw [← h1 a b hr, hf]; rfl
    · rw [← h2 a b hr, hf]; rfl
  obtain ⟨hb, ha, hanc, _, _, _, _, hex⟩ := trimEdgeSpec_some hspec
  refine ⟨⟨ha, hb⟩, ?_⟩
  intro hall
  have hnb : (newTree ss).hasNode b = true :=
    newTree_hasNode_of_edge ss b.dropLast b (by rw [tree_edge_exists_iff]; exact hex)
  have hna := newTree_hasNode_ancestor ss b a hnb hanc
  have hla := hall a hna
  have hlb := hall b hnb
  simp only [removedOf, hla, hlb, decide_true, Bool.true_and, Bool.not_eq_false'] at ha hb
  exact ⟨ha, hb⟩

-- non-vacuity: samples main→a→b (7) and main→a (2); the middle node [1,2] is removed: the leaf
-- [1,2,3] is re-attached to [1] by a residual edge of weight 7, the removed node is in no In/Out map
-- of a listed node, both listed nodes keep their figures.
example : let ss : List (GSample Nat) := [{ frames := [1, 2, 3], w := 7, d := 0 }, { frames := [1, 2], w := 2, d := 0 }]
    let K : List Nat → Bool := fun n => n != [1, 2]
    (match trimNewTree id K (newTree ss) (newTree ss).shownNodes with
     | .ok st => decide (tfind st.ins ([1], [1, 2, 3]) = some ⟨⟨7, 0⟩, true⟩) &&
                 decide (tfind st.outs ([1], [1, 2, 3]) = some ⟨⟨7, 0⟩, true⟩) &&
                 decide (tfind st.outs ([1], [1, 2]) = none) && decide (tfind st.ins ([1, 2], [1, 2, 3]) = none) &&
                 decide (st.nodes = [([1], ⟨⟨0, 0⟩, ⟨9, 0⟩⟩), ([1, 2, 3], ⟨⟨7, 0⟩, ⟨7, 0⟩⟩)])
     | _ => false) = true := by decide

end TrimTree

/-! ## composed with C08: the active order of a text report is the REGENERATED comparator

`topN_is_prefix_of_sorted` above proves sortedness under the hypothesis `StrictTotal (order o)`.
That hypothesis can never be met (`strictTotal_unsatisfiable`: two entries that differ only in the
harness id are unordered both ways and yet different), so its last conjunct is vacuous.  Composed
with C08 the statement becomes unconditional where it matters: `order o` equals the comparator
denoted — by C08's interpreter `Order.lessOf` — by the descriptor list `genOrder o`
(`Model/TrimOrder.lean`: `flatNameKeys` / `cumNameKeys`, which C08's per-run obligation
`trim_orders_are_the_regenerated_ones` checks to be the lists `tools/extract` regenerates from
graph.go), C08's generic theorems make it a strict weak order, and a strict weak order is all the
sort needs.
What remains a hypothesis, exactly:
* `NoMin`: no flat/cum equals MinInt64 — Go's `abs64` leaves MinInt64 negative while C05's model
  orders by |·| (`order_differs_at_minInt64`);
* for UNIQUENESS of the arrangement only: distinct entries have distinct `fmt.Sprint(Info)` strings —
  which holds for graph nodes keyed by NodeInfo when the infos are `SpaceFree` (C08's partial
  theorem; without it `compareNodes_collision` of C08 applies). -/

/-- `StrictTotal (order o)` is false for both orders: the comparators do not read the entry id. -/
theorem strictTotal_unsatisfiable (o : TrimOpts) : ¬ StrictTotal (order o) := by
  intro h
  have h1 : order o ⟨0, [], [], 0, 0⟩ ⟨1, [], [], 0, 0⟩ = false := by unfold order; split <;> decide
  have h2 : order o ⟨1, [], [], 0, 0⟩ ⟨0, [], [], 0, 0⟩ = false := by unfold order; split <;> decide
  rcases h.total ⟨0, [], [], 0, 0⟩ ⟨1, [], [], 0, 0⟩ with h3 | h3 | h3
  · rw [h1] at h3; cases h3
  · rw [h2] at h3; cases h3
  · cases h3

/-- **`topN_is_prefix_of_sorted`, composed with C08 — no hypothesis on the comparator.**  For every
option record and every entry list without MinInt64 weights: the hand-written order is the
regenerated comparator of graph.go, which is a strict weak order; the survivors arranged by it have
no inversion, and so has what is shown (a prefix of them); and that arrangement is the ONLY
permutation of the survivors that passes `sort.IsSorted` — so it is what any correct `sort.Sort`
yields — provided distinct entries have distinct `fmt.Sprint(Info)` strings. -/
theorem topN_is_prefix_of_sorted_regenerated_order (o : TrimOpts) (es : List Entry) (hmin : ∀ e ∈ es, NoMin e) :
    (∀ a b, NoMin a → NoMin b → order o a b = entryLess (genOrder o) a b) ∧
    PV.Order.StrictWeak (entryLess (genOrder o)) ∧
    (sortBy (order o) (afterCutoff o es)).Pairwise (fun a b => order o b a = false) ∧
    (trimText o es).Pairwise (fun a b => order o b a = false) ∧
    ((∀ a ∈ es, ∀ b ∈ es, a.infoStr = b.infoStr → a = b) →
      ∀ l' : List Entry, l'.Perm (afterCutoff o es) → PV.Order.AdjSorted (order o) l' →
        l' = sortBy (order o) (afterCutoff o es)) := by
  have hsub : ∀ e ∈ afterCutoff o es, e ∈ es := fun e he => (afterCutoff_sublist o es).subset he
  have hmin' : ∀ e ∈ afterCutoff o es, NoMin e := fun e he => hmin e (hsub e he)
  have hsorted := sortBy_order_sorted o (afterCutoff o es) hmin'
  refine ⟨fun a b ha hb => order_eq_entryLess o a b ha hb, entryLess_strictWeak o, hsorted,
    hsorted.sublist (topN_prefix _ _).sublist, ?_⟩
  intro hinj l' hperm hs
  exact sortBy_order_unique o (afterCutoff o es) l' hmin'
    (fun a ha b hb => hinj a (hsub a ha) b (hsub b hb)) hperm hs

/-- **… for the entries of graph nodes** (`entryOfNode`: name = `PrintableName`, tie-break string =
`fmt.Sprint(Info)`): the order is C08's `nodeLess` of the regenerated list on the nodes themselves
(score map of CumNameOrder = Cum), and when the nodes are keyed by their NodeInfo and the infos are
`SpaceFree`, the shown arrangement is the unique sorted one. -/
theorem topN_sorted_for_graph_nodes (o : TrimOpts) (idOf : PV.GraphOrder.Node → Nat) (ns : List PV.GraphOrder.Node)
    (hmin : ∀ n ∈ ns, n.flat ≠ PV.Order.minI64 ∧ n.cum ≠ PV.Order.minI64)
    (hsf : ∀ n ∈ ns, PV.GraphOrder.SpaceFree n.info)
    (hkey : ∀ a ∈ ns, ∀ b ∈ ns, a.info = b.info → a = b) :
    let es := ns.map (fun n => entryOfNode (idOf n) n)
    (∀ a ∈ ns, ∀ b ∈ ns, order o (entryOfNode (idOf a) a) (entryOfNode (idOf b) b) =
        PV.GraphOrder.nodeLess (.field .Cum) (genOrder o) a b) ∧
    (trimText o es).Pairwise (fun a b => order o b a = false) ∧
    ∀ l' : List Entry, l'.Perm (afterCutoff o es) → PV.Order.AdjSorted (order o) l' →
      l' = sortBy (order o) (afterCutoff o es) := by
  intro es
  have hmin' : ∀ e ∈ es, NoMin e := by
    intro e he
    obtain ⟨n, hn, rfl⟩ := List.mem_map.mp he
    exact hmin n hn
  obtain ⟨_, _, _, h4, h5⟩ := topN_is_prefix_of_sorted_regenerated_order o es hmin'
  refine ⟨?_, h4, h5 (infoStr_inj_of_spaceFree idOf ns hsf hkey)⟩
  intro a ha b hb
  have ha' : NoMin (entryOfNode (idOf a) a) := hmin a ha
  have hb' : NoMin (entryOfNode (idOf b) b) := hmin b hb
  rw [order_eq_entryLess o _ _ ha' hb', entryLess_entryOfNode]

/-- why `NoMin` remains: at MinInt64 Go's `abs64` (regenerated comparator) and |·| (C05's model)
order differently. -/
theorem order_differs_at_minInt64 :
    lessFlat ⟨0, [], [], PV.Order.minI64, 0⟩ ⟨1, [], [], 5, 0⟩ = true ∧
    entryLess flatNameKeys ⟨0, [], [], PV.Order.minI64, 0⟩ ⟨1, [], [], 5, 0⟩ = false := by
  decide

-- non-vacuity: the example entries above meet `NoMin` and have distinct tie-break strings
example : let es : List Entry := [⟨0, [97], [97], 3, 10⟩, ⟨1, [98], [98], 7, 7⟩, ⟨2, [99], [99], 0, 4⟩]
    (∀ e ∈ es, NoMin e) ∧ (∀ a ∈ es, ∀ b ∈ es, a.infoStr = b.infoStr → a = b) := by
  refine ⟨?_, ?_⟩
  · intro e he
    simp only [List.mem_cons, List.mem_nil_iff, or_false] at he
    rcases he with rfl | rfl | rfl <;> exact ⟨by decide, by decide⟩
  · decide

end PV.Props.C05
