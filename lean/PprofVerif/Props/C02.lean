import PprofVerif.Lemmas.CodecSchemaFactsDec
import PprofVerif.Lemmas.CodecTotalPost
import PprofVerif.Lemmas.LegacyCPUTotal
import PprofVerif.Lemmas.LegacyCPUValues
import PprofVerif.Model.Parse
import PprofVerif.Lemmas.IdTables
import PprofVerif.Lemmas.ComposeParseMerge
import PprofVerif.Lemmas.ComposeCodec
/-!
# C02 — Parsing is total: an error or a valid profile for any bytes

Property theorems only (helpers in `Lemmas/CodecTotal*.lean`, `Lemmas/LegacyCPUTotal.lean`).
All statements quantify over ALL byte strings and are about the executable models
`Model/Wire.lean`, `Model/Codec.lean` (profile/proto.go, profile/encode.go),
`Model/LegacyCPU.lean` (binary part of profile/legacy_profile.go) and `Model/Parse.lean`
(dispatch of profile.ParseData), in which every Go panic site is a value (`Outcome.panic`).
The correspondence check ties the models to the Go code on every run.

Full statement of the property (DESIGN.md Appendix D): for all bytes `b`,
`ParseData b ∈ {err, ok p}` with `p` valid, and `ok p` implies that Write, Copy, Compact and every
text report of `p` do not crash.  Proved below: the protobuf path and the binary legacy CPU
path never panic and terminate (the model functions are total and their fuel provably
suffices); an accepted profile is valid, has aligned units and sorted label maps, and
serializes without panic.  Composed with C01 and C03 (sections at the end of this file): an
accepted profile can be Copied (given C01's size side condition on the re-encoding), Compacted
and Merged, and stays valid.  NOT proved here (harness only, see checks/C02.json): the text
legacy parsers, gzip, the report printers, and wall-clock promptness.
-/
namespace PV.Props.C02
open PV PV.Wire PV.Codec PV.LegacyCPU PV.Parse

/-- The fuel `data.length` given to the message decoding loop always suffices: with at least
that much fuel neither the "out of fuel" panic nor any other panic is reachable, provided the
decoder table itself does not panic (needs: `decodeField` consumes ≥ 1 byte). -/
theorem decodeLoop_fuel_enough {M : Type} (apply : M → Field → Outcome M)
    (hap : ∀ m f s, apply m f ≠ .panic s) (fuel : Nat) (m : M) (data : Bytes)
    (h : data.length ≤ fuel) : ∀ s, decodeLoop apply fuel m data ≠ .panic s :=
  decodeLoop_ne_panic apply hap fuel m data h

/-- The fuel is only a termination device: any two sufficient amounts give the same result,
i.e. the model computes Go's unbounded `for len(data) > 0` loop (for every decoder table,
panicking or not). -/
theorem decodeLoop_fuel_independent {M : Type} (apply : M → Field → Outcome M) (fuel fuel' : Nat)
    (m : M) (data : Bytes) (h : data.length ≤ fuel) (h' : data.length ≤ fuel') :
    decodeLoop apply fuel m data = decodeLoop apply fuel' m data :=
  decodeLoop_fuel_irrelevant apply fuel fuel' m data h h'

/-- Same for the packed-scalar loop of `decodeUint64s`/`decodeInt64s`. -/
theorem decodePacked_fuel_enough (fuel : Nat) (data : Bytes) (h : data.length ≤ fuel) :
    (∀ s, decodePacked fuel data ≠ .panic s) ∧ decodePacked fuel data = decodePacked data.length data :=
  ⟨decodePacked_ne_panic fuel data h, decodePacked_fuel_irrelevant fuel data.length data h (Nat.le_refl _)⟩

/-- Each wire field read consumes at least one byte (the progress argument behind the fuel). -/
theorem decodeField_consumes {data rest : Bytes} {f : Field} (h : decodeField data = .ok (f, rest)) :
    rest.length < data.length := decodeField_lt h

/-- `unmarshal` (proto.go decodeMessage with the decoder tables of encode.go, nested messages,
packed fields, the string-table check) never panics, for any bytes. -/
theorem unmarshal_never_panics : ∀ (b : Bytes) (s : String), Codec.unmarshal b ≠ .panic s :=
  unmarshal_ne_panic

/-- `postDecode` never panics on any decoded message: every string index goes through the
range check of `getString`, every id lookup through the dense/sparse tables. -/
theorem postDecode_never_panics : ∀ (x : ProfileX) (s : String), Codec.postDecode x ≠ .panic s :=
  postDecode_ne_panic

/-- The dense-or-sparse id tables `postDecode` builds for mappings, functions and locations
(`make([]*T, len+1)` plus a map), modelled with checked index expressions: building them and
resolving any reference never indexes out of range, and a reference resolves (non-nil pointer)
exactly when its id occurs in the table — which is how `Codec.postDecode` states it
(`List.contains`) — to an entity that carries this id. -/
theorem postDecode_id_tables_total (ids : List Nat) :
    ∃ t, IdTables.build ids = .ok t ∧ ∀ id, ∃ r, IdTables.lookup t id = .ok r ∧
      (r.isSome = true ↔ ids.contains id = true) ∧ (∀ j, r = some j → ids[j]? = some id) := by
  obtain ⟨t, ht, h⟩ := IdTables.build_lookup ids
  refine ⟨t, ht, fun id => ?_⟩
  obtain ⟨r, hr, h1, h2⟩ := h id
  exact ⟨r, hr, by rw [h1]; simp, h2⟩

-- ids at the dense/sparse boundary (len, len+1), duplicates and a huge id
example : (match IdTables.build [3, 4, 1, 3, 18446744073709551615] with
    | .ok t => (IdTables.lookup t 3, IdTables.lookup t 5, IdTables.lookup t 6, IdTables.lookup t 18446744073709551615, IdTables.lookup t 0)
        == (.ok (some 3), .ok none, .ok none, .ok (some 4), .ok none)
    | _ => false) = true := by decide

/-- `ParseUncompressed` never panics, for any bytes. -/
theorem parseUncompressed_never_panics : ∀ (b : Bytes) (s : String), Codec.parseUncompressed b ≠ .panic s :=
  parseUncompressed_ne_panic

/-- Every profile returned by `ParseUncompressed` satisfies the documented NumUnit contract
(unit list absent, empty, or as long as the value list, for every numeric label key). -/
theorem parse_ok_units_aligned (b : Bytes) (p : Profile) (h : Codec.parseUncompressed b = .ok p) :
    p.unitsAligned = true := (parseUncompressed_ok b p h).1

/-- Every profile returned by `ParseUncompressed` has label maps with pairwise distinct keys
(strictly sorted in the canonical form): they are genuine maps. -/
theorem parse_ok_maps_sorted (b : Bytes) (p : Profile) (h : Codec.parseUncompressed b = .ok p) :
    p.mapsSorted = true := (parseUncompressed_ok b p h).2

/-- `serialize` (preEncode + encode, i.e. Write) cannot panic on a profile with aligned units:
the only panic site of `preEncode` is the index expression `units[i]`. -/
theorem serialize_no_panic_of_aligned (p : Profile) (h : p.unitsAligned = true) :
    ∀ s, Codec.serialize p ≠ .panic s := serialize_ne_panic p h

/-- A profile returned by the parser can always be written. -/
theorem parse_ok_serialize_no_panic (b : Bytes) (p : Profile) (h : Codec.parseUncompressed b = .ok p) :
    ∀ s, Codec.serialize p ≠ .panic s :=
  serialize_ne_panic p (parseUncompressed_ok b p h).1

/-- `ParseData` on the protobuf path: for any bytes the result is an error, or a profile that
passes the validity gate, has aligned units, has genuine label maps and can be serialized;
never a panic. -/
theorem parse_ok_valid_or_rejected (b : Bytes) :
    (∃ e, parseData b = .err e) ∨
    (∃ p, parseData b = .ok p ∧ p.Valid ∧ p.unitsAligned = true ∧ p.mapsSorted = true ∧
      ∀ s, Codec.serialize p ≠ .panic s) := by
  unfold parseData
  cases h : Codec.parseUncompressed b with
  | panic s => exact absurd h (parseUncompressed_ne_panic b s)
  | err e => exact Or.inl ⟨e, rfl⟩
  | ok p =>
    by_cases hv : p.validB = true
    · right
      refine ⟨p, by simp [hv], hv, (parseUncompressed_ok b p h).1, (parseUncompressed_ok b p h).2, ?_⟩
      exact serialize_ne_panic p (parseUncompressed_ok b p h).1
    · left
      exact ⟨"malformed profile", by simp [hv]⟩

/-- What the validity gate means, in the words of the property: every sample has exactly one
value per sample type, every location a sample references is non-zero and occurs in the
location table, whose ids (like the mapping and function ids) are non-zero and pairwise
distinct — "exists once with a non-zero id" — and every mapping/function a location
references is in its table. -/
theorem valid_contract (p : Profile) (h : p.Valid) :
    (∀ s ∈ p.samples, s.values.length = p.sampleType.length ∧
        ∀ id ∈ s.locationIDs, id ≠ 0 ∧ ∃ l ∈ p.locations, l.id = id) ∧
    ((p.mappings.map (·.id)).Nodup ∧ 0 ∉ p.mappings.map (·.id)) ∧
    ((p.functions.map (·.id)).Nodup ∧ 0 ∉ p.functions.map (·.id)) ∧
    ((p.locations.map (·.id)).Nodup ∧ 0 ∉ p.locations.map (·.id)) ∧
    (∀ l ∈ p.locations, (l.mappingID = 0 ∨ ∃ m ∈ p.mappings, m.id = l.mappingID) ∧
        ∀ ln ∈ l.lines, ln.functionID ≠ 0 ∧ ∃ f ∈ p.functions, f.id = ln.functionID) := by
  unfold Profile.Valid Profile.validB at h
  simp only [Bool.and_eq_true, List.all_eq_true, decide_eq_true_eq, idsNodup, Bool.or_eq_true,
    List.any_eq_true, beq_iff_eq, bne_iff_ne, ne_eq] at h
  obtain ⟨⟨⟨⟨⟨_, hs⟩, hm⟩, hf⟩, hl⟩, hloc⟩ := h
  refine ⟨?_, hm, hf, hl, ?_⟩
  · intro s hs'
    exact hs s hs'
  · intro l hl'
    exact hloc l hl'

/-- The binary legacy CPU parser (word-size/endianness probing, header checks, the
`nstk > len(b)/4` bound, the end marker, the sample loop, signal-frame removal, duplicate-leaf
cleanup) never panics and its loop fuel `len(b)` always suffices, for any bytes. -/
theorem parseCPU_never_panics : ∀ (b : Bytes) (s : String), LegacyCPU.parseCPU b ≠ .panic s :=
  parseCPU_ne_panic

/-- The sample loop alone, for every word kind, both `adjust` settings, any period and any
accumulated prefix: `len(b)` fuel (or more) never runs out and no access is out of range. -/
theorem parseCPUSamples_never_panics (w : Word) (adjust : Bool) (period : Int) (fuel : Nat)
    (b : Slice) (acc : List CPUSample) (h : b.len ≤ fuel) :
    ∀ s, parseCPUSamples w adjust period fuel b acc ≠ .panic s :=
  parseCPUSamples_ne_panic w adjust period fuel b acc h

/-- A recognised binary CPU profile has exactly one value per sample type (the two types
samples/count and cpu/nanoseconds) in every sample — before and after signal-frame removal and
duplicate-leaf cleanup — which is the `len(s.Value) == len(p.SampleType)` part of the validity
contract on the legacy CPU path. -/
theorem parseCPU_ok_two_values (b : Bytes) (r : CPUResult) (h : LegacyCPU.parseCPU b = .ok (some r)) :
    ∀ s ∈ r.samples, s.values.length = 2 := parseCPU_values b r h

/-- Go ranges over the map `addr1` in unspecified order when it looks for the signal-handler
frame to strip; at most one address can reach the threshold `len(p.Sample) - len(p.Sample)/32`,
so the order cannot influence the result (the model scans in first-occurrence order). -/
theorem frame_removal_choice_unique (samples : List CPUSample) (secs : List Nat)
    (h : secondAddrs samples = .ok secs) (a b : Nat) (ha : a ∈ secs)
    (hca : secs.count a ≥ samples.length - samples.length / 32)
    (hcb : secs.count b ≥ samples.length - samples.length / 32) : a = b :=
  frame_candidate_unique secs samples.length (secondAddrs_length samples secs h) a b ha hca hcb

example : secondAddrs [⟨[1, 10], [5, 7, 9]⟩, ⟨[1, 10], [6, 7]⟩, ⟨[1, 10], [8]⟩] = .ok [7, 7] := by decide

/-- The modelled part of the `ParseData` dispatch (protobuf, validity gate, binary CPU probe)
never panics, for any bytes. -/
theorem dispatch_never_panics (b : Bytes) (s : String) : Parse.dispatch b ≠ .panic s := by
  unfold Parse.dispatch
  cases h : Codec.parseUncompressed b with
  | panic e => exact absurd h (parseUncompressed_ne_panic b e)
  | ok p => simp only; split <;> simp
  | err e =>
    simp only
    split
    · simp
    · cases h2 : LegacyCPU.parseCPU b with
      | panic e2 => exact absurd h2 (parseCPU_ne_panic b e2)
      | err e2 => simp
      | ok r => cases r <;> simp

/-! ### non-vacuity -/

/-- a byte string the parser accepts: one sample type, one sample with a value and a numeric
label carrying a unit, string table ["", "a", "b"] — so the hypotheses `parseUncompressed b = ok p`
and `parseData b = ok p` above are satisfiable by a non-trivial value. -/
def exampleBytes : Bytes :=
  [0x0a, 0x04, 0x08, 0x01, 0x10, 0x02,
   0x12, 0x0a, 0x10, 0x05, 0x1a, 0x06, 0x08, 0x01, 0x18, 0x07, 0x20, 0x02,
   0x32, 0x00, 0x32, 0x01, 0x61, 0x32, 0x01, 0x62]

example : (match parseData exampleBytes with
    | .ok p => p.samples.length == 1 && p.samples.map (·.numUnit) == [[([0x61], [[0x62]])]] && p.validB
    | _ => false) = true := by decide

-- malformed points the property names are rejected, not crashed on: a length prefix past the
-- end, a string index out of the table, wire type 7
example : (Codec.parseUncompressed [0x0a, 0x7f, 0x08]).cls = "err" := by decide
example : (Codec.parseUncompressed [0x0a, 0x02, 0x08, 0x05, 0x32, 0x00]).cls = "err" := by decide
example : (Codec.parseUncompressed [0x0f]).cls = "err" := by decide

-- a recognised binary CPU profile (32-bit little endian, period 10, one sample, end marker)
example : (match LegacyCPU.parseCPU
    [0,0,0,0, 3,0,0,0, 0,0,0,0, 10,0,0,0, 0,0,0,0,  2,0,0,0, 1,0,0,0, 0,0x10,0,0,  0,0,0,0, 1,0,0,0, 0,0,0,0] with
    | .ok (some r) => r.samples.length == 1 && r.period == 10000
    | _ => false) = true := by decide

-- a huge `nstk` (the mutant "drop the nstk > len/4 check" targets this input) is unrecognised
example : (match LegacyCPU.parseCPU
    [0,0,0,0, 3,0,0,0, 0,0,0,0, 10,0,0,0, 0,0,0,0,  2,0,0,0, 0xff,0xff,0xff,0xff] with
    | .ok none => true
    | _ => false) = true := by decide

/-! ## composed with C01 (round trip) — a parser result can be Copied

The statements the header lists as "NOT proved here … Copy (needs C01's round-trip theorem)".
(C01's `parse_serialize` / `copy_eq_normalize` are used through their lemma-level twins in
`Lemmas/ComposeCodec.lean`, so that this file does not import C01's Props file.)
`Valid`, `unitsAligned`, `mapsSorted` of C01's `copy_eq_normalize` come from
`parse_ok_valid_or_rejected`; its range hypothesis `InRange` is DERIVED for every parser output
(`parse_ok_in_range`: the decoder only produces uint64/int64 values).  What stays explicit is
C01's size side condition `EncSizes` on the re-encoded message (string table shorter than 2^63
entries, every length-delimited body shorter than 2^64 bytes; `Codec.EncSizes_of_counts`
discharges it from element counts below 2^56): it is a fact about the SIZE of the re-encoding,
which the model does not bound by the size of the input. -/

/-- `parseData b = ok p` unfolds to: `ParseUncompressed` returned `p` and `p` passed the gate. -/
theorem parseData_ok_iff (b : Bytes) (p : Profile) :
    parseData b = .ok p ↔ Codec.parseUncompressed b = .ok p ∧ p.Valid := Parse.parseData_ok_iff b p

/-- Every integer of a profile returned by `ParseUncompressed` fits its Go type (ids, addresses
uint64; values, lines, numeric label values, times int64): C01's `InRange`, for ALL bytes. -/
theorem parse_ok_in_range (b : Bytes) (p : Profile) (h : Codec.parseUncompressed b = .ok p) :
    Codec.InRange p := Codec.parseUncompressed_inRange b p h

/-- **A parser result can be Copied.**  For any bytes `b` that `ParseData` accepts, `Copy` of the
result does not panic: it returns the normalised profile (C01), which is again valid, aligned and
key-sorted — provided the re-encoding meets the size side condition `EncSizes`. -/
theorem parse_ok_copy_no_panic (b : Bytes) (p : Profile) (h : parseData b = .ok p)
    (hz : ∀ x, Codec.preEncode p = .ok x → Codec.EncSizes x) :
    Codec.copy p = .ok (Codec.Profile.normalize p) ∧ (∀ s, Codec.copy p ≠ .panic s) ∧
    (Codec.Profile.normalize p).Valid ∧ (Codec.Profile.normalize p).unitsAligned = true ∧
    (Codec.Profile.normalize p).mapsSorted = true := by
  obtain ⟨hp, hv⟩ := (parseData_ok_iff b p).mp h
  obtain ⟨ha, hs⟩ := parseUncompressed_ok b p hp
  have hc := Codec.copy_normalize p hv ha hs (parse_ok_in_range b p hp) hz
  obtain ⟨hv', ha', hs'⟩ := Codec.normalize_keeps_contract p hv ha hs
  refine ⟨hc, ?_, hv', ha', hs'⟩
  intro s hpan
  rw [hc] at hpan
  cases hpan

/-- … and written and read back: `ParseData (Write p) = ok (normalize p)`, so a second
parse/serialize generation is a fixpoint (reading (2) of C01, now for every accepted input). -/
theorem parse_ok_reparse (b : Bytes) (p : Profile) (h : parseData b = .ok p)
    (hz : ∀ x, Codec.preEncode p = .ok x → Codec.EncSizes x) :
    ∃ b', Codec.serialize p = .ok b' ∧ parseData b' = .ok (Codec.Profile.normalize p) := by
  obtain ⟨hp, hv⟩ := (parseData_ok_iff b p).mp h
  obtain ⟨ha, hs⟩ := parseUncompressed_ok b p hp
  obtain ⟨b', h1, h2⟩ := Codec.parse_serialize_normalize p hv ha hs (parse_ok_in_range b p hp) hz
  exact ⟨b', h1, (parseData_ok_iff b' _).mpr ⟨h2, (Codec.normalize_keeps_contract p hv ha hs).1⟩⟩

/-- what `ParseData` returns for `exampleBytes` -/
def exampleParsed : Profile :=
  { sampleType := [⟨[97], [98]⟩], defaultSampleType := [],
    samples := [⟨[], [5], [], [([97], [7])], [([97], [[98]])]⟩],
    mappings := [], locations := [], functions := [], comments := [], docURL := [], dropFrames := [],
    keepFrames := [], timeNanos := 0, durationNanos := 0, periodType := some ⟨[], []⟩, period := 0 }

-- non-vacuity: the example bytes are accepted, the re-encoding of the result meets the size
-- condition, so `Copy` is `ok`
example : parseData exampleBytes = .ok exampleParsed ∧
    (∀ x, Codec.preEncode exampleParsed = .ok x → Codec.EncSizes x) ∧
    Codec.copy exampleParsed = .ok (Codec.Profile.normalize exampleParsed) := by
  have h1 : parseData exampleBytes = .ok exampleParsed := by decide
  have h2 : ∀ x, Codec.preEncode exampleParsed = .ok x → Codec.EncSizes x := by
    intro x hx
    have hx' : x = (match Codec.preEncode exampleParsed with | .ok y => y | _ => default) := by rw [hx]
    subst hx'
    exact Codec.EncSizes_of_counts (by decide) (by decide) (by decide) (by decide) (by decide)
  exact ⟨h1, h2, (parse_ok_copy_no_panic exampleBytes exampleParsed h1 h2).1⟩

/-! ## composed with C03 (merge) — a parser result can be Compacted / Merged

C03's theorems need `Valid` (the gate), `Typed` (values and numeric label values are int64 —
DERIVED for parser outputs, it is part of `InRange`) and, for merging several profiles,
compatibility with the first (which requires a `PeriodType`: every parser output has one,
`postDecode` supplies the empty value type).  Non-negative periods are needed only for the
period rule of the merged header, not for any statement below. -/

/-- Every parser result is well typed in the sense of C03 and carries a period type. -/
theorem parse_ok_typed (b : Bytes) (p : Profile) (h : Codec.parseUncompressed b = .ok p) :
    Merge.Typed p ∧ p.periodType.isSome = true :=
  ⟨Codec.parseUncompressed_typed b p h, Codec.parseUncompressed_periodType_isSome b p h⟩

/-- **A parser result can be Compacted and stays valid**: `Compact` returns a profile — no panic,
the re-merge recursion terminates — that is valid, well typed and has the same weight for every
stack (C03's `compact_conserves` — through its lemma-level twin `Merge.compact_spec` — with all
its hypotheses discharged). -/
theorem parse_ok_compact_valid (b : Bytes) (p : Profile) (h : parseData b = .ok p) :
    ∃ c, Merge.compact p = .ok c ∧ c.Valid ∧ Merge.Typed c ∧ ∀ k, Spec.weight c k = Spec.weight p k := by
  obtain ⟨hp, hv⟩ := (parseData_ok_iff b p).mp h
  exact Merge.compact_spec p hv (parse_ok_typed b p hp).1

/-- … and its header is the documented one (`Compact` = `Merge` of one profile), PROVIDED the period
is not negative: this hypothesis stays explicit — the parser accepts any int64 period
(`negative_period_accepted`) and C03's period rule needs `0 ≤ period` (`period_rule_needs_nonneg`). -/
theorem parse_ok_compact_header (b : Bytes) (p : Profile) (h : parseData b = .ok p) (hper : 0 ≤ p.period) :
    ∃ c, Merge.compact p = .ok c ∧ Spec.headerOf c = Spec.combineHeadersSpec p [] := by
  obtain ⟨hv, ht⟩ := Merge.parsed_valid_typed b p h
  have hin : Merge.Inputs p [] := ⟨by intro q hq; simp at hq; subst hq; exact hv,
    by intro q hq; simp at hq; subst hq; exact ht, Merge.compatibleB_self_single p⟩
  obtain ⟨c, hc, _⟩ := Merge.merge_spec p [] hin
  exact ⟨c, hc, Merge.merge_header p [] hin (by intro q hq; simp at hq; subst hq; exact hper) c hc⟩

/-- the parser does accept a negative period (field 12 = -1): non-negativity is not a consequence of
parsing. -/
theorem negative_period_accepted :
    (match parseData [0x32, 0x00, 0x60, 0xff, 0xff, 0xff, 0xff, 0xff, 0xff, 0xff, 0xff, 0xff, 0x01] with
     | .ok p => decide (p.period = -1)
     | _ => false) = true := by decide

/-- the name DESIGN gives the statement for arbitrary valid profiles: `Compact` of a valid,
well-typed profile neither panics nor leaves validity. -/
theorem valid_compact_no_panic_valid (p : Profile) (hv : p.Valid) (ht : Merge.Typed p) :
    (∀ s, Merge.compact p ≠ .panic s) ∧ ∃ c, Merge.compact p = .ok c ∧ c.Valid := by
  obtain ⟨c, hc, hcv, _⟩ := Merge.compact_spec p hv ht
  refine ⟨?_, c, hc, hcv⟩
  intro s hpan
  rw [hc] at hpan
  cases hpan

/-- **`Merge` of parser results terminates** (never the model's fuel panic, never another panic):
for any accepted inputs that are compatible with the first (same sample types and period type)
`Merge` returns a valid profile whose weight function is the sum of the inputs'. -/
theorem merge_terminates (b : Bytes) (bs : List Bytes) (first : Profile) (rest : List Profile)
    (hf : parseData b = .ok first)
    (hr : List.Forall₂ (fun b p => parseData b = .ok p) bs rest)
    (hc : ∀ p ∈ rest, Spec.compatibleB first p = true) :
    (∀ site, Merge.merge (first :: rest) ≠ .panic site) ∧
    ∃ r, Merge.merge (first :: rest) = .ok r ∧ r.Valid ∧
      ∀ k, Spec.weight r k = Spec.mergedWeight (first :: rest) k := by
  have hall : ∀ p ∈ first :: rest, p.Valid ∧ Merge.Typed p := by
    intro p hp
    rcases List.mem_cons.mp hp with rfl | hp
    · obtain ⟨h1, h2⟩ := (parseData_ok_iff b p).mp hf
      exact ⟨h2, (parse_ok_typed b p h1).1⟩
    · obtain ⟨b', _, hb'⟩ := Merge.forall₂_mem_right hr hp
      obtain ⟨h1, h2⟩ := (parseData_ok_iff b' p).mp hb'
      exact ⟨h2, (parse_ok_typed b' p h1).1⟩
  have hv : ∀ p ∈ first :: rest, p.Valid := fun p hp => (hall p hp).1
  have ht : ∀ p ∈ first :: rest, Merge.Typed p := fun p hp => (hall p hp).2
  obtain ⟨r, hr, hrv, _, _, _, hw, _⟩ := Merge.merge_spec first rest ⟨hv, ht, hc⟩
  refine ⟨?_, r, hr, hrv, hw⟩
  intro site hpan
  rw [hr] at hpan
  cases hpan

-- non-vacuity: the example result is compatible with itself (period type present, same sample
-- types), so merging it with itself is an instance
example : parseData exampleBytes = .ok exampleParsed ∧ Spec.compatibleB exampleParsed exampleParsed = true := by
  constructor <;> decide


/-! ## Regenerated wire-schema facts (shared with C01; tools/extract/codecschema.go) -/

open PV PV.Wire PV.Codec

section WireSchema
open PV.CodecSchema PV.Spec.CodecSchemaExpected

/-- The decoder tables, interpreted generically (`dec[b.field]`, out of range ⇒ skipped), are the
model's `apply` functions — for every wire field, including field numbers outside the tables. -/
theorem schema_decoders_are_model :
    (∀ (m : ProfileX) (f : Field), applyBy ProfileX.dict m f ProfileX.decTable = ProfileX.apply m f) ∧
    (∀ (m : ValueTypeX) (f : Field), applyBy ValueTypeX.dict m f ValueTypeX.decTable = ValueTypeX.apply m f) ∧
    (∀ (m : SampleX) (f : Field), applyBy SampleX.dict m f SampleX.decTable = SampleX.apply m f) ∧
    (∀ (m : LabelX) (f : Field), applyBy LabelX.dict m f LabelX.decTable = LabelX.apply m f) ∧
    (∀ (m : MappingX) (f : Field), applyBy MappingX.dict m f MappingX.decTable = MappingX.apply m f) ∧
    (∀ (m : LocationX) (f : Field), applyBy LocationX.dict m f LocationX.decTable = LocationX.apply m f) ∧
    (∀ (m : LineX) (f : Field), applyBy LineX.dict m f LineX.decTable = LineX.apply m f) ∧
    (∀ (m : FunctionX) (f : Field), applyBy FunctionX.dict m f FunctionX.decTable = FunctionX.apply m f) :=
  Facts.schema_decoders_are_model

/-- The decoder tables regenerated from profile/encode.go are the decoder tables of the model: same
message types in the same order, same closure (decode function, receiver type, field, nested
message type, attachment, extra checks) at every table index.  (The encoder side of the schema is
C01's obligation `codec_schema_matches`; parsing does not depend on it.) -/
theorem decoder_schema_matches :
    Gen.CodecSchema.all.map decoderPart = expectedSchema.map decoderPart := Facts.decoder_schema_matches

/-- Every regenerated decoder table lists its entries at their own index (the Go code indexes the
table by the field number; the model's tables carry the index explicitly). -/
theorem decoder_indexes_are_positions : Gen.CodecSchema.all.all indexesArePositions = true :=
  Facts.decoder_indexes_are_positions

/-- proto.go `decodeVarint` gives up at the byte index at which the model does. -/
theorem varint_limit_matches (i u : Nat) (b : UInt8) (rest : Bytes) :
    decodeVarintGo i u (b :: rest) =
      if i ≥ Gen.CodecSchema.proto.varintLimit then .err "bad varint" else
      let u' := (u + (b.toNat % 128) * 2 ^ (7 * i)) % two64
      if b.toNat < 128 then .ok (u', rest) else decodeVarintGo (i + 1) u' rest :=
  Facts.varint_limit_matches i u b rest

/-- proto.go `decodeField` splits the key, accepts exactly the wire types and reads exactly the
fixed widths the model does: for any input whose key varint decodes to `x`. -/
theorem wire_types_match (data rest : Bytes) (x : Nat) (h : decodeVarint data = .ok (x, rest)) :
    (x % (Gen.CodecSchema.proto.typeMask + 1) ∉ Gen.CodecSchema.proto.wireTypes →
      decodeField data = .err "unknown wire type") ∧
    (∀ t n, (t, n) ∈ Gen.CodecSchema.proto.fixedSizes → x % (Gen.CodecSchema.proto.typeMask + 1) = t →
      decodeField data =
        if rest.length < n then .err "not enough data"
        else .ok ({ num := x / 2 ^ Gen.CodecSchema.proto.fieldShift, typ := t, u64 := le (rest.take n), data := [] },
                  rest.drop n)) :=
  Facts.wire_types_match data rest x h

/-- the hypothesis of `wire_types_match` is satisfiable: a fixed64 field (key 9 = field 1, type 1) -/
example : decodeVarint [9, 1, 2, 3, 4, 5, 6, 7, 8] = .ok (9, [1, 2, 3, 4, 5, 6, 7, 8]) := by decide

/-- postDecode's dense id tables, WHEN the translator recognises the id-table code (inline slices or
one generic helper type with a dense slice and a map): at most one per entity table (Mapping, Function, Location), each of the length the model
(`IdTables.build`) uses, and no index expression on them outside `if id < uint64(len(table))`.
When the code has another shape (`denseTables = none`) this says nothing; the dynamic correspondence
and C02's `postDecode_id_tables_total` remain. -/
theorem dense_tables_match (ts : List Gen.CodecSchema.DenseTable)
    (h : Gen.CodecSchema.denseTables = some ts) :
    ∃ extra, ts.all (denseTableOK extra) = true ∧
      ∀ ids : List Nat, IdTables.build ids =
        IdTables.buildGo { dense := List.replicate (ids.length + extra) none, sparse := [] } 0 ids :=
  Facts.dense_tables_match ts h

/-- the hypothesis is satisfiable (and on the pinned tree it is satisfied: the tables are recognised) -/
example : denseTableOK 1 { elem := "Mapping", table := "Mapping", extra := 1, unguardedIndexes := 0 } = true := by decide

end WireSchema


end PV.Props.C02
