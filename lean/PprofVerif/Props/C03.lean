import PprofVerif.Lemmas.MergeIntern
import PprofVerif.Lemmas.MergeAccum
import PprofVerif.Lemmas.MergeKeys
import PprofVerif.Lemmas.MergeHeaders
/-!
# C03 — Merging conserves every stack's weight and symbol information

Property theorems only (helper lemmas live in `Lemmas/Merge*.lean`).  They are about the
executable model `Model/Merge.lean` of profile/merge.go (as repaired by /verif/fixes/C03-*.patch)
and the specification `Spec/Weight.lean` (semantic stack keys, `weight`).  The correspondence
check (`harness/c03.go`) ties the model to the real code on every run and evaluates the same
Spec on the real code's output.
-/
namespace PV.Props.C03
open PV PV.Merge PV.Spec
open PV.Wire (InI64)

/-! ## the identity keys are injective on identities -/

/-- `Function.key` distinguishes exactly name, system name, file name and start line. -/
theorem functionKey_injective (f g : Function) :
    functionKey f = functionKey g ↔ funcIdent f = funcIdent g := by
  cases f; cases g; simp [functionKey, funcIdent]; tauto

/-- `Mapping.key` distinguishes exactly the binary identity: build id (or, without one, the
file), the 4 KiB-rounded size and the file offset — not the load address, id or flags. -/
theorem mappingKey_eq_iff_sameBinary (m m' : Mapping) :
    mappingKey m = mappingKey m' ↔ mapIdent m = mapIdent m' := by
  have hb : ∀ x : Mapping, (if x.buildID ≠ [] then x.buildID else if x.file ≠ [] then x.file else []) =
      (if x.buildID = [] then x.file else x.buildID) := by
    intro x; by_cases h1 : x.buildID = [] <;> by_cases h2 : x.file = [] <;> simp [h1, h2]
  simp only [mappingKey, mapIdent, MappingKey.mk.injEq, MapIdent.mk.injEq, hb]
  constructor
  · rintro ⟨h1, h2, h3⟩; exact ⟨h3, h1, h2⟩
  · rintro ⟨h1, h2, h3⟩; exact ⟨h2, h3, h1⟩

-- the same binary mapped elsewhere (ASLR), other id, other flags, size differing below 4 KiB
example : mappingKey ⟨1, 0x1000, 0x3000, 0, [47], [1], false, false, false, false⟩ =
    mappingKey ⟨9, 0x7f0000001000, 0x7f0000002fff, 0, [48], [1], true, false, false, false⟩ := by decide

/-- `Location.key` (as repaired) distinguishes the mapping, the mapping-relative address, the
folded flag and **every** field of **every** line of the inline chain. -/
theorem locationKey_injective (ms ms' : Nat) (l l' : Location) (h : locationKey ms l = locationKey ms' l') :
    l.mappingID = l'.mappingID ∧ l.lines = l'.lines ∧ l.isFolded = l'.isFolded ∧
      (if l.mappingID = 0 then l.address else subU64 l.address ms) =
        (if l'.mappingID = 0 then l'.address else subU64 l'.address ms') :=
  locationKey_inj ms ms' l l' h

/-- the byte string `locationKey.lines` determines the list of (function id, line, column). -/
theorem linesKey_injective (a b : List Line) (h : linesKey a = linesKey b) : a = b := linesKey_inj a b h

-- the pair that collides in the unrepaired code: only the column of a non-last line differs
example : linesKey [⟨1, 5, 2⟩, ⟨2, 7, 3⟩] ≠ linesKey [⟨1, 5, 9⟩, ⟨2, 7, 3⟩] :=
  fun h => by have := linesKey_inj _ _ h; simp at this

/-- `sampleKey` (as repaired) distinguishes the remapped stack, the string labels (keys, values,
multiplicity, order) and the numeric labels with their units; in particular a string label can
no longer be confused with a numeric one. -/
theorem sampleKey_injective (a b : Sample) (ha : ∀ id ∈ a.locationIDs, id ≠ 0) (hb : ∀ id ∈ b.locationIDs, id ≠ 0)
    (hna : ∀ kv ∈ a.numLabel, ∀ v ∈ kv.2, InI64 v) (hnb : ∀ kv ∈ b.numLabel, ∀ v ∈ kv.2, InI64 v)
    (h : sampleKey a = sampleKey b) :
    a.locationIDs = b.locationIDs ∧ a.label = b.label ∧
      labelsWithUnits a.numLabel a.numUnit = labelsWithUnits b.numLabel b.numUnit :=
  sampleKey_inj a b ha hb hna hnb h

-- the pair that collides in the unrepaired code: Label{k:["\x00"]} vs NumLabel{k:[1]}
example : sampleKey ⟨[1], [1], [([107], [[0]])], [], []⟩ ≠ sampleKey ⟨[1], [1], [], [([107], [1])], []⟩ :=
  fun h => by
    have := (sampleKey_inj _ _ (by simp) (by simp) (by simp) (by simp [InI64, PV.Wire.two63]) h).2.1
    simp at this

/-! ## interning (memo tables) -/

/-- Memo table built by `internBy`: keys pairwise distinct, exactly the keys fed in, and the id
assigned to a key (`len(table)+1` at insertion) is a bijection between keys seen and entries:
it lies in `1..len`, the entry at that position carries the key, and equal ids mean equal keys. -/
theorem intern_ids_bijective {ε κ : Type} [DecidableEq κ] (key : ε → κ) (es : List ε) :
    let tab := internBy key es
    (tab.map key).Nodup ∧ (∀ k, k ∈ tab.map key ↔ k ∈ es.map key) ∧
    (∀ e ∈ es, 1 ≤ idOf key tab (key e) ∧ idOf key tab (key e) ≤ tab.length ∧
       ∃ e', tab[idOf key tab (key e) - 1]? = some e' ∧ key e' = key e ∧ e' ∈ es) ∧
    (∀ e ∈ es, ∀ k, idOf key tab (key e) = idOf key tab k → key e = k) := by
  intro tab
  have hmem : ∀ e ∈ es, key e ∈ tab.map key := fun e he =>
    (mem_internBy_keys key es _).mpr (List.mem_map_of_mem he)
  refine ⟨internBy_keys_nodup key es, mem_internBy_keys key es, ?_, ?_⟩
  · intro e he
    obtain ⟨e', _, h2, h3, h4⟩ := entryOf_spec key tab (key e) (hmem e he)
    exact ⟨idOf_pos key tab _, idOf_le key tab _ (hmem e he), e', h4, h2, mem_internBy key es e' h3⟩
  · intro e he k h
    exact idOf_inj key tab (hmem e he) h

/-- looking a key up returns the *first* entity that was interned under it. -/
theorem intern_lookup_first {ε κ : Type} [DecidableEq κ] (key : ε → κ) (es : List ε) (k : κ) :
    entryOf key (internBy key es) k = es.find? (fun e => decide (key e = k)) :=
  entryOf_internBy key es k

/-- `entries[i].id = i+1` for the tables of the merged profile. -/
theorem intern_entries_numbered {ε : Type} (setId : ε → Nat → ε) (getId : ε → Nat)
    (hget : ∀ e n, getId (setId e n) = n) (tab : List ε) :
    (renum setId 1 tab).map getId = List.range' 1 tab.length :=
  renum_ids setId getId hget 1 tab

example : internBy (fun n : Nat => n % 3) [4, 7, 5, 3, 8] = [4, 5, 3] := by decide

/-! ## the sample memo conserves -/

/-- **Conservation for the sample-level merge given an injective key scheme**
(`mergeWith_conserves` of DESIGN §3).  For any notion `ident` of the identity of a remapped
sample that ignores its values: if on the samples fed to `mapSample` "same concrete key ⇔ same
identity", then no step panics, the memo ends with every identity at most once, every entry has
the stack and labels of a sample fed in under its key, and for every identity the entry's
values are exactly the element-wise int64 sum of the values fed in under that identity. -/
theorem mergeWith_conserves {ι : Type} [DecidableEq ι] {n : Nat} (xs : List (Str × Sample))
    (ident : Sample → ι) (hshape : ∀ a b, SameShape a b → ident a = ident b)
    (hinj : ∀ x ∈ xs, ∀ y ∈ xs, (x.1 = y.1 ↔ ident x.2 = ident y.2))
    (hxs : ∀ x ∈ xs, VecOK n x.2.values) :
    ∃ tab, accumulate [] xs = .ok tab ∧
      (tab.map (fun e => ident e.2)).Nodup ∧
      (∀ e ∈ tab, ∃ x ∈ xs, x.1 = e.1 ∧ SameShape e.2 x.2) ∧
      ∀ i, sumV n ((tab.filter (fun e => decide (ident e.2 = i))).map (·.2.values)) =
           sumV n ((xs.filter (fun x => decide (ident x.2 = i))).map (·.2.values)) :=
  accumulate_conserves xs ident hshape hinj hxs

-- non-vacuity: two samples under one key and one under another
example : ∃ tab, accumulate [] [([1], { (default : Sample) with values := [3, -4] }),
      ([2], { (default : Sample) with values := [1, 1] }), ([1], { (default : Sample) with values := [-3, 9] })] = .ok tab ∧
    tab.map (·.2.values) = [[0, 5], [1, 1]] := ⟨_, rfl, by decide⟩

/-! ## headers -/

/-- **`combineHeaders` (as repaired) computes the documented header** for compatible inputs with
non-negative periods: period = maximum, time = earliest non-zero, duration = (int64) sum,
comments = de-duplicated union in order, default sample type / doc URL = first non-empty,
sample types, period type, drop/keep frames = the first profile's; and no tables yet. -/
theorem combineHeaders_spec (first : Profile) (rest : List Profile)
    (hc : ∀ p ∈ rest, compatibleB first p = true) (hper : ∀ p ∈ first :: rest, 0 ≤ p.period) :
    ∃ h, combineHeaders first rest = .ok h ∧ headerOf h = combineHeadersSpec first rest ∧
      h.samples = [] ∧ h.mappings = [] ∧ h.locations = [] ∧ h.functions = [] :=
  Merge.combineHeaders_spec first rest hc hper

/-- an incompatible input (period types present) makes `Merge` return an error — not a panic,
not a profile. -/
theorem merge_rejects_incompatible (first : Profile) (rest : List Profile) (hp : first.periodType.isSome)
    (hps : ∀ p ∈ rest, p.periodType.isSome) (h : ∃ p ∈ rest, compatibleB first p = false) :
    ∃ e, merge (first :: rest) = .err e := by
  obtain ⟨e, he⟩ := compatibleAll_not_ok first rest hp hps h
  refine ⟨e, ?_⟩
  simp [merge, mergeFuel, mergeOnce, combineHeaders, he]

/-- the non-negativity hypothesis of `combineHeaders_spec` cannot be dropped: periods `[0, -3]`
give `-3` although the maximum is `0` (periods are never negative in real profiles). -/
theorem period_rule_needs_nonneg : [0, -3].foldl pstep 0 ≠ maxPeriod [0, -3] := hdr_period_needs_nonneg

-- the time rule on the witness of defect #4: times [5,0,9] give 5
example : earliestNonZero [5, 0, 9] = 5 ∧ [5, 0, 9].foldl tstep 0 = 5 := by decide

end PV.Props.C03
