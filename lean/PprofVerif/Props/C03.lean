import PprofVerif.Lemmas.MergeIntern
import PprofVerif.Lemmas.MergeAccum
import PprofVerif.Lemmas.MergeKeys
import PprofVerif.Lemmas.MergeHeaders
import PprofVerif.Lemmas.MergeTop
import PprofVerif.Lemmas.MergeTotals
import PprofVerif.Lemmas.MergeIdem
import PprofVerif.Lemmas.MergeHeadersPerm
/-!
# C03 — Merging conserves every stack's weight and symbol information

Property theorems only (helper lemmas live in `Lemmas/Merge*.lean`).  They are about the
executable model `Model/Merge.lean` of profile/merge.go (as repaired by /verif/fixes/C03-*.patch)
and the specification `Spec/Weight.lean` (semantic stack keys, `weight`).  The correspondence
check (`harness/c03.go`) ties the model to the real code on every run and evaluates the same
Spec on the real code's output.
-/
namespace PV.Props.C03
open PV PV.Merge PV.Spec
open PV.Wire (InI64)

/-! ## the identity keys are injective on identities -/

/-- `Function.key` distinguishes exactly name, system name, file name and start line. -/
theorem functionKey_injective (f g : Function) :
    functionKey f = functionKey g ↔ funcIdent f = funcIdent g := functionKey_eq_iff f g

/-- `Mapping.key` distinguishes exactly the binary identity: build id (or, without one, the
file), the 4 KiB-rounded size and the file offset — not the load address, id or flags. -/
theorem mappingKey_eq_iff_sameBinary (m m' : Mapping) :
    mappingKey m = mappingKey m' ↔ mapIdent m = mapIdent m' := mappingKey_eq_iff m m'

-- the same binary mapped elsewhere (ASLR), other id, other flags, size differing below 4 KiB
example : mappingKey ⟨1, 0x1000, 0x3000, 0, [47], [1], false, false, false, false⟩ =
    mappingKey ⟨9, 0x7f0000001000, 0x7f0000002fff, 0, [48], [1], true, false, false, false⟩ := by decide

/-- `Location.key` (as repaired) distinguishes the mapping, the mapping-relative address, the
folded flag and **every** field of **every** line of the inline chain. -/
theorem locationKey_injective (ms ms' : Nat) (l l' : Location) (h : locationKey ms l = locationKey ms' l') :
    l.mappingID = l'.mappingID ∧ l.lines = l'.lines ∧ l.isFolded = l'.isFolded ∧
      (if l.mappingID = 0 then l.address else subU64 l.address ms) =
        (if l'.mappingID = 0 then l'.address else subU64 l'.address ms') :=
  locationKey_inj ms ms' l l' h

/-- the byte string `locationKey.lines` determines the list of (function id, line, column). -/
theorem linesKey_injective (a b : List Line) (h : linesKey a = linesKey b) : a = b := linesKey_inj a b h

-- the pair that collides in the unrepaired code: only the column of a non-last line differs
example : linesKey [⟨1, 5, 2⟩, ⟨2, 7, 3⟩] ≠ linesKey [⟨1, 5, 9⟩, ⟨2, 7, 3⟩] :=
  fun h => by have := linesKey_inj _ _ h; simp at this

/-- `sampleKey` (as repaired) distinguishes the remapped stack, the string labels (keys, values,
multiplicity, order) and the numeric labels with their units; in particular a string label can
no longer be confused with a numeric one. -/
theorem sampleKey_injective (a b : Sample) (ha : ∀ id ∈ a.locationIDs, id ≠ 0) (hb : ∀ id ∈ b.locationIDs, id ≠ 0)
    (hna : ∀ kv ∈ a.numLabel, ∀ v ∈ kv.2, InI64 v) (hnb : ∀ kv ∈ b.numLabel, ∀ v ∈ kv.2, InI64 v)
    (h : sampleKey a = sampleKey b) :
    a.locationIDs = b.locationIDs ∧ a.label = b.label ∧
      labelsWithUnits a.numLabel a.numUnit = labelsWithUnits b.numLabel b.numUnit :=
  sampleKey_inj a b ha hb hna hnb h

-- the pair that collides in the unrepaired code: Label{k:["\x00"]} vs NumLabel{k:[1]}
example : sampleKey ⟨[1], [1], [([107], [[0]])], [], []⟩ ≠ sampleKey ⟨[1], [1], [], [([107], [1])], []⟩ :=
  fun h => by
    have := (sampleKey_inj _ _ (by simp) (by simp) (by simp) (by simp [InI64, PV.Wire.two63]) h).2.1
    simp at this

/-! ## interning (memo tables) -/

/-- Memo table built by `internBy`: keys pairwise distinct, exactly the keys fed in, and the id
assigned to a key (`len(table)+1` at insertion) is a bijection between keys seen and entries:
it lies in `1..len`, the entry at that position carries the key, and equal ids mean equal keys. -/
theorem intern_ids_bijective {ε κ : Type} [DecidableEq κ] (key : ε → κ) (es : List ε) :
    let tab := internBy key es
    (tab.map key).Nodup ∧ (∀ k, k ∈ tab.map key ↔ k ∈ es.map key) ∧
    (∀ e ∈ es, 1 ≤ idOf key tab (key e) ∧ idOf key tab (key e) ≤ tab.length ∧
       ∃ e', tab[idOf key tab (key e) - 1]? = some e' ∧ key e' = key e ∧ e' ∈ es) ∧
    (∀ e ∈ es, ∀ k, idOf key tab (key e) = idOf key tab k → key e = k) := by
  intro tab
  have hmem : ∀ e ∈ es, key e ∈ tab.map key := fun e he =>
    (mem_internBy_keys key es _).mpr (List.mem_map_of_mem he)
  refine ⟨internBy_keys_nodup key es, mem_internBy_keys key es, ?_, ?_⟩
  · intro e he
    obtain ⟨e', _, h2, h3, h4⟩ := entryOf_spec key tab (key e) (hmem e he)
    exact ⟨idOf_pos key tab _, idOf_le key tab _ (hmem e he), e', h4, h2, mem_internBy key es e' h3⟩
  · intro e he k h
    exact idOf_inj key tab (hmem e he) h

/-- looking a key up returns the *first* entity that was interned under it. -/
theorem intern_lookup_first {ε κ : Type} [DecidableEq κ] (key : ε → κ) (es : List ε) (k : κ) :
    entryOf key (internBy key es) k = es.find? (fun e => decide (key e = k)) :=
  entryOf_internBy key es k

/-- `entries[i].id = i+1` for the tables of the merged profile. -/
theorem intern_entries_numbered {ε : Type} (setId : ε → Nat → ε) (getId : ε → Nat)
    (hget : ∀ e n, getId (setId e n) = n) (tab : List ε) :
    (renum setId 1 tab).map getId = List.range' 1 tab.length :=
  renum_ids setId getId hget 1 tab

example : internBy (fun n : Nat => n % 3) [4, 7, 5, 3, 8] = [4, 5, 3] := by decide

/-! ## the sample memo conserves -/

/-- **Conservation for the sample-level merge given an injective key scheme**
(`mergeWith_conserves` of DESIGN §3).  For any notion `ident` of the identity of a remapped
sample that ignores its values: if on the samples fed to `mapSample` "same concrete key ⇔ same
identity", then no step panics, the memo ends with every identity at most once, every entry has
the stack and labels of a sample fed in under its key, and for every identity the entry's
values are exactly the element-wise int64 sum of the values fed in under that identity. -/
theorem mergeWith_conserves {ι : Type} [DecidableEq ι] {n : Nat} (xs : List (Str × Sample))
    (ident : Sample → ι) (hshape : ∀ a b, SameShape a b → ident a = ident b)
    (hinj : ∀ x ∈ xs, ∀ y ∈ xs, (x.1 = y.1 ↔ ident x.2 = ident y.2))
    (hxs : ∀ x ∈ xs, VecOK n x.2.values) :
    ∃ tab, accumulate [] xs = .ok tab ∧
      (tab.map (fun e => ident e.2)).Nodup ∧
      (∀ e ∈ tab, ∃ x ∈ xs, x.1 = e.1 ∧ SameShape e.2 x.2) ∧
      ∀ i, sumV n ((tab.filter (fun e => decide (ident e.2 = i))).map (·.2.values)) =
           sumV n ((xs.filter (fun x => decide (ident x.2 = i))).map (·.2.values)) :=
  accumulate_conserves xs ident hshape hinj hxs

-- non-vacuity: two samples under one key and one under another
example : ∃ tab, accumulate [] [([1], { (default : Sample) with values := [3, -4] }),
      ([2], { (default : Sample) with values := [1, 1] }), ([1], { (default : Sample) with values := [-3, 9] })] = .ok tab ∧
    tab.map (·.2.values) = [[0, 5], [1, 1]] := ⟨_, rfl, by decide⟩

/-! ## headers -/

/-- **`combineHeaders` (as repaired) computes the documented header** for compatible inputs with
non-negative periods: period = maximum, time = earliest non-zero, duration = (int64) sum,
comments = de-duplicated union in order, default sample type / doc URL = first non-empty,
sample types, period type, drop/keep frames = the first profile's; and no tables yet. -/
theorem combineHeaders_spec (first : Profile) (rest : List Profile)
    (hc : ∀ p ∈ rest, compatibleB first p = true) (hper : ∀ p ∈ first :: rest, 0 ≤ p.period) :
    ∃ h, combineHeaders first rest = .ok h ∧ headerOf h = combineHeadersSpec first rest ∧
      h.samples = [] ∧ h.mappings = [] ∧ h.locations = [] ∧ h.functions = [] :=
  Merge.combineHeaders_spec first rest hc hper

/-- an incompatible input (period types present) makes `Merge` return an error — not a panic,
not a profile. -/
theorem merge_rejects_incompatible (first : Profile) (rest : List Profile) (hp : first.periodType.isSome)
    (hps : ∀ p ∈ rest, p.periodType.isSome) (h : ∃ p ∈ rest, compatibleB first p = false) :
    ∃ e, merge (first :: rest) = .err e := by
  obtain ⟨e, he⟩ := compatibleAll_not_ok first rest hp hps h
  refine ⟨e, ?_⟩
  simp [merge, mergeFuel, mergeOnce, combineHeaders, he]

/-- the non-negativity hypothesis of `combineHeaders_spec` cannot be dropped: periods `[0, -3]`
give `-3` although the maximum is `0` (periods are never negative in real profiles). -/
theorem period_rule_needs_nonneg : [0, -3].foldl pstep 0 ≠ maxPeriod [0, -3] := hdr_period_needs_nonneg

-- the time rule on the witness of defect #4: times [5,0,9] give 5
example : earliestNonZero [5, 0, 9] = 5 ∧ [5, 0, 9].foldl tstep 0 = 5 := by decide

/-! ## the merge -/

/-- On the locations the traversal meets, the concrete `Location.key` of the remapped location
(rebased address, merged mapping id, merged function ids) agrees exactly with the frame identity
of the Spec (invariant I3 of DESIGN A.2). -/
theorem locationKey_iff_frameIdent (srcs : List Src) (l1 l2 : RLocation) (h1 : l1 ∈ allLocs srcs) :
    locKeyOf (buildTables srcs).ftab (buildTables srcs).mtab l1 =
      locKeyOf (buildTables srcs).ftab (buildTables srcs).mtab l2 ↔ frameIdent l1 = frameIdent l2 :=
  locKeyOf_eq_iff _ _ l1 l2 (locIn_of_mem_allLocs srcs h1)

/-- **C03, main theorem.**  For every non-empty list of valid profiles (values are int64,
periods non-negative) that are compatible with the first: `Merge` returns a profile `r` — the
re-merge recursion terminates, nothing panics — such that
  * `r` is valid;
  * for **every** stack key `k` (frames compared by binary identity, relative address, function
    name / system name / file / start line, line, column, inline nesting, folded flag; plus the
    label sets), `weight r k` is the element-wise int64 sum of `weight p k` over the inputs —
    so nothing is added, dropped or altered;
  * every stack key occurs in at most one sample of `r`;
  * no sample of `r` is all-zero;
  * the header is the documented combination. -/
theorem merge_conserves (first : Profile) (rest : List Profile)
    (hv : ∀ p ∈ first :: rest, p.Valid) (ht : ∀ p ∈ first :: rest, Typed p)
    (hc : ∀ p ∈ rest, compatibleB first p = true) (hper : ∀ p ∈ first :: rest, 0 ≤ p.period) :
    ∃ r, merge (first :: rest) = .ok r ∧ r.Valid ∧
      (∀ k, weight r k = mergedWeight (first :: rest) k) ∧
      (∃ rr, resolve r = some rr ∧ (rr.map stackKey).Nodup) ∧
      (∀ s ∈ r.samples, isZeroV s.values = false) ∧
      headerOf r = combineHeadersSpec first rest := by
  obtain ⟨r, hr, hval, _, _, _, hw, hnd, hnz, _⟩ := merge_spec first rest ⟨hv, ht, hc⟩
  exact ⟨r, hr, hval, hw, hnd, hnz, merge_header first rest ⟨hv, ht, hc⟩ hper r hr⟩

-- non-vacuity: two compatible valid profiles sharing a stack (ids collide, binary mapped elsewhere)
private def exM (id start : Nat) : Mapping := ⟨id, start, start + 0x2000, 0, [47, 97], [98], true, false, false, false⟩
private def exP (mid start v : Int) : Profile :=
  { sampleType := [⟨[99], [110]⟩], defaultSampleType := [], periodType := some ⟨[99], [110]⟩, period := 1,
    samples := [⟨[1], [v], [], [], []⟩], mappings := [exM mid.toNat start.toNat],
    locations := [⟨1, mid.toNat, start.toNat + 0x10, [⟨1, 5, 2⟩], false⟩],
    functions := [⟨1, [102], [102], [97], 10⟩], comments := [], docURL := [], dropFrames := [], keepFrames := [],
    timeNanos := 5, durationNanos := 1 }
example : (∀ p ∈ [exP 1 0x1000 3, exP 7 0x7f0000 4], p.Valid) ∧ (∀ p ∈ [exP 1 0x1000 3, exP 7 0x7f0000 4], Typed p) ∧
    compatibleB (exP 1 0x1000 3) (exP 7 0x7f0000 4) = true := by
  refine ⟨by decide, ?_, by decide⟩
  intro p hp
  simp only [List.mem_cons, List.mem_nil_iff, or_false] at hp
  rcases hp with rfl | rfl <;> (intro s hs; simp [exP] at hs; subst hs; simp [InI64, PV.Wire.two63])

/-- `Merge` of valid compatible inputs never ends in the model's fuel panic: the re-merge
recursion terminates (its measure is the sample count). -/
theorem merge_terminates (first : Profile) (rest : List Profile)
    (hv : ∀ p ∈ first :: rest, p.Valid) (ht : ∀ p ∈ first :: rest, Typed p)
    (hc : ∀ p ∈ rest, compatibleB first p = true) : ∀ site, merge (first :: rest) ≠ .panic site := by
  obtain ⟨r, hr, _⟩ := merge_spec first rest ⟨hv, ht, hc⟩
  intro site h; rw [hr] at h; cases h

/-- **order independence**: permuting the inputs does not change the weight function of the result. -/
theorem merge_perm (f1 : Profile) (r1 : List Profile) (f2 : Profile) (r2 : List Profile)
    (h1 : Inputs f1 r1) (h2 : Inputs f2 r2) (hp : (f1 :: r1).Perm (f2 :: r2)) :
    ∃ a b, merge (f1 :: r1) = .ok a ∧ merge (f2 :: r2) = .ok b ∧ ∀ k, weight a k = weight b k := by
  obtain ⟨a, ha, _, _, _, _, hwa, _⟩ := merge_spec f1 r1 h1
  obtain ⟨b, hb, _, _, _, _, hwb, _⟩ := merge_spec f2 r2 h2
  refine ⟨a, b, ha, hb, fun k => ?_⟩
  rw [hwa k, hwb k]
  have hn : f2.sampleType.length = f1.sampleType.length := h1.lengths f2 (hp.mem_iff.mpr (by simp))
  show sumV _ _ = sumV _ _
  rw [hn]
  exact sumV_perm (hp.map _)

/-- `Compact` conserves the weight function of the profile. -/
theorem compact_conserves (p : Profile) (hv : p.Valid) (ht : Typed p) :
    ∃ c, compact p = .ok c ∧ c.Valid ∧ Typed c ∧ ∀ k, weight c k = weight p k := by
  have hin : Inputs p [] := ⟨by intro q hq; simp at hq; subst hq; exact hv,
    by intro q hq; simp at hq; subst hq; exact ht, compatibleB_self_single p⟩
  obtain ⟨c, hc, hval, htyp, _, _, hw, _⟩ := merge_spec p [] hin
  refine ⟨c, hc, hval, htyp, fun k => ?_⟩
  rw [hw k]
  obtain ⟨src, _, hok⟩ := srcOK_of_valid hv ht
  show sumV _ [weight p k] = weight p k
  apply sumV_singleton
  simp only [weight, hok.res]
  exact weightR_VecOK hok.ok k

/-- **compacting twice equals compacting once** (weight function and header). -/
theorem compact_idem (p : Profile) (hv : p.Valid) (ht : Typed p) (hper : 0 ≤ p.period) :
    ∃ c1 c2, compact p = .ok c1 ∧ compact c1 = .ok c2 ∧ (∀ k, weight c2 k = weight c1 k) ∧
      headerOf c2 = headerOf c1 := by
  obtain ⟨c1, hc1, hv1, ht1, hw1⟩ := compact_conserves p hv ht
  obtain ⟨c2, hc2, _, _, hw2⟩ := compact_conserves c1 hv1 ht1
  have hin : Inputs p [] := ⟨by intro q hq; simp at hq; subst hq; exact hv,
    by intro q hq; simp at hq; subst hq; exact ht, compatibleB_self_single p⟩
  have hh1 : headerOf c1 = combineHeadersSpec p [] :=
    merge_header p [] hin (by intro q hq; simp at hq; subst hq; exact hper) c1 hc1
  have hp1 : 0 ≤ c1.period := by
    have := congrArg Header.period hh1
    have h2 : c1.period = maxPeriod ([p].map (·.period)) := this
    rw [h2]; exact maxPeriod_nonneg _
  have hin1 : Inputs c1 [] := ⟨by intro q hq; simp at hq; subst hq; exact hv1,
    by intro q hq; simp at hq; subst hq; exact ht1, compatibleB_self_single c1⟩
  have hh2 : headerOf c2 = combineHeadersSpec c1 [] :=
    merge_header c1 [] hin1 (by intro q hq; simp at hq; subst hq; exact hp1) c2 hc2
  exact ⟨c1, c2, hc1, hc2, hw2, by rw [hh2, combineHeadersSpec_single c1 p [] hh1]⟩

/-! ## normal form: compacting twice equals compacting once, on the full canonical form -/

-- a valid, int64-typed single profile (hypotheses of the `compact_*` theorems are satisfiable)
private def exP_ok : (exP 1 0x1000 3).Valid ∧ Typed (exP 1 0x1000 3) := by
  refine ⟨by decide, ?_⟩
  intro s hs; simp [exP] at hs; subst hs; simp [InI64, PV.Wire.two63]

/-- **the result of `Merge` is a fixed point of `Merge`/`Compact`, id for id**: for valid
compatible inputs `Merge` returns `r` with `Merge [r] = r` and `Compact r = r` as *profiles* —
same ids, same table order, same samples with the same location ids, labels and values, same
header.  (The output has ids `1..n` in first-occurrence order and every key once, so merging it
again interns every entity in the same order under the same id: `Lemmas/MergeIdem`.) -/
theorem merge_result_is_fixpoint (first : Profile) (rest : List Profile)
    (hv : ∀ p ∈ first :: rest, p.Valid) (ht : ∀ p ∈ first :: rest, Typed p)
    (hc : ∀ p ∈ rest, compatibleB first p = true) :
    ∃ r, merge (first :: rest) = .ok r ∧ merge [r] = .ok r ∧ compact r = .ok r := by
  obtain ⟨r, h1, h2⟩ := merge_fix first rest ⟨hv, ht, hc⟩
  exact ⟨r, h1, h2, h2⟩

/-- **`compact (compact p) = compact p` on the full canonical form** (ids, table order,
everything), for every valid profile. -/
theorem compact_idem_canonical (p : Profile) (hv : p.Valid) (ht : Typed p) :
    ∃ c, compact p = .ok c ∧ compact c = .ok c := by
  have hin : Inputs p [] := ⟨by intro q hq; simp at hq; subst hq; exact hv,
    by intro q hq; simp at hq; subst hq; exact ht, compatibleB_self_single p⟩
  obtain ⟨c, h1, h2⟩ := merge_fix p [] hin
  exact ⟨c, h1, h2⟩

example : ∃ c, compact (exP 1 0x1000 3) = .ok c ∧ compact c = .ok c :=
  compact_idem_canonical _ exP_ok.1 exP_ok.2

/-- **`Compact` returns a valid profile in normal form**: valid (`CheckValid` + reference
closure), int64-typed, ids `1..n` in table order in all three tables, and no two functions /
mappings with the same identity key. -/
theorem compact_valid (p : Profile) (hv : p.Valid) (ht : Typed p) :
    ∃ c, compact p = .ok c ∧ c.Valid ∧ Typed c ∧
      c.functions.map (·.id) = List.range' 1 c.functions.length ∧
      c.mappings.map (·.id) = List.range' 1 c.mappings.length ∧
      c.locations.map (·.id) = List.range' 1 c.locations.length ∧
      (c.functions.map functionKey).Nodup ∧ (c.mappings.map mappingKey).Nodup := by
  have hin : Inputs p [] := ⟨by intro q hq; simp at hq; subst hq; exact hv,
    by intro q hq; simp at hq; subst hq; exact ht, compatibleB_self_single p⟩
  obtain ⟨c, hc, hval, htyp, _⟩ := merge_spec p [] hin
  obtain ⟨c', hc', n1, n2, n3, n4, n5⟩ := merge_tables_normal p [] hin
  rw [hc] at hc'
  simp only [Outcome.ok.injEq] at hc'
  subst hc'
  exact ⟨c, hc, hval, htyp, n1, n2, n3, n4, n5⟩

example : ∃ c, compact (exP 1 0x1000 3) = .ok c ∧ c.Valid := by
  obtain ⟨c, h1, h2, _⟩ := compact_valid _ exP_ok.1 exP_ok.2
  exact ⟨c, h1, h2⟩

/-! ## which header fields depend on the order of the inputs -/

/-- **header rules under a permutation of the inputs**, about `combineHeaders` itself, for all
compatible lists with non-negative periods.  Order-independent: period (maximum), collection
time (earliest non-zero), duration (int64 sum), and the set of comments (each once).  In input
order: the comments are listed in order of first appearance; default sample type and doc URL
are the first non-empty ones.  The first profile's: sample types, period type, drop-frames and
keep-frames. -/
theorem merge_perm_headers (f1 : Profile) (r1 : List Profile) (f2 : Profile) (r2 : List Profile)
    (hc1 : ∀ p ∈ r1, compatibleB f1 p = true) (hc2 : ∀ p ∈ r2, compatibleB f2 p = true)
    (hper : ∀ p ∈ f1 :: r1, 0 ≤ p.period) (hp : (f1 :: r1).Perm (f2 :: r2)) :
    ∃ h1 h2, combineHeaders f1 r1 = .ok h1 ∧ combineHeaders f2 r2 = .ok h2 ∧
      h1.period = h2.period ∧ h1.timeNanos = h2.timeNanos ∧ h1.durationNanos = h2.durationNanos ∧
      h1.comments.Perm h2.comments ∧ h1.comments.Nodup ∧
      h1.comments = dedupInOrder ((f1 :: r1).flatMap (·.comments)) ∧
      h1.defaultSampleType = firstNonEmpty ((f1 :: r1).map (·.defaultSampleType)) ∧
      h1.docURL = firstNonEmpty ((f1 :: r1).map (·.docURL)) ∧
      h1.sampleType = f1.sampleType ∧ h1.periodType = f1.periodType ∧
      h1.dropFrames = f1.dropFrames ∧ h1.keepFrames = f1.keepFrames :=
  combineHeaders_perm f1 r1 f2 r2 hc1 hc2 hper hp

-- non-vacuity, and the order-dependent fields really are order-dependent: swapping two
-- compatible profiles keeps period/time/duration and the comment set, but not the comment
-- order, the default sample type, or drop-frames
private def exH (c : Str) (t d per : Int) (dst drop : Str) : Profile :=
  { sampleType := [⟨[99], [110]⟩], defaultSampleType := dst, periodType := some ⟨[99], [110]⟩, period := per,
    samples := [], mappings := [], locations := [], functions := [], comments := [c], docURL := [],
    dropFrames := drop, keepFrames := [], timeNanos := t, durationNanos := d }
example : compatibleB (exH [1] 5 10 3 [7] [8]) (exH [2] 0 20 9 [6] [9]) = true ∧
    [exH [1] 5 10 3 [7] [8], exH [2] 0 20 9 [6] [9]].Perm [exH [2] 0 20 9 [6] [9], exH [1] 5 10 3 [7] [8]] :=
  ⟨by decide, List.Perm.swap _ _ _⟩
example : combineHeadersSpec (exH [1] 5 10 3 [7] [8]) [exH [2] 0 20 9 [6] [9]] =
      ⟨[⟨[99], [110]⟩], some ⟨[99], [110]⟩, [8], [], 5, 30, 9, [[1], [2]], [7], []⟩ ∧
    combineHeadersSpec (exH [2] 0 20 9 [6] [9]) [exH [1] 5 10 3 [7] [8]] =
      ⟨[⟨[99], [110]⟩], some ⟨[99], [110]⟩, [9], [], 5, 30, 9, [[2], [1]], [6], []⟩ := by decide

/-- **order independence of `Merge`, weights and header together**: permuting valid compatible
inputs (periods non-negative) changes neither the weight of any stack nor period, collection
time, duration or the set of comments of the result; the remaining header fields are the
documented functions of the input order (`merge_conserves`, `merge_perm_headers`). -/
theorem merge_perm_full (f1 : Profile) (r1 : List Profile) (f2 : Profile) (r2 : List Profile)
    (h1 : Inputs f1 r1) (h2 : Inputs f2 r2) (hper : ∀ p ∈ f1 :: r1, 0 ≤ p.period)
    (hp : (f1 :: r1).Perm (f2 :: r2)) :
    ∃ a b, merge (f1 :: r1) = .ok a ∧ merge (f2 :: r2) = .ok b ∧ (∀ k, weight a k = weight b k) ∧
      a.period = b.period ∧ a.timeNanos = b.timeNanos ∧ a.durationNanos = b.durationNanos ∧
      a.comments.Perm b.comments ∧ a.comments.Nodup ∧ b.comments.Nodup ∧
      a.dropFrames = f1.dropFrames ∧ a.keepFrames = f1.keepFrames ∧
      b.dropFrames = f2.dropFrames ∧ b.keepFrames = f2.keepFrames := by
  obtain ⟨a, b, ha, hb, hw⟩ := merge_perm f1 r1 f2 r2 h1 h2 hp
  have hper2 : ∀ p ∈ f2 :: r2, 0 ≤ p.period := fun p hp' => hper p (hp.mem_iff.mpr hp')
  have hha := merge_header f1 r1 h1 hper a ha
  have hhb := merge_header f2 r2 h2 hper2 b hb
  obtain ⟨p1, p2, p3, p4, p5⟩ := combineHeadersSpec_perm f1 r1 f2 r2 hp
  obtain ⟨_, _, _, _, p6⟩ := combineHeadersSpec_perm f2 r2 f1 r1 hp.symm
  rw [← hha, ← hhb] at p1 p2 p3 p4
  rw [← hha] at p5
  rw [← hhb] at p6
  exact ⟨a, b, ha, hb, hw, p1, p2, p3, p4, p5, p6,
    congrArg Header.dropFrames hha, congrArg Header.keepFrames hha,
    congrArg Header.dropFrames hhb, congrArg Header.keepFrames hhb⟩

/-! ## purity -/

/-- "Inputs are neither modified nor aliased by the output", model side.  The model is a pure
function on values, so the only content this obligation has here is that the result is
determined by the fourteen exported fields of each input — exactly the fields whose snapshot
the harness compares before and after the call (`purity/input-modified`); there is no hidden
state a call could leave behind or pick up.  (This is deliberately trivial.  The aliasing half —
no cell of the result is reachable from an input — cannot be expressed in an id-based model
and is checked on the real code by reflect reachability over every pointer, slice and map
field, `harness/c03_reach.go`, with one seeded mutant per field kind in `selftest/C03`.) -/
theorem merge_result_determined_by_exported_fields (ps qs : List Profile)
    (h : List.Forall₂ (fun p q : Profile =>
      p.sampleType = q.sampleType ∧ p.defaultSampleType = q.defaultSampleType ∧ p.samples = q.samples ∧
      p.mappings = q.mappings ∧ p.locations = q.locations ∧ p.functions = q.functions ∧
      p.comments = q.comments ∧ p.docURL = q.docURL ∧ p.dropFrames = q.dropFrames ∧
      p.keepFrames = q.keepFrames ∧ p.timeNanos = q.timeNanos ∧ p.durationNanos = q.durationNanos ∧
      p.periodType = q.periodType ∧ p.period = q.period) ps qs) :
    merge ps = merge qs := by
  have : ps = qs := by
    induction h with
    | nil => rfl
    | @cons p q ps qs hpq _ ih =>
      cases p; cases q
      simp only at hpq
      obtain ⟨a1, a2, a3, a4, a5, a6, a7, a8, a9, a10, a11, a12, a13, a14⟩ := hpq
      subst a1 a2 a3 a4 a5 a6 a7 a8 a9 a10 a11 a12 a13 a14
      rw [ih]
  rw [this]

example : List.Forall₂ (fun p q : Profile => p.samples = q.samples) [exP 1 0x1000 3] [exP 1 0x1000 3] :=
  List.Forall₂.cons rfl List.Forall₂.nil

/-- **per-type totals are conserved**: the element-wise int64 sum of all sample values of the
result equals the sum over the inputs of their totals. -/
theorem merge_totals (first : Profile) (rest : List Profile)
    (hv : ∀ p ∈ first :: rest, p.Valid) (ht : ∀ p ∈ first :: rest, Typed p)
    (hc : ∀ p ∈ rest, compatibleB first p = true) :
    ∃ r, merge (first :: rest) = .ok r ∧
      totals r = sumV first.sampleType.length ((first :: rest).map totals) :=
  merge_totals_eq first rest ⟨hv, ht, hc⟩

/-- **merging in chunks** (needed by C16): merging the merges of two chunks weighs the same as
merging everything at once. -/
theorem merge_assoc_abs (f1 : Profile) (r1 : List Profile) (f2 : Profile) (r2 : List Profile)
    (h1 : Inputs f1 r1) (h2 : Inputs f2 r2) (h12 : Inputs f1 (r1 ++ f2 :: r2)) :
    ∃ a b c d, merge (f1 :: r1) = .ok a ∧ merge (f2 :: r2) = .ok b ∧ merge [a, b] = .ok c ∧
      merge (f1 :: (r1 ++ f2 :: r2)) = .ok d ∧ ∀ k, weight c k = weight d k := by
  obtain ⟨a, ha, hva, hta, hsa, hpa, hwa, _⟩ := merge_spec f1 r1 h1
  obtain ⟨b, hb, hvb, htb, hsb, hpb, hwb, _⟩ := merge_spec f2 r2 h2
  have hc12 : compatibleB f1 f2 = true := h12.compat f2 (by simp)
  have hcab : compatibleB a b = true := by
    unfold compatibleB at hc12 ⊢
    rw [hsa, hpa, hsb, hpb]; exact hc12
  have hin : Inputs a [b] := ⟨by intro q hq; simp at hq; rcases hq with rfl | rfl <;> assumption,
    by intro q hq; simp at hq; rcases hq with rfl | rfl <;> assumption,
    by intro q hq; simp at hq; subst hq; exact hcab⟩
  obtain ⟨c, hc, _, _, _, _, hwc, _⟩ := merge_spec a [b] hin
  obtain ⟨d, hd, _, _, _, _, hwd, _⟩ := merge_spec f1 (r1 ++ f2 :: r2) h12
  refine ⟨a, b, c, d, ha, hb, hc, hd, fun k => ?_⟩
  have hn2 : f2.sampleType.length = f1.sampleType.length := sampleType_length_of_compatibleB hc12
  have hlen : ∀ p ∈ f1 :: (r1 ++ f2 :: r2), (weight p k).length = f1.sampleType.length := by
    intro p hp
    obtain ⟨src, _, hok⟩ := srcOK_of_valid (h12.valid p hp) (h12.typed p hp)
    simp only [weight, hok.res]
    rw [(weightR_VecOK hok.ok k).1]
    exact h12.lengths p hp
  rw [hwc k, hwd k]
  show sumV a.sampleType.length [weight a k, weight b k] = sumV f1.sampleType.length _
  rw [hwa k, hwb k]
  show sumV a.sampleType.length [sumV f1.sampleType.length _, sumV f2.sampleType.length _] = sumV f1.sampleType.length _
  rw [hsa, hn2]
  have e : (f1 :: (r1 ++ f2 :: r2)) = (f1 :: r1) ++ (f2 :: r2) := by simp
  have hl1 : ∀ v ∈ (f1 :: r1).map (weight · k), v.length = f1.sampleType.length := by
    intro v hv
    obtain ⟨p, hp, rfl⟩ := List.mem_map.mp hv
    exact hlen p (by rw [e]; exact List.mem_append_left _ hp)
  have hl2 : ∀ v ∈ (f2 :: r2).map (weight · k), v.length = f1.sampleType.length := by
    intro v hv
    obtain ⟨p, hp, rfl⟩ := List.mem_map.mp hv
    exact hlen p (by rw [e]; exact List.mem_append_right _ hp)
  rw [e, List.map_append, sumV_append _ _ hl1 hl2]
  have hX := sumV_VecOK _ hl1
  generalize sumV f1.sampleType.length (List.map (fun x => weight x k) (f1 :: r1)) = X at hX ⊢
  generalize sumV f1.sampleType.length (List.map (fun x => weight x k) (f2 :: r2)) = Y
  simp only [sumV, List.foldl_cons, List.foldl_nil]
  rw [zeroV_addV hX]

end PV.Props.C03
