import PprofVerif.Lemmas.DotEscape
import PprofVerif.Lemmas.CallgrindComp
import PprofVerif.Gen.DotSites
import PprofVerif.Gen.HtmlSinks
/-!
# C18 — Graph outputs are syntactically valid for any names

Property theorems only (helper lemmas live in `Lemmas/DotEscape`, `Lemmas/CallgrindNum`,
`Lemmas/CallgrindComp`).

The tie to the code has three parts, all re-established on every run of `bin/check C18`:
* `Gen/DotSites.lean` and `Gen/HtmlSinks.lean` are REGENERATED from the source by
  `tools/extract/{dotsites,htmlsinks}.go`; the `decide` theorems below fail to build when a new
  unescaped splice / trusted-type conversion appears or `escapeForDot` changes;
* the Lean functions the theorems are about (`Dot.lex`/`Dot.parse`, `Callgrind.check`) are the
  ones `pvdrv-C18` runs on the REAL output of `pprof -dot` and `pprof -callgrind`, `report.Generate`,
  `graph.ComposeDot` (harness/c18*.go);
* `Dot.escape` is compared with the observable behaviour of `escapeForDot` (node tooltips).
-/
namespace PV.Props.C18
open PV PV.Dot

/-! ## DOT -/

/-- The source of `escapeForDot` (regenerated: its action on each single byte, which determines a
byte-wise function) is the byte map of the model: newline ↦ `\l`, `"` ↦ `\"`, `\` ↦ `\\`, all other
bytes unchanged.  Together with `escape_bytewise` this ties `Dot.escape` to the source. -/
theorem escape_spec_matches :
    Gen.DotSites.escapeBytes = [(NL, escByte NL), (DQ, escByte DQ), (BS, escByte BS)]
    ∧ escByte NL = [BS, LL] ∧ escByte DQ = [BS, DQ] ∧ escByte BS = [BS, BS] := by decide

/-- `escapeForDot` acts byte by byte: `\` ↦ `\\`, `"` ↦ `\"`, newline ↦ `\l`, everything else unchanged
(so the order of the three nested `ReplaceAll` calls does not let one rewrite the output of another). -/
theorem escape_bytewise (s : Bytes) : escape s = s.flatMap escByte := escape_eq_flatMap s

/-- **Quoted-string lexing of escaped text** — for ALL byte strings `s` (quotes, backslashes,
newlines, trailing backslash, non-UTF-8) and any following input `r`: a quoted DOT string whose
body is `escapeForDot s` ends exactly at the closing quote that pprof wrote. -/
theorem lex_quoted_escape (s r : Bytes) :
    lexQuoted (DQ :: escape s ++ DQ :: r) = some (escape s, r) := by
  simp only [lexQuoted, if_true]
  exact scanQ_of_qsafeB (escape s) (qsafeB_escape s) r

-- non-vacuity: a name made of a quote, a backslash and a newline, followed by more DOT text
example : lexQuoted (DQ :: escape [DQ, BS, NL, BS] ++ DQ :: [0x5d]) = some ([BS, DQ, BS, BS, BS, LL, BS, BS], [0x5d]) := by decide

/-- The escaped text contains no unescaped quote (it is safe between quotes) and no newline at all. -/
theorem escape_no_bare_quote_no_newline (s : Bytes) : qsafeB (escape s) = true ∧ NL ∉ escape s :=
  ⟨qsafeB_escape s, not_mem_NL_escape s⟩

/-- Text that is safe between quotes stays so under concatenation: labels assembled from escaped
names, literal separators (`\n`, `\l`, blanks) and formatted numbers lex as ONE string. -/
theorem quoted_concat_safe (a b r : Bytes) (ha : qsafeB a = true) (hb : qsafeB b = true) :
    lexQuoted (DQ :: (a ++ b) ++ DQ :: r) = some (a ++ b, r) := by
  simp only [lexQuoted, if_true]
  exact scanQ_of_qsafeB (a ++ b) (qsafeB_append a b ha hb) r

example : qsafeB (escape [DQ] ++ [BS, 0x6e] ++ escape [BS]) = true := by decide

/-- Escaping is faithful: Graphviz's reading of the escaped text (`\\`→`\`, `\"`→`"`, `\l`→line break)
is the original string. -/
theorem unescape_escape (s : Bytes) : unescape (escape s) = s := Dot.unescape_escape s

/-- What makes a regenerated splice site acceptable: literals, numbers and escaped values
anywhere; outside quotes nothing else, except the caller-chosen node shape; inside quotes the
only unescaped value is the result of the caller-supplied label `Formatter`. -/
def siteOK (s : Gen.DotSites.Site) : Bool :=
  match s.cls with
  | .lit | .numeric => true
  | .escaped => s.quoted
  | .callback => s.quoted && s.fn == "addNode" && s.key == "label" && s.expr == "attrs.Formatter(&node.Info)"
  | .nodeattr => !s.quoted && s.key == "shape"
  | .raw => false

/-- **Every splice of a string into DOT text is escaped** (table regenerated from dotgraph.go). -/
theorem all_dot_sites_safe : Gen.DotSites.sites.all siteOK = true := by decide

/-- The regenerated table is not empty-handed: it covers the attributes that carry names
(guards against an extractor that silently stops seeing the emitters), `escapeAllForDot` maps
`escapeForDot`, and no other file of the module emits DOT text. -/
theorem dot_sites_cover :
    (["digraph", "label", "tooltip", "labeltooltip", "URL", "id"].all fun k =>
        Gen.DotSites.sites.any fun s => s.key == k && s.quoted && s.cls == .escaped) = true
    ∧ Gen.DotSites.escapeAllMaps = true ∧ Gen.DotSites.otherEmitters = [] := by decide

/-! ## callgrind -/
open PV.Callgrind

/-- **Name compression**: feed any sequence of names (any bytes) through `callgrindName` with one
shared table, as `printCallgrind` does for `fn=`/`cfn=` (and `fl=`/`cfl=`, `ob=`); the checker
resolves every emitted token — `(n) name` definitions and bare `(n)` back-references alike — to
the single-line form of the name it stands for.  In particular every back-reference was defined
earlier, with that name. -/
theorem callgrind_backrefs_defined (names : List Callgrind.Bytes) :
    resolveAll [] (emitAll [] names).1 = .ok (names.map sanitize, mirror (emitAll [] names).2) :=
  resolveAll_emitAll WF.nil names

-- non-vacuity: a repeated name (back-reference), a name with a newline, a blank name
example : (emitAll [] [[0x61], [0x61], [0x61, 0x0a, 0x62], [0x20]]).1 =
    [[0x28, 0x31, 0x29, 0x20, 0x61], [0x28, 0x31, 0x29], [0x28, 0x32, 0x29, 0x20, 0x61, 0x20, 0x62], []] := by
  decide +kernel

/-- **Subposition compression**: for all 64-bit addresses, the token `callgrindAddress` emits for
`cur` after `prev` (`*`, `+n`, `-n` or absolute hex — whichever it picks) decodes, against the
corresponding subposition `prev` of the last cost line, to `cur`; without a previous line the
token is absolute. -/
theorem callgrind_positions_decode (prev cur : Nat) (hp : prev < two64) (hc : cur < two64) :
    decodeSub (some prev) (cgAddr (some prev) cur) = some cur ∧
    (∀ last, decodeSub last (cgAddr none cur) = some cur) :=
  ⟨decodeSub_cgAddr_some prev cur hp hc, fun last => decodeSub_cgAddr_none last cur hc⟩

example : cgAddr (some 0x1200) 0x1300 = [0x2b, 0x32, 0x35, 0x36] ∧ (0x1300 : Nat) < two64 := by decide +kernel

/-- KNOWN FINDING `C18/callgrind/calls-target-position` (golden files pin the output): the
statement "the `calls=` target decodes to the callee's address" is FALSE of `printCallgrind`,
which compresses the target against the PREVIOUS NODE's address (`prevInfo`) although the last
cost line is the current node's.  Witness (DESIGN §3): nodes at 0x1300, 0x1200, 0x1100 in this
order; while printing the node at 0x1200 (previous node 0x1300) a call to 0x1300 is written as
`*`, which a reader decodes against the last cost line, 0x1200. -/
theorem callgrind_calls_target_defect_witness :
    decodeSub (some 0x1200) (cgAddr (some 0x1300) 0x1300) = some 0x1200 ∧ (0x1200 : Nat) ≠ 0x1300 := by
  decide +kernel

/-- What does hold of the code as it is: the `calls=` target decodes correctly whenever the
previous node has the address of the current one (in particular for every granularity other
than `addresses`, where all addresses are 0), and for the first node (absolute form). -/
theorem callgrind_calls_target_partial (node callee : Nat) (hn : node < two64) (hc : callee < two64) :
    decodeSub (some node) (cgAddr (some node) callee) = some callee ∧
    decodeSub (some node) (cgAddr none callee) = some callee :=
  ⟨decodeSub_cgAddr_some node callee hn hc, decodeSub_cgAddr_none _ callee hc⟩

/-! ## HTML -/

/-- Sinks through which text may reach an HTTP response without html/template's contextual
escaping: the SVG produced by Graphviz (`dot -Tsvg`, which escapes labels itself), JSON from
`json.Marshal` (which escapes `<`, `>`, `&`) as a script value, the output of a template, plain
text errors (`http.Error` sets text/plain + nosniff), the protobuf download, redirects, and
delegation to another handler of the package. -/
def allowedSinkKinds : List String :=
  ["template.HTML(svg:dotToSvg)", "template.JS(json.Marshal)", "write:template-output", "http.Error",
   "profile.Write", "http.Redirect", "delegate:ServeHTTP", "delegate:handler"]

/-- **No other path to the page**: every trusted-type conversion and every write to a
ResponseWriter in the module (regenerated list) is of an allowed kind. -/
theorem html_sinks_allowed :
    (Gen.HtmlSinks.sinks.all fun s => allowedSinkKinds.contains s.kind) = true
    ∧ (Gen.HtmlSinks.sinks.any fun s => s.kind == "write:template-output") = true := by decide

end PV.Props.C18
