import PprofVerif.Lemmas.DotEscape
import PprofVerif.Lemmas.DotEmit
import PprofVerif.Lemmas.DotDocIds
import PprofVerif.Lemmas.CallgrindComp
import PprofVerif.Gen.DotSites
import PprofVerif.Gen.HtmlSinks
/-!
# C18 — Graph outputs are syntactically valid for any names

Property theorems only (helper lemmas live in `Lemmas/DotEscape`, `Lemmas/CallgrindNum`,
`Lemmas/CallgrindComp`).

The tie to the code has three parts, all re-established on every run of `bin/check C18`:
* `Gen/DotSites.lean` and `Gen/HtmlSinks.lean` are REGENERATED from the source by
  `tools/extract/{dotsites,htmlsinks}.go`; the `decide` theorems below fail to build when a new
  unescaped splice / trusted-type conversion appears or `escapeForDot` changes;
* the Lean functions the theorems are about (`Dot.lex`/`Dot.parse`, `Callgrind.check`) are the
  ones `pvdrv-C18` runs on the REAL output of `pprof -dot` and `pprof -callgrind`, `report.Generate`,
  `graph.ComposeDot` (harness/c18*.go);
* `Dot.escape` is compared with the observable behaviour of `escapeForDot` (node tooltips).
-/
namespace PV.Props.C18
open PV PV.Dot

/-! ## DOT -/

/-- The source of `escapeForDot` is re-read on every run.  When its body is in one of the forms
the translator understands — a chain of one-byte `strings.ReplaceAll`, a `strings.NewReplacer`
with one-byte patterns, or a byte-wise `switch` loop (optionally behind an `IndexAny` fast path) —
its action on each single byte, which determines a byte-wise function, is extracted and must be
the byte map of the model: newline ↦ `\l`, `"` ↦ `\"`, `\` ↦ `\\`, all other bytes unchanged.
For any other body the form is "unknown" and this obligation is vacuous: the map is then pinned
by the harness alone, which pushes every byte value 0..255 (alone, doubled, after a backslash,
and all together) through the real `escapeForDot` in every run and compares with `Dot.escape`. -/
theorem escape_spec_matches :
    (Gen.DotSites.escapeForm = "unknown" ∨
      Gen.DotSites.escapeBytes = [(NL, escByte NL), (DQ, escByte DQ), (BS, escByte BS)])
    ∧ escByte NL = [BS, LL] ∧ escByte DQ = [BS, DQ] ∧ escByte BS = [BS, BS] := by decide

/-- `escapeForDot` acts byte by byte: `\` ↦ `\\`, `"` ↦ `\"`, newline ↦ `\l`, everything else unchanged
(so the order of the three nested `ReplaceAll` calls does not let one rewrite the output of another). -/
theorem escape_bytewise (s : Bytes) : escape s = s.flatMap escByte := escape_eq_flatMap s

/-- **Quoted-string lexing of escaped text** — for ALL byte strings `s` (quotes, backslashes,
newlines, trailing backslash, non-UTF-8) and any following input `r`: a quoted DOT string whose
body is `escapeForDot s` ends exactly at the closing quote that pprof wrote. -/
theorem lex_quoted_escape (s r : Bytes) :
    lexQuoted (DQ :: escape s ++ DQ :: r) = some (escape s, r) := by
  simp only [lexQuoted, if_true]
  exact scanQ_of_qsafeB (escape s) (qsafeB_escape s) r

-- non-vacuity: a name made of a quote, a backslash and a newline, followed by more DOT text
example : lexQuoted (DQ :: escape [DQ, BS, NL, BS] ++ DQ :: [0x5d]) = some ([BS, DQ, BS, BS, BS, LL, BS, BS], [0x5d]) := by decide

/-- The escaped text contains no unescaped quote (it is safe between quotes) and no newline at all. -/
theorem escape_no_bare_quote_no_newline (s : Bytes) : qsafeB (escape s) = true ∧ NL ∉ escape s :=
  ⟨qsafeB_escape s, not_mem_NL_escape s⟩

/-- Text that is safe between quotes stays so under concatenation: labels assembled from escaped
names, literal separators (`\n`, `\l`, blanks) and formatted numbers lex as ONE string. -/
theorem quoted_concat_safe (a b r : Bytes) (ha : qsafeB a = true) (hb : qsafeB b = true) :
    lexQuoted (DQ :: (a ++ b) ++ DQ :: r) = some (a ++ b, r) := by
  simp only [lexQuoted, if_true]
  exact scanQ_of_qsafeB (a ++ b) (qsafeB_append a b ha hb) r

example : qsafeB (escape [DQ] ++ [BS, 0x6e] ++ escape [BS]) = true := by decide

/-- Escaping is faithful: Graphviz's reading of the escaped text (`\\`→`\`, `\"`→`"`, `\l`→line break)
is the original string. -/
theorem unescape_escape (s : Bytes) : unescape (escape s) = s := Dot.unescape_escape s


/-! ### the strings the emitter assembles

`Model/DotEmit.lean` mirrors how dotgraph.go (with fixes/C18-dot-escape-all-sites.patch) builds
each quoted string from escaped names, literal separators and formatted numbers.  External
functions are parameters: `shorten` = ShortenFunctionName (arbitrary), `fmtv` = FormatValue
(arbitrary: its result is escaped by `builder.formatValue`), `split` = strings.Split (arbitrary),
`pct` = measurement.Percentage (assumed to print no quote/backslash), `base` = filepath.Base
(assumed to keep escaped text safe: it cuts at `/`, which is never part of an escape unit). -/

/-- **Node labels lex as one string** for every NodeInfo (function, file and object names of any
bytes, any address/line/column), any values: `"` ++ label ++ `"` is read back as exactly the
label — including the post-escape rewrites `::`→`\n`, `[...]`→`[…]`, `.`→`\n` of
`multilinePrintableName`, which are shown not to cut an escape unit. -/
theorem node_label_lexes (shorten base : Bytes → Bytes) (fmtv pct : Int → Bytes)
    (hbase : ∀ s, qsafeB (base (escape s)) = true) (hpct : ∀ v, Plain (pct v))
    (i : Info) (flat cum : Int) (r : Bytes) :
    lexQuoted (DQ :: nodeLabel shorten base fmtv pct i flat cum ++ DQ :: r)
      = some (nodeLabel shorten base fmtv pct i flat cum, r) := by
  simp only [lexQuoted, if_true]
  exact scanQ_of_qsafeB _ (nodeLabel_qsafe shorten base fmtv pct hbase hpct i flat cum) r

-- non-vacuity of the hypotheses (base = identity, a percentage text) on a hostile NodeInfo
example : (∀ s, qsafeB (id (escape s)) = true) ∧ (∀ v : Int, Plain ((fun _ => [0x31, 0x32, 0x2e, 0x35, 0x25]) v)) ∧
    qsafeB (nodeLabel id id (fun _ => [0x31, DQ]) (fun _ => [0x35, 0x25])
      ⟨[DQ, 0x2e, BS], [BS], [DQ], 4096, 7, 0⟩ 3 5) = true :=
  ⟨qsafeB_escape, fun _ => by show Plain [0x31, 0x32, 0x2e, 0x35, 0x25]; unfold Plain; decide, by decide +kernel⟩

/-- **Tooltips lex as one string**: node tooltip `name (value)` and edge tooltip `src -> dst (w)`. -/
theorem tooltips_lex (base : Bytes → Bytes) (fmtv : Int → Bytes) (i j : Info) (flat cum w : Int)
    (residual : Bool) (r : Bytes) :
    lexQuoted (DQ :: nodeTooltip base fmtv i flat cum ++ DQ :: r) = some (nodeTooltip base fmtv i flat cum, r) ∧
    lexQuoted (DQ :: edgeTooltip base fmtv i j w residual ++ DQ :: r) = some (edgeTooltip base fmtv i j w residual, r) := by
  simp only [lexQuoted]
  exact ⟨scanQ_of_qsafeB _ (nodeTooltip_qsafe base fmtv i flat cum) r,
         scanQ_of_qsafeB _ (edgeTooltip_qsafe base fmtv i j w residual) r⟩

/-- **Tag nodelet labels and the legend lex as one string**: tag names are split at graph.joinLabels'
`\n` separators, every piece escaped, and re-joined; legend lines are escaped and joined with `\l`. -/
theorem tag_and_legend_labels_lex (split : Bytes → List Bytes) (name : Bytes) (labels : List Bytes) (r : Bytes) :
    lexQuoted (DQ :: tagLabel split name ++ DQ :: r) = some (tagLabel split name, r) ∧
    lexQuoted (DQ :: legendLabel labels ++ DQ :: r) = some (legendLabel labels, r) := by
  simp only [lexQuoted]
  exact ⟨scanQ_of_qsafeB _ (tagLabel_qsafe split name) r, scanQ_of_qsafeB _ (legendLabel_qsafe labels) r⟩

example : tagLabel (fun s => [s.take 2, s.drop 4]) [DQ, BS, BS, 0x6e, DQ] = [BS, DQ, BS, BS, BS, 0x6e, BS, DQ] := by decide


/-! ### the document

`Model/DotDoc.lean` mirrors WHICH statements `ComposeDot` writes and with which identifiers:
`digraph "title" {`, the node defaults, the legend subgraph, per node `N<i>` its statement, its
tag nodelets `N<i>_<j>` with their edges and the numeric nodelets `N<source>_<k>` below the node
or a tag nodelet, then the graph edges `N<src> -> N<dst>`, then `}`.  Attribute values are
abstract: any identifier-like bare value, any quoted body that is safe between quotes (the
theorems above show the bodies pprof assembles are). -/

/-- **The document model parses** — for every graph (any number of nodes, nodelets, numeric
nodelets, edges, any attribute lists): lexing and parsing the BYTES of the document give back
the title, the legend node followed by the node statements in order, and the edge statements. -/
theorem dot_model_parses (g : G) (hg : g.OK) :
    parse g.bytes = some ⟨some (unquote g.title), legendNodes g.legend ++ nodesOf g.stmts, edgesOf g.stmts⟩ := by
  unfold parse G.bytes
  rw [lexes_doc g.title g.legend g.stmts hg.title hg.legend (G.stmts_ok g hg)]
  exact parseToks_doc g.title g.legend g.stmts hg.legend (G.stmts_ok g hg)

/-- **Edges reference only declared nodes** — the check `wellFormed` that the harness applies to
real output (parses, and no edge endpoint lacks a node statement) succeeds on the document of
every graph whose edges connect nodes of the graph: the identifier scheme `N%d` / `N%d_%d` /
`N%s_%d` never produces an endpoint without a declaration. -/
theorem dot_edges_declared (g : G) (hg : g.OK) : wellFormed g.bytes = true := by
  unfold wellFormed
  rw [dot_model_parses g hg]
  simp only [Graph.undeclared, Graph.declared, List.isEmpty_iff, List.filter_eq_nil_iff, List.mem_flatMap]
  intro i ⟨e, he, hi⟩
  have hd := G.edges_declared g hg e he
  have hmem : i ∈ ids g.stmts := by
    simp only [List.mem_cons, List.not_mem_nil, or_false] at hi
    rcases hi with rfl | rfl
    · exact hd.1
    · exact hd.2
  simp only [Bool.not_eq_true', Bool.not_eq_false, List.contains_iff_mem, List.map_append, List.mem_append]
  exact Or.inr (by simpa [ids] using hmem)

-- non-vacuity: a two-node graph with a tag nodelet, a numeric nodelet below it, one edge, a legend
example : G.OK ⟨escape [DQ], some (escape [BS], []), [⟨[], [⟨0, [], [], [⟨0, [], []⟩]⟩], []⟩, ⟨[], [], []⟩], [⟨1, 0, []⟩]⟩ :=
  { title := qsafeB_escape _
    legend := by
      intro p hp; cases hp
      exact ⟨qsafeB_escape _, by simp⟩
    nodes := by
      intro n hn
      simp only [List.mem_cons, List.not_mem_nil, or_false] at hn
      rcases hn with rfl | rfl
      · refine ⟨(by simp), ?_, (by simp)⟩
        intro t ht
        simp only [List.mem_cons, List.not_mem_nil, or_false] at ht
        subst ht
        refine ⟨(by simp), (by simp), ?_⟩
        intro m hm
        simp only [List.mem_cons, List.not_mem_nil, or_false] at hm
        subst hm
        exact ⟨(by simp), (by simp)⟩
      · exact ⟨(by simp), (by simp), (by simp)⟩
    edgeAttrs := by
      intro e he a ha
      simp only [List.mem_cons, List.not_mem_nil, or_false] at he
      subst he
      simp at ha
    edgeEnds := by
      intro e he
      simp only [List.mem_cons, List.not_mem_nil, or_false] at he
      subst he
      decide }

/-- What makes a regenerated splice site acceptable: literals, numbers and escaped values
anywhere; outside quotes nothing else, except the caller-chosen node shape; inside quotes the
only unescaped value is the result of the caller-supplied label `Formatter`. -/
def siteOK (s : Gen.DotSites.Site) : Bool :=
  match s.cls with
  | .lit | .numeric => true
  | .escaped => s.quoted
  | .callback => s.quoted && s.fn == "addNode" && s.key == "label" && s.expr == "attrs.Formatter(&node.Info)"
  | .nodeattr => !s.quoted && s.key == "shape"
  | .raw => false

/-- **Every splice of a string into DOT text is escaped** (table regenerated from dotgraph.go). -/
theorem all_dot_sites_safe : Gen.DotSites.sites.all siteOK = true := by decide

/-- The regenerated table is not empty-handed: it covers the attributes that carry names
(guards against an extractor that silently stops seeing the emitters) and no other file of the
module emits DOT text.  (`Gen.DotSites.escapeAllMaps` records whether `escapeAllForDot` is in a
recognised "apply escapeForDot to every element" form; when it is not, only the harness — legend
lines with metacharacters — pins it.) -/
theorem dot_sites_cover :
    (["digraph", "label", "tooltip", "labeltooltip", "URL", "id"].all fun k =>
        Gen.DotSites.sites.any fun s => s.key == k && s.quoted && s.cls == .escaped) = true
    ∧ Gen.DotSites.otherEmitters = [] := by decide

/-! ## callgrind -/
open PV.Callgrind

/-- **Name compression**: feed any sequence of names (any bytes) through `callgrindName` with one
shared table, as `printCallgrind` does for `fn=`/`cfn=` (and `fl=`/`cfl=`, `ob=`); the checker
resolves every emitted token — `(n) name` definitions and bare `(n)` back-references alike — to
the single-line form of the name it stands for.  In particular every back-reference was defined
earlier, with that name. -/
theorem callgrind_backrefs_defined (names : List Callgrind.Bytes) :
    resolveAll [] (emitAll [] names).1 = .ok (names.map sanitize, mirror (emitAll [] names).2) :=
  resolveAll_emitAll WF.nil names

-- non-vacuity: a repeated name (back-reference), a name with a newline, a blank name
example : (emitAll [] [[0x61], [0x61], [0x61, 0x0a, 0x62], [0x20]]).1 =
    [[0x28, 0x31, 0x29, 0x20, 0x61], [0x28, 0x31, 0x29], [0x28, 0x32, 0x29, 0x20, 0x61, 0x20, 0x62], []] := by
  decide +kernel

/-- **Names are single lines that cannot be mistaken for a reference**: whatever bytes a name
consists of — in particular white space only, with or without line breaks — what `callgrindLine`
(line breaks to blanks first, leading blanks trimmed second: the order matters) hands to
`callgrindName` contains no newline and is empty (written as the empty name) or starts with a
non-blank byte. -/
theorem callgrind_name_single_line (name : Callgrind.Bytes) :
    Callgrind.NL ∉ sanitize name ∧ (sanitize name = [] ∨ ∃ b t, sanitize name = b :: t ∧ isBlank b = false) :=
  sanitize_single_line name

-- a blank-only name with a line break collapses to the empty name; an inner line break becomes a blank
example : sanitize [0x20, 0x0a, 0x09] = [] ∧ sanitize [0x0a, 0x61, 0x0a, 0x62] = [0x61, 0x20, 0x62] := by decide

/-- **Subposition compression**: for all 64-bit addresses, the token `callgrindAddress` emits for
`cur` after `prev` (`*`, `+n`, `-n` or absolute hex — whichever it picks) decodes, against the
corresponding subposition `prev` of the last cost line, to `cur`; without a previous line the
token is absolute. -/
theorem callgrind_positions_decode (prev cur : Nat) (hp : prev < two64) (hc : cur < two64) :
    decodeSub (some prev) (cgAddr (some prev) cur) = some cur ∧
    (∀ last, decodeSub last (cgAddr none cur) = some cur) :=
  ⟨decodeSub_cgAddr_some prev cur hp hc, fun last => decodeSub_cgAddr_none last cur hc⟩

example : cgAddr (some 0x1200) 0x1300 = [0x2b, 0x32, 0x35, 0x36] ∧ (0x1300 : Nat) < two64 := by decide +kernel

/-- KNOWN FINDING `C18/callgrind/calls-target-position` (golden files pin the output): the
statement "the `calls=` target decodes to the callee's address" is FALSE of `printCallgrind`,
which compresses the target against the PREVIOUS NODE's address (`prevInfo`) although the last
cost line is the current node's.  Witness (DESIGN §3): nodes at 0x1300, 0x1200, 0x1100 in this
order; while printing the node at 0x1200 (previous node 0x1300) a call to 0x1300 is written as
`*`, which a reader decodes against the last cost line, 0x1200. -/
theorem callgrind_calls_target_defect_witness :
    decodeSub (some 0x1200) (cgAddr (some 0x1300) 0x1300) = some 0x1200 ∧ (0x1200 : Nat) ≠ 0x1300 := by
  decide +kernel

/-- What does hold of the code as it is: the `calls=` target decodes correctly whenever the
previous node has the address of the current one (in particular for every granularity other
than `addresses`, where all addresses are 0), and for the first node (absolute form). -/
theorem callgrind_calls_target_partial (node callee : Nat) (hn : node < two64) (hc : callee < two64) :
    decodeSub (some node) (cgAddr (some node) callee) = some callee ∧
    decodeSub (some node) (cgAddr none callee) = some callee :=
  ⟨decodeSub_cgAddr_some node callee hn hc, decodeSub_cgAddr_none _ callee hc⟩

/-! ## HTML -/

/-- Sinks through which text may reach an HTTP response without html/template's contextual
escaping: the SVG produced by Graphviz (`dot -Tsvg`, which escapes labels itself), JSON from
`json.Marshal` (which escapes `<`, `>`, `&`) as a script value, the output of a template, plain
text errors (`http.Error` sets text/plain + nosniff), the protobuf download, redirects, and
delegation to another handler of the package. -/
def allowedSinkKinds : List String :=
  ["template.HTML(svg:dotToSvg)", "template.JS(json.Marshal)", "write:template-output", "http.Error",
   "profile.Write", "http.Redirect", "delegate:ServeHTTP", "delegate:handler"]

/-- **No other path to the page**: every trusted-type conversion and every write to a
ResponseWriter in the module (regenerated list) is of an allowed kind. -/
theorem html_sinks_allowed :
    (Gen.HtmlSinks.sinks.all fun s => allowedSinkKinds.contains s.kind) = true
    ∧ (Gen.HtmlSinks.sinks.any fun s => s.kind == "write:template-output") = true := by decide

end PV.Props.C18
