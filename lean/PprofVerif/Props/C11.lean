import PprofVerif.Spec.Prune
/-! C11 — property theorems (under construction). -/
namespace PV.Props.C11
open PV PV.Prune

theorem removeUninteresting_noexpr_id (compile : Str → Option Rx) (p : Profile) (h : p.dropFrames = []) :
    removeUninteresting compile p = .ok p := by
  simp [removeUninteresting, h]

end PV.Props.C11
