import PprofVerif.Lemmas.PruneLemmas
import PprofVerif.Lemmas.PruneRepaired
import PprofVerif.Lemmas.PruneOnly
import Mathlib.Data.List.Forall2
/-!
# C11 — Frame-dropping rules remove only the frames they name

Property theorems only (helper lemmas: `Lemmas/PruneLemmas.lean`).  They are about the executable
model `Model/Prune.lean` of profile/prune.go (tied to the real code on every run by the
correspondence check) and the frame-level rule `Spec/Prune.lean`:

* a sample's stack is its list of frames, leaf first (`FilterSpec.frames`);
* a frame matches when its function has a non-empty name and `q name` holds, where
  `q = pruneName drop keep` (simplified name matches drop and not keep) for drop_frames/keep_frames
  and `q = drop ∘ simplifyFunc` for prune_from; `q` is an arbitrary predicate in the theorems;
* the rule for drop/keep: `pruneFrames` — scanning from the root, remove the first matching frame
  that has a non-matching frame on its root side, and everything on its leaf side;
* the rule for prune_from: `pruneFromFrames` — keep from the leaf-most matching frame rootwards.
-/
namespace PV.Props.C11
open PV PV.Prune PV.PruneSpec
open PV.FilterSpec hiding frameMatches

/-- Applying drop/keep expressions changes neither the number of samples nor their values and
labels (one-to-one, in order), nor the function and mapping tables. -/
theorem prune_sample_count_values_labels (p : Profile) (q : Str → Bool) :
    (pruneWith p q).samples.length = p.samples.length ∧
    List.Forall₂ (fun s' s => s'.values = s.values ∧ s'.label = s.label ∧ s'.numLabel = s.numLabel ∧
      s'.numUnit = s.numUnit) (pruneWith p q).samples p.samples ∧
    (pruneWith p q).functions = p.functions ∧ (pruneWith p q).mappings = p.mappings ∧
    (pruneWith p q).sampleType = p.sampleType := by
  refine ⟨by simp [pruneWith], ?_, rfl, rfl, rfl⟩
  simp only [pruneWith]
  induction p.samples with
  | nil => exact List.Forall₂.nil
  | cons s r ih => exact List.Forall₂.cons ⟨rfl, rfl, rfl, rfl⟩ ih

/-- The same for prune_from. -/
theorem pruneFrom_sample_count_values_labels (p : Profile) (q : Str → Bool) :
    (pruneFromWith p q).samples.length = p.samples.length ∧
    List.Forall₂ (fun s' s => s'.values = s.values ∧ s'.label = s.label ∧ s'.numLabel = s.numLabel ∧
      s'.numUnit = s.numUnit) (pruneFromWith p q).samples p.samples := by
  refine ⟨by simp [pruneFromWith], ?_⟩
  simp only [pruneFromWith]
  induction p.samples with
  | nil => exact List.Forall₂.nil
  | cons s r ih =>
    refine List.Forall₂.cons ?_ ih
    unfold pruneFromSample
    split <;> exact ⟨rfl, rfl, rfl, rfl⟩

/-- A sample that had frames never becomes empty. -/
theorem prune_nonempty (p : Profile) (hv : p.Valid) (q : Str → Bool) (s : Sample) (hs : s ∈ p.samples)
    (h : frames p s ≠ []) :
    frames (pruneWith p q) (pruneSample p q s) ≠ [] := by
  apply prune_frames_ne_nil p (Filter.wf_of_valid hv) q s hs
  intro h0
  apply h
  simp [frames, h0]

/- FULL STATEMENT (false of the code, see `prune_spec_frames_fails_A/_B`):
     theorem prune_spec_frames (p) (hv : p.Valid) (q) (s ∈ p.samples) :
       frames (pruneWith p q) (pruneSample p q s) = pruneFrames (frameMatches p q) (frames p s)
   The code decides per LOCATION while the rule speaks per FRAME.  It is proved below under the
   per-sample hypothesis `PruneH`: scanning the sample from the root, every location before the first
   location without any matching line matches on all of its lines.  The two ways `PruneH` can fail are
   the recorded findings C11/prune/H-violated/partial-first-user-location (family A) and
   C11/prune/H-violated/top-line-match (family B). -/

/-- Under `PruneH` the result of drop/keep for a sample is exactly the frame-level rule: the frames
strictly on the root side of the first frame (from the root) that matches and has a non-matching
frame on its root side; root-side frames stay in order. -/
theorem prune_spec_frames_partial (p : Profile) (hv : p.Valid) (q : Str → Bool) (s : Sample)
    (hs : s ∈ p.samples) (hH : PruneH p q s) :
    view (pruneWith p q) (pruneSample p q s) = specView s (pruneFrames (frameMatches p q) (frames p s)) := by
  have := prune_frames_eq_spec p (Filter.wf_of_valid hv) q s hs hH
  simp only [view, specView, this]
  rfl

/-- Family A: the full statement fails on the model (as on the code) — the root location is
`um dm` with `dm` matching; the rule leaves `um`, the code leaves `um lf` (a hole). -/
theorem prune_spec_frames_fails_A :
    witnessA.Valid ∧ ¬ PruneH witnessA dropA ⟨[1, 2], [7], [], [], []⟩ ∧
    frames (pruneWith witnessA dropA) (pruneSample witnessA dropA ⟨[1, 2], [7], [], [], []⟩) ≠
      pruneFrames (frameMatches witnessA dropA) (frames witnessA ⟨[1, 2], [7], [], [], []⟩) := by
  decide

/-- Family B: location `d2 k1 d2` (root-most line matches, inner `k1` does not) followed by `d1`:
the rule leaves `d2 k1`, the code leaves everything. -/
theorem prune_spec_frames_fails_B :
    witnessB.Valid ∧ ¬ PruneH witnessB dropB ⟨[1, 2], [7], [], [], []⟩ ∧
    frames (pruneWith witnessB dropB) (pruneSample witnessB dropB ⟨[1, 2], [7], [], [], []⟩) ≠
      pruneFrames (frameMatches witnessB dropB) (frames witnessB ⟨[1, 2], [7], [], [], []⟩) := by
  decide

/-- What the one-line repair of the per-sample loop (`if !foundUser && prune[id] { continue }`,
fixes/needs-golden-update/C11-prune-partial-first-user-location.patch, `Prune.scanRepaired`) buys:
family A disappears — the rule then holds under the weaker hypothesis that only excludes family B
(every leading location whose root-most line matches matches on all lines). -/
theorem prune_repaired_spec_frames_partial (p : Profile) (hv : p.Valid) (drop : Rx) (keep : Option Rx)
    (s : Sample) (hs : s ∈ p.samples) (hH : PruneHRepaired p (pruneName drop keep) s) :
    frames (pruneRepaired p drop keep)
        { s with locationIDs := (scanRepaired (classOf p (pruneName drop keep)) s.locationIDs.reverse false).reverse } =
      pruneFrames (frameMatches p (pruneName drop keep)) (frames p s) :=
  pruneRepaired_frames_eq_spec p (Filter.wf_of_valid hv) drop keep s hs hH

/-- … and family A's witness satisfies that weaker hypothesis. -/
theorem prune_repaired_covers_family_A :
    PruneHRepaired witnessA (pruneName (fun n => n == [100, 109]) none) ⟨[1, 2], [7], [], [], []⟩ := by
  unfold PruneHRepaired; decide

/-- `simplifyFunc` leaves a name without `(` alone, apart from one leading `.`. -/
theorem simplifyFunc_plain (name : Str) (h : (40 : UInt8) ∉ name) : simplifyFunc name = trimDot name := by
  unfold simplifyFunc
  apply cutAtParen_noParen
  unfold trimDot
  split
  · intro hx; exact h (List.mem_cons_of_mem _ hx)
  · exact h

/- FULL STATEMENT (false of the code, see `pruneFrom_spec_fails`):
     theorem pruneFrom_spec (p) (q) (s) :
       frames (pruneFromWith p q) (pruneFromSample p q s) = pruneFromFrames (frameMatches p q) (frames p s)
   `PruneFrom` trims EVERY location with a matching line to start at its leaf-most match, also in
   samples where that location lies on the root side of the sample's lowest match (finding
   C11/prune_from/inlined-location-above-lowest-match). -/

/-- Under `PruneFromH` (on the root side of the sample's leaf-most matching location every matching
location matches on its leaf-most line) prune_from keeps the lowest matching frame and drops only
what lies on its leaf side; without a match nothing changes. -/
theorem pruneFrom_spec_partial (p : Profile) (q : Str → Bool) (s : Sample) (hH : PruneFromH p q s) :
    view (pruneFromWith p q) (pruneFromSample p q s) =
      specView s (pruneFromFrames (frameMatches p q) (frames p s)) := by
  have := pruneFrom_frames_eq_spec p q s hH
  have hd : ∀ s', pruneFromSample p q s = s' →
      s'.values = s.values ∧ s'.label = s.label ∧ s'.numLabel = s.numLabel ∧ s'.numUnit = s.numUnit := by
    intro s' h'
    subst h'
    unfold pruneFromSample
    split <;> exact ⟨rfl, rfl, rfl, rfl⟩
  obtain ⟨h1, h2, h3, h4⟩ := hd _ rfl
  simp only [view, specView, this, h1, h2, h3, h4]

/-- The full prune_from statement fails on the model (as on the code): leaf-first `[m a | b mm]`
with prune_from=`^m` must stay `m a b mm`; `b` is lost. -/
theorem pruneFrom_spec_fails :
    witnessPF.Valid ∧ ¬ PruneFromH witnessPF startsWithM ⟨[1, 2], [7], [], [], []⟩ ∧
    frames (pruneFromWith witnessPF startsWithM) (pruneFromSample witnessPF startsWithM ⟨[1, 2], [7], [], [], []⟩) ≠
      pruneFromFrames (frameMatches witnessPF startsWithM) (frames witnessPF ⟨[1, 2], [7], [], [], []⟩) := by
  decide

/-- A profile without drop_frames is left untouched (whatever keep_frames says, whatever the
regexp compiler does). -/
theorem removeUninteresting_noexpr_id (compile : Str → Option Rx) (p : Profile) (h : p.dropFrames = []) :
    removeUninteresting compile p = .ok p := by
  simp [removeUninteresting, h]

/-- With expressions, `RemoveUninteresting` is `Prune` with the expressions anchored as
`^(…)$`; keep_frames is used only when non-empty. -/
theorem removeUninteresting_anchored (compile : Str → Option Rx) (p : Profile) (drop : Rx)
    (h : p.dropFrames ≠ []) (hd : compile (anchored p.dropFrames) = some drop) :
    removeUninteresting compile p =
      if p.keepFrames.isEmpty then .ok (prune p drop none)
      else match compile (anchored p.keepFrames) with
        | none => .err "failed to compile regexp"
        | some keep => .ok (prune p drop (some keep)) := by
  have he : p.dropFrames.isEmpty = false := by
    cases hx : p.dropFrames with
    | nil => exact absurd hx h
    | cons _ _ => rfl
  simp only [removeUninteresting, he, Bool.false_eq_true, ↓reduceIte, hd]
  split
  · rfl
  · cases compile (anchored p.keepFrames) <;> rfl

/-- UNCONDITIONAL (no `PruneH`; holds in the known-finding families A and B too): drop/keep only
ever REMOVES, and only from the leaf side — every sample's location list after `Prune` is a suffix
(the root side) of its list before, and every location's line list is a suffix (the root side) of
its lines before.  Nothing is added, reordered or removed from the root side. -/
theorem prune_removes_only_leaf_side (p : Profile) (q : Str → Bool) :
    (∀ s, (pruneSample p q s).locationIDs <:+ s.locationIDs) ∧
    (∀ l, (pruneLoc p q l).lines <:+ l.lines ∧ (pruneLoc p q l).id = l.id) :=
  ⟨pruneSample_suffix p q, fun l => ⟨pruneLoc_suffix p q l, pruneLoc_id p q l⟩⟩

/-- "Remove only the frames they name", degenerate direction, for ALL profiles (valid or not): when
no line of any location is named by the expressions, `Prune` is the identity on the whole profile. -/
theorem prune_no_match_identity (p : Profile) (q : Str → Bool)
    (h : ∀ l ∈ p.locations, ∀ ln ∈ l.lines, lineMatches p q ln = false) : pruneWith p q = p :=
  pruneWith_no_match p q h

/-- In particular an expression that matches no name leaves every profile untouched. -/
theorem prune_never_matching_identity (p : Profile) : pruneWith p (fun _ => false) = p := by
  apply pruneWith_no_match
  intro l _ ln _
  unfold lineMatches
  split <;> simp

/-- FRAME LEVEL, UNCONDITIONAL (all profiles, valid or not, all predicates; also in families A and
B): the frames of every sample after drop/keep are, in order, a sublist of its frames before — the
rules only ever remove frames, they never add, duplicate, rename or reorder one. -/
theorem prune_frames_only_removed (p : Profile) (q : Str → Bool) (s : Sample) :
    List.Sublist (frames (pruneWith p q) (pruneSample p q s)) (frames p s) :=
  prune_frames_sublist p q s

/-- The same for prune_from, UNCONDITIONAL (also inside the known-finding family
`inlined-location-above-lowest-match`): location lists and line lists only lose leaf-side elements. -/
theorem pruneFrom_removes_only_leaf_side (p : Profile) (q : Str → Bool) :
    (∀ s, (pruneFromSample p q s).locationIDs <:+ s.locationIDs) ∧
    (∀ l, (pruneFromLoc p q l).1.lines <:+ l.lines ∧ (pruneFromLoc p q l).1.id = l.id) :=
  ⟨pruneFromSample_suffix p q, fun l => ⟨pruneFromLoc_suffix p q l, pruneFromLoc_id p q l⟩⟩

/-- The frame-level statement for prune_from, UNCONDITIONAL: frames after are, in order, a sublist
of the frames before. -/
theorem pruneFrom_frames_only_removed (p : Profile) (q : Str → Bool) (s : Sample) :
    List.Sublist (frames (pruneFromWith p q) (pruneFromSample p q s)) (frames p s) :=
  pruneFrom_frames_sublist p q s

/-- prune_from with an expression that names no line of any location is the identity. -/
theorem pruneFrom_no_match_identity (p : Profile) (q : Str → Bool)
    (h : ∀ l ∈ p.locations, ∀ ln ∈ l.lines, lineMatches p q ln = false) : pruneFromWith p q = p :=
  pruneFromWith_no_match p q h

-- non-vacuity: the hypotheses are satisfiable by non-trivial values (a sample whose first user
-- location is clean, with a match further towards the leaf)
example : PruneH witnessA (fun n => n == [108, 102]) ⟨[1, 2], [7], [], [], []⟩ := by decide
example : PruneFromH witnessPF (fun n => n == [109]) ⟨[1, 2], [7], [], [], []⟩ := by decide
example : frames witnessB ⟨[1, 2], [7], [], [], []⟩ ≠ [] := by decide
-- `prune_no_match_identity`: witnessA has locations with lines, none named by this predicate
example : ∀ l ∈ witnessA.locations, ∀ ln ∈ l.lines, lineMatches witnessA (fun n => n == [1, 2, 3]) ln = false := by decide
-- non-vacuity of the unconditional removes-only theorems: inside family A (where the frame rule fails)
-- frames really are removed (3 before, fewer after)
example : (frames (pruneWith witnessA dropA) (pruneSample witnessA dropA ⟨[1, 2], [7], [], [], []⟩)).length <
    (frames witnessA ⟨[1, 2], [7], [], [], []⟩).length := by decide
example : (frames (pruneFromWith witnessPF startsWithM) (pruneFromSample witnessPF startsWithM ⟨[1, 2], [7], [], [], []⟩)).length ≤
    (frames witnessPF ⟨[1, 2], [7], [], [], []⟩).length := by decide

end PV.Props.C11
