import PprofVerif.Lemmas.Crash
import PprofVerif.Lemmas.ComposeCodec
import PprofVerif.Lemmas.ComposeParse
import PprofVerif.Model.Copier
import PprofVerif.Lemmas.TrimTreeMain
/-!
# C09 — No profile content, option value or typed command crashes pprof

Property theorems only (helper lemmas: `Lemmas/Crash.lean`; model: `Model/Crash.lean`).

What is proved here: the *decision logic that can panic* in `internal/driver` — every Go index
expression, slice expression and explicit `panic` of the modelled functions is a checked access in
the model, and the theorems say that no input reaches one.  What is NOT proved: absence of crashes
in the code behind these functions (report generation, graph building, symbolization, the web
handlers' templates …).  That part of the property is supported only by the generative campaign
of `harness/c09.go`; it enters the session theorems as the explicit hypothesis
`EnvOK.gen_noPanic`.  The property as a whole is therefore *partially* proved.

The model is of the tree with `fixes/C09-tagfilter-range-overflow.patch` and
`fixes/C09-short-buildid.patch` applied; `pinned_*` theorems show that the same statements FAIL
for the model of the pinned tree (witnesses replayed against the Go code by `corpus/C09/*.json`).
-/
namespace PV.Props.C09
open PV PV.Crash

/-! ## tag filter ranges (`-tagfocus`, `-tagignore`) -/

/-- `parseTagFilterRange` never panics: for every unit table (`scaleUnit`) and every option value —
20-digit numbers, signs, embedded digit groups, empty strings — the result is a range, "not a range",
or an error. -/
theorem parseTagFilterRange_no_panic (scaleUnit : Int → Str → Str → Str) (filter : Str) (site : String) :
    parseTagFilterRange scaleUnit filter ≠ .panic site :=
  parseTagFilterRangeG_noPanic _ (fun _ => NoPanic.err _) scaleUnit filter site

/-- … and so does the `key=value` front of `compileTagFilter`. -/
theorem compileTagFilter_no_panic (scaleUnit : Int → Str → Str → Str) (value : Str) (site : String) :
    compileTagFilter scaleUnit value ≠ .panic site :=
  compileTagFilterG_noPanic _ (fun v => parseTagFilterRangeG_noPanic _ (fun _ => NoPanic.err _) scaleUnit v) value site

/-- The pinned code does panic: `-tagfocus=99999999999999999999` (finding #8), first range bound. -/
theorem pinned_parseTagFilterRange_panics (scaleUnit : Int → Str → Str → Str) :
    parseTagFilterRangePinned scaleUnit (List.replicate 20 57) =
      .panic "driver_focus.go parseTagFilterRange ParseInt(ranges[0][1])" := rfl

/-- … and `-tagfocus=1:99999999999999999999`, second range bound. -/
theorem pinned_parseTagFilterRange_panics_second_bound (scaleUnit : Int → Str → Str → Str) :
    parseTagFilterRangePinned scaleUnit (49 :: 58 :: List.replicate 20 57) =
      .panic "driver_focus.go parseTagFilterRange ParseInt(ranges[1][1])" := rfl

-- the no-panic theorem is not vacuous on such inputs: the repaired code returns an error
example : parseTagFilterRange (fun _ _ t => t) (List.replicate 20 57) = .err "failed to parse int" := rfl
example : parseTagFilterRange (fun _ _ t => t) [49, 48, 107, 98, 58] = .ok (some .ge) := rfl  -- "10kb:"

/-! ## local binary search (`locateBinaries`) -/

/-- `locateBinaries` never panics: for every search path list, every mapping list (any file name,
any build id — empty, one, two characters), every path/objtool behaviour and every
`-buildid`/exec-name override. -/
theorem locateBinaries_no_panic (e : PathEnv) (paths : List Str) (ms : List MappingM)
    (execName buildID : Str) (site : String) :
    locateBinaries e paths ms execName buildID ≠ .panic site :=
  locateBinaries_noPanic' e paths ms execName buildID site

/-- The pinned code does panic on a one-character build id (finding #9): `m.BuildID[:2]`. -/
theorem pinned_locateBinaries_panics (e : PathEnv) (path file : Str) (rest : List Str) (ms : List MappingM) (x b : Str) :
    locateBinariesPinned e (path :: rest) (⟨file, [97]⟩ :: ms) x b =
      .panic "fetch.go locateBinaries m.BuildID[:2]" := rfl

example (e : PathEnv) : ∃ r, locateBinaries e [[47]] [⟨[], [97]⟩] [] [] = .ok r := by
  cases h : locateBinaries e [[47]] [⟨[], [97]⟩] [] [] with
  | ok r => exact ⟨r, rfl⟩
  | err m => simp [locateBinaries, locateBinariesG, locateAll, locateOne, candidateNames] at h; split at h <;> simp at h
  | panic s => exact absurd h (locateBinaries_no_panic e _ _ _ _ s)

/-! ## interactive command parsing -/

/-- `parseCommandLine` never panics on what `interactive` hands it — a non-empty token list without
empty tokens (the contract of `strings.Fields` plus the `len(tokens) == 0` check): whatever the
command table, the option table, digit suffixes (`top10`, `10`, `x9999999999`), `>` with or without
a file name, `-`, `--cum`, numbers out of the 32-bit range. -/
theorem parseCommandLine_no_panic (cmds : List (Str × Bool)) (tbl : List Field) (input : List Str) (cur : Cfg)
    (h0 : input ≠ []) (hne : ∀ t ∈ input, t ≠ []) (site : String) :
    parseCommandLineG cmds tbl input cur ≠ .panic site :=
  parseCommandLineG_noPanic cmds tbl input cur h0 hne site

/-- Both hypotheses are needed: an empty token after a command is `t[0]` on an empty string … -/
theorem parseCommandLine_empty_token_panics :
    parseCommandLineG [([116,111,112], false)] [] [[116,111,112], []] (fun _ => .s []) =
      .panic "interactive.go parseCommandLine t[0]" := rfl
/-- … and an empty token list is `input[:1]` on an empty slice. -/
theorem parseCommandLine_empty_input_panics :
    parseCommandLineG [] [] [] (fun _ => .s []) = .panic "interactive.go parseCommandLine input[:1]" := rfl

example : ([[116,111,112,49,48], [62]] : List Str) ≠ [] ∧ ∀ t ∈ ([[116,111,112,49,48], [62]] : List Str), t ≠ [] := by
  decide  -- "top10 >"

/-! ## option assignment -/

/-- `(*config).set` is total on the configurable fields: for every field of the table, every current
config, every value and every `ParseFloat` behaviour it returns a config or an error. -/
theorem config_set_total (parseFloatOk : Str → Bool) (c : Cfg) (f : Field) (hf : f ∈ fields) (value : Str) :
    (∃ c', set parseFloatOk c f value = .ok c') ∨ (∃ m, set parseFloatOk c f value = .err m) := by
  have h := set_noPanic parseFloatOk c f value (fields_supported f hf)
  cases hs : set parseFloatOk c f value with
  | ok c' => exact Or.inl ⟨c', rfl⟩
  | err m => exact Or.inr ⟨m, rfl⟩
  | panic s => exact absurd hs (h s)

/-- `configure(name, value)` never panics, for every name (field, choice, unknown) and value. -/
theorem configure_no_panic (parseFloatOk : Str → Bool) (c : Cfg) (name value : Str) (site : String) :
    configure fields parseFloatOk c name value ≠ .panic site :=
  configure_noPanic fields fields_supported parseFloatOk c name value site

/-- The `panic` branch of `set` is real: a field of an unsupported type would reach it. -/
theorem set_unsupported_kind_panics (pf : Str → Bool) (c : Cfg) (n v : Str) :
    set pf c ⟨n, .other⟩ v = .panic "config.go set: unsupported config field type" := rfl

/-! ## sample value selection -/

/-- `sampleFormat` + `valueExtractor` never index outside a sample's values when the sample has one
value per sample type (`CheckValid`), for every `sample_index` string and `mean` setting. -/
theorem sampleValue_no_panic (p : Prof) (si : Str) (mean : Bool) (values : List Int)
    (hv : values.length = p.sampleTypes.length) (site : String) :
    sampleValue p si mean values ≠ .panic site :=
  sampleValue_noPanic p si mean values hv site

example : ([1, 2] : List Int).length = (⟨[[97], [98]], []⟩ : Prof).sampleTypes.length := rfl

/-! ## a whole interactive session -/

/-- One line typed at the `(pprof)` prompt — any byte string — yields a new session state (or a
reported error), never a panic, provided the profile has at least one sample type (guaranteed by
`fetchProfiles`: "profiles have empty common sample type list" otherwise) and the external
functions meet `EnvOK` (tokens non-empty; report generation returns or errs — the campaign-tested
part).  The profile is unchanged by the step, so the hypothesis holds again for the next line. -/
theorem interactive_step_no_panic (e : Env) (he : EnvOK e) (s : Sess) (hst : s.prof.sampleTypes ≠ [])
    (line : Str) :
    (∀ site, step e s line ≠ .panic site) ∧
    (∀ s' ev, step e s line = .ok (s', ev) → s'.prof = s.prof) :=
  step_spec e he s hst line

/-- … hence every script of lines. -/
theorem interactive_run_no_panic (e : Env) (he : EnvOK e) (s : Sess) (hst : s.prof.sampleTypes ≠ [])
    (script : List Str) (site : String) : run e s script ≠ .panic site :=
  run_spec e he script s hst site

/-- The sample-type hypothesis is needed: `o` on a profile without sample types is `st[len(st)-1]`
on an empty slice. -/
theorem printCurrentOptions_needs_sample_type :
    printCurrentOptions ⟨fun _ => .s [], ⟨[], []⟩⟩ =
      .panic "interactive.go printCurrentOptions st[len(st)-1]" := rfl

/-- `EnvOK` is satisfiable: ASCII `Fields`/`TrimSpace`, a report generator that always errs. -/
example : EnvOK { fields := fieldsAscii, trimSpace := trimSpaceAscii, parseFloatOk := fun _ => false,
                  gen := fun _ _ => .err "x" } :=
  ⟨fieldsAscii_nonempty, fun _ _ => NoPanic.err _, fields_supported⟩

/-- The auto-completer's token slicing never panics, for every tokenizer and line. -/
theorem completer_no_panic (fields : Str → List Str) (isCmd : Str → Bool) (matchVar fnComplete : Str → Str)
    (joinSp : List Str → Str) (line : Str) (site : String) :
    completer fields isCmd matchVar fnComplete joinSp line ≠ .panic site :=
  completer_noPanic fields isCmd matchVar fnComplete joinSp line site

/-! ## `-symbolize=` option string -/

/-- Whatever string is given to `-symbolize=` (and whatever `strings.ToLower` does to it), the
demangler mode that reaches `demanglerModeToOptions` is one of "", "full", "none", "templates": its
`panic("unknown demanglerMode")` is unreachable from the option string. -/
theorem symbolize_mode_no_panic (lower : Str → Str) (mode : Str) (site : String) :
    symbolizeMode lower mode ≠ .panic site :=
  symbolizeMode_noPanic lower mode site

/-- The `panic` is real for every other mode string. -/
theorem demanglerMode_unknown_panics (m : Str) (h0 : m ≠ []) (h1 : m ≠ S "templates") (h2 : m ≠ S "full")
    (h3 : m ≠ S "none") :
    demanglerModeToOptions m = .panic "symbolizer.go demanglerModeToOptions: unknown demanglerMode" := by
  simp [demanglerModeToOptions, h0, h1, h2, h3]

/-! ## composed with C01 (and C02): `profileCopier.newCopy` cannot reach its `panic(err)`

`Model/Copier.lean` models `makeProfileCopier` / `newCopy` (driver.go) as compositions of the codec
model.  C01's round trip shows that the bytes produced by `makeProfileCopier` always parse, so the
`panic(err)` of `newCopy` is unreachable — for every profile meeting C01's hypotheses, in
particular (C02) for every profile the parser itself returned. -/

/-- **`newCopy` never panics on what `makeProfileCopier` made.**  For every valid profile with
aligned units, key-sorted label maps, integers in their Go types and a re-encoding within the size
limits: `makeProfileCopier` returns bytes `c`, and `newCopy c` — every time it is called — returns
the normalised profile, never `panic(err)`. -/
theorem newCopy_no_panic (p : Profile) (hv : p.Valid) (ha : p.unitsAligned = true)
    (hs : p.mapsSorted = true) (hr : Codec.InRange p) (hz : ∀ x, Codec.preEncode p = .ok x → Codec.EncSizes x) :
    ∃ c, Copier.makeProfileCopier p = .ok c ∧ Copier.newCopy c = .ok (Codec.Profile.normalize p) ∧
      ∀ site, Copier.newCopy c ≠ .panic site := by
  obtain ⟨c, h1, h2⟩ := Codec.parse_serialize_normalize p hv ha hs hr hz
  have h3 : Copier.newCopy c = .ok (Codec.Profile.normalize p) := by
    unfold Copier.newCopy; rw [h2]
  refine ⟨c, h1, h3, ?_⟩
  intro site hpan
  rw [h3] at hpan
  cases hpan

/-- … in the CLI's situation — the profile is what `ParseData` returned for an input file —
validity, alignment, sortedness and integer ranges are consequences (C02): only the size side
condition on the re-encoding remains. -/
theorem newCopy_no_panic_parsed (b₀ : Wire.Bytes) (p : Profile) (hparse : Parse.parseData b₀ = .ok p)
    (hz : ∀ x, Codec.preEncode p = .ok x → Codec.EncSizes x) :
    ∃ c, Copier.makeProfileCopier p = .ok c ∧ Copier.newCopy c = .ok (Codec.Profile.normalize p) ∧
      ∀ site, Copier.newCopy c ≠ .panic site := by
  obtain ⟨hv, ha, hs, hr⟩ := Parse.parseData_ok_contract b₀ p hparse
  exact newCopy_no_panic p hv ha hs hr hz

/-- The alignment hypothesis is needed: a numeric label with two values and one unit makes
`makeProfileCopier` itself panic (`units[i]` in `preEncode`). -/
theorem makeProfileCopier_misaligned_panics :
    Copier.makeProfileCopier
      { Parse.sampleParsed with
        samples := [⟨[], [5], [], [([97], [7, 8])], [([97], [[98]])]⟩] } =
      .panic "preEncode: units[i] index out of range" := by decide

/-- `newCopy`'s `panic(err)` is real for bytes that are not a serialisation: e.g. the empty input. -/
theorem newCopy_panics_on_unparsable :
    Copier.newCopy [] = .panic "driver.go newCopy: panic(err): empty input file" := by decide

-- non-vacuity: the sample input of C02 is accepted and its re-encoding meets the size condition
example : Parse.parseData Parse.sampleBytes = .ok Parse.sampleParsed ∧
    ∀ x, Codec.preEncode Parse.sampleParsed = .ok x → Codec.EncSizes x :=
  ⟨Parse.parseData_sampleBytes, Parse.sampleParsed_encSizes⟩

/-! ## composed with C05's TrimTree model: the consistency panics of `TrimTree`

Full statement planned in DESIGN (`graph_internal_panics_unreachable`): none of the explicit
panics of internal/graph — "TrimTree only works on trees", "Get parent assertion failed",
"asymmetric edges" — is reachable from a report.  PARTIAL: proved for the two `TrimTree` panics, on
C05's model of `Graph.TrimTree` (`Model/TrimTree.lean`: the loop over `g.Nodes` with both `panic`
sites, re-parenting, `RemoveRedundantEdges`; tied to graph.go by C05's correspondence check),
applied to every tree `newTree` builds — the only graphs report.go hands to `TrimTree`.  The
"asymmetric edges" panic of `AddToEdgeDiv` compares the two Go maps `n.Out[to]` and `to.In[n]`
while `graph.New` runs; the model of `graph.New` (`Model/Graph.lean`) keeps a single edge table
keyed by (src, dest), so an asymmetry cannot be expressed there — that panic stays with the
generative campaign. -/

/-- `TrimTree` on a call tree never panics (nor errs): for every sample list, every kept set,
every order in which the caller left `g.Nodes`, and every `EdgeMap.Sort` that returns a
permutation, C05's `trimNewTree` returns a state. -/
theorem graph_internal_panics_unreachable_partial {κ : Type} [DecidableEq κ]
    (sortIn : TrimTree.ETable (List κ) → TrimTree.ETable (List κ)) (hsort : ∀ l, (sortIn l).Perm l)
    (K : List κ → Bool) (ss : List (GSpec.GSample κ)) (nodes : List (List κ × Graph.NodeAcc))
    (hperm : nodes.Perm (Graph.newTree ss).shownNodes) :
    (∀ site, TrimTree.trimNewTree sortIn K (Graph.newTree ss) nodes ≠ .panic site) ∧
    ∃ st, TrimTree.trimNewTree sortIn K (Graph.newTree ss) nodes = .ok st := by
  obtain ⟨st, hs, _⟩ := TrimTree.trimNewTree_ok sortIn hsort K ss nodes hperm
  refine ⟨?_, st, hs⟩
  intro site hpan
  rw [hs] at hpan
  cases hpan

/-- The first test is real: on a graph that is not a tree (node 3 reached from 1 and from 2) the
loop body panics. -/
theorem trimTree_panics_on_dag :
    TrimTree.stepNode (fun _ => true)
      (⟨[], [((1, 3), ⟨0, false⟩), ((2, 3), ⟨0, false⟩)], [((1, 3), ⟨0, false⟩), ((2, 3), ⟨0, false⟩)]⟩ : TrimTree.TState Nat)
      (3, ⟨0, 0⟩) = .panic "TrimTree only works on trees" := by rfl

-- non-vacuity: two samples sharing a prefix give a tree with a branching node; its listed nodes
-- in their own order are an admissible `nodes`
example : (Graph.newTree [({ frames := [1, 2], w := 3, d := 0 } : GSpec.GSample Nat), { frames := [1, 3], w := 4, d := 0 }]).edges.map (·.1) =
    [([1], [1, 2]), ([1], [1, 3])] := by decide

end PV.Props.C09
