import PprofVerif.Lemmas.Field
import PprofVerif.Model.Codec
/-!
# C01 — Profile serialization round-trips without loss

Property theorems only (helper lemmas live in `Lemmas/`).  The full statement of the property
is `decode_encode` in DESIGN.md Appendix D; the theorems below are the parts proved so far, each
about the executable model in `Model/Wire.lean` / `Model/Codec.lean`, which the correspondence
check ties to profile/proto.go and profile/encode.go in both directions on every run.
-/
namespace PV.Props.C01
open PV PV.Wire PV.Codec

/-- Every uint64 survives `encodeVarint`/`decodeVarint`, whatever bytes follow it. -/
theorem varint_roundtrip (x : Nat) (hx : x < two64) (rest : Bytes) :
    decodeVarint (encodeVarint x ++ rest) = .ok (x, rest) :=
  decodeVarint_encodeVarint x hx rest

/-- Every int64 (negative and extreme values included) survives the uint64 cast used on the wire. -/
theorem int64_cast_roundtrip (i : Int) (h : InI64 i) : toI64 (toU64 i) = i := toI64_toU64 i h

/-- A scalar field written by `encodeUint64`/`encodeInt64` is read back as that field. -/
theorem scalar_field_roundtrip (tag x : Nat) (ht : tag * 8 < two64) (hx : x < two64) (rest : Bytes) :
    decodeField (encodeUint64 tag x ++ rest) = .ok ({ num := tag, typ := 0, u64 := x, data := [] }, rest) :=
  decodeField_encodeUint64 tag x ht hx rest

/-- A nested message / string / packed list written with a length prefix is read back as its body. -/
theorem delimited_field_roundtrip (tag : Nat) (body : Bytes) (ht : tag * 8 + 2 < two64)
    (hl : body.length < two64) (rest : Bytes) :
    decodeField (encodeMessage tag body ++ rest) = .ok ({ num := tag, typ := 2, u64 := 0, data := body }, rest) :=
  decodeField_encodeMessage tag body ht hl rest

-- non-vacuity: the hypotheses are met by extreme values
example : InI64 (-9223372036854775808) ∧ (18446744073709551615 : Nat) < two64 := by decide

end PV.Props.C01
