import PprofVerif.Lemmas.MessagesNested
import PprofVerif.Lemmas.EncodeWF
import PprofVerif.Lemmas.NormalizeIdem
import PprofVerif.Lemmas.CodecSchemaFacts
/-!
# C01 — Profile serialization round-trips without loss

Property theorems only (helper lemmas live in `Lemmas/`).  The full statement of the property is
proved here for ALL profiles (`parse_serialize`):

    Valid p → unitsAligned p → mapsSorted p → InRange p → EncSizes →
        parseUncompressed (serialize p) = ok (normalize p)

It factors through the wire-level ("X") message: `wire_roundtrip` (`unmarshal ∘ encode`: every
field of every message type, packed and unpacked repeated scalars, nested messages,
optional-field elision, the string-table rule) and `postDecode_preEncode`
(`postDecode ∘ preEncode = normalize`: string interning, label regrouping, unit padding, id
resolution).  `copy_eq_normalize`, `roundtrip_fixpoint`, `wire_reencode_identical` and
`normalize_idem` give reading (2) of the property (what the parser returns survives
write-then-parse unchanged and re-serializes identically).  All theorems are about the executable
model in `Model/Wire.lean` / `Model/Codec.lean`, which the correspondence check ties to
profile/proto.go and profile/encode.go in both directions on every run.
-/
namespace PV.Props.C01
open PV PV.Wire PV.Codec

/-- Every uint64 survives `encodeVarint`/`decodeVarint`, whatever bytes follow it. -/
theorem varint_roundtrip (x : Nat) (hx : x < two64) (rest : Bytes) :
    decodeVarint (encodeVarint x ++ rest) = .ok (x, rest) :=
  decodeVarint_encodeVarint x hx rest

/-- Every int64 (negative and extreme values included) survives the uint64 cast used on the wire. -/
theorem int64_cast_roundtrip (i : Int) (h : InI64 i) : toI64 (toU64 i) = i := toI64_toU64 i h

/-- A scalar field written by `encodeUint64`/`encodeInt64` is read back as that field. -/
theorem scalar_field_roundtrip (tag x : Nat) (ht : tag * 8 < two64) (hx : x < two64) (rest : Bytes) :
    decodeField (encodeUint64 tag x ++ rest) = .ok ({ num := tag, typ := 0, u64 := x, data := [] }, rest) :=
  decodeField_encodeUint64 tag x ht hx rest

/-- A nested message / string / packed list written with a length prefix is read back as its body. -/
theorem delimited_field_roundtrip (tag : Nat) (body : Bytes) (ht : tag * 8 + 2 < two64)
    (hl : body.length < two64) (rest : Bytes) :
    decodeField (encodeMessage tag body ++ rest) = .ok ({ num := tag, typ := 2, u64 := 0, data := body }, rest) :=
  decodeField_encodeMessage tag body ht hl rest

/-- Repeated scalars in packed form (more than two elements) decode to the same list. -/
theorem packed_roundtrip (xs : List Nat) (hx : ∀ x ∈ xs, x < two64) :
    decodePacked (xs.flatMap encodeVarint).length (xs.flatMap encodeVarint) = .ok xs :=
  decodePacked_flatMap xs _ hx (Nat.le_refl _)

/-- The decoding loop never runs out of the fuel the model gives it (the model's only
artificial failure branch is unreachable), for any bytes and any decoder table. -/
theorem decode_loop_fuel_independent {M : Type} (apply : M → Field → Outcome M) (m : M) (data : Bytes)
    (fuel : Nat) (h : data.length ≤ fuel) :
    decodeLoop apply fuel m data = decodeLoop apply data.length m data :=
  decodeLoop_eq_decodeAll apply m data fuel h

/-- Sample message: locations, values (packed or not), labels. -/
theorem sample_wire_roundtrip (s : SampleX) (h : s.WF) : decodeAll SampleX.apply {} s.encode = .ok s :=
  SampleX.roundtrip s h

/-- Location message with any number of inline lines. -/
theorem location_wire_roundtrip (l : LocationX) (h : l.WF) : decodeAll LocationX.apply {} l.encode = .ok l :=
  LocationX.roundtrip l h

/-- Mapping message (ids, ranges, string indices, the four has-symbol flags). -/
theorem mapping_wire_roundtrip (m : MappingX) (h : m.WF) : decodeAll MappingX.apply {} m.encode = .ok m :=
  MappingX.roundtrip m h

/-- Function message. -/
theorem function_wire_roundtrip (f : FunctionX) (h : f.WF) : decodeAll FunctionX.apply {} f.encode = .ok f :=
  FunctionX.roundtrip f h

/-- **Wire half of C01.** For every wire-level profile message whose integers fit their Go
types (`WF`) and whose length-delimited bodies are shorter than 2^64 bytes (`Sized`):
`unmarshal (encode x) = x`, the only change being that an all-zero `PeriodType` is elided
(the decoder then leaves the pointer nil; `postDecode` restores the empty value type). -/
theorem wire_roundtrip (x : ProfileX) (h : x.WF) (hs : x.Sized) :
    unmarshal x.encode = .ok { x with periodType := normPT x.periodType } :=
  unmarshal_encode x h hs

/-- … and the wire image re-encodes to the very same bytes (re-serialization fixpoint at the
wire level). -/
theorem wire_reencode_identical (x : ProfileX) :
    ({ x with periodType := normPT x.periodType } : ProfileX).encode = x.encode := by
  cases x with
  | mk st s m l f tab df kf tn dn pt p c dst doc =>
    cases pt with
    | none => rfl
    | some v =>
      by_cases hv : v.typeX ≠ 0 ∨ v.unitX ≠ 0
      · simp [normPT, hv]
      · simp [normPT, hv, ProfileX.encode]

-- non-vacuity: the hypotheses are met by extreme values and by a non-trivial message
example : InI64 (-9223372036854775808) ∧ (18446744073709551615 : Nat) < two64 := by decide
example : (⟨18446744073709551615, 0, 1, 4096, -9223372036854775808, 7, true, false, true, false⟩ : MappingX).WF := by
  unfold MappingX.WF; decide
example : (⟨[1, 300, 3], [-1, 0, 7], [⟨1, 2, 0, 0⟩]⟩ : SampleX).WF := by
  refine ⟨by decide, by decide, ?_, by simp [encodeVarint, two64], by simp [encodeVarint, two64, toU64], ?_⟩
  · intro l hl; simp at hl; subst hl; unfold LabelX.WF; decide
  · intro l hl; simp at hl; subst hl
    simp [LabelX.encode, encodeInt64Opt, encodeInt64, encodeUint64, encodeVarint, two64, toU64]


/-! ## The `postDecode ∘ preEncode` half and the composed round trip -/
/-
C01 — Profile serialization round-trips without loss: the `postDecode ∘ preEncode` half

Property theorems only (helper lemmas live in `Lemmas/{Intern,InternEntities,LabelsRoundtrip,
PostPre,EncodeWF,NormalizeIdem}.lean`).  Together with the wire half of `Props/C01.lean`
(`wire_roundtrip`) this gives the full statement of the property,

    parse_serialize : Valid p → unitsAligned p → mapsSorted p → InRange p → sizes →
        parseUncompressed (serialize p) = ok (normalize p)

for ALL profiles, about the executable model in `Model/Codec.lean` (tied to profile/encode.go by
the correspondence check).  `Profile.normalize` is the only change a round trip may make: string
labels with empty values disappear (index 0 is "no string" on the wire), numeric labels with
value 0 and no unit disappear, unit lists are padded to the length of their value list, keys
left without values disappear, a nil `PeriodType` becomes the empty value type.

Hypotheses, all of them necessary for the model:
* `Valid` (CheckValid + reference closure): otherwise ids resolve to nil/0;
* `unitsAligned`: otherwise `preEncode` panics on `units[i]` (see C02);
* `mapsSorted` (label maps are real maps, listed in key order): the model represents Go maps
  as key-sorted association lists; this is a well-formedness condition of the representation;
* `InRange` (ids are uint64, values int64) and `EncSizes` (string table shorter than 2^63
  entries, variable-length bodies shorter than 2^64 bytes; `EncSizes_of_counts` discharges it
  from element counts below 2^56): needed by the wire half only.
`normalize_idem` needs distinct NumLabel keys (implied by `mapsSorted`); without them it fails on
the model (`normalize_idem_fails_on_duplicate_keys`) — an artefact of association lists, Go maps
cannot have duplicate keys.
-/


/-! ### non-vacuity witness used by the examples -/

/-- a sample with two string labels (one key has an empty value, one key has only an empty
value), a numeric label with mixed units (incl. value 0 with a unit, value 0 without unit,
trailing empty unit), a numeric label without units, a NumUnit key absent from NumLabel, a
location with two lines, a location without mapping, a nil PeriodType, an empty comment -/
def exProfile : Profile :=
  { sampleType := [⟨[99], [110]⟩], defaultSampleType := [99],
    samples := [⟨[1, 2], [7],
      [([97], [[120], [], [121]]), ([98], [[]])],
      [([107], [0, 5, 0, 3]), ([108], [0, 4])],
      [([107], [[], [117], [], []]), ([122], [[113]])]⟩],
    mappings := [⟨1, 4096, 8192, 0, [102], [], true, false, true, false⟩],
    locations := [⟨1, 1, 4100, [⟨1, 10, 2⟩, ⟨2, 20, 0⟩], false⟩, ⟨2, 0, 0, [], true⟩],
    functions := [⟨1, [109], [109], [102], 9⟩, ⟨2, [103], [], [102], -1⟩],
    comments := [[99], []], docURL := [], dropFrames := [100], keepFrames := [],
    timeNanos := 5, durationNanos := -1, periodType := none, period := 0 }

/-- what `preEncode` makes of it (14 interned strings, 10 flattened labels) -/
def exEncoded : ProfileX :=
  { sampleType := [⟨1, 2⟩],
    sample := [⟨[1, 2], [7], [⟨3, 4, 0, 0⟩, ⟨3, 0, 0, 0⟩, ⟨3, 5, 0, 0⟩, ⟨6, 0, 0, 0⟩, ⟨7, 0, 0, 0⟩, ⟨7, 0, 5, 8⟩,
      ⟨7, 0, 0, 0⟩, ⟨7, 0, 3, 0⟩, ⟨9, 0, 0, 0⟩, ⟨9, 0, 4, 0⟩]⟩],
    mapping := [⟨1, 4096, 8192, 0, 10, 0, true, false, true, false⟩],
    location := [⟨1, 1, 4100, [⟨1, 10, 2⟩, ⟨2, 20, 0⟩], false⟩, ⟨2, 0, 0, [], true⟩],
    function := [⟨1, 11, 11, 10, 9⟩, ⟨2, 12, 0, 10, -1⟩],
    stringTable := [[], [99], [110], [97], [120], [121], [98], [107], [117], [108], [102], [109], [103], [100]],
    dropFramesX := 13, keepFramesX := 0, timeNanos := 5, durationNanos := -1, periodType := none, period := 0,
    commentX := [1, 0], defaultSampleTypeX := 1, docURLX := 0 }

example : preEncode exProfile = .ok exEncoded := by decide

example : exProfile.Valid ∧ exProfile.unitsAligned = true ∧ exProfile.mapsSorted = true := by decide

/-- the example really is changed by the round trip (so `normalize` is not the identity on it) -/
example : Profile.normalize exProfile ≠ exProfile ∧
    (Profile.normalize exProfile).samples.map (·.numUnit) = [[([107], [[117], []])]] := by decide

/-! ### 1. string interning -/

/-- **Interning bundle.**  On a table without duplicates whose entry 0 is the empty string,
`addString` returns a table that extends the old one (prefix), still has no duplicates and
entry 0 empty, and a non-negative index at which the new table holds `s`; the index is 0
exactly for the empty string; and every index valid before is valid, for the same string,
in every later extension (hence in the final table of `preEncode`). -/
theorem interning_bundle (t : StrTab) (s : Str) (h : TabInv t) :
    TabInv (addString t s).1 ∧ t <+: (addString t s).1 ∧
    0 ≤ (addString t s).2 ∧ (addString t s).1[(addString t s).2.toNat]? = some s ∧
    ((addString t s).2 = 0 ↔ s = []) ∧
    (∀ (i : Int) (s' : Str) (t' : StrTab), Res t i s' → (addString t s).1 <+: t' → getString t' i = .ok s') := by
  obtain ⟨h1, h2, h3⟩ := addString_spec t s h
  exact ⟨h1, h2, h3.1, h3.2, addString_zero_iff t s h,
    fun i s' t' hr ht => getString_of_Res ((hr.mono h2).mono ht)⟩

example : TabInv [[], [99]] ∧ addString [[], [99]] [100] = ([[], [99], [100]], 2) ∧
    addString [[], [99]] [99] = ([[], [99]], 1) := ⟨⟨by decide, rfl⟩, by decide, by decide⟩

/-! ### 2. label regrouping -/

/-- **Padding invariant of the NumUnit regrouping loop.**  While `postDecode` processes the
numeric labels of one key `k` (not yet present in the maps `NL`, `NU`), after the kept pairs
`done` the value list of `k` is `done.map fst` and its unit list is `done.map snd` *with the
trailing empty units removed* (Go pads lazily, when the next non-empty unit arrives); pairs
with value 0 and empty unit are skipped.  `optKV k c` is the map entry of `k`, absent while `c`
is empty.  At the end of the sample the trimmed list is padded back (`padding_closes`). -/
theorem padding_invariant (k : Str) (Lb : List (Str × List Str)) (NL : List (Str × List Int))
    (NU : List (Str × List Str)) (hk1 : k ∉ keys NL) (hk2 : k ∉ keys NU) (ps done : List (Int × Str)) :
    (ps.map (fun p => SemLabel.num k p.1 p.2)).foldl semStep
        ⟨Lb, NL ++ optKV k (done.map (·.1)), NU ++ optKV k (dropTrailingEmpty (done.map (·.2)))⟩ =
      ⟨Lb, NL ++ optKV k ((done ++ ps.filter keepPair).map (·.1)),
        NU ++ optKV k (dropTrailingEmpty ((done ++ ps.filter keepPair).map (·.2)))⟩ :=
  foldl_num_key k Lb NL NU hk1 hk2 ps done

/-- … and padding the trimmed units to the number of values restores every unit. -/
theorem padding_closes (us : List Str) : padStringArray (dropTrailingEmpty us) us.length = us :=
  pad_dropTrailingEmpty us

example : dropTrailingEmpty [[], [117], [], []] = [[], [117]] ∧
    padStringArray [[], [117]] 4 = [[], [117], [], []] := by decide

/-- **Label regrouping.**  If the wire labels of `x` denote (in a table satisfying the
interning invariant) the labels of `s` in the order `preEncode` flattens them, and the label
maps of `s` are key-sorted, `postSample` rebuilds exactly `Sample.normalize s`: empty string
values and keys left without values are dropped, zero values with empty unit are dropped, unit
lists are padded to the value lists, `numUnit` is present only for keys with a non-empty unit,
all in key order. -/
theorem label_regrouping {tab : StrTab} (hinv : TabInv tab) {s : Sample} {x : SampleX}
    (hloc : x.locationIDX = s.locationIDs) (hval : x.value = s.values)
    (hd : All2 (fun sl l => Denotes tab l sl) (semLabels s) x.labelX) (hs : s.mapsSorted = true) :
    postSample tab x = .ok (Sample.normalize s) :=
  postSample_of_SampRel hinv ⟨hloc, hval, hd⟩ hs

/-! ### 3. `postDecode ∘ preEncode = normalize` -/

/-- **Second half of C01.**  For every valid profile with aligned units and key-sorted label
maps, `preEncode` succeeds and `postDecode` of its output is the normalised profile.  (No range
hypotheses: the model's integers are unbounded; ranges matter on the wire only.) -/
theorem postDecode_preEncode (p : Profile) (hv : p.Valid) (ha : p.unitsAligned = true)
    (hs : p.mapsSorted = true) :
    ∃ x, preEncode p = .ok x ∧ postDecode x = .ok (Profile.normalize p) := by
  obtain ⟨x, hx, hrel⟩ := preEncode_spec p ha
  exact ⟨x, hx, postDecode_of_EncRel hrel hv hs⟩

example : ∃ x, preEncode exProfile = .ok x ∧ postDecode x = .ok (Profile.normalize exProfile) :=
  postDecode_preEncode exProfile (by decide) (by decide) (by decide)

/-- `serialize` neither panics nor fails on a profile whose units are aligned (the documented
NumUnit contract): `units[i]` is the only panic site of `preEncode`. -/
theorem serialize_never_panics_of_unitsAligned (p : Profile) (ha : p.unitsAligned = true) :
    (∃ b, serialize p = .ok b) ∧ ∀ s, serialize p ≠ .panic s := by
  obtain ⟨x, hx, _⟩ := preEncode_spec p ha
  have : serialize p = .ok x.encode := by unfold serialize; rw [hx]; rfl
  exact ⟨⟨_, this⟩, fun s hs => by rw [this] at hs; cases hs⟩

example : exProfile.unitsAligned = true := by decide

/-! ### 4. `normalize` -/

/-- Normalising twice is normalising once (for profiles whose label maps are real maps). -/
theorem normalize_idem (p : Profile) (hs : p.mapsSorted = true) :
    Profile.normalize (Profile.normalize p) = Profile.normalize p := by
  apply Profile.normalize_idem_of_nodup
  intro s hs'
  unfold Profile.mapsSorted at hs
  rw [List.all_eq_true] at hs
  have := hs s hs'
  unfold Sample.mapsSorted at this
  simp only [Bool.and_eq_true] at this
  exact nodup_keys_of_pairwise (pairwise_of_keysSorted _ this.1.2)

example : exProfile.mapsSorted = true := by decide

/-- Full statement `∀ p, normalize (normalize p) = normalize p` is FALSE for the model: with a
duplicated NumLabel key (impossible for a Go map) `lookup` pairs the second entry with the units
of the first one. -/
theorem normalize_idem_fails_on_duplicate_keys :
    ∃ s : Sample, s.mapsSorted = false ∧ Sample.normalize (Sample.normalize s) ≠ Sample.normalize s :=
  ⟨dupKeySample, by decide, normalize_not_idem_dupKey⟩

/-- The result of a round trip is a fixpoint: it is again valid, aligned and key-sorted, and a
second `preEncode`/`postDecode` returns it unchanged. -/
theorem roundtrip_fixpoint (p : Profile) (hv : p.Valid) (ha : p.unitsAligned = true) (hs : p.mapsSorted = true) :
    (Profile.normalize p).Valid ∧ (Profile.normalize p).unitsAligned = true ∧
    (Profile.normalize p).mapsSorted = true ∧
    ∃ y, preEncode (Profile.normalize p) = .ok y ∧ postDecode y = .ok (Profile.normalize p) := by
  obtain ⟨x, _, hx⟩ := postDecode_preEncode p hv ha hs
  obtain ⟨ha', hs'⟩ := postDecode_ok x _ hx
  have hv' : (Profile.normalize p).Valid := by
    unfold Profile.Valid at hv ⊢; rw [validB_normalize]; exact hv
  obtain ⟨y, hy, hpost⟩ := postDecode_preEncode _ hv' ha' hs'
  rw [normalize_idem p hs] at hpost
  exact ⟨hv', ha', hs', y, hy, hpost⟩

example : (Profile.normalize exProfile).Valid ∧ Profile.normalize exProfile ≠ exProfile := by decide

/-! ### 5. the whole round trip -/

/-- **C01, full statement.**  For every valid profile with aligned units and key-sorted label
maps whose integers fit their Go types, `serialize` succeeds and `ParseUncompressed` of its
bytes is the normalised profile — provided the size side conditions `EncSizes` hold for the
encoded message (`EncSizes_of_counts`: any profile with fewer than 2^56 elements per list). -/
theorem parse_serialize (p : Profile) (hv : p.Valid) (ha : p.unitsAligned = true) (hs : p.mapsSorted = true)
    (hr : InRange p) (hz : ∀ x, preEncode p = .ok x → EncSizes x) :
    ∃ b, serialize p = .ok b ∧ parseUncompressed b = .ok (Profile.normalize p) := by
  obtain ⟨x, hx, hrel⟩ := preEncode_spec p ha
  have hsz := hz x hx
  refine ⟨x.encode, by unfold serialize; rw [hx]; rfl, ?_⟩
  rw [parseUncompressed_encode x (WF_of_EncRel hrel hr hsz) (Sized_of_EncRel hrel hr hsz)]
  exact postDecode_of_EncRel hrel hv hs

/-- `Copy` never panics under the same hypotheses and returns the normalised profile. -/
theorem copy_eq_normalize (p : Profile) (hv : p.Valid) (ha : p.unitsAligned = true) (hs : p.mapsSorted = true)
    (hr : InRange p) (hz : ∀ x, preEncode p = .ok x → EncSizes x) :
    copy p = .ok (Profile.normalize p) := by
  obtain ⟨x, hx, hrel⟩ := preEncode_spec p ha
  have hsz := hz x hx
  have h1 : serialize p = .ok x.encode := by unfold serialize; rw [hx]; rfl
  unfold copy
  rw [h1, Outcome.bind_ok, unmarshal_encode x (WF_of_EncRel hrel hr hsz) (Sized_of_EncRel hrel hr hsz),
    Outcome.bind_ok, postDecode_normPT, postDecode_of_EncRel hrel hv hs]

example : (∃ b, serialize exProfile = .ok b ∧ parseUncompressed b = .ok (Profile.normalize exProfile)) ∧
    copy exProfile = .ok (Profile.normalize exProfile) := by
  have hr : InRange exProfile := ⟨by decide, by decide, by decide, by decide, by decide, by decide, by decide⟩
  have hz : ∀ x, preEncode exProfile = .ok x → EncSizes x := by
    intro x hx
    have h : preEncode exProfile = .ok exEncoded := by decide
    rw [h] at hx
    cases hx
    exact EncSizes_of_counts (by decide) (by decide) (by decide) (by decide) (by decide)
  exact ⟨parse_serialize exProfile (by decide) (by decide) (by decide) hr hz,
    copy_eq_normalize exProfile (by decide) (by decide) (by decide) hr hz⟩

/-!
## The wire schema of profile/encode.go and profile/proto.go, regenerated on every run

`tools/extract/codecschema.go` re-reads the Go source on every run and writes
`Gen/CodecSchema.lean`.  The obligations below compare it with the schema the MODEL implements:

* `schema_encoders_are_model`, `schema_decoders_are_model`: the schemas of `Model/CodecSchema.lean`,
  run through the generic interpreter, ARE the `encode` functions and decoder tables of
  `Model/Codec.lean` (all values, all wire fields, all field numbers);
* `codec_schema_matches`: the schema regenerated from the Go source is that schema (statement
  order, tags, encoder functions, fields, the PeriodType guard, decoder table order and shapes);
* `packed_threshold_matches`, `varint_limit_matches`, `wire_types_match`, `unknown_wire_type_is_error`:
  the constants of proto.go are the constants of `Model/Wire.lean`;
* `intern_order_model`, `intern_order_matches`: preEncode interns strings in the model's order;
* `dense_tables_match`: postDecode's id tables — when in a recognised shape — are `len+1` long and
  only indexed under their guard.

A change of the Go wire schema therefore breaks one of these on the next run even when random
sampling does not hit it.
-/
section WireSchema
open PV.CodecSchema PV.Spec.CodecSchemaExpected

/-- The encoder schemas, interpreted generically, are the model's `encode` functions. -/
theorem schema_encoders_are_model :
    (∀ p : ProfileX, encodeBy ProfileX.dict p ProfileX.encSchema = some p.encode) ∧
    (∀ p : ValueTypeX, encodeBy ValueTypeX.dict p ValueTypeX.encSchema = some p.encode) ∧
    (∀ p : SampleX, encodeBy SampleX.dict p SampleX.encSchema = some p.encode) ∧
    (∀ p : LabelX, encodeBy LabelX.dict p LabelX.encSchema = some p.encode) ∧
    (∀ p : MappingX, encodeBy MappingX.dict p MappingX.encSchema = some p.encode) ∧
    (∀ p : LocationX, encodeBy LocationX.dict p LocationX.encSchema = some p.encode) ∧
    (∀ p : LineX, encodeBy LineX.dict p LineX.encSchema = some p.encode) ∧
    (∀ p : FunctionX, encodeBy FunctionX.dict p FunctionX.encSchema = some p.encode) :=
  Facts.schema_encoders_are_model

/-- The decoder tables, interpreted generically (`dec[b.field]`, out of range ⇒ skipped), are the
model's `apply` functions — for every wire field, including field numbers outside the tables. -/
theorem schema_decoders_are_model :
    (∀ (m : ProfileX) (f : Field), applyBy ProfileX.dict m f ProfileX.decTable = ProfileX.apply m f) ∧
    (∀ (m : ValueTypeX) (f : Field), applyBy ValueTypeX.dict m f ValueTypeX.decTable = ValueTypeX.apply m f) ∧
    (∀ (m : SampleX) (f : Field), applyBy SampleX.dict m f SampleX.decTable = SampleX.apply m f) ∧
    (∀ (m : LabelX) (f : Field), applyBy LabelX.dict m f LabelX.decTable = LabelX.apply m f) ∧
    (∀ (m : MappingX) (f : Field), applyBy MappingX.dict m f MappingX.decTable = MappingX.apply m f) ∧
    (∀ (m : LocationX) (f : Field), applyBy LocationX.dict m f LocationX.decTable = LocationX.apply m f) ∧
    (∀ (m : LineX) (f : Field), applyBy LineX.dict m f LineX.decTable = LineX.apply m f) ∧
    (∀ (m : FunctionX) (f : Field), applyBy FunctionX.dict m f FunctionX.decTable = FunctionX.apply m f) :=
  Facts.schema_decoders_are_model

/-- The schema regenerated from profile/encode.go is the schema of the model: same message types
in the same order, same statements (tag, encoder, field, guarded-on fields) in every `encode` method, same
decoder closure (shape, receiver type, field, nested message type) at every table index. -/
theorem codec_schema_matches : Gen.CodecSchema.all = expectedSchema := Facts.codec_schema_matches

/-- Every regenerated decoder table lists its entries at their own index (the Go code indexes the
table by the field number; the model's tables carry the index explicitly). -/
theorem decoder_indexes_are_positions : Gen.CodecSchema.all.all indexesArePositions = true :=
  Facts.decoder_indexes_are_positions

/-- proto.go `encodeUint64s`/`encodeInt64s` switch to the packed form at the threshold the model
uses, for every tag and every list.  (A different threshold still round-trips — the decoder accepts
both forms — so sampling cannot see it; this obligation does.) -/
theorem packed_threshold_matches (tag : Nat) :
    (∀ xs : List Nat, encodeUint64s tag xs =
      if xs.length > Gen.CodecSchema.proto.packedThresholdUint64s
      then encodeMessage tag (xs.flatMap encodeVarint) else xs.flatMap (encodeUint64 tag)) ∧
    (∀ xs : List Int, encodeInt64s tag xs =
      if xs.length > Gen.CodecSchema.proto.packedThresholdInt64s
      then encodeMessage tag ((xs.map toU64).flatMap encodeVarint) else xs.flatMap (encodeInt64 tag)) :=
  Facts.packed_threshold_matches tag

/-- proto.go `decodeVarint` gives up at the byte index at which the model does. -/
theorem varint_limit_matches (i u : Nat) (b : UInt8) (rest : Bytes) :
    decodeVarintGo i u (b :: rest) =
      if i ≥ Gen.CodecSchema.proto.varintLimit then .err "bad varint" else
      let u' := (u + (b.toNat % 128) * 2 ^ (7 * i)) % two64
      if b.toNat < 128 then .ok (u', rest) else decodeVarintGo (i + 1) u' rest :=
  Facts.varint_limit_matches i u b rest

/-- proto.go `decodeField` splits the key, accepts exactly the wire types and reads exactly the
fixed widths the model does: for any input whose key varint decodes to `x`. -/
theorem wire_types_match (data rest : Bytes) (x : Nat) (h : decodeVarint data = .ok (x, rest)) :
    (x % (Gen.CodecSchema.proto.typeMask + 1) ∉ Gen.CodecSchema.proto.wireTypes →
      decodeField data = .err "unknown wire type") ∧
    (∀ t n, (t, n) ∈ Gen.CodecSchema.proto.fixedSizes → x % (Gen.CodecSchema.proto.typeMask + 1) = t →
      decodeField data =
        if rest.length < n then .err "not enough data"
        else .ok ({ num := x / 2 ^ Gen.CodecSchema.proto.fieldShift, typ := t, u64 := le (rest.take n), data := [] },
                  rest.drop n)) :=
  Facts.wire_types_match data rest x h

/-- the hypothesis of `wire_types_match` is satisfiable: a fixed64 field (key 9 = field 1, type 1) -/
example : decodeVarint [9, 1, 2, 3, 4, 5, 6, 7, 8] = .ok (9, [1, 2, 3, 4, 5, 6, 7, 8]) := by decide

/-- `switch b.typ` of proto.go decodeField ends in a `default:` branch that returns an error (the
model's `| _ => .err "unknown wire type"`). -/
theorem unknown_wire_type_is_error : Gen.CodecSchema.proto.defaultRejects = true :=
  Facts.unknown_wire_type_is_error

/-- The model interns the empty string first and then the strings of the probe profile in the order
of `internSites`. -/
theorem intern_order_model : internTable probe = some ([] :: internSites.map (·.marker)) :=
  Facts.intern_order_model

/-- preEncode of profile/encode.go interns the empty string first (itself or in the function that
creates the table) and then calls `addString` in that order (same field paths under the same
loops and conditions; local names and loop syntax do not matter). -/
theorem intern_order_matches :
    Gen.CodecSchema.emptyStringInternedFirst = true ∧ Gen.CodecSchema.internOrder = expectedInternOrder :=
  Facts.intern_order_matches

/-- postDecode's dense id tables, WHEN the translator recognises the id-table code (inline slices or
one generic helper type with a dense slice and a map): at most one per entity table (Mapping, Function, Location), each of the length the model
(`IdTables.build`) uses, and no index expression on them outside `if id < uint64(len(table))`.
When the code has another shape (`denseTables = none`) this says nothing; the dynamic correspondence
and C02's `postDecode_id_tables_total` remain. -/
theorem dense_tables_match (ts : List Gen.CodecSchema.DenseTable)
    (h : Gen.CodecSchema.denseTables = some ts) :
    ∃ extra, ts.all (denseTableOK extra) = true ∧
      ∀ ids : List Nat, IdTables.build ids =
        IdTables.buildGo { dense := List.replicate (ids.length + extra) none, sparse := [] } 0 ids :=
  Facts.dense_tables_match ts h

/-- the hypothesis is satisfiable (and on the pinned tree it is satisfied: the tables are recognised) -/
example : denseTableOK 1 { elem := "Mapping", table := "Mapping", extra := 1, unguardedIndexes := 0 } = true := by decide

end WireSchema

end PV.Props.C01
