import PprofVerif.Lemmas.MessagesNested
/-!
# C01 — Profile serialization round-trips without loss

Property theorems only (helper lemmas live in `Lemmas/`).  The full statement of the property
(DESIGN.md Appendix D) is

    decode_encode : Valid p → UnitsAligned p → parseUncompressed (serialize p) = ok (normalize p)

It factors through the wire-level ("X") message as `unmarshal ∘ encode` and
`postDecode ∘ preEncode`.  Proved so far, for ALL inputs: the complete wire half
(`wire_roundtrip`: every field of every message type, packed and unpacked repeated scalars,
nested messages, optional-field elision, the string-table rule) and its building blocks.
The `postDecode ∘ preEncode = normalize` half (string interning, label regrouping) is tied by the
correspondence check only.  All theorems are about the executable model in `Model/Wire.lean` /
`Model/Codec.lean`, which the correspondence check ties to profile/proto.go and
profile/encode.go in both directions on every run.
-/
namespace PV.Props.C01
open PV PV.Wire PV.Codec

/-- Every uint64 survives `encodeVarint`/`decodeVarint`, whatever bytes follow it. -/
theorem varint_roundtrip (x : Nat) (hx : x < two64) (rest : Bytes) :
    decodeVarint (encodeVarint x ++ rest) = .ok (x, rest) :=
  decodeVarint_encodeVarint x hx rest

/-- Every int64 (negative and extreme values included) survives the uint64 cast used on the wire. -/
theorem int64_cast_roundtrip (i : Int) (h : InI64 i) : toI64 (toU64 i) = i := toI64_toU64 i h

/-- A scalar field written by `encodeUint64`/`encodeInt64` is read back as that field. -/
theorem scalar_field_roundtrip (tag x : Nat) (ht : tag * 8 < two64) (hx : x < two64) (rest : Bytes) :
    decodeField (encodeUint64 tag x ++ rest) = .ok ({ num := tag, typ := 0, u64 := x, data := [] }, rest) :=
  decodeField_encodeUint64 tag x ht hx rest

/-- A nested message / string / packed list written with a length prefix is read back as its body. -/
theorem delimited_field_roundtrip (tag : Nat) (body : Bytes) (ht : tag * 8 + 2 < two64)
    (hl : body.length < two64) (rest : Bytes) :
    decodeField (encodeMessage tag body ++ rest) = .ok ({ num := tag, typ := 2, u64 := 0, data := body }, rest) :=
  decodeField_encodeMessage tag body ht hl rest

/-- Repeated scalars in packed form (more than two elements) decode to the same list. -/
theorem packed_roundtrip (xs : List Nat) (hx : ∀ x ∈ xs, x < two64) :
    decodePacked (xs.flatMap encodeVarint).length (xs.flatMap encodeVarint) = .ok xs :=
  decodePacked_flatMap xs _ hx (Nat.le_refl _)

/-- The decoding loop never runs out of the fuel the model gives it (the model's only
artificial failure branch is unreachable), for any bytes and any decoder table. -/
theorem decode_loop_fuel_independent {M : Type} (apply : M → Field → Outcome M) (m : M) (data : Bytes)
    (fuel : Nat) (h : data.length ≤ fuel) :
    decodeLoop apply fuel m data = decodeLoop apply data.length m data :=
  decodeLoop_eq_decodeAll apply m data fuel h

/-- Sample message: locations, values (packed or not), labels. -/
theorem sample_wire_roundtrip (s : SampleX) (h : s.WF) : decodeAll SampleX.apply {} s.encode = .ok s :=
  SampleX.roundtrip s h

/-- Location message with any number of inline lines. -/
theorem location_wire_roundtrip (l : LocationX) (h : l.WF) : decodeAll LocationX.apply {} l.encode = .ok l :=
  LocationX.roundtrip l h

/-- Mapping message (ids, ranges, string indices, the four has-symbol flags). -/
theorem mapping_wire_roundtrip (m : MappingX) (h : m.WF) : decodeAll MappingX.apply {} m.encode = .ok m :=
  MappingX.roundtrip m h

/-- Function message. -/
theorem function_wire_roundtrip (f : FunctionX) (h : f.WF) : decodeAll FunctionX.apply {} f.encode = .ok f :=
  FunctionX.roundtrip f h

/-- **Wire half of C01.** For every wire-level profile message whose integers fit their Go
types (`WF`) and whose length-delimited bodies are shorter than 2^64 bytes (`Sized`):
`unmarshal (encode x) = x`, the only change being that an all-zero `PeriodType` is elided
(the decoder then leaves the pointer nil; `postDecode` restores the empty value type). -/
theorem wire_roundtrip (x : ProfileX) (h : x.WF) (hs : x.Sized) :
    unmarshal x.encode = .ok { x with periodType := normPT x.periodType } :=
  unmarshal_encode x h hs

/-- … and the wire image re-encodes to the very same bytes (re-serialization fixpoint at the
wire level). -/
theorem wire_reencode_identical (x : ProfileX) :
    ({ x with periodType := normPT x.periodType } : ProfileX).encode = x.encode := by
  cases x with
  | mk st s m l f tab df kf tn dn pt p c dst doc =>
    cases pt with
    | none => rfl
    | some v =>
      by_cases hv : v.typeX ≠ 0 ∨ v.unitX ≠ 0
      · simp [normPT, hv]
      · simp [normPT, hv, ProfileX.encode]

-- non-vacuity: the hypotheses are met by extreme values and by a non-trivial message
example : InI64 (-9223372036854775808) ∧ (18446744073709551615 : Nat) < two64 := by decide
example : (⟨18446744073709551615, 0, 1, 4096, -9223372036854775808, 7, true, false, true, false⟩ : MappingX).WF := by
  unfold MappingX.WF; decide
example : (⟨[1, 300, 3], [-1, 0, 7], [⟨1, 2, 0, 0⟩]⟩ : SampleX).WF := by
  refine ⟨by decide, by decide, ?_, by simp [encodeVarint, two64], by simp [encodeVarint, two64, toU64], ?_⟩
  · intro l hl; simp at hl; subst hl; unfold LabelX.WF; decide
  · intro l hl; simp at hl; subst hl
    simp [LabelX.encode, encodeInt64Opt, encodeInt64, encodeUint64, encodeVarint, two64, toU64]

end PV.Props.C01
