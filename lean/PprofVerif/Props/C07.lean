import PprofVerif.Lemmas.Combine
import PprofVerif.Lemmas.ComposeCodec
import PprofVerif.Lemmas.ComposeDiffBase
/-!
# C07 — combining and subtracting profiles is linear in every entry

Property theorems only; helper lemmas are in `Lemmas/Combine.lean`, the model in
`Model/Combine.lean`.  A profile is a finite multiset of `(stack key, value vector)` samples and
every figure of a report (flat / cum of an entry, the value of a `-traces` stack, a total) is
`figure sel φ p = Σ_{s ∈ p | φ s.key} sel s.values`; all theorems quantify over *every* profile,
stack predicate `φ` and sample index `i`.

`WF n p` (one value per sample type) is what `profile.Parse`/`CheckValid` guarantee for every
file the CLI reads.  `Scale(-1)` really goes through float64: `scaleNeg1` is that computation,
`neg` the exact one; the `_f64_partial` theorems are the statements about the code as it is,
under the hypothesis (`InF64`) that excludes known finding `C07/scale/|v|>2^53`, and the
`…_witness` theorems show the unrestricted statements fail on the float model.
`scaleN` carries the REPAIRED survival rule (fixes/C07-scalen-keep-nonzero.patch, which cannot be
committed because upstream TestNormalizeByDifferentProfile encodes the dropping); `scaleNPinned`
is the rule of the tree as it is (known finding
`C07/scaleN/drops-sample-nonzero-only-in-unscaled-columns`): `scaleN_keeps_nonzero_samples` is the
full statement, proved of the repaired rule; `scaleN_keeps_nonzero_samples_partial` proves it of
the code as it is when every column is really scaled (Scale(-1), uniform ratios, all units
converted), and `pinned_scaleN_drops_nonzero_witness` shows the full statement fails of the
pinned rule.  The harness compares the real code with BOTH models and reports the known signature
only when the output is exactly the pinned model's.
-/
namespace PV.Props.C07
open PV PV.Combine

/-- `Sample` in this file is C07's `(stack key, values)` sample (the id-based `PV.Sample` of the
profile model, imported for the composition with C01 at the end, is always written qualified). -/
abbrev Sample := PV.Combine.Sample

private def kA : StackKey := ⟨[1, 2], 0, false⟩
private def kB : StackKey := ⟨[3, 2], 7, false⟩

/-- **Linearity**: any figure of several profiles taken together is the sum of their figures —
for every `SampleValue` function and every stack predicate. -/
theorem report_linear (sel : Vals → Int) (φ : StackKey → Bool) (ps : List Prof) :
    figure sel φ ps.flatten = (ps.map (figure sel φ)).sum :=
  figure_flatten sel φ ps

/-- … and this survives the merge that `combineProfiles` performs (equal stacks summed,
all-zero samples removed): the report of several sources is the entry-wise sum of the reports. -/
theorem combine_report_eq_sum (n i : Nat) (φ : StackKey → Bool) (ps : List Prof)
    (h : ∀ p ∈ ps, WF n p) :
    figure (col i) φ (combine ps) = (ps.map (figure (col i) φ)).sum :=
  combine_figure i φ ps h

example : figure (col 1) (cumPred (fun l => [l]) 2) (combine [[(kA, [1, 5])], [(kB, [2, 7]), (kA, [0, -3])]]) = 9 := by
  decide

/-- **Base / diff-base**: with a base profile (labelled `pprof::base` or not) every figure whose
predicate looks at the frames equals source minus base. -/
theorem base_report_eq_difference (n i : Nat) (ψ : List Nat → Bool) (label : Bool) (src b : Prof)
    (hs : WF n src) (hb : WF n b) :
    figure (col i) (fun k => ψ k.frames) (combine [src, neg (if label then setBase b else b)]) =
      figure (col i) (fun k => ψ k.frames) src - figure (col i) (fun k => ψ k.frames) b := by
  have hb' : WF n (if label then setBase b else b) := by
    cases label
    · exact hb
    · exact setBase_WF hb
  rw [combine_figure (n := n) i _ [src, neg (if label then setBase b else b)] (by
    intro p hp
    simp only [List.mem_cons, List.not_mem_nil, or_false] at hp
    rcases hp with rfl | rfl
    · exact hs
    · exact neg_WF hb')]
  simp only [List.map_cons, List.map_nil, List.sum_cons, List.sum_nil, neg_figure]
  cases label
  · simp only [Bool.false_eq_true, if_false]; omega
  · simp only [if_true, setBase_figure]; omega

/-- the same about the code as it is (`Scale(-1)` through float64), for base values that float64
represents exactly.  Full statement (without `InF64 b`) is false: see the witness below. -/
theorem base_report_eq_difference_f64_partial (n i : Nat) (ψ : List Nat → Bool) (label : Bool)
    (src b : Prof) (hs : WF n src) (hb : WF n b) (hf : InF64 b) :
    figure (col i) (fun k => ψ k.frames) (combine [src, scaleNeg1 (if label then setBase b else b)]) =
      figure (col i) (fun k => ψ k.frames) src - figure (col i) (fun k => ψ k.frames) b := by
  have hf' : InF64 (if label then setBase b else b) := by
    cases label
    · exact hf
    · intro s hs' x hx
      unfold setBase at hs'
      obtain ⟨t, ht, rfl⟩ := List.mem_map.mp hs'
      exact hf t ht x hx
  rw [scaleNeg1_eq_neg _ hf']
  exact base_report_eq_difference n i ψ label src b hs hb

theorem base_report_f64_witness :
    figure (col 0) (fun _ => true) (combine [[(kA, [2 ^ 53 + 1])], scaleNeg1 [(kA, [2 ^ 53 + 1])]]) ≠
      figure (col 0) (fun _ => true) [(kA, [2 ^ 53 + 1])] - figure (col 0) (fun _ => true) [(kA, [2 ^ 53 + 1])] := by
  decide

example : WF 2 [(kA, [4, -9]), (kB, [0, 3])] ∧ InF64 [(kA, [4, -9]), (kB, [2 ^ 53, 3])] := by
  constructor
  · intro s hs; simp at hs; rcases hs with rfl | rfl <;> rfl
  · intro s hs x hx
    simp at hs
    rcases hs with rfl | rfl <;> simp at hx <;> rcases hx with rfl | rfl <;> decide

/-- **A profile minus itself is empty**: every merged stack sums to the zero vector, so nothing
is left after the merge. -/
theorem self_difference_all_zero (n : Nat) (p : Prof) (h : WF n p) :
    (∀ s ∈ mergeRaw (dropZero (p ++ neg p)), isZero s.2 = true) ∧ combine [p, neg p] = [] := by
  refine ⟨self_difference_entries p h, ?_⟩
  have := merge_self_difference p h
  simpa [combine] using this

/-- the same about the code as it is, on float64's exact range. -/
theorem self_difference_all_zero_f64_partial (n : Nat) (p : Prof) (h : WF n p) (hf : InF64 p) :
    combine [p, scaleNeg1 p] = [] := by
  rw [scaleNeg1_eq_neg p hf]
  exact (self_difference_all_zero n p h).2

/-- beyond ±2^53 the float path leaves residue (known finding `C07/scale/|v|>2^53`). -/
theorem self_difference_residue_witness :
    combine [[(kA, [2 ^ 53 + 1])], scaleNeg1 [(kA, [2 ^ 53 + 1])]] = [(kA, [1])] := by
  decide

example : combine [[(kA, [3, 0]), (kB, [0, 0]), (kA, [1, 1])], neg [(kA, [3, 0]), (kB, [0, 0]), (kA, [1, 1])]] = [] := by
  decide

/-- **Sample types are aligned on the common ones**: with distinct type names per profile, a type
is kept iff every profile has it, and the kept types appear in the first profile's order. -/
theorem compatibilize_common_types (p0 : TProf) (ps : List TProf)
    (hn : ∀ p ∈ p0 :: ps, p.types.Nodup) :
    (∀ t, t ∈ commonTypes (p0 :: ps) ↔ ∀ p ∈ p0 :: ps, t ∈ p.types) ∧
      (commonTypes (p0 :: ps)).Sublist p0.types :=
  ⟨commonTypes_mem p0 ps hn, commonTypes_sublist p0 ps⟩

/-- **… values are carried from the right column and nothing is dropped**: `CompatibilizeSampleTypes`
succeeds, every result profile has exactly the common types as columns (with the unit of the
source column of that name), the same samples in the same order with the same keys, and the
`j`-th value of each sample is the value it had in the column named by the `j`-th common type. -/
theorem compatibilize_spec (ps : List TProf) (hne : commonTypes ps ≠ [])
    (hin : ∀ p ∈ ps, ∀ t ∈ commonTypes ps, t ∈ p.types)
    (hw : ∀ p ∈ ps, WF p.cols.length p.samples) :
    ∃ rs : List TProf, compatibilize ps = .ok rs ∧ rs.length = ps.length ∧
      ∀ (m : Nat) (p : TProf), ps[m]? = some p → ∃ r : TProf, rs[m]? = some r ∧
        r.types = commonTypes ps ∧ r.samples.length = p.samples.length ∧
        ∀ (a : Nat) (s : Sample), p.samples[a]? = some s → ∃ s' : Sample, r.samples[a]? = some s' ∧ s'.1 = s.1 ∧
          s'.2.length = (commonTypes ps).length ∧
          ∀ (j t : Nat), (commonTypes ps)[j]? = some t →
            ∃ i : Nat, findCol t p.cols = some i ∧ s'.2[j]? = s.2[i]? ∧ r.cols[j]? = p.cols[i]? := by
  refine ⟨_, compatibilize_ok ps hne hin hw, by simp, ?_⟩
  intro m p hm
  have hp : p ∈ ps := List.mem_of_getElem? hm
  refine ⟨⟨(commonTypes ps).map (colOf p),
      p.samples.map (fun s => (s.1, (commonTypes ps).map (fun t => col (idxOf t p.cols) s.2)))⟩,
    by simp only [List.getElem?_map, hm, Option.map_some], ?_, by simp, ?_⟩
  · -- column names
    simp only [TProf.types, List.map_map]
    conv_rhs => rw [← List.map_id (commonTypes ps)]
    apply List.map_congr_left
    intro t ht
    obtain ⟨_, hi, hty⟩ := findCol_idxOf t p.cols (hin p hp t ht)
    simp [colOf, List.getElem?_eq_getElem hi, hty]
  · intro a s ha
    have hs : s ∈ p.samples := List.mem_of_getElem? ha
    refine ⟨(s.1, (commonTypes ps).map (fun t => col (idxOf t p.cols) s.2)),
      by simp only [List.getElem?_map, ha, Option.map_some], rfl, by simp, ?_⟩
    intro j t hj
    have ht : t ∈ commonTypes ps := List.mem_of_getElem? hj
    obtain ⟨hfc, hi, _⟩ := findCol_idxOf t p.cols (hin p hp t ht)
    refine ⟨_, hfc, ?_, ?_⟩
    · simp only [List.getElem?_map, hj, Option.map_some]
      rw [getElem?_eq_some_col s.2 _ (by rw [hw p hp s hs]; exact hi)]
    · simp only [List.getElem?_map, hj, Option.map_some]
      simp [colOf, List.getElem?_eq_getElem hi]

private def tp1 : TProf := ⟨[⟨10, ⟨1, 1, 1024⟩⟩, ⟨11, ⟨2, 2, 1000000⟩⟩, ⟨12, ⟨3, 0, 0⟩⟩], [(kA, [7, 0, 1]), (kB, [0, 3, 1])]⟩
private def tp2 : TProf := ⟨[⟨11, ⟨4, 2, 1⟩⟩, ⟨10, ⟨5, 1, 1⟩⟩], [(kA, [1000, 10])]⟩
example : commonTypes [tp1, tp2] = [10, 11] ∧
    compatibilize [tp1, tp2] = .ok [⟨[⟨10, ⟨1, 1, 1024⟩⟩, ⟨11, ⟨2, 2, 1000000⟩⟩], [(kA, [7, 0]), (kB, [0, 3])]⟩,
      ⟨[⟨10, ⟨5, 1, 1⟩⟩, ⟨11, ⟨4, 2, 1⟩⟩], [(kA, [10, 1000])]⟩] := by
  constructor <;> rfl

/-- **ScaleN never loses a sample that still has a non-zero value** (and invents none): the
result consists exactly of the scaled samples that are not all-zero.  Defect #5 of the pinned
tree violates the first part; this is the repaired rule. -/
theorem scaleN_keeps_nonzero_samples (rs : List Ratio) (n : Nat) (p q : Prof)
    (h : scaleN rs n p = .ok q) (hw : WF n p) :
    (∀ s ∈ p, isZero (scaleVec rs s.2) = false → (s.1, scaleVec rs s.2) ∈ q) ∧
      (∀ t ∈ q, ∃ s ∈ p, t = (s.1, scaleVec rs s.2)) :=
  ⟨fun s hs hnz => scaleN_mem rs n p q h hw s hs hnz, fun t ht => scaleN_sound rs n p q h hw t ht⟩

/-- the code as it is: when no ratio equals 1 (every column is scaled) the pinned rule IS the
repaired rule, so nothing with a non-zero value is lost.  Full statement (no hypothesis on the
ratios) is `scaleN_keeps_nonzero_samples` with `scaleNPinned` for `scaleN`; it is false, see the
witness below. -/
theorem scaleN_keeps_nonzero_samples_partial (rs : List Ratio) (n : Nat) (p q : Prof)
    (h1 : ∀ r ∈ rs, r.isOne = false) (h : scaleNPinned rs n p = .ok q) (hw : WF n p) :
    (∀ s ∈ p, isZero (scaleVec rs s.2) = false → (s.1, scaleVec rs s.2) ∈ q) ∧
      (∀ t ∈ q, ∃ s ∈ p, t = (s.1, scaleVec rs s.2)) := by
  rw [scaleNPinned_eq_scaleN rs n p h1] at h
  exact scaleN_keeps_nonzero_samples rs n p q h hw

example : (∀ r ∈ [Ratio.ofInt (-1), Ratio.ofInt (-1)], r.isOne = false) ∧
    scaleNPinned [Ratio.ofInt (-1), Ratio.ofInt (-1)] 2 [(kA, [7, 0]), (kB, [0, 0])] = .ok [(kA, [-7, 0])] := by
  decide

/-- the pinned tree's rule drops `[7, 0]` scaled by `[1, 1024]` although 7 ≠ 0 survives scaling. -/
theorem pinned_scaleN_drops_nonzero_witness :
    scaleNPinned [Ratio.ofInt 1, Ratio.ofInt 1024] 2 [(kA, [7, 0])] = .ok [] ∧
      scaleN [Ratio.ofInt 1, Ratio.ofInt 1024] 2 [(kA, [7, 0])] = .ok [(kA, [7, 0])] := by
  decide

/-- **Scaling by integers is exact**: every figure of column `i` is multiplied by `ks[i]`
(this is the unit harmonisation kB→bytes, ms→ns: no rounding, no sample lost). -/
theorem scale_by_integer_exact (ks : List Int) (n : Nat) (p q : Prof)
    (h : scaleN (ks.map Ratio.ofInt) n p = .ok q) (hw : WF n p) (i : Nat) (hi : i < ks.length)
    (φ : StackKey → Bool) :
    figure (col i) φ q = figure (col i) φ p * ks[i] := by
  have hi' : i < (ks.map Ratio.ofInt).length := by simpa using hi
  rw [scaleN_figure _ n p q h hw i hi' φ, ← figure_mul_sel]
  apply figure_congr
  intro s _
  simp only [List.getElem_map]
  exact scaleVal_ofInt _ _

example : scaleN ([1, 1024].map Ratio.ofInt) 2 [(kA, [7, 0]), (kB, [0, 0]), (kB, [-2, 3])] =
    .ok [(kA, [7, 0]), (kB, [-2, 3072])] := by decide

/-- **Units are harmonised to the finest one**: among convertible units (one family)
`CommonValueType` returns a member with the smallest factor. -/
theorem commonUnit_finest (f : Nat) (hf : f ≠ 0) (t0 : ColT) (ts : List ColT) (c : ColT)
    (hfam : ∀ t ∈ t0 :: ts, t.unit.fam = f) (h : commonUnitGo t0 ts = .ok c) :
    c ∈ t0 :: ts ∧ ∀ t ∈ t0 :: ts, c.unit.factor ≤ t.unit.factor :=
  commonUnitGo_finest f hf t0 ts c hfam h

example : commonUnit [⟨10, ⟨1, 1, 1024⟩⟩, ⟨10, ⟨5, 1, 1⟩⟩, ⟨10, ⟨6, 1, 1048576⟩⟩] = .ok (some ⟨10, ⟨5, 1, 1⟩⟩) := by
  decide

/-- **-normalize**: when the source total of column `i` is not zero, the scaled source total
differs from the base total by at most half a unit per source sample (exact rational ratio,
round-half-away): `|Σ scaled − Σ base| ≤ #samples / 2`. -/
theorem normalize_total_bound (n : Nat) (p pb q : Prof) (h : normalize n p pb = .ok q)
    (hw : WF n p) (i : Nat) (hi : i < n) (hs : colSum i p ≠ 0) :
    2 * (colSum i q - colSum i pb).natAbs ≤ p.length := by
  have := normalize_bound n p pb q h hw i hi hs
  omega

example : normalize 1 [(kA, [1]), (kB, [1]), (kA, [1])] [(kA, [10])] = .ok [(kA, [3]), (kB, [3]), (kA, [3])] := by
  decide

/-- **-diff_base percentages are relative to the base total**: in the merged difference of a
source and a (merged) base labelled `pprof::base`, the total used for percentages is
`Σ |base value|` whenever that is positive (otherwise the sum over all samples). -/
theorem diffbase_total_spec (src b : Prof) (hsrc : ∀ s ∈ src, s.1.base = false)
    (hb : ∀ s ∈ b, s.1.base = false) (hnd : (b.map (·.1)).Nodup) (i : Nat) :
    diffBaseTotal (col i) (combine [src, neg (setBase b)]) =
      if absTotal (col i) b > 0 then absTotal (col i) b
      else absTotal (col i) (combine [src, neg (setBase b)]) := by
  have hc : combine [src, neg (setBase b)] = merge (src ++ neg (setBase b)) := by simp [combine]
  rw [hc]
  unfold diffBaseTotal
  simp only
  rw [diffBase_filter_merge src b hsrc hb hnd i]

example : diffBaseTotal (col 0) (combine [[(kA, [50]), (kB, [4])], neg (setBase [(kA, [20]), (kB, [-5])])]) = 25 := by
  decide

/-! ## composed with C01: a -diff_base result survives the protobuf round trip

`-diff_base` results can be written with `-proto` and read back (by pprof itself, or by the web
UI's `profileCopier`).  The bridge `ofProfile tag p` (`Model/CombineBridge.lean`) is the C07 view of
an id-based profile: frames = location ids, `base` = `Sample.DiffBaseSample()` (label
`pprof::base` has the value `true`), `tag` = any summary of the other attributes.  C01 says the
round trip returns `normalize p`; the label value `true` is non-empty, so it survives, and the
whole C07 view — hence every figure and the diff-base total — is unchanged. -/

/-- **A -diff_base result written with the C01 codec and re-read has the same weight function and
the same diff-base total.**  For every profile meeting C01's hypotheses and every tag function that
does not tell a sample from its normal form: `serialize` succeeds, `ParseUncompressed` of the bytes
returns a profile with the SAME C07 view (same stacks, same `pprof::base` marks, same values, in the
same order), so every report figure and `computeTotal`'s diff-base total agree. -/
theorem diffbase_proto_roundtrip (tag : PV.Sample → Nat) (htag : ∀ s, tag (Codec.Sample.normalize s) = tag s)
    (p : Profile) (hv : p.Valid) (ha : p.unitsAligned = true) (hs : p.mapsSorted = true)
    (hr : Codec.InRange p) (hz : ∀ x, Codec.preEncode p = .ok x → Codec.EncSizes x) :
    ∃ b q, Codec.serialize p = .ok b ∧ Codec.parseUncompressed b = .ok q ∧
      ofProfile tag q = ofProfile tag p ∧
      (∀ sel φ, figure sel φ (ofProfile tag q) = figure sel φ (ofProfile tag p)) ∧
      (∀ sel, diffBaseTotal sel (ofProfile tag q) = diffBaseTotal sel (ofProfile tag p)) := by
  obtain ⟨b, h1, h2⟩ := Codec.parse_serialize_normalize p hv ha hs hr hz
  have h3 := ofProfile_normalize tag htag p hs
  exact ⟨b, _, h1, h2, h3, fun sel φ => by rw [h3], fun sel => by rw [h3]⟩

/-- the same for ANY tag function, applied to the normal form of the sample (no hypothesis on the
tag: `normalize` is idempotent on real maps). -/
theorem diffbase_proto_roundtrip_normal_tag (tag : PV.Sample → Nat)
    (p : Profile) (hv : p.Valid) (ha : p.unitsAligned = true) (hs : p.mapsSorted = true)
    (hr : Codec.InRange p) (hz : ∀ x, Codec.preEncode p = .ok x → Codec.EncSizes x) :
    ∃ b q, Codec.serialize p = .ok b ∧ Codec.parseUncompressed b = .ok q ∧
      ofProfile (tag ∘ Codec.Sample.normalize) q = ofProfile (tag ∘ Codec.Sample.normalize) p := by
  obtain ⟨b, h1, h2⟩ := Codec.parse_serialize_normalize p hv ha hs hr hz
  exact ⟨b, _, h1, h2, ofProfile_normalize_normalTag tag p hs⟩

/-- **The base samples still carry `pprof::base=true` after the round trip**: a base profile `pb`
labelled by `SetLabel("pprof::base", ["true"])`, written and re-read, is — in the C07 view —
exactly `setBase` of `pb`: every sample is marked, stacks and values are `pb`'s.  (`tag` ignores
that label and does not tell a sample from its normal form.) -/
theorem base_label_survives_roundtrip (tag : PV.Sample → Nat)
    (htag : ∀ s, tag (Codec.Sample.normalize s) = tag s) (htag2 : ∀ s, tag (setBaseLabel s) = tag s)
    (pb : Profile) (hv : (setBaseP pb).Valid) (ha : (setBaseP pb).unitsAligned = true)
    (hs : (setBaseP pb).mapsSorted = true) (hr : Codec.InRange (setBaseP pb))
    (hz : ∀ x, Codec.preEncode (setBaseP pb) = .ok x → Codec.EncSizes x) :
    ∃ b q, Codec.serialize (setBaseP pb) = .ok b ∧ Codec.parseUncompressed b = .ok q ∧
      ofProfile tag q = setBase (ofProfile tag pb) ∧
      (∀ s ∈ ofProfile tag q, s.1.base = true) := by
  obtain ⟨b, q, h1, h2, h3, _⟩ := diffbase_proto_roundtrip tag htag (setBaseP pb) hv ha hs hr hz
  have h4 : ofProfile tag q = setBase (ofProfile tag pb) := by rw [h3, ofProfile_setBaseP tag htag2 pb]
  refine ⟨b, q, h1, h2, h4, ?_⟩
  intro s hs'
  rw [h4] at hs'
  unfold setBase at hs'
  obtain ⟨t, _, rfl⟩ := List.mem_map.mp hs'
  rfl

/-- The hypothesis "label maps are real maps" is needed for the label to be read the same way
before and after: with a duplicated key (impossible for a Go map) the first entry `pprof::base=[""]`
hides the second `pprof::base=["true"]` before normalisation but not after. -/
theorem isBase_normalize_needs_distinct_keys :
    let s : PV.Sample := ⟨[1], [1], [(baseKey, [[]]), (baseKey, [trueStr])], [], []⟩
    Graph.isBase s = false ∧ Graph.isBase (Codec.Sample.normalize s) = true := by
  decide +kernel

-- non-vacuity: a labelled base profile meeting every hypothesis; the constant tag and the tag
-- "number of numeric label keys of the normal form" are admissible tag functions
private def exBase : Profile :=
  { sampleType := [⟨[99], [110]⟩], defaultSampleType := [], periodType := some ⟨[99], [110]⟩, period := 1,
    samples := [⟨[1], [20], [([97], [[120]])], [], []⟩, ⟨[1], [-5], [], [], []⟩], mappings := [],
    locations := [⟨1, 0, 16, [], false⟩], functions := [], comments := [], docURL := [], dropFrames := [],
    keepFrames := [], timeNanos := 5, durationNanos := 1 }
example : (setBaseP exBase).Valid ∧ (setBaseP exBase).unitsAligned = true ∧ (setBaseP exBase).mapsSorted = true ∧
    ofProfile (fun _ => 0) (setBaseP exBase) = [(⟨[1], 0, true⟩, [20]), (⟨[1], 0, true⟩, [-5])] := by
  decide +kernel
example : (∀ s, (fun _ : PV.Sample => 0) (Codec.Sample.normalize s) = (fun _ : PV.Sample => 0) s) ∧
    (∀ s, (fun _ : PV.Sample => 0) (setBaseLabel s) = (fun _ : PV.Sample => 0) s) := ⟨fun _ => rfl, fun _ => rfl⟩

end PV.Props.C07
