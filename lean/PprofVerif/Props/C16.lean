import PprofVerif.Lemmas.Fetch
import PprofVerif.Gen.FetchConsts
import PprofVerif.Lemmas.ComposeParseMerge
import PprofVerif.Lemmas.ComposeMergeSpec
/-!
# C16 — Multi-source fetch merges whatever succeeded, independent of timing

Property theorems only (helper lemmas: `Lemmas/Fetch.lean`).  All statements are about the
executable model `Model/Fetch.lean` of `concurrentGrab` / `chunkedGrab` / `grabSourcesAndBases`
(internal/driver/fetch.go) and hold for ALL numbers of sources, ALL outcome functions
(`outs : Nat → Res ε α`, which source yields which profile or which error), ALL completion
orders and — where chunking is involved — EVERY chunk size `c ≥ 1` (the facts about the chunk loop of
the code are regenerated into `Gen/FetchConsts.lean` on every run).

What is assumed of `combineProfiles` is the explicit hypothesis `MergeSpec` (C03's subject); the
last section ("composed with C03") proves `MergeSpec` for C03's model of `profile.Merge` and restates
the main theorems for it.
The model is tied to the real code by `harness/c16.go` (driver.PProf with a fault-injecting,
delaying Fetcher plug-in) on every run.
-/
namespace PV.Props.C16
open PV PV.Fetch

variable {ε α β : Type}

/-- Writes to distinct slots commute: two completion orders that are permutations of each other
(the same goroutines finish, in any order, starting from ANY slot state) leave the same slots,
hence `concurrentGrab` prints the same lines and returns the same result. -/
theorem slots_independent_of_schedule (merge : List α → Outcome α) (outs : Nat → Res ε α)
    (π σ : List Nat) (h : π.Perm σ) :
    (∀ s : Slots ε α, runSchedule outs π s = runSchedule outs σ s) ∧
    (∀ off len, concurrentGrab merge outs off len π = concurrentGrab merge outs off len σ) := by
  refine ⟨runSchedule_perm outs h, ?_⟩
  intro off len
  unfold concurrentGrab
  rw [runSchedule_perm (fun i => outs (off + i)) h]

/-- Stronger form used for the whole fetch: ANY two complete schedules (every goroutine finishes
before the barrier opens — they need not even be permutations of each other), for the source
group and for the base group, give the same printed error lines and the same result of
`grabSourcesAndBases`; no assumption on `merge`, any chunk size. -/
theorem result_independent_of_schedule (merge : List α → Outcome α) (c : Nat)
    (souts : Nat → Res ε α) (n : Nat) (bouts : Nat → Res ε α) (m : Nat)
    (π π' σ σ' : List Nat) (hπ : Complete π n) (hπ' : Complete π' n)
    (hσ : Complete σ m) (hσ' : Complete σ' m) :
    grabSourcesAndBases merge c souts n π bouts m σ = grabSourcesAndBases merge c souts n π' bouts m σ' := by
  unfold grabSourcesAndBases chunkedGrab
  rw [chunkLoop_sched_indep merge souts c n π π' hπ hπ', chunkLoop_sched_indep merge bouts c m σ σ' hσ hσ']

/-- After the barrier the scan collects exactly the sources that succeeded, in command-line
(index) order, and hands them — in that order — to `combineProfiles`; `count` is their number. -/
theorem collect_is_successes_in_index_order (merge : List α → Outcome α) (outs : Nat → Res ε α)
    (off len : Nat) (π : List Nat) (hc : Complete π len) :
    (concurrentGrab merge outs off len π).res = mergeCollected merge (successes outs off len) ∧
    (successes outs off len).map (·.1) = (List.range' off len).filter (fun i => (outs i).isOk) ∧
    (∀ i p, (i, p) ∈ successes outs off len → outs i = .ok p) := by
  rw [concurrentGrab_complete merge outs off len π hc]
  exact ⟨rfl, successes_fst outs off len, fun i p h => (mem_successes h).2.2⟩

/-- Exactly one error line per failed source, in index order, carrying that source's error —
whatever `merge` does and whatever the completion order. -/
theorem errors_one_per_failure (merge : List α → Outcome α) (outs : Nat → Res ε α)
    (off len : Nat) (π : List Nat) (hc : Complete π len) :
    (concurrentGrab merge outs off len π).printed = failures outs off len ∧
    (failures outs off len).map (·.1) = (List.range' off len).filter (fun i => (outs i).isFail) ∧
    (∀ i e, (i, e) ∈ failures outs off len → outs i = .fail e) := by
  rw [concurrentGrab_complete merge outs off len π hc]
  exact ⟨rfl, failures_fst outs off len, fun i e h => (mem_failures h).2.2⟩

/-- For EVERY chunk size `c ≥ 1`: fetching in chunks and folding the chunk results with
`merge [p, chunkP]` prints the same lines, collects the same indices in the same order, counts
the same, and yields — on the abstraction `abs` — the same profile as one flat `concurrentGrab`
over all sources, namely the left-to-right sum of the successful sources (`GroupSpec`).
Hypotheses: `MergeSpec` (C03: merge succeeds on compatible valid profiles, `abs (merge ps) = Σ abs`,
the sum is associative), every fetched profile is `Good`, the barrier holds. -/
theorem chunked_eq_flat {merge : List α → Outcome α} {Good : α → Prop} {abs : α → β}
    {add : β → β → β} (hm : MergeSpec merge Good abs add) (outs : Nat → Res ε α) (c n : Nat)
    (hc1 : 1 ≤ c) (π : List Nat) (hg : ∀ i p, i < n → outs i = .ok p → Good p) (hc : Complete π n) :
    ∃ g g', chunkedGrab merge outs c n π = ⟨failures outs 0 n, .ok g⟩ ∧
      concurrentGrab merge outs 0 n π = ⟨failures outs 0 n, .ok g'⟩ ∧
      g.p.map abs = g'.p.map abs ∧ g.count = g'.count ∧ g.idx = g'.idx ∧
      GroupSpec Good abs add outs n (failures outs 0 n) g := by
  obtain ⟨g, h1, h2⟩ := chunkLoop_spec hm outs c n π hg hc hc1 n 0 [] ⟨none, 0, []⟩ (by omega) (by
    rw [Nat.zero_min]
    exact ⟨by simp [failures], by simp [successes], by simp [successes], by simp, by simp [successes, absSum]⟩)
  obtain ⟨g', h3, h4, h5, _, h7⟩ := mergeCollected_spec hm (successes outs 0 n) (by
    intro x hx
    obtain ⟨_, k2, k3⟩ := mem_successes (p := x.2) (i := x.1) hx
    exact hg x.1 x.2 (by omega) k3)
  refine ⟨g, g', h1, ?_, ?_, ?_, ?_, h2⟩
  · rw [concurrentGrab_complete merge outs 0 n π hc, h3]
  · rw [h2.abs_eq, h7]
  · rw [h2.count, h5]
  · rw [h2.idx, h4]

/-- The whole fetch fails iff no source — or no base when bases were requested — could be
fetched; it never panics; the error lines of both groups are one per failure even when it
fails; and when it succeeds the source/base profiles are the in-order sums of the successes
(the base profile is absent iff no bases were requested). -/
theorem fails_iff_group_empty {merge : List α → Outcome α} {Good : α → Prop} {abs : α → β}
    {add : β → β → β} (hm : MergeSpec merge Good abs add) (c : Nat) (hc1 : 1 ≤ c)
    (souts : Nat → Res ε α) (n : Nat) (π : List Nat)
    (bouts : Nat → Res ε α) (m : Nat) (σ : List Nat)
    (hgs : ∀ i p, i < n → souts i = .ok p → Good p) (hgb : ∀ i p, i < m → bouts i = .ok p → Good p)
    (hπ : Complete π n) (hσ : Complete σ m) :
    let r := grabSourcesAndBases merge c souts n π bouts m σ
    r.srcPrinted = failures souts 0 n ∧ r.basePrinted = failures bouts 0 m ∧
    (∀ s, r.res ≠ .panic s) ∧
    ((∃ e, r.res = .err e) ↔
      ((∀ i, i < n → (souts i).isFail = true) ∨ (0 < m ∧ ∀ j, j < m → (bouts j).isFail = true))) ∧
    (∀ b, r.res = .ok b →
      b.srcIdx = (successes souts 0 n).map (·.1) ∧ b.baseIdx = (successes bouts 0 m).map (·.1) ∧
      b.src.map abs = absSum add ((successes souts 0 n).map (fun x => abs x.2)) ∧
      b.base.map abs = absSum add ((successes bouts 0 m).map (fun x => abs x.2)) ∧
      b.src ≠ none ∧ (b.base = none ↔ m = 0)) := by
  intro r
  obtain ⟨gs, _, hs1, _, _, _, _, hS⟩ := chunked_eq_flat hm souts c n hc1 π hgs hπ
  obtain ⟨gb, _, hb1, _, _, _, _, hB⟩ := chunked_eq_flat hm bouts c m hc1 σ hgb hσ
  have hr : r = ⟨failures souts 0 n, failures bouts 0 m,
      if gs.count = 0 then .err "failed to fetch any source profiles"
      else if gb.count = 0 ∧ 0 < m then .err "failed to fetch any base profiles"
      else .ok ⟨gs.p, gb.p, gs.idx, gb.idx⟩⟩ := by
    show grabSourcesAndBases merge c souts n π bouts m σ = _
    unfold grabSourcesAndBases
    rw [hs1, hb1]
  have hse : gs.count = 0 ↔ ∀ i, i < n → (souts i).isFail = true := by
    rw [hS.count, List.length_eq_zero_iff, successes_eq_nil]
    constructor
    · intro h i hi; exact h i (Nat.zero_le _) (by omega)
    · intro h i _ hi; exact h i (by omega)
  have hbe : gb.count = 0 ↔ ∀ i, i < m → (bouts i).isFail = true := by
    rw [hB.count, List.length_eq_zero_iff, successes_eq_nil]
    constructor
    · intro h i hi; exact h i (Nat.zero_le _) (by omega)
    · intro h i _ hi; exact h i (by omega)
  rw [hr]
  refine ⟨rfl, rfl, ?_, ?_, ?_⟩
  · intro s
    simp only []
    split
    · simp
    · split <;> simp
  · simp only []
    constructor
    · rintro ⟨e, he⟩
      by_cases h1 : gs.count = 0
      · exact Or.inl (hse.1 h1)
      · by_cases h2 : gb.count = 0 ∧ 0 < m
        · exact Or.inr ⟨h2.2, hbe.1 h2.1⟩
        · simp [h1, h2] at he
    · rintro (h | ⟨h1, h2⟩)
      · exact ⟨_, by rw [if_pos (hse.2 h)]⟩
      · by_cases h0 : gs.count = 0
        · exact ⟨_, by rw [if_pos h0]⟩
        · exact ⟨_, by rw [if_neg h0, if_pos ⟨hbe.2 h2, h1⟩]⟩
  · intro b hb
    simp only [] at hb
    by_cases h1 : gs.count = 0
    · simp [h1] at hb
    · by_cases h2 : gb.count = 0 ∧ 0 < m
      · simp [h1, h2] at hb
      · simp only [h1, h2, if_false] at hb
        have hb' : b = ⟨gs.p, gb.p, gs.idx, gb.idx⟩ := by
          injection hb with hb; exact hb.symm
        subst hb'
        refine ⟨hS.idx, hB.idx, hS.abs_eq, hB.abs_eq, ?_, ?_⟩
        · intro hnone
          have h3 := hS.abs_eq
          simp only [] at hnone
          rw [hnone] at h3
          have h4 := (absSum_eq_none add _).1 h3.symm
          rw [List.map_eq_nil_iff] at h4
          exact h1 (by rw [hS.count, h4]; rfl)
        · simp only []
          constructor
          · intro hnone
            have h3 := hB.abs_eq
            rw [hnone] at h3
            have h4 := (absSum_eq_none add _).1 h3.symm
            rw [List.map_eq_nil_iff] at h4
            have h5 : gb.count = 0 := by rw [hB.count, h4]; rfl
            by_cases hm0 : m = 0
            · exact hm0
            · exact absurd ⟨h5, by omega⟩ h2
          · intro hm0
            subst hm0
            have h3 := hB.abs_eq
            simp [successes, absSum] at h3
            exact h3

/-! ### the facts regenerated from the current source (`Gen/FetchConsts.lean`)

The translator emits what it RECOGNISES (`none`/"unknown" otherwise — the dynamic checks of
`harness/c16.go` then carry that fact alone), so the obligations are conditional. -/

/-- When recognised: the chunk size of the code is positive, consecutive chunks start exactly one
chunk length apart (no source skipped, none fetched twice) and no chunk exceeds the chunk size —
the shape `Fetch.chunkLoop` has for `c = chunkSize`. Re-decided by the kernel on every run. -/
theorem extracted_chunking_wellformed :
    (∀ c, Gen.FetchConsts.chunkSize? = some c → 1 ≤ c) ∧
    (∀ a b, Gen.FetchConsts.chunkStep? = some a → Gen.FetchConsts.chunkSpan? = some b →
      a = b ∧ 1 ≤ a ∧ ∀ c, Gen.FetchConsts.chunkSize? = some c → b ≤ c) :=
  chunkFactsOk_spec _ _ _ (by decide)

/-- `chunked_eq_flat` at the chunk size of the code (when recognised). -/
theorem chunked_eq_flat_extracted {merge : List α → Outcome α} {Good : α → Prop} {abs : α → β}
    {add : β → β → β} (hm : MergeSpec merge Good abs add) (outs : Nat → Res ε α) (n : Nat)
    (π : List Nat) (hg : ∀ i p, i < n → outs i = .ok p → Good p) (hc : Complete π n)
    (c : Nat) (hcs : Gen.FetchConsts.chunkSize? = some c) :
    ∃ g, chunkedGrab merge outs c n π = ⟨failures outs 0 n, .ok g⟩ ∧
      GroupSpec Good abs add outs n (failures outs 0 n) g := by
  obtain ⟨g, _, h1, _, _, _, _, h2⟩ :=
    chunked_eq_flat hm outs c n (extracted_chunking_wellformed.1 c hcs) π hg hc
  exact ⟨g, h1, h2⟩

/-! ### sources described by scheme / trust (URL sources through the real transport) -/

/-- Corollary for described sources (`https` needs a trusted certificate, `https+insecure` does
not, …): which sources are merged and which get an error line is a function of the source list
alone — source `i` is collected iff ITS OWN description is fetchable — and the whole result is the
same under any two complete completion orders of the two groups. -/
theorem described_sources_outcome_is_per_source (merge : List (List Nat) → Outcome (List Nat)) (c : Nat)
    (ds bs : List SrcDesc) (π π' σ σ' : List Nat)
    (hπ : Complete π ds.length) (hπ' : Complete π' ds.length)
    (hσ : Complete σ bs.length) (hσ' : Complete σ' bs.length) :
    grabSourcesAndBases merge c (outsOfDescs 0 ds) ds.length π (outsOfDescs 1000000 bs) bs.length σ
      = grabSourcesAndBases merge c (outsOfDescs 0 ds) ds.length π' (outsOfDescs 1000000 bs) bs.length σ' ∧
    (successes (outsOfDescs 0 ds) 0 ds.length).map (·.1)
      = (List.range' 0 ds.length).filter (fun i => (ds[i]?.map SrcDesc.fetchable).getD false) ∧
    (failures (outsOfDescs 0 ds) 0 ds.length).map (·.1)
      = (List.range' 0 ds.length).filter (fun i => !(ds[i]?.map SrcDesc.fetchable).getD false) := by
  refine ⟨result_independent_of_schedule merge c _ _ _ _ π π' σ σ' hπ hπ' hσ hσ', ?_, ?_⟩
  · rw [successes_fst]
    apply List.filter_congr
    intro i _
    unfold outsOfDescs
    cases ds[i]? with
    | none => rfl
    | some d => cases h : d.fetchable <;> simp [h, Res.isOk]
  · rw [failures_fst]
    apply List.filter_congr
    intro i _
    unfold outsOfDescs
    cases ds[i]? with
    | none => rfl
    | some d => cases h : d.fetchable <;> simp [h, Res.isFail]

-- an untrusted https source fails, the https+insecure source next to it succeeds, in either order
example :
    let ds := [⟨.https, false, true⟩, ⟨.httpsInsecure, false, true⟩, ⟨.https, true, true⟩, ⟨.http, false, false⟩]
    (chunkedGrab catMerge (outsOfDescs 0 ds) 128 4 [1, 0, 3, 2]).res = .ok ⟨some [1, 2], 2, [1, 2]⟩ ∧
    (chunkedGrab catMerge (outsOfDescs 0 ds) 128 4 [0, 2, 3, 1]).res = .ok ⟨some [1, 2], 2, [1, 2]⟩ := by
  decide

/-! ### units -/

/-- The merged value of a stack whose sources report it in different units (`unitSum`: finest
factor, sum converted to it) depends on the multiset of the successful sources' `(factor, value)`
pairs only — not on their command-line order, hence not on which failing sources stand between
them or on the completion order. -/
theorem unit_sum_order_independent (l l' : List (Nat × Nat)) (h : l.Perm l') : unitSum l = unitSum l' := by
  unfold unitSum
  rw [minFactor_perm h]
  cases minFactor l' with
  | none => rfl
  | some m => simp only [convertedSum_perm m h]

-- [ms 5, ns 7] and [ns 7, ms 5] both give 5·10⁶ + 7 ns
example : unitSum [(1000000, 5), (1, 7)] = (1, 5000007) ∧ unitSum [(1, 7), (1000000, 5)] = (1, 5000007) := by decide

/-! ### sample types -/

/-- A sample type survives the merge iff EVERY fetched source has it — so the set of surviving
types does not depend on the order of the sources (only the order in which they are listed does:
it is the first source's), nor on where failing sources stand between them. -/
theorem commonTypes_perm (l l' : List (List Nat)) (h : l.Perm l') (hne : l ≠ []) (t : Nat) :
    (t ∈ commonTypes l ↔ ∀ s, s ∈ l → t ∈ s) ∧ (t ∈ commonTypes l ↔ t ∈ commonTypes l') := by
  have key : ∀ m : List (List Nat), m ≠ [] → (t ∈ commonTypes m ↔ ∀ s, s ∈ m → t ∈ s) := by
    intro m hm
    cases m with
    | nil => exact absurd rfl hm
    | cons f rest =>
      simp only [commonTypes, List.mem_filter, List.all_eq_true, List.contains_iff_mem, List.mem_cons]
      constructor
      · rintro ⟨h1, h2⟩ s (rfl | hs)
        · exact h1
        · exact h2 s hs
      · intro h0
        exact ⟨h0 f (Or.inl rfl), fun s hs => h0 s (Or.inr hs)⟩
  have hne' : l' ≠ [] := by
    intro h0; subst h0; exact hne (List.Perm.eq_nil h)
  refine ⟨key l hne, ?_⟩
  rw [key l hne, key l' hne']
  constructor
  · intro h0 s hs; exact h0 s (h.mem_iff.2 hs)
  · intro h0 s hs; exact h0 s (h.mem_iff.1 hs)

-- [samples cpu], [cpu], [cpu samples]: only cpu survives, wherever the middle source stands
example : commonTypes [[1, 2], [2], [2, 1]] = [2] ∧ commonTypes [[1, 2], [2, 1], [2]] = [2] ∧
    commonTypes [[1], [2], [3]] = [] := by decide

/-! ### non-vacuity: the hypotheses are met by a non-trivial instance, and the barrier matters -/

-- `MergeSpec` is satisfiable by an order-SENSITIVE merge (concatenation: the free monoid)
example : MergeSpec catMerge (fun _ => True) (fun x => x) (· ++ ·) := catMerge_spec

-- 5 sources, #1 and #3 fail, chunk size 2, two different completion orders: same result,
-- successes in index order, one line per failure
example :
    let outs := outsOfBits 0 [true, false, true, false, true]
    (chunkedGrab catMerge outs 2 5 [4, 0, 3, 1, 2]).res = .ok ⟨some [0, 2, 4], 3, [0, 2, 4]⟩ ∧
    (chunkedGrab catMerge outs 2 5 [2, 1, 0, 4, 3]).res = .ok ⟨some [0, 2, 4], 3, [0, 2, 4]⟩ ∧
    (chunkedGrab catMerge outs 2 5 [4, 0, 3, 1, 2]).printed = [(1, ()), (3, ())] ∧
    Complete [4, 0, 3, 1, 2] 5 := by
  refine ⟨by decide, by decide, by decide, ?_⟩
  intro i hi
  have : i = 0 ∨ i = 1 ∨ i = 2 ∨ i = 3 ∨ i = 4 := by omega
  rcases this with rfl | rfl | rfl | rfl | rfl <;> simp

-- without the barrier (goroutine 1 has not finished) the scan reads an unwritten slot: panic
example : ∃ s, (concurrentGrab catMerge (outsOfBits 0 [true, true]) 0 2 [0]).res = .panic s :=
  ⟨_, rfl⟩

-- all sources fail ⇒ overall failure, yet one line per failed source
example :
    let r := grabSourcesAndBases catMerge 2 (outsOfBits 0 [false, false, false]) 3 [2, 0, 1]
      (outsOfBits 100 []) 0 []
    r.res = .err "failed to fetch any source profiles" ∧ r.srcPrinted.length = 3 := by
  decide

/-! ## composed with C03 (and C02): `merge` is the model of `profile.Merge`

`MergeSpec` is no longer an assumption: `Merge.merge_mergeSpec` (Lemmas/ComposeMergeSpec.lean)
proves it for C03's model of `profile.Merge` with `abs p = Spec.weight p` (the weight function
`StackKey → value vector`), `add = Merge.addW` (pointwise element-wise int64 sum) and
`Good = Merge.GoodFor st pt` (valid, int64-typed, sample types `st`, period type `pt` — the
profiles `Merge` accepts together).  What remains outside: `combineProfiles` also calls
`CompatibilizeSampleTypes` and `ScaleProfiles` before `profile.Merge` (C07's subject); the
statements below are about fetched profiles that already share their sample types. -/

/-- **`chunked_eq_flat` for the real merge model.**  For every chunk size `c ≥ 1`, every outcome
function whose successful profiles are valid, well typed and share sample types `st` and period
type `pt`, and every complete schedule: fetching in chunks and folding with `Merge [p, chunkP]`
prints the same lines, collects the same indices, counts the same, and returns a profile with the
SAME WEIGHT for every stack as one flat `concurrentGrab` + `Merge` over all sources — namely the
element-wise int64 sum of the weights of the successful sources, in command-line order. -/
theorem chunked_eq_flat_for_merge (st : List ValueType) (pt : ValueType) (outs : Nat → Res ε Profile)
    (c n : Nat) (hc1 : 1 ≤ c) (π : List Nat)
    (hg : ∀ i p, i < n → outs i = .ok p → Merge.GoodFor st pt p) (hc : Complete π n) :
    ∃ g g', chunkedGrab Merge.merge outs c n π = ⟨failures outs 0 n, .ok g⟩ ∧
      concurrentGrab Merge.merge outs 0 n π = ⟨failures outs 0 n, .ok g'⟩ ∧
      g.count = g'.count ∧ g.idx = g'.idx ∧ (g.p = none ↔ g'.p = none) ∧
      (∀ p p', g.p = some p → g'.p = some p' → ∀ k, Spec.weight p k = Spec.weight p' k) ∧
      GroupSpec (Merge.GoodFor st pt) (fun p => (Spec.weight p : Merge.WeightFn)) Merge.addW outs n
        (failures outs 0 n) g := by
  obtain ⟨g, g', h1, h2, h3, h4, h5, h6⟩ :=
    chunked_eq_flat (Merge.merge_mergeSpec st pt) outs c n hc1 π hg hc
  refine ⟨g, g', h1, h2, h4, h5, ?_, ?_, h6⟩
  · cases hgp : g.p <;> cases hgp' : g'.p <;> simp [hgp, hgp'] at h3 ⊢
  · intro p p' hp hp' k
    rw [hp, hp'] at h3
    simp only [Option.map_some, Option.some.injEq] at h3
    exact congrFun h3 k

/-- … and the merged source profile weighs, at every stack, the left-to-right element-wise int64
sum of the successful sources' weights (the explicit form of `GroupSpec.abs_eq`). -/
theorem chunked_weight_is_sum_for_merge (st : List ValueType) (pt : ValueType) (outs : Nat → Res ε Profile)
    (c n : Nat) (hc1 : 1 ≤ c) (π : List Nat)
    (hg : ∀ i p, i < n → outs i = .ok p → Merge.GoodFor st pt p) (hc : Complete π n)
    (g : Grab Profile) (hgr : chunkedGrab Merge.merge outs c n π = ⟨failures outs 0 n, .ok g⟩)
    (r : Profile) (hr : g.p = some r) (k : Spec.StackKey) :
    ∃ x xs, successes outs 0 n = x :: xs ∧
      Spec.weight r k = (xs.map (fun y => Spec.weight y.2 k)).foldl Spec.addV (Spec.weight x.2 k) := by
  obtain ⟨g0, _, h1, _, _, _, _, _, h6⟩ := chunked_eq_flat_for_merge st pt outs c n hc1 π hg hc
  rw [hgr] at h1
  have hgg : g = g0 := by injection h1 with _ h1; injection h1
  subst hgg
  have habs := h6.abs_eq
  rw [hr] at habs
  cases hs : successes outs 0 n with
  | nil => rw [hs] at habs; simp [absSum] at habs
  | cons x xs =>
    rw [hs] at habs
    simp only [Option.map_some, List.map_cons, absSum, Option.some.injEq] at habs
    refine ⟨x, xs, rfl, ?_⟩
    have := congrFun habs k
    rw [this, Merge.foldl_addW_apply, List.map_map]
    rfl

/-- every profile `ParseData` accepts (C02) with the agreed sample types and period type is `Good`:
the hypothesis `hg` of the theorems above holds for whatever the fetcher parsed. -/
theorem parsed_profile_good (b : Wire.Bytes) (p : Profile) (st : List ValueType) (pt : ValueType)
    (h : Parse.parseData b = .ok p) (hst : p.sampleType = st) (hpt : p.periodType = some pt) :
    Merge.GoodFor st pt p := by
  obtain ⟨hv, ht⟩ := Merge.parsed_valid_typed b p h
  exact ⟨hv, ht, hst, hpt⟩

-- non-vacuity: the sample input of C02 yields a `Good` profile
example : Merge.GoodFor [⟨[97], [98]⟩] ⟨[], []⟩ Parse.sampleParsed :=
  parsed_profile_good Parse.sampleBytes _ _ _ Parse.parseData_sampleBytes rfl rfl

end PV.Props.C16
