import PprofVerif.Lemmas.CodecSchemaFacts
/-!
# C02 — the decoder side of the regenerated wire schema (TO BE MERGED into Props/C02.lean)

Same facts as the "wire schema" section of Props/C01.lean, restricted to what parsing depends on:
the decoder tables of profile/encode.go (regenerated into `Gen/CodecSchema.lean` on every run) are
the model's `apply` functions, `decodeVarint`/`decodeField` of proto.go use the model's constants,
and postDecode's dense id tables are only indexed under their length guard.  Merge: append the
section below to Props/C02.lean before `end PV.Props.C02`, add the import above, and add
`"extract": true, "extract_files": ["codecschema.go"], "gen_files": ["CodecSchema.lean"]` to
checks/C02.json.
-/
namespace PV.Props.C02
open PV PV.Wire PV.Codec

section WireSchema
open PV.CodecSchema PV.Spec.CodecSchemaExpected

/-- The decoder tables, interpreted generically (`dec[b.field]`, out of range ⇒ skipped), are the
model's `apply` functions — for every wire field, including field numbers outside the tables. -/
theorem schema_decoders_are_model :
    (∀ (m : ProfileX) (f : Field), applyBy ProfileX.dict m f ProfileX.decTable = ProfileX.apply m f) ∧
    (∀ (m : ValueTypeX) (f : Field), applyBy ValueTypeX.dict m f ValueTypeX.decTable = ValueTypeX.apply m f) ∧
    (∀ (m : SampleX) (f : Field), applyBy SampleX.dict m f SampleX.decTable = SampleX.apply m f) ∧
    (∀ (m : LabelX) (f : Field), applyBy LabelX.dict m f LabelX.decTable = LabelX.apply m f) ∧
    (∀ (m : MappingX) (f : Field), applyBy MappingX.dict m f MappingX.decTable = MappingX.apply m f) ∧
    (∀ (m : LocationX) (f : Field), applyBy LocationX.dict m f LocationX.decTable = LocationX.apply m f) ∧
    (∀ (m : LineX) (f : Field), applyBy LineX.dict m f LineX.decTable = LineX.apply m f) ∧
    (∀ (m : FunctionX) (f : Field), applyBy FunctionX.dict m f FunctionX.decTable = FunctionX.apply m f) :=
  Facts.schema_decoders_are_model

/-- The schema regenerated from profile/encode.go is the schema of the model: same message types
in the same order, same statements (tag, encoder, field, guard) in every `encode` method, same
decoder closure (shape, receiver type, field, nested message type) at every table index. -/
theorem codec_schema_matches : Gen.CodecSchema.all = expectedSchema := Facts.codec_schema_matches

/-- Every regenerated decoder table lists its entries at their own index (the Go code indexes the
table by the field number; the model's tables carry the index explicitly). -/
theorem decoder_indexes_are_positions : Gen.CodecSchema.all.all indexesArePositions = true :=
  Facts.decoder_indexes_are_positions

/-- proto.go `decodeVarint` gives up at the byte index at which the model does. -/
theorem varint_limit_matches (i u : Nat) (b : UInt8) (rest : Bytes) :
    decodeVarintGo i u (b :: rest) =
      if i ≥ Gen.CodecSchema.proto.varintLimit then .err "bad varint" else
      let u' := (u + (b.toNat % 128) * 2 ^ (7 * i)) % two64
      if b.toNat < 128 then .ok (u', rest) else decodeVarintGo (i + 1) u' rest :=
  Facts.varint_limit_matches i u b rest

/-- proto.go `decodeField` splits the key, accepts exactly the wire types and reads exactly the
fixed widths the model does: for any input whose key varint decodes to `x`. -/
theorem wire_types_match (data rest : Bytes) (x : Nat) (h : decodeVarint data = .ok (x, rest)) :
    (x % (Gen.CodecSchema.proto.typeMask + 1) ∉ Gen.CodecSchema.proto.wireTypes →
      decodeField data = .err "unknown wire type") ∧
    (∀ t n, (t, n) ∈ Gen.CodecSchema.proto.fixedSizes → x % (Gen.CodecSchema.proto.typeMask + 1) = t →
      decodeField data =
        if rest.length < n then .err "not enough data"
        else .ok ({ num := x / 2 ^ Gen.CodecSchema.proto.fieldShift, typ := t, u64 := le (rest.take n), data := [] },
                  rest.drop n)) :=
  Facts.wire_types_match data rest x h

/-- the hypothesis of `wire_types_match` is satisfiable: a fixed64 field (key 9 = field 1, type 1) -/
example : decodeVarint [9, 1, 2, 3, 4, 5, 6, 7, 8] = .ok (9, [1, 2, 3, 4, 5, 6, 7, 8]) := by decide

/-- postDecode builds one dense id table per entity table, of the length the model
(`IdTables.build`) uses, and indexes them only under `if id < uint64(len(table))`. -/
theorem dense_tables_match :
    ∃ extra, Gen.CodecSchema.denseTables = expectedDenseTables extra ∧
      ∀ ids : List Nat, IdTables.build ids =
        IdTables.buildGo { dense := List.replicate (ids.length + extra) none, sparse := [] } 0 ids :=
  Facts.dense_tables_match

end WireSchema

end PV.Props.C02
