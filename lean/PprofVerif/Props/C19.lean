import PprofVerif.Model.Settings
import PprofVerif.Model.SettingsFS
import PprofVerif.Model.SettingsRMW
import PprofVerif.Gen.ConfigFields
namespace PV.Props.C19
open PV PV.Settings

theorem table_url_ok : urlTableOK PV.Gen.ConfigFields.fields = true := by decide

theorem table_json_ok : jsonTableOK PV.Gen.ConfigFields.fields = true := by decide

theorem table_transient_ok :
    transientOK PV.Gen.ConfigFields.fields PV.Gen.ConfigFields.transient
      PV.Gen.ConfigFields.decodeFromZero PV.Gen.ConfigFields.loadResetsTransient = true := by decide

end PV.Props.C19
