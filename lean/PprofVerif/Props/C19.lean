import PprofVerif.Lemmas.SettingsURL
import PprofVerif.Lemmas.SettingsJSON
import PprofVerif.Lemmas.SettingsFS
import PprofVerif.Lemmas.SettingsRMW
import PprofVerif.Gen.ConfigFields
/-!
# C19 — Saved view configurations are durable and faithfully restored

Property theorems only (helper lemmas: `Lemmas/Settings{Decimal,URL,JSON,FS,RMW}.lean`).  They are
about the executable models `Model/Settings.lean` (options ↔ URL ↔ JSON, read-modify-write),
`Model/SettingsFS.lean` (file system with crashes) and `Model/SettingsRMW.lean` (interleavings).
The option theorems hold for EVERY field table satisfying a decidable side condition; the
`table_*` theorems re-decide that condition, in the kernel, for the table regenerated from
`internal/driver/config.go` on every check (`Gen/ConfigFields.lean`), and the `*_pprof` theorems
are the instances for that table.  The tie to the running code is the correspondence /
trace-refinement / fault-enumeration harness (`harness/c19*.go`).

External parameters (trusted base): `FloatOps.parse` (strconv.ParseFloat∘fmt.Sprint),
`JsonCodec` (encoding/json, `dec (enc x) = some x`), net/url query encoding, POSIX `rename`.
-/
namespace PV.Props.C19
open PV PV.Settings PV.Gen.ConfigFields

/-! ## regenerated table facts -/

/-- every URL parameter names one field only; defaults have the field's Go type; `choices` only on
string fields; no field uses the parameter `config`. -/
theorem table_url_ok : urlTableOK fields = true := by decide

/-- saved fields have pairwise different, non-empty JSON names, none of them `name`. -/
theorem table_json_ok : jsonTableOK fields = true := by decide

/-- `readSettings` decodes into a zero `config` and `resetTransient` restores exactly the fields
that have no JSON name. -/
theorem table_transient_ok :
    transientOK fields transient decodeFromZero loadResetsTransient = true := by decide

/-! ## (b) configuration → URL → configuration -/

/-- **URL round trip, any table, ALL configurations, any initial URL.**  Converting `cfg` to a URL
(on top of any query `u` that carries no non-saved option) and applying that URL to the default
configuration yields `cfg`, where a string option holding "" counts as unset and takes its default
(`normURL`), and options that URLs do not carry take their default.  Per kind: bool via the
`t`/`f` shortening and `stringToBool`, int via `Atoi ∘ Sprint = id` on int64 (proved), float via
the parameter `fo` on canonical texts, string/choice verbatim. -/
theorem url_roundtrip (fo : FloatOps) (fs : List FieldSpec) (hT : urlTableOK fs = true) (cfg : Config)
    (hw : WF fo fs cfg) (u : Query) (hu : ∀ f ∈ fs, inURL f = false → qget u f.urlparam = []) :
    applyURL fo fs (defaults fs) (makeURL fs cfg u).1 = some (normURL fs cfg) :=
  applyURL_makeURL fo fs hT cfg hw u hu

/-- … for pprof's own table. -/
theorem url_roundtrip_pprof (fo : FloatOps) (cfg : Config) (hw : WF fo fields cfg) (u : Query)
    (hu : ∀ f ∈ fields, inURL f = false → qget u f.urlparam = []) :
    applyURL fo fields (defaults fields) (makeURL fields cfg u).1 = some (normURL fields cfg) :=
  url_roundtrip fo fields table_url_ok cfg hw u hu

/-- **The full statement** — every SAVED option survives configuration → URL → configuration — holds
for every table in which each saved field has a URL parameter. (On the pinned tree `tagroot` and
`tagleaf` are saved without one: finding `C19/url-roundtrip/saved-option-not-in-url/*`, shown on the
real code by the harness; `fixes/C19-tagroot-tagleaf-urlparam.patch` gives them parameters.) -/
theorem url_roundtrip_all_saved (fo : FloatOps) (fs : List FieldSpec) (hT : urlTableOK fs = true)
    (hA : allSavedInURL fs = true) (cfg : Config) (hw : WF fo fs cfg) (u : Query)
    (hu : ∀ f ∈ fs, inURL f = false → qget u f.urlparam = []) :
    applyURL fo fs (defaults fs) (makeURL fs cfg u).1 = some (normSaved fs cfg) := by
  rw [← normURL_eq_normSaved fs cfg hA]
  exact applyURL_makeURL fo fs hT cfg hw u hu

/-- witness: a saved field without URL parameter does not survive (the model exhibits the finding). -/
theorem saved_option_without_urlparam_is_lost :
    let fs : List FieldSpec := [{ goName := "TagRoot", name := b!"tagroot", saved := true, omitempty := true, urlparam := [], kind := .string, choices := [], default := .s [] }]
    applyURL ⟨fun t => some t⟩ fs (defaults fs) (makeURL fs [.s b!"x"] []).1 = some [.s []] ∧
      normSaved fs [.s b!"x"] = [.s b!"x"] := by decide

/-- `strconv.Atoi (fmt.Sprint n) = n` for every int64 `n` (the int-kind step of the round trip). -/
theorem atoi_sprint_roundtrip (n : Int) (h : inI64 n = true) : atoi (showInt n) = some n :=
  atoi_showInt n h

-- non-vacuity: a non-default configuration over a table with all five kinds, and an initial URL with
-- stale values for the same parameters
example :
    let fs : List FieldSpec := [
      { goName := "Trim", name := b!"trim", saved := true, omitempty := true, urlparam := b!"trim", kind := .bool, choices := [], default := .b true },
      { goName := "NodeCount", name := b!"nodecount", saved := true, omitempty := true, urlparam := b!"n", kind := .int, choices := [], default := .i (-1) },
      { goName := "Unit", name := b!"unit", saved := true, omitempty := true, urlparam := b!"unit", kind := .string, choices := [], default := .s b!"minimum" },
      { goName := "Sort", name := b!"sort", saved := true, omitempty := true, urlparam := b!"sort", kind := .choice, choices := [b!"cum", b!"flat"], default := .s b!"flat" }]
    let cfg : Config := [.b false, .i (-9223372036854775808), .s [], .s b!"cum"]
    urlTableOK fs = true ∧
    (makeURL fs cfg [(b!"n", b!"5"), (b!"unit", b!"ms"), (b!"other", b!"1")]).1 =
      [(b!"sort", b!"cum"), (b!"n", b!"-9223372036854775808"), (b!"trim", b!"f"), (b!"other", b!"1")] ∧
    normURL fs cfg = [.b false, .i (-9223372036854775808), .s b!"minimum", .s b!"cum"] := by decide

/-! ## (a) configuration → settings file → configuration -/

/-- **JSON round trip of the saved fields, any table, ALL typed configurations.**  Marshalling with
`omitempty` and unmarshalling into a zero `config` followed by `resetTransient` returns every
saved field intact (`restore`: saved fields from `cfg`, the others as currently configured).
Needs: distinct JSON names (`jsonTableOK`). -/
theorem json_roundtrip_saved_fields (fs : List FieldSpec) (hT : jsonTableOK fs = true) (cur cfg : Config)
    (ht : Typed fs cfg) (hl : cur.length = fs.length) :
    fromObj fs cur (toObj fs cfg) = some (restore fs cur cfg) :=
  fromObj_toObj fs hT cur cfg ht hl

/-- … for pprof's own table. -/
theorem json_roundtrip_saved_fields_pprof (cur cfg : Config) (ht : Typed fields cfg)
    (hl : cur.length = fields.length) :
    fromObj fields cur (toObj fields cfg) = some (restore fields cur cfg) :=
  json_roundtrip_saved_fields fields table_json_ok cur cfg ht hl

/-- the whole file: reading back what `writeSettings` wrote gives every configuration, in order,
with its saved fields intact (`j` = encoding/json, assumed `dec ∘ enc = id`). -/
theorem settings_file_roundtrip (j : JsonCodec) (hj : j.RoundTrips) (fs : List FieldSpec)
    (hT : jsonTableOK fs = true) (cur : Config) (hl : cur.length = fs.length) (s : Settings)
    (hs : ∀ p ∈ s, Typed fs p.2) :
    readSettings j fs cur (some (settingsBytes j fs s)) =
      some (s.map (fun p => (p.1, restore fs cur p.2))) := by
  simp [readSettings, settingsBytes, hj (encS fs s), decS_encS fs hT cur hl s hs]

example : Typed fields (defaults fields) ∧ (defaults fields).length = fields.length := by decide

/-! ## (c) save/delete of one name leaves the others alone -/

/-- **Frame, ALL settings lists.**  Whatever a successful request about name `r.name` does, the
entries of every other name — their contents AND their relative order — are unchanged; in
particular the list of entries named `b ≠ r.name` is the same before and after. -/
theorem edit_frame (fo : FloatOps) (fs : List FieldSpec) (cur : Config) (r : Req) (s s' : Settings)
    (h : r.edit fo fs cur s = some s') :
    s'.filter (fun p => decide (p.1 ≠ r.name)) = s.filter (fun p => decide (p.1 ≠ r.name)) ∧
    ∀ b, b ≠ r.name → s'.filter (fun p => decide (p.1 = b)) = s.filter (fun p => decide (p.1 = b)) := by
  have h1 := edit_others fo fs cur r s s' h
  refine ⟨h1, fun b hb => ?_⟩
  rw [filter_name_of_ne r.name b hb s', filter_name_of_ne r.name b hb s, h1]

/-- a save makes the saved configuration the one a lookup of that name finds; a successful delete
removes exactly one entry, and it is one of that name. -/
theorem edit_effect (a : Str) (cfg : Config) (s : Settings) :
    (setEntry a cfg s).find? (fun p => decide (p.1 = a)) = some (a, cfg) ∧
    ∀ s', removeEntry a s = some s' → s'.length + 1 = s.length ∧
      (s'.filter (fun p => decide (p.1 = a))).length + 1 = (s.filter (fun p => decide (p.1 = a))).length :=
  ⟨setEntry_find a cfg s, fun s' h => removeEntry_length a s s' h⟩

/-- **Frame through the file.**  On any document `writeSettings` produced, a successful request about
`r.name` leaves the stored JSON objects of every other name byte-for-byte (object-for-object) as
they were; a failing request leaves the whole document as it is. -/
theorem edit_frame_file (fo : FloatOps) (fs : List FieldSpec) (hT : jsonTableOK fs = true) (cur : Config)
    (hl : cur.length = fs.length) (s : Settings) (hs : ∀ p ∈ s, Typed fs p.2) (r : Req) :
    ((handleObj fo fs cur (some (encS fs s)) r).2 = false →
        (handleObj fo fs cur (some (encS fs s)) r).1 = some (encS fs s)) ∧
    ((handleObj fo fs cur (some (encS fs s)) r).2 = true → ∀ b, b ≠ r.name →
      ∃ d', (handleObj fo fs cur (some (encS fs s)) r).1 = some d' ∧
        d'.filter (fun p => decide (p.1 = b)) = (encS fs s).filter (fun p => decide (p.1 = b))) :=
  ⟨handleObj_fail fo fs cur _ r, fun h b hb => handleObj_frame fo fs hT cur hl s hs r b hb h⟩

example : (Req.edit ⟨fun t => some t⟩ fields (defaults fields) (.delete b!"a")
    [(b!"x", defaults fields), (b!"a", defaults fields), (b!"y", defaults fields)]).isSome = true := by decide

/-! ## (d) crash atomicity of the write protocol -/

open PV.FS in
/-- **temp file + fsync + rename is old-or-new at EVERY crash point.**  From any quiescent file
system `s0` (everything synced) in which the temp name is free, for every way of splitting the new
document into `write` calls: every operation succeeds; after every prefix of the operations —
and inside every `write`, at every byte position — every crash image (any directory state since
the start, any subset of the unsynced data of any inode) shows at `f` the complete previous content
(`content s0 f`, possibly "no file") or the complete new content; and at the end `f` holds the
new content. -/
theorem atomic_protocol_old_or_new (s0 : FS) (hq : Quiet s0) (fd : Nat) (tmp f : Str) (hne : tmp ≠ f)
    (hfree : aget s0.dir tmp = none) (chunks : List Bytes) :
    (∃ sts, trace s0 (atomicWriteOps fd tmp f chunks) = some sts ∧
      ∀ st ∈ sts, ∀ c ∈ crashContents st f, c = content s0 f ∨ c = some chunks.flatten) ∧
    ∃ sN, run s0 (atomicWriteOps fd tmp f chunks) = some sN ∧ content sN f = some chunks.flatten := by
  obtain ⟨sts, ht, hall, sN, hr, hq'⟩ := (atomic_allStates s0 fd tmp f chunks hq hne hfree).trace _ _
  exact ⟨⟨sts, ht, hall⟩, sN, hr, hq'⟩

open PV.FS in
/-- the error path (a `write` fails — ENOSPC, EFBIG, EIO — after any number of chunks; the temp file
is closed and removed): `f` shows the old content at every crash point and at the end. -/
theorem atomic_protocol_write_error_keeps_old (s0 : FS) (hq : Quiet s0) (fd : Nat) (tmp f : Str)
    (hne : tmp ≠ f) (hfree : aget s0.dir tmp = none) (done : List Bytes) (new : Bytes) :
    (∃ sts, trace s0 (atomicWriteFailOps fd tmp done) = some sts ∧
      ∀ st ∈ sts, ∀ c ∈ crashContents st f, c = content s0 f ∨ c = some new) ∧
    ∃ sN, run s0 (atomicWriteFailOps fd tmp done) = some sN ∧ content sN f = content s0 f := by
  obtain ⟨sts, ht, hall, sN, hr, hq'⟩ := (fail_allStates s0 fd tmp f done new hq hne hfree).trace _ _
  exact ⟨⟨sts, ht, hall⟩, sN, hr, hq'⟩

open PV.FS in
/-- **kill anywhere + restart preserves old-or-new.**  pprof's start-up is the identity on the settings
directory (`Op.restart`: only the dead process's handles disappear; a leftover temp file of any
length is never promoted).  So: kill the save after ANY number `k` of its system calls (inside a
`write`: at any byte, see the crash images), start the web UI again — the settings file reads as it
did at the kill and every crash image is still the complete old or the complete new content.
That the REAL start-up is the identity is checked by the harness (restart after every injected
crash, restart under strace judged by `fs.accepts` with old = new = the file as the crash left it). -/
theorem crash_restart_old_or_new (s0 : FS) (hq : Quiet s0) (fd : Nat) (tmp f : Str) (hne : tmp ≠ f)
    (hfree : aget s0.dir tmp = none) (chunks : List Bytes) (k : Nat)
    (hk : k ≤ (atomicWriteOps fd tmp f chunks).length) :
    ∃ sk s', run s0 ((atomicWriteOps fd tmp f chunks).take k) = some sk ∧ step sk .restart = some s' ∧
      content s' f = content sk f ∧
      ∀ c ∈ crashContents s' f, c = content s0 f ∨ c = some chunks.flatten :=
  atomic_kill_restart s0 fd tmp f chunks hq hne hfree k hk

open PV.FS in
-- a "recovery" that promotes a leftover temp file is rejected by the checker: kill after the first
-- chunk, restart, rename the partial temp file over the settings file
example :
    let f := b!"settings.json"; let t := b!"settings.json.tmp1"; let s0 := ofFiles [(f, b!"old")]
    accepts f (some b!"old") b!"newer" true s0 [.open 3 t true false true, .write 3 b!"ne", .restart] = none ∧
    (accepts f (some b!"old") b!"newer" true s0
      [.open 3 t true false true, .write 3 b!"ne", .restart, .rename t f]).isSome = true := by decide

open PV.FS in
/-- **`os.WriteFile` is not atomic** (the pinned `writeSettings`): whatever non-empty old and new
contents, after the FIRST system call (`open … O_TRUNC`) the settings file is empty — that is what
a reader sees, what a killed process leaves behind, and it is neither old nor new. -/
theorem inplace_protocol_not_atomic (s0 : FS) (hq : Quiet s0) (fd : Nat) (f : Str) (old new : Bytes)
    (ho : content s0 f = some old) (h1 : old ≠ []) (h2 : new ≠ []) (chunks : List Bytes) :
    ∃ s1, run s0 ((inplaceWriteOps fd f chunks).take 1) = some s1 ∧ content s1 f = some [] ∧
      ¬ (∀ c ∈ crashContents s1 f, c = some old ∨ c = some new) :=
  inplace_truncates s0 hq fd f old new ho h1 h2 chunks

open PV.FS in
/-- soundness of the checker the syscall-trace refinement uses (`fs.accepts` in the driver): the
verdict "atomic" on an operation sequence means exactly the statement of
`atomic_protocol_old_or_new` for that sequence. -/
theorem trace_checker_sound (f : Str) (old : Option Bytes) (new : Bytes) (s : FS) (ops : List Op)
    (h : accepts f old new false s ops = none) :
    (∃ sts, trace s ops = some sts ∧ ∀ st ∈ sts, ∀ c ∈ crashContents st f, c = old ∨ c = some new) ∧
      ∃ sN, run s ops = some sN ∧ content sN f = some new :=
  accepts_none f old new s ops h

open PV.FS in
-- non-vacuity of the hypotheses: a quiescent file system holding the settings file, temp name free
example : Quiet (ofFiles [(b!"settings.json", b!"old")]) ∧
    aget (ofFiles [(b!"settings.json", b!"old")]).dir b!"settings.json.tmp1" = none := by
  refine ⟨⟨rfl, ?_, ?_⟩, by decide⟩
  · intro i ino h
    simp only [ofFiles, ofFilesAux, aget] at h
    split at h
    · cases h; exact ⟨rfl, rfl⟩
    · cases h
  · intro n i h
    simp only [ofFiles, ofFilesAux, aget] at h
    split at h
    · cases h; decide
    · cases h

open PV.FS in
-- non-vacuity and the mutants of Appendix B on concrete bytes: the protocol is accepted; without
-- fsync, or renaming before the data is written, or writing in place, it is not
example :
    let f := b!"settings.json"; let t := b!"settings.json.tmp1"; let s0 := ofFiles [(f, b!"old")]
    accepts f (some b!"old") b!"newer" false s0 (atomicWriteOps 3 t f [b!"ne", b!"wer"]) = none ∧
    (accepts f (some b!"old") b!"newer" false s0
      [.open 3 t true false true, .write 3 b!"newer", .close 3, .rename t f]).isSome = true ∧
    (accepts f (some b!"old") b!"newer" false s0
      [.open 3 t true false true, .rename t f, .write 3 b!"newer", .fsync 3, .close 3]).isSome = true ∧
    (accepts f (some b!"old") b!"newer" false s0 (inplaceWriteOps 3 f [b!"newer"])).isSome = true := by
  decide

/-! ## (e) concurrent requests -/

open PV.RMW in
/-- **ALL interleavings of locked read-modify-write cycles are serialisable**: for any number `n` of
threads, any edits, any schedule under which all threads finish, the final file is what running
the edits one after another in the order of their writes (`s.log`, a permutation of all threads)
produces. -/
theorem locked_rmw_serialisable {σ : Type} (n : Nat) (edit : Nat → σ → σ) (f0 : σ) (sched : List Nat)
    (s : Sys σ) (hr : run true n edit (init f0) sched = some s) (hc : Complete n s) :
    s.file = serial edit s.log f0 ∧ s.log.Perm (List.range n) :=
  locked_serialisable n edit f0 sched s hr hc

open PV.RMW in
/-- … for the settings handlers: `n` concurrent save/delete requests under the mutex leave the file
as some serial order of `handleBytes` (= `editSettings`) would. -/
theorem concurrent_requests_serialisable (j : JsonCodec) (fo : FloatOps) (fs : List FieldSpec) (cur : Config)
    (reqs : Nat → Req) (n : Nat) (file0 : Option Str) (sched : List Nat) (s : Sys (Option Str))
    (hr : run true n (fun i f => (handleBytes j fo fs cur f (reqs i)).1) (init file0) sched = some s)
    (hc : Complete n s) :
    ∃ order : List Nat, order.Perm (List.range n) ∧
      s.file = order.foldl (fun f i => (handleBytes j fo fs cur f (reqs i)).1) file0 :=
  ⟨s.log, (locked_serialisable n _ file0 sched s hr hc).2, (locked_serialisable n _ file0 sched s hr hc).1⟩

/-- the two edits of the lost-update witness: save `a`, save `b`. -/
def witnessEdit (i : Nat) (s : Settings) : Settings :=
  if i = 0 then setEntry b!"a" [.b true] s else setEntry b!"b" [.b false] s

open PV.RMW in
/-- **Without the lock an update is lost** (witness schedule): both threads read the empty file, then
both write; the result holds only `b` — neither serial order's result. -/
theorem unlocked_rmw_lost_update :
    ((run false 2 witnessEdit (init []) [0, 0, 1, 1, 0, 0, 1, 1]).map (·.file)) = some [(b!"b", [.b false])] ∧
    ((run false 2 witnessEdit (init []) [0, 0, 1, 1, 0, 0, 1, 1]).map
        (fun s => isDone (s.pcs 0) && isDone (s.pcs 1))) = some true ∧
    serial witnessEdit [0, 1] [] = [(b!"a", [.b true]), (b!"b", [.b false])] ∧
    serial witnessEdit [1, 0] [] = [(b!"b", [.b false]), (b!"a", [.b true])] := by
  decide

open PV.RMW in
-- non-vacuity of `locked_rmw_serialisable`: complete locked runs exist, in either order; a thread
-- that finds the lock taken is not enabled
example :
    ((run true 2 witnessEdit (init []) [0, 0, 0, 0, 1, 1, 1, 1]).map (fun s => (s.file, s.log))) =
      some ([(b!"a", [.b true]), (b!"b", [.b false])], [0, 1]) ∧
    ((run true 2 witnessEdit (init []) [1, 1, 1, 1, 0, 0, 0, 0]).map (fun s => (s.file, s.log))) =
      some ([(b!"b", [.b false]), (b!"a", [.b true])], [1, 0]) ∧
    ((run true 2 witnessEdit (init []) [0, 1]).isNone = true) := by decide

open PV.FS in
/-- **Unlocked in-place writes destroy the file** (witness, the shape the probe of DESIGN §C19
observed): two overlapping `os.WriteFile` calls leave a complete short document followed by the tail
of the longer one. -/
theorem unlocked_inplace_corrupts :
    (run (ofFiles [(b!"f", b!"{old}")])
      [.open 3 b!"f" true true false, .open 4 b!"f" true true false,
       .write 3 b!"{long document}", .write 4 b!"{short}", .close 3, .close 4]).bind (content · b!"f")
      = some b!"{short}ocument}" := by
  decide

end PV.Props.C19
