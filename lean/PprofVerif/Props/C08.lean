import PprofVerif.Lemmas.GraphOrder
import PprofVerif.Lemmas.OrderTieBreak
import PprofVerif.Lemmas.SymIds
import PprofVerif.Gen.Comparators
import PprofVerif.Gen.MapRanges
import PprofVerif.Spec.MapRangesExpected
import PprofVerif.Model.TrimOrder
/-!
# C08 — identical inputs and options give byte-identical output

Go's `sort.Sort` is unstable and its inputs come from map iteration, so an output order is a
function of the input iff the comparator is a strict (weak) order that separates the things it
orders.  The comparators are not hand-modelled: `tools/extract` regenerates them from
internal/graph/graph.go into `Gen/Comparators.lean` (descriptor lists) on every run, the fixed
interpreter `lessOf` (Model/Order.lean) gives them meaning, the generic theorems below are proved
once for ALL descriptor lists, and the per-run obligations (`*_proper`, `*_identity`, …) re-check by
`decide` that the lists just regenerated satisfy the hypotheses.  The harness ties `lessOf` to the
real `Nodes.Sort` / `EdgeMap.Sort` / `SortTags` (model's `sortBy` order = Go's order on shuffled
tie-rich inputs).

Since fixes/C08-comparenodes-fieldwise-tiebreak.patch `compareNodes` compares `fmt.Sprint(Info)`
first (every existing order is unchanged) and, where the renderings coincide, the eight fields of
NodeInfo one by one; `edgeList.Less` ends in `compareNodes` of the sources and of the destinations.
The node and edge statements are therefore proved at FULL strength (`nodes_order_strict_total`,
`edges_order_strict_total`: incomparable ⇒ same NodeInfo / same (Src.Info, Dest.Info)), with no
`SpaceFree` hypothesis.  Call trees have several nodes per NodeInfo; since
fixes/C08-calltree-deterministic.patch their order is fixed by construction order
(`newTree_collects_without_map_walk`) and ComposeDot breaks edge ties by node id
(`edge_order_then_node_ids_total`).
-/
namespace PV.Props.C08
open PV PV.Order PV.GraphOrder PV.MapRange

/-! ## generic theorems (all descriptor lists, all element types) -/

/-- A comparator whose every key guards on the quantity it orders by is irreflexive, transitive,
negatively transitive (so: a strict weak order), and elements it cannot separate have the same
identity whenever the keys determine identity. -/
theorem lessOf_strict_total {α ι : Type} (ks : List (KeyDesc α)) (ident : α → ι)
    (hp : AllProper ks) (hd : KeysDetermineIdentity ks ident) :
    (∀ a, lessOf ks a a = false) ∧
    (∀ a b c, lessOf ks a b = true → lessOf ks b c = true → lessOf ks a c = true) ∧
    (∀ a b c, lessOf ks b a = false → lessOf ks c b = false → lessOf ks c a = false) ∧
    (∀ a b, lessOf ks a b = false → lessOf ks b a = false → ident a = ident b) :=
  ⟨lessOf_irrefl ks, lessOf_trans ks hp, lessOf_negTrans ks hp,
   fun a b h1 h2 => hd a b (lessOf_incomparable ks hp a b h1 h2)⟩

-- non-vacuity: a two-key comparator (|n| descending, then n ascending) on integers
example : AllProper ([⟨ikey, .abs, .desc, .abs⟩, ⟨ikey, .same, .asc, .id⟩] : List (KeyDesc Int)) ∧
    lessOf ([⟨ikey, .abs, .desc, .abs⟩, ⟨ikey, .same, .asc, .id⟩] : List (KeyDesc Int)) (-5) 5 = true := by
  refine ⟨?_, by decide⟩
  intro k hk
  simp only [List.mem_cons, List.mem_nil_iff, or_false] at hk
  rcases hk with rfl | rfl <;> rfl

/-- The sorted arrangement is unique: two permutations of the same elements that both pass
`sort.IsSorted` (no adjacent inversion) are the same list, for a strict weak order that separates
the elements of the list. -/
theorem sorted_perm_unique {α : Type} (lt : α → α → Bool) (hsw : StrictWeak lt) {l₁ l₂ : List α}
    (hperm : l₁.Perm l₂)
    (hsep : ∀ a ∈ l₁, ∀ b ∈ l₁, lt a b = false → lt b a = false → a = b)
    (h₁ : AdjSorted lt l₁) (h₂ : AdjSorted lt l₂) : l₁ = l₂ :=
  noInv_perm_unique hperm hsep (adjSorted_noInv hsw l₁ h₁) (adjSorted_noInv hsw l₂ h₂)

/-- The model's sort returns that unique arrangement — so whatever a correct `sort.Sort` returns on
any shuffle of the input must equal `sortBy lt l` (this is what the correspondence check compares). -/
theorem sortBy_is_the_sorted_perm {α : Type} (lt : α → α → Bool) (hsw : StrictWeak lt) (l l' : List α)
    (hperm : l'.Perm l)
    (hsep : ∀ a ∈ l, ∀ b ∈ l, lt a b = false → lt b a = false → a = b)
    (hs : AdjSorted lt l') : l' = sortBy lt l := by
  refine sorted_perm_unique lt hsw (hperm.trans (perm_sortBy lt l).symm) ?_ hs
    (noInv_adjSorted _ (noInv_sortBy hsw l))
  intro a ha b hb
  exact hsep a (hperm.mem_iff.mp ha) b (hperm.mem_iff.mp hb)

/-- Determinism of "collect from a map, sort, print": two runs that see the collection in different
(map-iteration) orders `l₁ ~ l₂` and use possibly different correct sorting routines render the same
bytes, provided the comparator is proper, its keys determine identity, and the collection has no
two elements with the same identity. -/
theorem pipeline_deterministic {α ι β : Type} (ks : List (KeyDesc α)) (ident : α → ι)
    (hp : AllProper ks) (hd : KeysDetermineIdentity ks ident)
    (sort₁ sort₂ : List α → List α)
    (hs₁ : ∀ l, (sort₁ l).Perm l ∧ AdjSorted (lessOf ks) (sort₁ l))
    (hs₂ : ∀ l, (sort₂ l).Perm l ∧ AdjSorted (lessOf ks) (sort₂ l))
    (render : List α → β) (l₁ l₂ : List α) (hperm : l₁.Perm l₂)
    (hinj : ∀ a ∈ l₁, ∀ b ∈ l₁, ident a = ident b → a = b) :
    render (sort₁ l₁) = render (sort₂ l₂) := by
  have hsw := lessOf_strictWeak ks hp
  have hp12 : (sort₁ l₁).Perm (sort₂ l₂) := (hs₁ l₁).1.trans (hperm.trans (hs₂ l₂).1.symm)
  have : sort₁ l₁ = sort₂ l₂ := by
    refine sorted_perm_unique (lessOf ks) hsw hp12 ?_ (hs₁ l₁).2 (hs₂ l₂).2
    intro a ha b hb h1 h2
    exact hinj a ((hs₁ l₁).1.mem_iff.mp ha) b ((hs₁ l₁).1.mem_iff.mp hb)
      (hd a b (lessOf_incomparable ks hp a b h1 h2))
  rw [this]

-- non-vacuity of the sorting hypothesis: the model's own sort satisfies it for every proper list
example {α : Type} (ks : List (KeyDesc α)) (hp : AllProper ks) (l : List α) :
    (sortBy (lessOf ks) l).Perm l ∧ AdjSorted (lessOf ks) (sortBy (lessOf ks) l) :=
  ⟨perm_sortBy _ l, noInv_adjSorted _ (noInv_sortBy (lessOf_strictWeak ks hp) l)⟩

/-! ## per-run obligations on the REGENERATED comparators -/

open PV.Gen.Comparators in
/-- The translator produced exactly the comparators covered below (a new variant or NodeOrder
constant must be added here before the check passes again). -/
theorem generated_comparators_covered :
    PV.Gen.Comparators.names = ["edgeList_Less", "nodes_AddressOrder", "nodes_CumNameOrder", "nodes_EntropyOrder",
      "nodes_FileOrder", "nodes_FlatCumNameOrder", "nodes_FlatNameOrder", "nodes_NameOrder",
      "tags_Less__flat", "tags_Less__not_flat"] := by decide

/-- the seven node orders as regenerated, with their score sources -/
def nodeOrders : List (List (KD NodeProj) × ScoreSrc) :=
  open PV.Gen.Comparators in
  [(nodes_FlatNameOrder, .external ""), (nodes_FlatCumNameOrder, .external ""),
   (nodes_CumNameOrder, nodes_CumNameOrder_score), (nodes_NameOrder, .external ""),
   (nodes_FileOrder, .external ""), (nodes_AddressOrder, .external ""),
   (nodes_EntropyOrder, nodes_EntropyOrder_score)]

def tagOrders : List (List (KD TagProj)) :=
  [PV.Gen.Comparators.tags_Less__flat, PV.Gen.Comparators.tags_Less__not_flat]

/-- every regenerated key guards on the quantity it orders by (fails for `if a.Flat != b.Flat
{ return abs64(a.Flat) > abs64(b.Flat) }` — defect #7 of the pinned tree) -/
theorem tags_proper : tagOrders.all allProperKD = true := by decide
theorem edges_proper : allProperKD PV.Gen.Comparators.edgeList_Less = true := by decide
theorem nodes_proper : nodeOrders.all (fun o => allProperKD o.1) = true := by decide

/-- every regenerated comparator contains, untransformed, the keys that determine identity:
tags — the name; edges — the full info of source AND destination; nodes — the full info -/
theorem tags_identity : tagOrders.all (hasIdKey TagProj.Name) = true := by decide
theorem edges_identity :
    (comparesAllInfoFields EdgeProj.Src PV.Gen.Comparators.edgeList_Less &&
     comparesAllInfoFields EdgeProj.Dest PV.Gen.Comparators.edgeList_Less) = true := by decide
theorem nodes_identity : nodeOrders.all (fun o => comparesAllInfoFields id o.1) = true := by decide

/-- documented direction contract of the sorts ("decreasing order for (absolute) numeric quantities,
alphabetically for text, and increasing for addresses"): weights by magnitude descending, text and
positions untransformed ascending -/
theorem order_contract :
    (tagOrders.all (contractOK TagProj.cls) && contractOK EdgeProj.cls PV.Gen.Comparators.edgeList_Less &&
     nodeOrders.all (fun o => contractOK NodeProj.cls o.1)) = true := by decide

/-- the regenerated list starts with the given projections -/
def startsWith {π : Type} [DecidableEq π] (ps : List π) (ks : List (KD π)) : Bool :=
  decide ((ks.map (·.proj)).take ps.length = ps)

/-- each order compares first what its name announces: FlatName = flat, name; FlatCumName = flat,
cum, name; CumName = score (= cum, see `cum_order_score`), name; Name; File; Address; tags by flat
(or cum, then flat); edges by weight -/
theorem order_names_contract :
    (open PV.Gen.Comparators in
     startsWith [NodeProj.Flat, .Info_PrintableName] nodes_FlatNameOrder &&
     startsWith [NodeProj.Flat, .Cum, .Info_PrintableName] nodes_FlatCumNameOrder &&
     startsWith [NodeProj.Score, .Info_PrintableName] nodes_CumNameOrder &&
     startsWith [NodeProj.Score, .Info_PrintableName] nodes_EntropyOrder &&
     startsWith [NodeProj.Info_Name] nodes_NameOrder &&
     startsWith [NodeProj.Info_File] nodes_FileOrder &&
     startsWith [NodeProj.Info_Address] nodes_AddressOrder &&
     startsWith [TagProj.Flat] tags_Less__flat &&
     startsWith [TagProj.Cum, .Flat] tags_Less__not_flat &&
     startsWith [EdgeProj.Weight] edgeList_Less) = true := by decide

/-- the score map of CumNameOrder holds the cumulative weight -/
theorem cum_order_score : PV.Gen.Comparators.nodes_CumNameOrder_score = .field .Cum := by decide

/-! ## what the obligations buy: the regenerated comparators are strict orders -/

/-- `tags.Less` (both settings of `flat`) is a strict weak order and tags it cannot separate have the
same name (tag names are unique inside every list that is sorted: they are map keys). -/
theorem tags_order_strict_total (ks : List (KD TagProj)) (hks : ks ∈ tagOrders) :
    StrictWeak (tagLess ks) ∧
    ∀ a b, tagLess ks a b = false → tagLess ks b a = false → a.name = b.name := by
  have hp : allProperKD ks = true := List.all_eq_true.mp tags_proper ks hks
  have hi : hasIdKey TagProj.Name ks = true := List.all_eq_true.mp tags_identity ks hks
  have hAP := allProper_of_KD TagProj.get ks hp
  have hD := determines_of_hasIdKey TagProj.get ks TagProj.Name (fun t : Tag => t.name) hi
    (fun a b h => skey_inj h)
  exact ⟨lessOf_strictWeak _ hAP, (lessOf_strict_total _ _ hAP hD).2.2.2⟩

/-- `edgeList.Less` is a strict weak order and edges it cannot separate have the same source info and
the same destination info (full strength: no hypothesis on the strings). -/
theorem edges_order_strict_total :
    StrictWeak (edgeLess PV.Gen.Comparators.edgeList_Less) ∧
    (∀ a b, edgeLess PV.Gen.Comparators.edgeList_Less a b = false → edgeLess PV.Gen.Comparators.edgeList_Less b a = false →
      a.src.info = b.src.info ∧ a.dst.info = b.dst.info) := by
  have hAP := allProper_of_KD EdgeProj.get _ edges_proper
  have hi := edges_identity
  simp only [Bool.and_eq_true] at hi
  have hS := determines_info_of_fields EdgeProj.get EdgeProj.Src (fun e : Edge => e.src) (fun _ _ _ => rfl) _ hi.1
  have hD := determines_info_of_fields EdgeProj.get EdgeProj.Dest (fun e : Edge => e.dst) (fun _ _ _ => rfl) _ hi.2
  refine ⟨lessOf_strictWeak _ hAP, ?_⟩
  intro a b h1 h2
  have := (lessOf_strict_total _ _ hAP (hS.pair hD)).2.2.2 a b h1 h2
  exact ⟨congrArg Prod.fst this, congrArg Prod.snd this⟩

/-- Every node order of `Nodes.Sort`, for every score assignment (so also for EntropyOrder, whose
score is computed in float64 outside the model), is a strict weak order, and nodes it cannot
separate have the same NodeInfo — full strength, no hypothesis on the strings. -/
theorem nodes_order_strict_total (o : List (KD NodeProj) × ScoreSrc) (ho : o ∈ nodeOrders) (sc : ScoreSrc) :
    StrictWeak (nodeLess sc o.1) ∧
    (∀ a b, nodeLess sc o.1 a b = false → nodeLess sc o.1 b a = false → a.info = b.info) := by
  have hp : allProperKD o.1 = true := List.all_eq_true.mp nodes_proper o ho
  have hi : comparesAllInfoFields id o.1 = true := List.all_eq_true.mp nodes_identity o ho
  have hAP := allProper_of_KD (NodeProj.get sc) o.1 hp
  have hD := determines_info_of_fields (NodeProj.get sc) id (fun n : Node => n)
    (fun p a hp => by
      simp only [infoFieldProjs, List.mem_cons, List.mem_nil_iff, or_false] at hp
      rcases hp with rfl | rfl | rfl | rfl | rfl | rfl | rfl | rfl <;> rfl) o.1 hi
  exact ⟨lessOf_strictWeak _ hAP, (lessOf_strict_total _ _ hAP hD).2.2.2⟩

-- non-vacuity: the orders are inhabited
example : nodeOrders.length = 7 := rfl

/-- The infos that defeated the old `compareNodes` — function `f` in file ` 0 g` and function `f  0`
in file `g` render identically under `fmt.Sprint` and under `PrintableName` — are now separated by
every node order even when their weights have equal magnitude.
(Replayed against the Go code: corpus/C08/fixed-sprint-collision.json.) -/
theorem sprint_collision_is_ordered :
    let a : Node := ⟨⟨[102], [], 0, [32, 48, 32, 103], 0, 0, 0, []⟩, 5, 0, 5, 0, 0⟩           -- "f", " 0 g"
    let b : Node := ⟨⟨[102, 32, 32, 48], [], 0, [103], 0, 0, 0, []⟩, -5, 0, -5, 0, 0⟩         -- "f  0", "g"
    sprintInfo a.info = sprintInfo b.info ∧ printableName a.info = printableName b.info ∧
    nodeOrders.all (fun o => nodeLess o.2 o.1 a b != nodeLess o.2 o.1 b a) = true := by
  decide

/-- A call TREE has several nodes with one NodeInfo, so no comparator on node attributes can order
them (`hinj` of `pipeline_deterministic` fails): two interior tree nodes for the same function with
cumulative weights 3 and 5 (entropy score 0, flat 0) are different nodes, yet both arrangements pass
`sort.IsSorted`.  This is why, since fixes/C08-calltree-deterministic.patch, the order of such nodes
is fixed BEFORE sorting (construction order, see `newTree_collects_without_map_walk`) and the sort —
a deterministic function of its input sequence — only has to be a function. -/
theorem call_tree_twins_not_unique :
    let info : NodeInfo := ⟨[98, 97, 114], [], 0, [], 0, 0, 0, []⟩                      -- "bar"
    let a : Node := ⟨info, 0, 0, 3, 0, 0⟩
    let b : Node := ⟨info, 0, 0, 5, 0, 0⟩
    let lt := nodeLess PV.Gen.Comparators.nodes_EntropyOrder_score PV.Gen.Comparators.nodes_EntropyOrder
    a ≠ b ∧ adjSortedB lt [a, b] = true ∧ adjSortedB lt [b, a] = true := by
  decide

/-- `newTree` no longer builds its node list by ranging over a map (regenerated fact): no
order-sensitive map walk is left in that function, so the list handed to the sort is a function of
the sample list alone. -/
theorem newTree_collects_without_map_walk :
    PV.Gen.MapRanges.sites.all (fun s => s.fn != "newTree") = true := by decide

/-- ComposeDot's edge order — the edge comparator, then (source node id, destination node id) — is a
strict weak order that separates any two edges with different id pairs, for ANY node numbering:
with it the sorted edge list is unique (`sorted_perm_unique`) also in call trees, where the
comparator alone cannot separate edges between twin nodes.  `idx` encodes the id pair. -/
theorem edge_order_then_node_ids_total (idx : Edge → Nat) :
    StrictWeak (thenByIndex (edgeLess PV.Gen.Comparators.edgeList_Less) idx) ∧
    (∀ a b, thenByIndex (edgeLess PV.Gen.Comparators.edgeList_Less) idx a b = false →
      thenByIndex (edgeLess PV.Gen.Comparators.edgeList_Less) idx b a = false → idx a = idx b) :=
  ⟨thenByIndex_strictWeak edges_order_strict_total.1 idx, thenByIndex_separates _ idx⟩

/-- Witness for defect #7 (what `tags_proper` rejects): with the pinned tree's shape — guard on the
raw value, order on the magnitude — tags +5 `a` (byte 97) and −5 `b` (98) are mutually "not less" although their
names differ, and "not less" is not transitive. -/
theorem raw_guard_abs_order_not_strict :
    let pinned : List (KD TagProj) := [⟨.Flat, .raw, .desc, .abs⟩, ⟨.Name, .same, .asc, .id⟩]
    let t (n : UInt8) (f : Int) : Tag := ⟨[n], [], 0, f, 0, 0, 0⟩
    allProperKD pinned = false ∧
    (tagLess pinned (t 97 5) (t 98 (-5)) = false ∧ tagLess pinned (t 98 (-5)) (t 97 5) = false) ∧
    (tagLess pinned (t 98 5) (t 99 (-5)) = false ∧ tagLess pinned (t 99 (-5)) (t 97 5) = false ∧
     tagLess pinned (t 97 5) (t 98 5) = true) := by
  decide

/-! ## map-iteration sites -/

/-- Every `range`-over-map site regenerated from the current source is either self-evident — an
`append` whose slice reaches a TOTAL sort (by value, or by a comparator proved above) before any
output, wherever the walk sits — or one of the hand-reviewed ones (Spec/MapRangesExpected.lean): no
new map walk that is unsorted or sorted by an unreviewed comparator, no sort removed. -/
theorem map_ranges_match_review :
    PV.Gen.MapRanges.sites.all (fun s => s.selfEvident || PV.Spec.MapRangesExpected.sites.contains s) = true := by decide

/-- Each reviewed verdict agrees with what the translator measured (a site judged "sorted here" is
seen by the translator to reach a sort before any output call), and no site is left to a run-time
hunt and every reviewed site is an `append` whose slice is dealt with afterwards, or a `delete` /
`pick` (an outer variable overwritten from the iteration) reviewed as independent of the order: in particular no output is
written, no string concatenated, no floating-point sum accumulated in map order, and
RemoveRedundantEdges — whose decisions DO depend on earlier removals — is not among the map walks. -/
theorem map_ranges_reviewed :
    PV.Spec.MapRangesExpected.reviewed.all Reviewed.consistent = true ∧
    PV.Spec.MapRangesExpected.huntedSites = [] ∧
    PV.Spec.MapRangesExpected.reviewed.all (fun r => decide (r.site.kind = SinkKind.append) ||
      ((decide (r.site.kind = SinkKind.delete) || decide (r.site.kind = SinkKind.pick)) &&
        (match r.verdict with | .orderIrrelevant _ => true | _ => false))) = true ∧
    PV.Spec.MapRangesExpected.sites.all (fun s => s.fn != "Graph.RemoveRedundantEdges") = true := by decide

/-! ## composed with C05: the orders of C05's trim model are the regenerated ones

C05 (`Props/C05.lean`, section "composed with C08") proves that the entries of a trimmed text
report are sorted — and uniquely arranged — by the comparators denoted by the descriptor lists
`Trim.flatNameKeys` / `Trim.cumNameKeys` (`Model/TrimOrder.lean`, written out by hand so that C05
does not depend on regenerated files).  The per-run obligation below re-checks, against the lists
just regenerated from graph.go, that those ARE `Nodes.Sort`'s FlatNameOrder / CumNameOrder and
that the score map of CumNameOrder is the cumulative weight (C05 reads `Score` as `Cum`). -/

theorem trim_orders_are_the_regenerated_ones :
    PV.Trim.flatNameKeys = PV.Gen.Comparators.nodes_FlatNameOrder.take 4 ∧
    PV.Trim.cumNameKeys = PV.Gen.Comparators.nodes_CumNameOrder.take 4 ∧
    PV.Gen.Comparators.nodes_FlatNameOrder.drop 4 = PV.Gen.Comparators.nodes_CumNameOrder.drop 4 ∧
    (PV.Gen.Comparators.nodes_FlatNameOrder.drop 4).map (·.proj) = infoFieldProjs ∧
    PV.Gen.Comparators.nodes_CumNameOrder_score = .field .Cum := by decide

/-! ## function ids handed out by local symbolization

`Model/SymIds.lean` mirrors `addFunction` in doLocalSymbolize: first-come numbering over the frames in
PROCESSING order.  The harness ties it to the real symbolizer (ids and prof.Function order after
`Symbolizer.Symbolize("local")` with a scripted ObjTool = `assign` over the frames taken in
prof.Mapping / prof.Location / leaf-first order) and requires byte-identical serializations over
repetitions whose per-mapping lookup latencies are permuted.  The numbering is a function of the
processing order and of nothing else — and it does depend on that order, so the order must be the
sequential one and not the order in which concurrently symbolized mappings complete. -/

/-- every frame gets an id, in processing order (nothing is dropped or reordered) -/
theorem symbolize_assign_keeps_frames (start : Nat) (ks : List Str) :
    (PV.SymIds.assign start [] ks).map Prod.fst = ks := PV.SymIds.assign_keys start ks []

/-- new ids are exactly `start+1 … start+|functions appended|` -/
theorem symbolize_ids_dense (start : Nat) (ks : List Str) (p : Str × Nat)
    (h : p ∈ PV.SymIds.assign start [] ks) :
    start < p.2 ∧ p.2 ≤ start + (PV.SymIds.added [] ks).length :=
  PV.SymIds.assign_ids_in_range start ks [] p h

/-- the id of a function depends on the processing order: whichever of two distinct functions is
reached first gets the smaller id — a symbolizer that processes mappings in completion order
serializes differently from run to run -/
theorem symbolize_ids_follow_processing_order (start : Nat) (a b : Str) (h : a ≠ b) :
    PV.SymIds.assign start [] [a, b] = [(a, start + 1), (b, start + 2)] ∧
    PV.SymIds.assign start [] [b, a] = [(b, start + 1), (a, start + 2)] := by
  have h' : b ≠ a := fun e => h e.symm
  simp [PV.SymIds.assign, PV.SymIds.indexOf, h, h']

-- non-vacuity: repeated functions share an id
example : PV.SymIds.assign 7 [] [[1], [2], [1]] = [([1], 8), ([2], 9), ([1], 8)] := by decide

end PV.Props.C08
