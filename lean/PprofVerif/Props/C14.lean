import PprofVerif.Model.Legacy
/-!
# C14 — legacy text and binary profiles convert with the documented values
(theorems are being added format by format)
-/
namespace PV.Props.C14
open PV PV.Legacy

end PV.Props.C14
