import PprofVerif.Lemmas.LegacyHeap
import PprofVerif.Model.Legacy
/-!
# C14 — legacy text and binary profiles convert with the documented values

For every legacy format: a document type, a printer (`printX`, with the variation the Go
parsers tolerate), the documented meaning `expectedX`, and a Lean parser `parseX` mirroring the
Go parser.  The theorems say `parseX (printX d) = ok (expectedX d)` for ALL well-formed documents
`d`, so the documented conversion is what the (model of the) parser computes on every printable
input; the correspondence check ties `parseX` and `expectedX` to the real `profile.ParseData` on
every run.  Float unsampling (`ScaleFn`, `CycFn`) is a parameter: the theorems hold for every
instance.  Helper lemmas live in `Lemmas/Legacy*.lean`.
-/
namespace PV.Props.C14
open PV PV.Legacy

/-- `%d` then reading it back (`strconv.ParseInt(_, 10, 64)` on the captured digits). -/
theorem dec_print_parse (n : Nat) (h : n < two63) : parseI64 (dec n) = some n := parseI64_dec h

/-- `0x%0<w>x` then reading it back (`strconv.ParseUint(_, 0, 64)`), for every padding width. -/
theorem hex_print_parse (w n : Nat) (h : n < two64) : parseU64Base0 (hex0x w n) = some n := parseU64Base0_hex0x h

/-- a printed stack ` 0x… 0x…` is read back as the same addresses (`parseHexAddresses`). -/
theorem addrs_print_parse (w : Nat) (as : List Nat) (h : ∀ a ∈ as, a < two64) :
    parseHexAddresses (printAddrs w as) = some as := parseHexAddresses_printAddrs w as h

/-- Go count profiles: every well-formed document parses to its documented profile. -/
theorem parseCount_printCount (d : CountDoc) (h : d.wf = true) :
    parseGoCount (printCount d) = .ok (expectedCount d) := parseGoCount_printCount d h

/-- Heap profiles (heap, heap_v2, heapz_v2, heapprofile, growth[z], fragmentation[z]). -/
theorem parseHeap_printHeap (scale : ScaleFn) (d : HeapDoc) (h : d.wf = true) :
    parseHeap scale (printHeap d) = .ok (expectedHeap scale d) := Legacy.parseHeap_printHeap scale d h

-- non-vacuity: well-formed documents with records, fillers and a memory map exist
example : (({ pre := [{ indent := 1, comment := some (asc " c") }], name := asc "goroutine", total := 3, width := 8,
              recs := [{ fill := [], n := 2, addrs := [4198401, 1] }], post := [],
              map := some { entries := [([], { indent := 2, ox := false, width := 8, start := 4194304, limit := 4259840, gap := 0,
                                               form := .brief true none (some (asc "/bin/x")) none none })], post := [] } } : CountDoc).wf) = true := by
  decide

end PV.Props.C14
