import PprofVerif.Lemmas.LegacyPb
import PprofVerif.Model.LegacyPb
/-!
# C14 — legacy text and binary profiles convert with the documented values

For every legacy format: a document type, a printer (`printX`, with the variation the Go
parsers tolerate: comment and blank lines, header variants, spacing, zero padding, a trailing
memory map in `/proc/maps` or brief form), the documented meaning `expectedX`, and a Lean parser
`parseX` mirroring the Go parser (`Model/Legacy*.lean`).  The theorems say

    parseX (printX d) = ok (expectedX d)      for ALL well-formed documents d

so the documented conversion is what the (model of the) parser computes on every printable
input.  The correspondence check ties `parseX` and `expectedX` to the real `profile.ParseData`
on every run.  Float unsampling (`ScaleFn`, `CycFn`) is a parameter: the theorems hold for
every instance.  `finish`/`javaAssemble` (location table, mapping heuristics) are shared by
`expectedX` and `parseX`; `sample_addresses_resolve` shows that the ids they hand out resolve to
the documented addresses.  Helper lemmas live in `Lemmas/Legacy*.lean`.
-/
namespace PV.Props.C14
open PV PV.Legacy

/-! ### number renderings -/

/-- `%d` then reading it back (`strconv.ParseInt(_, 10, 64)` on the captured digits). -/
theorem dec_print_parse (n : Nat) (h : n < two63) : parseI64 (dec n) = some n := parseI64_dec h

/-- `%d` read back with base 0 (`strconv.ParseInt(_, 0, 64)`): no leading zero, so never octal. -/
theorem dec_print_parse_base0 (n : Nat) (h : n < two63) : parseI64Base0 (dec n) = some n := parseI64Base0_dec h

/-- `0x%0<w>x` then reading it back (`strconv.ParseUint(_, 0, 64)`), for every padding width. -/
theorem hex_print_parse (w n : Nat) (h : n < two64) : parseU64Base0 (hex0x w n) = some n := parseU64Base0_hex0x h

/-- a printed stack ` 0x… 0x…` is read back as the same addresses (`parseHexAddresses`). -/
theorem addrs_print_parse (w : Nat) (as : List Nat) (h : ∀ a ∈ as, a < two64) :
    parseHexAddresses (printAddrs w as) = some as := parseHexAddresses_printAddrs w as h

/-- a printed memory-map entry (either form, any spacing) is read back as the mapping it stands
for; non-executable entries are skipped. -/
theorem mapEntry_print_parse (e : MapEntry) (h : e.wf = true) :
    parseMappingEntry e.print = (match e.mapping with | some m => .mapping m | none => .skip) :=
  parseMappingEntry_print e h

/-- a printed memory-map section — entries interleaved with comment/blank lines, attribute lines
`name=value`, entries whose file is written `$name<suffix>`, any line behind a glog prefix
`… file.cc:123] ` — gives exactly the mappings of its executable entries, in order, with every
`$name` standing for the value assigned to `name` earlier in the section. -/
theorem mapSection_print_parse (m : MapSection) (h : m.wf = true) : parseProcMaps m.bodyLines = m.mappings :=
  parseProcMaps_bodyLines m h

/-- `removeLoggingInfo`: a glog prefix `<text>:<line>] ` (text without brackets) is cut off, whatever follows. -/
theorem log_prefix_removed (p : LogPrefix) (hp : p.wf = true) (rest : Str) : removeLoggingInfo (p.print ++ rest) = rest :=
  p.remove hp rest

/-- the `$attr` rule on its own: after `name=value`, an entry whose file is written `$name<suffix>`
is the entry with file `value<suffix>` (both lines may carry a glog prefix). -/
theorem map_attr_reference_rule (log1 log2 : Option LogPrefix) (indent : Nat) (name value suffix : Str) (spaced : Bool)
    (e : MapEntry)
    (h : (MapSection.mk [([], .attr log1 indent name spaced value), ([], .entryRef log2 e name suffix)] []).wf = true) :
    parseProcMaps [(MapLine.attr log1 indent name spaced value).print, (MapLine.entryRef log2 e name suffix).print]
      = (e.withFile (value ++ suffix)).mapping.toList := by
  have := parseProcMaps_bodyLines _ h
  simp only [MapSection.bodyLines, printFillers, List.map_nil, List.nil_append, List.flatMap_cons, List.flatMap_nil,
    List.append_nil, List.singleton_append] at this
  rw [this]
  simp only [MapSection.mappings, mappingsOf, MapLine.step, List.nil_append, MapEnv.lookup, List.find?_cons, beq_self_eq_true,
    Option.map_some]
  cases (e.withFile (value ++ suffix)).mapping <;> rfl

/-! ### one theorem per format -/

/-- Go count profiles (goroutine, threadcreate, …). -/
theorem parseCount_printCount (d : CountDoc) (h : d.wf = true) :
    parseGoCount (printCount d) = .ok (expectedCount d) := parseGoCount_printCount d h

/-- Heap profiles (heap, heap_v2, heapz_v2, heapprofile, growth[z], fragmentation[z]). -/
theorem parseHeap_printHeap (scale : ScaleFn) (d : HeapDoc) (h : d.wf = true) :
    parseHeap scale (printHeap d) = .ok (expectedHeap scale d) := Legacy.parseHeap_printHeap scale d h

/-- Contention / mutex profiles. -/
theorem parseContention_printContention (cyc : CycFn) (d : ContDoc) (h : d.wf = true) :
    parseContention cyc (printContention d) = .ok (expectedContention cyc d) :=
  Legacy.parseContention_printContention cyc d h

/-- Threadz profiles. -/
theorem parseThread_printThread (d : ThreadDoc) (h : d.wf = true) :
    parseThread (printThread d) = .ok (expectedThread d) := Legacy.parseThread_printThread d h

/-- Binary CPU profiles, all four word layouts (the decoders tried before the right one reject
the header). -/
theorem parseCpu_printCpu (d : CpuDoc) (h : d.wf = true) : parseCPU (printCpu d) = .ok (expectedCpu d) :=
  parseCPU_printCpu d h

/-- Binary Java CPU profiles (third header word 1), all four word layouts: values
`[count, count·period·1000]`, addresses as in the file (no adjustment, no signal-frame or
duplicate-leaf removal), the trailer's function/file/line for the addresses it names, all
addresses cleared, CPU frame filters. -/
theorem parseJavaCpu_printJavaCpu (d : JavaCpuDoc) (h : d.wf = true) :
    parseCPU (printJavaCpu d) = .ok (expectedJavaCpu d) := parseCPU_printJavaCpu d h

/-- Java heapz / contentionz profiles. -/
theorem parseJava_printJava (scale : ScaleFn) (d : JavaDoc) (h : d.wf = true) :
    parseJavaProfile scale (printJava d) = .ok (expectedJava scale d) := Legacy.parseJava_printJava scale d h

/-! ### line endings and document termination

The printers above terminate every line with `\n`.  `renderLines crlf noFinal ls` renders the same
lines with `\r\n` on an arbitrary subset of them and, optionally, no terminator after the last one;
the conversion is the same for every such rendering.  (Hypothesis `hlast`: an unterminated EMPTY
last line is no line for `bufio.Scanner`; the printers' last line is empty only when it is a blank
filler.)  Java heapz/contentionz documents and material after the final terminator (blank lines,
blanks, NUL) are tied by correspondence only. -/

/-- `bufio.ScanLines` reads the lines back under every mixture of `\n` / `\r\n` and with or without
a final terminator. -/
theorem lines_any_termination (cs : List Bool) (noFinal : Bool) (ls : List Str) (h : ∀ l ∈ ls, LineOK l)
    (hlast : noFinal = true → ls.getLast? ≠ some []) : splitLines (renderLines cs noFinal ls) = ls :=
  splitLines_renderLines cs noFinal ls h hlast

theorem parseCount_any_termination (cs : List Bool) (nf : Bool) (d : CountDoc) (h : d.wf = true)
    (hlast : nf = true → d.lines.getLast? ≠ some []) :
    parseGoCount (renderLines cs nf d.lines) = .ok (expectedCount d) := parseGoCount_renderLines cs nf d h hlast

theorem parseHeap_any_termination (scale : ScaleFn) (cs : List Bool) (nf : Bool) (d : HeapDoc) (h : d.wf = true)
    (hlast : nf = true → d.lines.getLast? ≠ some []) :
    parseHeap scale (renderLines cs nf d.lines) = .ok (expectedHeap scale d) := parseHeap_renderLines scale cs nf d h hlast

theorem parseContention_any_termination (cyc : CycFn) (cs : List Bool) (nf : Bool) (d : ContDoc) (h : d.wf = true)
    (hlast : nf = true → d.lines.getLast? ≠ some []) :
    parseContention cyc (renderLines cs nf d.lines) = .ok (expectedContention cyc d) :=
  parseContention_renderLines cyc cs nf d h hlast

theorem parseThread_any_termination (cs : List Bool) (nf : Bool) (d : ThreadDoc) (h : d.wf = true)
    (hlast : nf = true → d.lines.getLast? ≠ some []) :
    parseThread (renderLines cs nf d.lines) = .ok (expectedThread d) := parseThread_renderLines cs nf d h hlast

/-- binary CPU profiles: any termination of the memory map that follows the end marker -/
theorem parseCpu_any_termination (cs : List Bool) (nf : Bool) (d : CpuDoc) (h : d.wf = true)
    (hlast : nf = true → ∀ m, d.map = some m → m.bodyLines.getLast? ≠ some []) :
    parseCPU (printCpuWith cs nf d) = .ok (expectedCpu d) := parseCPU_printCpuWith cs nf d h hlast

/-- `parseJavaLocations` (`ReadString('\n')` + `TrimSpace`) reads the same location lines under every
line termination; in particular an unterminated last line is still processed (seeded change C14-p). -/
theorem javaTrailer_any_termination (cs : List Bool) (nf : Bool) (ls : List Str) (h : ∀ l ∈ ls, LineOK l) :
    javaLocLoop (javaLocLines (renderLines cs nf ls)) = javaLocLoop ls := javaLocLines_renderLines cs nf ls h

/-- binary Java CPU profiles: any termination of the trailer, no side condition -/
theorem parseJavaCpu_any_termination (cs : List Bool) (nf : Bool) (d : JavaCpuDoc) (h : d.wf = true) :
    parseCPU (printJavaCpuWith cs nf d) = .ok (expectedJavaCpu d) := parseCPU_printJavaCpuWith cs nf d h

-- the renderings differ from the standard one: CRLF on the first line, last line unterminated
example : renderLines [true] true [asc "a", asc "b"] = asc "a\r\nb" ∧ renderLines [] false [asc "a", asc "b"] = unlines [asc "a", asc "b"] := by
  decide

/-! ### `ParseData` level (protobuf decoder first, then the chain of legacy parsers)

Full statement of the property for a format X:
`parseDataReal scale cyc (printX d) = ok (expectedX d)` where `parseDataReal` is `ParseData` with the
codec model `Codec.parseUncompressed` as the protobuf decoder.

* It is FALSE on the pinned tree for binary CPU documents whose bytes also decode as a protobuf
  message (known finding `C14/cpu/taken-for-protobuf`): `parseData_cpu_shadowed_by_protobuf` is the
  model-level witness (the corpus input, evaluated by the kernel).
* It is PROVED without any hypothesis for: little-endian binary CPU profiles of both flavours
  (the header `0 3 …` reads as field 0 with wire type 3, which the decoder rejects), heap,
  contention/mutex and Java heapz/contentionz documents (their first bytes `hea…`/`---…` read as
  a field with the wrong wire type).
* For every format it is proved for an ARBITRARY decoder `pb` under the hypothesis that `pb`
  rejects the document with an error other than errNoData/errConcatProfile (`…_partial`); this is
  the form that covers big-endian CPU, count and threadz documents, whose first bytes do not
  determine what the decoder does.

In each case the statement includes that every parser tried EARLIER in `parseLegacy` answers
`errUnrecognized` (not another error) on the printed document. -/

/-- binary CPU documents through the whole dispatch, unless the protobuf decoder takes them -/
theorem parseData_printCpu_partial (pb : Str → Outcome Profile) (scale : ScaleFn) (cyc : CycFn) (d : CpuDoc)
    (h : d.wf = true) (hpb : PbRejects (pb (printCpu d))) :
    parseData pb scale cyc (printCpu d) = .ok (expectedCpu d) := by
  rw [parseData_of_pb_rejects pb scale cyc _ hpb]; exact parseLegacy_printCpu scale cyc d h

/-- binary Java CPU documents through the whole dispatch -/
theorem parseData_printJavaCpu_partial (pb : Str → Outcome Profile) (scale : ScaleFn) (cyc : CycFn) (d : JavaCpuDoc)
    (h : d.wf = true) (hpb : PbRejects (pb (printJavaCpu d))) :
    parseData pb scale cyc (printJavaCpu d) = .ok (expectedJavaCpu d) := by
  rw [parseData_of_pb_rejects pb scale cyc _ hpb]; exact parseLegacy_printJavaCpu scale cyc d h

/-- heap documents through the whole dispatch (`parseCPU` answers "unrecognized" on text) -/
theorem parseData_printHeap_partial (pb : Str → Outcome Profile) (scale : ScaleFn) (cyc : CycFn) (d : HeapDoc)
    (h : d.wf = true) (hpb : PbRejects (pb (printHeap d))) :
    parseData pb scale cyc (printHeap d) = .ok (expectedHeap scale d) := by
  rw [parseData_of_pb_rejects pb scale cyc _ hpb]; exact parseLegacy_printHeap scale cyc d h

/-- count documents: `parseCPU` and `parseHeap` answer "unrecognized" (the header
`<name> profile: total <n>` cannot be read as a `heap profile:` header whatever the name) -/
theorem parseData_printCount_partial (pb : Str → Outcome Profile) (scale : ScaleFn) (cyc : CycFn) (d : CountDoc)
    (h : d.wf = true) (hpb : PbRejects (pb (printCount d))) :
    parseData pb scale cyc (printCount d) = .ok (expectedCount d) := by
  rw [parseData_of_pb_rejects pb scale cyc _ hpb]; exact parseLegacy_printCount scale cyc d h

/-- threadz documents: `parseCPU`, `parseHeap`, `parseGoCount` answer "unrecognized".  `chainOK`: a
document that starts directly with a thread header must not carry a heap-profile header in its
(free-text) thread name — otherwise `parseHeap` claims it; every other first line is covered. -/
theorem parseData_printThread_partial (pb : Str → Outcome Profile) (scale : ScaleFn) (cyc : CycFn) (d : ThreadDoc)
    (h : d.wf = true) (hc : d.chainOK = true) (hpb : PbRejects (pb (printThread d))) :
    parseData pb scale cyc (printThread d) = .ok (expectedThread d) := by
  rw [parseData_of_pb_rejects pb scale cyc _ hpb]; exact parseLegacy_printThread scale cyc d h hc

/-- contention / mutex documents: `parseCPU`, `parseHeap`, `parseGoCount`, `parseThread` answer
"unrecognized" -/
theorem parseData_printContention_partial (pb : Str → Outcome Profile) (scale : ScaleFn) (cyc : CycFn) (d : ContDoc)
    (h : d.wf = true) (hpb : PbRejects (pb (printContention d))) :
    parseData pb scale cyc (printContention d) = .ok (expectedContention cyc d) := by
  rw [parseData_of_pb_rejects pb scale cyc _ hpb]; exact parseLegacy_printContention scale cyc d h

/-- Java heapz / contentionz documents: all five earlier parsers answer "unrecognized"
(`parseContention` accepts the `--- contentionz 1 ---` line and then meets `format` / `resolution`) -/
theorem parseData_printJava_partial (pb : Str → Outcome Profile) (scale : ScaleFn) (cyc : CycFn) (d : JavaDoc)
    (h : d.wf = true) (hpb : PbRejects (pb (printJava d))) :
    parseData pb scale cyc (printJava d) = .ok (expectedJava scale d) := by
  rw [parseData_of_pb_rejects pb scale cyc _ hpb]; exact parseLegacy_printJava scale cyc d h

/-! with the real decoder model: no hypothesis on the decoder -/

/-- little-endian binary CPU profiles (either word size): the real decoder rejects them -/
theorem parseData_printCpu_littleEndian (scale : ScaleFn) (cyc : CycFn) (d : CpuDoc) (h : d.wf = true) (hle : d.big = false) :
    parseDataReal scale cyc (printCpu d) = .ok (expectedCpu d) :=
  parseData_printCpu_partial _ scale cyc d h (pbRejects_printCpu_littleEndian d hle)

/-- little-endian binary Java CPU profiles -/
theorem parseData_printJavaCpu_littleEndian (scale : ScaleFn) (cyc : CycFn) (d : JavaCpuDoc) (h : d.wf = true)
    (hle : d.big = false) : parseDataReal scale cyc (printJavaCpu d) = .ok (expectedJavaCpu d) :=
  parseData_printJavaCpu_partial _ scale cyc d h (pbRejects_printJavaCpu_littleEndian d hle)

/-- every heap document -/
theorem parseData_printHeap (scale : ScaleFn) (cyc : CycFn) (d : HeapDoc) (h : d.wf = true) :
    parseDataReal scale cyc (printHeap d) = .ok (expectedHeap scale d) :=
  parseData_printHeap_partial _ scale cyc d h (pbRejects_printHeap d)

/-- every contention / mutex document -/
theorem parseData_printContention (scale : ScaleFn) (cyc : CycFn) (d : ContDoc) (h : d.wf = true) :
    parseDataReal scale cyc (printContention d) = .ok (expectedContention cyc d) :=
  parseData_printContention_partial _ scale cyc d h (pbRejects_printContention d)

/-- every Java heapz / contentionz document -/
theorem parseData_printJava (scale : ScaleFn) (cyc : CycFn) (d : JavaDoc) (h : d.wf = true) :
    parseDataReal scale cyc (printJava d) = .ok (expectedJava scale d) :=
  parseData_printJava_partial _ scale cyc d h (pbRejects_printJava d)

/-- Witness of the known finding `C14/cpu/taken-for-protobuf`: the full statement fails on the
model.  The corpus document is well-formed, the real decoder ACCEPTS its bytes (every byte pair
reads as a field: tag 0 is skipped, `32 00` is an empty string-table entry), so `ParseData` returns
the empty protobuf profile, which is not the documented conversion. -/
theorem parseData_cpu_shadowed_by_protobuf (scale : ScaleFn) (cyc : CycFn) :
    shadowedCpuDoc.wf = true ∧
    parseDataReal scale cyc (printCpu shadowedCpuDoc) = .ok emptyPbProfile ∧
    parseDataReal scale cyc (printCpu shadowedCpuDoc) ≠ .ok (expectedCpu shadowedCpuDoc) := by
  refine ⟨shadowed_wf, parseDataReal_shadowed scale cyc, ?_⟩
  rw [parseDataReal_shadowed]
  intro e
  exact shadowed_ne (Outcome.ok.inj e)

/-- Witness of the known finding `C14/count/taken-for-concatenated-protobuf` (same root cause:
the decoder runs first): a well-formed count profile named `H1H1` — `H` is the tag byte of
time_nanos, met twice — makes the decoder report `errConcatProfile`, after which `ParseData` does not
try the legacy parsers at all; the hypothesis `PbRejects` of `parseData_printCount_partial` excludes it. -/
theorem parseData_count_shadowed_by_concat (scale : ScaleFn) (cyc : CycFn) :
    concatCountDoc.wf = true ∧
    parseDataReal scale cyc (printCount concatCountDoc) = .err errConcatProfile ∧
    ¬ PbRejects (Codec.parseUncompressed (printCount concatCountDoc)) := by
  refine ⟨concatCount_wf, parseDataReal_concatCount scale cyc, ?_⟩
  rintro ⟨e, he, _, h2⟩
  rw [concatCount_pb] at he
  exact h2 (Outcome.err.inj he).symm

/-- Witness of the known finding `C14/thread/taken-for-heap`: the hypothesis `chainOK` of
`parseData_printThread_partial` cannot be dropped.  A well-formed threadz document that starts
directly with the header of a thread NAMED like a heap profile header is claimed by `parseHeap`
(its header regexp is unanchored), which then fails on the stack lines with an error that is not
`errUnrecognized` — so `parseThread` is never tried. -/
theorem parseLegacy_thread_taken_for_heap (scale : ScaleFn) (cyc : CycFn) :
    heapNamedThreadDoc.wf = true ∧ heapNamedThreadDoc.chainOK = false ∧
    parseLegacy scale cyc (printThread heapNamedThreadDoc) = .err "unexpected number of sample values" :=
  ⟨heapNamedThread_wf, heapNamedThread_chain, parseLegacy_heapNamedThread scale cyc⟩

/-! ### the rules the property names -/

/-- The ids `finish` hands to the samples resolve to the raw addresses: for every final sample
whose addresses are in the location table, looking its location ids up gives back its stack. -/
theorem sample_addresses_resolve (h : Header) (tf fin : List RawSample) (parsed : List Mapping) (s : RawSample)
    (hs : ∀ a ∈ s.addrs, a ∈ tf.flatMap (·.addrs)) :
    (s.addrs.map (idOf (dedup (tf.flatMap (·.addrs))))).map (addrOf (finish h tf fin parsed)) = s.addrs.map some :=
  finish_stack h tf fin parsed s hs

/-- Address rule, end to end for count profiles: the i-th record `n @ a₁ a₂ …` of any well-formed
document becomes the i-th sample, with value `n` and a stack whose locations have the addresses
`a₁−1, a₂−1, …` (every frame is a call site). -/
theorem addr_adjust_rule (d : CountDoc) (h : d.wf = true) (i : Nat) (r : CountRec) (hr : d.recs[i]? = some r) :
    ∃ p s, parseGoCount (printCount d) = .ok p ∧ p.samples[i]? = some s ∧ s.values = [(r.n : Int)] ∧
      s.locationIDs.map (addrOf p) = r.addrs.map (fun a => some (decr64 a)) := by
  refine ⟨expectedCount d,
    { locationIDs := r.sample.addrs.map (idOf (dedup ((d.recs.map CountRec.sample).flatMap (·.addrs)))),
      values := r.sample.values, label := [], numLabel := r.sample.numLabel, numUnit := [] },
    parseGoCount_printCount d h, ?_, rfl, ?_⟩
  · simp only [expectedCount, finish_samples, List.getElem?_map, hr, Option.map_some]
  · simp only [expectedCount]
    have := finish_stack (countHeader d.name) (d.recs.map CountRec.sample) (d.recs.map CountRec.sample)
      (tailMappings d.map) r.sample (by
        intro a ha
        simp only [List.mem_flatMap, List.mem_map]
        exact ⟨r.sample, ⟨r, List.mem_of_getElem? hr, rfl⟩, ha⟩)
    simpa [CountRec.sample, List.map_map] using this

/-- Sign rule of heap records (the grammar admits negative in-use columns, `(-?\d+)`): every
count other than exactly 0 — negative ones included — gives the block-size label `bytes / count`
(Go integer division) and, in a sampled (`v2`) profile with rate > 1 and non-zero bytes, goes
through the unsampling function; a printed negative pair is read back with its sign. -/
theorem heap_negative_counts_rule (scale : ScaleFn) (hasAlloc : Bool) (rate : Nat) (inN inB : Int) (alN alB : Nat)
    (addrs : List Nat) (hn : inN ≠ 0) :
    (heapSample scale hasAlloc true rate inN inB alN alB addrs).numLabel = [(asc "bytes", [goDiv inB inN])] ∧
    (inB ≠ 0 → 1 < rate → unsample scale true rate inN inB = scale inN inB rate) ∧
    (-(two63 : Int) ≤ inN → inN < (two63 : Int) → parseI64Z (intStr inN) = some inN) := by
  refine ⟨by simp [heapSample, hn], ?_, fun h1 h2 => parseI64Z_intStr h1 h2⟩
  intro hb hr
  have : ¬ rate ≤ 1 := by omega
  simp [unsample, hn, hb, this]

/-- Sign rule of contention attributes (`strconv.ParseInt(_, 0, 64)` admits negative values):
nothing is scaled unless the sampling period is positive, and the delay only when cycles/second
is positive as well. -/
theorem contention_sign_rule (cyc : CycFn) (st : ContState) (cycles count : Nat) (addrs : List Nat) :
    (st.period ≤ 0 → (contSample cyc st cycles count addrs).values = [(count : Int), (cycles : Int)]) ∧
    (0 < st.period → st.cpuHz ≤ 0 →
      (contSample cyc st cycles count addrs).values = [wrapI64 ((count : Int) * st.period), (cycles : Int)]) := by
  constructor
  · intro h
    have h1 : ¬ (st.period > 0) := by omega
    simp [contSample, h1]
  · intro h1 h2
    have h3 : ¬ (st.cpuHz > 0) := by omega
    simp [contSample, h1, h3]

/-- Address rule where the leaf is not a call: threadz and binary CPU samples keep the first
address and move the others back by one. -/
theorem addr_adjust_rule_leaf (leaf : Nat) (callers : List Nat) (period count : Nat) :
    (cpuSample period count (leaf :: callers)).addrs = leaf :: callers.map decr64 ∧
    (threadSamplesRev [ThreadRec.mk 0 [] 0 (.stack [ThreadLine.mk 0 0 .pc (leaf :: callers) none])] []).map (·.addrs)
      = [leaf :: callers.map decr64] := ⟨rfl, by simp [threadSamplesRev, adjustCallers]⟩

/-- "same as previous thread": the record adds no sample, it adds one to the value of the
preceding sample (and is ignored when there is none). -/
theorem threadz_same_as_previous (rs : List ThreadRec) (r : ThreadRec) (blanks indent : Nat)
    (hr : r.body = .same blanks indent) :
    threadSamplesRev (rs ++ [r]) [] = bumpLast (threadSamplesRev rs []) ∧
    (bumpLast (threadSamplesRev rs [])).length = (threadSamplesRev rs []).length ∧
    (∀ s rest, threadSamplesRev rs [] = s :: rest → ∀ v vs, s.values = v :: vs →
      ∃ s', bumpLast (threadSamplesRev rs []) = s' :: rest ∧ s'.values = (v + 1) :: vs ∧ s'.addrs = s.addrs) := by
  refine ⟨?_, ?_, ?_⟩
  · rw [threadSamplesRev_eq, threadSamplesRev_eq, List.foldl_append]
    simp [ThreadRec.step, hr]
  · cases threadSamplesRev rs [] <;> simp [bumpLast]
  · intro s rest hs v vs hv
    rw [hs]
    exact ⟨_, rfl, by simp [hv], rfl⟩

/-- Signal-handler frame rule of binary CPU profiles: with `n ≥ 1` samples, an address that is the
second frame of at least `n − n/32` of them is removed from exactly the samples that have it in
second place (`dropSecondIf`), all other samples are left alone; at most one address can
qualify; when none does nothing is removed.  (`expectedCpu` applies the step twice.) -/
theorem cpu_signal_frame_rule (ss : List RawSample) (hn : ss ≠ []) :
    (∀ a, secondCount ss a ≥ ss.length - ss.length / 32 → stripSignalFrame ss = ss.map (dropSecondIf a)) ∧
    (∀ a b, secondCount ss a ≥ ss.length - ss.length / 32 → secondCount ss b ≥ ss.length - ss.length / 32 → a = b) ∧
    ((∀ a, secondCount ss a < ss.length - ss.length / 32) → stripSignalFrame ss = ss) :=
  ⟨fun a ha => stripSignalFrame_of_shared ss hn a ha,
   fun _ _ ha hb => signal_frame_unique ss hn ha hb,
   fun h => stripSignalFrame_of_none ss h⟩

/-! ### non-vacuity: well-formed documents with records, fillers and a memory map exist -/
example : (({ pre := [{ indent := 1, comment := some (asc " c") }], name := asc "goroutine", total := 3, width := 8,
              recs := [{ fill := [], n := 2, addrs := [4198401, 1] }], post := [],
              map := some { entries := [([], .entry none ⟨2, false, 8, 4194304, 4259840, 0,
                                               .brief true none (some (asc "/bin/x")) none none⟩)], post := [] } } : CountDoc).wf) = true := by
  decide

-- a memory map with a glog prefix, an attribute and a reference to it (cppbench.heap: `source=/home`, `$source/…`)
example : (({ entries := [([], .attr (some { text := asc "W1220 15:07:15.2 8272 logger.cc", line := 12033 }) 1 (asc "source") false (asc "/home")),
                          ([{ indent := 0, comment := some (asc " c") }],
                           .entryRef none ⟨2, false, 8, 4194304, 4259840, 0, .brief true none none none none⟩
                             (asc "source") (asc "/cppbench_server_main"))],
              post := [] } : MapSection).wf) = true := by decide

example : (({ big := false, w64 := true, period := 10000, recs := [{ count := 5, addrs := [3, 4] }], eod := true, blanksAfter := 1,
              locs := [{ fill := [], indent := 1, width := 8, addr := 3, gap := 0,
                         kind := .fileLine (asc "com.example.F.f") (asc "F.java") 103 }] } : JavaCpuDoc).wf) = true := by decide

-- a threadz document starting directly with a thread header, whose name is not a heap header
example : (({ pre := [], head := none, width := 8,
              recs := [{ id := 1, name := asc "main", tid := 7,
                         body := .stack [{ blanks := 0, indent := 2, label := .pc, addrs := [4198401], sym := none }] }],
              ending := .noStack 0 none } : ThreadDoc).chainOK) = true := by decide

-- the decoder hypothesis of the `_partial` theorems holds of an ordinary count document
example : PbRejects (Codec.parseUncompressed (printCount
    ⟨[], asc "goroutine", 1, 0, [{ fill := [], n := 1, addrs := [4198401] }], [], none⟩)) :=
  ⟨"unknown wire type", by decide, by decide, by decide⟩

example : (({ kind := .heapV2, totInuseN := 1, totInuseB := 2, totAllocN := 3, totAllocB := 4, rate := some 1024, pad := 1, width := 0,
              recs := [{ fill := [], indent := 2, inuseN := 1, inuseB := 512, allocN := 2, allocB := 1024, addrs := [4198401] }],
              post := [], libs := true, map := none } : HeapDoc).wf) = true := by decide

-- a difference profile: negative in-use columns (seeded change C14-l: `-3: -3072` has block size 1024)
example : (({ kind := .heapV2, totInuseN := 1, totInuseB := 2, totAllocN := 1, totAllocB := 2, rate := some 524288, pad := 0, width := 0,
              recs := [{ fill := [], indent := 0, inuseN := -3, inuseB := -3072, allocN := 0, allocB := 0, addrs := [4198401] }],
              post := [], libs := false, map := none } : HeapDoc).wf) = true ∧ goDiv (-3072) (-3) = 1024 := by decide

-- contention attributes with negative values
example : (({ head := .mutex, attrs := [{ fill := [], indent := 0, key := .samplingPeriod, value := -5, spaced := true }], width := 0,
              recs := [{ fill := [], indent := 0, cycles := 10, count := 2, gap := 0, addrs := [4198401] }],
              post := [], map := none } : ContDoc).wf) = true := by decide

example : (({ big := true, w64 := false, period := 10000, recs := [{ count := 5, addrs := [4198401, 4198500] }],
              eod := true, map := none } : CpuDoc).wf) = true := by decide

example : (({ pre := [], head := some (1, []), width := 8,
              recs := [{ id := 1, name := asc "main", tid := 7,
                         body := .stack [{ blanks := 0, indent := 2, label := .pc, addrs := [4198401], sym := some (asc "main") }] },
                       { id := 2, name := asc "t", tid := 8, body := .same 0 2 }],
              ending := .noStack 3 none } : ThreadDoc).wf) = true := by decide

-- the signal-frame rule applies: 3 samples sharing their second frame
example : stripSignalFrame [⟨[1, 9, 2], [1], []⟩, ⟨[3, 9], [1], []⟩, ⟨[4, 9, 5], [1], []⟩]
    = [⟨[1, 2], [1], []⟩, ⟨[3], [1], []⟩, ⟨[4, 5], [1], []⟩] := by decide

end PV.Props.C14
