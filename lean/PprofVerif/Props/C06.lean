import PprofVerif.Lemmas.FilterName
import PprofVerif.Lemmas.FilterCorollaries
import PprofVerif.Lemmas.FilterShowFrom
import PprofVerif.Lemmas.FilterShowFromOnly
import PprofVerif.Lemmas.FilterNameOnly
import PprofVerif.Lemmas.FilterShowFromFrames
import PprofVerif.Model.TagFilter
import PprofVerif.Lemmas.TagRange
/-!
# C06 — Sample filters keep exactly the documented samples, values untouched

Property theorems only (helper lemmas: `Lemmas/Filter*.lean`).  They are about the executable
model `Model/Filter.lean` of profile/filter.go (tied to the real code on every run by the
correspondence check) and the frame-level rule `Spec/Filter.lean`:

* a sample's stack is its list of *frames*, leaf first (`FilterSpec.frames`): one per `Line`,
  one for a location without line information;
* a frame *matches* R when its function name or file name matches or the binary of its
  location matches (`FilterSpec.frameMatches`); regular expressions are arbitrary predicates
  `Rx = Str → Bool`, so every theorem holds for all expressions;
* a *view* of a sample is (values, labels, numeric labels, units, frames).

`p.Valid` is `CheckValid` + reference closure (unique ids, ids resolve, every line has a function).
-/
namespace PV.Props.C06
open PV PV.Filter PV.FilterSpec

/-- **The name filters compute the frame-level rule** (all 16 combinations of
focus/ignore/hide/show, all expressions, all valid profiles): the views of the filtered
profile are exactly `nameSpec`: the samples with a frame matching focus and none matching ignore,
each reduced to its frames that hide does not match and show matches, dropped iff none is left. -/
theorem name_filter_rule (p : Profile) (hv : p.Valid) (fo ig hi sh : Option Rx) :
    (filterSamplesByName p fo ig hi sh).profile.samples.map
        (view (filterSamplesByName p fo ig hi sh).profile) = nameSpec p fo ig hi sh :=
  name_views_eq_spec p (wf_of_valid hv) fo ig hi sh

/-- focus=R keeps precisely the samples having at least one frame that matches R; the kept
samples and every table of the profile are untouched. -/
theorem focus_keeps_exactly (p : Profile) (hv : p.Valid) (R : Rx) :
    (filterSamplesByName p (some R) none none none).profile =
      { p with samples := p.samples.filter (fun s => (frames p s).any (frameMatches p R)) } := by
  rw [filter_noHideShow p (wf_of_valid hv) (some R) none (by simp)]
  congr 1
  apply List.filter_congr
  intro s _
  simp [nameKeeps, hasMatch]

/-- ignore=R drops precisely the samples having at least one frame that matches R (a sample
without frames is kept); everything else is untouched. -/
theorem ignore_drops_exactly (p : Profile) (hv : p.Valid) (R : Rx) :
    (filterSamplesByName p none (some R) none none).profile =
      { p with samples := p.samples.filter (fun s => !(frames p s).any (frameMatches p R)) } := by
  rw [filter_noHideShow p (wf_of_valid hv) none (some R) (by simp)]
  congr 1

/-- focus=R and ignore=R partition the profile: their results together are a permutation of
the unfiltered samples (as views), and their totals add up to the unfiltered total, per column. -/
theorem focus_ignore_partition (p : Profile) (hv : p.Valid) (R : Rx) :
    let A := (filterSamplesByName p (some R) none none none).profile
    let B := (filterSamplesByName p none (some R) none none).profile
    (A.samples.map (view A) ++ B.samples.map (view B)).Perm (p.samples.map (view p)) ∧
    ∀ i, total i (A.samples.map (view A)) + total i (B.samples.map (view B)) =
         total i (p.samples.map (view p)) := by
  intro A B
  have hA : A = { p with samples := p.samples.filter (fun s => (frames p s).any (frameMatches p R)) } :=
    focus_keeps_exactly p hv R
  have hB : B = { p with samples := p.samples.filter (fun s => !(frames p s).any (frameMatches p R)) } :=
    ignore_drops_exactly p hv R
  have vA : A.samples.map (view A) =
      (p.samples.filter (fun s => (frames p s).any (frameMatches p R))).map (view p) := by rw [hA]; rfl
  have vB : B.samples.map (view B) =
      (p.samples.filter (fun s => !(frames p s).any (frameMatches p R))).map (view p) := by rw [hB]; rfl
  rw [vA, vB]
  constructor
  · rw [← List.map_append]
    exact (List.filter_append_perm _ _).map _
  · intro i
    exact total_filter_add i _ (view p) p.samples

/-- hide=R removes only the frames it names: every sample of the result is an input sample that
passed focus/ignore, with untouched values and labels, showing exactly its frames that do not
match R; and such a sample disappears only when no frame is left. -/
theorem hide_removes_only (p : Profile) (hv : p.Valid) (fo ig : Option Rx) (R : Rx) :
    let r := (filterSamplesByName p fo ig (some R) none).profile
    (∀ v ∈ r.samples.map (view r), ∃ s ∈ p.samples, nameKeeps p fo ig s = true ∧
        v = specView s ((frames p s).filter (fun fr => !frameMatches p R fr))) ∧
    (∀ s ∈ p.samples, nameKeeps p fo ig s = true →
        (frames p s).filter (fun fr => !frameMatches p R fr) ≠ [] →
        specView s ((frames p s).filter (fun fr => !frameMatches p R fr)) ∈ r.samples.map (view r)) := by
  intro r
  have h : r.samples.map (view r) = nameSpec p fo ig (some R) none := name_filter_rule p hv fo ig (some R) none
  rw [h]
  have hvis : visible p (some R) none = fun fr => !frameMatches p R fr := by
    funext fr; simp [visible]
  have hc : (fo.isNone && ig.isNone && (some R).isNone && (none : Option Rx).isNone) = false := by simp
  simp only [nameSpec, hc, Bool.false_eq_true, ↓reduceIte, List.mem_filterMap, nameSpecSample, hvis]
  constructor
  · rintro v ⟨s, hs, hvs⟩
    refine ⟨s, hs, ?_⟩
    split at hvs
    · rename_i hk
      refine ⟨hk, ?_⟩
      split at hvs
      · rename_i he
        split at hvs
        · simp only [Option.map_some, Option.some.injEq] at hvs
          rw [← hvs, List.isEmpty_iff.mp he]
        · simp at hvs
      · simp only [Option.map_some, Option.some.injEq] at hvs
        exact hvs.symm
    · simp at hvs
  · intro s hs hk hne
    refine ⟨s, hs, ?_⟩
    have he : ((frames p s).filter (fun fr => !frameMatches p R fr)).isEmpty = false := by
      cases hx : (frames p s).filter (fun fr => !frameMatches p R fr) with
      | nil => exact absurd hx hne
      | cons _ _ => rfl
    simp [hk, he]

/-- show=R keeps only the frames it names: every sample of the result is an input sample that
passed focus/ignore, with untouched values and labels, showing exactly its frames that match R;
and such a sample disappears only when no frame is left. -/
theorem show_keeps_only (p : Profile) (hv : p.Valid) (fo ig : Option Rx) (R : Rx) :
    let r := (filterSamplesByName p fo ig none (some R)).profile
    (∀ v ∈ r.samples.map (view r), ∃ s ∈ p.samples, nameKeeps p fo ig s = true ∧
        v = specView s ((frames p s).filter (frameMatches p R))) ∧
    (∀ s ∈ p.samples, nameKeeps p fo ig s = true →
        (frames p s).filter (frameMatches p R) ≠ [] →
        specView s ((frames p s).filter (frameMatches p R)) ∈ r.samples.map (view r)) := by
  intro r
  have h : r.samples.map (view r) = nameSpec p fo ig none (some R) := name_filter_rule p hv fo ig none (some R)
  rw [h]
  have hvis : visible p none (some R) = frameMatches p R := by
    funext fr; simp [visible]
  have hc : (fo.isNone && ig.isNone && (none : Option Rx).isNone && (some R).isNone) = false := by simp
  simp only [nameSpec, hc, Bool.false_eq_true, ↓reduceIte, List.mem_filterMap, nameSpecSample, hvis]
  constructor
  · rintro v ⟨s, hs, hvs⟩
    refine ⟨s, hs, ?_⟩
    split at hvs
    · rename_i hk
      refine ⟨hk, ?_⟩
      split at hvs
      · rename_i he
        split at hvs
        · simp only [Option.map_some, Option.some.injEq] at hvs
          rw [← hvs, List.isEmpty_iff.mp he]
        · simp at hvs
      · simp only [Option.map_some, Option.some.injEq] at hvs
        exact hvs.symm
    · simp at hvs
  · intro s hs hk hne
    refine ⟨s, hs, ?_⟩
    have he : ((frames p s).filter (frameMatches p R)).isEmpty = false := by
      cases hx : (frames p s).filter (frameMatches p R) with
      | nil => exact absurd hx hne
      | cons _ _ => rfl
    simp [hk, he]

/-- Kept samples retain their values, labels and relative frame order, and the samples keep
their relative order: the result (as views) is matched one-to-one, in order, by a sub-list of the
input samples with the same values/labels/units, whose frames contain the result's frames as a
sub-list. -/
theorem filters_preserve_values_labels_order (p : Profile) (hv : p.Valid) (fo ig hi sh : Option Rx) :
    let r := (filterSamplesByName p fo ig hi sh).profile
    ∃ os : List Sample, os.Sublist p.samples ∧
      List.Forall₂ (fun v s => v.values = s.values ∧ v.label = s.label ∧ v.numLabel = s.numLabel ∧
          v.numUnit = s.numUnit ∧ v.frames.Sublist (frames p s))
        (r.samples.map (view r)) os := by
  intro r
  have h : r.samples.map (view r) = nameSpec p fo ig hi sh := name_filter_rule p hv fo ig hi sh
  rw [h]
  obtain ⟨os, hsub, hfa⟩ := nameSpec_preserves p fo ig hi sh
  refine ⟨os, hsub, ?_⟩
  exact hfa.imp (fun {v s} hvs => ⟨hvs.1.1, hvs.1.2.1, hvs.1.2.2.1, hvs.1.2.2.2, hvs.2⟩)

/-- The removes-only half of `filters_preserve_values_labels_order` WITHOUT the validity hypothesis
(profiles with duplicate or dangling ids included): for every combination of focus/ignore/hide/show
a kept sample's location list is a sublist of its list before with values, labels and units
untouched, and the kept samples' data are, in order, a sublist of the samples' data before. -/
theorem name_filters_only_remove (p : Profile) (fo ig hi sh : Option Rx) :
    (∀ s s', sampleStep p fo ig hi sh s = some s' →
      s'.locationIDs.Sublist s.locationIDs ∧ s'.values = s.values ∧ s'.label = s.label ∧
      s'.numLabel = s.numLabel ∧ s'.numUnit = s.numUnit) ∧
    List.Sublist
      ((filterSamplesByName p fo ig hi sh).profile.samples.map (fun s => (s.values, s.label, s.numLabel, s.numUnit)))
      (p.samples.map (fun s => (s.values, s.label, s.numLabel, s.numUnit))) :=
  ⟨sampleStep_only_removes p fo ig hi sh, filterSamplesByName_samples_sublist p fo ig hi sh⟩

/- FULL STATEMENT (false of the code, see `showFrom_spec_fails`):
     theorem showFrom_spec (p) (hv : p.Valid) (R : Rx) :
       (showFrom p (some R)).1.samples.map (view (showFrom p (some R)).1) = showFromSpec p (some R)
   i.e. every sample keeps its frames from the leaf up to and including its root-most frame matching
   R and disappears when none matches.  The code trims, globally, every location that has a matching
   line to end at its root-most matching line, also in samples where that location lies on the leaf
   side of the sample's highest match (finding C06/show_from/inlined-location-below-highest-match).
   Proved below under the hypothesis that excludes exactly that trimming. -/

/-- show_from=R under `ShowFromWhole` (no location is cut: its binary matches R, or none of its
lines does, or its root-most line does): the result is the frame-level rule. -/
theorem showFrom_spec_partial (p : Profile) (R : Rx)
    (h : ∀ l ∈ p.locations, ShowFromWhole p R l) :
    (showFrom p (some R)).1.samples.map (view (showFrom p (some R)).1) = showFromSpec p (some R) :=
  showFrom_views_eq_spec p R h

/-- UNCONDITIONAL (no hypothesis; holds inside the known finding
`C06/show_from/inlined-location-below-highest-match` too): show_from only ever REMOVES, and only from
the root side — a kept sample's location list is a non-empty leaf-side prefix of its list before with
values and labels untouched, every location's line list is a leaf-side prefix of its lines before,
and the kept samples are, in order, a sublist of the samples before. -/
theorem showFrom_removes_only_root_side (p : Profile) (R : Rx) :
    (∀ s s', showFromSample p R s = some s' →
      s'.locationIDs <+: s.locationIDs ∧ s'.locationIDs ≠ [] ∧ s'.values = s.values ∧ s'.label = s.label ∧
      s'.numLabel = s.numLabel ∧ s'.numUnit = s.numUnit) ∧
    (∀ l, (showFromLoc p R l).1.lines <+: l.lines ∧ (showFromLoc p R l).1.id = l.id) ∧
    List.Sublist ((showFrom p (some R)).1.samples.map (fun s => (s.values, s.label, s.numLabel)))
      (p.samples.map (fun s => (s.values, s.label, s.numLabel))) :=
  ⟨showFromSample_prefix p R, showFromLoc_prefix p R, showFrom_samples_sublist p R⟩

/-- FRAME LEVEL, UNCONDITIONAL: the frames of every sample kept by show_from are, in order, a
sublist of that sample's frames before — show_from never adds, duplicates, renames or reorders a
frame (it may, inside the recorded finding, remove more than the rule says). -/
theorem showFrom_frames_only_removed (p : Profile) (R : Rx) (s s' : Sample)
    (h : showFromSample p R s = some s') :
    List.Sublist (frames (showFrom p (some R)).1 s') (frames p s) :=
  showFrom_frames_sublist p R s s' h

/-- no show_from expression: nothing changes. -/
theorem showFrom_none_id (p : Profile) : showFrom p none = (p, false) := rfl

/-- The full show_from statement fails on the model (as on the code): with show_from=`^s` the
frame `fb`, which lies below the highest match `sb` of the second location, is lost. -/
theorem showFrom_spec_fails :
    witnessShowFrom.Valid ∧
    (showFrom witnessShowFrom (some startsWithS)).1.samples.map
        (view (showFrom witnessShowFrom (some startsWithS)).1) ≠
      showFromSpec witnessShowFrom (some startsWithS) := by
  decide

/-- tagfocus / tagignore on compiled label predicates: exactly the samples that satisfy focus
and not ignore stay, in order and untouched; the flags report whether anything matched. -/
theorem tagfilter_spec (p : Profile) (fo ig : Option TagMatch) :
    filterSamplesByTag p fo ig =
      ({ p with samples := p.samples.filter (fun s => tagFocused fo s && !tagIgnored ig s) },
       p.samples.any (tagFocused fo), p.samples.any (tagIgnored ig)) := by
  simp [filterSamplesByTag, filterByTagLoop_eq]

/-- tagshow / taghide remove only the labels they describe: a (string or numeric) label stays
iff its key matches tagshow (when given) and not taghide (when given); samples, values, frames,
units and the order of labels are untouched. -/
theorem tagshow_taghide_spec (p : Profile) (sh hi : Option Rx) :
    let r := (filterTagsByName p sh hi).1
    r.samples.map (view r) = p.samples.map (tagsSpecView p sh hi) := by
  intro r
  simp only [r, filterTagsByName, List.map_map]
  apply List.map_congr_left
  intro s _
  have hk : ∀ k, (!tagRemove sh hi k) = keepsKey sh hi k := by
    intro k; cases sh <;> cases hi <;> simp [tagRemove, keepsKey]
  simp only [Function.comp, view, tagsSpecView, filterTagsSample, hk]
  rfl

/-- Numeric ranges of tagfocus/tagignore: for number tokens `a`, `b` (optional sign, digits,
optional unit letters) that fit int64, the text `a` means "= a", `a:` "≥ a", `:a` "≤ a" and `a:b`
"between a and b" when `b` scales into the unit of `a` (otherwise the text is not a range); the
bounds are the numbers scaled by the model of `measurement.Scale` into the unit of the first. -/
theorem parseTagFilterRange_spec (a b : TagFilter.NumTok) (ha : a.WF) (hb : b.WF) (va vb : Int)
    (hva : TagFilter.parseInt64 a.num = some va) (hvb : TagFilter.parseInt64 b.num = some vb)
    (sa : TagFilter.Q) (ua : Str) (hsa : TagFilter.scale va a.al a.al = some (sa, ua))
    (sb : TagFilter.Q) (ub : Str) (hsb : TagFilter.scale vb b.al ua = some (sb, ub)) :
    TagFilter.parseTagFilterRange a.text = .ok (some ⟨.eq, sa, sa, ua⟩) ∧
    TagFilter.parseTagFilterRange (a.text ++ TagFilter.colon) = .ok (some ⟨.ge, sa, sa, ua⟩) ∧
    TagFilter.parseTagFilterRange (TagFilter.colon ++ a.text) = .ok (some ⟨.le, sa, sa, ua⟩) ∧
    TagFilter.parseTagFilterRange (a.text ++ TagFilter.colon ++ b.text) =
      (if ua != ub then .ok none else .ok (some ⟨.between, sa, sb, ua⟩)) :=
  TagFilter.parseTagFilterRange_forms a b ha hb va vb hva hvb sa ua hsa sb ub hsb

-- non-vacuity: the hypotheses are satisfiable by non-trivial values
example : (⟨[45], [49, 50], [107, 98]⟩ : TagFilter.NumTok).WF := by   -- "-12kb"
  refine ⟨Or.inr (Or.inr rfl), by simp, by decide, by decide⟩
example : TagFilter.parseInt64 (⟨[45], [49, 50], [107, 98]⟩ : TagFilter.NumTok).num = some (-12) := by decide
example : witnessShowFrom.Valid := by decide
example : ∀ l ∈ witnessShowFrom.locations, ShowFromWhole witnessShowFrom (fun s => s == [104, 97]) l := by
  intro l hl
  simp only [witnessShowFrom, List.mem_cons, List.not_mem_nil, or_false] at hl
  rcases hl with rfl | rfl
  · right; left; decide
  · right; right; exact ⟨⟨5, 12, 0⟩, by decide, by decide⟩
example : (frames witnessShowFrom ⟨[1, 2], [3], [], [], []⟩).length = 6 := by decide
-- non-vacuity of `showFrom_removes_only_root_side` / `showFrom_frames_only_removed`: a sample that IS kept
-- and really cut (inside the known finding: 6 frames before, fewer after)
example : ∃ s', showFromSample witnessShowFrom startsWithS ⟨[1, 2], [3], [], [], []⟩ = some s' ∧
    (frames (showFrom witnessShowFrom (some startsWithS)).1 s').length <
      (frames witnessShowFrom ⟨[1, 2], [3], [], [], []⟩).length := by
  refine ⟨_, rfl, ?_⟩
  decide

end PV.Props.C06
