import PprofVerif.Model.TagFilter
import PprofVerif.Spec.Filter
/-! C06 — property theorems (under construction). -/
namespace PV.Props.C06
open PV PV.Filter PV.FilterSpec

theorem placeholder_filter_none (p : Profile) :
    (filterSamplesByName p none none none none).profile = p := rfl

end PV.Props.C06
