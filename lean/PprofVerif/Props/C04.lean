import PprofVerif.Model.Graph
namespace PV.Props.C04
end PV.Props.C04
