import PprofVerif.Lemmas.GraphValid
import PprofVerif.Lemmas.TagFramesMain
import PprofVerif.Lemmas.AggregateFields
/-!
# C04 — report flat, cum and edge values equal their definition over samples

Property theorems only (helper lemmas live in `Lemmas/Graph*.lean`).  They are about the
executable model `PV.Graph.newGraph` / `computeTotalWD` (`Model/Graph.lean`, mirroring
internal/graph/graph.go `newGraph` and internal/report/report.go `computeTotal`) and the
specification `PV.GSpec` (`Spec/Graph.lean`).  All statements hold for ALL sample lists, all key
types with decidable equality (so for every granularity / noinlines / call_tree notion of entry
identity), all values and divisors.  Every figure is a pair `WD = (Σ value, Σ divisor)`; the
number shown is `WD.value` (Σ value / Σ divisor by Go's truncating division when mean is on).
The correspondence check ties the model to the Go code on every run.
-/
namespace PV.Props.C04
open PV PV.GSpec PV.Graph

variable {κ : Type} [DecidableEq κ]

/-- cum of an entry = Σ over the samples in which it occurs anywhere — a sample counted once even
under recursion (the `seenNode` set) — both the value sum and the divisor sum. -/
theorem graph_cum_eq_spec (ss : List (GSample κ)) (n : κ) :
    (newGraph allKept ss).cum n = cumSpec ss n := by
  rw [newGraph_cum, cumSpecK_allKept]

/-- flat of an entry = Σ over the samples whose leaf frame is that entry. -/
theorem graph_flat_eq_spec (ss : List (GSample κ)) (n : κ) :
    (newGraph allKept ss).flat n = flatSpec ss n := by
  rw [newGraph_flat, flatSpecK_allKept]

/-- weight of the edge a→b = Σ over the samples in which `a` is immediately followed by `b`, each
sample once (the `seenEdge` set); self edges have no weight. -/
theorem graph_edge_eq_spec (ss : List (GSample κ)) (a b : κ) :
    (newGraph allKept ss).weight a b = edgeSpec ss a b := by
  rw [newGraph_weight, edgeSpecK_allKept]

/-- an edge is present iff some counted sample (value or divisor non-zero) has that adjacency. -/
theorem graph_edge_exists_iff (ss : List (GSample κ)) (a b : κ) :
    (newGraph allKept ss).hasEdge a b = edgeExists ss a b := by
  rw [newGraph_hasEdge, edgeExistsK_allKept]

/-- no edge of an untrimmed graph is marked residual. -/
theorem graph_no_residual (ss : List (GSample κ)) (a b : κ) :
    (newGraph allKept ss).residual a b = false := by
  rw [newGraph_residual, allKept_no_residual]

/-- the report total: Σ |value| (Σ divisor), over the diff-base samples only when their Σ |value| > 0. -/
theorem total_eq_spec (ss : List (GSample κ)) : computeTotalWD ss = totalSpec ss :=
  PV.Graph.total_eq_spec ss

/-- mean variants: the SHOWN numbers (value sum divided by divisor sum) agree with the specification. -/
theorem mean_eq_spec (ss : List (GSample κ)) (n a b : κ) :
    ((newGraph allKept ss).cum n).value = (cumSpec ss n).value ∧
    ((newGraph allKept ss).flat n).value = (flatSpec ss n).value ∧
    ((newGraph allKept ss).weight a b).value = (edgeSpec ss a b).value ∧
    computeTotal ss = (totalSpec ss).value := by
  rw [graph_cum_eq_spec, graph_flat_eq_spec, graph_edge_eq_spec]
  exact ⟨rfl, rfl, rfl, by unfold computeTotal; rw [PV.Graph.total_eq_spec]⟩

/-- call-tree mode (`newTree`): an entry is identified by its path from the root
(`treeSample` re-keys every frame by the prefix of the stack ending at it); its cum is the Σ over
the samples whose stack passes through that path. -/
theorem tree_cum_eq_spec (ss : List (GSample κ)) (n : List κ) :
    (newTree ss).cum n = cumSpec (ss.map treeSample) n := PV.Graph.tree_cum_eq_spec ss n

/-- call-tree mode: flat = Σ over the samples whose whole stack is that path. -/
theorem tree_flat_eq_spec (ss : List (GSample κ)) (n : List κ) :
    (newTree ss).flat n = flatSpec (ss.map treeSample) n := PV.Graph.tree_flat_eq_spec ss n

/-- call-tree mode: the edge parent-path → child-path weighs the Σ over the samples passing through
the child path. -/
theorem tree_edge_eq_spec (ss : List (GSample κ)) (a b : List κ) :
    (newTree ss).weight a b = edgeSpec (ss.map treeSample) a b := PV.Graph.tree_edge_eq_spec ss a b

/-- `SampleIndexByName` never selects a column outside the sample types, whatever the option string
(so the value extractor `v[ix]` cannot index out of range on a valid profile). -/
theorem sampleIndexByName_in_range (p : Profile) (si : Str) (i : Nat)
    (h : sampleIndexByName p si = some i) : i < p.sampleType.length :=
  sampleIndexByName_lt p si i h

/-- on a valid profile (CheckValid and references inside the tables) and an in-range value column the
abstraction of the profile to samples — entry identity via `nodeInfo`, stack order, value and
divisor — is defined, at every granularity (`aggregate` first or not), so the theorems above speak
about every valid profile; no dangling id and no short value list is ever met. -/
theorem samplesOf_defined_of_valid (clean : Str → Str) (p : Profile) (o : GOpts) (vi : Nat) (mean : Bool)
    (hv : p.Valid) (hvi : vi < p.sampleType.length) :
    ∃ ss, samplesOf clean p o vi mean = some ss ∧
      (∀ n, (newGraph allKept ss).cum n = cumSpec ss n ∧ (newGraph allKept ss).flat n = flatSpec ss n) ∧
      (∀ a b, (newGraph allKept ss).weight a b = edgeSpec ss a b) ∧ computeTotalWD ss = totalSpec ss := by
  obtain ⟨ss, h⟩ := samplesOf_defined clean p o vi mean hv hvi
  exact ⟨ss, h, fun n => ⟨graph_cum_eq_spec ss n, graph_flat_eq_spec ss n⟩,
    fun a b => graph_edge_eq_spec ss a b, total_eq_spec ss⟩

-- non-vacuity / sanity: direct recursion a→a→b, value 5: cum a = 5 (once), flat b = 5, edge a→b = 5, no self edge
example : let ss : List (GSample Nat) := [{ frames := [1, 1, 2], w := 5, d := 1 }, { frames := [2, 1], w := -3, d := 1 }]
    ((newGraph allKept ss).cum 1 = ⟨2, 2⟩ ∧ (newGraph allKept ss).flat 2 = ⟨5, 1⟩ ∧
     (newGraph allKept ss).weight 1 2 = ⟨5, 1⟩ ∧ (newGraph allKept ss).weight 1 1 = 0 ∧
     computeTotalWD ss = ⟨8, 2⟩) := by decide

-- call tree: a→a→b gives three distinct path entries, each counted once
example : let ss : List (GSample Nat) := [{ frames := [1, 1, 2], w := 5, d := 0 }]
    ((newTree ss).cum [1] = ⟨5, 0⟩ ∧ (newTree ss).cum [1, 1] = ⟨5, 0⟩ ∧ (newTree ss).flat [1, 1, 2] = ⟨5, 0⟩ ∧
     (newTree ss).weight [1] [1, 1] = ⟨5, 0⟩) := by decide

-- "1" selects column 1, "7" is out of range, "" selects the last column (no default type)
example : let p : Profile := { (default : Profile) with sampleType := [⟨[111], []⟩, ⟨[115], []⟩] }
    (sampleIndexByName p [49] = some 1 ∧ sampleIndexByName p [55] = none ∧ sampleIndexByName p [] = some 1) := by decide

/-! ## entry identity: `-tagroot` / `-tagleaf` pseudo frames and `Aggregate` -/

/-- `addLabelNodes` (internal/driver/tagroot.go; string labels) on a valid profile: the abstract
sample list of the rewritten profile is the original one in which the stack of every sample `s` has
become `rootFrames ++ frames ++ leafFrames` — one pseudo frame per root key in key order outermost
(first key = new root), one per leaf key innermost (last key = new leaf), each named by the
comma-joined values of that label on `s` and filed under the key (`Graph.extendFrames`); values,
divisors and the diff-base mark are untouched.  Hence every figure theorem above holds of the
extended stacks (instantiated here for cum, flat, edge weight and total). -/
theorem tagroot_tagleaf_frames (clean : Str → Str) (p : Profile) (o : GOpts) (rootKeys leafKeys : List Str)
    (vi : Nat) (mean : Bool) (hv : p.Valid) (ss : List (GSample NodeInfo))
    (h : samplesOf clean p o vi mean = some ss) :
    let ss' := List.zipWith (fun s g => ({ g with frames := extendFrames clean rootKeys leafKeys s g.frames } : GSample NodeInfo))
      p.samples ss
    samplesOf clean (addLabelNodes p rootKeys leafKeys) o vi mean = some ss' ∧
    (∀ n, (newGraph allKept ss').cum n = cumSpec ss' n ∧ (newGraph allKept ss').flat n = flatSpec ss' n) ∧
    (∀ a b, (newGraph allKept ss').weight a b = edgeSpec ss' a b) ∧ computeTotalWD ss' = totalSpec ss' := by
  intro ss'
  exact ⟨samplesOf_addLabelNodes clean p o rootKeys leafKeys vi mean hv ss h,
    fun n => ⟨graph_cum_eq_spec ss' n, graph_flat_eq_spec ss' n⟩,
    fun a b => graph_edge_eq_spec ss' a b, total_eq_spec ss'⟩

-- non-vacuity: one sample main (label k=v) with tagroot=k, tagleaf=k: stack  [v@k, main, v@k]
example :
    let fn : Function := { id := 1, name := [109], systemName := [], filename := [], startLine := 0 }
    let loc : Location := { id := 1, mappingID := 0, address := 0, lines := [{ functionID := 1, line := 0, column := 0 }], isFolded := false }
    let s : Sample := { locationIDs := [1], values := [5], label := [([107], [[118]])], numLabel := [], numUnit := [] }
    let p : Profile := { (default : Profile) with sampleType := [⟨[99], []⟩], samples := [s], locations := [loc], functions := [fn] }
    p.Valid ∧
    (samplesOf id (addLabelNodes p [[107]] [[107]]) {} 0 false).map (fun ss => ss.map (fun g => g.frames.map (·.name))) =
      some [[[118], [109], [118]]] := by decide

/-- `Profile.Aggregate` preserves validity for every flag combination (it blanks fields, ids are
untouched) — so on a valid profile the abstraction to samples is defined at every granularity and
all figure theorems apply to the aggregated profile. -/
theorem aggregate_valid (clean : Str → Str) (p : Profile) (f : AggFlags) (o : GOpts) (vi : Nat) (mean : Bool)
    (hv : p.Valid) (hvi : vi < p.sampleType.length) :
    (aggregate p f).Valid ∧ ∃ ss, samplesOf clean (aggregate p f) o vi mean = some ss :=
  ⟨PV.Graph.aggregate_valid p f hv,
   samplesOf_defined clean (aggregate p f) o vi mean (PV.Graph.aggregate_valid p f hv) hvi⟩

/-- the stacks of the aggregated profile are the stacks computed on the ORIGINAL records with the
fields the flags blank taken as blank and, without inline frames, only the outermost line of every
location (`Graph.framesAgg` / `nodeInfoAgg`): id lookups commute with the in-place rewriting. For
the CLI: `aggregateG` decodes granularity × noinlines × showcolumns (`driver.aggregate`). -/
theorem aggregate_frames (clean : Str → Str) (p : Profile) (o : GOpts) (g : Granularity) (noInlines showColumns : Bool)
    (s : Sample) :
    framesOf clean (aggregateG p g noInlines showColumns) o s =
      match aggFlags g noInlines showColumns with
      | none => framesOf clean p o s
      | some f => framesAgg clean p o f s := by
  unfold aggregateG
  cases aggFlags g noInlines showColumns with
  | none => rfl
  | some f => exact framesOf_aggregate clean p o f s

/-- per granularity, which fields can distinguish two entries: `functions` entries carry no address,
file, line or column; `filefunctions` no address, line, column; `files` no address, name, start
line (so one source file is ONE entry however many functions with different start lines it holds),
line, column; `lines` no address (and no column unless `showcolumns`); with `noinlines` every location
contributes exactly one entry. -/
theorem granularity_identity (clean : Str → Str) (p : Profile) (o : GOpts) (g : Granularity) (noInlines showColumns : Bool)
    (f : AggFlags) (hf : aggFlags g noInlines showColumns = some f) (s : Sample) (fs : List NodeInfo)
    (h : framesAgg clean p o f s = some fs) :
    (∀ ni ∈ fs,
      (g = .functions → ni.address = 0 ∧ ni.file = [] ∧ ni.lineno = 0 ∧ ni.columnno = 0) ∧
      (g = .filefunctions → ni.address = 0 ∧ ni.lineno = 0 ∧ ni.columnno = 0) ∧
      (g = .files → ni.address = 0 ∧ ni.name = [] ∧ ni.origName = [] ∧ ni.startLine = 0 ∧ ni.lineno = 0 ∧ ni.columnno = 0) ∧
      (g = .lines → ni.address = 0 ∧ (showColumns = false → ni.columnno = 0))) ∧
    (noInlines = true → fs.length = s.locationIDs.length) := by
  constructor
  · intro ni hni
    obtain ⟨l, ln, objfile, hn⟩ := framesAgg_mem clean p o f s fs h ni hni
    obtain ⟨ha, hl, hc, hfl, hfn⟩ := nodeInfoAgg_fields clean p o f l ln objfile ni hn
    refine ⟨?_, ?_, ?_, ?_⟩
    · rintro rfl
      simp only [aggFlags, Option.some.injEq] at hf
      subst hf
      exact ⟨ha rfl, hfl rfl, (hl rfl).1, (hl rfl).2⟩
    · rintro rfl
      simp only [aggFlags, Option.some.injEq] at hf
      subst hf
      exact ⟨ha rfl, (hl rfl).1, (hl rfl).2⟩
    · rintro rfl
      simp only [aggFlags, Option.some.injEq] at hf
      subst hf
      exact ⟨ha rfl, (hfn rfl).1, (hfn rfl).2.1, (hfn rfl).2.2, (hl rfl).1, (hl rfl).2⟩
    · rintro rfl
      simp only [aggFlags, Option.some.injEq] at hf
      subst hf
      exact ⟨ha rfl, fun hs => hc hs⟩
  · rintro rfl
    apply framesAgg_length_noinline clean p o f s ?_ fs h
    cases g <;> simp [aggFlags] at hf <;> (try subst hf) <;> rfl

-- non-vacuity: location with two lines (inlined g in f), granularity functions+noinlines keeps only the
-- outermost line and blanks file/line: one entry named "f"
example :
    let fns : List Function := [{ id := 1, name := [102], systemName := [], filename := [47, 97], startLine := 3 },
                                { id := 2, name := [103], systemName := [], filename := [47, 98], startLine := 7 }]
    let loc : Location := { id := 1, mappingID := 0, address := 4096, lines := [{ functionID := 2, line := 10, column := 2 }, { functionID := 1, line := 20, column := 4 }], isFolded := false }
    let s : Sample := { locationIDs := [1], values := [5], label := [], numLabel := [], numUnit := [] }
    let p : Profile := { (default : Profile) with sampleType := [⟨[99], []⟩], samples := [s], locations := [loc], functions := fns }
    p.Valid ∧ (aggregateG p .functions true false).Valid ∧
    framesOf id (aggregateG p .functions true false) {} s =
      some [{ name := [102], origName := [], address := 0, file := [], startLine := 0, lineno := 0, columnno := 0, objfile := [] }] ∧
    (framesOf id (aggregateG p .lines false false) {} s).map (fun fs => fs.map (fun n => (n.name, n.lineno, n.columnno))) =
      some [([102], 20, 0), ([103], 10, 0)] := by decide

-- non-vacuity (files granularity): two functions of the same file with different start lines are ONE entry
example :
    let fns : List Function := [{ id := 1, name := [102], systemName := [102], filename := [47, 97], startLine := 3 },
                                { id := 2, name := [103], systemName := [103], filename := [47, 97], startLine := 70 }]
    let l1 : Location := { id := 1, mappingID := 0, address := 4096, lines := [{ functionID := 1, line := 10, column := 0 }], isFolded := false }
    let l2 : Location := { id := 2, mappingID := 0, address := 8192, lines := [{ functionID := 2, line := 80, column := 0 }], isFolded := false }
    let s : Sample := { locationIDs := [1, 2], values := [5], label := [], numLabel := [], numUnit := [] }
    let p : Profile := { (default : Profile) with sampleType := [⟨[99], []⟩], samples := [s], locations := [l1, l2], functions := fns }
    p.Valid ∧ (framesOf id (aggregateG p .files false false) {} s).map (fun fs => fs.eraseDups.length) = some 1 := by decide

end PV.Props.C04
