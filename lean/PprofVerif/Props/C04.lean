import PprofVerif.Lemmas.GraphValid
/-!
# C04 — report flat, cum and edge values equal their definition over samples

Property theorems only (helper lemmas live in `Lemmas/Graph*.lean`).  They are about the
executable model `PV.Graph.newGraph` / `computeTotalWD` (`Model/Graph.lean`, mirroring
internal/graph/graph.go `newGraph` and internal/report/report.go `computeTotal`) and the
specification `PV.GSpec` (`Spec/Graph.lean`).  All statements hold for ALL sample lists, all key
types with decidable equality (so for every granularity / noinlines / call_tree notion of entry
identity), all values and divisors.  Every figure is a pair `WD = (Σ value, Σ divisor)`; the
number shown is `WD.value` (Σ value / Σ divisor by Go's truncating division when mean is on).
The correspondence check ties the model to the Go code on every run.
-/
namespace PV.Props.C04
open PV PV.GSpec PV.Graph

variable {κ : Type} [DecidableEq κ]

/-- cum of an entry = Σ over the samples in which it occurs anywhere — a sample counted once even
under recursion (the `seenNode` set) — both the value sum and the divisor sum. -/
theorem graph_cum_eq_spec (ss : List (GSample κ)) (n : κ) :
    (newGraph allKept ss).cum n = cumSpec ss n := by
  rw [newGraph_cum, cumSpecK_allKept]

/-- flat of an entry = Σ over the samples whose leaf frame is that entry. -/
theorem graph_flat_eq_spec (ss : List (GSample κ)) (n : κ) :
    (newGraph allKept ss).flat n = flatSpec ss n := by
  rw [newGraph_flat, flatSpecK_allKept]

/-- weight of the edge a→b = Σ over the samples in which `a` is immediately followed by `b`, each
sample once (the `seenEdge` set); self edges have no weight. -/
theorem graph_edge_eq_spec (ss : List (GSample κ)) (a b : κ) :
    (newGraph allKept ss).weight a b = edgeSpec ss a b := by
  rw [newGraph_weight, edgeSpecK_allKept]

/-- an edge is present iff some counted sample (value or divisor non-zero) has that adjacency. -/
theorem graph_edge_exists_iff (ss : List (GSample κ)) (a b : κ) :
    (newGraph allKept ss).hasEdge a b = edgeExists ss a b := by
  rw [newGraph_hasEdge, edgeExistsK_allKept]

/-- no edge of an untrimmed graph is marked residual. -/
theorem graph_no_residual (ss : List (GSample κ)) (a b : κ) :
    (newGraph allKept ss).residual a b = false := by
  rw [newGraph_residual, allKept_no_residual]

/-- the report total: Σ |value| (Σ divisor), over the diff-base samples only when their Σ |value| > 0. -/
theorem total_eq_spec (ss : List (GSample κ)) : computeTotalWD ss = totalSpec ss :=
  PV.Graph.total_eq_spec ss

/-- mean variants: the SHOWN numbers (value sum divided by divisor sum) agree with the specification. -/
theorem mean_eq_spec (ss : List (GSample κ)) (n a b : κ) :
    ((newGraph allKept ss).cum n).value = (cumSpec ss n).value ∧
    ((newGraph allKept ss).flat n).value = (flatSpec ss n).value ∧
    ((newGraph allKept ss).weight a b).value = (edgeSpec ss a b).value ∧
    computeTotal ss = (totalSpec ss).value := by
  rw [graph_cum_eq_spec, graph_flat_eq_spec, graph_edge_eq_spec]
  exact ⟨rfl, rfl, rfl, by unfold computeTotal; rw [PV.Graph.total_eq_spec]⟩

/-- call-tree mode (`newTree`): an entry is identified by its path from the root
(`treeSample` re-keys every frame by the prefix of the stack ending at it); its cum is the Σ over
the samples whose stack passes through that path. -/
theorem tree_cum_eq_spec (ss : List (GSample κ)) (n : List κ) :
    (newTree ss).cum n = cumSpec (ss.map treeSample) n := PV.Graph.tree_cum_eq_spec ss n

/-- call-tree mode: flat = Σ over the samples whose whole stack is that path. -/
theorem tree_flat_eq_spec (ss : List (GSample κ)) (n : List κ) :
    (newTree ss).flat n = flatSpec (ss.map treeSample) n := PV.Graph.tree_flat_eq_spec ss n

/-- call-tree mode: the edge parent-path → child-path weighs the Σ over the samples passing through
the child path. -/
theorem tree_edge_eq_spec (ss : List (GSample κ)) (a b : List κ) :
    (newTree ss).weight a b = edgeSpec (ss.map treeSample) a b := PV.Graph.tree_edge_eq_spec ss a b

/-- `SampleIndexByName` never selects a column outside the sample types, whatever the option string
(so the value extractor `v[ix]` cannot index out of range on a valid profile). -/
theorem sampleIndexByName_in_range (p : Profile) (si : Str) (i : Nat)
    (h : sampleIndexByName p si = some i) : i < p.sampleType.length :=
  sampleIndexByName_lt p si i h

/-- on a valid profile (CheckValid and references inside the tables) and an in-range value column the
abstraction of the profile to samples — entry identity via `nodeInfo`, stack order, value and
divisor — is defined, at every granularity (`aggregate` first or not), so the theorems above speak
about every valid profile; no dangling id and no short value list is ever met. -/
theorem samplesOf_defined_of_valid (clean : Str → Str) (p : Profile) (o : GOpts) (vi : Nat) (mean : Bool)
    (hv : p.Valid) (hvi : vi < p.sampleType.length) :
    ∃ ss, samplesOf clean p o vi mean = some ss ∧
      (∀ n, (newGraph allKept ss).cum n = cumSpec ss n ∧ (newGraph allKept ss).flat n = flatSpec ss n) ∧
      (∀ a b, (newGraph allKept ss).weight a b = edgeSpec ss a b) ∧ computeTotalWD ss = totalSpec ss := by
  obtain ⟨ss, h⟩ := samplesOf_defined clean p o vi mean hv hvi
  exact ⟨ss, h, fun n => ⟨graph_cum_eq_spec ss n, graph_flat_eq_spec ss n⟩,
    fun a b => graph_edge_eq_spec ss a b, total_eq_spec ss⟩

-- non-vacuity / sanity: direct recursion a→a→b, value 5: cum a = 5 (once), flat b = 5, edge a→b = 5, no self edge
example : let ss : List (GSample Nat) := [{ frames := [1, 1, 2], w := 5, d := 1 }, { frames := [2, 1], w := -3, d := 1 }]
    ((newGraph allKept ss).cum 1 = ⟨2, 2⟩ ∧ (newGraph allKept ss).flat 2 = ⟨5, 1⟩ ∧
     (newGraph allKept ss).weight 1 2 = ⟨5, 1⟩ ∧ (newGraph allKept ss).weight 1 1 = 0 ∧
     computeTotalWD ss = ⟨8, 2⟩) := by decide

-- call tree: a→a→b gives three distinct path entries, each counted once
example : let ss : List (GSample Nat) := [{ frames := [1, 1, 2], w := 5, d := 0 }]
    ((newTree ss).cum [1] = ⟨5, 0⟩ ∧ (newTree ss).cum [1, 1] = ⟨5, 0⟩ ∧ (newTree ss).flat [1, 1, 2] = ⟨5, 0⟩ ∧
     (newTree ss).weight [1] [1, 1] = ⟨5, 0⟩) := by decide

-- "1" selects column 1, "7" is out of range, "" selects the last column (no default type)
example : let p : Profile := { (default : Profile) with sampleType := [⟨[111], []⟩, ⟨[115], []⟩] }
    (sampleIndexByName p [49] = some 1 ∧ sampleIndexByName p [55] = none ∧ sampleIndexByName p [] = some 1) := by decide

end PV.Props.C04
