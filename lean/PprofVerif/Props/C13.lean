import PprofVerif.Lemmas.ElfBase
import PprofVerif.Lemmas.ElfNm
/-!
# C13 — Sample addresses map to the right link-time address in ELF binaries

Property theorems only (helper lemmas: `Lemmas/ElfBase.lean`, `Lemmas/ElfNm.lean`).  They are about
the executable model `Model/Elf.lean` (tied to `internal/elfexec`, `internal/binutils` on every run
by the correspondence harness `harness/c13.go`) and the loader specification `Spec/ElfLoader.lean`.

FULL STATEMENT of the property (for every loader page size and every bias):

    LoaderLayout page seg B v0 v1 m → seg ∈ f.progs → UserMapping m → InSegment seg B m x →
      objAddr m f x = .ok (x - B) ∨ ∃ e, objAddr m f x = .err e

It is FALSE of the model (and of the code, replayed by corpus/C13/*.json):
* `objAddr_wrong_with_64k_runtime_pages` — `page = 65536` (the code hard-wires 4096 in
  `ProgramHeadersForMapping`; finding C13/base/runtime-page-64k);
* `objAddr_wrong_when_dyn_bias_eq_segment_offset` — `ET_DYN`, `B = seg.off`, mapping not at the
  segment start: the first kernel heuristic of `kernelBase` fires (finding
  C13/base/dyn-bias-equals-segment-offset).
What is proved is the statement under the two explicit hypotheses `page = 4096` and
`¬ KernelLookalike` (`objAddr_correct_or_error`), for all inputs.
-/
namespace PV.Props.C13
open PV PV.Elf

/-! ## GetBase -/

/-- User-space branch of `GetBase` (`ET_EXEC` and `ET_DYN`): for a mapping that starts at
`B + v0` with file offset `Off + (v0 − Vaddr)` the base is the load bias `B`.  All arithmetic is
`uint64` arithmetic: the identity holds with wrap-around (no ordering between `v0`, `Vaddr`, `Off`,
`B` is assumed, `v0` is arbitrary).  The branch conditions are the code's: the mapping starts in
`(0, 2^63)` and no kernel relocation symbol was read; `¬ KernelLookalike` excludes the one
`ET_DYN` configuration that the first kernel heuristic captures. -/
theorem getBase_user_eq_bias (ty : Nat) (seg : ProgHeader) (B v0 limit : Nat)
    (hty : ty = etExec ∨ ty = etDyn)
    (hB : B < two64) (ho : seg.off < two64) (hv : seg.vaddr < two64)
    (hstart : 0 < add64 B v0 ∧ add64 B v0 < two63)
    (hk : ¬ KernelLookalike ty seg B v0) :
    getBase ty (some seg) none (add64 B v0) limit (add64 seg.off (sub64 v0 seg.vaddr)) = .ok B :=
  getBase_user ty seg B v0 limit hty hB ho hv hstart hk

-- hypotheses satisfiable, also with wrap-around (v0 < Vaddr, Off > B+v0) and Off ≢ Vaddr (mod 2^32)
example : (0 < add64 0x7f0000000000 0x1000 ∧ add64 0x7f0000000000 0x1000 < two63) ∧
    ¬ KernelLookalike etDyn ⟨1, 5, 0x5f0, 0x3000002015f0, 0x800, 0x800⟩ 0x7f0000000000 0x1000 := by decide

/-- What the other documented branches return (for all inputs): the whole-address-space fake mapping
needs no adjustment; `ET_REL` uses the mapping start and refuses a file offset; a header-less
`ET_DYN` uses `start − offset`; `GetBase` never panics. -/
theorem getBase_other_branches (ty : Nat) (seg : Option ProgHeader) (st : Option Nat) (start limit offset : Nat) :
    (start = 0 → offset = 0 → (limit = two64 - 1 ∨ limit = 0) → getBase ty seg st start limit offset = .ok 0) ∧
    (ty = etRel → start ≠ 0 → offset = 0 → getBase ty seg st start limit offset = .ok start) ∧
    (ty = etRel → offset ≠ 0 → ∃ e, getBase ty seg st start limit offset = .err e) ∧
    (ty = etDyn → seg = none → start ≠ 0 → getBase ty seg st start limit offset = .ok (sub64 start offset)) ∧
    (∀ s, getBase ty seg st start limit offset ≠ .panic s) := by
  refine ⟨?_, ?_, ?_, ?_, ?_⟩
  · intro h1 h2 h3; simp [getBase, h1, h2, h3]
  · intro h1 h2 h3; simp [getBase, h1, h2, h3, etRel, etExec]
  · intro h1 h2; exact ⟨"don't know how to handle mapping.Offset", by simp [getBase, h1, h2, etRel, etExec]⟩
  · intro h1 h2 h3; simp [getBase, h1, h2, h3, etRel, etExec, etDyn]
  · intro s; exact getBase_no_panic ty seg st start limit offset s

/-! ## ProgramHeadersForMapping -/

/-- Under the loader model with 4 KiB runtime pages (the constant the code documents) the owning
segment is always among the candidates `ProgramHeadersForMapping` returns — whatever the other
program headers are, for every bias, split and alignment. -/
theorem trueSegment_in_candidates (phdrs : List ProgHeader) (seg : ProgHeader) (B v0 v1 : Nat) (m : Mapping)
    (hmem : seg ∈ phdrs) (hL : LoaderLayout 4096 seg B v0 v1 m) :
    seg ∈ programHeadersForMapping phdrs m.offset (sub64 m.limit m.start) :=
  List.mem_filter.2 ⟨hmem, phfmKeep_of_layout seg B v0 v1 m hL⟩

/-- … and every candidate is a `PT_LOAD` header with file content (zero-filesz segments, whose file
offsets are unreliable, are never selected) taken from the input in order. -/
theorem candidates_are_loadable (phdrs : List ProgHeader) (mo ms : Nat) :
    (programHeadersForMapping phdrs mo ms).Sublist phdrs ∧
    ∀ p ∈ programHeadersForMapping phdrs mo ms, p.ptype = ptLoad ∧ p.filesz ≠ 0 :=
  ⟨List.filter_sublist, fun p hp => phfmKeep_imp mo ms p (List.mem_filter.1 hp).2⟩

/-! ## HeaderForFileOffset -/

/-- `HeaderForFileOffset` returns a header exactly when one header (counted by position) contains the
file offset in `[Off, Off+Memsz)`, and then that header; in every other case — none or several —
it returns an error.  It never panics. -/
theorem headerForFileOffset_unique_or_error (hs : List ProgHeader) (fo : Nat) :
    (∃ h, headerForFileOffset hs fo = .ok h ∧ hs.filter (hffoMatch fo) = [h]) ∨
    (∃ e, headerForFileOffset hs fo = .err e ∧ (hs.filter (hffoMatch fo)).length ≠ 1) :=
  hffo_char hs fo

/-! ## computeBase / ObjAddr -/

/-- **Main theorem.**  An object `f` (ET_EXEC or ET_DYN, arbitrary program headers) is loaded at bias
`B`; `m` is a runtime mapping of the file image of its segment `seg` as the loader creates it with
4 KiB pages; `x` is an address of that segment inside the mapping.  Then `ObjAddr x` is `x − B`
(the link-time address) or an error — never another address.  Moreover an error is returned only
when the owning segment cannot be identified uniquely by the sample's file offset. -/
theorem objAddr_correct_or_error (f : File) (seg : ProgHeader) (B v0 v1 : Nat) (m : Mapping) (x : Nat)
    (hty : f.etype = etExec ∨ f.etype = etDyn) (hmem : seg ∈ f.progs)
    (hL : LoaderLayout 4096 seg B v0 v1 m)              -- runtimePage = 4096
    (hu : UserMapping m)
    (hk : ¬ KernelLookalike f.etype seg B v0)
    (hx : InSegment seg B m x) :
    objAddr m f x = .ok (x - B) ∨
    ∃ e, objAddr m f x = .err e ∧ ¬ OnlyOwner f (add64 (sub64 x m.start) m.offset) seg := by
  rcases objAddr_layout f seg B v0 v1 m x hty hmem hL hu hk hx with ⟨h, _⟩ | ⟨e, h, _, hno⟩
  · exact Or.inl h
  · exact Or.inr ⟨e, h, hno⟩

/-- Corollary: when exactly one loadable segment claims the sample's file offset the translation
succeeds with the right address. -/
theorem objAddr_correct_when_unambiguous (f : File) (seg : ProgHeader) (B v0 v1 : Nat) (m : Mapping) (x : Nat)
    (hty : f.etype = etExec ∨ f.etype = etDyn) (hmem : seg ∈ f.progs)
    (hL : LoaderLayout 4096 seg B v0 v1 m) (hu : UserMapping m)
    (hk : ¬ KernelLookalike f.etype seg B v0) (hx : InSegment seg B m x)
    (hun : OnlyOwner f (add64 (sub64 x m.start) m.offset) seg) :
    objAddr m f x = .ok (x - B) := by
  rcases objAddr_correct_or_error f seg B v0 v1 m x hty hmem hL hu hk hx with h | ⟨_, _, hno⟩
  · exact h
  · exact absurd hun hno

/-- gcc -pie hello world (readelf -lW), loaded at 0x555555554000. -/
def exPie : File := ⟨etDyn,
  [⟨1, 4, 0x0, 0x0, 0x618, 0x618⟩, ⟨1, 5, 0x1000, 0x1000, 0x189, 0x189⟩,
   ⟨1, 4, 0x2000, 0x2000, 0x10c, 0x10c⟩, ⟨1, 6, 0x2dd0, 0x3dd0, 0x24c, 0x1210⟩], []⟩
def exPieText : ProgHeader := ⟨1, 5, 0x1000, 0x1000, 0x189, 0x189⟩
def exPieMap : Mapping := ⟨0x555555555000, 0x555555556000, 0x1000, none⟩

-- the hypotheses of the main theorem hold for this binary, and both conclusions are inhabited
example : (exPie.etype = etExec ∨ exPie.etype = etDyn) ∧ exPieText ∈ exPie.progs ∧
    LoaderLayout 4096 exPieText 0x555555554000 0x1000 0x2000 exPieMap ∧ UserMapping exPieMap ∧
    ¬ KernelLookalike exPie.etype exPieText 0x555555554000 0x1000 ∧
    InSegment exPieText 0x555555554000 exPieMap 0x555555555139 ∧
    OnlyOwner exPie (add64 (sub64 0x555555555139 exPieMap.start) exPieMap.offset) exPieText ∧
    objAddr exPieMap exPie 0x555555555139 = .ok 0x1139 := by decide

/-- gold-style layout: text at file offset 0 with bss-like tail overlapping the next segment's
file range (Memsz > Filesz in a non-last segment): the RW mapping at file page 0 is ambiguous. -/
def exAmb : File := ⟨etDyn,
  [⟨1, 5, 0x0, 0x0, 0x7f8, 0xf00⟩, ⟨1, 6, 0xdc0, 0x1dc0, 0x268, 0x1240⟩], []⟩
example : LoaderLayout 4096 ⟨1, 6, 0xdc0, 0x1dc0, 0x268, 0x1240⟩ 0x7f1234560000 0x1000 0x2000
      ⟨0x7f1234561000, 0x7f1234562000, 0, none⟩ ∧
    InSegment ⟨1, 6, 0xdc0, 0x1dc0, 0x268, 0x1240⟩ 0x7f1234560000 ⟨0x7f1234561000, 0x7f1234562000, 0, none⟩ 0x7f1234561dd0 ∧
    (objAddr ⟨0x7f1234561000, 0x7f1234562000, 0, none⟩ exAmb 0x7f1234561dd0).cls = "err" := by decide

/-! ### the full statement fails without the two hypotheses (witnesses, replayed on the Go code) -/

/-- lld-style layout on a 64 KiB-page kernel (text follows read-only data in the same file pages):
the layout is loader-consistent for `page = 65536`, every other hypothesis holds, and `ObjAddr`
returns a wrong address (off by one 64 KiB page).  corpus/C13/known-runtime-page-64k.json -/
theorem objAddr_wrong_with_64k_runtime_pages :
    let f : File := ⟨etDyn, [⟨1, 4, 0, 0, 0x15f0, 0x15f0⟩, ⟨1, 5, 0x15f0, 0x115f0, 0x800, 0x800⟩], []⟩
    let seg : ProgHeader := ⟨1, 5, 0x15f0, 0x115f0, 0x800, 0x800⟩
    let B := 0xaaaaaaaa0000
    let m : Mapping := ⟨0xaaaaaaab0000, 0xaaaaaaac0000, 0, none⟩
    let x := 0xaaaaaaab1600
    seg ∈ f.progs ∧ LoaderLayout 65536 seg B 0x10000 0x20000 m ∧ UserMapping m ∧
    ¬ KernelLookalike f.etype seg B 0x10000 ∧ InSegment seg B m x ∧
    seg ∉ programHeadersForMapping f.progs m.offset (sub64 m.limit m.start) ∧
    objAddr m f x = .ok 0x1600 ∧ x - B = 0x11600 := by decide

/-- ET_DYN object with first vaddr 0x3550000 loaded at bias 0 (= file offset of its first segment,
e.g. a prelinked library); the mapping is the second page of the segment.  Every hypothesis of the
main theorem holds except `¬ KernelLookalike`, and `ObjAddr` is off by the mapping's file offset.
corpus/C13/known-dyn-bias-equals-segment-offset.json -/
theorem objAddr_wrong_when_dyn_bias_eq_segment_offset :
    let f : File := ⟨etDyn, [⟨1, 5, 0, 0x3550000, 0x2345, 0x2345⟩], []⟩
    let seg : ProgHeader := ⟨1, 5, 0, 0x3550000, 0x2345, 0x2345⟩
    let m : Mapping := ⟨0x3551000, 0x3552000, 0x1000, none⟩
    seg ∈ f.progs ∧ LoaderLayout 4096 seg 0 0x3551000 0x3552000 m ∧ UserMapping m ∧
    KernelLookalike f.etype seg 0 0x3551000 ∧ InSegment seg 0 m 0x3551234 ∧
    objAddr m f 0x3551234 = .ok 0x3550234 := by decide

/-- `Open`+`ObjAddr` never panic, whatever the headers, mapping and address. -/
theorem objAddr_never_panics (m : Mapping) (f : File) (x : Nat) (e : String) : objAddr m f x ≠ .panic e :=
  objAddr_no_panic m f x e

/-! ## nm symbol lookup -/

/-- On every table sorted by start address (duplicates, zero sizes and any mix of symbol types
allowed) the lookup never panics and never errs, and when it returns a symbol, that symbol has
the greatest start address not above the looked-up address. -/
theorem nmSearch_greatest_le (m : List Sym) (addr : Nat) (hs : SortedByAddr m) :
    addrInfo m addr = .ok none ∨
    ∃ i s, addrInfo m addr = .ok (some i) ∧ m[i]? = some s ∧ s.address ≤ addr ∧
      ∀ t ∈ m, t.address ≤ addr → t.address ≤ s.address := by
  rcases addrInfo_cases m addr hs with ⟨_, h⟩ | ⟨_, _, _, _, _, h⟩ | ⟨_, _, r, s, _, _, _, _, hr, hle, hgr, h⟩
  · exact Or.inl h
  · exact Or.inl h
  · by_cases hc : s.isData = true ∧ addr ≥ add64 s.address s.size
    · rw [if_pos hc] at h; exact Or.inl h
    · rw [if_neg hc] at h
      refine Or.inr ⟨r, s, h, hr, hle, ?_⟩
      intro t ht hta
      obtain ⟨j, hj⟩ := List.getElem?_of_mem ht
      exact hgr j t hj hta

/-- A data symbol (nm types b B d D r R v V W) is returned only for addresses inside
`[start, start+size)`. -/
theorem nmSearch_data_within_size (m : List Sym) (addr : Nat) (hs : SortedByAddr m) (i : Nat) (s : Sym)
    (h : addrInfo m addr = .ok (some i)) (hi : m[i]? = some s) (hd : s.isData = true) :
    s.address ≤ addr ∧ addr < add64 s.address s.size := by
  rcases addrInfo_cases m addr hs with ⟨_, h'⟩ | ⟨_, _, _, _, _, h'⟩ | ⟨_, _, r, s', _, _, _, _, hr, hle, _, h'⟩
  · rw [h'] at h; cases h
  · rw [h'] at h; cases h
  · by_cases hc : s'.isData = true ∧ addr ≥ add64 s'.address s'.size
    · rw [if_pos hc, h] at h'; cases h'
    · rw [if_neg hc, h] at h'
      cases h'
      rw [hr] at hi; cases hi
      refine ⟨hle, ?_⟩
      by_contra hge
      exact hc ⟨hd, by omega⟩

/-- Completeness: "no symbol" is answered only for an empty table, below the first start, at or
beyond the end of the last symbol, or when the symbol with the greatest start ≤ addr is a data
symbol that ends at or before the address. -/
theorem nmSearch_none_only_when_outside (m : List Sym) (addr : Nat) (hs : SortedByAddr m)
    (h : addrInfo m addr = .ok none) :
    m = [] ∨ (∃ f, m.head? = some f ∧ addr < f.address) ∨
    (∃ l, m.getLast? = some l ∧ addr ≥ add64 l.address l.size) ∨
    (∃ s ∈ m, s.isData = true ∧ s.address ≤ addr ∧ addr ≥ add64 s.address s.size ∧
      ∀ t ∈ m, t.address ≤ addr → t.address ≤ s.address) := by
  rcases addrInfo_cases m addr hs with ⟨h0, _⟩ | ⟨f, l, hf, hl, hor, _⟩ | ⟨_, _, r, s, _, _, _, _, hr, hle, hgr, h'⟩
  · exact Or.inl h0
  · rcases hor with h1 | h1
    · exact Or.inr (Or.inl ⟨f, hf, h1⟩)
    · exact Or.inr (Or.inr (Or.inl ⟨l, hl, h1⟩))
  · by_cases hc : s.isData = true ∧ addr ≥ add64 s.address s.size
    · refine Or.inr (Or.inr (Or.inr ⟨s, List.mem_of_getElem? hr, hc.1, hle, hc.2, ?_⟩))
      intro t ht hta
      obtain ⟨j, hj⟩ := List.getElem?_of_mem ht
      exact hgr j t hj hta
    · rw [if_neg hc, h] at h'; cases h'

/-- Inclusive-end rule: between two consecutive table entries every address of the half-open range
`[start, next start)` — its last byte `next start − 1` included — is owned by the group that starts
at `start`: the lookup succeeds and returns a symbol with exactly that start (function symbols;
the address lies below the end of the last symbol, the lookup's documented upper guard). -/
theorem nmSearch_owns_half_open_range (m : List Sym) (addr : Nat) (hs : SortedByAddr m)
    (j : Nat) (s nxt : Sym) (hj : m[j]? = some s) (hn : m[j + 1]? = some nxt)
    (h1 : s.address ≤ addr) (h2 : addr < nxt.address)
    (hlast : ∀ l, m.getLast? = some l → addr < add64 l.address l.size)
    (hfun : ∀ t ∈ m, t.address = s.address → t.isData = false) :
    ∃ i t, addrInfo m addr = .ok (some i) ∧ m[i]? = some t ∧ t.address = s.address := by
  have hsm : s ∈ m := List.mem_of_getElem? hj
  -- any table symbol with start ≤ addr that dominates all such starts sits at s's start
  have key : ∀ t ∈ m, t.address ≤ addr → (∀ u ∈ m, u.address ≤ addr → u.address ≤ t.address) →
      t.address = s.address := by
    intro t ht hta hgr
    have hge : s.address ≤ t.address := hgr s hsm h1
    obtain ⟨k, hk⟩ := List.getElem?_of_mem ht
    by_cases hkj : k ≤ j
    · have := sorted_idx m hs k j t s hkj hk hj
      omega
    · have := sorted_idx m hs (j + 1) k nxt t (by omega) hn hk
      omega
  rcases nmSearch_greatest_le m addr hs with hnone | ⟨i, t, hok, hi, hle, hgr⟩
  · exfalso
    rcases nmSearch_none_only_when_outside m addr hs hnone with h0 | ⟨f, hf, hlt⟩ | ⟨l, hl, hge⟩ | ⟨d, hd, hdata, hdle, _, hdgr⟩
    · subst h0; simp at hj
    · have hf0 : m[0]? = some f := by
        cases m with
        | nil => simp at hf
        | cons a l => simpa using hf
      have := sorted_idx m hs 0 j f s (Nat.zero_le _) hf0 hj
      omega
    · have := hlast l hl
      omega
    · have he := key d hd hdle hdgr
      have := hfun d hd he
      rw [this] at hdata
      cases hdata
  · exact ⟨i, t, hok, hi, key t (List.mem_of_getElem? hi) hle hgr⟩

-- the last byte before the next symbol, for a zero-size function followed by a gap
example : addrInfo [⟨0x1000, 0x20, false⟩, ⟨0x1040, 0, false⟩, ⟨0x2000, 8, false⟩] 0x1fff = .ok (some 1) := by decide

-- a sorted table with duplicate starts, a zero-size function and a data symbol; lookups inside,
-- between and beyond (indices into the table)
example :
    let m : List Sym := [⟨0x1000, 0x20, false⟩, ⟨0x1000, 0, false⟩, ⟨0x1040, 0, false⟩, ⟨0x2000, 8, true⟩, ⟨0x2010, 0x10, false⟩]
    SortedByAddr m ∧ addrInfo m 0x1030 = .ok (some 1) ∧ addrInfo m 0x1fff = .ok (some 2) ∧
    addrInfo m 0x2007 = .ok (some 3) ∧ addrInfo m 0x2008 = .ok none ∧ addrInfo m 0xfff = .ok none ∧
    addrInfo m 0x2020 = .ok none := by
  refine ⟨by unfold SortedByAddr; decide, ?_⟩; decide

end PV.Props.C13
