import PprofVerif.Model.CodecSchema
import PprofVerif.Gen.CodecSchema
/-!
# What the extractor must find in profile/encode.go (properties C01, C02)

The expectation is DERIVED from the schemas of `Model/CodecSchema.lean` — which
`Lemmas/CodecSchemaInterp.lean` proves to be exactly what `Model/Codec.lean` implements — by
rendering them into the vocabulary of `tools/extract/codecschema.go`.  Hand-written here are only
  * the names the extractor gives to statement/closure shapes (`encFn`, `decFn`),
  * the names of the Go `[]decoder` variables,
  * for the interning order: which Go expression feeds which string field of the model's profile
    (`internSites`, paired with the markers of the probe profile `probe`).
Core Lean only.
-/
namespace PV.Spec.CodecSchemaExpected
open PV PV.Codec PV.CodecSchema

/-- extractor name of an encoder statement kind -/
def encFn : EncKind → String
  | .int64Opt => "encodeInt64Opt"
  | .uint64Opt => "encodeUint64Opt"
  | .boolOpt => "encodeBoolOpt"
  | .int64 => "encodeInt64"
  | .int64s => "encodeInt64s"
  | .uint64s => "encodeUint64s"
  | .strings => "encodeStrings"
  | .messageLoop => "encodeMessage-in-loop"
  | .messageGuarded _ => "encodeMessage-guarded"

/-- the set of fields the guard of a guarded message tests for `!= 0` (the extractor sorts them) -/
def guardNonZero : EncKind → List String
  | .messageGuarded nz => nz
  | _ => []

def renderEnc (s : EncStmt) : Gen.CodecSchema.EncStmt :=
  { tag := s.tag, fn := encFn s.kind, field := s.field, guardNonZero := guardNonZero s.kind }

/-- extractor name of a decoder-closure shape -/
def decFn : DecKind → String
  | .skip => "nil"
  | .int64 => "decodeInt64"
  | .uint64 => "decodeUint64"
  | .bool => "decodeBool"
  | .int64s => "decodeInt64s"
  | .uint64s => "decodeUint64s"
  | .appendNew => "decodeMessage/append-new"
  | .appendNewSharedLines => "decodeMessage/append-new-shared-lines"
  | .appendValue => "decodeMessage/append-value"
  | .setNew => "decodeMessage/set-new"
  | .stringsFirstEmpty => "decodeStrings/first-must-be-empty"
  | .int64RejectIfSet => "decodeInt64/reject-if-set"

/-- the receiver type asserted by the closure (`m.(*T)`) is the message type itself; the nested
message type is the one the dictionary stores under that field -/
def renderDec {M : Type} (goName : String) (d : Dict M) (e : DecEntry) : Gen.CodecSchema.DecEntry :=
  { index := e.index, fn := decFn e.kind, recv := if e.kind = .skip then "" else goName,
    field := e.field, msg := msgNameOf d e.field }

def renderMsg {M : Type} (c : MsgCodec M) (decoderVar : String) (d : Dict M)
    (enc : List EncStmt) (dec : List DecEntry) : Gen.CodecSchema.Message :=
  { name := c.name, decoderVar := decoderVar, enc := enc.map renderEnc, dec := dec.map (renderDec c.name d) }

/-- the message types in the order of their `encode` methods in profile/encode.go -/
def expectedSchema : List Gen.CodecSchema.Message :=
  [ renderMsg ProfileX.codec "profileDecoder" ProfileX.dict ProfileX.encSchema ProfileX.decTable,
    renderMsg ValueTypeX.codec "valueTypeDecoder" ValueTypeX.dict ValueTypeX.encSchema ValueTypeX.decTable,
    renderMsg SampleX.codec "sampleDecoder" SampleX.dict SampleX.encSchema SampleX.decTable,
    renderMsg LabelX.codec "labelDecoder" LabelX.dict LabelX.encSchema LabelX.decTable,
    renderMsg MappingX.codec "mappingDecoder" MappingX.dict MappingX.encSchema MappingX.decTable,
    renderMsg LocationX.codec "locationDecoder" LocationX.dict LocationX.encSchema LocationX.decTable,
    renderMsg LineX.codec "lineDecoder" LineX.dict LineX.encSchema LineX.decTable,
    renderMsg FunctionX.codec "functionDecoder" FunctionX.dict FunctionX.encSchema FunctionX.decTable ]

/-- the decoder side of a message type: what parsing (C02) depends on -/
def decoderPart (m : Gen.CodecSchema.Message) : String × String × List Gen.CodecSchema.DecEntry :=
  (m.name, m.decoderVar, m.dec)

/-- position of every table entry = its index (Go indexes the table by the field number) -/
def indexesArePositions (m : Gen.CodecSchema.Message) : Bool :=
  m.dec.map (·.index) == List.range m.dec.length

/-! ### the order in which preEncode interns strings

`probe` is a profile of the model in which every string field carries its own one-byte marker.
`internSites` pairs each `addString` call of the Go source (as the extractor describes it: symbolic
paths of the enclosing loops/conditions and of the argument, no local names) with the marker of the model field it feeds.  The model's order is then
READ OFF `Codec.preEncode probe` (theorem `intern_order_model` in Props), not typed in.  The
mandatory empty string at index 0 (`addString(strings, "")` first, in preEncode or in the function
that creates the table) is a fact of its own, `Gen.emptyStringInternedFirst`, not a site. -/

def probe : Profile :=
  { sampleType := [{ typ := [1], unit := [2] }],
    defaultSampleType := [17],
    samples := [{ locationIDs := [], values := [0],
                  label := [([3], [[4]])], numLabel := [([5], [7])], numUnit := [([5], [[6]])] }],
    mappings := [{ id := 1, start := 0, limit := 0, offset := 0, file := [7], buildID := [8],
                   hasFunctions := false, hasFilenames := false, hasLineNumbers := false,
                   hasInlineFrames := false }],
    locations := [],
    functions := [{ id := 1, name := [9], systemName := [10], filename := [11], startLine := 0 }],
    comments := [[16]],
    docURL := [18],
    dropFrames := [12],
    keepFrames := [13],
    timeNanos := 0, durationNanos := 0,
    periodType := some { typ := [14], unit := [15] },
    period := 0 }

structure InternSite where
  ctx : List String  -- symbolic paths of the enclosing loops / conditions, outermost first
  arg : String       -- symbolic path of the interned expression
  marker : Str       -- the marker the probe carries in the model field this expression feeds
  deriving DecidableEq, Repr

/-- `E[]` = the element of a loop over `E`; `idx(E)` = the index of that loop; `sorted(keys(M))` = the
key list collected from map `M` and sorted. -/
def internSites : List InternSite :=
  let labelKeys := "sorted(keys(p.Sample[].Label))"
  let numKeys := "sorted(keys(p.Sample[].NumLabel))"
  let labelVals := "p.Sample[].Label[" ++ labelKeys ++ "[]]"
  let numVals := "p.Sample[].NumLabel[" ++ numKeys ++ "[]]"
  let numUnits := "p.Sample[].NumUnit[" ++ numKeys ++ "[]]"
  [ ⟨["range p.SampleType"], "p.SampleType[].Type", [1]⟩,
    ⟨["range p.SampleType"], "p.SampleType[].Unit", [2]⟩,
    -- per sample: string labels by sorted key, key then value for every value
    ⟨["range p.Sample", "range " ++ labelKeys, "range " ++ labelVals], labelKeys ++ "[]", [3]⟩,
    ⟨["range p.Sample", "range " ++ labelKeys, "range " ++ labelVals], labelVals ++ "[]", [4]⟩,
    -- then numeric labels by sorted key: the key once, then the unit of every value when units exist
    ⟨["range p.Sample", "range " ++ numKeys], numKeys ++ "[]", [5]⟩,
    ⟨["range p.Sample", "range " ++ numKeys, "range " ++ numVals, "if len(" ++ numUnits ++ ") != 0"],
      numUnits ++ "[idx(" ++ numVals ++ ")]", [6]⟩,
    ⟨["range p.Mapping"], "p.Mapping[].File", [7]⟩,
    ⟨["range p.Mapping"], "p.Mapping[].BuildID", [8]⟩,
    ⟨["range p.Function"], "p.Function[].Name", [9]⟩,
    ⟨["range p.Function"], "p.Function[].SystemName", [10]⟩,
    ⟨["range p.Function"], "p.Function[].Filename", [11]⟩,
    ⟨[], "p.DropFrames", [12]⟩,
    ⟨[], "p.KeepFrames", [13]⟩,
    ⟨["if p.PeriodType != nil"], "p.PeriodType.Type", [14]⟩,
    ⟨["if p.PeriodType != nil"], "p.PeriodType.Unit", [15]⟩,
    ⟨["range p.Comments"], "p.Comments[]", [16]⟩,
    ⟨[], "p.DefaultSampleType", [17]⟩,
    ⟨[], "p.DocURL", [18]⟩ ]

def expectedInternOrder : List Gen.CodecSchema.InternSite :=
  internSites.map fun s => { ctx := s.ctx, arg := s.arg }

/-- the string table `preEncode` builds for a profile (`none` when it panics) -/
def internTable (p : Profile) : Option (List Str) :=
  match preEncode p with
  | .ok x => some x.stringTable
  | _ => none

/-! ### dense id tables of postDecode: at most one per entity table (an entity table may also be
resolved through the map alone), each `len+extra` long, no index expression outside its
`id < uint64(len(table))` guard (recognised inline or behind a helper type) -/
def denseTableOK (extra : Nat) (d : Gen.CodecSchema.DenseTable) : Bool :=
  d.elem == d.table && ["Mapping", "Function", "Location"].contains d.table &&
  d.extra == extra && d.unguardedIndexes == 0

end PV.Spec.CodecSchemaExpected
