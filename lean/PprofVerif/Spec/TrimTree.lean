import PprofVerif.Spec.Graph
/-
Specification of a TRIMMED CALL TREE (property C05, `Graph.TrimTree`).  Core Lean only.

A call-tree node is its path from the root (`Spec/Graph.lean`, `treeSample`).  Trimming removes some
of the listed nodes; every surviving node is re-attached to its nearest ancestor that was not
removed, the edge keeps the weight it had when it came from the node's own parent (= the Σ over the
samples that pass through the node) and is marked residual iff at least one removed node was
bypassed.  A node all of whose ancestors were removed becomes a root.
-/
namespace PV.GSpec
variable {κ : Type} [DecidableEq κ]

/-- the proper, non-empty prefixes of a path, longest first: the ancestors of the call-tree node
`b`, nearest first. -/
def ancestors (b : List κ) : List (List κ) := (prefixes b).reverse.tail

/-- the nearest ancestor that has not been removed. -/
def nearestKept (removed : List κ → Bool) (b : List κ) : Option (List κ) :=
  (ancestors b).find? (fun a => !removed a)

/-- the edge `a → b` of the trimmed call tree: `none` = absent, `some (weight, residual)`. -/
def trimEdgeSpec (removed : List κ → Bool) (ss : List (GSample κ)) (a b : List κ) : Option (WD × Bool) :=
  if removed b then none
  else if edgeExists (ss.map treeSample) b.dropLast b && (nearestKept removed b == some a) then
    some (edgeSpec (ss.map treeSample) b.dropLast b, decide (a ≠ b.dropLast))
  else none

end PV.GSpec
