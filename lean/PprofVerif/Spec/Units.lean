import PprofVerif.Base.Basic
/-!
# Spec: what pprof's unit names MEAN (property C15)

Hand-written and independent of /repo: the dictionary of unit names a user may write, the
physical size of each unit relative to the reference unit of its family (bytes: 1 kB = 2^10 B …
1 PB = 2^50 B; time: 1 us = 10^3 ns … 1 hour = 3.6·10^12 ns; GCU: decimal SI prefixes), the name
each unit is printed with, and the spelling rule ("aliases, plural forms, upper/lower case").
The regenerated table `Gen/Units.lean` is compared with this dictionary by the table fact
`table_refines_spec` (Props/C15.lean) and the Go harness takes the meaning of a unit string for
its direct oracle from here (driver op `c15.spec`), so a table whose numbers or families were
changed cannot vouch for itself.  Core Lean only.  Strings are Go strings (UTF-8 byte lists); the
readable form is in the comment above each entry.
-/
namespace PV.Spec.Units
open PV

structure SUnit where
  /-- the name pprof prints for the unit -/
  display : Str
  /-- the lower-case names a user may write for it -/
  names : List Str
  /-- size of the unit relative to the reference unit of its family: `num/den` -/
  num : Int
  den : Nat
  deriving DecidableEq, Repr

structure SFamily where
  label : String
  /-- printed name of the unit used when the requested target unit is not of this family -/
  default : Str
  units : List SUnit
  deriving Repr

def spec : List SFamily := [
  { label := "memory", default := [66],  -- printed in "B" when the target unit is not of this family
    units := [
      /- "B" : "b", "byte"  =  1/1 -/
      { display := [66], names := [[98], [98, 121, 116, 101]], num := 1, den := 1 },
      /- "kB" : "kb", "kbyte", "kilobyte"  =  1024/1 -/
      { display := [107, 66], names := [[107, 98], [107, 98, 121, 116, 101], [107, 105, 108, 111, 98, 121, 116, 101]], num := 1024, den := 1 },
      /- "MB" : "mb", "mbyte", "megabyte"  =  1048576/1 -/
      { display := [77, 66], names := [[109, 98], [109, 98, 121, 116, 101], [109, 101, 103, 97, 98, 121, 116, 101]], num := 1048576, den := 1 },
      /- "GB" : "gb", "gbyte", "gigabyte"  =  1073741824/1 -/
      { display := [71, 66], names := [[103, 98], [103, 98, 121, 116, 101], [103, 105, 103, 97, 98, 121, 116, 101]], num := 1073741824, den := 1 },
      /- "TB" : "tb", "tbyte", "terabyte"  =  1099511627776/1 -/
      { display := [84, 66], names := [[116, 98], [116, 98, 121, 116, 101], [116, 101, 114, 97, 98, 121, 116, 101]], num := 1099511627776, den := 1 },
      /- "PB" : "pb", "pbyte", "petabyte"  =  1125899906842624/1 -/
      { display := [80, 66], names := [[112, 98], [112, 98, 121, 116, 101], [112, 101, 116, 97, 98, 121, 116, 101]], num := 1125899906842624, den := 1 }
    ] },
  { label := "time", default := [115],  -- printed in "s" when the target unit is not of this family
    units := [
      /- "ns" : "ns", "nanosecond"  =  1/1 -/
      { display := [110, 115], names := [[110, 115], [110, 97, 110, 111, 115, 101, 99, 111, 110, 100]], num := 1, den := 1 },
      /- "us" : "μs", "us", "microsecond"  =  1000/1 -/
      { display := [117, 115], names := [[206, 188, 115], [117, 115], [109, 105, 99, 114, 111, 115, 101, 99, 111, 110, 100]], num := 1000, den := 1 },
      /- "ms" : "ms", "millisecond"  =  1000000/1 -/
      { display := [109, 115], names := [[109, 115], [109, 105, 108, 108, 105, 115, 101, 99, 111, 110, 100]], num := 1000000, den := 1 },
      /- "s" : "s", "sec", "second"  =  1000000000/1 -/
      { display := [115], names := [[115], [115, 101, 99], [115, 101, 99, 111, 110, 100]], num := 1000000000, den := 1 },
      /- "hrs" : "hour", "hr"  =  3600000000000/1 -/
      { display := [104, 114, 115], names := [[104, 111, 117, 114], [104, 114]], num := 3600000000000, den := 1 }
    ] },
  { label := "GCU", default := [71, 67, 85],  -- printed in "GCU" when the target unit is not of this family
    units := [
      /- "n*GCU" : "nanogcu"  =  1/1000000000 -/
      { display := [110, 42, 71, 67, 85], names := [[110, 97, 110, 111, 103, 99, 117]], num := 1, den := 1000000000 },
      /- "u*GCU" : "microgcu"  =  1/1000000 -/
      { display := [117, 42, 71, 67, 85], names := [[109, 105, 99, 114, 111, 103, 99, 117]], num := 1, den := 1000000 },
      /- "m*GCU" : "milligcu"  =  1/1000 -/
      { display := [109, 42, 71, 67, 85], names := [[109, 105, 108, 108, 105, 103, 99, 117]], num := 1, den := 1000 },
      /- "GCU" : "gcu"  =  1/1 -/
      { display := [71, 67, 85], names := [[103, 99, 117]], num := 1, den := 1 },
      /- "k*GCU" : "kilogcu"  =  1000/1 -/
      { display := [107, 42, 71, 67, 85], names := [[107, 105, 108, 111, 103, 99, 117]], num := 1000, den := 1 },
      /- "M*GCU" : "megagcu"  =  1000000/1 -/
      { display := [77, 42, 71, 67, 85], names := [[109, 101, 103, 97, 103, 99, 117]], num := 1000000, den := 1 },
      /- "G*GCU" : "gigagcu"  =  1000000000/1 -/
      { display := [71, 42, 71, 67, 85], names := [[103, 105, 103, 97, 103, 99, 117]], num := 1000000000, den := 1 },
      /- "T*GCU" : "teragcu"  =  1000000000000/1 -/
      { display := [84, 42, 71, 67, 85], names := [[116, 101, 114, 97, 103, 99, 117]], num := 1000000000000, den := 1 },
      /- "P*GCU" : "petagcu"  =  1000000000000000/1 -/
      { display := [80, 42, 71, 67, 85], names := [[112, 101, 116, 97, 103, 99, 117]], num := 1000000000000000, den := 1 }
    ] }
]

/-- ASCII lower-casing (unit names are compared case-insensitively) -/
def lower (s : Str) : Str := s.map fun b => if 65 ≤ b ∧ b ≤ 90 then b + 32 else b

/-- `s` is a spelling of the name `n`: the name itself or, for names of at least two bytes, its
plural `n ++ "s"`, in any mix of upper and lower case. -/
def spells (s n : Str) : Bool :=
  lower s == n || (decide (2 ≤ n.length) && lower s == n ++ [115])

/-- the unit (family index, unit) a string denotes, if any: the name it is printed with, exactly
(pprof's reports hand their chosen unit back as a target; "m*GCU" and "M*GCU" differ in case
only), or a spelling of one of its names.  `l` is the lower-cased form of `s` (the harness passes
Go's `strings.ToLower`, which also knows non-ASCII letters). -/
def recognise2 (s l : Str) : Option (Nat × SUnit) :=
  match (spec.zipIdx).findSome? fun (F, i) => (F.units.find? fun u => u.display == s).map fun u => (i, u) with
  | some r => some r
  | none =>
    (spec.zipIdx).findSome? fun (F, i) =>
      (F.units.find? fun u => u.names.any (spells l)).map fun u => (i, u)

def recognise (s : Str) : Option (Nat × SUnit) := recognise2 s (lower s)

/-- the target strings that ask for automatic unit selection -/
def autoTargets : List Str := [[97, 117, 116, 111] /- "auto" -/, [109, 105, 110, 105, 109, 117, 109] /- "minimum" -/]

end PV.Spec.Units
