import PprofVerif.Model.Prune
import PprofVerif.Spec.Filter
/-
Specification of the frame-dropping rules at FRAME level (DESIGN.md §3 C11 "Reading").  Core only.
Frames, stacks and views are those of Spec/Filter.lean (`FilterSpec.frames`, leaf first; a
location without line information is one frame without a function, which never matches).
A frame *matches* when its function has a non-empty name whose simplified form fully matches
drop_frames and not keep_frames (`q`).
-/
namespace PV.PruneSpec
open PV.Prune PV.FilterSpec

def frameMatches (p : Profile) (q : Str → Bool) (fr : Frame) : Bool :=
  match fr.line with
  | some ln => lineMatches p q ln
  | none => false

/-- drop_frames/keep_frames on one stack given ROOT first: keep the leading matching frames (no
user frame seen yet) and the run of non-matching frames that follows; the first matching frame
after a non-matching one goes, with everything on its leaf side. -/
def keepRootSide {α} (m : α → Bool) (rootFirst : List α) : List α :=
  rootFirst.takeWhile m ++ (rootFirst.dropWhile m).takeWhile (fun x => !m x)

/-- the same on a leaf-first stack. -/
def pruneFrames {α} (m : α → Bool) (leafFirst : List α) : List α :=
  (keepRootSide m leafFirst.reverse).reverse

def pruneSpec (p : Profile) (q : Str → Bool) : List View :=
  p.samples.map (fun s => specView s (pruneFrames (frameMatches p q) (frames p s)))

/-- prune_from on a leaf-first stack: keep from the leaf-most matching frame rootwards;
no match, no change. -/
def pruneFromFrames {α} (m : α → Bool) (leafFirst : List α) : List α :=
  match fromFirst m leafFirst with
  | some r => r
  | none => leafFirst

def pruneFromSpec (p : Profile) (q : Str → Bool) : List View :=
  p.samples.map (fun s => specView s (pruneFromFrames (frameMatches p q) (frames p s)))

end PV.PruneSpec
