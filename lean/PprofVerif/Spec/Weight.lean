import PprofVerif.Model.MergeResolve
/-
Specification side of C03 (DESIGN §2: `abs : Profile → (StackKey → ValueVec)`).

What a call stack *is*, independent of ids and table positions:
  frame  = binary identity (build-id-or-file, 4 KiB-rounded size, file offset) of its mapping,
           address relative to the mapping start, the inline chain of
           (function name, system name, file, start line; line; column), folded flag;
  sample = list of frames (leaf first) + string labels + numeric labels with their units.
`weight p k` is the element-wise (int64) sum of the value vectors of the samples of `p` whose
stack key is `k`.  C03 is `weight (merge ps) k = Σ_p weight p k` (`Props/C03.lean`).
Core Lean only: the driver evaluates these definitions to produce the expected weight table.
-/
namespace PV
namespace Spec
open PV.Merge

structure FuncIdent where
  name : Str
  systemName : Str
  filename : Str
  startLine : Int
  deriving Repr, DecidableEq

/-- identity of the mapped binary — deliberately *not* its load address (ASLR), id, or flags. -/
structure MapIdent where
  buildIDOrFile : Str
  size : Nat       -- Limit − Start rounded up to 4 KiB (uint64 arithmetic)
  offset : Nat
  deriving Repr, DecidableEq

structure LineIdent where
  fn : Option FuncIdent
  line : Int
  column : Int
  deriving Repr, DecidableEq

structure FrameIdent where
  mapping : Option MapIdent
  relAddr : Nat    -- Address − Mapping.Start (uint64); the raw address when there is no mapping
  lines : List LineIdent   -- inline nesting, innermost first
  folded : Bool
  deriving Repr, DecidableEq

structure StackKey where
  frames : List FrameIdent
  label : List (Str × List Str)
  numLabel : List (Str × (List Int × List Str))   -- key ↦ (values, units); no units = []
  deriving Repr, DecidableEq

def funcIdent (f : Function) : FuncIdent :=
  { name := f.name, systemName := f.systemName, filename := f.filename, startLine := f.startLine }

def mapIdent (m : Mapping) : MapIdent :=
  let t := addU64 (subU64 m.limit m.start) 4095
  { buildIDOrFile := if m.buildID = [] then m.file else m.buildID,
    size := t - t % 4096,
    offset := m.offset }

def lineIdent (ln : RLine) : LineIdent :=
  { fn := ln.fn.map funcIdent, line := ln.line, column := ln.column }

def frameIdent (l : RLocation) : FrameIdent :=
  { mapping := l.mapping.map mapIdent,
    relAddr := match l.mapping with
      | none => l.address
      | some m => subU64 l.address m.start,
    lines := l.lines.map lineIdent,
    folded := l.isFolded }

/-- numeric labels, each with its units (`NumUnit[k]`; a key without units has `[]`). -/
def numLabelIdent (s : RSample) : List (Str × (List Int × List Str)) :=
  s.numLabel.map fun kv => (kv.1, (kv.2, unitsOf s.numUnit kv.1))

def stackKey (s : RSample) : StackKey :=
  { frames := s.locs.map frameIdent, label := s.label, numLabel := numLabelIdent s }

/-! ### value vectors -/
def zeroV (n : Nat) : List Int := List.replicate n 0
/-- element-wise int64 addition -/
def addV (a b : List Int) : List Int := List.zipWith (fun x y => wrapI64 (x + y)) a b
def sumV (n : Nat) (vs : List (List Int)) : List Int := vs.foldl addV (zeroV n)

/-- weight of stack `k` in a list of resolved samples with `n` sample types. -/
def weightR (n : Nat) (rs : List RSample) (k : StackKey) : List Int :=
  sumV n ((rs.filter fun s => stackKey s = k).map (·.values))

/-- number of samples of `rs` carrying stack `k`. -/
def countR (rs : List RSample) (k : StackKey) : Nat :=
  (rs.filter fun s => stackKey s = k).length

/-- **the weight function of a profile**. -/
def weight (p : Profile) (k : StackKey) : List Int :=
  match resolve p with
  | none => []
  | some rs => weightR p.sampleType.length rs k

/-- what the merge of `ps` must weigh at `k`: the element-wise sum over the inputs. -/
def mergedWeight (ps : List Profile) (k : StackKey) : List Int :=
  match ps with
  | [] => []
  | p :: _ => sumV p.sampleType.length (ps.map (weight · k))

def isZeroV (v : List Int) : Bool := v.all (· == 0)

/-- per-sample-type totals of a profile (element-wise int64 sum over all samples). -/
def totals (p : Profile) : List Int := sumV p.sampleType.length (p.samples.map (·.values))

/-! ### header rules (documented on `profile.Merge`) -/

/-- earliest non-zero time; 0 when every input says 0. -/
def earliestNonZero (ts : List Int) : Int :=
  match ts.filter (· ≠ 0) with
  | [] => 0
  | t :: r => r.foldl min t

def maxPeriod (ps : List Int) : Int := ps.foldl max 0

def sumI64 (ds : List Int) : Int := ds.foldl (fun a d => wrapI64 (a + d)) 0

/-- de-duplicated union in order of first appearance. -/
def dedupInOrder : List Str → List Str
  | [] => []
  | c :: cs => c :: (dedupInOrder cs).filter (· ≠ c)

def firstNonEmpty : List Str → Str
  | [] => []
  | s :: r => if s = [] then firstNonEmpty r else s

structure Header where
  sampleType : List ValueType
  periodType : Option ValueType
  dropFrames : Str
  keepFrames : Str
  timeNanos : Int
  durationNanos : Int
  period : Int
  comments : List Str
  defaultSampleType : Str
  docURL : Str
  deriving Repr, DecidableEq

def headerOf (p : Profile) : Header :=
  { sampleType := p.sampleType, periodType := p.periodType, dropFrames := p.dropFrames,
    keepFrames := p.keepFrames, timeNanos := p.timeNanos, durationNanos := p.durationNanos,
    period := p.period, comments := p.comments, defaultSampleType := p.defaultSampleType,
    docURL := p.docURL }

/-- the documented header of `Merge (first :: rest)`. -/
def combineHeadersSpec (first : Profile) (rest : List Profile) : Header :=
  let ps := first :: rest
  { sampleType := first.sampleType, periodType := first.periodType,
    dropFrames := first.dropFrames, keepFrames := first.keepFrames,
    timeNanos := earliestNonZero (ps.map (·.timeNanos)),
    durationNanos := sumI64 (ps.map (·.durationNanos)),
    period := maxPeriod (ps.map (·.period)),
    comments := dedupInOrder (ps.flatMap (·.comments)),
    defaultSampleType := firstNonEmpty (ps.map (·.defaultSampleType)),
    docURL := firstNonEmpty (ps.map (·.docURL)) }

/-- profiles that `Merge` accepts together: same period type (present) and sample types. -/
def compatibleB (a b : Profile) : Bool :=
  (match a.periodType, b.periodType with
    | some x, some y => x.typ == y.typ && x.unit == y.unit
    | _, _ => false) &&
  a.sampleType.length == b.sampleType.length &&
  (List.zipWith (fun (x y : ValueType) => x.typ == y.typ && x.unit == y.unit) a.sampleType b.sampleType).all id

end Spec
end PV
