import PprofVerif.Model.Stacks
/-
Specification side of C17: what "the sample's frames from caller to callee with inlined frames
expanded and flagged", "the stacks a source terminates" and "every stack containing it exactly
once, at its outermost occurrence" MEAN, written without reference to the loops of stacks.go.
Core Lean only (the harness asks these through `pvdrv-C17`).
-/
namespace PV.Stacks.Spec
open PV PV.Stacks

/-- The lines of a location are stored leaf-most first: `Line[0]` is the innermost inlined
callee, the last line is the function the address really belongs to.  Every line but the last
was inlined into its caller. -/
def flagLines : List Line → List (Line × Bool)
  | [] => []
  | [l] => [(l, false)]
  | l :: l' :: r => (l, true) :: flagLines (l' :: r)

def mkFrame (fn : Function) (ln : Line) (inl : Bool) : Frame :=
  { name := fn.name, file := fn.filename, fnID := fn.id, line := ln.line, column := ln.column,
    inlined := inl }

def optMap {α β : Type} (f : α → Option β) : List α → Option (List β)
  | [] => some []
  | a :: r => match f a, optMap f r with
    | some b, some bs => some (b :: bs)
    | _, _ => none

/-- frames of one location, callee first; `none` if a line has no (resolvable) Function. -/
def locFramesLeafFirst (p : Profile) (loc : Location) : Option (List Frame) :=
  optMap (fun (x : Line × Bool) => (p.findFunction x.1.functionID).map (mkFrame · x.1 x.2))
    (flagLines loc.lines)

/-- The sample's frames from caller to callee: its locations are stored leaf first, each expands
to its lines; the whole leaf-first sequence is reversed.  A location without line information
contributes no frame.  `none` if a location or function reference does not resolve. -/
def sampleFrames (p : Profile) (s : Sample) : Option (List Frame) :=
  (optMap (fun id => (p.findLocation id).bind (locFramesLeafFirst p)) s.locationIDs).map
    (fun fss => fss.flatten.reverse)

/-- the selected value and the frames of one sample. -/
def resolveOne (p : Profile) (idx : Nat) (s : Sample) : Option (Int × List Frame) :=
  match s.values[idx]?, sampleFrames p s with
  | some v, some fs => some (v, fs)
  | _, _ => none

/-- per sample: the selected value and the frames. -/
def resolve (p : Profile) (idx : Nat) : Option (List (Int × List Frame)) :=
  optMap (resolveOne p idx) p.samples

/-- position of the first (outermost) occurrence of `i` in a stack. -/
def firstIdx (i : Nat) : List Nat → Option Nat
  | [] => none
  | x :: r => if x = i then some 0 else (firstIdx i r).map (· + 1)

/-- The place index a source must have: going through the stacks `a, a+1, …` in order, one entry
`(stack, position)` for every stack that contains the source, at its first occurrence. -/
def placesFrom (i : Nat) : Nat → List (List Nat) → List (Nat × Nat)
  | _, [] => []
  | a, l :: r =>
    match firstIdx i l with
    | some b => (a, b) :: placesFrom i (a+1) r
    | none => placesFrom i (a+1) r

def placesOf (stacks : List Stack) (i : Nat) : List (Nat × Nat) :=
  placesFrom i 0 (stacks.map (·.sources.elems))

/-- Sum of the values of the stacks whose last source is `i`. -/
def selfOf (stacks : List Stack) (i : Nat) : Int :=
  ((stacks.filter (fun st => st.sources.elems.getLast? == some i)).map (·.value)).sum

end PV.Stacks.Spec
