import PprofVerif.Model.Filter
/-
Specification of the sample filters at FRAME level (DESIGN.md §3 C06 "Reading").  Core only.

A sample's stack is a list of *frames*, leaf first: every `Line` of every location is a frame;
a location without line information (unsymbolized) stands for exactly one frame that has no
function and can be matched only through the binary (mapping file) it belongs to.  A frame
*matches* an expression when its function name or source file matches, or the file name of the
binary of its location matches.
-/
namespace PV.FilterSpec
open PV.Filter

structure Frame where
  locID : Nat
  mappingID : Nat
  line : Option Line
  deriving DecidableEq, Repr

def locFrames (l : Location) : List Frame :=
  if l.lines.isEmpty then [⟨l.id, l.mappingID, none⟩]
  else l.lines.map (fun ln => ⟨l.id, l.mappingID, some ln⟩)

def locFramesOf (p : Profile) (id : Nat) : List Frame :=
  match p.findLocation id with
  | some l => locFrames l
  | none => []

/-- the stack of a sample, leaf first. -/
def frames (p : Profile) (s : Sample) : List Frame := s.locationIDs.flatMap (locFramesOf p)

def frameMatches (p : Profile) (re : Rx) (fr : Frame) : Bool :=
  (match fr.line with | some ln => lineMatches p re ln | none => false) ||
  (match p.findMapping fr.mappingID with | some m => re m.file | none => false)

/-- what a frame-removing option leaves visible. -/
def visible (p : Profile) (hide show_ : Option Rx) (fr : Frame) : Bool :=
  (match hide with | some re => !frameMatches p re fr | none => true) &&
  (match show_ with | some re => frameMatches p re fr | none => true)

def hasMatch (p : Profile) (re : Rx) (s : Sample) : Bool := (frames p s).any (frameMatches p re)

/-- focus keeps the samples with a matching frame, ignore drops them. -/
def nameKeeps (p : Profile) (focus ignore : Option Rx) (s : Sample) : Bool :=
  (match focus with | some re => hasMatch p re s | none => true) &&
  (match ignore with | some re => !hasMatch p re s | none => true)

/-- some frame of some location of the profile's table is made invisible *together with its
whole location* (the only situation in which the code rebuilds location lists). -/
def someLocationHidden (p : Profile) (hide show_ : Option Rx) : Bool :=
  p.locations.any (fun l => (locFrames l).all (fun fr => !visible p hide show_ fr))

/-- The frames the filtered sample must consist of, `none` when the sample must disappear.
A sample that had frames disappears exactly when focus/ignore reject it or no frame stays visible.
(A sample that never had frames is kept when no focus is given and nothing had to be removed
from any stack; the property allows either outcome for it once hide/show are in play.) -/
def nameSpecSample (p : Profile) (focus ignore hide show_ : Option Rx) (s : Sample) :
    Option (List Frame) :=
  if nameKeeps p focus ignore s then
    let fs := (frames p s).filter (visible p hide show_)
    if fs.isEmpty then
      (if s.locationIDs.isEmpty && !someLocationHidden p hide show_ then some [] else none)
    else some fs
  else none

/-- show_from: keep the frames from the leaf up to and including the root-most matching frame;
the sample disappears when no frame matches. -/
def showFromSpecSample (p : Profile) (re : Rx) (s : Sample) : Option (List Frame) :=
  keepThroughLast (frameMatches p re) (frames p s)

/-- A kept sample as the property sees it: values, labels and its frames. -/
structure View where
  values : List Int
  label : List (Str × List Str)
  numLabel : List (Str × List Int)
  numUnit : List (Str × List Str)
  frames : List Frame
  deriving DecidableEq, Repr

def view (p : Profile) (s : Sample) : View :=
  { values := s.values, label := s.label, numLabel := s.numLabel, numUnit := s.numUnit,
    frames := frames p s }

def specView (s : Sample) (fs : List Frame) : View :=
  { values := s.values, label := s.label, numLabel := s.numLabel, numUnit := s.numUnit, frames := fs }

/-- specification of the whole name filter: the views of the result, in order. -/
def nameSpec (p : Profile) (focus ignore hide show_ : Option Rx) : List View :=
  if focus.isNone && ignore.isNone && hide.isNone && show_.isNone then p.samples.map (view p)
  else p.samples.filterMap (fun s => (nameSpecSample p focus ignore hide show_ s).map (specView s))

def showFromSpec (p : Profile) (sf : Option Rx) : List View :=
  match sf with
  | none => p.samples.map (view p)
  | some re => p.samples.filterMap (fun s => (showFromSpecSample p re s).map (specView s))

/-- tagshow/taghide: a label (string or numeric) stays iff its key matches tagshow (if given)
and does not match taghide (if given); nothing else changes. -/
def keepsKey (show_ hide : Option Rx) (k : Str) : Bool :=
  (match show_ with | some re => re k | none => true) &&
  (match hide with | some re => !re k | none => true)

def tagsSpecView (p : Profile) (show_ hide : Option Rx) (s : Sample) : View :=
  { values := s.values
    label := s.label.filter (fun kv => keepsKey show_ hide kv.1)
    numLabel := s.numLabel.filter (fun kv => keepsKey show_ hide kv.1)
    numUnit := s.numUnit
    frames := frames p s }

/-- tagfocus/tagignore on already compiled label predicates. -/
def tagSpec (p : Profile) (focus ignore : Option TagMatch) : List View :=
  (p.samples.filter (fun s => tagFocused focus s && !tagIgnored ignore s)).map (view p)

/-- column totals of a list of views. -/
def total (i : Nat) (vs : List View) : Int := (vs.map (fun v => v.values.getD i 0)).sum

end PV.FilterSpec
