import PprofVerif.Model.Elf
/-!
# Specification side of C13: how the system loader maps an ELF segment

`LoaderLayout page seg B v0 v1 m` says: the runtime mapping `m` (start, limit, file offset — what
/proc/pid/maps or a perf MMAP record reports) is a piece of the *file-backed image* of the
loadable segment `seg` of an object loaded at load bias `B` by a loader whose page size is `page`:

* the linker guarantees `Off ≡ Vaddr (mod page)` and the segment has file content;
* the loader maps the pages `[pageStart Vaddr, pageAlign (Vaddr+Filesz))` of the image at
  `B + …` with file offset `Off − (Vaddr mod page)` (Linux `elf_map`); `mprotect`/partial
  reporting can split that range at page boundaries, so a mapping is any page-aligned
  sub-range `[v0, v1)` of it, carrying the file offset `Off + (v0 − Vaddr)`;
* nothing wraps around (file offsets and user addresses are far below `2^64`).

It is a conjunction of decidable arithmetic facts, hence decidable; the `example`s instantiate it
with program headers of real binaries (`readelf -lW`).  Core Lean only.
-/
namespace PV.Elf

def pageStart (page v : Nat) : Nat := v - v % page
def pageAlign (page v : Nat) : Nat := (v + page - 1) / page * page

def LoaderLayout (page : Nat) (seg : ProgHeader) (B v0 v1 : Nat) (m : Mapping) : Prop :=
  0 < page ∧ seg.ptype = ptLoad ∧ 0 < seg.filesz ∧ seg.filesz ≤ seg.memsz ∧
  seg.off % page = seg.vaddr % page ∧
  B % page = 0 ∧ v0 % page = 0 ∧ v1 % page = 0 ∧
  pageStart page seg.vaddr ≤ v0 ∧ v0 < v1 ∧ v1 ≤ pageAlign page (seg.vaddr + seg.filesz) ∧
  seg.off + seg.memsz + page < two64 ∧ B + seg.vaddr + seg.memsz + page < two64 ∧
  m.start = B + v0 ∧ m.limit = B + v1 ∧ m.offset + seg.vaddr = seg.off + v0

instance (page : Nat) (seg : ProgHeader) (B v0 v1 : Nat) (m : Mapping) :
    Decidable (LoaderLayout page seg B v0 v1 m) := by
  unfold LoaderLayout; infer_instance

def layoutB (page : Nat) (seg : ProgHeader) (B v0 v1 : Nat) (m : Mapping) : Bool :=
  decide (LoaderLayout page seg B v0 v1 m)

/-- A user-space mapping as `findProgramHeader` recognises it: no kernel relocation symbol and
the range lies in the lower half of the address space (and is not at address 0). -/
def UserMapping (m : Mapping) : Prop :=
  m.kernelOffset = none ∧ 0 < m.start ∧ m.limit < two63

/-- `x` is an address of segment `seg` (loaded at bias `B`) that lies inside mapping `m`. -/
def InSegment (seg : ProgHeader) (B : Nat) (m : Mapping) (x : Nat) : Prop :=
  m.start ≤ x ∧ x < m.limit ∧ B + seg.vaddr ≤ x ∧ x < B + seg.vaddr + seg.memsz

/-- The first kernel heuristic of `kernelBase` (`Vaddr == start-offset`) cannot tell a kernel
mapping from an `ET_DYN` user mapping whose load bias equals the file offset of the owning
segment; it then returns the mapping's file offset as the base.  Harmless when the mapping starts
exactly at the segment (`v0 = Vaddr`, the offset *is* the bias), wrong otherwise
(finding `C13/base/dyn-bias-equals-segment-offset`). -/
def KernelLookalike (ty : Nat) (seg : ProgHeader) (B v0 : Nat) : Prop :=
  ty = etDyn ∧ B = seg.off ∧ v0 ≠ seg.vaddr

instance (m : Mapping) : Decidable (UserMapping m) := by unfold UserMapping; infer_instance
instance (seg : ProgHeader) (B : Nat) (m : Mapping) (x : Nat) : Decidable (InSegment seg B m x) := by
  unfold InSegment; infer_instance
instance (ty : Nat) (seg : ProgHeader) (B v0 : Nat) : Decidable (KernelLookalike ty seg B v0) := by
  unfold KernelLookalike; infer_instance

/-- Exactly one loadable header with file content contains the file offset `fo` in its
`[Off, Off+Memsz)` range, and it is `seg`: the owning segment *can* be identified uniquely.
(When an earlier segment has bss, or the binary is stripped, two headers may claim an offset.) -/
def OnlyOwner (f : File) (fo : Nat) (seg : ProgHeader) : Prop :=
  f.progs.filter (fun h => h.ptype == ptLoad && decide (h.filesz ≠ 0) && hffoMatch fo h) = [seg]

instance (f : File) (fo : Nat) (seg : ProgHeader) : Decidable (OnlyOwner f fo seg) := by
  unfold OnlyOwner; infer_instance

/-- a symbol table as `nm --numeric-sort` prints it (after relocation): starts non-decreasing. -/
def SortedByAddr (m : List Sym) : Prop := List.Pairwise (fun a b => a.address ≤ b.address) m

/-! ### program headers of real binaries (gcc 12.2 / GNU ld 2.40, `readelf -lW`) -/

-- gcc -pie:  LOAD 0x001000 0x1000 0x1000 0x000189 0x000189 R E 0x1000, loaded at 0x555555554000
example : LoaderLayout 4096 ⟨1, 5, 0x1000, 0x1000, 0x189, 0x189⟩ 0x555555554000 0x1000 0x2000
    ⟨0x555555555000, 0x555555556000, 0x1000, none⟩ := by decide
-- the same binary's RW segment (bss, Off ≠ Vaddr): LOAD 0x002dd0 0x3dd0 0x3dd0 0x00024c 0x001210 RW;
-- the loader maps file pages [0x2000,0x4000) at B+0x3000; after RELRO mprotect the 2nd page is its own mapping
example : LoaderLayout 4096 ⟨1, 6, 0x2dd0, 0x3dd0, 0x24c, 0x1210⟩ 0x555555554000 0x4000 0x5000
    ⟨0x555555558000, 0x555555559000, 0x3000, none⟩ := by decide
-- gcc -no-pie: LOAD 0x001000 0x401000 0x401000 0x000175 0x000175 R E, bias 0
example : LoaderLayout 4096 ⟨1, 5, 0x1000, 0x401000, 0x175, 0x175⟩ 0 0x401000 0x402000
    ⟨0x401000, 0x402000, 0x1000, none⟩ := by decide
-- gcc -pie -fuse-ld=gold (text at file offset 0 shares its last page with RW):
--   LOAD 0x000000 0 0 0x0007f8 0x0007f8 R E;  LOAD 0x000dc0 0x1dc0 0x1dc0 0x000268 0x001240 RW
example : LoaderLayout 4096 ⟨1, 6, 0xdc0, 0x1dc0, 0x268, 0x1240⟩ 0x7f1234560000 0x1000 0x2000
    ⟨0x7f1234561000, 0x7f1234562000, 0, none⟩ := by decide
-- -Wl,-z,max-page-size=2097152: LOAD 0x200000 0x200000 0x200000 0x000189 0x000189 R E 0x200000
example : LoaderLayout 4096 ⟨1, 5, 0x200000, 0x200000, 0x189, 0x189⟩ 0x555555400000 0x200000 0x201000
    ⟨0x555555600000, 0x555555601000, 0x200000, none⟩ := by decide
-- -Wl,-z,max-page-size=65536, RW segment LOAD 0x02fdd0 0x3fdd0 0x3fdd0 0x00024c 0x001210 on a 64 KiB-page
-- kernel: loader-consistent for page = 65536 …
example : LoaderLayout 65536 ⟨1, 6, 0x2fdd0, 0x3fdd0, 0x24c, 0x1210⟩ 0xaaaaaaaa0000 0x30000 0x40000
    ⟨0xaaaaaaad0000, 0xaaaaaaae0000, 0x20000, none⟩ := by decide
-- … and not a 4 KiB layout (v0 lies below the segment's 4 KiB page)
example : ¬ LoaderLayout 4096 ⟨1, 6, 0x2fdd0, 0x3fdd0, 0x24c, 0x1210⟩ 0xaaaaaaaa0000 0x30000 0x40000
    ⟨0xaaaaaaad0000, 0xaaaaaaae0000, 0x20000, none⟩ := by decide

end PV.Elf
