import PprofVerif.Model.Graph
/-
What `-tagroot` / `-tagleaf` promise (internal/driver/tagroot.go: "adds pseudo stack frames
"label:value" to each Sample … rootKeys adds frames at the root of the callgraph (first key becomes
new root). leafKeys adds frames at the leaf of the callgraph (last key becomes new leaf)"), as stacks.
String labels only (numeric label values are rendered by `measurement.ScaledLabel`, external).
Core Lean only.
-/
namespace PV.Graph

/-- the pseudo frame for key `k` on sample `s`: a function named by the comma-joined values of label
`k` (the empty name when the sample has no such label), living in the "file" `k`. -/
def tagFrame (clean : Str → Str) (s : Sample) (k : Str) : NodeInfo :=
  { name := joinComma (labelValues s k), origName := [], address := 0,
    file := if k ≠ [] then clean k else [], startLine := 0, lineno := 0, columnno := 0, objfile := [] }

def tagFrames (clean : Str → Str) (s : Sample) (keys : List Str) : List NodeInfo := keys.map (tagFrame clean s)

/-- the stack (root → leaf) of sample `s` after `addLabelNodes`: root-key frames (first key
outermost), the sample's own frames, leaf-key frames (last key innermost). -/
def extendFrames (clean : Str → Str) (rootKeys leafKeys : List Str) (s : Sample) (fs : List NodeInfo) : List NodeInfo :=
  tagFrames clean s rootKeys ++ fs ++ tagFrames clean s leafKeys

end PV.Graph
