/-
Specification of report figures (properties C04 and C05): what flat, cum, edge weight and the
report total MEAN, as sums over samples.  Core Lean only.  Readable in minutes by design:
every figure is `Σ_{s ∈ samples | condition on the stack of s} (w s, d s)`.

A sample is abstracted to its stack (`frames`, ROOT → LEAF list of entry keys), its selected
value `w` and its mean divisor `d` (0 when the `mean` option is off).  How a profile sample
becomes such a triple (location/line reversal, entry identity per granularity, value selection)
is `PV.Graph.samplesOf` in `Model/Graph.lean`.
-/
namespace PV.GSpec

/-- A (value, divisor) pair; all figures are accumulated as such pairs. -/
structure WD where
  w : Int
  d : Int
  deriving Repr, DecidableEq, Inhabited

namespace WD
def zero : WD := ⟨0, 0⟩
def add (a b : WD) : WD := ⟨a.w + b.w, a.d + b.d⟩
instance : Add WD := ⟨add⟩
instance : OfNat WD 0 := ⟨zero⟩
/-- Go: `if Div == 0 { return V }; return V / Div` — integer division truncating toward zero. -/
def value (a : WD) : Int := if a.d = 0 then a.w else Int.tdiv a.w a.d
def isZero (a : WD) : Bool := a.w == 0 && a.d == 0
end WD

/-- Σ of a list of pairs. -/
def sumWD : List WD → WD
  | [] => 0
  | a :: r => a + sumWD r

/-- Abstract sample: stack root → leaf, selected value, mean divisor, diff-base label. -/
structure GSample (κ : Type) where
  frames : List κ
  w : Int
  d : Int
  base : Bool := false
  deriving Repr

variable {κ : Type} [DecidableEq κ]

def GSample.wd (s : GSample κ) : WD := ⟨s.w, s.d⟩

/-- Σ_{s ∈ ss | c s} (w s, d s). -/
def sumOver (ss : List (GSample κ)) (c : GSample κ → Bool) : WD :=
  sumWD ((ss.filter c).map GSample.wd)

/-- cum n = Σ over samples in which `n` occurs anywhere — once per sample, also under recursion. -/
def cumSpec (ss : List (GSample κ)) (n : κ) : WD :=
  sumOver ss (fun s => decide (n ∈ s.frames))

/-- flat n = Σ over samples whose LEAF frame is `n`. -/
def flatSpec (ss : List (GSample κ)) (n : κ) : WD :=
  sumOver ss (fun s => decide (s.frames.getLast? = some n))

/-- `a` immediately followed by `b` somewhere in the stack (caller `a`, callee `b`). -/
def adjacent (a b : κ) (fs : List κ) : Bool := decide ((a, b) ∈ fs.zip fs.tail)

/-- edge (a,b) = Σ over samples in which the adjacency a→b occurs — once per sample; an entry
calling itself (direct recursion) is not an edge. -/
def edgeSpec (ss : List (GSample κ)) (a b : κ) : WD :=
  sumOver ss (fun s => decide (a ≠ b) && adjacent a b s.frames)

/-- A sample with value 0 and divisor 0 is skipped by the implementation; it contributes nothing
to any sum, but it also cannot create an (all-zero) edge. -/
def counted (s : GSample κ) : Bool := !(s.w == 0 && s.d == 0)

/-- the edge a→b exists in the report iff some counted sample has that adjacency. -/
def edgeExists (ss : List (GSample κ)) (a b : κ) : Bool :=
  ss.any (fun s => counted s && decide (a ≠ b) && adjacent a b s.frames)

/-- an entry is listed iff its flat or cum accumulator is non-zero. -/
def nodeExists (ss : List (GSample κ)) (n : κ) : Bool :=
  (cumSpec ss n).w != 0 || (flatSpec ss n).w != 0

def absI (x : Int) : Int := if x < 0 then -x else x

/-- Report total: Σ |w| (and Σ d) over all samples, or over the diff-base samples only when
their Σ |w| is positive; shown as `value` (divided by Σ d when mean is on). -/
def totalSpec (ss : List (GSample κ)) : WD :=
  let all : WD := sumWD (ss.map fun s => ⟨absI s.w, s.d⟩)
  let base : WD := sumWD ((ss.filter (·.base)).map fun s => ⟨absI s.w, s.d⟩)
  if base.w > 0 then base else all

/-! ### call-tree mode: an entry is identified by its path from the root -/

/-- non-empty prefixes of a stack, shortest first: the path-keys of its frames. -/
def prefixes : List κ → List (List κ)
  | [] => []
  | x :: xs => [x] :: (prefixes xs).map (x :: ·)

def treeSample (s : GSample κ) : GSample (List κ) :=
  { frames := prefixes s.frames, w := s.w, d := s.d, base := s.base }

/-! ### C05: figures of a graph rebuilt with a kept set `K` -/

/-- the stack with removed entries deleted. -/
def restrict (K : κ → Bool) (s : GSample κ) : GSample κ := { s with frames := s.frames.filter K }

/-- cum under `K`: as before on the filtered stack. -/
def cumSpecK (K : κ → Bool) (ss : List (GSample κ)) (n : κ) : WD := cumSpec (ss.map (restrict K)) n

/-- flat under `K`: the ORIGINAL leaf must be `n` and kept (a sample whose leaf was removed gives
its flat to nobody). -/
def flatSpecK (K : κ → Bool) (ss : List (GSample κ)) (n : κ) : WD :=
  sumOver ss (fun s => K n && decide (s.frames.getLast? = some n))

/-- edge weight under `K`: adjacency after deleting removed entries. -/
def edgeSpecK (K : κ → Bool) (ss : List (GSample κ)) (a b : κ) : WD := edgeSpec (ss.map (restrict K)) a b

def edgeExistsK (K : κ → Bool) (ss : List (GSample κ)) (a b : κ) : Bool :=
  edgeExists (ss.map (restrict K)) a b

/-- adjacent pairs of the kept-filtered stack, each with the flag "a removed entry lies between
the two" — in stack order.  `par` = last kept entry so far, `res` = removed entry passed since. -/
def pairsK (K : κ → Bool) : Option κ → Bool → List κ → List (κ × κ × Bool)
  | _, _, [] => []
  | par, res, f :: fs =>
    if K f then
      match par with
      | some p => (p, f, res) :: pairsK K (some f) false fs
      | none => pairsK K (some f) false fs
    else pairsK K par true fs

/-- flag of the first occurrence of the pair (a,b). -/
def firstFlag (a b : κ) : List (κ × κ × Bool) → Option Bool
  | [] => none
  | (x, y, r) :: rest => if x = a ∧ y = b then some r else firstFlag a b rest

/-- the edge a→b is marked residual iff in some counted sample the (first) adjacency a→b of the
filtered stack bypasses a removed entry. -/
def edgeResidualSpecK (K : κ → Bool) (ss : List (GSample κ)) (a b : κ) : Bool :=
  ss.any (fun s => counted s && decide (a ≠ b) &&
    (firstFlag a b (pairsK K none false s.frames) == some true))

end PV.GSpec
