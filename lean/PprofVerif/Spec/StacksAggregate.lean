import PprofVerif.Spec.Stacks
/-
C17, granularity: what the stacks of an aggregated view must show.  `Spec.aggregate` is the
meaning of the driver's granularity options for the data `Stacks()` reads — NOT a transcription
of `Profile.Aggregate`: every line of every location stays a frame (only `noinlines` keeps the
last line of a location alone); a frame keeps its function name iff functions are shown, its
file name iff files are, its line iff lines are, its column iff lines and columns are.
The harness computes the same thing in Go (`c17Expected`) and compares on every case; the real
`Profile.Aggregate` is the code under test.  Core Lean only.
-/
namespace PV.Stacks.Spec
open PV PV.Stacks

structure AggFlags where
  none : Bool        -- no aggregation at all ("raw"; "addresses" with inlines)
  inlines : Bool
  function : Bool
  filename : Bool
  linenumber : Bool
  columns : Bool
  deriving Repr, DecidableEq

def aggFunction (f : AggFlags) (fn : Function) : Function :=
  { fn with name := if f.function then fn.name else [],
            systemName := if f.function then fn.systemName else [],
            filename := if f.filename then fn.filename else [] }

def aggLine (f : AggFlags) (ln : Line) : Line :=
  { ln with line := if f.linenumber then ln.line else 0,
            column := if f.linenumber && f.columns then ln.column else 0 }

/-- `noinlines`: only the last line (the function the address belongs to) remains. -/
def lastOnly : List Line → List Line
  | [] => []
  | [l] => [l]
  | _ :: l' :: r => lastOnly (l' :: r)

def aggLocation (f : AggFlags) (l : Location) : Location :=
  { l with lines := ((if f.inlines then l.lines else lastOnly l.lines).map (aggLine f)) }

def aggregate (f : AggFlags) (p : Profile) : Profile :=
  if f.none then p else
  { p with functions := p.functions.map (aggFunction f),
           locations := p.locations.map (aggLocation f) }

/-- the frame a frame becomes under the granularity. -/
def aggFrame (f : AggFlags) (fr : Frame) : Frame :=
  { fr with name := if f.function then fr.name else [],
            file := if f.filename then fr.file else [],
            line := if f.linenumber then fr.line else 0,
            column := if f.linenumber && f.columns then fr.column else 0 }

end PV.Stacks.Spec
