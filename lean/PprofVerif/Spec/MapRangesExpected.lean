import PprofVerif.Model.MapRange
/-!
# Hand-reviewed map-iteration sites (property C08)

Every `range` over a map in internal/graph, internal/report, internal/driver whose body appends to
a slice, writes output, concatenates a string, accumulates a float or returns an iteration value —
as listed by `tools/extract/mapranges.go` — with the reviewer's verdict.  `Props/C08.lean` checks
by `decide` that the list regenerated from the current source equals `sites` below, so a new map
walk (or a removed sort) breaks the obligation until it has been reviewed here.
Reviewed against the pinned tree 1598eac (+ fixes/C08-less-strict-order.patch, which does not touch
any of these sites).
-/
namespace PV.Spec.MapRangesExpected
open PV.MapRange

def reviewed : List Reviewed := [
  -- line 222: range node.LabelTags
  { site := { file := "internal/graph/dotgraph.go", fn := "builder.addNodelets", mapType := "map[string]*internal/graph.Tag", sink := "append:[]*internal/graph.Tag", sorted := true, flows := ["SORT:internal/graph.SortTags"] },
    verdict := .sortedHere },
  -- line 225: range node.NumericTags
  { site := { file := "internal/graph/dotgraph.go", fn := "builder.addNodelets", mapType := "map[string]internal/graph.TagMap", sink := "append:[]*internal/graph.Tag (slot keyed by the iteration variable)", sorted := true, flows := ["SORT:(*internal/graph.builder).numericNodelets"] },
    verdict := .sortedHere },
  -- line 226: range tm
  { site := { file := "internal/graph/dotgraph.go", fn := "builder.addNodelets", mapType := "map[string]*internal/graph.Tag", sink := "append:[]*internal/graph.Tag (indexed slot)", sorted := true, flows := ["SORT:(*internal/graph.builder).numericNodelets"] },
    verdict := .sortedHere },
  -- line 444: range parentNodeMap
  { site := { file := "internal/graph/graph.go", fn := "newTree", mapType := "map[*internal/graph.Node]internal/graph.NodeMap", sink := "append:internal/graph.Nodes", sorted := false, flows := ["return", "internal/graph.selectNodesForGraph"] },
    verdict := .sortedByConsumer "report.newTrimmedGraph sorts Graph.Nodes (Graph.SortNodes → Nodes.Sort) before every printer; selectNodesForGraph only filters" },
  -- line 530: range s.Label
  { site := { file := "internal/graph/graph.go", fn := "joinLabels", mapType := "map[string][]string", sink := "append:[]string", sorted := true, flows := ["SORT:sort.Strings", "return", "strings.Join"] },
    verdict := .sortedHere },
  -- line 574: range nm
  { site := { file := "internal/graph/graph.go", fn := "NodeMap.nodes", mapType := "map[internal/graph.NodeInfo]*internal/graph.Node", sink := "append:internal/graph.Nodes", sorted := false, flows := ["return"] },
    verdict := .sortedByConsumer "CreateNodes/newGraph/newTree hand the list to selectNodesForGraph; report.newTrimmedGraph sorts Graph.Nodes before every printer; printTraces uses only the per-location lists (line order)" },
  -- line 725: range n.In
  { site := { file := "internal/graph/graph.go", fn := "Graph.String", mapType := "map[*internal/graph.Node]*internal/graph.Edge", sink := "append:[]int", sorted := false, flows := ["fmt.Sprintf", "return", "strings.Join"] },
    verdict := .notReportOutput "Graph.String is a debugging aid used by the package tests only" },
  -- line 728: range n.Out
  { site := { file := "internal/graph/graph.go", fn := "Graph.String", mapType := "map[*internal/graph.Node]*internal/graph.Edge", sink := "append:[]int", sorted := false, flows := ["fmt.Sprintf", "return", "strings.Join"] },
    verdict := .notReportOutput "Graph.String is a debugging aid used by the package tests only" },
  -- line 918: range n.In
  { site := { file := "internal/graph/graph.go", fn := "isRedundantEdge", mapType := "map[*internal/graph.Node]*internal/graph.Edge", sink := "append:internal/graph.Nodes", sorted := false, flows := [] },
    verdict := .orderIrrelevant "breadth-first reachability query: the boolean result does not depend on the visiting order" },
  -- line 1093: range edges
  { site := { file := "internal/graph/graph.go", fn := "edgeEntropyScore", mapType := "map[*internal/graph.Node]*internal/graph.Edge", sink := "floatsum:float64", sorted := false, flows := [] },
    verdict := .hunted "float64 addition is not associative: the last ulp of entropyScore, and through int64(score*cum) the EntropyOrder position and the visual-mode top-N cut, can depend on the map seed; the -dot oracle byte-compares repeated runs on many-edge tie-rich graphs" },
  -- line 1124: range e
  { site := { file := "internal/graph/graph.go", fn := "EdgeMap.Sort", mapType := "map[*internal/graph.Node]*internal/graph.Edge", sink := "append:internal/graph.edgeList", sorted := true, flows := ["SORT:sort.Sort", "return"] },
    verdict := .sortedHere },
  -- line 252: range s.NumLabel
  { site := { file := "internal/report/report.go", fn := "Report.newGraph", mapType := "map[string][]int64", sink := "append:[]int64 (slot keyed by the iteration variable)", sorted := false, flows := [] },
    verdict := .orderIrrelevant "each key is appended exactly once to its own slot of a fresh map" },
  -- line 252: range s.NumLabel
  { site := { file := "internal/report/report.go", fn := "Report.newGraph", mapType := "map[string][]int64", sink := "append:[]string (slot keyed by the iteration variable)", sorted := false, flows := [] },
    verdict := .orderIrrelevant "each key is appended exactly once to its own slot of a fresh map" },
  -- line 410: range symNodes
  { site := { file := "internal/report/report.go", fn := "PrintAssembly", mapType := "map[*internal/report.objSymbol]internal/graph.Nodes", sink := "append:[]*internal/report.objSymbol", sorted := true, flows := ["SORT:sort.Sort"] },
    verdict := .sortedHere },
  -- line 740: range tagMap
  { site := { file := "internal/report/report.go", fn := "printTags", mapType := "map[string]map[string]int64", sink := "append:[]*internal/graph.Tag", sorted := true, flows := ["SORT:internal/graph.SortTags"] },
    verdict := .sortedHere },
  -- line 747: range tagMap[key]
  { site := { file := "internal/report/report.go", fn := "printTags", mapType := "map[string]int64", sink := "append:[]*internal/graph.Tag", sorted := true, flows := ["SORT:internal/graph.SortTags"] },
    verdict := .sortedHere },
  -- line 885: range sample.Label
  { site := { file := "internal/report/report.go", fn := "printTraces", mapType := "map[string][]string", sink := "append:[]string", sorted := true, flows := ["SORT:sort.Strings", "fmt.Fprint", "strings.Join"] },
    verdict := .sortedHere },
  -- line 893: range sample.NumLabel
  { site := { file := "internal/report/report.go", fn := "printTraces", mapType := "map[string][]int64", sink := "append:[]string", sorted := true, flows := ["SORT:sort.Strings", "fmt.Fprint", "strings.Join"] },
    verdict := .sortedHere },
  -- line 549: range addrMap
  { site := { file := "internal/report/source.go", fn := "sourcePrinter.splitIntoRanges", mapType := "map[uint64]internal/report.addrInfo", sink := "append:[]uint64", sorted := true, flows := ["SORT:sort.Slice", "return"] },
    verdict := .sortedHere },
  -- line 549: range addrMap
  { site := { file := "internal/report/source.go", fn := "sourcePrinter.splitIntoRanges", mapType := "map[uint64]internal/report.addrInfo", sink := "append:[]uint64", sorted := false, flows := ["return"] },
    verdict := .orderIrrelevant "weblist only: handleUnprocessed stores each address under its own map key and addStack accumulates per-address sums" },
  -- line 629: range sp.files
  { site := { file := "internal/report/source.go", fn := "sourcePrinter.generate", mapType := "map[string]*internal/report.sourceFile", sink := "append:[]*internal/report.sourceFile", sorted := true, flows := ["return", "SORT:sort.Slice"] },
    verdict := .sortedHere },
  -- line 721: range f.lines
  { site := { file := "internal/report/source.go", fn := "sourcePrinter.functions", mapType := "map[int][]internal/report.sourceInst", sink := "append:[]int", sorted := true, flows := ["SORT:sort.Ints"] },
    verdict := .sortedHere },
  -- line 233: range bools
  { site := { file := "internal/driver/cli.go", fn := "installConfigFlags", mapType := "map[string]*bool", sink := "append:[]string", sorted := false, flows := ["fmt.Errorf"] },
    verdict := .notReportOutput "text of the usage error `conflicting options set: [...]` for mutually exclusive flags (stderr, no report is produced)" },
  -- line 270: range pprofCommands
  { site := { file := "internal/driver/commands.go", fn := "usage", mapType := "map[string]*internal/driver.command", sink := "append:[]string", sorted := true, flows := ["SORT:sort.Strings", "strings.Join"] },
    verdict := .sortedHere },
  -- line 287: range configFieldMap
  { site := { file := "internal/driver/config.go", fn := "completeConfig", mapType := "map[string]internal/driver.configField", sink := "append:[]string", sorted := false, flows := ["return"] },
    verdict := .orderIrrelevant "interactive completion: the only caller (matchVariableOrCommand) uses the result when the combined list has exactly one element" },
  -- line 268: range ms
  { site := { file := "internal/driver/fetch.go", fn := "combineProfiles", mapType := "map[string][]struct{Source string; Start uint64}", sink := "append:[]struct{Source string; Start uint64} (slot keyed by the iteration variable)", sorted := false, flows := ["return"] },
    verdict := .orderIrrelevant "per-key slots; the outer loop runs over the slice of sources in command-line order" },
  -- line 384: range pprofCommands
  { site := { file := "internal/driver/interactive.go", fn := "matchVariableOrCommand", mapType := "map[string]*internal/driver.command", sink := "append:[]string", sorted := false, flows := ["return"] },
    verdict := .orderIrrelevant "the result is used only when there is exactly one match" }
]

def sites : List Site := reviewed.map (·.site)

/-- the sites whose order-dependence can reach report output and is only hunted at run time -/
def huntedSites : List Reviewed := reviewed.filter (fun r => match r.verdict with | .hunted _ => true | _ => false)

end PV.Spec.MapRangesExpected
