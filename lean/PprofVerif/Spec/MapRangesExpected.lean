import PprofVerif.Model.MapRange
/-!
# Hand-reviewed map-iteration sites (property C08)

Every `range` over a map in internal/graph, internal/report, internal/driver whose body appends to
a slice, writes output, concatenates a string, accumulates a float or returns an iteration value —
as listed by `tools/extract/mapranges.go` — with the reviewer's verdict.  `Props/C08.lean` checks
by `decide` that every site regenerated from the current source is one of `sites` below, so a new
map walk, or a sort removed from a reviewed one (its record changes), breaks the obligation until it
has been reviewed here; a site that disappears (map replaced by a slice) does not.
Reviewed against the pinned tree 1598eac + fixes/C08-less-strict-order.patch (touches none of these
sites) + fixes/C08-entropy-sum-order.patch (edgeEntropyScore) + fixes/C08-weblist-unprocessed-sorted.patch
(splitIntoRanges) + fixes/C08-calltree-deterministic.patch (newTree, ComposeDot).
-/
namespace PV.Spec.MapRangesExpected
open PV.MapRange

def reviewed : List Reviewed := [
  -- line 222: range node.LabelTags   then: SORT:internal/graph.SortTags
  { site := { file := "internal/graph/dotgraph.go", fn := "builder.addNodelets", mapType := "map[string]*internal/graph.Tag", kind := .append, sink := "append", sorted := true, returned := false },
    verdict := .sortedHere },
  -- line 225: range node.NumericTags   then: SORT:(*internal/graph.builder).numericNodelets
  { site := { file := "internal/graph/dotgraph.go", fn := "builder.addNodelets", mapType := "map[string]internal/graph.TagMap", kind := .append, sink := "append (slot keyed by the iteration variable)", sorted := true, returned := false },
    verdict := .sortedHere },
  -- line 226: range tm   then: SORT:(*internal/graph.builder).numericNodelets
  { site := { file := "internal/graph/dotgraph.go", fn := "builder.addNodelets", mapType := "map[string]*internal/graph.Tag", kind := .append, sink := "append (indexed slot)", sorted := true, returned := false },
    verdict := .sortedHere },
  -- (graph.newTree: since fixes/C08-calltree-deterministic.patch the node list is collected in creation
  -- order while the samples are walked; the former `range parentNodeMap` append site is gone and is
  -- deliberately NOT in this list — Props/C08.lean newTree_collects_without_map_walk)
  -- ComposeDot: range n.Out   then: SORT:sort.Slice (edge comparator, then node ids); `returned` is the
  -- translator's over-approximation (the `return` inside the sort closure mentions the slice)
  { site := { file := "internal/graph/dotgraph.go", fn := "ComposeDot", mapType := "map[*internal/graph.Node]*internal/graph.Edge", kind := .append, sink := "append", sorted := true, returned := true },
    verdict := .sortedHere },
  -- line 530: range s.Label   then: SORT:sort.Strings, return, strings.Join
  { site := { file := "internal/graph/graph.go", fn := "joinLabels", mapType := "map[string][]string", kind := .append, sink := "append", sorted := true, returned := true },
    verdict := .sortedHere },
  -- line 574: range nm   then: return
  { site := { file := "internal/graph/graph.go", fn := "NodeMap.nodes", mapType := "map[internal/graph.NodeInfo]*internal/graph.Node", kind := .append, sink := "append", sorted := false, returned := true },
    verdict := .sortedByConsumer "CreateNodes/newGraph/newTree hand the list to selectNodesForGraph; report.newTrimmedGraph sorts Graph.Nodes before every printer; printTraces uses only the per-location lists (line order)" },
  -- delete sites: a map entry is deleted inside a map walk (kind .delete).  Order matters only if the
  -- decision to delete depends on what earlier iterations deleted — reviewed one by one:
  -- TrimTree, removed root: the in-edge of EVERY child is deleted, unconditionally
  { site := { file := "internal/graph/graph.go", fn := "Graph.TrimTree", mapType := "map[*internal/graph.Node]*internal/graph.Edge", kind := .delete, sink := "delete", sorted := false, returned := false },
    verdict := .orderIrrelevant "TrimTree: every child of the removed node is re-parented (or orphaned) unconditionally; each iteration touches only its own child's entries" },
  -- TrimLowFrequencyEdges: the condition reads the edge's own weight only
  { site := { file := "internal/graph/graph.go", fn := "Graph.TrimLowFrequencyEdges", mapType := "map[*internal/graph.Node]*internal/graph.Edge", kind := .delete, sink := "delete (from the ranged map)", sorted := false, returned := false },
    verdict := .orderIrrelevant "the edge is dropped iff its own |weight| is below the cutoff; no decision reads state changed by another iteration" },
  { site := { file := "internal/graph/graph.go", fn := "Graph.TrimLowFrequencyEdges", mapType := "map[*internal/graph.Node]*internal/graph.Edge", kind := .delete, sink := "delete", sorted := false, returned := false },
    verdict := .orderIrrelevant "the mirror entry src.Out[n] of the same dropped edge" },
  -- (RemoveRedundantEdges must NOT appear here: whether an in-edge is redundant depends on the edges
  -- already removed, so it walks n.In.Sort() — a slice — and not the map.)
  -- line 725: range n.In   then: fmt.Sprintf, return, strings.Join
  { site := { file := "internal/graph/graph.go", fn := "Graph.String", mapType := "map[*internal/graph.Node]*internal/graph.Edge", kind := .append, sink := "append", sorted := false, returned := true },
    verdict := .notReportOutput "Graph.String is a debugging aid used by the package tests only" },
  -- line 728: range n.Out   then: fmt.Sprintf, return, strings.Join
  { site := { file := "internal/graph/graph.go", fn := "Graph.String", mapType := "map[*internal/graph.Node]*internal/graph.Edge", kind := .append, sink := "append", sorted := false, returned := true },
    verdict := .notReportOutput "Graph.String is a debugging aid used by the package tests only" },
  -- line 918: range n.In   then: 
  { site := { file := "internal/graph/graph.go", fn := "isRedundantEdge", mapType := "map[*internal/graph.Node]*internal/graph.Edge", kind := .append, sink := "append", sorted := false, returned := false },
    verdict := .orderIrrelevant "breadth-first reachability query: the boolean result does not depend on the visiting order" },
  -- range edges (edgeEntropyScore)   then: SORT:sort.Float64s
  -- Since fixes/C08-entropy-sum-order.patch the -f·log2(f) terms are collected, sorted and only then
  -- added.  Before it the body accumulated a float64 sum in map order (sink `floatsum:float64`, NOT in
  -- this list): float addition is not associative, so the last ulp of entropyScore — and with weights
  -- around 1e14 the integer int64(score*cum), hence the EntropyOrder position of nodes with equal exact
  -- score and the N-numbering of `-dot` — depended on the map seed (reproduced: strategy entropy-twins).
  { site := { file := "internal/graph/graph.go", fn := "edgeEntropyScore", mapType := "map[*internal/graph.Node]*internal/graph.Edge", kind := .append, sink := "append", sorted := true, returned := false },
    verdict := .sortedHere },
  -- line 1124: range e   then: SORT:sort.Sort, return
  { site := { file := "internal/graph/graph.go", fn := "EdgeMap.Sort", mapType := "map[*internal/graph.Node]*internal/graph.Edge", kind := .append, sink := "append", sorted := true, returned := true },
    verdict := .sortedHere },
  -- line 252: range s.NumLabel   then: 
  { site := { file := "internal/report/report.go", fn := "Report.newGraph", mapType := "map[string][]int64", kind := .append, sink := "append (slot keyed by the iteration variable)", sorted := false, returned := false },
    verdict := .orderIrrelevant "each key is appended exactly once to its own slot of a fresh map" },
  -- line 252: range s.NumLabel   then: 
  { site := { file := "internal/report/report.go", fn := "Report.newGraph", mapType := "map[string][]int64", kind := .append, sink := "append (slot keyed by the iteration variable)", sorted := false, returned := false },
    verdict := .orderIrrelevant "each key is appended exactly once to its own slot of a fresh map" },
  -- line 410: range symNodes   then: SORT:sort.Sort
  { site := { file := "internal/report/report.go", fn := "PrintAssembly", mapType := "map[*internal/report.objSymbol]internal/graph.Nodes", kind := .append, sink := "append", sorted := true, returned := false },
    verdict := .sortedHere },
  -- line 740: range tagMap   then: SORT:internal/graph.SortTags
  { site := { file := "internal/report/report.go", fn := "printTags", mapType := "map[string]map[string]int64", kind := .append, sink := "append", sorted := true, returned := false },
    verdict := .sortedHere },
  -- line 747: range tagMap[key]   then: SORT:internal/graph.SortTags
  { site := { file := "internal/report/report.go", fn := "printTags", mapType := "map[string]int64", kind := .append, sink := "append", sorted := true, returned := false },
    verdict := .sortedHere },
  -- line 885: range sample.Label   then: SORT:sort.Strings, fmt.Fprint, strings.Join
  { site := { file := "internal/report/report.go", fn := "printTraces", mapType := "map[string][]string", kind := .append, sink := "append", sorted := true, returned := false },
    verdict := .sortedHere },
  -- line 893: range sample.NumLabel   then: SORT:sort.Strings, fmt.Fprint, strings.Join
  { site := { file := "internal/report/report.go", fn := "printTraces", mapType := "map[string][]int64", kind := .append, sink := "append", sorted := true, returned := false },
    verdict := .sortedHere },
  -- line 549: range addrMap   then: SORT:sort.Slice, return
  { site := { file := "internal/report/source.go", fn := "sourcePrinter.splitIntoRanges", mapType := "map[uint64]internal/report.addrInfo", kind := .append, sink := "append", sorted := true, returned := true },
    verdict := .sortedHere },
  -- (splitIntoRanges also collects the addresses WITHOUT an object file; since
  -- fixes/C08-weblist-unprocessed-sorted.patch that slice is sorted as well, so its record equals the
  -- one above.  Before it the slice was returned in map order and handleUnprocessed appended to the
  -- per-line instruction lists in that order: `weblist` HTML varied from run to run — the earlier
  -- verdict "order irrelevant" for that site was WRONG (found by build-C10, reproduced by the
  -- -weblist jobs of the CLI oracle).  The unsorted record is deliberately NOT in this list.)
  -- line 629: range sp.files   then: return, SORT:sort.Slice
  { site := { file := "internal/report/source.go", fn := "sourcePrinter.generate", mapType := "map[string]*internal/report.sourceFile", kind := .append, sink := "append", sorted := true, returned := true },
    verdict := .sortedHere },
  -- line 721: range f.lines   then: SORT:sort.Ints
  { site := { file := "internal/report/source.go", fn := "sourcePrinter.functions", mapType := "map[int][]internal/report.sourceInst", kind := .append, sink := "append", sorted := true, returned := false },
    verdict := .sortedHere },
  -- line 233: range bools   then: fmt.Errorf
  { site := { file := "internal/driver/cli.go", fn := "installConfigFlags", mapType := "map[string]*bool", kind := .append, sink := "append", sorted := false, returned := false },
    verdict := .notReportOutput "text of the usage error `conflicting options set: [...]` for mutually exclusive flags (stderr, no report is produced)" },
  -- line 270: range pprofCommands   then: SORT:sort.Strings, strings.Join
  { site := { file := "internal/driver/commands.go", fn := "usage", mapType := "map[string]*internal/driver.command", kind := .append, sink := "append", sorted := true, returned := false },
    verdict := .sortedHere },
  -- line 287: range configFieldMap   then: return
  { site := { file := "internal/driver/config.go", fn := "completeConfig", mapType := "map[string]internal/driver.configField", kind := .append, sink := "append", sorted := false, returned := true },
    verdict := .orderIrrelevant "interactive completion: the only caller (matchVariableOrCommand) uses the result when the combined list has exactly one element" },
  -- line 268: range ms   then: return
  { site := { file := "internal/driver/fetch.go", fn := "combineProfiles", mapType := "map[string][]struct{Source string; Start uint64}", kind := .append, sink := "append (slot keyed by the iteration variable)", sorted := false, returned := true },
    verdict := .orderIrrelevant "per-key slots; the outer loop runs over the slice of sources in command-line order" },
  -- line 384: range pprofCommands   then: return
  { site := { file := "internal/driver/interactive.go", fn := "matchVariableOrCommand", mapType := "map[string]*internal/driver.command", kind := .append, sink := "append", sorted := false, returned := true },
    verdict := .orderIrrelevant "the result is used only when there is exactly one match" }
]

def sites : List Site := reviewed.map (·.site)

/-- the sites whose order-dependence can reach report output and is only hunted at run time -/
def huntedSites : List Reviewed := reviewed.filter (fun r => match r.verdict with | .hunted _ => true | _ => false)

end PV.Spec.MapRangesExpected
