import PprofVerif.Model.MapRange
/-!
# Hand-reviewed map-iteration sites (property C08)

Every `range` over a map (and every slices.Collect(maps.Keys/Values)) in internal/graph, internal/report,
internal/driver and profile whose body appends to
a slice, writes output, concatenates a string, accumulates a float or returns an iteration value —
as listed by `tools/extract/mapranges.go` — with the reviewer's verdict.  `Props/C08.lean` checks
by `decide` that every site regenerated from the current source is either SELF-EVIDENT — an `append`
whose slice reaches a total sort (by value, or one of the comparators proved in Props/C08.lean, possibly
through callees or — for a helper that returns the slice — in every caller) before any output; such a
walk is order-irrelevant wherever it sits and whatever it is called — or one of `sites` below.  So a
new map walk that is not sorted totally, a sort removed, or a custom comparator breaks the obligation
until it has been reviewed here; a site that disappears, moves into a helper or is renamed does not.
Reviewed against the pinned tree 1598eac + fixes/C08-less-strict-order.patch (touches none of these
sites) + fixes/C08-entropy-sum-order.patch (edgeEntropyScore) + fixes/C08-weblist-unprocessed-sorted.patch
(splitIntoRanges) + fixes/C08-calltree-deterministic.patch (newTree, ComposeDot).
-/
namespace PV.Spec.MapRangesExpected
open PV.MapRange

def reviewed : List Reviewed := [
  -- line 90: range n.Out (map[*internal/graph.Node]*internal/graph.Edge)   internal/graph.edgeList   then: SORTC:sort.Slice, (internal/graph.edgeList).Less, return
  { site := { file := "internal/graph/dotgraph.go", fn := "ComposeDot", kind := .append, sink := "append", sorted := true, total := false, returned := true },
    verdict := .customSort "the edge comparator (edges_order_strict_total) and then the pair of node ids, unique per edge: total for any numbering (edge_order_then_node_ids_total)" },
  -- line 491: range cur.Out (map[*internal/graph.Node]*internal/graph.Edge)      then: 
  { site := { file := "internal/graph/graph.go", fn := "Graph.TrimTree", kind := .delete, sink := "delete", sorted := false, total := false, returned := false },
    verdict := .orderIrrelevant "TrimTree: every child of the removed node is re-parented (or orphaned) unconditionally; each iteration touches only its own child's entries" },
  -- line 581: range nm (map[internal/graph.NodeInfo]*internal/graph.Node)   internal/graph.Nodes   then: return
  { site := { file := "internal/graph/graph.go", fn := "NodeMap.nodes", kind := .append, sink := "append", sorted := false, total := false, returned := true },
    verdict := .sortedByConsumer "CreateNodes/newGraph/newTree hand the list to selectNodesForGraph; report.newTrimmedGraph sorts Graph.Nodes before every printer; printTraces uses only the per-location lists (line order)" },
  -- line 732: range n.In (map[*internal/graph.Node]*internal/graph.Edge)   []int   then: fmt.Sprintf, return, strings.Join
  { site := { file := "internal/graph/graph.go", fn := "Graph.String", kind := .append, sink := "append", sorted := false, total := false, returned := true },
    verdict := .notReportOutput "Graph.String is a debugging aid used by the package tests only" },
  -- line 809: range n.In (map[*internal/graph.Node]*internal/graph.Edge)      then: 
  { site := { file := "internal/graph/graph.go", fn := "Graph.TrimLowFrequencyEdges", kind := .delete, sink := "delete (from the ranged map)", sorted := false, total := false, returned := false },
    verdict := .orderIrrelevant "the edge is dropped iff its own |weight| is below the cutoff; no decision reads state changed by another iteration" },
  -- line 809: range n.In (map[*internal/graph.Node]*internal/graph.Edge)      then: 
  { site := { file := "internal/graph/graph.go", fn := "Graph.TrimLowFrequencyEdges", kind := .delete, sink := "delete", sorted := false, total := false, returned := false },
    verdict := .orderIrrelevant "the mirror entry src.Out[n] of the same dropped edge" },
  -- line 925: range n.In (map[*internal/graph.Node]*internal/graph.Edge)   internal/graph.Nodes   then: 
  { site := { file := "internal/graph/graph.go", fn := "isRedundantEdge", kind := .append, sink := "append", sorted := false, total := false, returned := false },
    verdict := .orderIrrelevant "breadth-first reachability query: the boolean result does not depend on the visiting order" },
  -- line 258: range s.NumLabel (map[string][]int64)   []int64   then: 
  { site := { file := "internal/report/report.go", fn := "Report.newGraph", kind := .append, sink := "append (slot keyed by the iteration variable)", sorted := false, total := false, returned := false },
    verdict := .orderIrrelevant "each key is appended exactly once to its own slot of a fresh map" },
  -- line 416: range symNodes (map[*internal/report.objSymbol]internal/graph.Nodes)   []*internal/report.objSymbol   then: SORTC:sort.Sort
  { site := { file := "internal/report/report.go", fn := "PrintAssembly", kind := .append, sink := "append", sorted := true, total := false, returned := false },
    verdict := .customSort "by flat sum, then first symbol name, then start address; symbols of one listing have distinct (name, start) — reviewed" },
  -- line 549: range addrMap (map[uint64]internal/report.addrInfo)   []uint64   then: SORTC:sort.Slice, return
  { site := { file := "internal/report/source.go", fn := "sourcePrinter.splitIntoRanges", kind := .append, sink := "append", sorted := true, total := false, returned := true },
    verdict := .customSort "sort.Slice by the address itself: a value sort" },
  -- line 632: range sp.files (map[string]*internal/report.sourceFile)   []*internal/report.sourceFile   then: return, SORTC:sort.Slice
  { site := { file := "internal/report/source.go", fn := "sourcePrinter.generate", kind := .append, sink := "append", sorted := true, total := false, returned := true },
    verdict := .customSort "by flat weight, then by file name (map key, unique) since fixes/C08-weblist-file-order-tiebreak.patch; by file name alone for the full listing" },
  -- line 233: range bools (map[string]*bool)   []string   then: fmt.Errorf
  { site := { file := "internal/driver/cli.go", fn := "installConfigFlags", kind := .append, sink := "append", sorted := false, total := false, returned := false },
    verdict := .notReportOutput "text of the usage error `conflicting options set: [...]` for mutually exclusive flags (stderr, no report is produced)" },
  -- line 289: range configFieldMap (map[string]internal/driver.configField)   []string   then: return
  { site := { file := "internal/driver/config.go", fn := "completeConfig", kind := .append, sink := "append", sorted := false, total := false, returned := true },
    verdict := .orderIrrelevant "interactive completion: the only caller (matchVariableOrCommand) uses the result when the combined list has exactly one element" },
  -- line 268: range ms (map[string][]struct{Source string; Start uint64})   []struct{Source string; Start uint64}   then: return
  { site := { file := "internal/driver/fetch.go", fn := "combineProfiles", kind := .append, sink := "append (slot keyed by the iteration variable)", sorted := false, total := false, returned := true },
    verdict := .orderIrrelevant "per-key slots; the outer loop runs over the slice of sources in command-line order" },
  -- line 384: range pprofCommands (map[string]*internal/driver.command)   []string   then: return
  { site := { file := "internal/driver/interactive.go", fn := "matchVariableOrCommand", kind := .append, sink := "append", sorted := false, total := false, returned := true },
    verdict := .orderIrrelevant "the result is used only when there is exactly one match" },
  -- pick sites: a variable declared outside the map walk is overwritten with a value of the iteration —
  -- an arbitrary element unless the map has at most one entry or all candidates lead to the same result
  { site := { file := "internal/graph/graph.go", fn := "Graph.TrimTree", kind := .pick, sink := "pick:assign", sorted := false, total := false, returned := false },
    verdict := .orderIrrelevant "the parent of a tree node: cur.In has exactly one entry here (len checked just above, panics otherwise)" },
  { site := { file := "internal/driver/cli.go", fn := "outputFormat", kind := .pick, sink := "pick:assign", sorted := false, total := false, returned := false },
    verdict := .orderIrrelevant "the selected output format: a second selected entry is an error whatever the order, so at most one entry ever assigns" },
  -- pick:first-element — s[0] of a slice collected in a map walk, read before any sort
  { site := { file := "internal/driver/cli.go", fn := "installConfigFlags", kind := .pick, sink := "pick:first-element", sorted := false, total := false, returned := false },
    verdict := .orderIrrelevant "set[0] is read only in the branch len(set) == 1" },
  { site := { file := "internal/driver/interactive.go", fn := "matchVariableOrCommand", kind := .pick, sink := "pick:first-element", sorted := false, total := false, returned := false },
    verdict := .orderIrrelevant "matches[0] is returned only when len(matches) == 1" },
  -- package profile (analysed since the seeded change C08-q: label keys feeding the merge key)
  { site := { file := "profile/filter.go", fn := "Profile.FilterTagsByName", kind := .delete, sink := "delete (from the ranged map)", sorted := false, total := false, returned := false },
    verdict := .orderIrrelevant "a label is removed iff its own key matches the regexps" },
  { site := { file := "profile/legacy_profile.go", fn := "cpuProfile", kind := .append, sink := "append", sorted := false, total := false, returned := false },
    verdict := .orderIrrelevant "cleanupDuplicateLocations: strips the second frame that occurs in at least N - N/32 of the N samples; the counts sum to at most N, so at most one address can qualify and the break takes that one" }
]

def sites : List Site := reviewed.map (·.site)

/-- the sites whose order-dependence can reach report output and is only hunted at run time -/
def huntedSites : List Reviewed := reviewed.filter (fun r => match r.verdict with | .hunted _ => true | _ => false)

end PV.Spec.MapRangesExpected
