import PprofVerif.Model.LegacyMap
/-!
# C14 — heap profiles (gperftools / Go legacy heap, growthz, fragmentationz): `parseHeap`

```
heap profile: <inuse n>: <inuse bytes> [<alloc n>: <alloc bytes>] @ <kind>[/<rate>]
<n>: <bytes> [<n>: <bytes>] @ 0x<addr> 0x<addr> …
…
--- Memory map: ---   |   MAPPED_LIBRARIES:
```
`kind` ∈ heapz_v2, heap_v2 (unsampled with rate), heap (unsampled with rate/2), heapprofile
(raw), growth[z], fragmentation[z] (raw).  Alloc columns are reported iff the header totals
differ (and the bracketed ones are not "0").
-/
namespace PV.Legacy
open PV

inductive HeapKind where
  | heapzV2 | heapV2 | heapprofile | heap | growth | growthz | fragmentation | fragmentationz
  deriving Repr, DecidableEq, Inhabited

def HeapKind.print : HeapKind → Str
  | .heapzV2 => asc "heapz_v2" | .heapV2 => asc "heap_v2" | .heapprofile => asc "heapprofile"
  | .heap => asc "heap" | .growth => asc "growth" | .growthz => asc "growthz"
  | .fragmentation => asc "fragmentation" | .fragmentationz => asc "fragmentationz"

def HeapKind.isHeap : HeapKind → Bool
  | .heapzV2 => true | .heapV2 => true | .heapprofile => true | .heap => true | _ => false

structure HeapRec where
  fill : List Filler
  indent : Nat
  inuseN : Int          -- the in-use columns may be negative (`(-?\d+)`: difference profiles)
  inuseB : Int
  allocN : Nat
  allocB : Nat
  addrs : List Nat
  deriving Repr, DecidableEq, Inhabited

structure HeapDoc where
  kind : HeapKind
  totInuseN : Nat
  totInuseB : Nat
  totAllocN : Nat
  totAllocB : Nat
  rate : Option Nat     -- `/<rate>` (heap kinds only)
  pad : Nat             -- extra blanks at the positions where the format allows them
  width : Nat           -- zero padding of addresses
  recs : List HeapRec
  post : List Filler
  libs : Bool           -- sentinel `MAPPED_LIBRARIES:` instead of `--- Memory map: ---`
  map : Option MapSection
  deriving Repr, DecidableEq, Inhabited

def heapNumbers (pad : Nat) (a b c d : Nat) : Str :=
  sp pad ++ dec a ++ [58] ++ sp (pad + 1) ++ dec b ++ sp (pad + 1) ++ [91] ++ sp pad ++ dec c ++ [58] ++
    sp (pad + 1) ++ dec d ++ sp pad ++ [93]

/-- the four numbers of a record: the in-use pair is signed -/
def heapNumbersZ (pad : Nat) (a b : Int) (c d : Nat) : Str :=
  sp pad ++ intStr a ++ [58] ++ sp (pad + 1) ++ intStr b ++ sp (pad + 1) ++ [91] ++ sp pad ++ dec c ++ [58] ++
    sp (pad + 1) ++ dec d ++ sp pad ++ [93]

def HeapDoc.headerLine (d : HeapDoc) : Str :=
  asc "heap profile: " ++ heapNumbers d.pad d.totInuseN d.totInuseB d.totAllocN d.totAllocB ++ asc " @ " ++
    d.kind.print ++ (match d.rate with | some r => if d.kind.isHeap then 47 :: dec r else [] | none => [])

def HeapRec.print (pad w : Nat) (r : HeapRec) : Str :=
  sp r.indent ++ heapNumbersZ pad r.inuseN r.inuseB r.allocN r.allocB ++ asc " @" ++ printAddrs w r.addrs

def HeapDoc.sentinel (d : HeapDoc) : Str := if d.libs then sentinelMappedLibraries else sentinelMemoryMap

def HeapDoc.lines (d : HeapDoc) : List Str :=
  [d.headerLine] ++ d.recs.flatMap (fun r => printFillers r.fill ++ [r.print d.pad d.width]) ++
    printFillers d.post ++ tailLines d.sentinel d.map

def printHeap (d : HeapDoc) : Str := unlines d.lines

/-- alloc columns reported? (`parseHeapHeader`; string comparison of canonical decimals =
numeric comparison) -/
def HeapDoc.hasAlloc (d : HeapDoc) : Bool :=
  d.kind.isHeap && ((d.totAllocN != d.totInuseN && d.totAllocN != 0) || (d.totAllocB != d.totInuseB && d.totAllocB != 0))

/-- sampling is "v2" (values are unsampled)? and the period -/
def HeapDoc.v2 (d : HeapDoc) : Bool :=
  match d.kind with | .heapzV2 => true | .heapV2 => true | .heap => true | _ => false

def HeapDoc.period (d : HeapDoc) : Nat :=
  match d.kind with
  | .heapzV2 => d.rate.getD 0 | .heapV2 => d.rate.getD 0
  | .heap => d.rate.getD 0 / 2
  | _ => 1

def HeapRec.wf (hasAlloc : Bool) (r : HeapRec) : Bool :=
  r.fill.all Filler.wf && decide (-(two63 : Int) ≤ r.inuseN ∧ r.inuseN < (two63 : Int)) &&
  decide (-(two63 : Int) ≤ r.inuseB ∧ r.inuseB < (two63 : Int)) && r.allocN < two63 && r.allocB < two63 &&
  (r.inuseN != 0 || r.inuseB == 0) && (!hasAlloc || r.allocN != 0 || r.allocB == 0) &&
  r.addrs.all (· < two64)

def HeapDoc.wf (d : HeapDoc) : Bool :=
  d.recs.all (HeapRec.wf d.hasAlloc) && d.post.all Filler.wf && d.rate.all (· < two63) &&
  d.totInuseN < two63 && d.totInuseB < two63 && d.totAllocN < two63 && d.totAllocB < two63 &&
  (match d.map with | none => true | some m => m.wf)

/-- The float part of `scaleHeapSample`: `(count, size, rate) ↦ (int64(count·s), int64(size·s))`
with `s = 1/(1−exp(−(size/count)/rate))` — a parameter of the model; count and size are signed
(negative in-use columns of difference profiles go through the same formula). -/
abbrev ScaleFn := Int → Int → Nat → Int × Int

/-- `addValues` on one (count, size) pair: the documented unsampling rule.  Only a count of
exactly 0 is left alone; negative counts are unsampled like positive ones. -/
def unsample (scale : ScaleFn) (v2 : Bool) (rate : Nat) (c s : Int) : Int × Int :=
  if c == 0 then (0, s)
  else if !v2 then (c, s)
  else if s == 0 then (0, 0)
  else if rate ≤ 1 then (c, s)
  else scale c s rate

def heapSampleTypes (hasAlloc : Bool) : List ValueType :=
  if hasAlloc then [vt "alloc_objects" "count", vt "alloc_space" "bytes", vt "inuse_objects" "count", vt "inuse_space" "bytes"]
  else [vt "objects" "count", vt "space" "bytes"]

def heapHeader (hasAlloc : Bool) (period : Nat) : Header :=
  { sampleType := heapSampleTypes hasAlloc, periodType := some (vt "space" "bytes"), period := period,
    durationNanos := 0, dropFrames := allocRxStr, keepFrames := allocSkipRxStr }

/-- values, block size and addresses of one record (shared shape of expected and parser). -/
def heapSample (scale : ScaleFn) (hasAlloc v2 : Bool) (rate : Nat) (inN inB : Int) (alN alB : Nat) (addrs : List Nat) : RawSample :=
  let a := unsample scale v2 rate (alN : Int) (alB : Int)
  let i := unsample scale v2 rate inN inB
  -- block size: bytes/count (Go integer division) of the in-use pair unless its count is 0, then
  -- of the alloc pair (when reported)
  let blocksize : Int := if inN != 0 then goDiv inB inN else if hasAlloc && alN != 0 then ((alB / alN : Nat) : Int) else 0
  { addrs := addrs.map decr64,
    values := if hasAlloc then [a.1, a.2, i.1, i.2] else [i.1, i.2],
    numLabel := [(asc "bytes", [blocksize])] }

def expectedHeap (scale : ScaleFn) (d : HeapDoc) : Profile :=
  let ss := d.recs.map (fun r => heapSample scale d.hasAlloc d.v2 d.period r.inuseN r.inuseB r.allocN r.allocB r.addrs)
  finish (heapHeader d.hasAlloc d.period) ss ss (tailMappings d.map)

/-! ### parser (mirrors `parseHeap`, `parseHeapHeader`, `parseHeapSample`) -/
/-- ` *(\d+):` → capture, rest -/
def reNumColon (s : Str) : Option (Str × Str) := do
  let (a, s) ← reDigits (skipSp s)
  let s ← stripPrefix [58] s
  pure (a, s)

/-- ` *(\d+) *c` for a literal byte `c` → capture, rest -/
def reNumThen (c : UInt8) (s : Str) : Option (Str × Str) := do
  let (a, s) ← reDigits (skipSp s)
  let s ← stripPrefix [c] (skipSp s)
  pure (a, s)

/-- ` *(\d+): *(\d+) *\[ *(\d+): *(\d+) *\]` → four captures, rest -/
def reFourNumbers (s : Str) : Option (Str × Str × Str × Str × Str) := do
  let (a, s) ← reNumColon s
  let (b, s) ← reNumThen 91 s
  let (c, s) ← reNumColon s
  let (d, s) ← reNumThen 93 s
  pure (a, b, c, d, s)

def isHeapNameByte (b : UInt8) : Bool := b.toNat == 95 || isDigit b || decide (97 ≤ b.toNat ∧ b.toNat ≤ 122)

/-- heapHeaderRE at one position → h1 h2 h3 h4 name rate-digits -/
def matchHeapHeaderAt (s : Str) : Option (Str × Str × Str × Str × Str × Str) := do
  let s ← stripPrefix (asc "heap profile:") s
  let (a, b, c, d, s) ← reFourNumbers s
  let s ← stripPrefix [64] (skipSp s)
  let s ← stripPrefix (asc "heap") (skipSp s)
  let name := asc "heap" ++ s.takeWhile isHeapNameByte
  let s := s.dropWhile isHeapNameByte
  let s := (stripPrefix [47] s).getD s
  pure (a, b, c, d, name, s.takeWhile isDigit)

/-- growthHeaderRE / fragmentationHeaderRE at one position -/
def matchOtherHeaderAt (kind : Str) (s : Str) : Option Unit := do
  let s ← stripPrefix (asc "heap profile:") s
  let (_, _, _, _, s) ← reFourNumbers s
  let _ ← stripPrefix (asc " @ " ++ kind) s
  pure ()

/-- `parseHeapHeader`: sampling is v2?, period, hasAlloc -/
def parseHeapHeader (line : Str) : Outcome (Bool × Nat × Bool) :=
  match searchRe matchHeapHeaderAt line with
  | none => .err "unrecognized"
  | some (h1, h2, h3, h4, name, rate) =>
    let period? : Option Nat := if rate.isEmpty then some 0 else parseI64 rate
    match period? with
    | none => .err "unrecognized"
    | some period =>
      let hasAlloc := (h3 != h1 && h3 != asc "0") || (h4 != h2 && h4 != asc "0")
      if name == asc "heapz_v2" || name == asc "heap_v2" then .ok (true, period, hasAlloc)
      else if name == asc "heapprofile" then .ok (false, 1, hasAlloc)
      else if name == asc "heap" then .ok (true, period / 2, hasAlloc)
      else .err "unrecognized"

/-- ` *(-?\d+):` → capture, rest -/
def reSNumColon (s : Str) : Option (Str × Str) := do
  let (a, s) ← reSDigits (skipSp s)
  let s ← stripPrefix [58] s
  pure (a, s)

/-- ` *(-?\d+) *c` for a literal byte `c` → capture, rest -/
def reSNumThen (c : UInt8) (s : Str) : Option (Str × Str) := do
  let (a, s) ← reSDigits (skipSp s)
  let s ← stripPrefix [c] (skipSp s)
  pure (a, s)

/-- ` *(-?\d+): *(-?\d+) *\[ *(\d+): *(\d+) *\]` → four captures, rest -/
def reFourNumbersZ (s : Str) : Option (Str × Str × Str × Str × Str) := do
  let (a, s) ← reSNumColon s
  let (b, s) ← reSNumThen 91 s
  let (c, s) ← reNumColon s
  let (d, s) ← reNumThen 93 s
  pure (a, b, c, d, s)

/-- heapSampleRE `(-?\d+): *(-?\d+) *\[ *(\d+): *(\d+) *] @([ x0-9a-f]*)` at one position (blanks in
front of the first number are skipped, which gives the captures of the regexp's leftmost
match) → four captures and the address text -/
def matchHeapSampleAt (s : Str) : Option (Str × Str × Str × Str × Str) := do
  let (a, b, c, d, s) ← reFourNumbersZ s
  let s ← stripPrefix (asc " @") s
  pure (a, b, c, d, s.takeWhile (fun x => x.toNat == 32 || x.toNat == 120 || isHexLower x))

/-- `parseHeapSample` -/
def parseHeapSample (scale : ScaleFn) (line : Str) (rate : Nat) (v2 hasAlloc : Bool) : Outcome RawSample :=
  match searchRe matchHeapSampleAt line with
  | none => .err "unexpected number of sample values"
  | some (a, b, c, d, addrText) =>
    match parseI64Z a, parseI64Z b, parseI64 c, parseI64 d with
    | some inN, some inB, some alN, some alB =>
      if hasAlloc && alN == 0 && alB != 0 then .err "allocation count was 0 but bytes was not"
      else if inN == 0 && inB != 0 then .err "inuse count was 0 but bytes was not"
      else
        match parseHexAddresses addrText with
        | none => .err "malformed sample"
        | some addrs => .ok (heapSample scale hasAlloc v2 rate inN inB alN alB addrs)
    | _, _, _, _ => .err "malformed sample"

def heapLoop (scale : ScaleFn) (rate : Nat) (v2 hasAlloc : Bool) :
    List Str → List RawSample → Outcome (List RawSample × Str × List Str)
  | [], acc => .ok (acc.reverse, [], [])
  | l :: r, acc =>
    let line := trimSpace l
    if isSpaceOrComment line then heapLoop scale rate v2 hasAlloc r acc
    else if isMemoryMapSentinel line then .ok (acc.reverse, l, r)
    else
      match parseHeapSample scale line rate v2 hasAlloc with
      | .ok s => heapLoop scale rate v2 hasAlloc r (s :: acc)
      | .err e => .err e
      | .panic e => .panic e

def parseHeapLines (scale : ScaleFn) : List Str → Outcome Profile
  | [] => .err "unrecognized"
  | hd :: rest =>
    let hdr : Outcome (Bool × Nat × Bool) :=
      if (searchRe matchHeapHeaderAt hd).isSome then parseHeapHeader hd
      else if (searchRe (matchOtherHeaderAt (asc "growth")) hd).isSome then .ok (false, 1, false)
      else if (searchRe (matchOtherHeaderAt (asc "fragmentation")) hd).isSome then .ok (false, 1, false)
      else .err "unrecognized"
    match hdr with
    | .err e => .err e
    | .panic e => .panic e
    | .ok (v2, period, hasAlloc) =>
      match heapLoop scale period v2 hasAlloc rest [] with
      | .ok (ss, cur, rest') => .ok (finish (heapHeader hasAlloc period) ss ss (parseAdditionalSections cur rest'))
      | .err e => .err e
      | .panic e => .panic e

def parseHeap (scale : ScaleFn) (b : Str) : Outcome Profile := parseHeapLines scale (splitLines b)

end PV.Legacy
