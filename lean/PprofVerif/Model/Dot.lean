import PprofVerif.Base.Basic
/-
C18 — DOT side.

* `escape` mirrors `escapeForDot` of internal/graph/dotgraph.go: three nested
  `strings.ReplaceAll` calls with one-byte patterns (Go strings are byte sequences, the model
  is bytewise, so non-UTF-8 names are covered).
* `scanQ`/`lexQuoted`/`lex` is a lexer for the DOT subset pprof emits, following Graphviz's
  scanner (lib/cgraph/scan.l): inside a quoted string `\"` and `\\` are two-byte units, any other
  backslash is kept, the string ends at the first quote that is not the second byte of a unit.
* `parse` is a recursive-descent parser for: `digraph ID? { stmt* }` with statements
  `node|edge|graph attr_list`, `ID attr_list?` (node), `ID (-> ID)+ attr_list?` (edge),
  `ID = ID`, `subgraph ID? { stmt* }`, each optionally followed by `;`.  Anything outside the
  subset is rejected (the safe side for "is syntactically valid").  It returns the declared
  node statements (with attributes) and the edge endpoints.
Core Lean only: linked into pvdrv-C18 and run on the REAL output of pprof.
-/
namespace PV
namespace Dot

abbrev Bytes := List UInt8

def BS : UInt8 := 0x5c   -- backslash
def DQ : UInt8 := 0x22   -- double quote
def NL : UInt8 := 0x0a   -- newline
def LL : UInt8 := 0x6c   -- 'l'

/-- `strings.ReplaceAll(s, string(c), rep)` for a one-byte pattern `c`. -/
def replaceByte (c : UInt8) (rep : Bytes) : Bytes → Bytes
  | [] => []
  | b :: r => if b = c then rep ++ replaceByte c rep r else b :: replaceByte c rep r

/-- dotgraph.go `escapeForDot`:
`ReplaceAll(ReplaceAll(ReplaceAll(str, "\\", "\\\\"), "\"", "\\\""), "\n", "\\l")` — the one-byte
patterns and their replacements, innermost call first.  `Gen/DotSites.lean` regenerates this
list from the source and Props/C18 compares (`escape_spec_matches`). -/
def escapeSpec : List (UInt8 × Bytes) := [(BS, [BS, BS]), (DQ, [BS, DQ]), (NL, [BS, LL])]

def escape (s : Bytes) : Bytes :=
  escapeSpec.foldl (fun acc p => replaceByte p.1 p.2 acc) s

/-- what `escape` does to one byte (proved equal in Lemmas/DotEscape). -/
def escByte (b : UInt8) : Bytes :=
  if b = BS then [BS, BS] else if b = DQ then [BS, DQ] else if b = NL then [BS, LL] else [b]

/-- Graphviz's reading of an escString body as displayed text, restricted to what `escape`
produces: `\\`→`\`, `\"`→`"`, `\l` and `\n` → line break, any other `\x` → `x`. -/
def unescapeA : Bool → Bytes → Bytes
  | _, [] => []
  | true, c :: r => (if c = LL || c = 0x6e then NL else c) :: unescapeA false r
  | false, b :: r => if b = BS then unescapeA true r else b :: unescapeA false r

def unescape (s : Bytes) : Bytes := unescapeA false s

/-! ### lexer -/

/-- Scan the body of a quoted string (the opening quote already consumed): returns the raw body
(escape units intact) and the input after the closing quote; `none` when unterminated. -/
def scanA : Bool → Bytes → Option (Bytes × Bytes)
  | _, [] => none
  | true, c :: r => (scanA false r).map fun p => (c :: p.1, p.2)   -- second byte of a `\x` unit
  | false, b :: r =>
    if b = DQ then some ([], r)
    else if b = BS then (scanA true r).map fun p => (b :: p.1, p.2)
    else (scanA false r).map fun p => (b :: p.1, p.2)

def scanQ (s : Bytes) : Option (Bytes × Bytes) := scanA false s

/-- A quoted string token at the head of the input. -/
def lexQuoted : Bytes → Option (Bytes × Bytes)
  | [] => none
  | b :: r => if b = DQ then scanQ r else none

/-- `body` can stand between two quotes: scanning it ends exactly at the closing quote.  Boolean
form, structural, so literal fragments are checked by `decide`. -/
def qsafeA : Bool → Bytes → Bool
  | esc, [] => !esc
  | true, _ :: r => qsafeA false r
  | false, b :: r => if b = DQ then false else if b = BS then qsafeA true r else qsafeA false r

def qsafeB (s : Bytes) : Bool := qsafeA false s

inductive Tok where
  | id (s : Bytes)     -- bare identifier or numeral
  | str (raw : Bytes)  -- quoted string, raw body
  | lbrace | rbrace | lbrack | rbrack | eq | arrow | semi | comma
  deriving Repr, DecidableEq

def isDigit (b : UInt8) : Bool := 0x30 ≤ b && b ≤ 0x39
def isIdByte (b : UInt8) : Bool :=
  (0x41 ≤ b && b ≤ 0x5a) || (0x61 ≤ b && b ≤ 0x7a) || isDigit b || b = 0x5f || 0x80 ≤ b
def isSpace (b : UInt8) : Bool := b = 0x20 || b = 0x09 || b = 0x0a || b = 0x0d

/-- Graphviz: an unquoted ID is a name not starting with a digit, or a numeral (digits only here). -/
def validId : Bytes → Bool
  | [] => false
  | b :: r => if isDigit b then r.all isDigit else true

/-- one step of the lexer: end of input, skipped white space, one token, or an error -/
inductive Step where
  | eof
  | skip (rest : Bytes)
  | tok (t : Tok) (rest : Bytes)
  | fail
  deriving Repr, DecidableEq

/-- what the first byte of a token announces -/
inductive BCls where
  | space | quote | punct (t : Tok) | dash | idb | bad
  deriving Repr, DecidableEq

def bcls (b : UInt8) : BCls :=
  if isSpace b then .space
  else if b = DQ then .quote
  else if b = 0x7b then .punct .lbrace
  else if b = 0x7d then .punct .rbrace
  else if b = 0x5b then .punct .lbrack
  else if b = 0x5d then .punct .rbrack
  else if b = 0x3d then .punct .eq
  else if b = 0x3b then .punct .semi
  else if b = 0x2c then .punct .comma
  else if b = 0x2d then .dash
  else if isIdByte b then .idb
  else .bad

def lexStep : Bytes → Step
  | [] => .eof
  | b :: r =>
    match bcls b with
    | .space => .skip r
    | .quote =>
      (match scanQ r with
       | some (body, rest) => .tok (.str body) rest
       | none => .fail)
    | .punct t => .tok t r
    | .dash =>
      (match r with
       | c :: r' => if c = 0x3e then .tok .arrow r' else .fail
       | [] => .fail)
    | .idb =>
      if validId ((b :: r).takeWhile isIdByte) then
        .tok (.id ((b :: r).takeWhile isIdByte)) ((b :: r).dropWhile isIdByte)
      else .fail
    | .bad => .fail

/-- the lexer; every step consumes at least one byte, so `fuel = length + 1` suffices -/
def lexF : Nat → Bytes → Option (List Tok)
  | 0, _ => none
  | f + 1, s =>
    match lexStep s with
    | .eof => some []
    | .skip r => lexF f r
    | .tok t r => (lexF f r).map (t :: ·)
    | .fail => none

def lex (s : Bytes) : Option (List Tok) := lexF (s.length + 1) s

/-! ### parser -/

structure NodeStmt where
  id : Bytes
  attrs : List (Bytes × Bytes)
  deriving Repr, DecidableEq

structure Graph where
  name : Option Bytes
  nodes : List NodeStmt
  edges : List (Bytes × Bytes)
  deriving Repr, DecidableEq

/-- In DOT the only escape the *lexer* removes from a quoted ID is `\"`. -/
def unquoteA : Bool → Bytes → Bytes
  | esc, [] => if esc then [BS] else []
  | true, c :: r => if c = DQ then DQ :: unquoteA false r else BS :: c :: unquoteA false r
  | false, b :: r => if b = BS then unquoteA true r else b :: unquoteA false r

def unquote (s : Bytes) : Bytes := unquoteA false s

def lower (b : UInt8) : UInt8 := if 0x41 ≤ b && b ≤ 0x5a then b + 0x20 else b

def kwDigraph : Bytes := [0x64,0x69,0x67,0x72,0x61,0x70,0x68]
def kwSubgraph : Bytes := [0x73,0x75,0x62,0x67,0x72,0x61,0x70,0x68]
def kwGraph : Bytes := [0x67,0x72,0x61,0x70,0x68]
def kwNode : Bytes := [0x6e,0x6f,0x64,0x65]
def kwEdge : Bytes := [0x65,0x64,0x67,0x65]
def kwStrict : Bytes := [0x73,0x74,0x72,0x69,0x63,0x74]

/-- keywords are case-independent and only recognised unquoted -/
def isKw (s : Bytes) : Bool :=
  let l := s.map lower
  l = kwDigraph || l = kwSubgraph || l = kwGraph || l = kwNode || l = kwEdge || l = kwStrict

/-- the value of a token used as an ID (keywords excluded) -/
def idVal : Tok → Option Bytes
  | .id s => if isKw s then none else some s
  | .str raw => some (unquote raw)
  | _ => none

/-- the *raw* value of a token used as an attribute value (escapes kept, they belong to the
attribute's escString reading) -/
def attrVal : Tok → Option Bytes
  | .id s => if isKw s then none else some s
  | .str raw => some raw
  | _ => none

def skipSep : List Tok → List Tok
  | .semi :: r => r
  | .comma :: r => r
  | r => r

def skipSemi : List Tok → List Tok
  | .semi :: r => r
  | r => r

/-- attribute items after `[` up to and including `]` -/
def pAttrItems : Nat → List Tok → Option (List (Bytes × Bytes) × List Tok)
  | 0, _ => none
  | _ + 1, .rbrack :: r => some ([], r)
  | f + 1, k :: .eq :: v :: r =>
    match idVal k, attrVal v with
    | some kv, some vv =>
      match pAttrItems f (skipSep r) with
      | some (items, rest) => some ((kv, vv) :: items, rest)
      | none => none
    | _, _ => none
  | _ + 1, _ => none

/-- zero or more `[ … ]` groups -/
def pAttrLists : Nat → List Tok → Option (List (Bytes × Bytes) × List Tok)
  | 0, _ => none
  | f + 1, .lbrack :: r =>
    match pAttrItems f r with
    | some (a, r1) =>
      match pAttrLists f r1 with
      | some (b, r2) => some (a ++ b, r2)
      | none => none
    | none => none
  | _ + 1, r => some ([], r)

/-- `(-> ID)*` after the first endpoint `src` -/
def pEdgeRhs : Nat → Bytes → List Tok → Option (List (Bytes × Bytes) × List Tok)
  | 0, _, _ => none
  | f + 1, src, .arrow :: t :: r =>
    match idVal t with
    | some d =>
      match pEdgeRhs f d r with
      | some (es, r') => some ((src, d) :: es, r')
      | none => none
    | none => none
  | _ + 1, _, .arrow :: [] => none
  | _ + 1, _, r => some ([], r)

structure Acc where
  nodes : List NodeStmt
  edges : List (Bytes × Bytes)
  deriving Repr, DecidableEq

def Acc.empty : Acc := ⟨[], []⟩
def Acc.append (a b : Acc) : Acc := ⟨a.nodes ++ b.nodes, a.edges ++ b.edges⟩

/-- the rest of a statement whose first token was the ID `i`; `cont` parses the following
statements (it is `pStmts f depth`) -/
def stmtAfterId (cont : List Tok → Option (Acc × List Tok)) (f : Nat) (i : Bytes) (r : List Tok) :
    Option (Acc × List Tok) :=
  match r with
  | .eq :: v :: r1 =>
    match attrVal v with
    | some _ => cont (skipSemi r1)
    | none => none
  | .arrow :: _ =>
    match pEdgeRhs f i r with
    | some (es, r1) =>
      match pAttrLists f r1 with
      | some (_, r2) =>
        match cont (skipSemi r2) with
        | some (more, r3) => some ((Acc.mk [] es).append more, r3)
        | none => none
      | none => none
    | none => none
  | _ =>
    match pAttrLists f r with
    | some (attrs, r1) =>
      match cont (skipSemi r1) with
      | some (more, r2) => some ((Acc.mk [⟨i, attrs⟩] []).append more, r2)
      | none => none
    | none => none

/-- optional subgraph / graph name before `{` -/
def skipOptName : List Tok → List Tok
  | .lbrace :: r => .lbrace :: r
  | t :: r => (match idVal t with | some _ => r | none => t :: r)
  | [] => []

/-- statements up to and including the closing `}`; `depth` bounds subgraph nesting -/
def pStmts : Nat → Nat → List Tok → Option (Acc × List Tok)
  | 0, _, _ => none
  | _ + 1, _, [] => none
  | _ + 1, _, .rbrace :: r => some (Acc.empty, r)
  | f + 1, depth, .id w :: r =>
    if (w.map lower) = kwSubgraph then
      match depth with
      | 0 => none
      | d + 1 =>
        match skipOptName r with
        | .lbrace :: r2 =>
          match pStmts f d r2 with
          | some (inner, r3) =>
            match pStmts f (d + 1) (skipSemi r3) with
            | some (more, r4) => some (inner.append more, r4)
            | none => none
          | none => none
        | _ => none
    else if (w.map lower) = kwNode || (w.map lower) = kwEdge || (w.map lower) = kwGraph then
      match r with
      | .lbrack :: _ =>
        match pAttrLists f r with
        | some (_, r1) => pStmts f depth (skipSemi r1)
        | none => none
      | _ => none
    else if isKw w then none
    else stmtAfterId (pStmts f depth) f w r
  | f + 1, depth, .str raw :: r => stmtAfterId (pStmts f depth) f (unquote raw) r
  | _ + 1, _, _ => none

/-- graph name before `{` -/
def optName : List Tok → Option Bytes × List Tok
  | .lbrace :: r => (none, .lbrace :: r)
  | t :: r => (match idVal t with | some n => (some n, r) | none => (none, t :: r))
  | [] => (none, [])

/-- `digraph ID? { stmt* }` and nothing after it -/
def parseToks (ts : List Tok) : Option Graph :=
  match ts with
  | .id w :: r =>
    if (w.map lower) = kwDigraph then
      match optName r with
      | (name, .lbrace :: r2) =>
        match pStmts (ts.length + 1) 1 r2 with
        | some (acc, []) => some ⟨name, acc.nodes, acc.edges⟩
        | _ => none
      | _ => none
    else none
  | _ => none

def parse (s : Bytes) : Option Graph :=
  match lex s with
  | some ts => parseToks ts
  | none => none

/-- ids of the node statements -/
def Graph.declared (g : Graph) : List Bytes := g.nodes.map (·.id)

/-- edge endpoints that no node statement declares -/
def Graph.undeclared (g : Graph) : List Bytes :=
  (g.edges.flatMap fun e => [e.1, e.2]).filter fun i => !(g.declared.contains i)

/-- the whole check the harness applies to real output -/
def wellFormed (s : Bytes) : Bool :=
  match parse s with
  | some g => g.undeclared.isEmpty
  | none => false

end Dot
end PV
