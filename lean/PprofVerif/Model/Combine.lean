import PprofVerif.Base.Basic
/-!
# Model for C07 — combining and subtracting profiles (core Lean only)

An abstract *weight-function* model of what `internal/driver/fetch.go` does with several source
and base profiles before a report is made:

* `Prof` — a profile seen as a finite multiset of `(stack key, value vector)` samples;
* `figure sel φ p = Σ_{s ∈ p | φ s.key} sel s.values` — every figure of a report (flat and cum of a
  `-top` entry, the value of a `-traces` stack, the total) has this form for the report's
  `SampleValue` function `sel` and a predicate `φ` on stacks;
* `merge` (profile.Merge restricted to keys and values), `combine` (fetch.go `combineProfiles`);
* `scaleN`/`scale` (profile.go `ScaleN`/`Scale`) over exact rationals with round-half-away-from-zero,
  which is `int64(math.Round(float64(v)*ratio))` as long as `|v·num| ≤ 2^53`; the survival rule
  is the REPAIRED one (fixes/C07-scalen-keep-nonzero.patch: every column is considered);
  `scaleNPinned` is the rule of the pinned tree, kept to state the defect;
* `scaleNeg1` — `Scale(-1)` as the code really computes it, through `float64` (`rne53`);
* `normalize` (merge.go `Normalize`), `compatibilize` (merge.go `CompatibilizeSampleTypes`),
  `commonUnit`/`scaleProfiles` (measurement.go `CommonValueType`/`ScaleProfiles`) with units given
  as (family, integer factor) pairs, `setBase` (`SetLabel("pprof::base")`), `diffBaseTotal`
  (report.go `computeTotal`), and `fetch` (fetch.go `fetchProfiles` up to the merge).

Precondition of the CLI pipeline used throughout (`WF`): every sample has exactly one value per
sample type — `profile.Parse` enforces it (`CheckValid`) on every input file.
Sums are in `Int` (no int64 wrap-around; the generators stay far below 2^63).
-/
namespace PV.Combine

/-- Identity of a sample for merging: the semantic frames (leaf first), every other
distinguishing attribute (labels …) folded into `tag`, and whether it carries the label
`pprof::base=true`. -/
structure StackKey where
  frames : List Nat
  tag : Nat
  base : Bool
  deriving DecidableEq, Repr

abbrev Vals := List Int
abbrev Sample := StackKey × Vals
abbrev Prof := List Sample

/-- every sample has `n` values. -/
def WF (n : Nat) (p : Prof) : Prop := ∀ s ∈ p, s.2.length = n
def wfB (n : Nat) (p : Prof) : Bool := p.all (fun s => s.2.length == n)

/-- Spec-level column projection (`v[i]`, total extension by 0; the executable report functions
below return `.panic` outside the range instead). -/
def col (i : Nat) (v : Vals) : Int := (v[i]?).getD 0

/-- Go `v[i]` with its run-time check: the report's `SampleValue` for `-sample_index=i`. -/
def sampleValue (i : Nat) (v : Vals) : Outcome Int :=
  match v[i]? with
  | some x => .ok x
  | none => .panic "index out of range"

/-- A figure of a report: the sum of `sel values` over the samples whose stack satisfies `φ`. -/
def figure (sel : Vals → Int) (φ : StackKey → Bool) : Prof → Int
  | [] => 0
  | s :: r => (if φ s.1 then sel s.2 else 0) + figure sel φ r

/-- the same with Go's index check on every selected sample. -/
def figureO (i : Nat) (φ : StackKey → Bool) : Prof → Outcome Int
  | [] => .ok 0
  | s :: r =>
    if φ s.1 then
      match sampleValue i s.2, figureO i φ r with
      | .ok x, .ok y => .ok (x + y)
      | .ok _, e => e
      | .panic m, _ => .panic m
      | .err m, _ => .err m
    else figureO i φ r

/-- nodes (functions) of a frame: `nodesOf loc` lists them leaf first (inlined callee first). -/
def stackNodes (nodesOf : Nat → List Nat) (k : StackKey) : List Nat := k.frames.flatMap nodesOf
/-- `flat` of node `n`: samples whose leaf-most node is `n`. -/
def flatPred (nodesOf : Nat → List Nat) (n : Nat) (k : StackKey) : Bool :=
  (stackNodes nodesOf k).head? == some n
/-- `cum` of node `n`: samples whose stack contains `n` (counted once per sample). -/
def cumPred (nodesOf : Nat → List Nat) (n : Nat) (k : StackKey) : Bool :=
  (stackNodes nodesOf k).contains n

/-! ## merge -/

def vadd (a b : Vals) : Vals := List.zipWith (· + ·) a b
def isZero (v : Vals) : Bool := v.all (· == 0)

/-- `profileMerger.mapSample`: add to the sample with the same key or append a new one. -/
def addSample : Prof → Sample → Prof
  | [], s => [s]
  | (k, v) :: r, s => if k = s.1 then (k, vadd v s.2) :: r else (k, v) :: addSample r s

def mergeRaw (p : Prof) : Prof := p.foldl addSample []
def dropZero (p : Prof) : Prof := p.filter (fun s => !isZero s.2)
/-- `profile.Merge` on keys and values: all-zero input samples are skipped, equal keys are
summed, and all-zero results are removed by the re-merge. -/
def merge (p : Prof) : Prof := dropZero (mergeRaw (dropZero p))

/-- `combineProfiles` after type alignment: one profile is returned as it is. -/
def combine : List Prof → Prof
  | [p] => p
  | ps => merge ps.flatten

/-! ## Scale / ScaleN -/

/-- an exact ratio `num/den`, `den > 0`. -/
structure Ratio where
  num : Int
  den : Nat
  pos : 0 < den

def Ratio.mk? (n : Int) (d : Nat) : Option Ratio := if h : 0 < d then some ⟨n, d, h⟩ else none
def Ratio.ofInt (k : Int) : Ratio := ⟨k, 1, Nat.one_pos⟩
def Ratio.isOne (r : Ratio) : Bool := r.num == (r.den : Int)

/-- `math.Round(a/d)`: nearest integer, halves away from zero. -/
def roundHalfAway (a : Int) (d : Nat) : Int :=
  let q : Int := (((2 * a.natAbs + d) / (2 * d) : Nat) : Int)
  if a < 0 then -q else q

/-- `int64(math.Round(float64(v) * ratio))` over exact rationals. -/
def scaleVal (r : Ratio) (v : Int) : Int := roundHalfAway (v * r.num) r.den

/-- the loop body of `ScaleN`: columns whose ratio is 1 are left untouched. -/
def scaleVec (rs : List Ratio) (v : Vals) : Vals :=
  List.zipWith (fun r x => if r.isOne then x else scaleVal r x) rs v

/-- `Profile.ScaleN` (repaired survival rule: a sample is kept iff some value is non-zero after
scaling).  `n` = `len(p.SampleType)`. -/
def scaleN (rs : List Ratio) (n : Nat) (p : Prof) : Outcome Prof :=
  if n ≠ rs.length then .err "mismatched scale ratios"
  else if rs.all Ratio.isOne then .ok p
  else if p.any (fun s => rs.length < s.2.length) then .panic "index out of range"
  else .ok (dropZero (p.map (fun s => (s.1, scaleVec rs s.2))))

/-- survival rule of the pinned tree: only columns with ratio ≠ 1 are looked at (defect #5). -/
def keepPinned (rs : List Ratio) (v : Vals) : Bool :=
  (List.zipWith (fun r x => !r.isOne && scaleVal r x != 0) rs v).any id
def scaleNPinned (rs : List Ratio) (n : Nat) (p : Prof) : Outcome Prof :=
  if n ≠ rs.length then .err "mismatched scale ratios"
  else if rs.all Ratio.isOne then .ok p
  else if p.any (fun s => rs.length < s.2.length) then .panic "index out of range"
  else .ok ((p.filter (fun s => keepPinned rs s.2)).map (fun s => (s.1, scaleVec rs s.2)))

/-- `Profile.Scale(ratio)`. -/
def scale (r : Ratio) (n : Nat) (p : Prof) : Outcome Prof :=
  if r.isOne then .ok p else scaleN (List.replicate n r) n p

/-- exact negation of every value; all-zero samples disappear (what `Scale(-1)` means). -/
def neg (p : Prof) : Prof := dropZero (p.map (fun s => (s.1, s.2.map (fun x => -x))))

/-- `float64(v)` for an integer `v`, as an exact integer: round to 53 significant bits, ties to
even.  Integers up to 2^53 in magnitude are representable. -/
def rne53 (v : Int) : Int :=
  let n := v.natAbs
  if n ≤ 2 ^ 53 then v else
  let sh := Nat.log2 n - 52
  let q := n / 2 ^ sh
  let r := n % 2 ^ sh
  let half := 2 ^ (sh - 1)
  let q' := if r > half ∨ (r = half ∧ q % 2 = 1) then q + 1 else q
  let m : Int := ((q' * 2 ^ sh : Nat) : Int)
  if v < 0 then -m else m

/-- `int64(math.Round(float64(v) * -1))`, as the code computes it. -/
def negF64 (v : Int) : Int := - rne53 v

/-- `pbase.Scale(-1)` as the code computes it (through float64). -/
def scaleNeg1 (p : Prof) : Prof := dropZero (p.map (fun s => (s.1, s.2.map negF64)))

/-- all values are exactly representable in float64. -/
def InF64 (p : Prof) : Prop := ∀ s ∈ p, ∀ x ∈ s.2, x.natAbs ≤ 2 ^ 53

/-! ## Normalize -/

def colSum (i : Nat) (p : Prof) : Int := figure (col i) (fun _ => true) p

/-- `normScale[i]`: 0 when the source total is 0, else base/source. -/
def normRatio (b s : Int) : Ratio :=
  if h : s = 0 then ⟨0, 1, Nat.one_pos⟩ else ⟨b * s.sign, s.natAbs, Int.natAbs_pos.mpr h⟩

def normRatios (n : Nat) (p pb : Prof) : List Ratio :=
  (List.range n).map (fun i => normRatio (colSum i pb) (colSum i p))

/-- `p.Normalize(pb)` (sample types already checked equal by the caller). -/
def normalize (n : Nat) (p pb : Prof) : Outcome Prof := scaleN (normRatios n p pb) n p
/-- the same with the survival rule of the pinned tree. -/
def normalizePinned (n : Nat) (p pb : Prof) : Outcome Prof := scaleNPinned (normRatios n p pb) n p

/-! ## sample types: alignment and unit harmonisation -/

/-- a unit string: its id, the family it is sniffed into (0 = none) and its factor in multiples
of the family's finest unit (bytes, nanoseconds). -/
structure UnitT where
  name : Nat
  fam : Nat
  factor : Nat
  deriving DecidableEq, Repr

structure ColT where
  typ : Nat          -- id of the sample type name
  unit : UnitT
  deriving DecidableEq, Repr

structure TProf where
  cols : List ColT
  samples : Prof
  deriving Repr

def TProf.types (p : TProf) : List Nat := p.cols.map (·.typ)

/-- `sTypes[st.Type]++` over all profiles. -/
def countOcc (t : Nat) (ps : List TProf) : Nat := (ps.map (fun p => p.types.count t)).sum

/-- `commonSampleTypes`: types of the first profile that occur `len(ps)` times over all profiles. -/
def commonTypes : List TProf → List Nat
  | [] => []
  | p0 :: ps => p0.types.filter (fun t => countOcc t (p0 :: ps) == (p0 :: ps).length)

/-- `searchValueType`: first column with that type name. -/
def findCol (t : Nat) : List ColT → Option Nat
  | [] => none
  | c :: cs => if c.typ = t then some 0 else (findCol t cs).map (· + 1)

def mapMO {α β} (f : α → Option β) : List α → Option (List β)
  | [] => some []
  | a :: as => match f a, mapMO f as with
    | some b, some bs => some (b :: bs)
    | _, _ => none

/-- `compatibilizeSampleTypes p sTypes`. -/
def compatibilizeOne (st : List Nat) (p : TProf) : Outcome TProf :=
  if st = [] then .err "sample type list is empty" else
  match mapMO (fun t => findCol t p.cols) st with
  | none => .err "sample type is not found in profile"
  | some reMap =>
    if reMap = List.range st.length ∧ st.length = p.cols.length then .ok p else
    match mapMO (fun i => p.cols[i]?) reMap,
          mapMO (fun (s : Sample) => (mapMO (fun i => s.2[i]?) reMap).map (fun v => (s.1, v))) p.samples with
    | some cols, some ss => .ok ⟨cols, ss⟩
    | _, _ => .panic "index out of range"

def mapMOutcome {α β} (f : α → Outcome β) : List α → Outcome (List β)
  | [] => .ok []
  | a :: as => match f a with
    | .ok b => (match mapMOutcome f as with
      | .ok bs => .ok (b :: bs)
      | .err e => .err e
      | .panic e => .panic e)
    | .err e => .err e
    | .panic e => .panic e

/-- `profile.CompatibilizeSampleTypes`. -/
def compatibilize (ps : List TProf) : Outcome (List TProf) :=
  let st := commonTypes ps
  if st = [] then .err "profiles have empty common sample type list"
  else mapMOutcome (compatibilizeOne st) ps

/-- `compatibleValueTypes` for columns that already carry the same type name. -/
def compatibleCols (a b : ColT) : Bool :=
  a.typ == b.typ && (a.unit.name == b.unit.name || (a.unit.fam != 0 && a.unit.fam == b.unit.fam))

/-- `Scale(1, t.Unit, min.Unit) < 1`. -/
def finer (t min : UnitT) : Bool := t.fam != 0 && t.fam == min.fam && t.factor < min.factor

def commonUnitGo (min : ColT) : List ColT → Outcome ColT
  | [] => .ok min
  | t :: ts =>
    if !compatibleCols min t then .err "incompatible types"
    else commonUnitGo (if finer t.unit min.unit then t else min) ts

/-- `CommonValueType`: nothing for fewer than two, else the finest of compatible types. -/
def commonUnit : List ColT → Outcome (Option ColT)
  | [] => .ok none
  | [_] => .ok none
  | t :: ts => match commonUnitGo t ts with
    | .ok c => .ok (some c)
    | .err e => .err e
    | .panic e => .panic e

/-- `Scale(1, from, to)` for units of one family (or equal strings): an exact ratio. -/
def unitRatio (src dst : UnitT) : Ratio :=
  if h : src.fam ≠ 0 ∧ src.fam = dst.fam ∧ 0 < dst.factor then ⟨src.factor, dst.factor, h.2.2⟩
  else Ratio.ofInt 1

def transpose (n : Nat) (rows : List (List ColT)) : List (List ColT) :=
  (List.range n).map (fun i => rows.filterMap (fun r => r[i]?))

/-- the `ScaleN` in use: `scaleN` (repaired) or `scaleNPinned`. -/
abbrev ScaleFn := List Ratio → Nat → Prof → Outcome Prof

/-- `measurement.ScaleProfiles` on sample types and values (period type not modelled). -/
def scaleProfilesWith (sc : ScaleFn) (ps : List TProf) : Outcome (List TProf) :=
  match ps with
  | [] => .ok []
  | p0 :: _ =>
    let n := p0.cols.length
    if ps.any (fun p => p.cols.length != n) then .err "inconsistent samples type count" else
    match mapMOutcome commonUnit (transpose n (ps.map (·.cols))) with
    | .err e => .err e
    | .panic e => .panic e
    | .ok commons =>
      mapMOutcome (fun (p : TProf) =>
        let pairs := List.zip p.cols commons
        let ratios := pairs.map (fun (c, m) => match m with
          | none => Ratio.ofInt 1
          | some d => unitRatio c.unit d.unit)
        let cols := pairs.map (fun (c, m) => match m with
          | none => c
          | some d => { c with unit := d.unit })
        match sc ratios p.cols.length p.samples with
        | .ok ss => .ok ⟨cols, ss⟩
        | .err e => .err e
        | .panic e => .panic e) ps

def scaleProfiles : List TProf → Outcome (List TProf) := scaleProfilesWith scaleN

/-- `combineProfiles`: align types, harmonise units, merge. -/
def combineTWith (sc : ScaleFn) (ps : List TProf) : Outcome TProf :=
  match compatibilize ps with
  | .err e => .err e
  | .panic e => .panic e
  | .ok qs => match scaleProfilesWith sc qs with
    | .err e => .err e
    | .panic e => .panic e
    | .ok rs => match rs with
      | [] => .err "no profiles"
      | r0 :: _ => .ok ⟨r0.cols, combine (rs.map (·.samples))⟩

/-! ## base profiles -/

/-- `pbase.SetLabel("pprof::base", ["true"])`. -/
def setBase (p : Prof) : Prof := p.map (fun s => ({ s.1 with base := true }, s.2))

def absI (x : Int) : Int := if x < 0 then -x else x
def absTotal (sel : Vals → Int) : Prof → Int
  | [] => 0
  | s :: r => absI (sel s.2) + absTotal sel r

/-- report.go `computeTotal` (no mean divisor): the sum of |value| over the diff-base samples
when that is positive, else over all samples. -/
def diffBaseTotal (sel : Vals → Int) (p : Prof) : Int :=
  let d := absTotal sel (p.filter (fun s => s.1.base))
  if d > 0 then d else absTotal sel p

inductive Mode where | plain | base | diffBase
  deriving DecidableEq, Repr

/-- fetch.go `fetchProfiles` up to (and including) the final merge; `Scale(-1)` is exact here
(the float path `scaleNeg1` agrees on `InF64`). -/
def fetchWith (sc : ScaleFn) (nm : Nat → Prof → Prof → Outcome Prof) (m : Mode) (norm : Bool)
    (srcs bases : List TProf) : Outcome TProf :=
  match combineTWith sc srcs with
  | .err e => .err e
  | .panic e => .panic e
  | .ok p =>
    match m, bases with
    | .plain, _ => .ok p
    | _, [] => .ok p
    | _, _ =>
      match combineTWith sc bases with
      | .err e => .err e
      | .panic e => .panic e
      | .ok pb0 =>
        let pb1 : TProf := if m = .diffBase then ⟨pb0.cols, setBase pb0.samples⟩ else pb0
        let pn : Outcome TProf :=
          if norm then
            if p.cols != pb1.cols then .err "incompatible sample types"
            else match nm p.cols.length p.samples pb1.samples with
              | .ok ss => .ok ⟨p.cols, ss⟩
              | .err e => .err e
              | .panic e => .panic e
          else .ok p
        match pn with
        | .err e => .err e
        | .panic e => .panic e
        | .ok p' => combineTWith sc [p', ⟨pb1.cols, neg pb1.samples⟩]

def combineT : List TProf → Outcome TProf := combineTWith scaleN
def fetch : Mode → Bool → List TProf → List TProf → Outcome TProf := fetchWith scaleN normalize
/-- the pipeline with the survival rule of the pinned tree (known finding: used by the harness to
recognise exactly the consequences of that defect). -/
def fetchPinned : Mode → Bool → List TProf → List TProf → Outcome TProf := fetchWith scaleNPinned normalizePinned

end PV.Combine
