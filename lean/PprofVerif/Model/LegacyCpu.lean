import PprofVerif.Model.LegacyThread
/-!
# C14 — binary CPU profiles (gperftools "profilez"): `parseCPU`, `cpuProfile`, `parseCPUSamples`

A sequence of machine words (32 or 64 bit, little or big endian):
header `0 3 0 <period µs> 0`, then per record `<count> <n> <addr₁> … <addr_n>`, then the
end marker `0 1 0`, then (as text) the memory map.  Values `[count, count·period·1000]`; the leaf
address is left alone, callers are moved back by one; a second frame shared by at least
`n − n/32` of the `n` samples is a signal-handler artefact and is removed (the step is applied
twice); finally a duplicated leaf is removed.
-/
namespace PV.Legacy
open PV

structure CpuRec where
  count : Nat
  addrs : List Nat
  deriving Repr, DecidableEq, Inhabited

structure CpuDoc where
  big : Bool
  w64 : Bool
  period : Nat
  recs : List CpuRec
  eod : Bool                    -- end-of-data marker present
  map : Option MapSection       -- text after the marker (only with `eod`)
  deriving Repr, DecidableEq, Inhabited

/-- `n` as `k` little-endian bytes -/
def leBytes : Nat → Nat → Str
  | 0, _ => []
  | k+1, n => UInt8.ofNat (n % 256) :: leBytes k (n / 256)

def word (big w64 : Bool) (n : Nat) : Str :=
  let le := leBytes (if w64 then 8 else 4) n
  if big then le.reverse else le

def words (big w64 : Bool) (ns : List Nat) : Str := ns.flatMap (word big w64)

def CpuRec.words (r : CpuRec) : List Nat := r.count :: r.addrs.length :: r.addrs

def printCpu (d : CpuDoc) : Str :=
  words d.big d.w64 ([0, 3, 0, d.period, 0] ++ d.recs.flatMap CpuRec.words ++ (if d.eod then [0, 1, 0] else [])) ++
    (if d.eod then (match d.map with | none => [] | some m => unlines m.bodyLines) else [])

/-- the same document with freely chosen line terminators in the memory map (`renderLines`) -/
def printCpuWith (cs : List Bool) (noFinal : Bool) (d : CpuDoc) : Str :=
  words d.big d.w64 ([0, 3, 0, d.period, 0] ++ d.recs.flatMap CpuRec.words ++ (if d.eod then [0, 1, 0] else [])) ++
    (if d.eod then (match d.map with | none => [] | some m => renderLines cs noFinal m.bodyLines) else [])

def CpuDoc.wordBound (d : CpuDoc) : Nat := if d.w64 then two64 else two32

def CpuDoc.wf (d : CpuDoc) : Bool :=
  0 < d.period && d.period < d.wordBound &&
  d.recs.all (fun r => r.count < d.wordBound && r.addrs.length < two32 && r.addrs.all (· < d.wordBound) &&
                       !(r.count == 0 && r.addrs == [0])) &&
  (match d.map with | none => true | some m => d.eod && m.wf)

def cpuPeriod (period : Nat) : Int := wrapI64 ((period : Int) * 1000)

def cpuHeader (period : Nat) : Header :=
  { sampleType := [vt "samples" "count", vt "cpu" "nanoseconds"], periodType := some (vt "cpu" "nanoseconds"),
    period := cpuPeriod period, durationNanos := 0, dropFrames := cpuProfilerRxStr, keepFrames := [] }

def cpuSample (period : Nat) (count : Nat) (addrs : List Nat) : RawSample :=
  { addrs := adjustCallers addrs,
    values := [wrapI64 count, wrapI64 (wrapI64 count * cpuPeriod period)], numLabel := [] }

def secondAddr (s : RawSample) : Option Nat :=
  match s.addrs with
  | _ :: a :: _ => some a
  | _ => none

def dropSecondIf (a : Nat) (s : RawSample) : RawSample :=
  match s.addrs with
  | l :: b :: r => if b == a then { s with addrs := l :: r } else s
  | _ => s

/-- the address (if any) that is the second frame of at least `n − n/32` of the `n` samples. -/
def signalFrame (ss : List RawSample) : Option Nat :=
  let seconds := ss.filterMap secondAddr
  (dedup seconds).find? (fun a => decide (seconds.count a ≥ ss.length - ss.length / 32))

/-- one round of signal-handler frame removal. -/
def stripSignalFrame (ss : List RawSample) : List RawSample :=
  match signalFrame ss with
  | none => ss
  | some a => ss.map (dropSecondIf a)

def cpuAssemble (period : Nat) (ss : List RawSample) (parsed : List Mapping) : Profile :=
  let ss2 := stripSignalFrame (stripSignalFrame ss)
  finish (cpuHeader period) ss2 (ss2.map cleanupDup) parsed

def expectedCpu (d : CpuDoc) : Profile :=
  cpuAssemble d.period (d.recs.map (fun r => cpuSample d.period r.count r.addrs)) (if d.eod then tailMappings d.map else [])

/-! ### parser -/
def leValue : Str → Nat
  | [] => 0
  | b :: r => b.toNat + 256 * leValue r

/-- `get32l`, `get32b`, `get64l`, `get64b`: a word and the rest, `none` for "nil". -/
def getWord (big w64 : Bool) (b : Str) : Option (Nat × Str) :=
  let k := if w64 then 8 else 4
  if b.length < k then none else
  let w := b.take k
  some (leValue (if big then w.reverse else w), b.drop k)

/-- the address loop of `parseCPUSamples`: a failed read yields 0 and a nil buffer. -/
def readAddrs (big w64 : Bool) : Nat → Str → List Nat × Str
  | 0, b => ([], b)
  | n+1, b =>
    match getWord big w64 b with
    | some (a, b') => let (as, b'') := readAddrs big w64 n b'; (a :: as, b'')
    | none => let (as, b'') := readAddrs big w64 n []; (0 :: as, b'')

/-- `parseCPUSamples`; `mk count addrs` builds the sample of one record (`cpuSample period` for
adjust = true, the C++ flavour; `javaCpuSample period` for adjust = false); fuel bounds the
number of records. Returns the samples and the bytes after the end marker. -/
def cpuSamplesLoop (big w64 : Bool) (mk : Nat → List Nat → RawSample) : Nat → Str → List RawSample → Outcome (List RawSample × Str)
  | 0, _, _ => .err "out of fuel"
  | f+1, b, acc =>
    if b.isEmpty then .ok (acc.reverse, b) else
    match getWord big w64 b with
    | none => .err "unrecognized"
    | some (count, b1) =>
      match getWord big w64 b1 with
      | none => .err "unrecognized"
      | some (nstk, b2) =>
        if nstk > b2.length / 4 then .err "unrecognized" else
        let (addrs, b3) := readAddrs big w64 nstk b2
        if count == 0 && nstk == 1 && addrs == [0] then .ok (acc.reverse, b3)
        else cpuSamplesLoop big w64 mk f b3 (mk count addrs :: acc)

/-- the five header words under one decoder: `some (isJava, period, rest)` if they are
`0 3 0|1 >0 0`. -/
def cpuHeaderWords (big w64 : Bool) (b : Str) : Option (Bool × Nat × Str) := do
  let (n1, b) ← getWord big w64 b
  let (n2, b) ← getWord big w64 b
  let (n3, b) ← getWord big w64 b
  let (n4, b) ← getWord big w64 b
  let (n5, b) ← getWord big w64 b
  if n1 == 0 && n2 == 3 && (n3 == 0 || n3 == 1) && n4 > 0 && n5 == 0 then some (n3 == 1, n4, b) else none

def cpuProfile (big w64 : Bool) (period : Nat) (b : Str) : Outcome Profile :=
  match cpuSamplesLoop big w64 (cpuSample period) (b.length + 1) b [] with
  | .err e => .err e
  | .panic e => .panic e
  | .ok (ss, rest) => .ok (cpuAssemble period ss (parseProcMaps (splitLines rest)))

/-- `parseCPU`: the decoders are tried in the order 32l, 32b, 64l, 64b.  `java` is
`javaCPUProfile` (third header word 1), defined in `LegacyJavaCpu` on top of the Java trailer
machinery; `parseCPU` itself is `parseCPUWith javaCpuProfile` there. -/
def parseCPUWith (java : Bool → Bool → Nat → Str → Outcome Profile) (b : Str) : Outcome Profile :=
  let try1 (big w64 : Bool) (next : Outcome Profile) : Outcome Profile :=
    match cpuHeaderWords big w64 b with
    | some (false, period, rest) => cpuProfile big w64 period rest
    | some (true, period, rest) => java big w64 period rest
    | none => next
  try1 false false (try1 true false (try1 false true (try1 true true (.err "unrecognized"))))

end PV.Legacy
