/-
C20 — executable small-step interleaving semantics of the locking protocol pprof uses for its
shared state.  Core Lean only.

* **Threads** are lists of *sections* `lock m₁ … lock mₖ; body; unlock all`.  A body is a list of
  atomic *actions*, each a state transformer on one shared variable; other threads may run
  between any two actions (bodies are NOT atomic in the model — that they behave atomically is
  the theorem).  pprof's own sections take exactly one lock (`k = 1`, regenerated fact
  `no_nested_locks`); `k = 0` models an unguarded access and `k ≥ 2` nested locking, so that the
  hypotheses of the theorems in `Props/C20.lean` can be seen to matter.
* A **schedule** is the list of thread indices that take the successive steps; `exec` runs a
  schedule and also returns the order in which sections were entered (the lock-acquisition
  order).  A step of a thread that is blocked (mutex held by someone else) or finished makes
  `exec` return `none`: such a list is not a schedule of the program.
* `sync.Once.Do(f)` is the section `lock o; if !done { f; done = true }; unlock o` on the
  variable `o : Bool × τ` (this is how sync.Once is implemented; its lock-free fast path is part
  of the trusted base).
* **Exclusive create** (`newTempFile`): a separate small machine over a file system
  `name ↦ content`; one `open(O_CREAT|O_EXCL)` attempt is one atomic step (kernel guarantee,
  trusted base).
-/
namespace PV.Conc

/-! ### shared memory -/

abbrev Mem (σ : Type) := Nat → σ

def Mem.set {σ} (mem : Mem σ) (v : Nat) (x : σ) : Mem σ := fun w => if w = v then x else mem w

/-! ### programs -/

/-- one atomic access: variable `var` becomes `f (old value)` -/
structure Action (σ : Type) where
  var : Nat
  f   : σ → σ

/-- `lock locks[0]; …; lock locks[k-1]; body; unlock all` -/
structure Section (σ : Type) where
  locks : List Nat
  body  : List (Action σ)

abbrev Thread (σ : Type) := List (Section σ)

/-- run-time state of a thread -/
inductive TState (σ : Type) where
  /-- between sections; `rest` are the sections still to run -/
  | idle (rest : List (Section σ))
  /-- inside a section: holds `held`, still has to acquire `need`, then run `todo` -/
  | inside (held need : List Nat) (todo : List (Action σ)) (rest : List (Section σ))

structure Config (σ : Type) where
  mem : Mem σ
  ts  : List (TState σ)

def TState.holds {σ} : TState σ → Nat → Bool
  | .idle _, _ => false
  | .inside held _ _ _, m => held.contains m

/-- nobody holds mutex `m` -/
def free {σ} (ts : List (TState σ)) (m : Nat) : Bool := ts.all fun t => !t.holds m

def TState.finished {σ} : TState σ → Bool
  | .idle [] => true
  | _ => false

def Config.terminated {σ} (c : Config σ) : Bool := c.ts.all TState.finished

def initial {σ} (prog : List (Thread σ)) (mem : Mem σ) : Config σ := ⟨mem, prog.map .idle⟩

/-- One step of thread `i`.  Returns the new configuration and, when the step enters a section,
that section.  `none`: the thread does not exist, has finished, or is blocked on a held mutex. -/
def step {σ} (c : Config σ) (i : Nat) : Option (Config σ × Option (Section σ)) :=
  match c.ts[i]? with
  | none => none
  | some (.idle []) => none
  | some (.idle (s :: rest)) =>
    match s.locks with
    | [] => some (⟨c.mem, c.ts.set i (.inside [] [] s.body rest)⟩, some s)
    | m :: need =>
      if free c.ts m then some (⟨c.mem, c.ts.set i (.inside [m] need s.body rest)⟩, some s) else none
  | some (.inside held (m :: need) todo rest) =>
    if free c.ts m then some (⟨c.mem, c.ts.set i (.inside (m :: held) need todo rest)⟩, none) else none
  | some (.inside held [] (a :: todo) rest) =>
    some (⟨c.mem.set a.var (a.f (c.mem a.var)), c.ts.set i (.inside held [] todo rest)⟩, none)
  | some (.inside _ [] [] rest) =>
    some (⟨c.mem, c.ts.set i (.idle rest)⟩, none)

/-- Run a schedule.  Result: final configuration and the sections in the order they were
entered, each with the index of its thread. -/
def exec {σ} (c : Config σ) : List Nat → Option (Config σ × List (Nat × Section σ))
  | [] => some (c, [])
  | i :: is =>
    match step c i with
    | none => none
    | some (c1, ev) =>
      match exec c1 is with
      | none => none
      | some (c', log) =>
        some (c', match ev with
                  | some s => (i, s) :: log
                  | none => log)

/-- number of steps a section takes: enter (first lock), further locks, the actions, leave -/
def stepsOf {σ} (s : Section σ) : Nat := max 1 s.locks.length + s.body.length + 1

/-- number of steps of every complete execution of a program -/
def totalSteps {σ} (prog : List (Thread σ)) : Nat := (prog.map fun t => (t.map stepsOf).sum).sum

/-- some thread can take a step -/
def canStep {σ} (c : Config σ) : Bool := (List.range c.ts.length).any fun i => (step c i).isSome

/-! ### sequential reference semantics -/

def runBody {σ} (body : List (Action σ)) (mem : Mem σ) : Mem σ :=
  body.foldl (fun mem a => mem.set a.var (a.f (mem a.var))) mem

/-- the sections executed one after the other, each body without interruption -/
def runSerial {σ} (secs : List (Section σ)) (mem : Mem σ) : Mem σ :=
  secs.foldl (fun mem s => runBody s.body mem) mem

/-- the sections of thread `i` in a log, in log order -/
def sectionsOf {σ} (log : List (Nat × Section σ)) (i : Nat) : List (Section σ) :=
  (log.filter fun e => e.1 == i).map (·.2)

/-! ### the locking discipline -/

/-- `L v` is the mutex that guards variable `v`.  Every section takes exactly the one mutex
that guards everything its body touches. -/
def Disciplined {σ} (L : Nat → Nat) (prog : List (Thread σ)) : Prop :=
  ∀ t ∈ prog, ∀ s ∈ t, ∃ m, s.locks = [m] ∧ ∀ a ∈ s.body, L a.var = m

/-- no section takes two locks -/
def SingleLock {σ} (prog : List (Thread σ)) : Prop :=
  ∀ t ∈ prog, ∀ s ∈ t, s.locks.length ≤ 1

/-- nested locks are always acquired in strictly increasing `rank` (a lock hierarchy) -/
def OrderedLocks {σ} (rank : Nat → Nat) (prog : List (Thread σ)) : Prop :=
  ∀ t ∈ prog, ∀ s ∈ t, s.locks.Pairwise fun a b => rank a < rank b

/-! ### sync.Once -/

/-- the body of `o.Do(init)` on the variable `(done, value)` -/
def onceAction {τ} (o : Nat) (init : τ → τ) : Action (Bool × τ) :=
  ⟨o, fun p => if p.1 then p else (true, init p.2)⟩

def onceSection {τ} (o : Nat) (init : τ → τ) : Section (Bool × τ) := ⟨[o], [onceAction o init]⟩

/-- thread `i` calls `o.Do(f)` once for every `f` of `inits[i]` -/
def onceProg {τ} (o : Nat) (inits : List (List (τ → τ))) : List (Thread (Bool × τ)) :=
  inits.map fun fs => fs.map (onceSection o)

/-! ### exclusive create (newTempFile) -/
namespace FS

/-- a directory: index of the name (`prefix%03d suffix`) ↦ content -/
abbrev Dir := Nat → Option Nat

inductive Creator where
  | trying (idx : Nat)   -- about to call OpenFile(name idx, O_RDWR|O_CREATE|O_EXCL)
  | got (idx : Nat)      -- returned the file `name idx`
  | gaveUp               -- index limit reached
  deriving DecidableEq, Repr

structure State where
  dir : Dir
  cs  : List Creator

def Dir.set (d : Dir) (n : Nat) (x : Nat) : Dir := fun k => if k = n then some x else d k

/-- One iteration of newTempFile's loop by creator `i`; it writes the tag `tag i` into the file it
creates.  `excl = true` is the real code (`O_EXCL`: the open fails with EEXIST when the name is
taken and the loop tries the next index); `excl = false` is the mutant without `O_EXCL` (the open
succeeds on an existing file, which is then overwritten). -/
def step (excl : Bool) (limit : Nat) (tag : Nat → Nat) (s : State) (i : Nat) : Option State :=
  match s.cs[i]? with
  | some (.trying n) =>
    if n ≥ limit then some ⟨s.dir, s.cs.set i .gaveUp⟩
    else if excl && (s.dir n).isSome then some ⟨s.dir, s.cs.set i (.trying (n + 1))⟩
    else some ⟨s.dir.set n (tag i), s.cs.set i (.got n)⟩
  | _ => none

def exec (excl : Bool) (limit : Nat) (tag : Nat → Nat) (s : State) : List Nat → Option State
  | [] => some s
  | i :: is =>
    match step excl limit tag s i with
    | none => none
    | some s1 => exec excl limit tag s1 is

/-- `k` concurrent calls of newTempFile on directory `d` (indices start at 1) -/
def start (d : Dir) (k : Nat) : State := ⟨d, List.replicate k (.trying 1)⟩

def Creator.done : Creator → Bool
  | .trying _ => false
  | _ => true

/-- creator `i` runs alone until it returns (at most `fuel` loop iterations) -/
def runAlone (limit : Nat) (tag : Nat → Nat) (i : Nat) : Nat → State → State
  | 0, s => s
  | fuel + 1, s =>
    match step true limit tag s i with
    | some s1 => runAlone limit tag i fuel s1
    | none => s

/-- `k` calls of newTempFile one after the other; result: the index each call returned
(`none` = gave up) -/
def runSeq (limit : Nat) (d : Dir) (k : Nat) : List (Option Nat) :=
  let s := (List.range k).foldl (fun s i => runAlone limit (fun j => j) i (limit + 2) s) (start d k)
  s.cs.map fun c => match c with
    | .got n => some n
    | _ => none

end FS

/-! ### readers-writer lock (sync.RWMutex) -/
namespace RW

/-- what a thread does with the one variable guarded by the RWMutex -/
inductive Op (σ : Type) where
  /-- `mu.Lock(); body; mu.Unlock()` — the body is a sequence of atomic updates (non-atomic as a whole) -/
  | write (body : List (σ → σ))
  /-- `mu.RLock(); x := v; mu.RUnlock()` -/
  | read

inductive TS (σ : Type) where
  | idle (rest : List (Op σ))
  | writing (todo : List (σ → σ)) (rest : List (Op σ))  -- holds the write lock
  | reading (rest : List (Op σ))                          -- holds the read lock, has not read yet
  | readDone (rest : List (Op σ))                         -- holds the read lock, has read

structure State (σ : Type) where
  val  : σ
  ts   : List (TS σ)
  obs  : List (Nat × σ)          -- (thread, value it read), most recent first
  wlog : List (List (σ → σ))     -- write bodies in the order their Lock succeeded, most recent first

def TS.isIdle {σ} : TS σ → Bool
  | .idle _ => true
  | _ => false

def TS.isWriting {σ} : TS σ → Bool
  | .writing _ _ => true
  | _ => false

def TS.finished {σ} : TS σ → Bool
  | .idle [] => true
  | _ => false

def State.terminated {σ} (s : State σ) : Bool := s.ts.all TS.finished

def start {σ} (x0 : σ) (prog : List (List (Op σ))) : State σ := ⟨x0, prog.map .idle, [], []⟩

/-- One step of thread `i`.  `Lock` succeeds only when nobody holds the lock in any mode, `RLock`
only when nobody holds it for writing (readers may overlap). -/
def step {σ} (s : State σ) (i : Nat) : Option (State σ) :=
  match s.ts[i]? with
  | some (.idle (.write body :: rest)) =>
    if s.ts.all TS.isIdle then some { s with ts := s.ts.set i (.writing body rest), wlog := body :: s.wlog } else none
  | some (.idle (.read :: rest)) =>
    if s.ts.all (fun t => !t.isWriting) then some { s with ts := s.ts.set i (.reading rest) } else none
  | some (.writing (f :: todo) rest) => some { s with val := f s.val, ts := s.ts.set i (.writing todo rest) }
  | some (.writing [] rest) => some { s with ts := s.ts.set i (.idle rest) }
  | some (.reading rest) => some { s with ts := s.ts.set i (.readDone rest), obs := (i, s.val) :: s.obs }
  | some (.readDone rest) => some { s with ts := s.ts.set i (.idle rest) }
  | _ => none

def exec {σ} (s : State σ) : List Nat → Option (State σ)
  | [] => some s
  | i :: is =>
    match step s i with
    | none => none
    | some s1 => exec s1 is

def applyAll {σ} (fs : List (σ → σ)) (x : σ) : σ := fs.foldl (fun x f => f x) x

/-- the value after the write sections `ws` (OLDEST first) ran one after the other, uninterrupted -/
def runWrites {σ} (ws : List (List (σ → σ))) (x : σ) : σ := ws.foldl (fun x b => applyAll b x) x

end RW

end PV.Conc
