import PprofVerif.Base.Basic
/-
The dense-or-sparse id tables of `postDecode` (profile/encode.go), at the level of slices and
maps with CHECKED index expressions:

    ids  := make([]*T, len(table)+1)        // dense
    rest := make(map[uint64]*T)             // sparse
    for _, e := range table { if e.ID < uint64(len(ids)) { ids[e.ID] = e } else { rest[e.ID] = e } }
    …
    if id < uint64(len(ids)) { ptr = ids[id] } else { ptr = rest[id] }

`Model/Codec.lean` abstracts this as "the reference resolves iff the id occurs in the table"
(`List.contains`); Lemmas/IdTables.lean proves that the concrete algorithm never indexes out
of range and resolves exactly those ids (to the LAST entity carrying the id).  An entity is
represented by its index in the table; `none` is the nil pointer.
-/
namespace PV
namespace IdTables

structure Tables where
  dense : List (Option Nat)
  sparse : List (Nat × Nat)     -- Go map as association list, newest binding first
  deriving Repr

/-- `s[i] = v` -/
def setAt (s : List (Option Nat)) (i v : Nat) : Outcome (List (Option Nat)) :=
  if i < s.length then .ok (s.set i (some v)) else .panic "index out of range"

/-- `s[i]` -/
def getAt (s : List (Option Nat)) (i : Nat) : Outcome (Option Nat) :=
  match s[i]? with
  | some x => .ok x
  | none => .panic "index out of range"

def insert (t : Tables) (id idx : Nat) : Outcome Tables :=
  if id < t.dense.length then do
    let d ← setAt t.dense id idx
    pure { t with dense := d }
  else pure { t with sparse := (id, idx) :: t.sparse }

def buildGo (t : Tables) : Nat → List Nat → Outcome Tables
  | _, [] => .ok t
  | i, id :: rest => do
    let t' ← insert t id i
    buildGo t' (i + 1) rest

/-- the table-building loop over the ids of the entities, in table order -/
def build (ids : List Nat) : Outcome Tables :=
  buildGo { dense := List.replicate (ids.length + 1) none, sparse := [] } 0 ids

/-- resolving a reference -/
def lookup (t : Tables) (id : Nat) : Outcome (Option Nat) :=
  if id < t.dense.length then getAt t.dense id else .ok (t.sparse.lookup id)

end IdTables
end PV
