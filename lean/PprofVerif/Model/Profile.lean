import PprofVerif.Base.Tok
/-
Id-based model of `profile.Profile` (profile/profile.go).  Go uses pointers
(`Sample.Location []*Location`, `Location.Mapping *Mapping`, `Line.Function *Function`);
the model uses ids, `0` standing for the nil pointer.  For profiles satisfying the
validity contract (`Profile.Valid`, mirroring `CheckValid` + reference closure) the two
views coincide.  Maps (`Label`, `NumLabel`, `NumUnit`) are key-sorted association lists.
-/
namespace PV

structure ValueType where
  typ  : Str
  unit : Str
  deriving Repr, DecidableEq, Inhabited

structure Mapping where
  id : Nat
  start : Nat
  limit : Nat
  offset : Nat
  file : Str
  buildID : Str
  hasFunctions : Bool
  hasFilenames : Bool
  hasLineNumbers : Bool
  hasInlineFrames : Bool
  deriving Repr, DecidableEq, Inhabited

structure Function where
  id : Nat
  name : Str
  systemName : Str
  filename : Str
  startLine : Int
  deriving Repr, DecidableEq, Inhabited

structure Line where
  functionID : Nat      -- 0 = nil Function
  line : Int
  column : Int
  deriving Repr, DecidableEq, Inhabited

structure Location where
  id : Nat
  mappingID : Nat       -- 0 = nil Mapping
  address : Nat
  lines : List Line     -- leaf-most (innermost inlined) first, caller last — as in Go
  isFolded : Bool
  deriving Repr, DecidableEq, Inhabited

structure Sample where
  locationIDs : List Nat          -- leaf first
  values : List Int
  label : List (Str × List Str)   -- key-sorted
  numLabel : List (Str × List Int)
  numUnit : List (Str × List Str)
  deriving Repr, DecidableEq, Inhabited

structure Profile where
  sampleType : List ValueType
  defaultSampleType : Str
  samples : List Sample
  mappings : List Mapping
  locations : List Location
  functions : List Function
  comments : List Str
  docURL : Str
  dropFrames : Str
  keepFrames : Str
  timeNanos : Int
  durationNanos : Int
  periodType : Option ValueType     -- nil pointer = none
  period : Int
  deriving Repr, DecidableEq, Inhabited

/-! ### token form (identical to harness/canon.go) -/
namespace Wr
def valueType (v : ValueType) : Wr := str v.typ ++ str v.unit
def mapping (m : Mapping) : Wr :=
  nat m.id ++ nat m.start ++ nat m.limit ++ nat m.offset ++ str m.file ++ str m.buildID ++
  bool m.hasFunctions ++ bool m.hasFilenames ++ bool m.hasLineNumbers ++ bool m.hasInlineFrames
def function (f : Function) : Wr :=
  nat f.id ++ str f.name ++ str f.systemName ++ str f.filename ++ int f.startLine
def line (l : Line) : Wr := nat l.functionID ++ int l.line ++ int l.column
def location (l : Location) : Wr :=
  nat l.id ++ nat l.mappingID ++ nat l.address ++ list line l.lines ++ bool l.isFolded
def kv {α} (f : α → Wr) (p : Str × List α) : Wr := str p.1 ++ list f p.2
def sample (s : Sample) : Wr :=
  list nat s.locationIDs ++ list int s.values ++ list (kv str) s.label ++
  list (kv int) s.numLabel ++ list (kv str) s.numUnit
def profile (p : Profile) : Wr :=
  list valueType p.sampleType ++ str p.defaultSampleType ++ list sample p.samples ++
  list mapping p.mappings ++ list location p.locations ++ list function p.functions ++
  list str p.comments ++ str p.docURL ++ str p.dropFrames ++ str p.keepFrames ++
  int p.timeNanos ++ int p.durationNanos ++ opt valueType p.periodType ++ int p.period
end Wr

namespace Rd
def valueType : Rd ValueType := do pure { typ := ← str, unit := ← str }
def mapping : Rd Mapping := do
  pure { id := ← nat, start := ← nat, limit := ← nat, offset := ← nat, file := ← str,
         buildID := ← str, hasFunctions := ← bool, hasFilenames := ← bool,
         hasLineNumbers := ← bool, hasInlineFrames := ← bool }
def function : Rd Function := do
  pure { id := ← nat, name := ← str, systemName := ← str, filename := ← str, startLine := ← int }
def line : Rd Line := do pure { functionID := ← nat, line := ← int, column := ← int }
def location : Rd Location := do
  pure { id := ← nat, mappingID := ← nat, address := ← nat, lines := ← list line, isFolded := ← bool }
def kv {α} (p : Rd α) : Rd (Str × List α) := do let k ← str; let v ← list p; pure (k, v)
def sample : Rd Sample := do
  pure { locationIDs := ← list nat, values := ← list int, label := ← list (kv str),
         numLabel := ← list (kv int), numUnit := ← list (kv str) }
def profile : Rd Profile := do
  pure { sampleType := ← list valueType, defaultSampleType := ← str, samples := ← list sample,
         mappings := ← list mapping, locations := ← list location, functions := ← list function,
         comments := ← list str, docURL := ← str, dropFrames := ← str, keepFrames := ← str,
         timeNanos := ← int, durationNanos := ← int, periodType := ← opt valueType, period := ← int }
end Rd

/-! ### validity contract -/

/-- strictly increasing keys (what a Go map printed in sorted key order looks like). -/
def keysSorted {α} : List (Str × α) → Bool
  | [] => true
  | [_] => true
  | a :: b :: r => Str.lt a.1 b.1 && keysSorted (b :: r)

def idsNodup (ids : List Nat) : Bool := ids.Nodup ∧ (0 ∉ ids)

/-- Mirrors `CheckValid` plus reference closure of samples (every referenced location is in
the table), which is what "valid" means in the property texts. -/
def Profile.validB (p : Profile) : Bool :=
  (p.sampleType.length != 0 || p.samples.isEmpty) &&
  p.samples.all (fun s => s.values.length == p.sampleType.length &&
     s.locationIDs.all (fun id => id != 0 && p.locations.any (·.id == id))) &&
  decide (idsNodup (p.mappings.map (·.id))) &&
  decide (idsNodup (p.functions.map (·.id))) &&
  decide (idsNodup (p.locations.map (·.id))) &&
  p.locations.all (fun l =>
     (l.mappingID == 0 || p.mappings.any (·.id == l.mappingID)) &&
     l.lines.all (fun ln => ln.functionID != 0 && p.functions.any (·.id == ln.functionID)))

def Profile.Valid (p : Profile) : Prop := p.validB = true
instance (p : Profile) : Decidable p.Valid := by unfold Profile.Valid; infer_instance

/-- label maps are real maps: strictly sorted keys. -/
def Sample.mapsSorted (s : Sample) : Bool :=
  keysSorted s.label && keysSorted s.numLabel && keysSorted s.numUnit

/-- The documented contract on `NumUnit` ("its length must be equal to the length of the
corresponding value slice"), for every key of NumLabel: absent/empty or same length. -/
def Sample.unitsAligned (s : Sample) : Bool :=
  s.numLabel.all fun (k, vs) =>
    match s.numUnit.lookup k with
    | none => true
    | some us => us.isEmpty || us.length == vs.length

def Profile.unitsAligned (p : Profile) : Bool := p.samples.all (·.unitsAligned)
def Profile.mapsSorted (p : Profile) : Bool := p.samples.all (·.mapsSorted)

def Profile.findLocation (p : Profile) (id : Nat) : Option Location := p.locations.find? (·.id == id)
def Profile.findFunction (p : Profile) (id : Nat) : Option Function := p.functions.find? (·.id == id)
def Profile.findMapping (p : Profile) (id : Nat) : Option Mapping := p.mappings.find? (·.id == id)

end PV
