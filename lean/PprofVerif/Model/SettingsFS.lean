import PprofVerif.Base.Basic
/-!
# A small file-system model with crashes (property C19, DESIGN Appendix A.5)

State: inodes (content at the last `fsync`, current content, the unsynced modifications since),
the directory (name → inode), the earlier directory states since the save began (no directory
`fsync` is modelled, so a crash may expose any of them), open handles (fd → inode, offset).

Operations are the system calls a save performs, as `strace` prints them:
`open(O_CREAT|O_TRUNC|O_EXCL)`, `write` (with the byte count the kernel accepted), `fsync`,
`close`, `rename`, `unlink`.

A *crash image* of a state, for a path `f`: pick any directory state since the start, follow `f`,
and pick for that inode either its synced content or the content after any unsynced
modification, where an unsynced `write` may have reached the disk only up to any byte position.
(A killed process loses nothing — that is the special case "current directory, current
content".)  `accepts` decides for a whole operation sequence whether EVERY crash image after
EVERY prefix is the complete old or the complete new content.

Trusted: `rename(2)` replaces the directory entry atomically (POSIX), directory updates reach
the disk in the order they were made, an fsync'ed inode's content is durable.  Core Lean only.
-/
namespace PV.FS

abbrev Bytes := List UInt8

/-! ### association lists -/
section assoc
variable {κ α : Type} [DecidableEq κ]

def aget : List (κ × α) → κ → Option α
  | [], _ => none
  | (k', v) :: r, k => if k' = k then some v else aget r k

def adel (l : List (κ × α)) (k : κ) : List (κ × α) := l.filter (fun p => decide (p.1 ≠ k))
def aset (l : List (κ × α)) (k : κ) (v : α) : List (κ × α) := (k, v) :: adel l k
end assoc

/-- `pwrite` semantics: `d` placed at `off` (a hole is zero-filled). -/
def overwrite (c : Bytes) (off : Nat) (d : Bytes) : Bytes :=
  c.take off ++ List.replicate (off - c.length) 0 ++ d ++ c.drop (off + d.length)

/-- an unsynced modification of an inode. -/
inductive Pending where
  | trunc                                        -- truncated to length 0
  | write (before : Bytes) (off : Nat) (data : Bytes)
  deriving DecidableEq, Repr

/-- contents the disk may hold if the machine stops while this modification is in flight or
unsynced: a write may have landed up to any byte position ≥ 1 (position 0 = the state before,
which is covered by the previous entry / the synced content). -/
def Pending.images : Pending → List Bytes
  | .trunc => [[]]
  | .write before off data => (List.range data.length).map (fun j => overwrite before off (data.take (j + 1)))

structure Inode where
  synced : Bytes
  cur : Bytes
  pending : List Pending
  deriving DecidableEq, Repr

def Inode.images (i : Inode) : List Bytes := i.synced :: i.pending.flatMap Pending.images

abbrev Dir := List (Str × Nat)

structure FS where
  inodes : List (Nat × Inode)
  next : Nat                      -- next free inode number
  dir : Dir
  dirOld : List Dir               -- earlier directory states (newest first)
  fds : List (Nat × (Nat × Nat))  -- fd ↦ (inode, offset)
  deriving DecidableEq, Repr

inductive Op where
  | open (fd : Nat) (name : Str) (creat trunc excl : Bool)
  | write (fd : Nat) (data : Bytes)
  | fsync (fd : Nat)
  | close (fd : Nat)
  | rename (src dst : Str)
  | unlink (name : Str)
  | restart    -- the process died (kill, crash of pprof) and the web UI is started again
  deriving DecidableEq, Repr

/-- One successful system call; `none` = the call cannot succeed in this state (EBADF, ENOENT,
EEXIST): the sequence is not a run of the model. -/
def step (s : FS) : Op → Option FS
  | .open fd name creat trunc excl =>
    match aget s.dir name with
    | some i =>
      if excl && creat then none
      else match aget s.inodes i with
        | none => none
        | some ino =>
          let ino' := if trunc && decide (ino.cur ≠ []) then { ino with cur := [], pending := .trunc :: ino.pending } else ino
          some { s with inodes := aset s.inodes i ino', fds := aset s.fds fd (i, 0) }
    | none =>
      if creat then
        some { s with inodes := aset s.inodes s.next { synced := [], cur := [], pending := [] },
                      next := s.next + 1,
                      dir := aset s.dir name s.next, dirOld := s.dir :: s.dirOld,
                      fds := aset s.fds fd (s.next, 0) }
      else none
  | .write fd data =>
    match aget s.fds fd with
    | none => none
    | some (i, off) =>
      match aget s.inodes i with
      | none => none
      | some ino =>
        if data = [] then some s
        else some { s with
          inodes := aset s.inodes i { ino with cur := overwrite ino.cur off data,
                                               pending := .write ino.cur off data :: ino.pending },
          fds := aset s.fds fd (i, off + data.length) }
  | .fsync fd =>
    match aget s.fds fd with
    | none => none
    | some (i, _) =>
      match aget s.inodes i with
      | none => none
      | some ino => some { s with inodes := aset s.inodes i { ino with synced := ino.cur, pending := [] } }
  | .close fd =>
    match aget s.fds fd with
    | none => none
    | some _ => some { s with fds := adel s.fds fd }
  | .rename src dst =>
    match aget s.dir src with
    | none => none
    | some i => some { s with dir := aset (adel s.dir src) dst i, dirOld := s.dir :: s.dirOld }
  | .unlink name =>
    match aget s.dir name with
    | none => none
    | some _ => some { s with dir := adel s.dir name, dirOld := s.dir :: s.dirOld }
  -- start-up after the process died: its handles are gone; pprof's start-up (makeWebInterface)
  -- neither reads nor writes the settings directory: leftover temp files are never promoted
  | .restart => some { s with fds := [] }

/-- states after every prefix of the operations (first = the start state); `none` if an operation
cannot succeed. -/
def trace : FS → List Op → Option (List FS)
  | s, [] => some [s]
  | s, op :: ops =>
    match step s op with
    | none => none
    | some s' => (trace s' ops).map (s :: ·)

def run : FS → List Op → Option FS
  | s, [] => some s
  | s, op :: ops => (step s op).bind (run · ops)

/-- what `os.ReadFile(f)` returns now (`none` = ENOENT). -/
def content (s : FS) (f : Str) : Option Bytes :=
  (aget s.dir f).bind (fun i => (aget s.inodes i).map (·.cur))

/-- contents a reader may find at `f` when the directory state `d` survived: the inode's synced
content or any image of its unsynced modifications (`none` = no such file). -/
def look (s : FS) (d : Dir) (f : Str) : List (Option Bytes) :=
  match aget d f with
  | none => [none]
  | some i => match aget s.inodes i with
    | none => [none]
    | some ino => ino.images.map some

/-- every content a reader may find at `f` after a crash in state `s`. -/
def crashContents (s : FS) (f : Str) : List (Option Bytes) :=
  (s.dir :: s.dirOld).flatMap (fun d => look s d f)

def oldOrNew (s : FS) (f : Str) (old : Option Bytes) (new : Bytes) : Bool :=
  (crashContents s f).all (fun c => c == old || c == some new)

def ofFilesAux : List (Str × Bytes) → Nat → List (Nat × Inode) × Dir
  | [], _ => ([], [])
  | (n, c) :: r, k =>
    ((k, { synced := c, cur := c, pending := [] }) :: (ofFilesAux r (k + 1)).1, (n, k) :: (ofFilesAux r (k + 1)).2)

/-- a quiescent file system holding the given files: everything synced, no handles. -/
def ofFiles (files : List (Str × Bytes)) : FS :=
  { inodes := (ofFilesAux files 0).1, next := files.length, dir := (ofFilesAux files 0).2, dirOld := [], fds := [] }

/-- Verdict on an operation sequence for a save of `new` over `old` at path `f`:
`none` = crash-atomic at every prefix and the save took effect (`content = new`) or, with
`mayFail`, left the old content; `some (k, why)` = first offending prefix length. -/
def firstBad (f : Str) (old : Option Bytes) (new : Bytes) : FS → List Op → Nat → Option (Nat × String)
  | s, [], k => if !oldOrNew s f old new then some (k, "crash-image-neither-old-nor-new") else none
  | s, op :: r, k =>
    if !oldOrNew s f old new then some (k, "crash-image-neither-old-nor-new")
    else match step s op with
      | none => some (k + 1, "operation-cannot-succeed-in-model")
      | some s' => firstBad f old new s' r (k + 1)

def accepts (f : Str) (old : Option Bytes) (new : Bytes) (mayFail : Bool) (s : FS) (ops : List Op) :
    Option (Nat × String) :=
  match firstBad f old new s ops 0 with
  | some b => some b
  | none => match run s ops with
    | none => some (ops.length, "operation-cannot-succeed-in-model")
    | some s' =>
      if content s' f == some new || (mayFail && content s' f == old) then none
      else some (ops.length, "final-content-not-new")

/-! ### the write protocols of `writeSettings` -/

/-- repaired `writeSettings`: temp file in the same directory (fresh name, `O_EXCL`), the document in
any number of `write` calls, `fsync`, `close`, `rename` over the settings file. -/
def atomicWriteOps (fd : Nat) (tmp f : Str) (chunks : List Bytes) : List Op :=
  .open fd tmp true false true :: (chunks.map (Op.write fd) ++ [.fsync fd, .close fd, .rename tmp f])

/-- its error path: a write fails after `done` chunks (ENOSPC, EIO): close, remove the temp file. -/
def atomicWriteFailOps (fd : Nat) (tmp : Str) (done : List Bytes) : List Op :=
  .open fd tmp true false true :: (done.map (Op.write fd) ++ [.close fd, .unlink tmp])

/-- pinned `writeSettings`: `os.WriteFile` = open with `O_TRUNC`, write, close. -/
def inplaceWriteOps (fd : Nat) (f : Str) (chunks : List Bytes) : List Op :=
  .open fd f true true false :: (chunks.map (Op.write fd) ++ [.close fd])

end PV.FS
