import PprofVerif.Base.Basic
/-!
Types of the configuration-field table of `internal/driver/config.go` (property C19).
`Gen/ConfigFields.lean` (REGENERATED from the source on every check by
`tools/extract/configfields.go`) is a value of `List FieldSpec`; `Model/Settings.lean` is written
over an arbitrary such table.  Core Lean only.
-/
namespace PV.Settings

open Lean in
/-- byte-string literal: `b!"cum"` elaborates to the explicit list `[99, 117, 109] : List UInt8`
(so `decide` can compare table entries in the kernel). -/
macro:max "b!" s:str : term => do
  let bytes := s.getString.toUTF8.toList
  let elems ← bytes.mapM fun b => `(($(quote b.toNat) : UInt8))
  `(([$(elems.toArray),*] : List UInt8))

/-- Go type of a `config` field as `set`/`get` (config.go) distinguish them; `choice` is a `string`
field with a non-empty `choices` list. -/
inductive Kind where
  | bool | int | float | string | choice
  deriving DecidableEq, Repr

/-- A field value.  `float64` values are carried as their canonical text (`fmt.Sprint`, i.e.
`strconv.FormatFloat(v,'g',-1,64)`); float parsing/printing is an external parameter
(`FloatOps`), see the trusted base. -/
inductive Val where
  | b (v : Bool)
  | i (v : Int)
  | f (text : Str)
  | s (v : Str)
  deriving DecidableEq, Repr

/-- One row of `configFields` (config.go `init`). -/
structure FieldSpec where
  goName    : String     -- struct field name (informational; keys the transient list)
  name      : Str        -- JSON name / variable name
  saved     : Bool       -- has a JSON name (tag is not "-")
  omitempty : Bool       -- JSON tag carries `,omitempty`
  urlparam  : Str        -- URL parameter, `[]` when the field is not placed in URLs
  kind      : Kind
  choices   : List Str
  default   : Val        -- value in `defaultConfig()`
  deriving DecidableEq, Repr

end PV.Settings
