import PprofVerif.Model.LegacyMap
/-!
# C14 — Go count profiles (goroutine, threadcreate, …): `parseGoCount`

```
# comment / blank lines
<name> profile: total <n>
<count> @ 0x<addr> 0x<addr> …
…
--- Memory map: ---        (optional)
```
-/
namespace PV.Legacy
open PV

structure CountRec where
  fill : List Filler        -- filler lines before the record
  n : Nat
  addrs : List Nat
  deriving Repr, DecidableEq, Inhabited

structure CountDoc where
  pre : List Filler         -- before the header
  name : Str
  total : Nat
  width : Nat               -- zero padding of addresses
  recs : List CountRec
  post : List Filler
  map : Option MapSection
  deriving Repr, DecidableEq, Inhabited

def CountRec.print (w : Nat) (r : CountRec) : Str := dec r.n ++ asc " @" ++ printAddrs w r.addrs

def CountDoc.headerLine (d : CountDoc) : Str := d.name ++ asc " profile: total " ++ dec d.total

def CountDoc.recLines (d : CountDoc) : List Str :=
  d.recs.flatMap (fun r => printFillers r.fill ++ [r.print d.width])

def CountDoc.lines (d : CountDoc) : List Str :=
  printFillers d.pre ++ [d.headerLine] ++ d.recLines ++ printFillers d.post ++ tailLines sentinelMemoryMap d.map

def printCount (d : CountDoc) : Str := unlines d.lines

/-- name: `\S+`, printable, not starting with `#` (else the header would be a comment). -/
def countNameOK (s : Str) : Bool :=
  s.all (fun b => isPrint b && b.toNat != 32) &&
  (match s with | b :: _ => b.toNat != 35 | [] => false)

def CountRec.wf (r : CountRec) : Bool :=
  r.fill.all Filler.wf && r.n < two63 && r.addrs != [] && r.addrs.all (· < two64)

def CountDoc.wf (d : CountDoc) : Bool :=
  d.pre.all Filler.wf && countNameOK d.name && d.recs.all CountRec.wf && d.post.all Filler.wf &&
  (match d.map with | none => true | some m => m.wf)

def countHeader (name : Str) : Header :=
  { sampleType := [{ typ := name, unit := asc "count" }],
    periodType := some { typ := name, unit := asc "count" }, period := 1, durationNanos := 0,
    dropFrames := cpuProfilerRxStr, keepFrames := [] }

/-- documented meaning: one sample per record in input order, value = the count, every address
moved back by one. -/
def CountRec.sample (r : CountRec) : RawSample :=
  { addrs := r.addrs.map decr64, values := [(r.n : Int)], numLabel := [] }

def expectedCount (d : CountDoc) : Profile :=
  let ss := d.recs.map CountRec.sample
  finish (countHeader d.name) ss ss (tailMappings d.map)

/-! ### parser (mirrors `parseGoCount`) -/
/-- countStartRE `\A(\S+) profile: total \d+\z` → the name -/
def matchCountStart (l : Str) : Option Str :=
  let name := l.takeWhile (fun b => !isReSpace b)
  if name.isEmpty then none else
  match stripPrefix (asc " profile: total ") (l.dropWhile (fun b => !isReSpace b)) with
  | none => none
  | some r => if r != [] && r.all isDigit then some name else none

def isAddrWord (w : Str) : Bool :=
  match stripPrefix (asc "0x") w with
  | none => false
  | some ds => ds != [] && ds.all isHexLower

/-- countRE `\A(\d+) @(( 0x[0-9a-f]+)+)\z` → count digits and address words (`strings.Fields`) -/
def matchCountLine (l : Str) : Option (Str × List Str) :=
  let ds := l.takeWhile isDigit
  if ds.isEmpty then none else
  match stripPrefix (asc " @") (l.dropWhile isDigit) with
  | none => none
  | some r =>
    -- `(( 0x[0-9a-f]+)+)\z`: one or more words, each preceded by exactly one blank
    let ws := fields r
    if ws != [] && ws.all isAddrWord && r == ws.flatMap (fun w => 32 :: w) then some (ds, ws) else none

def parseAddrWords : List Str → Option (List Nat)
  | [] => some []
  | w :: r => do
    let a ← parseU64Base0 w
    let as ← parseAddrWords r
    pure (decr64 a :: as)

/-- the record loop; returns the samples and the scanner position where the loop stopped
(`cur`, `rest`). -/
def countLoop : List Str → List RawSample → Outcome (List RawSample × Str × List Str)
  | [], acc => .ok (acc.reverse, [], [])
  | l :: r, acc =>
    if isSpaceOrComment l then countLoop r acc
    else if hasPrefix (asc "---") l then .ok (acc.reverse, l, r)
    else
      match matchCountLine l with
      | none => .err "malformed"
      | some (ds, ws) =>
        match parseI64Base0 ds, parseAddrWords ws with
        | some n, some as => countLoop r ({ addrs := as, values := [(n : Int)], numLabel := [] } :: acc)
        | _, _ => .err "malformed"

def parseGoCountLines (ls : List Str) : Outcome Profile :=
  let (hd, rest) := skipLeadingFillers ls
  match matchCountStart hd with
  | none => .err "unrecognized"
  | some name =>
    match countLoop rest [] with
    | .ok (ss, cur, rest') => .ok (finish (countHeader name) ss ss (parseAdditionalSections cur rest'))
    | .err e => .err e
    | .panic e => .panic e

def parseGoCount (b : Str) : Outcome Profile := parseGoCountLines (splitLines b)

end PV.Legacy
