import PprofVerif.Base.Basic
/-!
# Model of pprof's ELF address translation (property C13)

Mirrors, statement by statement,

* `internal/elfexec/elfexec.go`: `kernelBase`, `GetBase`, `FindTextProgHeader`,
  `ProgramHeadersForMapping`, `HeaderForFileOffset`;
* `internal/binutils/binutils.go`: `elfMapping.findProgramHeader`, `file.computeBase`,
  `file.ObjAddr`;
* `internal/binutils/addr2liner_nm.go`: `parseAddr2LinerNM` (relocation of the table only) and
  `addr2LinerNM.addrInfo` (the binary search, with fuel).

Go `uint64` values are `Nat`s below `2^64`; every Go `+`/`-` that can wrap is `add64`/`sub64`.
Core Lean only (linked into `pvdrv-C13`).
-/
namespace PV.Elf

def two64 : Nat := 18446744073709551616
def two63 : Nat := 9223372036854775808

/-- Go `a + b` on `uint64`. -/
@[inline] def add64 (a b : Nat) : Nat := (a + b) % two64
/-- Go `a - b` on `uint64`. -/
@[inline] def sub64 (a b : Nat) : Nat := (a + (two64 - b % two64)) % two64

/-- `elf.ProgHeader` (the fields pprof reads). -/
structure ProgHeader where
  ptype  : Nat   -- elf.PT_LOAD = 1
  flags  : Nat   -- elf.PF_X = 1
  off    : Nat
  vaddr  : Nat
  filesz : Nat
  memsz  : Nat
  deriving DecidableEq, Repr

def ptLoad : Nat := 1
def etRel : Nat := 1
def etExec : Nat := 2
def etDyn : Nat := 3

/-- `p.Flags & elf.PF_X != 0` -/
def ProgHeader.isExec (p : ProgHeader) : Bool := p.flags % 2 == 1

/-- the page size constant of elfexec.go (both in `kernelBase` and `ProgramHeadersForMapping`). -/
def pageSize : Nat := 4096
def pageOffsetPpc64 : Nat := 0xc000000000000000

/-! ### elfexec.go: kernelBase / GetBase -/

/-- `kernelBase(loadSegment, stextOffset, start, limit, offset) (uint64, bool)`; `none` = no match. -/
def kernelBase (seg : ProgHeader) (stext : Option Nat) (start limit offset : Nat) : Option Nat :=
  if seg.vaddr = sub64 start offset then some offset
  else if start = 0 ∧ limit ≠ 0 ∧ stext.isSome then
    (match stext with | some st => some (sub64 start st) | none => none)
  else if start ≥ two63 ∧ limit > start ∧ (offset = 0 ∨ offset = pageOffsetPpc64 ∨ offset = start) then
    (match stext with
     | some st => if start % pageSize = st % pageSize then some (sub64 start st) else some (sub64 start seg.vaddr)
     | none => some (sub64 start seg.vaddr))
  else
    (match stext with
     | some st => if start % pageSize ≠ 0 ∧ st % pageSize = start % pageSize then some (sub64 start st) else none
     | none => none)

/-- the user-space formula `start - offset + loadSegment.Off - loadSegment.Vaddr`. -/
def userBase (seg : ProgHeader) (start offset : Nat) : Nat :=
  sub64 (add64 (sub64 start offset) seg.off) seg.vaddr

/-- `GetBase(fh, loadSegment, stextOffset, start, limit, offset) (uint64, error)`; `ty = fh.Type`. -/
def getBase (ty : Nat) (seg : Option ProgHeader) (stext : Option Nat) (start limit offset : Nat) : Outcome Nat :=
  if start = 0 ∧ offset = 0 ∧ (limit = two64 - 1 ∨ limit = 0) then .ok 0
  else if ty = etExec then
    match seg with
    | none => .ok 0
    | some s =>
      if stext.isNone ∧ start > 0 ∧ start < two63 then .ok (userBase s start offset)
      else match kernelBase s stext start limit offset with
        | some b => .ok b
        | none =>
          if start = 0 ∧ limit ≠ 0 ∧ stext.isNone then .ok (sub64 start s.vaddr)
          else .err "don't know how to handle EXEC segment"
  else if ty = etRel then
    if offset ≠ 0 then .err "don't know how to handle mapping.Offset" else .ok start
  else if ty = etDyn then
    match seg with
    | none => .ok (sub64 start offset)
    | some s =>
      match kernelBase s stext start limit offset with
      | some b => .ok b
      | none => .ok (userBase s start offset)
  else .err "don't know how to handle FileHeader.Type"

/-! ### elfexec.go: FindTextProgHeader -/

/-- inner loop: first `PT_LOAD`, executable header containing the section address. -/
def findTextIn (progs : List ProgHeader) (addr : Nat) : Option ProgHeader :=
  progs.find? fun p => p.ptype == ptLoad && p.isExec && decide (addr ≥ p.vaddr) && decide (addr < add64 p.vaddr p.memsz)

/-- `FindTextProgHeader(f)`; `textAddrs` = `Addr` of the sections named ".text", in section order. -/
def findTextProgHeader : List Nat → List ProgHeader → Option ProgHeader
  | [], _ => none
  | a :: as, progs =>
    match findTextIn progs a with
    | some p => some p
    | none => findTextProgHeader as progs

/-! ### elfexec.go: ProgramHeadersForMapping -/

/-- the body of the loop of `ProgramHeadersForMapping`: is header `p` kept? -/
def phfmKeep (mapOff mapSz : Nat) (p : ProgHeader) : Bool :=
  let mapLimit := add64 mapOff mapSz
  if p.filesz = 0 then false
  else
    let segLimit := add64 p.off p.memsz
    if p.ptype = ptLoad ∧ mapOff < segLimit ∧ p.off < mapLimit then
      let alignedSegOffset := if p.off > p.vaddr % pageSize then p.off - p.vaddr % pageSize else 0
      if mapOff < alignedSegOffset then false
      else if mapOff > p.off ∧ segLimit < add64 mapOff pageSize ∧ mapLimit ≥ add64 segLimit pageSize then false
      else true
    else false

def programHeadersForMapping (phdrs : List ProgHeader) (mapOff mapSz : Nat) : List ProgHeader :=
  phdrs.filter (phfmKeep mapOff mapSz)

/-! ### elfexec.go: HeaderForFileOffset -/

/-- `fileOffset >= h.Off && fileOffset < h.Off+h.Memsz` -/
def hffoMatch (fo : Nat) (h : ProgHeader) : Bool := decide (fo ≥ h.off) && decide (fo < add64 h.off h.memsz)

/-- the loop of `HeaderForFileOffset` with the running `ph` variable. -/
def hffoLoop (fo : Nat) : List ProgHeader → Option ProgHeader → Outcome ProgHeader
  | [], none => .err "no program header matches file offset"
  | [], some ph => .ok ph
  | h :: hs, cur =>
    if hffoMatch fo h then
      match cur with
      | some _ => .err "found second program header that matches file offset"
      | none => hffoLoop fo hs (some h)
    else hffoLoop fo hs cur

def headerForFileOffset (headers : List ProgHeader) (fo : Nat) : Outcome ProgHeader := hffoLoop fo headers none

/-! ### binutils.go: elfMapping.findProgramHeader / file.computeBase / file.ObjAddr -/

/-- `elfMapping` -/
structure Mapping where
  start  : Nat
  limit  : Nat
  offset : Nat
  kernelOffset : Option Nat   -- offset of the kernel relocation symbol (`_stext`), `nil` for user space
  deriving Repr

/-- the ELF file as pprof sees it: type, program headers, addresses of the `.text` sections. -/
structure File where
  etype : Nat
  progs : List ProgHeader
  textAddrs : List Nat

def findProgramHeader (m : Mapping) (f : File) (addr : Nat) : Outcome (Option ProgHeader) :=
  if m.kernelOffset.isSome ∨ m.start ≥ m.limit ∨ m.limit ≥ two63 then
    .ok (findTextProgHeader f.textAddrs f.progs)
  else
    match f.progs.filter (fun p => p.ptype == ptLoad) with
    | [] => .ok none
    | phdrs =>
      match programHeadersForMapping phdrs m.offset (sub64 m.limit m.start) with
      | [] => .err "no program header matches mapping info"
      | [h] => .ok (some h)
      | hs =>
        match headerForFileOffset hs (add64 (sub64 addr m.start) m.offset) with
        | .ok h => .ok (some h)
        | .err e => .err e
        | .panic e => .panic e

/-- `computeBase(addr)`: the base, or the error. -/
def computeBase (m : Mapping) (f : File) (addr : Nat) : Outcome Nat :=
  if addr < m.start ∨ addr ≥ m.limit then .err "specified address is outside the mapping range"
  else
    match findProgramHeader m f addr with
    | .ok ph => getBase f.etype ph m.kernelOffset m.start m.limit m.offset
    | .err e => .err e
    | .panic e => .panic e

/-- `ObjAddr(addr)` on a fresh `file` (the base is computed from this first address). -/
def objAddr (m : Mapping) (f : File) (addr : Nat) : Outcome Nat :=
  match computeBase m f addr with
  | .ok base => .ok (sub64 addr base)
  | .err e => .err e
  | .panic e => .panic e

/-! ### addr2liner_nm.go -/

structure Sym where
  address : Nat
  size    : Nat
  isData  : Bool
  deriving Repr, DecidableEq

/-- `parseAddr2LinerNM`: `address: address + base`. -/
def relocate (base : Nat) (syms : List Sym) : List Sym :=
  syms.map fun s => { s with address := add64 s.address base }

/-- the binary-search loop of `addrInfo` (`fuel` bounds the iterations; running out of fuel or an
index out of range is a `panic`, so "terminates within `len` steps and never indexes out of range" is
part of the theorems). Returns the final `low`. -/
def nmLoop (m : List Sym) (addr : Nat) : Nat → Nat → Nat → Outcome Nat
  | 0, _, _ => .panic "fuel"
  | fuel + 1, low, high =>
    if low + 1 < high then
      let mid := (low + high) / 2
      match m[mid]? with
      | none => .panic "index out of range"
      | some s =>
        if addr = s.address then .ok mid
        else if addr > s.address then nmLoop m addr fuel mid high
        else nmLoop m addr fuel low mid
    else .ok low

/-- `addrInfo(addr)`: index of the symbol whose name is returned, or `none` (Go returns `nil, nil`). -/
def addrInfo (m : List Sym) (addr : Nat) : Outcome (Option Nat) :=
  match m.head?, m.getLast? with
  | some first, some last =>
    if addr < first.address ∨ addr ≥ add64 last.address last.size then .ok none
    else
      match nmLoop m addr (m.length + 1) 0 m.length with
      | .ok low =>
        (match m[low]? with
         | none => .panic "index out of range"
         | some s => if s.isData ∧ addr ≥ add64 s.address s.size then .ok none else .ok (some low))
      | .err e => .err e
      | .panic e => .panic e
  | _, _ => .ok none

end PV.Elf
