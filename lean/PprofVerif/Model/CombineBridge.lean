import PprofVerif.Model.Combine
import PprofVerif.Model.Codec
import PprofVerif.Model.Graph
/-
Bridge between the id-based profile of `Model/Profile.lean` (what the codec of C01 reads and
writes) and the weight-function view of C07 (`Model/Combine.lean`): a sample becomes
`(⟨frames, tag, base⟩, values)` with frames = its location ids, `base` = Go's
`Sample.DiffBaseSample()` (`Graph.isBase`: label `pprof::base` has the value `true`) and `tag` =
any summary of the remaining attributes.  `setBaseLabel` is `Sample.SetLabel("pprof::base",
["true"])` on the key-sorted label map.  Core Lean only.
-/
namespace PV
namespace Combine

def baseKey : Str := Str.ofString "pprof::base"
def trueStr : Str := Str.ofString "true"

/-- the C07 view of a profile, for a tag function on samples -/
def ofProfile (tag : PV.Sample → Nat) (p : Profile) : Prof :=
  p.samples.map fun s => (⟨s.locationIDs, tag s, Graph.isBase s⟩, s.values)

/-- `m[k] = v` on a key-sorted association list -/
def setSorted {β} (k : Str) (v : β) : List (Str × β) → List (Str × β)
  | [] => [(k, v)]
  | e :: r => if e.1 == k then (k, v) :: r else if Str.lt k e.1 then (k, v) :: e :: r else e :: setSorted k v r

/-- `s.Label["pprof::base"] = []string{"true"}` -/
def setBaseLabel (s : PV.Sample) : PV.Sample := { s with label := setSorted baseKey [trueStr] s.label }

/-- `pbase.SetLabel("pprof::base", []string{"true"})` -/
def setBaseP (p : Profile) : Profile := { p with samples := p.samples.map setBaseLabel }

end Combine
end PV
