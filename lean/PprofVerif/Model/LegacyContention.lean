import PprofVerif.Model.LegacyHeap
/-!
# C14 — contention / mutex profiles: `parseContention`

```
--- contentionz 1 ---   |   --- mutex:   |   --- contention:
cycles/second = <hz>
sampling period = <p>
ms since reset = <ms>
discarded samples = <n>
<cycles> <count> @ 0x<addr> …
--- Memory map: ---
```
Values: `[count·period, cycles·period/(hz/1e9)]` (the second only when `hz > 0`; nothing is scaled
when `period ≤ 0`); every address moved back by one.
-/
namespace PV.Legacy
open PV

inductive ContHead where
  | contentionz (n : Nat) | mutex | contention
  deriving Repr, DecidableEq, Inhabited

def ContHead.print : ContHead → Str
  | .contentionz n => asc "--- contentionz " ++ dec n ++ asc " ---"
  | .mutex => asc "--- mutex:"
  | .contention => asc "--- contention:"

inductive ContKey where
  | cyclesPerSecond | samplingPeriod | msSinceReset | discarded
  deriving Repr, DecidableEq, Inhabited

def ContKey.print : ContKey → Str
  | .cyclesPerSecond => asc "cycles/second" | .samplingPeriod => asc "sampling period"
  | .msSinceReset => asc "ms since reset" | .discarded => asc "discarded samples"

structure ContAttr where
  fill : List Filler
  indent : Nat
  key : ContKey
  value : Int          -- `strconv.ParseInt(_, 0, 64)`: may be negative
  spaced : Bool        -- `key = value` or `key=value`
  deriving Repr, DecidableEq, Inhabited

def ContAttr.print (a : ContAttr) : Str :=
  sp a.indent ++ a.key.print ++ (if a.spaced then asc " = " else asc "=") ++ intStr a.value

structure ContRec where
  fill : List Filler
  indent : Nat
  cycles : Nat
  count : Nat
  gap : Nat
  addrs : List Nat
  deriving Repr, DecidableEq, Inhabited

def ContRec.print (w : Nat) (r : ContRec) : Str :=
  sp r.indent ++ dec r.cycles ++ sp (r.gap + 1) ++ dec r.count ++ asc " @" ++ printAddrs w r.addrs

structure ContDoc where
  head : ContHead
  attrs : List ContAttr
  width : Nat
  recs : List ContRec
  post : List Filler
  map : Option MapSection
  deriving Repr, DecidableEq, Inhabited

def ContDoc.lines (d : ContDoc) : List Str :=
  [d.head.print] ++ d.attrs.flatMap (fun a => printFillers a.fill ++ [a.print]) ++
    d.recs.flatMap (fun r => printFillers r.fill ++ [r.print d.width]) ++
    printFillers d.post ++ tailLines sentinelMemoryMap d.map

def printContention (d : ContDoc) : Str := unlines d.lines

structure ContState where
  cpuHz : Int
  period : Int
  durationNanos : Int
  deriving Repr, DecidableEq, Inhabited

def ContState.init : ContState := { cpuHz := 0, period := 1, durationNanos := 0 }

def ContState.set (st : ContState) (k : ContKey) (v : Int) : ContState :=
  match k with
  | .cyclesPerSecond => { st with cpuHz := v }
  | .samplingPeriod => { st with period := v }
  | .msSinceReset => { st with durationNanos := wrapI64 (v * 1000 * 1000) }
  | .discarded => st

/-- the attributes in document order (a later assignment overrides an earlier one). -/
def ContDoc.state (d : ContDoc) : ContState := d.attrs.foldl (fun st a => st.set a.key a.value) .init

def ContRec.wf (r : ContRec) : Bool :=
  r.fill.all Filler.wf && r.cycles < two63 && r.count < two63 && r.addrs.all (· < two64)

def ContDoc.wf (d : ContDoc) : Bool :=
  d.attrs.all (fun a => a.fill.all Filler.wf && decide (-(two63 : Int) ≤ a.value ∧ a.value < (two63 : Int))) && d.recs.all ContRec.wf &&
  d.post.all Filler.wf && (match d.map with | none => true | some m => m.wf)

/-- The float part of `parseContentionSample`: `(cycles, period, hz) ↦
int64(float64(cycles)·float64(period)/(float64(hz)/1e9))` — a parameter of the model. -/
abbrev CycFn := Nat → Nat → Nat → Int

def contSample (cyc : CycFn) (st : ContState) (cycles count : Nat) (addrs : List Nat) : RawSample :=
  -- nothing is scaled unless the period is positive; the delay only when cycles/second is positive too
  let v1 : Int := if st.period > 0 ∧ st.cpuHz > 0 then cyc cycles st.period.toNat st.cpuHz.toNat else (cycles : Int)
  let v2 : Int := if st.period > 0 then wrapI64 ((count : Int) * st.period) else (count : Int)
  { addrs := addrs.map decr64, values := [v2, v1], numLabel := [] }

def contHeader (st : ContState) : Header :=
  { sampleType := [vt "contentions" "count", vt "delay" "nanoseconds"],
    periodType := some (vt "contentions" "count"), period := st.period,
    durationNanos := st.durationNanos, dropFrames := lockRxStr, keepFrames := [] }

def expectedContention (cyc : CycFn) (d : ContDoc) : Profile :=
  let st := d.state
  let ss := d.recs.map (fun r => contSample cyc st r.cycles r.count r.addrs)
  finish (contHeader st) ss ss (tailMappings d.map)

/-! ### parser (mirrors `parseContention`, `parseContentionSample`) -/
def contKeyOf (k : Str) : Option ContKey :=
  if k == asc "cycles/second" then some .cyclesPerSecond
  else if k == asc "sampling period" then some .samplingPeriod
  else if k == asc "ms since reset" then some .msSinceReset
  else if k == asc "discarded samples" then some .discarded
  else none

/-- the attribute loop: returns the state and the lines from the one that ended the loop on. -/
def contAttrLoop : List Str → ContState → Outcome (ContState × List Str)
  | [], st => .ok (st, [])
  | l :: r, st =>
    let line := trimSpace l
    if isSpaceOrComment line then contAttrLoop r st
    else if hasPrefix (asc "---") line then .ok (st, l :: r)
    else
      match splitEq line with
      | none => .ok (st, l :: r)
      | some (k, v) =>
        match contKeyOf (trimSpace k) with
        | none => .err "unrecognized"        -- includes `format`, `resolution` (Java profiles)
        | some .discarded => contAttrLoop r st
        | some key =>
          match parseI64Base0Z (trimSpace v) with
          | none => .err "unrecognized"
          | some n => contAttrLoop r (st.set key n)

/-- contentionSampleRE `(\d+) *(\d+) @([ x0-9a-f]*)` at one position -/
def matchContSampleAt (s : Str) : Option (Str × Str × Str) := do
  let (a, s) ← reDigits s
  let (b, s) ← reDigits (skipSp s)
  let s ← stripPrefix (asc " @") s
  pure (a, b, s.takeWhile (fun x => x.toNat == 32 || x.toNat == 120 || isHexLower x))

def parseContentionSample (cyc : CycFn) (st : ContState) (line : Str) : Outcome RawSample :=
  match searchRe matchContSampleAt line with
  | none => .err "unrecognized"
  | some (a, b, addrText) =>
    match parseI64 a, parseI64 b, parseHexAddresses addrText with
    | some v1, some v2, some addrs => .ok (contSample cyc st v1 v2 addrs)
    | _, _, _ => .err "malformed sample"

def contSampleLoop (cyc : CycFn) (st : ContState) :
    List Str → List RawSample → Outcome (List RawSample × Str × List Str)
  | [], acc => .ok (acc.reverse, [], [])
  | l :: r, acc =>
    let line := trimSpace l
    if hasPrefix (asc "---") line then .ok (acc.reverse, l, r)
    else if isSpaceOrComment line then contSampleLoop cyc st r acc
    else
      match parseContentionSample cyc st line with
      | .ok s => contSampleLoop cyc st r (s :: acc)
      | .err e => .err e
      | .panic e => .panic e

def parseContentionLines (cyc : CycFn) : List Str → Outcome Profile
  | [] => .err "unrecognized"
  | hd :: rest =>
    if !(hasPrefix (asc "--- contentionz ") hd || hasPrefix (asc "--- mutex:") hd || hasPrefix (asc "--- contention:") hd) then
      .err "unrecognized"
    else
      match contAttrLoop rest .init with
      | .err e => .err e
      | .panic e => .panic e
      | .ok (st, ls) =>
        match contSampleLoop cyc st ls [] with
        | .ok (ss, cur, rest') => .ok (finish (contHeader st) ss ss (parseAdditionalSections cur rest'))
        | .err e => .err e
        | .panic e => .panic e

def parseContention (cyc : CycFn) (b : Str) : Outcome Profile := parseContentionLines cyc (splitLines b)

end PV.Legacy
