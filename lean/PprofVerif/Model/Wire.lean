import PprofVerif.Base.Basic
/-
Model of profile/proto.go: varints, wire fields, the generic message decoding loop,
and the field encoders.  Go `uint64` is a `Nat` below 2^64, `int64` an `Int` in
[-2^63, 2^63).  The in-place rotation used by `encodeMessage`/packed encoders is modelled
on lists as "length prefix ++ body" (DESIGN C01 *Modelled, not verified*).
-/
namespace PV
namespace Wire

abbrev Bytes := List UInt8

def two64 : Nat := 18446744073709551616
def two63 : Nat := 9223372036854775808

/-- `uint64(x)` for an int64 `x`. -/
def toU64 (i : Int) : Nat := (i % (two64 : Int)).toNat
/-- `int64(u)` for a uint64 `u`. -/
def toI64 (n : Nat) : Int := if n % two64 < two63 then ((n % two64 : Nat) : Int) else ((n % two64 : Nat) : Int) - (two64 : Int)

def InI64 (i : Int) : Prop := -(two63 : Int) ≤ i ∧ i < (two63 : Int)
def InU64 (n : Nat) : Prop := n < two64
instance (i : Int) : Decidable (InI64 i) := by unfold InI64; infer_instance
instance (n : Nat) : Decidable (InU64 n) := by unfold InU64; infer_instance

/-- proto.go `encodeVarint` -/
def encodeVarint (x : Nat) : Bytes :=
  if h : x ≥ 128 then UInt8.ofNat (x % 128 + 128) :: encodeVarint (x / 128)
  else [UInt8.ofNat x]
termination_by x
decreasing_by omega

/-- proto.go `decodeVarint`: loop state `i` (byte index) and `u` (accumulator, uint64). -/
def decodeVarintGo (i : Nat) (u : Nat) : Bytes → Outcome (Nat × Bytes)
  | [] => .err "bad varint"
  | b :: rest =>
    if i ≥ 10 then .err "bad varint" else
    let u' := (u + (b.toNat % 128) * 2 ^ (7 * i)) % two64
    if b.toNat < 128 then .ok (u', rest) else decodeVarintGo (i + 1) u' rest

def decodeVarint (data : Bytes) : Outcome (Nat × Bytes) := decodeVarintGo 0 0 data

/-- a decoded wire field (`buffer.field/typ/u64/data` after `decodeField`). -/
structure Field where
  num : Nat
  typ : Nat
  u64 : Nat
  data : Bytes
  deriving Repr, DecidableEq

def le (bs : Bytes) : Nat := bs.foldr (fun b acc => b.toNat + 256 * acc) 0

/-- proto.go `decodeField` -/
def decodeField (data : Bytes) : Outcome (Field × Bytes) := do
  let (x, data) ← decodeVarint data
  let num := x / 8
  let typ := x % 8
  match typ with
  | 0 => do
    let (u, data) ← decodeVarint data
    pure ({ num, typ, u64 := u, data := [] }, data)
  | 1 =>
    if data.length < 8 then .err "not enough data"
    else pure ({ num, typ, u64 := le (data.take 8), data := [] }, data.drop 8)
  | 2 => do
    let (n, data) ← decodeVarint data
    if n > data.length then .err "too much data"
    else pure ({ num, typ, u64 := 0, data := data.take n }, data.drop n)
  | 5 =>
    if data.length < 4 then .err "not enough data"
    else pure ({ num, typ, u64 := le (data.take 4), data := [] }, data.drop 4)
  | _ => .err "unknown wire type"

/-- proto.go `decodeMessage` body: the loop over the fields of `data`, handing each decoded
field to `apply` (the decoder table of the message type).  `fuel` bounds the number of
iterations; `data.length` always suffices (`decodeMessage_fuel` in Lemmas). -/
def decodeLoop {M : Type} (apply : M → Field → Outcome M) : Nat → M → Bytes → Outcome M
  | _, m, [] => .ok m
  | 0, _, _ :: _ => .panic "decodeLoop: out of fuel"
  | fuel + 1, m, data@(_ :: _) =>
    match decodeField data with
    | .ok (f, rest) =>
      match apply m f with
      | .ok m' => decodeLoop apply fuel m' rest
      | .err e => .err e
      | .panic s => .panic s
    | .err e => .err e
    | .panic s => .panic s

/-- `decodeMessage(b, m)` where `b` holds field `f`: checks wire type 2 first. -/
def decodeMessage {M : Type} (apply : M → Field → Outcome M) (zero : M) (f : Field) : Outcome M :=
  if f.typ ≠ 2 then .err "type mismatch" else decodeLoop apply f.data.length zero f.data

/-! ### scalar decoders (`decodeInt64`, …) acting on a decoded field -/
def decodeInt64 (f : Field) : Outcome Int := if f.typ ≠ 0 then .err "type mismatch" else .ok (toI64 f.u64)
def decodeUint64 (f : Field) : Outcome Nat := if f.typ ≠ 0 then .err "type mismatch" else .ok f.u64
def decodeBool (f : Field) : Outcome Bool := if f.typ ≠ 0 then .err "type mismatch" else .ok (toI64 f.u64 != 0)
def decodeString (f : Field) : Outcome Str := if f.typ ≠ 2 then .err "type mismatch" else .ok f.data

/-- the packed loop of `decodeUint64s` / `decodeInt64s` -/
def decodePacked : Nat → Bytes → Outcome (List Nat)
  | _, [] => .ok []
  | 0, _ :: _ => .panic "decodePacked: out of fuel"
  | fuel + 1, data@(_ :: _) => do
    let (u, rest) ← decodeVarint data
    let r ← decodePacked fuel rest
    pure (u :: r)

/-- `decodeUint64s`: appends to `xs`. -/
def decodeUint64s (f : Field) (xs : List Nat) : Outcome (List Nat) :=
  if f.typ = 2 then do let us ← decodePacked f.data.length f.data; pure (xs ++ us)
  else do let u ← decodeUint64 f; pure (xs ++ [u])

def decodeInt64s (f : Field) (xs : List Int) : Outcome (List Int) :=
  if f.typ = 2 then do let us ← decodePacked f.data.length f.data; pure (xs ++ us.map toI64)
  else do let u ← decodeInt64 f; pure (xs ++ [u])

/-! ### encoders -/
def encodeLength (tag len : Nat) : Bytes := encodeVarint (tag * 8 + 2) ++ encodeVarint len
def encodeUint64 (tag x : Nat) : Bytes := encodeVarint (tag * 8) ++ encodeVarint x
def encodeUint64Opt (tag x : Nat) : Bytes := if x = 0 then [] else encodeUint64 tag x
def encodeInt64 (tag : Nat) (x : Int) : Bytes := encodeUint64 tag (toU64 x)
def encodeInt64Opt (tag : Nat) (x : Int) : Bytes := if x = 0 then [] else encodeInt64 tag x
def encodeBoolOpt (tag : Nat) (x : Bool) : Bytes := if x then encodeUint64 tag 1 else []
def encodeString (tag : Nat) (s : Str) : Bytes := encodeLength tag s.length ++ s
def encodeStrings (tag : Nat) (ss : List Str) : Bytes := ss.flatMap (encodeString tag)
/-- `encodeMessage`: length prefix, then the body. -/
def encodeMessage (tag : Nat) (body : Bytes) : Bytes := encodeLength tag body.length ++ body
def encodeUint64s (tag : Nat) (xs : List Nat) : Bytes :=
  if xs.length > 2 then encodeMessage tag (xs.flatMap encodeVarint)
  else xs.flatMap (encodeUint64 tag)
def encodeInt64s (tag : Nat) (xs : List Int) : Bytes := encodeUint64s tag (xs.map toU64)

end Wire
end PV
