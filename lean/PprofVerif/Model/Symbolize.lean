import PprofVerif.Model.Profile
/-!
# Model of symbolization (property C12)

Mirrors, on the id-based profile model,

* `internal/symbolizer/symbolizer.go`: `Symbolizer.Symbolize` (mode parsing, local-then-remote
  order), `doLocalSymbolize` (mapping skip rules, `addFunction` interning and id allocation),
  `symbolizeOneMapping` (flag updates), `Demangle`, `demangleSingleFunction`,
  `looksLikeDemangledCPlusPlus`, `removeMatching`;
* `internal/symbolz/symbolz.go`: `Symbolize`, `symbolizeMapping`, `adjust`.

The model is the **repaired** behaviour (fixes/C12-function-id-above-max.patch,
fixes/C12-demangle-keep-nonempty.patch): new function ids are allocated above the largest id in
use, and the "already demangled" heuristic keeps the name when stripping would empty it.

Everything external is a parameter:
* the object-file plug-in (`ObjTool σ`: a state machine, so that answers may depend on the whole
  history of calls — "error at the k-th call" is an instance),
* the symbolz POST function and the parsing of one response line (`Symz τ`),
* `url.Parse` (`isSourceURL`, `symbolzURL`), `demangle.Filter` (`filter`).
Core Lean only.
-/
namespace PV.Sym
open PV

-- byte-string literal: `b!"abc"` is `[97, 98, 99] : List UInt8`, expanded at elaboration time.
open Lean in
macro:max "b!" s:str : term => do
  let bytes := s.getString.toUTF8.toList
  let mut acc ← `(([] : List UInt8))
  for b in bytes.reverse do
    acc ← `(List.cons ($(Syntax.mkNumLit (toString b.toNat)) : UInt8) $acc)
  return acc

def two64 : Nat := 18446744073709551616
def two63 : Nat := 9223372036854775808

/-! ### machine integers -/

/-- `uint64(i)` for a mathematical integer (two's complement truncation). -/
def toU64 (i : Int) : Nat := (i % (two64 : Int)).toNat
/-- `int64(n)` for a uint64 bit pattern. -/
def toI64 (n : Nat) : Int :=
  if n % two64 < two63 then ((n % two64 : Nat) : Int) else ((n % two64 : Nat) : Int) - (two64 : Int)
/-- int64 arithmetic result: wrap a mathematical integer into the int64 range. -/
def wrapI64 (i : Int) : Int := toI64 (toU64 i)

/-- `symbolz.adjust`: `adj := uint64(int64(addr) + offset)`; `none` is the overflow signal
(Go returns `(0, true)`). -/
def adjust (addr : Nat) (off : Int) : Option Nat :=
  let adj := toU64 ((addr : Int) + off)
  if off < 0 then (if adj ≥ addr then none else some adj)
  else (if adj < addr then none else some adj)

/-! ### small string functions -/

def lowerByte (c : UInt8) : UInt8 := if 65 ≤ c ∧ c ≤ 90 then c + 32 else c
/-- `strings.ToLower` on ASCII input (mode strings; non-ASCII modes are outside the model). -/
def toLower (s : Str) : Str := s.map lowerByte

/-- `strings.Split(s, sep)` for a one-byte separator. -/
def splitOn (sep : UInt8) : Str → List Str
  | [] => [[]]
  | c :: cs =>
    match splitOn sep cs with
    | [] => [[c]]
    | h :: t => if c = sep then [] :: h :: t else (c :: h) :: t

def hasPrefix (pre s : Str) : Bool := pre.isPrefixOf s

/-- `strings.Contains(s, sub)`. -/
def isInfix (sub : Str) : Str → Bool
  | [] => sub.isEmpty
  | c :: cs => hasPrefix sub (c :: cs) || isInfix sub cs

/-- `strings.TrimPrefix`. -/
def trimPrefix (pre s : Str) : Str := if hasPrefix pre s then s.drop pre.length else s

/-- `filepath.Base` (Unix). -/
def base (path : Str) : Str :=
  if path = [] then b!"." else
  let t := (path.reverse.dropWhile (· == 47)).reverse
  if t = [] then b!"/" else (t.reverse.takeWhile (· != 47)).reverse

/-- `(*profile.Mapping).Unsymbolizable`. -/
def unsymbolizable (file : Str) : Bool :=
  let name := base file
  hasPrefix b!"[" name || hasPrefix b!"linux-vdso" name || hasPrefix b!"/dev/dri/" file ||
    file == b!"//anon"

def hexDigit8 (n : Nat) : UInt8 := if n < 10 then UInt8.ofNat (48 + n) else UInt8.ofNat (87 + n)

def hexAux : Nat → Nat → Str → Str
  | 0, _, acc => acc
  | k+1, n, acc =>
    let acc' := hexDigit8 (n % 16) :: acc
    if n / 16 = 0 then acc' else hexAux k (n / 16) acc'

/-- `fmt.Sprintf("%#x", addr)` for a uint64. -/
def hexAddr (n : Nat) : Str := b!"0x" ++ hexAux 16 n []

def joinPlus : List Str → Str
  | [] => []
  | [a] => a
  | a :: b :: r => a ++ (43 :: joinPlus (b :: r))

/-! ### mode parsing (`Symbolizer.Symbolize`, symbolizer.go:50-78) -/

inductive DMode where
  | dflt | templates | full | none
  deriving Repr, DecidableEq, Inhabited

structure Opts where
  remote : Bool := true
  locl : Bool := true
  fast : Bool := false
  force : Bool := false
  dmode : DMode := .dflt
  deriving Repr, DecidableEq, Inhabited

/-- one option token; `none` = "none"/"no": return without symbolizing. Unrecognised tokens only
print a message. -/
def applyOpt (o : Opts) (tok : Str) : Option Opts :=
  if tok = [] then some o
  else if tok = b!"none" ∨ tok = b!"no" then none
  else if tok = b!"local" then some { o with remote := false, locl := true }
  else if tok = b!"fastlocal" then some { o with remote := false, locl := true, fast := true }
  else if tok = b!"remote" then some { o with remote := true, locl := false }
  else if tok = b!"force" then some { o with force := true }
  else
    let d := trimPrefix b!"demangle=" tok
    if d = b!"full" then some { o with dmode := .full, force := true }
    else if d = b!"none" then some { o with dmode := .none, force := true }
    else if d = b!"templates" then some { o with dmode := .templates, force := true }
    else some o      -- "default" and unrecognised options

def applyOpts : Opts → List Str → Option Opts
  | o, [] => some o
  | o, t :: ts => match applyOpt o t with
    | none => none
    | some o' => applyOpts o' ts

def parseMode (mode : Str) : Option Opts := applyOpts {} (splitOn 58 (toLower mode))

/-! ### function table and id allocation (repaired: above the largest id in use) -/

def maxFuncID (fs : List Function) : Nat := fs.foldl (fun a f => max a f.id) 0

/-- The function table being extended. `top` is Go's `maxFunctionID` (a uint64); `wrapped` is a
ghost flag recording that `maxFunctionID++` overflowed at some point of the run. -/
structure FTab where
  functions : List Function
  top : Nat
  wrapped : Bool
  deriving Repr, DecidableEq, Inhabited

/-- `maxFunctionID++; f.ID = maxFunctionID; prof.Function = append(prof.Function, f)`. -/
def FTab.alloc (t : FTab) (name file : Str) (startLine : Int) : FTab × Nat :=
  let id := (t.top + 1) % two64
  ({ functions := t.functions ++ [{ id := id, name := name, systemName := name, filename := file,
                                    startLine := startLine }],
     top := id, wrapped := t.wrapped || decide (two64 ≤ t.top + 1) }, id)

/-- recompute `maxFunctionID` from the table (done at the start of `doLocalSymbolize` and of
every `symbolizeMapping`). -/
def FTab.rescan (t : FTab) : FTab := { t with top := maxFuncID t.functions }

/-! ### local symbolization (`doLocalSymbolize`, `symbolizeOneMapping`) -/

structure Frame where
  func : Str
  file : Str
  line : Int
  column : Int
  startLine : Int
  deriving Repr, DecidableEq, Inhabited

/-- The `plugin.ObjTool`/`plugin.ObjFile` plug-in as a state machine over an arbitrary state `σ`.
`openFile` is `Open(m.File, m.Start, m.Limit, m.Offset, m.KernelRelocationSymbol)`; an `err`
outcome of `openFile`/`sourceLine` is a returned Go error. -/
structure ObjTool (σ : Type) where
  openFile : σ → Mapping → σ × Outcome Unit
  buildID : σ → σ × Str
  sourceLine : σ → Nat → σ × Outcome (List Frame)
  close : σ → σ

/-- key of the `functions` map of `doLocalSymbolize`: the `profile.Function` value with ID 0;
Name = SystemName = frame.Func. -/
structure FKey where
  name : Str
  file : Str
  startLine : Int
  deriving Repr, DecidableEq, Inhabited

structure LSt where
  tab : FTab
  intern : List (FKey × Nat)
  deriving Repr, Inhabited

def addFunction (st : LSt) (fr : Frame) : LSt × Nat :=
  let k : FKey := ⟨fr.func, fr.file, fr.startLine⟩
  match st.intern.lookup k with
  | some id => (st, id)
  | none =>
    let r := st.tab.alloc fr.func fr.file fr.startLine
    ({ tab := r.1, intern := (k, r.2) :: st.intern }, r.2)

/-- the loop over `stack` in `symbolizeOneMapping`. -/
def symFrames : LSt → Mapping → List Frame → LSt × Mapping × List Line
  | st, m, [] => (st, m, [])
  | st, m, fr :: rest =>
    let m1 := { m with hasFunctions := m.hasFunctions || decide (fr.func ≠ []),
                       hasFilenames := m.hasFilenames || decide (fr.file ≠ []),
                       hasLineNumbers := m.hasLineNumbers || decide (fr.line ≠ 0) }
    let r := addFunction st fr
    let r2 := symFrames r.1 m1 rest
    (r2.1, r2.2.1, { functionID := r.2, line := fr.line, column := fr.column } :: r2.2.2)

def symLocation {σ} (tool : ObjTool σ) (s : σ) (st : LSt) (m : Mapping) (l : Location) :
    σ × LSt × Mapping × Location :=
  match tool.sourceLine s l.address with
  | (s1, .ok (fr :: frs)) =>
    let r := symFrames st m (fr :: frs)
    (s1, r.1, { r.2.1 with hasInlineFrames := true }, { l with lines := r.2.2, isFolded := false })
  | (s1, _) => (s1, st, m, l)       -- error or no answer

/-- `symbolizeOneMapping`: the locations of mapping `mid`, in table order. -/
def symLocs {σ} (tool : ObjTool σ) (mid : Nat) :
    σ → LSt → Mapping → List Location → σ × LSt × Mapping × List Location
  | s, st, m, [] => (s, st, m, [])
  | s, st, m, l :: rest =>
    if l.mappingID = mid then
      let r := symLocation tool s st m l
      let r2 := symLocs tool mid r.1 r.2.1 r.2.2.1 rest
      (r2.1, r2.2.1, r2.2.2.1, r.2.2.2 :: r2.2.2.2)
    else
      let r2 := symLocs tool mid s st m rest
      (r2.1, r2.2.1, r2.2.2.1, l :: r2.2.2.2)

/-- skip rules of the mapping loop that do not consult the plug-in. -/
def localSkip (isSourceURL : Str → Bool) (force : Bool) (locs : List Location) (m : Mapping) : Bool :=
  !(locs.any (·.mappingID == m.id)) ||
  (!force && (m.hasFunctions || m.hasFilenames || m.hasLineNumbers)) ||
  m.file == [] ||
  unsymbolizable m.file ||
  (m.buildID == [] && isSourceURL m.file)

def localMapping {σ} (tool : ObjTool σ) (isSourceURL : Str → Bool) (force : Bool)
    (s : σ) (st : LSt) (locs : List Location) (m : Mapping) : σ × LSt × List Location × Mapping :=
  if localSkip isSourceURL force locs m then (s, st, locs, m) else
  match tool.openFile s m with
  | (s1, .ok ()) =>
    let b := tool.buildID s1
    if m.buildID ≠ [] ∧ b.2 ≠ [] ∧ b.2 ≠ m.buildID then (tool.close b.1, st, locs, m)
    else
      let r := symLocs tool m.id b.1 st m locs
      (tool.close r.1, r.2.1, r.2.2.2, r.2.2.1)
  | (s1, _) => (s1, st, locs, m)

def localLoop {σ} (tool : ObjTool σ) (isSourceURL : Str → Bool) (force : Bool) :
    σ → LSt → List Location → List Mapping → σ × LSt × List Location × List Mapping
  | s, st, locs, [] => (s, st, locs, [])
  | s, st, locs, m :: ms =>
    let r := localMapping tool isSourceURL force s st locs m
    let r2 := localLoop tool isSourceURL force r.1 r.2.1 r.2.2.1 ms
    (r2.1, r2.2.1, r2.2.2.1, r.2.2.2 :: r2.2.2.2)

/-- `doLocalSymbolize` on the three tables it touches. -/
def doLocal {σ} (tool : ObjTool σ) (isSourceURL : Str → Bool) (force : Bool)
    (s : σ) (tab : FTab) (locs : List Location) (maps : List Mapping) :
    σ × FTab × List Location × List Mapping :=
  let r := localLoop tool isSourceURL force s { tab := tab.rescan, intern := [] } locs maps
  (r.1, r.2.1.tab, r.2.2.1, r.2.2.2)

/-! ### remote symbolization (`symbolz.Symbolize`, `symbolizeMapping`) -/

structure Source where
  source : Str
  start : Nat
  deriving Repr, DecidableEq, Inhabited

/-- `plugin.MappingSources`: key (file or build id) ↦ sources. -/
abbrev Sources := List (Str × List Source)

def Sources.get (ss : Sources) (k : Str) : List Source :=
  match ss.lookup k with
  | some l => l
  | none => []

/-- The symbolz side: `symbolzURL` is `symbolz(source)` (url.Parse; `[]` = not a symbolz source),
`post` is the `syms` function (a state machine), `parseLine` is `symbolzRE.FindStringSubmatch`
followed by `strconv.ParseUint(symbol[1], 0, 64)`: `none` = the line does not match,
`some (err, _)` = the address does not fit a uint64, `some (ok a, name)` otherwise. -/
structure Symz (τ : Type) where
  symbolzURL : Str → Str
  post : τ → Str → Str → τ × Outcome Str
  parseLine : Str → Option (Outcome Nat × Str)

/-- lines of the response as produced by `buf.ReadString('\n')` until EOF: each one ends in
`\n`; a trailing piece without newline is dropped. -/
def splitLinesAux : Str → Str → List Str
  | _, [] => []
  | cur, c :: cs => if c = 10 then (cur ++ [c]) :: splitLinesAux [] cs else splitLinesAux (cur ++ [c]) cs

def splitLines (body : Str) : List Str := splitLinesAux [] body

/-- the addresses to query: locations of the mapping with a non-zero address and no lines,
re-based; `none` = an address cannot be adjusted. -/
def queryAddrs (mid : Nat) (off : Int) : List Location → Option (List Nat)
  | [] => some []
  | l :: rest =>
    if l.mappingID = mid ∧ l.address ≠ 0 ∧ l.lines = [] then
      match adjust l.address off with
      | none => none
      | some a => (queryAddrs mid off rest).map (a :: ·)
    else queryAddrs mid off rest

structure ZSt where
  tab : FTab
  names : List (Str × Nat)      -- `functions` map of one symbolizeMapping call: name ↦ id
  lineMap : List (Nat × Nat)    -- `lines` map: address ↦ function id, most recent first
  deriving Repr, Inhabited

def internName (st : ZSt) (name : Str) : ZSt × Nat :=
  match st.names.lookup name with
  | some id => (st, id)
  | none =>
    let r := st.tab.alloc name [] 0
    ({ st with tab := r.1, names := (name, r.2) :: st.names }, r.2)

/-- the response loop; the Bool is "an error was returned". -/
def symzLines (parseLine : Str → Option (Outcome Nat × Str)) (negOff : Int) :
    ZSt → List Str → ZSt × Bool
  | st, [] => (st, false)
  | st, ln :: rest =>
    match parseLine ln with
    | none => symzLines parseLine negOff st rest
    | some (.ok orig, name) =>
      match adjust orig negOff with
      | none => (st, true)
      | some addr =>
        let r := internName st name
        symzLines parseLine negOff { r.1 with lineMap := (addr, r.2) :: r.1.lineMap } rest
    | some (_, _) => (st, true)

def applyLine (mid : Nat) (lm : List (Nat × Nat)) (l : Location) : Location :=
  if l.mappingID = mid then
    match lm.lookup l.address with
    | some id => { l with lines := [{ functionID := id, line := 0, column := 0 }] }
    | none => l
  else l

/-- `-offset` in int64. -/
def negI64 (off : Int) : Int := wrapI64 (-off)

/-- `symbolizeMapping`; the Bool is "returned an error". -/
def symbolizeMapping {τ} (z : Symz τ) (src : Str) (off : Int) (mid : Nat)
    (t : τ) (tab : FTab) (locs : List Location) : τ × FTab × List Location × Bool :=
  match queryAddrs mid off locs with
  | none => (t, tab, locs, true)
  | some [] => (t, tab, locs, false)
  | some (a :: as) =>
    match z.post t src (joinPlus ((a :: as).map hexAddr)) with
    | (t1, .ok body) =>
      let r := symzLines z.parseLine (negI64 off) { tab := tab.rescan, names := [], lineMap := [] }
                 (splitLines body)
      if r.2 then (t1, r.1.tab, locs, true)
      else (t1, r.1.tab, locs.map (applyLine mid r.1.lineMap), false)
    | (t1, _) => (t1, tab, locs, true)

/-- `int64(source.Start) - int64(m.Start)`. -/
def srcOffset (srcStart mStart : Nat) : Int := wrapI64 (toI64 srcStart - toI64 mStart)

def remoteMapping {τ} (z : Symz τ) (force : Bool) (sources : Sources)
    (t : τ) (tab : FTab) (locs : List Location) (m : Mapping) :
    τ × FTab × List Location × Mapping × Bool :=
  if !force && m.hasFunctions then (t, tab, locs, m, false) else
  let srcs := sources.get m.file ++ (if m.buildID ≠ [] then sources.get m.buildID else [])
  match srcs.find? (fun s => z.symbolzURL s.source != []) with
  | none => (t, tab, locs, m, false)
  | some src =>
    let r := symbolizeMapping z (z.symbolzURL src.source) (srcOffset src.start m.start) m.id t tab locs
    if r.2.2.2 then (r.1, r.2.1, r.2.2.1, m, true)
    else (r.1, r.2.1, r.2.2.1, { m with hasFunctions := true }, false)

/-- `symbolz.Symbolize`: stops at the first error, leaving the remaining mappings alone. -/
def remoteLoop {τ} (z : Symz τ) (force : Bool) (sources : Sources) :
    τ → FTab → List Location → List Mapping → τ × FTab × List Location × List Mapping × Bool
  | t, tab, locs, [] => (t, tab, locs, [], false)
  | t, tab, locs, m :: ms =>
    let r := remoteMapping z force sources t tab locs m
    if r.2.2.2.2 then (r.1, r.2.1, r.2.2.1, r.2.2.2.1 :: ms, true)
    else
      let r2 := remoteLoop z force sources r.1 r.2.1 r.2.2.1 ms
      (r2.1, r2.2.1, r2.2.2.1, r.2.2.2.1 :: r2.2.2.2.1, r2.2.2.2.2)

/-! ### demangling (`Demangle`, `demangleSingleFunction`, `removeMatching`) -/

inductive DOpt where
  | noParams | noEnclosingParams | noTemplateParams | noClones
  deriving Repr, DecidableEq, Inhabited

/-- `demanglerModeToOptions`. -/
def dmodeOptions : DMode → List DOpt
  | .dflt => [.noParams, .noEnclosingParams, .noTemplateParams]
  | .templates => [.noParams, .noEnclosingParams]
  | .full => [.noClones]
  | .none => []

/-- `removeMatching` as a left-to-right scan: `n` is the nesting depth, `kept` the part of the
result fixed so far, `pend` the bytes since the opening bracket of the current outermost group. -/
def rmScan (a b : UInt8) : Nat → Str → Str → Str → Str
  | _, kept, pend, [] => kept ++ pend
  | 0, kept, _, c :: cs =>
    if c = a then rmScan a b 1 kept [c] cs
    else if c = b then kept ++ c :: cs                 -- mismatch: abort with the current name
    else rmScan a b 0 (kept ++ [c]) [] cs
  | n+1, kept, pend, c :: cs =>
    if c = a then rmScan a b (n+2) kept (pend ++ [c]) cs
    else if c = b then (if n = 0 then rmScan a b 0 kept [] cs else rmScan a b n kept (pend ++ [c]) cs)
    else rmScan a b (n+1) kept (pend ++ [c]) cs

def removeMatching (name : Str) (a b : UInt8) : Str := rmScan a b 0 [] [] name

def looksLikeDemangledCPlusPlus (s : Str) : Bool :=
  if isInfix b!".<" s then false
  else if isInfix b!"])." s then false
  else s.any (fun c => c == 60 || c == 62 || c == 91 || c == 93) || isInfix b!"::" s

def stripOpt (name : Str) : DOpt → Str
  | .noParams => removeMatching name 40 41
  | .noTemplateParams => removeMatching name 60 62
  | _ => name

def stripOpts (opts : List DOpt) (name : Str) : Str := opts.foldl stripOpt name

/-- the last part of `demangleSingleFunction`: the name could not be demangled. Repaired: when
stripping removes everything the name is kept. -/
def heuristicName (opts : List DOpt) (sys : Str) : Str :=
  if looksLikeDemangledCPlusPlus sys then
    let s := stripOpts opts sys
    if s = [] then sys else s
  else sys

def demangleSingle (filter : List DOpt → Str → Str) (opts : List DOpt) (fn : Function) : Function :=
  if fn.name ≠ [] ∧ fn.systemName ≠ fn.name then fn else
  let d := filter opts fn.systemName
  if d ≠ fn.systemName then { fn with name := d } else
  match fn.systemName with
  | 95 :: t =>
    let d2 := filter opts t
    if d2 ≠ t then { fn with name := d2 } else { fn with name := heuristicName opts fn.systemName }
  | _ => { fn with name := heuristicName opts fn.systemName }

def forceReset (f : Function) : Function :=
  if f.name ≠ [] ∧ f.systemName ≠ [] then { f with name := f.systemName } else f

/-- what `Demangle` does to one function. -/
def demangleOne (filter : List DOpt → Str → Str) (force : Bool) (dm : DMode) (f : Function) : Function :=
  let f1 := if force then forceReset f else f
  match dmodeOptions dm with
  | [] => f1
  | o :: os => demangleSingle filter (o :: os) f1

def demangle (filter : List DOpt → Str → Str) (force : Bool) (dm : DMode) (fs : List Function) :
    List Function := fs.map (demangleOne filter force dm)

/-! ### the whole of `Symbolizer.Symbolize` -/

structure Env (σ τ : Type) where
  tool : ObjTool σ
  isSourceURL : Str → Bool
  symz : Symz τ
  filter : List DOpt → Str → Str

structure Result (σ τ : Type) where
  profile : Profile
  err : Bool          -- Symbolize returned an error (only the remote step can)
  wrapped : Bool      -- ghost: a function-id counter overflowed uint64 during the run
  s : σ
  t : τ

/-- the three tables after the local and the remote step. -/
def symbolizeTables {σ τ} (env : Env σ τ) (o : Opts) (sources : Sources) (p : Profile) (s : σ) (t : τ) :
    (σ × τ) × FTab × List Location × List Mapping × Bool :=
  let tab0 : FTab := { functions := p.functions, top := 0, wrapped := false }
  let l := if o.locl then doLocal env.tool env.isSourceURL o.force s tab0 p.locations p.mappings
           else (s, tab0, p.locations, p.mappings)
  if o.remote then
    let r := remoteLoop env.symz o.force sources t l.2.1 l.2.2.1 l.2.2.2
    ((l.1, r.1), r.2.1, r.2.2.1, r.2.2.2.1, r.2.2.2.2)
  else ((l.1, t), l.2.1, l.2.2.1, l.2.2.2, false)

def symbolize {σ τ} (env : Env σ τ) (mode : Str) (sources : Sources) (p : Profile) (s : σ) (t : τ) :
    Result σ τ :=
  match parseMode mode with
  | none => { profile := p, err := false, wrapped := false, s := s, t := t }
  | some o =>
    let r := symbolizeTables env o sources p s t
    let fs := if r.2.2.2.2 then r.2.1.functions      -- error: returned before Demangle
              else demangle env.filter o.force o.dmode r.2.1.functions
    { profile := { p with functions := fs, locations := r.2.2.1, mappings := r.2.2.2.1 },
      err := r.2.2.2.2, wrapped := r.2.1.wrapped, s := r.1.1, t := r.1.2 }

/-! ### the fetch path around `Symbolize` (`fetchProfiles`, fetch.go:80-85)

After the sources are fetched (and merged, when there are several) the driver symbolizes the
profile, calls `RemoveUninteresting` and `unsourceMappings`, and nothing else before the validity
re-check. `prune` is `Profile.Prune` with the compiled drop/keep-frames expressions (regexp: a
parameter; only reached for a non-empty `drop_frames`), `isAbsURL` is `url.Parse(m.File).IsAbs()`
for a file without volume name. -/

def unsourceMappings (isAbsURL : Str → Bool) (ms : List Mapping) : List Mapping :=
  ms.map fun m => if m.buildID = [] ∧ isAbsURL m.file = true then { m with file := [] } else m

/-- `none` = `Symbolize` returned an error and the fetch fails. -/
def fetchStep {σ τ} (env : Env σ τ) (prune : Profile → Profile) (isAbsURL : Str → Bool)
    (mode : Str) (sources : Sources) (p : Profile) (s : σ) (t : τ) : Option Profile :=
  let r := symbolize env mode sources p s t
  if r.err then none else
  let q := if r.profile.dropFrames = [] then r.profile else prune r.profile
  some { q with mappings := unsourceMappings isAbsURL q.mappings }

/-! ### a concrete line parser (instance of `Symz.parseLine`)

`symbolzRE = (0x[[:xdigit:]]+)\s+(.*)`, leftmost match; `\s` = `[\t\n\f\r ]`; `.` excludes `\n`. -/

def isHex (c : UInt8) : Bool := (48 ≤ c && c ≤ 57) || (97 ≤ c && c ≤ 102) || (65 ≤ c && c ≤ 70)
def hexVal8 (c : UInt8) : Nat :=
  if 48 ≤ c && c ≤ 57 then c.toNat - 48 else if 97 ≤ c && c ≤ 102 then c.toNat - 87 else c.toNat - 55
def isWS (c : UInt8) : Bool := c == 9 || c == 10 || c == 12 || c == 13 || c == 32

def hexValue (ds : Str) : Nat := ds.foldl (fun a c => a * 16 + hexVal8 c) 0

/-- the regular expression anchored at the start of `s`. -/
def matchHere (s : Str) : Option (Str × Str) :=
  match s with
  | 48 :: 120 :: r =>
    let ds := r.takeWhile isHex
    let r1 := r.dropWhile isHex
    let ws := r1.takeWhile isWS
    let r2 := r1.dropWhile isWS
    if ds = [] ∨ ws = [] then none else some (ds, r2.takeWhile (· != 10))
  | _ => none

def parseSymbolzLine : Str → Option (Outcome Nat × Str)
  | [] => none
  | c :: cs =>
    match matchHere (c :: cs) with
    | some (ds, name) =>
      let v := hexValue ds
      some (if v < two64 then .ok v else .err "value out of range", name)
    | none => parseSymbolzLine cs

end PV.Sym
