import PprofVerif.Base.Basic
/-!
# Model of the panic-capable decision logic of pprof's driver (property C09)

Core Lean only.  Every Go index expression, slice expression and explicit `panic` of the modelled
functions is a *checked access* returning `Outcome` (`idx`, `idxInt`, `sliceTo`, `sliceFrom`), so
"never panics" is a theorem about these definitions (Props/C09.lean), not an artefact of
totalisation.  External things are parameters (`Env`): `strings.Fields`, `strings.TrimSpace`,
`strconv.ParseFloat`, `measurement.Scale` (result unit only), `filepath.*`, `ObjTool.Open`, report
generation.

Mirrors (pinned tree + fixes/C09-*.patch):
* `internal/driver/driver_focus.go`  `tagFilterRangeRx`, `parseTagFilterRange`, `compileTagFilter` (front part)
* `internal/driver/fetch.go`         `locateBinaries` (candidate file names, exec/build-id override)
* `internal/driver/interactive.go`   `interactive` (one line), `shortcuts.expand`, `parseCommandLine`,
                                     `printCurrentOptions` (the `st[len(st)-1]` access), `newCompleter`
* `internal/driver/config.go`        `set`, `configure`, `isConfigurable`, `isBoolConfig`
* `internal/driver/commands.go`      `stringToBool`, command table (names, hasParam)
* `profile/index.go`                 `SampleIndexByName`;  `driver.go` `sampleFormat`/`valueExtractor`
* `internal/symbolizer/symbolizer.go` option string of `Symbolize`, `demanglerModeToOptions`
-/
namespace PV.Crash
open PV

/-! ## checked accesses -/

/-- Go `l[i]` for a non-negative literal/loop index. -/
def idx {α} (site : String) : List α → Nat → Outcome α
  | [], _ => .panic site
  | a :: _, 0 => .ok a
  | _ :: as, n+1 => idx site as n

/-- Go `l[i]` for a computed `int` index (may be negative). -/
def idxInt {α} (site : String) (l : List α) (i : Int) : Outcome α :=
  if i < 0 then .panic site else idx site l i.toNat

/-- Go `s[:n]` for a computed `int` bound. -/
def sliceTo {α} (site : String) (s : List α) (n : Int) : Outcome (List α) :=
  if 0 ≤ n ∧ n ≤ (s.length : Int) then .ok (s.take n.toNat) else .panic site

/-- Go `s[n:]` for a computed `int` bound. -/
def sliceFrom {α} (site : String) (s : List α) (n : Int) : Outcome (List α) :=
  if 0 ≤ n ∧ n ≤ (s.length : Int) then .ok (s.drop n.toNat) else .panic site

/-! ## bytes, character classes, small string functions -/

abbrev S (s : String) : Str := Str.ofString s

def isDigit (b : UInt8) : Bool := 48 ≤ b && b ≤ 57
def isAlpha (b : UInt8) : Bool := (65 ≤ b && b ≤ 90) || (97 ≤ b && b ≤ 122)
def lowerB (b : UInt8) : UInt8 := if 65 ≤ b && b ≤ 90 then b + 32 else b
def lowerAscii (s : Str) : Str := s.map lowerB

/-- longest prefix satisfying `p`, and the rest. -/
def spanP (p : UInt8 → Bool) : Str → Str × Str
  | [] => ([], [])
  | b :: r => if p b then let (a, c) := spanP p r; (b :: a, c) else ([], b :: r)

def isPrefix : Str → Str → Bool
  | [], _ => true
  | _ :: _, [] => false
  | a :: as, b :: bs => a == b && isPrefix as bs

/-- `strings.SplitN(s, sep, 2)` for a one-byte separator: one or two pieces. -/
def splitN2 (sep : UInt8) : Str → List Str
  | [] => [[]]
  | b :: r => if b == sep then [[], r] else
      match splitN2 sep r with
      | [a] => [b :: a]
      | [a, c] => [b :: a, c]
      | _ => [b :: r]   -- unreachable; keeps the function total without defaulting an access

/-- `strings.Split(s, sep)` for a one-byte separator. -/
def splitAll (sep : UInt8) : Str → List Str
  | [] => [[]]
  | b :: r => if b == sep then [] :: splitAll sep r else
      match splitAll sep r with
      | a :: rest => (b :: a) :: rest
      | [] => [[b]]

/-- `strings.LastIndex(s, pat)`: byte offset of the last occurrence, or -1. -/
def lastIndexFrom (pat : Str) : Str → Nat → Int → Int
  | [], i, acc => if pat.isEmpty then i else acc
  | b :: r, i, acc => lastIndexFrom pat r (i+1) (if isPrefix pat (b :: r) then i else acc)
def lastIndex (s pat : Str) : Int := lastIndexFrom pat s 0 (-1)

/-- the match of `[0-9]+$` (`tailDigitsRE.FindString`): the maximal all-digit suffix. -/
def tailDigits (s : Str) : Str := (spanP isDigit s.reverse).1.reverse

/-! ## strconv -/

def digitsVal : Str → Nat → Option Nat
  | [], acc => some acc
  | b :: r, acc => if isDigit b then digitsVal r (acc * 10 + (b.toNat - 48)) else none

/-- `strconv.ParseInt(s, 10, bits)` (`none` = syntax or range error). -/
def parseIntDec (bits : Nat) (s : Str) : Option Int :=
  let (neg, body) : Bool × Str := match s with
    | 43 :: r => (false, r)
    | 45 :: r => (true, r)
    | _ => (false, s)
  if body.isEmpty then none else
  match digitsVal body 0 with
  | none => none
  | some n =>
    if neg then (if n ≤ 2 ^ (bits - 1) then some (-(n : Int)) else none)
    else (if n < 2 ^ (bits - 1) then some (n : Int) else none)

/-- `strconv.Atoi` on a 64-bit platform. -/
def atoi (s : Str) : Option Int := parseIntDec 64 s

/-- `strconv.ParseBool`. -/
def parseBool (s : Str) : Option Bool :=
  if s = S "1" ∨ s = S "t" ∨ s = S "T" ∨ s = S "TRUE" ∨ s = S "true" ∨ s = S "True" then some true
  else if s = S "0" ∨ s = S "f" ∨ s = S "F" ∨ s = S "FALSE" ∨ s = S "false" ∨ s = S "False" then some false
  else none

/-- `stringToBool` of commands.go (`strings.ToLower` restricted to ASCII: no other letter lowers
into one of the accepted words). -/
def stringToBool (s : Str) : Option Bool :=
  let l := lowerAscii s
  if l = S "true" ∨ l = S "t" ∨ l = S "yes" ∨ l = S "y" ∨ l = S "1" ∨ l = [] then some true
  else if l = S "false" ∨ l = S "f" ∨ l = S "no" ∨ l = S "n" ∨ l = S "0" then some false
  else none

/-! ## tag filter ranges (driver_focus.go) -/

/-- one match of `([+-]?[[:digit:]]+)([[:alpha:]]+)?` anchored at the head of `s`:
the submatch list `[whole, number, unit]` and the unconsumed rest. -/
def signSplit : Str → Str × Str
  | 43 :: r => ([43], r)
  | 45 :: r => ([45], r)
  | s => ([], s)

def matchAt (s : Str) : Option (List Str × Str) :=
  let sr := signSplit s
  let d := spanP isDigit sr.2
  if d.1.isEmpty then none else
  let al := spanP isAlpha d.2
  some ([sr.1 ++ d.1 ++ al.1, sr.1 ++ d.1, al.1], al.2)

/-- `tagFilterRangeRx.FindAllStringSubmatch(s, k)`: leftmost non-overlapping matches, at most `k`.
`fuel` bounds the scan (`s.length + 1` suffices). -/
def findRangesF : Nat → Nat → Str → List (List Str)
  | 0, _, _ => []
  | _, 0, _ => []
  | fuel+1, k+1, s =>
    match matchAt s with
    | some (m, rest) => m :: findRangesF fuel k rest
    | none => match s with
      | [] => []
      | _ :: t => findRangesF fuel (k+1) t

def findRanges (k : Nat) (s : Str) : List (List Str) := findRangesF (s.length + 1) k s

inductive RangeKind where | eq | ge | le | between
  deriving Repr, DecidableEq

def RangeKind.name : RangeKind → String
  | .eq => "eq" | .ge => "ge" | .le => "le" | .between => "between"

/-- `parseTagFilterRange`.  `onOverflow` is what the code does when `strconv.ParseInt` fails:
the pinned tree panics, the repaired tree returns an error.  `scaleUnit v from to` is the unit
returned by `measurement.Scale`. -/
def parseTagFilterRangeG (onOverflow : String → Outcome (Option RangeKind))
    (scaleUnit : Int → Str → Str → Str) (filter : Str) : Outcome (Option RangeKind) := do
  let ranges := findRanges 2 filter
  if ranges.length = 0 then return none
  let r0 ← idx "driver_focus.go ranges[0]" ranges 0
  let r0whole ← idx "driver_focus.go ranges[0][0]" r0 0
  let r0num ← idx "driver_focus.go ranges[0][1]" r0 1
  let r0unit ← idx "driver_focus.go ranges[0][2]" r0 2
  match parseIntDec 64 r0num with
  | none => onOverflow "driver_focus.go parseTagFilterRange ParseInt(ranges[0][1])"
  | some v =>
    let unit := scaleUnit v r0unit r0unit
    if ranges.length = 1 then
      if filter = r0whole then return some .eq
      else if filter = r0whole ++ [58] then return some .ge
      else if filter = 58 :: r0whole then return some .le
      else return none
    else
      let r1 ← idx "driver_focus.go ranges[1]" ranges 1
      let r1whole ← idx "driver_focus.go ranges[1][0]" r1 0
      let r1num ← idx "driver_focus.go ranges[1][1]" r1 1
      let r1unit ← idx "driver_focus.go ranges[1][2]" r1 2
      if filter ≠ r0whole ++ [58] ++ r1whole then return none
      match parseIntDec 64 r1num with
      | none => onOverflow "driver_focus.go parseTagFilterRange ParseInt(ranges[1][1])"
      | some v2 =>
        let unit2 := scaleUnit v2 r1unit unit
        if unit ≠ unit2 then return none else return some .between

/-- the repaired code (fixes/C09-tagfilter-range-overflow.patch): error instead of panic. -/
def parseTagFilterRange := parseTagFilterRangeG (fun _ => .err "failed to parse int")
/-- the pinned code. -/
def parseTagFilterRangePinned := parseTagFilterRangeG (fun site => .panic site)

inductive TagFilter where
  | absent                         -- empty option value: no filter
  | range (k : RangeKind)          -- numeric range filter
  | regexp (key value : Str)       -- value goes to regexp.Compile (per comma-separated piece)
  deriving Repr, DecidableEq

/-- front part of `compileTagFilter`: `key=value` split, range-or-regexp decision. -/
def compileTagFilterG (ptr : Str → Outcome (Option RangeKind)) (value : Str) : Outcome TagFilter := do
  if value.isEmpty then return .absent
  let pair := splitN2 61 value
  let (wantKey, value) ← (if pair.length = 2 then do
      let k ← idx "driver_focus.go tagValuePair[0]" pair 0
      let v ← idx "driver_focus.go tagValuePair[1]" pair 1
      pure (k, v)
    else pure (([] : Str), value) : Outcome (Str × Str))
  match ← ptr value with
  | some k => return .range k
  | none => return .regexp wantKey value

def compileTagFilter (scaleUnit : Int → Str → Str → Str) :=
  compileTagFilterG (parseTagFilterRange scaleUnit)
def compileTagFilterPinned (scaleUnit : Int → Str → Str → Str) :=
  compileTagFilterG (parseTagFilterRangePinned scaleUnit)

/-! ### hand-copied unit table for the driver (result *unit* of `measurement.Scale`; tied by
correspondence, not used by any theorem — the theorems quantify over every `scaleUnit`). -/

def unitFamilies : List (Str × List (Str × List Str)) := [
  (S "B", [(S "B", [S "b", S "byte"]), (S "kB", [S "kb", S "kbyte", S "kilobyte"]),
           (S "MB", [S "mb", S "mbyte", S "megabyte"]), (S "GB", [S "gb", S "gbyte", S "gigabyte"]),
           (S "TB", [S "tb", S "tbyte", S "terabyte"]), (S "PB", [S "pb", S "pbyte", S "petabyte"])]),
  (S "s", [(S "ns", [S "ns", S "nanosecond"]), (S "us", [S "us", S "microsecond"]),
           (S "ms", [S "ms", S "millisecond"]), (S "s", [S "s", S "sec", S "second"]),
           (S "hrs", [S "hour", S "hr"])]),
  (S "GCU", [(S "n*GCU", [S "nanogcu"]), (S "u*GCU", [S "microgcu"]), (S "m*GCU", [S "milligcu"]),
             (S "GCU", [S "gcu"]), (S "k*GCU", [S "kilogcu"]), (S "M*GCU", [S "megagcu"]),
             (S "G*GCU", [S "gigagcu"]), (S "T*GCU", [S "teragcu"]), (S "P*GCU", [S "petagcu"])])]

/-- `UnitType.sniffUnit` (as repaired by the C15 fixes): the canonical name matched exactly, then
the lower-cased string as an exact alias, then with a plural `s` stripped when longer than 2 bytes. -/
def sniffIn (units : List (Str × List Str)) (u : Str) : Option Str :=
  match units.find? (fun e => e.1 = u) with
  | some e => some e.1
  | none =>
    let l := lowerAscii u
    match units.find? (fun e => e.2.contains l) with
    | some e => some e.1
    | none =>
      let l := if l.length > 2 ∧ l.getLast? = some 115 then l.dropLast else l
      (units.find? (fun e => e.2.contains l)).map (·.1)

/-- unit returned by `measurement.Scale(_, from, to)` for ASCII-letter units other than
"minimum"/"auto" (those need the value; the tag-range regexp never produces them from digits+letters
unless typed, and the generator keeps them on the Go side only). -/
def scaleUnitTable (_v : Int) (frm to : Str) : Str :=
  match unitFamilies.find? (fun fam => (sniffIn fam.2 frm).isSome) with
  | some fam => match sniffIn fam.2 to with
    | some c => c
    | none => fam.1
  | none =>
    if to = S "count" ∨ to = S "sample" ∨ to = S "unit" ∨ to = S "minimum" ∨ to = S "auto" then [] else to

/-! ## locateBinaries (fetch.go) -/

structure MappingM where
  file : Str
  buildID : Str
  deriving Repr, DecidableEq

/-- external path functions and the object tool -/
structure PathEnv where
  join : List Str → Str
  base : Str → Str
  dir : Str → Str
  noVolume : Str → Str
  glob : Str → List Str
  /-- `obj.Open(name, …)` succeeds and the file's build id is acceptable -/
  opens : Str → MappingM → Bool

/-- the candidate file names tried for mapping `m` under search directory `path`.
`guarded = true` is the repaired code (`if len(m.BuildID) > 2`), `false` the pinned code. -/
def candidateNames (guarded : Bool) (e : PathEnv) (path : Str) (m : MappingM) : Outcome (List Str) := do
  let noVol := if m.file.isEmpty then [] else e.noVolume m.file
  let baseName := if m.file.isEmpty then [] else e.base m.file
  let dirName := if m.file.isEmpty then [] else e.dir noVol
  let mut names : List Str := []
  if !m.buildID.isEmpty then
    names := names ++ [e.join [path, m.buildID, baseName]]
    names := names ++ e.glob (e.join [path, m.buildID, S "*"])
    names := names ++ [e.join [path, noVol, m.buildID]]
    if !guarded || m.buildID.length > 2 then
      let pre ← sliceTo "fetch.go locateBinaries m.BuildID[:2]" m.buildID 2
      let post ← sliceFrom "fetch.go locateBinaries m.BuildID[2:]" m.buildID 2
      names := names ++ [e.join [path, pre, post ++ S ".debug"]]
  if !m.file.isEmpty then
    names := names ++ [e.join [path, baseName], e.join [path, noVol], e.join [path, noVol ++ S ".debug"],
      e.join [path, dirName, S ".debug", baseName ++ S ".debug"],
      e.join [path, S "usr", S "lib", S "debug", dirName, baseName ++ S ".debug"]]
  return names

/-- per mapping: the first candidate (over all search directories) that opens, if any. -/
def locateOne (guarded : Bool) (e : PathEnv) : List Str → MappingM → Outcome (Option Str)
  | [], _ => .ok none
  | path :: rest, m => do
    let names ← candidateNames guarded e path m
    match names.find? (fun n => e.opens n m) with
    | some n => return some n
    | none => locateOne guarded e rest m

def locateAll (guarded : Bool) (e : PathEnv) (paths : List Str) : List MappingM → Outcome (List MappingM)
  | [] => .ok []
  | m :: ms => do
    let r ← locateOne guarded e paths m
    let m' := match r with | some n => { m with file := n } | none => m
    let rest ← locateAll guarded e paths ms
    return m' :: rest

/-- `locateBinaries`: search, fake mapping when there is none, `-buildid`/exec-name override of
`p.Mapping[0]`. -/
def locateBinariesG (guarded : Bool) (e : PathEnv) (paths : List Str) (ms : List MappingM)
    (execName buildID : Str) : Outcome (List MappingM) := do
  let ms ← locateAll guarded e paths ms
  let ms := if ms.length = 0 then [{ file := [], buildID := [] }] else ms
  if !execName.isEmpty || !buildID.isEmpty then
    let m ← idx "fetch.go locateBinaries p.Mapping[0]" ms 0
    let m := if !execName.isEmpty then { m with file := execName } else m
    let m := if !buildID.isEmpty && m.buildID.isEmpty then { m with buildID := buildID } else m
    return m :: ms.drop 1
  return ms

def locateBinaries := locateBinariesG true
def locateBinariesPinned := locateBinariesG false

/-! ## configuration (config.go) -/

inductive Kind where
  | bool | int | float | string
  | choice (cs : List Str)
  | other                 -- a field type `set`/`get` do not support: the `panic` branch
  deriving Repr, DecidableEq

def Kind.supported : Kind → Bool
  | .other => false
  | _ => true

structure Field where
  name : Str
  kind : Kind
  deriving Repr, DecidableEq

/-- the configurable fields of `config`, in declaration order (hand-copied; the harness compares the
names with what the real `options` command prints and the kinds by setting values). -/
def fields : List Field := [
  ⟨S "output", .string⟩, ⟨S "call_tree", .bool⟩, ⟨S "relative_percentages", .bool⟩, ⟨S "unit", .string⟩,
  ⟨S "compact_labels", .bool⟩, ⟨S "source_path", .string⟩, ⟨S "trim_path", .string⟩,
  ⟨S "intel_syntax", .bool⟩, ⟨S "mean", .bool⟩, ⟨S "sample_index", .string⟩, ⟨S "divide_by", .float⟩,
  ⟨S "normalize", .bool⟩, ⟨S "sort", .choice [S "cum", S "flat"]⟩, ⟨S "tagroot", .string⟩,
  ⟨S "tagleaf", .string⟩, ⟨S "drop_negative", .bool⟩, ⟨S "nodecount", .int⟩, ⟨S "nodefraction", .float⟩,
  ⟨S "edgefraction", .float⟩, ⟨S "trim", .bool⟩, ⟨S "focus", .string⟩, ⟨S "ignore", .string⟩,
  ⟨S "prune_from", .string⟩, ⟨S "hide", .string⟩, ⟨S "show", .string⟩, ⟨S "show_from", .string⟩,
  ⟨S "tagfocus", .string⟩, ⟨S "tagignore", .string⟩, ⟨S "tagshow", .string⟩, ⟨S "taghide", .string⟩,
  ⟨S "noinlines", .bool⟩, ⟨S "showcolumns", .bool⟩,
  ⟨S "granularity", .choice [S "functions", S "filefunctions", S "files", S "lines", S "addresses"]⟩]

inductive Val where
  | b (v : Bool) | i (v : Int) | f (v : Str) | s (v : Str)
  deriving Repr, DecidableEq

/-- a `config` value: total map from field name to value (a Go struct field read cannot fail). -/
abbrev Cfg := Str → Val

def Cfg.put (c : Cfg) (n : Str) (v : Val) : Cfg := fun m => if m = n then v else c m

def defaultCfg : Cfg := fun n =>
  if n = S "unit" then .s (S "minimum") else if n = S "nodecount" then .i (-1)
  else if n = S "nodefraction" then .f (S "0.005") else if n = S "edgefraction" then .f (S "0.001")
  else if n = S "trim" then .b true else if n = S "divide_by" then .f (S "1")
  else if n = S "sort" then .s (S "flat")
  else match fields.find? (fun f => f.name = n) with
    | some ⟨_, .bool⟩ => .b false
    | some ⟨_, .int⟩ => .i 0
    | some ⟨_, .float⟩ => .f (S "0")
    | _ => .s []

/-- `configFieldMap[name]`: the field, found by its own name or by one of its choices. -/
def lookupField (tbl : List Field) (name : Str) : Option Field :=
  match tbl.find? (fun f => f.name = name) with
  | some f => some f
  | none => tbl.find? (fun f => match f.kind with | .choice cs => cs.contains name | _ => false)

/-- `(*config).set`. `parseFloatOk` = `strconv.ParseFloat(value, 64)` succeeds. -/
def set (parseFloatOk : Str → Bool) (c : Cfg) (f : Field) (value : Str) : Outcome Cfg :=
  match f.kind with
  | .choice cs => if cs.contains value then .ok (c.put f.name (.s value)) else .err "invalid value"
  | .string => .ok (c.put f.name (.s value))
  | .int => match atoi value with
    | some v => .ok (c.put f.name (.i v))
    | none => .err "Atoi"
  | .float => if parseFloatOk value then .ok (c.put f.name (.f value)) else .err "ParseFloat"
  | .bool => match stringToBool value with
    | some v => .ok (c.put f.name (.b v))
    | none => .err "illegal bool"
  | .other => .panic "config.go set: unsupported config field type"

/-- `configure(name, value)` on the current config. -/
def configure (tbl : List Field) (pf : Str → Bool) (c : Cfg) (name value : Str) : Outcome Cfg :=
  match lookupField tbl name with
  | none => .err "unknown config field"
  | some f =>
    if f.name = name then set pf c f value
    else if parseBool value = some true then set pf c f name
    else .err "unknown config field"

def isConfigurable (tbl : List Field) (name : Str) : Bool := (lookupField tbl name).isSome

def isBoolConfig (tbl : List Field) (name : Str) : Bool :=
  match lookupField tbl name with
  | none => false
  | some f => if f.name ≠ name then true else f.kind == .bool

/-! ## sample index (profile/index.go, driver.go) -/

structure Prof where
  sampleTypes : List Str
  defaultSampleType : Str

/-- index of the first element satisfying `p` (Go `for i, t := range … { if … return i }`). -/
def findIx {α} (p : α → Bool) : List α → Option Nat
  | [] => none
  | a :: r => if p a then some 0 else (findIx p r).map (· + 1)

def stripPrefix (pre s : Str) : Str := if isPrefix pre s then s.drop pre.length else s

/-- `(*Profile).SampleIndexByName`: `ok i` / `err`. -/
def sampleIndexByName (p : Prof) (si : Str) : Outcome Int :=
  if si.isEmpty then
    match (if p.defaultSampleType.isEmpty then none else findIx (· = p.defaultSampleType) p.sampleTypes) with
    | some i => .ok i
    | none => .ok ((p.sampleTypes.length : Int) - 1)
  else match atoi si with
    | some i => if i < 0 ∨ i ≥ p.sampleTypes.length then .err "outside the range" else .ok i
    | none =>
      let noInuse := stripPrefix (S "inuse_") si
      match findIx (fun t => t = si ∨ t = noInuse) p.sampleTypes with
      | some i => .ok i
      | none => .err "must be one of"

/-- `sampleFormat` + the value extractor applied to one sample's `Value` slice
(`v[ix]`, and `v[0]` for `mean`). -/
def sampleValue (p : Prof) (si : Str) (mean : Bool) (values : List Int) : Outcome (Int × Option Int) := do
  if p.sampleTypes.length = 0 then .err "profile has no samples"
  let index ← sampleIndexByName p si
  let _t ← idxInt "driver.go sampleFormat p.SampleType[index]" p.sampleTypes index
  let v ← idxInt "driver.go valueExtractor v[ix]" values index
  if mean then
    let d ← idx "driver.go valueExtractor v[0]" values 0
    return (v, some d)
  return (v, none)

/-! ## symbolizer option string (internal/symbolizer/symbolizer.go) -/

structure SymOpts where
  remote : Bool := true
  loc : Bool := true
  fast : Bool := false
  force : Bool := false
  demangler : Str := []
  /-- number of "ignoring unrecognized symbolization option" messages -/
  unknown : Nat := 0
  deriving Repr, DecidableEq

/-- the `demangle=…` option, "default", or an unrecognized option (a message is printed). -/
def demangleOpt (st : SymOpts) (o : Str) : SymOpts :=
  if stripPrefix (S "demangle=") o = S "full" ∨ stripPrefix (S "demangle=") o = S "none" ∨
      stripPrefix (S "demangle=") o = S "templates"
  then { st with demangler := stripPrefix (S "demangle=") o, force := true }
  else if stripPrefix (S "demangle=") o = S "default" then st
  else { st with unknown := st.unknown + 1 }

/-- one `:`-separated option of `-symbolize=`; `none` = `return nil` ("none"/"no"). -/
def symOptStep (st : SymOpts) (o : Str) : Option SymOpts :=
  if o.isEmpty then some st
  else if o = S "none" ∨ o = S "no" then none
  else if o = S "local" then some { st with remote := false, loc := true }
  else if o = S "fastlocal" then some { st with remote := false, loc := true, fast := true }
  else if o = S "remote" then some { st with remote := true, loc := false }
  else if o = S "force" then some { st with force := true }
  else some (demangleOpt st o)

def symOptFold : SymOpts → List Str → Option SymOpts
  | st, [] => some st
  | st, o :: rest => match symOptStep st o with
    | none => none
    | some st' => symOptFold st' rest

/-- `demanglerModeToOptions`: number of demangler options, or the explicit panic. -/
def demanglerModeToOptions (m : Str) : Outcome Nat :=
  if m = [] then .ok 3
  else if m = S "templates" then .ok 2
  else if m = S "full" then .ok 1
  else if m = S "none" then .ok 0
  else .panic "symbolizer.go demanglerModeToOptions: unknown demanglerMode"

/-- `Symbolizer.Symbolize` as far as the option string decides (`lower` = `strings.ToLower`):
`none` = symbolization skipped, else the switches and the number of demangler options. -/
def symbolizeMode (lower : Str → Str) (mode : Str) : Outcome (Option (SymOpts × Nat)) :=
  match symOptFold {} (splitAll 58 (lower mode)) with
  | none => .ok none
  | some st => do
    let n ← demanglerModeToOptions st.demangler
    return some (st, n)

/-! ## parseCommandLine (interactive.go) -/

/-- command table: name, hasParam (hand-copied from commands.go; tied by correspondence). -/
def commands : List (Str × Bool) := [
  (S "comments", false), (S "disasm", true), (S "dot", false), (S "list", true), (S "peek", true),
  (S "raw", false), (S "tags", false), (S "text", false), (S "top", false), (S "traces", false),
  (S "tree", false), (S "callgrind", false), (S "proto", false), (S "topproto", false), (S "gif", false),
  (S "pdf", false), (S "png", false), (S "ps", false), (S "svg", false), (S "eog", false),
  (S "evince", false), (S "gv", false), (S "web", false), (S "kcachegrind", false), (S "weblist", true)]

def lookupCmd (tbl : List (Str × Bool)) (name : Str) : Option Bool := (tbl.find? (·.1 = name)).map (·.2)

/-- keys of `configHelp`: field names and choice names, except the two group names `sort` and
`granularity` (they have no help entry of their own). -/
def hasConfigHelp (tbl : List Field) (name : Str) : Bool :=
  isConfigurable tbl name && name ≠ S "sort" && name ≠ S "granularity"

def catRegex (a b : Str) : Str := if !a.isEmpty && !b.isEmpty then a ++ [124] ++ b else a ++ b

structure ArgAcc where
  cfg : Cfg
  focus : Str := []
  ignore : Str := []

/-- body of the `for i := 0; i < len(args); i++` loop for `t = args[i]`: the next `i` and the
updated accumulators. -/
def argStep (args : List Str) (i : Nat) (acc : ArgAcc) (t : Str) : Outcome (Nat × ArgAcc) :=
  match parseIntDec 32 t with
  | some n => .ok (i+1, { acc with cfg := acc.cfg.put (S "nodecount") (.i n) })
  | none => do
    let c ← idx "interactive.go parseCommandLine t[0]" t 0
    if c = 62 then
      let outputFile ← sliceFrom "interactive.go parseCommandLine t[1:]" t 1
      if outputFile.isEmpty then
        let i := i + 1
        if i ≥ args.length then .err "unexpected end of line after >"
        else
          let outputFile ← idx "interactive.go parseCommandLine args[i] after >" args i
          pure (i+1, { acc with cfg := acc.cfg.put (S "output") (.s outputFile) })
      else pure (i+1, { acc with cfg := acc.cfg.put (S "output") (.s outputFile) })
    else if c = 45 then
      if t = S "--cum" ∨ t = S "-cum" then
        pure (i+1, { acc with cfg := acc.cfg.put (S "sort") (.s (S "cum")) })
      else
        let r ← sliceFrom "interactive.go parseCommandLine t[1:] (ignore)" t 1
        pure (i+1, { acc with ignore := catRegex acc.ignore r })
    else pure (i+1, { acc with focus := catRegex acc.focus t })

/-- the loop itself; `fuel ≥ len(args) - i + 1`. -/
def argLoop (args : List Str) : Nat → Nat → ArgAcc → Outcome ArgAcc
  | 0, _, _ => .panic "model: argLoop fuel exhausted"
  | fuel+1, i, acc =>
    if i ≥ args.length then .ok acc else do
    let t ← idx "interactive.go parseCommandLine args[i]" args i
    let (i', acc') ← argStep args i acc t
    argLoop args fuel i' acc'

/-- "Attempt splitting digits on abbreviated commands (eg top10)". -/
def splitCmdName (cmds : List (Str × Bool)) (name : Str) (args : List Str) :
    Outcome (Str × List Str × Option Bool) :=
  match lookupCmd cmds name with
  | some hp => .ok (name, args, some hp)
  | none =>
    let d := tailDigits name
    if !d.isEmpty && d ≠ name then do
      let name' ← sliceTo "interactive.go parseCommandLine name[:len(name)-len(d)]" name
        ((name.length : Int) - (d.length : Int))
      pure (name', d :: args, lookupCmd cmds name')
    else .ok (name, args, none)

/-- the `c == nil` exit: "did you mean name=value" / "unrecognized command". -/
def unknownCmd {α} (tbl : List Field) (name : Str) (args : List Str) : Outcome α :=
  if hasConfigHelp tbl name then
    if args.length > 0 then do
      let _v ← idx "interactive.go parseCommandLine args[0] (did you mean)" args 0
      .err "did you mean"
    else .err "did you mean"
  else .err "unrecognized command"

/-- `if c.hasParam { … cmd = append(cmd, args[0]); args = args[1:] }`. -/
def takeParam (name : Str) (hasParam : Bool) (args : List Str) : Outcome (List Str × List Str) :=
  if hasParam then
    if args.length = 0 then .err "command requires an argument" else do
      let a ← idx "interactive.go parseCommandLine args[0] (param)" args 0
      let rest ← sliceFrom "interactive.go parseCommandLine args[1:]" args 1
      pure ([name, a], rest)
  else .ok ([name], args)

def finishCfg (name : Str) (acc : ArgAcc) : Cfg :=
  let cfg := acc.cfg
  let cfg := if name = S "tags" then
      let cfg := if !acc.focus.isEmpty then cfg.put (S "tagfocus") (.s acc.focus) else cfg
      if !acc.ignore.isEmpty then cfg.put (S "tagignore") (.s acc.ignore) else cfg
    else
      let cfg := if !acc.focus.isEmpty then cfg.put (S "focus") (.s acc.focus) else cfg
      if !acc.ignore.isEmpty then cfg.put (S "ignore") (.s acc.ignore) else cfg
  if cfg (S "nodecount") = .i (-1) ∧ (name = S "text" ∨ name = S "top")
    then cfg.put (S "nodecount") (.i 10) else cfg

/-- `parseCommandLine(input)`: the command (`[name]` or `[name, param]`) and the per-command config. -/
def parseCommandLineG (cmds : List (Str × Bool)) (tbl : List Field) (input : List Str) (cur : Cfg) :
    Outcome (List Str × Cfg) := do
  let cmd ← sliceTo "interactive.go parseCommandLine input[:1]" input 1
  let args ← sliceFrom "interactive.go parseCommandLine input[1:]" input 1
  let name ← idx "interactive.go parseCommandLine cmd[0]" cmd 0
  let (name, args, c) ← splitCmdName cmds name args
  match c with
  | none => unknownCmd tbl name args
  | some hasParam =>
    let (cmd, args) ← takeParam name hasParam args
    let acc ← argLoop args (args.length + 1) 0 { cfg := cur }
    return (cmd, finishCfg name acc)

def parseCommandLine := parseCommandLineG commands fields

/-! ## one interactive line (interactive.go) -/

/-- what the session does in response to (a piece of) a line -/
inductive Ev where
  | printErr                                  -- an error was reported through `UI.PrintErr`
  | set (name value : Str)                    -- an option was assigned
  | options | help
  | report (cmd : List Str) (cfg : Cfg) (ok : Bool)   -- a report was generated (ok) or failed with an error
  | quit

structure Env where
  /-- `strings.Fields` -/
  fields : Str → List Str
  /-- `strings.TrimSpace` -/
  trimSpace : Str → Str
  /-- `strconv.ParseFloat` accepts -/
  parseFloatOk : Str → Bool
  /-- `generateReport(copy, cmd, cfg, o)`: everything behind the parsed command -/
  gen : List Str → Cfg → Outcome Unit
  cmds : List (Str × Bool) := commands
  tbl : List Field := Crash.fields

structure Sess where
  cfg : Cfg
  prof : Prof

/-- `shortcuts.expand` with `profileShortcuts(p)`. -/
def expand (e : Env) (p : Prof) (input : Str) : List Str :=
  let input := e.trimSpace input
  -- profileShortcuts adds the sample-type entries to the map that already holds ":"; later sample
  -- types overwrite earlier entries (and ":"), so search from the end and try ":" last
  let hit := p.sampleTypes.reverse.findSome? (fun t =>
    if input = t then some [S "sample_index=" ++ t]
    else if input = S "total_" ++ t then some [S "mean=0", S "sample_index=" ++ t]
    else if input = S "mean_" ++ t then some [S "mean=1", S "sample_index=" ++ t]
    else none)
  match hit with
  | some r => r
  | none =>
    if input = [58] then [S "focus=", S "ignore=", S "hide=", S "tagfocus=", S "tagignore="]
    else [input]

/-- the `st[len(st)-1]` of `printCurrentOptions` (taken when `sample_index` is unset). -/
def printCurrentOptions (s : Sess) : Outcome Unit := do
  if s.cfg (S "sample_index") = .s [] then
    let _v ← idxInt "interactive.go printCurrentOptions st[len(st)-1]" s.prof.sampleTypes
      ((s.prof.sampleTypes.length : Int) - 1)
    return ()
  return ()

/-- `strings.SplitN(input, "=", 2)`, name/value extraction, `//:` comment removal. Returns the
name, the value and whether there was an `=`. -/
def parseAssign (e : Env) (input : Str) : Outcome (Str × Str × Bool) := do
  let sp := splitN2 61 input
  let name0 ← idx "interactive.go interactive s[0]" sp 0
  let name := e.trimSpace name0
  if sp.length = 2 then
    let v ← idx "interactive.go interactive s[1]" sp 1
    let comment := lastIndex v (S "//:")
    let v ← (if comment ≠ -1 then sliceTo "interactive.go interactive value[:comment]" v comment else pure v)
    return (name, e.trimSpace v, true)
  return (name, [], false)

/-- the `sample_index=xxx` check: the type name to store, or `none` after an error message. -/
def resolveSampleIndex (p : Prof) (value : Str) : Outcome (Option Str) :=
  match sampleIndexByName p value with
  | .err _ => .ok none
  | .panic site => .panic site
  | .ok index =>
    if index < 0 ∨ index ≥ p.sampleTypes.length then .ok none
    else do
      let t ← idxInt "interactive.go interactive p.SampleType[index]" p.sampleTypes index
      pure (some t)

/-- the `isConfigurable(name)` branch. -/
def assign (e : Env) (s : Sess) (name value : Str) (hasEq : Bool) : Outcome (Sess × List Ev) := do
  if !hasEq ∧ !isBoolConfig e.tbl name then return (s, [.printErr])
  let value ← (if name = S "sample_index" then resolveSampleIndex s.prof value else pure (some value))
  match value with
  | none => return (s, [.printErr])
  | some value =>
    match configure e.tbl e.parseFloatOk s.cfg name value with
    | .ok cfg => return ({ s with cfg := cfg }, [.set name value])
    | .err _ => return (s, [.printErr])
    | .panic site => .panic site

/-- the command branch: `o`, `quit`, `help`, or a report command. -/
def command (e : Env) (s : Sess) (input : Str) : Outcome (Sess × List Ev) := do
  let tokens := e.fields input
  if tokens.length = 0 then return (s, [])
  let t0 ← idx "interactive.go interactive tokens[0]" tokens 0
  if t0 = S "o" ∨ t0 = S "options" then
    printCurrentOptions s
    return (s, [.options])
  if t0 = S "exit" ∨ t0 = S "quit" ∨ t0 = S "q" then return (s, [.quit])
  if t0 = S "help" then
    let _rest ← sliceFrom "interactive.go interactive tokens[1:]" tokens 1
    return (s, [.help])
  match parseCommandLineG e.cmds e.tbl tokens s.cfg with
  | .err _ => return (s, [.printErr])
  | .panic site => .panic site
  | .ok (cmd, cfg) =>
    match e.gen cmd cfg with
    | .ok _ => return (s, [.report cmd cfg true])
    | .err _ => return (s, [.report cmd cfg false, .printErr])
    | .panic site => .panic site

/-- one expanded input. -/
def stepOne (e : Env) (s : Sess) (input : Str) : Outcome (Sess × List Ev) := do
  let (name, value, hasEq) ← parseAssign e input
  if isConfigurable e.tbl name then assign e s name value hasEq else command e s input

def isQuit : Ev → Bool
  | .quit => true
  | _ => false

def stepMany (e : Env) : Sess → List Str → Outcome (Sess × List Ev)
  | s, [] => .ok (s, [])
  | s, inp :: rest => do
    let (s1, ev) ← stepOne e s inp
    if ev.any isQuit then return (s1, ev)
    let (s2, ev2) ← stepMany e s1 rest
    return (s2, ev ++ ev2)

/-- one line typed at the `(pprof)` prompt: new session state and what happened. -/
def step (e : Env) (s : Sess) (line : Str) : Outcome (Sess × List Ev) :=
  stepMany e s (expand e s.prof line)

/-- a whole script (until `quit` or end of input). -/
def run (e : Env) : Sess → List Str → Outcome (Sess × List Ev)
  | s, [] => .ok (s, [])
  | s, l :: ls => do
    let (s1, ev) ← step e s l
    if ev.any isQuit then return (s1, ev)
    let (s2, ev2) ← run e s1 ls
    return (s2, ev ++ ev2)

/-! ## completer (interactive.go newCompleter): index/slice logic only -/

/-- `newCompleter`'s token handling; `complete`/`matchVar` are the external string functions. -/
def completer (fields : Str → List Str) (isCmd : Str → Bool) (matchVar : Str → Str)
    (fnComplete : Str → Str) (joinSp : List Str → Str) (line : Str) : Outcome Str := do
  let tokens := fields line
  if tokens.length = 0 then return line
  let t0 ← idx "interactive.go newCompleter tokens[0]" tokens 0
  if tokens.length = 1 then
    let m := matchVar t0
    return (if !m.isEmpty then m else line)
  if tokens.length = 2 ∧ t0 = S "help" then
    let t1 ← idx "interactive.go newCompleter tokens[1]" tokens 1
    let m := matchVar t1
    return (if !m.isEmpty then t0 ++ [32] ++ m else line)
  if isCmd t0 ∧ t0 ≠ S "tags" then
    let lastIdx : Int := (tokens.length : Int) - 1
    let last ← idxInt "interactive.go newCompleter tokens[lastTokenIdx]" tokens lastIdx
    let last' ← (if isPrefix [45] last then do
        let r ← sliceFrom "interactive.go newCompleter lastToken[1:]" last 1
        pure (45 :: fnComplete r)
      else pure (fnComplete last) : Outcome Str)
    let pre ← sliceTo "interactive.go newCompleter tokens[:lastTokenIdx]" tokens lastIdx
    return joinSp (pre ++ [last'])
  return line

/-! ## concrete ASCII instances of the external string functions (for the driver) -/

def isSpaceB (b : UInt8) : Bool := b == 32 || (9 ≤ b && b ≤ 13)

def fieldsAscii : Str → List Str
  | [] => []
  | b :: r =>
    if isSpaceB b then fieldsAscii r else
    match fieldsAscii r, r with
    | rest, [] => [b] :: rest
    | rest, c :: _ => if isSpaceB c then [b] :: rest else
      match rest with
      | t :: ts => (b :: t) :: ts
      | [] => [[b]]

def trimLeft : Str → Str
  | [] => []
  | b :: r => if isSpaceB b then trimLeft r else b :: r
def trimSpaceAscii (s : Str) : Str := (trimLeft (trimLeft s).reverse).reverse

end PV.Crash
