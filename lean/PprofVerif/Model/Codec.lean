import PprofVerif.Model.Wire
import PprofVerif.Model.Profile
/-
Model of profile/encode.go: the wire-level ("X") messages, their encoders and decoder
tables, `preEncode` (string interning, label flattening) and `postDecode` (table lookups,
label regrouping, unit padding), `serialize`, `ParseUncompressed`, `Copy`.
-/
namespace PV
namespace Codec
open Wire

structure ValueTypeX where
  typeX : Int := 0
  unitX : Int := 0
  deriving Repr, DecidableEq, Inhabited

structure LabelX where
  keyX : Int := 0
  strX : Int := 0
  numX : Int := 0
  unitX : Int := 0
  deriving Repr, DecidableEq, Inhabited

structure SampleX where
  locationIDX : List Nat := []
  value : List Int := []
  labelX : List LabelX := []
  deriving Repr, DecidableEq, Inhabited

structure MappingX where
  id : Nat := 0
  start : Nat := 0
  limit : Nat := 0
  offset : Nat := 0
  fileX : Int := 0
  buildIDX : Int := 0
  hasFunctions : Bool := false
  hasFilenames : Bool := false
  hasLineNumbers : Bool := false
  hasInlineFrames : Bool := false
  deriving Repr, DecidableEq, Inhabited

structure LineX where
  functionIDX : Nat := 0
  line : Int := 0
  column : Int := 0
  deriving Repr, DecidableEq, Inhabited

structure LocationX where
  id : Nat := 0
  mappingIDX : Nat := 0
  address : Nat := 0
  line : List LineX := []
  isFolded : Bool := false
  deriving Repr, DecidableEq, Inhabited

structure FunctionX where
  id : Nat := 0
  nameX : Int := 0
  systemNameX : Int := 0
  filenameX : Int := 0
  startLine : Int := 0
  deriving Repr, DecidableEq, Inhabited

structure ProfileX where
  sampleType : List ValueTypeX := []
  sample : List SampleX := []
  mapping : List MappingX := []
  location : List LocationX := []
  function : List FunctionX := []
  stringTable : List Str := []
  dropFramesX : Int := 0
  keepFramesX : Int := 0
  timeNanos : Int := 0
  durationNanos : Int := 0
  periodType : Option ValueTypeX := none      -- nil pointer = none
  period : Int := 0
  commentX : List Int := []
  defaultSampleTypeX : Int := 0
  docURLX : Int := 0
  deriving Repr, DecidableEq, Inhabited

/-! ### encoders (the `encode` methods) -/
def ValueTypeX.encode (p : ValueTypeX) : Bytes :=
  encodeInt64Opt 1 p.typeX ++ encodeInt64Opt 2 p.unitX

def LabelX.encode (p : LabelX) : Bytes :=
  encodeInt64Opt 1 p.keyX ++ encodeInt64Opt 2 p.strX ++ encodeInt64Opt 3 p.numX ++ encodeInt64Opt 4 p.unitX

def SampleX.encode (p : SampleX) : Bytes :=
  encodeUint64s 1 p.locationIDX ++ encodeInt64s 2 p.value ++
  p.labelX.flatMap (fun x => encodeMessage 3 x.encode)

def MappingX.encode (p : MappingX) : Bytes :=
  encodeUint64Opt 1 p.id ++ encodeUint64Opt 2 p.start ++ encodeUint64Opt 3 p.limit ++
  encodeUint64Opt 4 p.offset ++ encodeInt64Opt 5 p.fileX ++ encodeInt64Opt 6 p.buildIDX ++
  encodeBoolOpt 7 p.hasFunctions ++ encodeBoolOpt 8 p.hasFilenames ++
  encodeBoolOpt 9 p.hasLineNumbers ++ encodeBoolOpt 10 p.hasInlineFrames

def LineX.encode (p : LineX) : Bytes :=
  encodeUint64Opt 1 p.functionIDX ++ encodeInt64Opt 2 p.line ++ encodeInt64Opt 3 p.column

def LocationX.encode (p : LocationX) : Bytes :=
  encodeUint64Opt 1 p.id ++ encodeUint64Opt 2 p.mappingIDX ++ encodeUint64Opt 3 p.address ++
  p.line.flatMap (fun x => encodeMessage 4 x.encode) ++ encodeBoolOpt 5 p.isFolded

def FunctionX.encode (p : FunctionX) : Bytes :=
  encodeUint64Opt 1 p.id ++ encodeInt64Opt 2 p.nameX ++ encodeInt64Opt 3 p.systemNameX ++
  encodeInt64Opt 4 p.filenameX ++ encodeInt64Opt 5 p.startLine

def ProfileX.encode (p : ProfileX) : Bytes :=
  p.sampleType.flatMap (fun x => encodeMessage 1 x.encode) ++
  p.sample.flatMap (fun x => encodeMessage 2 x.encode) ++
  p.mapping.flatMap (fun x => encodeMessage 3 x.encode) ++
  p.location.flatMap (fun x => encodeMessage 4 x.encode) ++
  p.function.flatMap (fun x => encodeMessage 5 x.encode) ++
  encodeStrings 6 p.stringTable ++
  encodeInt64Opt 7 p.dropFramesX ++ encodeInt64Opt 8 p.keepFramesX ++
  encodeInt64Opt 9 p.timeNanos ++ encodeInt64Opt 10 p.durationNanos ++
  (match p.periodType with
   | some pt => if pt.typeX ≠ 0 ∨ pt.unitX ≠ 0 then encodeMessage 11 pt.encode else []
   | none => []) ++
  encodeInt64Opt 12 p.period ++ encodeInt64s 13 p.commentX ++
  encodeInt64 14 p.defaultSampleTypeX ++ encodeInt64Opt 15 p.docURLX

/-! ### decoder tables -/
def ValueTypeX.apply (m : ValueTypeX) (f : Field) : Outcome ValueTypeX :=
  match f.num with
  | 1 => do let x ← decodeInt64 f; pure { m with typeX := x }
  | 2 => do let x ← decodeInt64 f; pure { m with unitX := x }
  | _ => pure m

def LabelX.apply (m : LabelX) (f : Field) : Outcome LabelX :=
  match f.num with
  | 1 => do let x ← decodeInt64 f; pure { m with keyX := x }
  | 2 => do let x ← decodeInt64 f; pure { m with strX := x }
  | 3 => do let x ← decodeInt64 f; pure { m with numX := x }
  | 4 => do let x ← decodeInt64 f; pure { m with unitX := x }
  | _ => pure m

def SampleX.apply (m : SampleX) (f : Field) : Outcome SampleX :=
  match f.num with
  | 1 => do let x ← decodeUint64s f m.locationIDX; pure { m with locationIDX := x }
  | 2 => do let x ← decodeInt64s f m.value; pure { m with value := x }
  | 3 => do let x ← decodeMessage LabelX.apply {} f; pure { m with labelX := m.labelX ++ [x] }
  | _ => pure m

def MappingX.apply (m : MappingX) (f : Field) : Outcome MappingX :=
  match f.num with
  | 1 => do let x ← decodeUint64 f; pure { m with id := x }
  | 2 => do let x ← decodeUint64 f; pure { m with start := x }
  | 3 => do let x ← decodeUint64 f; pure { m with limit := x }
  | 4 => do let x ← decodeUint64 f; pure { m with offset := x }
  | 5 => do let x ← decodeInt64 f; pure { m with fileX := x }
  | 6 => do let x ← decodeInt64 f; pure { m with buildIDX := x }
  | 7 => do let x ← decodeBool f; pure { m with hasFunctions := x }
  | 8 => do let x ← decodeBool f; pure { m with hasFilenames := x }
  | 9 => do let x ← decodeBool f; pure { m with hasLineNumbers := x }
  | 10 => do let x ← decodeBool f; pure { m with hasInlineFrames := x }
  | _ => pure m

def LineX.apply (m : LineX) (f : Field) : Outcome LineX :=
  match f.num with
  | 1 => do let x ← decodeUint64 f; pure { m with functionIDX := x }
  | 2 => do let x ← decodeInt64 f; pure { m with line := x }
  | 3 => do let x ← decodeInt64 f; pure { m with column := x }
  | _ => pure m

def LocationX.apply (m : LocationX) (f : Field) : Outcome LocationX :=
  match f.num with
  | 1 => do let x ← decodeUint64 f; pure { m with id := x }
  | 2 => do let x ← decodeUint64 f; pure { m with mappingIDX := x }
  | 3 => do let x ← decodeUint64 f; pure { m with address := x }
  | 4 => do let x ← decodeMessage LineX.apply {} f; pure { m with line := m.line ++ [x] }
  | 5 => do let x ← decodeBool f; pure { m with isFolded := x }
  | _ => pure m

def FunctionX.apply (m : FunctionX) (f : Field) : Outcome FunctionX :=
  match f.num with
  | 1 => do let x ← decodeUint64 f; pure { m with id := x }
  | 2 => do let x ← decodeInt64 f; pure { m with nameX := x }
  | 3 => do let x ← decodeInt64 f; pure { m with systemNameX := x }
  | 4 => do let x ← decodeInt64 f; pure { m with filenameX := x }
  | 5 => do let x ← decodeInt64 f; pure { m with startLine := x }
  | _ => pure m

/-- `profileDecoder`.  Note the order of effects in the Go closures for repeated messages:
the new element is appended *before* it is decoded; on error the whole parse fails, so the
model only keeps the success path. -/
def ProfileX.apply (m : ProfileX) (f : Field) : Outcome ProfileX :=
  match f.num with
  | 1 => do let x ← decodeMessage ValueTypeX.apply {} f; pure { m with sampleType := m.sampleType ++ [x] }
  | 2 => do let x ← decodeMessage SampleX.apply {} f; pure { m with sample := m.sample ++ [x] }
  | 3 => do let x ← decodeMessage MappingX.apply {} f; pure { m with mapping := m.mapping ++ [x] }
  | 4 => do let x ← decodeMessage LocationX.apply {} f; pure { m with location := m.location ++ [x] }
  | 5 => do let x ← decodeMessage FunctionX.apply {} f; pure { m with function := m.function ++ [x] }
  | 6 => do
      let s ← decodeString f
      let t := m.stringTable ++ [s]
      -- `stringTable[0] != ""`: index 0 always exists after the append
      match t with
      | [] => .panic "stringTable[0]: index out of range"
      | s0 :: _ => if s0 ≠ [] then .err "string_table[0] must be ''" else pure { m with stringTable := t }
  | 7 => do let x ← decodeInt64 f; pure { m with dropFramesX := x }
  | 8 => do let x ← decodeInt64 f; pure { m with keepFramesX := x }
  | 9 => if m.timeNanos ≠ 0 then .err "concatenated profiles detected"
         else do let x ← decodeInt64 f; pure { m with timeNanos := x }
  | 10 => do let x ← decodeInt64 f; pure { m with durationNanos := x }
  | 11 => do let x ← decodeMessage ValueTypeX.apply {} f; pure { m with periodType := some x }
  | 12 => do let x ← decodeInt64 f; pure { m with period := x }
  | 13 => do let x ← decodeInt64s f m.commentX; pure { m with commentX := x }
  | 14 => do let x ← decodeInt64 f; pure { m with defaultSampleTypeX := x }
  | 15 => do let x ← decodeInt64 f; pure { m with docURLX := x }
  | _ => pure m

/-- `unmarshal(data, &Profile{})` -/
def unmarshal (data : Bytes) : Outcome ProfileX :=
  decodeLoop ProfileX.apply data.length {} data

/-! ### preEncode -/

/-- the `strings map[string]int` of `preEncode` together with insertion order:
`table[i]` is the string with index `i`. -/
abbrev StrTab := List Str

def addString (t : StrTab) (s : Str) : StrTab × Int :=
  match t.idxOf? s with
  | some i => (t, (i : Int))
  | none => (t ++ [s], (t.length : Int))

abbrev Tab := StateM StrTab
def add (s : Str) : Tab Int := fun t => let (t', i) := addString t s; (i, t')

def preValueType (v : ValueType) : Tab ValueTypeX := do
  let t ← add v.typ; let u ← add v.unit; pure { typeX := t, unitX := u }

/-- string labels of one key -/
def preStrLabels (k : Str) (vs : List Str) : Tab (List LabelX) :=
  vs.mapM fun v => do let kx ← add k; let sx ← add v; pure { keyX := kx, strX := sx }

/-- numeric labels of one key; `units[i]` is a Go index expression and can panic. -/
def preNumLabels (k : Str) (vs : List Int) (units : List Str) : StrTab → Outcome (List LabelX × StrTab) := fun t =>
  let (t, kx) := addString t k
  let rec go (i : Nat) (vs : List Int) (t : StrTab) : Outcome (List LabelX × StrTab) :=
    match vs with
    | [] => .ok ([], t)
    | v :: rest =>
      if units.length ≠ 0 then
        match units[i]? with
        | none => .panic "preEncode: units[i] index out of range"
        | some u =>
          let (t, ux) := addString t u
          match go (i + 1) rest t with
          | .ok (ls, t) => .ok ({ keyX := kx, numX := v, unitX := ux } :: ls, t)
          | .err e => .err e | .panic s => .panic s
      else
        match go (i + 1) rest t with
        | .ok (ls, t) => .ok ({ keyX := kx, numX := v, unitX := 0 } :: ls, t)
        | .err e => .err e | .panic s => .panic s
  go 0 vs t

def preSample (s : Sample) : StrTab → Outcome (SampleX × StrTab) := fun t =>
  let (ls1, t) := (s.label.mapM (fun (k, vs) => preStrLabels k vs) : Tab _) t
  let rec nums (l : List (Str × List Int)) (t : StrTab) : Outcome (List LabelX × StrTab) :=
    match l with
    | [] => .ok ([], t)
    | (k, vs) :: rest =>
      match preNumLabels k vs ((s.numUnit.lookup k).getD []) t with
      | .ok (a, t) =>
        match nums rest t with
        | .ok (b, t) => .ok (a ++ b, t)
        | .err e => .err e | .panic x => .panic x
      | .err e => .err e | .panic x => .panic x
  match nums s.numLabel t with
  | .ok (ls2, t) => .ok ({ locationIDX := s.locationIDs, value := s.values, labelX := ls1.flatten ++ ls2 }, t)
  | .err e => .err e | .panic x => .panic x

def preSamples : List Sample → StrTab → Outcome (List SampleX × StrTab)
  | [], t => .ok ([], t)
  | s :: rest, t =>
    match preSample s t with
    | .ok (x, t) =>
      match preSamples rest t with
      | .ok (xs, t) => .ok (x :: xs, t)
      | .err e => .err e | .panic x => .panic x
    | .err e => .err e | .panic x => .panic x

def preMapping (m : Mapping) : Tab MappingX := do
  let f ← add m.file; let b ← add m.buildID
  pure { id := m.id, start := m.start, limit := m.limit, offset := m.offset, fileX := f, buildIDX := b,
         hasFunctions := m.hasFunctions, hasFilenames := m.hasFilenames,
         hasLineNumbers := m.hasLineNumbers, hasInlineFrames := m.hasInlineFrames }

def preLocation (l : Location) : LocationX :=
  { id := l.id, mappingIDX := l.mappingID, address := l.address, isFolded := l.isFolded,
    line := l.lines.map fun ln => { functionIDX := ln.functionID, line := ln.line, column := ln.column } }

def preFunction (f : Function) : Tab FunctionX := do
  let n ← add f.name; let s ← add f.systemName; let fl ← add f.filename
  pure { id := f.id, nameX := n, systemNameX := s, filenameX := fl, startLine := f.startLine }

/-- `preEncode`, in the order the Go code interns strings. -/
def preEncode (p : Profile) : Outcome ProfileX :=
  let t : StrTab := [[]]                                  -- addString(strings, "")
  let (sts, t) := (p.sampleType.mapM preValueType : Tab _) t
  match preSamples p.samples t with
  | .err e => .err e | .panic x => .panic x
  | .ok (ss, t) =>
  let (ms, t) := (p.mappings.mapM preMapping : Tab _) t
  let ls := p.locations.map preLocation
  let (fs, t) := (p.functions.mapM preFunction : Tab _) t
  let (df, t) := add p.dropFrames t
  let (kf, t) := add p.keepFrames t
  let (pt, t) := match p.periodType with
    | some v => let (x, t) := preValueType v t; (some x, t)
    | none => (none, t)
  let (cs, t) := (p.comments.mapM add : Tab _) t
  let (dst, t) := add p.defaultSampleType t
  let (doc, t) := add p.docURL t
  .ok { sampleType := sts, sample := ss, mapping := ms, location := ls, function := fs,
        stringTable := t, dropFramesX := df, keepFramesX := kf, timeNanos := p.timeNanos,
        durationNanos := p.durationNanos, periodType := pt, period := p.period, commentX := cs,
        defaultSampleTypeX := dst, docURLX := doc }

/-- `serialize` -/
def serialize (p : Profile) : Outcome Bytes := do let x ← preEncode p; pure x.encode

/-! ### postDecode -/

/-- `getString`: int index into the string table; `errMalformed` when out of range. -/
def getString (tab : List Str) (i : Int) : Outcome Str :=
  if i < 0 then .err "malformed" else
  match tab[i.toNat]? with
  | some s => .ok s
  | none => .err "malformed"

/-- dense-or-sparse id table of `postDecode`: ids `< len+1` go to a slice slot (later entries
overwrite), others to a map (later entries overwrite): both are "last entry with this id". Entry
0 of the dense table can also be hit by an entity with id 0. Returns the entity, `none` = nil. -/
def lookupLast {α} (ids : List (Nat × α)) (id : Nat) : Option α :=
  (ids.reverse.find? (·.1 == id)).map (·.2)

def padStringArray (arr : List Str) (l : Nat) : List Str :=
  if l ≤ arr.length then arr else arr ++ List.replicate (l - arr.length) []

/-- association-list update preserving first-insertion order (order is erased by sorting later) -/
def alSet {β} (m : List (Str × β)) (k : Str) (v : β) : List (Str × β) :=
  if m.any (·.1 == k) then m.map (fun e => if e.1 == k then (k, v) else e) else m ++ [(k, v)]

def insertSorted {β} (e : Str × β) : List (Str × β) → List (Str × β)
  | [] => [e]
  | x :: r => if Str.lt e.1 x.1 then e :: x :: r else x :: insertSorted e r
def sortKeys {β} (m : List (Str × β)) : List (Str × β) := m.foldr insertSorted []

structure LabelAcc where
  labels : List (Str × List Str) := []
  numLabels : List (Str × List Int) := []
  numUnits : List (Str × List Str) := []

def postLabel (tab : List Str) (acc : LabelAcc) (l : LabelX) : Outcome LabelAcc := do
  let key ← getString tab l.keyX
  if l.strX ≠ 0 then
    let value ← getString tab l.strX
    pure { acc with labels := alSet acc.labels key ((acc.labels.lookup key).getD [] ++ [value]) }
  else if l.numX ≠ 0 ∨ l.unitX ≠ 0 then
    let numValues := (acc.numLabels.lookup key).getD []
    let units := (acc.numUnits.lookup key).getD []
    let acc ← (if l.unitX ≠ 0 then do
        let unit ← getString tab l.unitX
        let units := padStringArray units numValues.length
        pure { acc with numUnits := alSet acc.numUnits key (units ++ [unit]) }
      else pure acc : Outcome LabelAcc)
    pure { acc with numLabels := alSet acc.numLabels key (numValues ++ [l.numX]) }
  else pure acc

/-- Go's `err` threading in postDecode: once an error is recorded every later getString is a
no-op returning it, and the function returns it at the end — same class as failing at once. -/
def postSample (tab : List Str) (s : SampleX) : Outcome Sample := do
  let acc ← s.labelX.foldlM (postLabel tab) {}
  let numUnits := acc.numUnits.map fun (k, us) =>
    if us.length > 0 then (k, padStringArray us ((acc.numLabels.lookup k).getD []).length) else (k, us)
  pure { locationIDs := s.locationIDX, values := s.value,
         label := sortKeys acc.labels,
         numLabel := sortKeys acc.numLabels,
         numUnit := if acc.numLabels.length > 0 then sortKeys numUnits else [] }

def kernelPrefix : Str := Str.ofString "[kernel.kallsyms]"

def postMapping (tab : List Str) (m : MappingX) : Outcome Mapping := do
  let f ← getString tab m.fileX
  let b ← getString tab m.buildIDX
  pure { id := m.id, start := m.start, limit := m.limit, offset := m.offset, file := f, buildID := b,
         hasFunctions := m.hasFunctions, hasFilenames := m.hasFilenames,
         hasLineNumbers := m.hasLineNumbers, hasInlineFrames := m.hasInlineFrames }

def postFunction (tab : List Str) (f : FunctionX) : Outcome Function := do
  let n ← getString tab f.nameX
  let s ← getString tab f.systemNameX
  let fl ← getString tab f.filenameX
  pure { id := f.id, name := n, systemName := s, filename := fl, startLine := f.startLine }

def postValueType (tab : List Str) (v : ValueTypeX) : Outcome ValueType := do
  let t ← getString tab v.typeX; let u ← getString tab v.unitX; pure { typ := t, unit := u }

/-- The pointer structure after `postDecode`, in id form.  A reference that resolves to nil
(unknown id) is represented by id 0 for mappings/functions; for sample locations likewise (`validB`
rejects id 0: CheckValid's "sample has nil location").  When two table entries share an id the
pointer identity (which of them) is not representable in the id form; `validB` rejects such
profiles as well (CheckValid's "multiple … with same id"). -/
def postDecode (x : ProfileX) : Outcome Profile := do
  let tab := x.stringTable
  let ms ← x.mapping.mapM (postMapping tab)
  let fs ← x.function.mapM (postFunction tab)
  let mids := x.mapping.map (·.id)
  let fids := x.function.map (·.id)
  let ls := x.location.map fun l =>
    ({ id := l.id,
       mappingID := if mids.contains l.mappingIDX then l.mappingIDX else 0,
       address := l.address, isFolded := l.isFolded,
       lines := l.line.map fun ln =>
         { functionID := if ln.functionIDX ≠ 0 ∧ fids.contains ln.functionIDX then ln.functionIDX else 0,
           line := ln.line, column := ln.column } } : Location)
  let sts ← x.sampleType.mapM (postValueType tab)
  let lids := x.location.map (·.id)
  let ss ← x.sample.mapM (postSample tab)
  let ss := ss.map fun s => { s with locationIDs := s.locationIDs.map fun id => if lids.contains id then id else 0 }
  let df ← getString tab x.dropFramesX
  let kf ← getString tab x.keepFramesX
  let pt ← postValueType tab (x.periodType.getD {})
  let cs ← x.commentX.mapM (getString tab)
  let dst ← getString tab x.defaultSampleTypeX
  let doc ← getString tab x.docURLX
  pure { sampleType := sts, defaultSampleType := dst, samples := ss, mappings := ms, locations := ls,
         functions := fs, comments := cs, docURL := doc, dropFrames := df, keepFrames := kf,
         timeNanos := x.timeNanos, durationNanos := x.durationNanos, periodType := some pt,
         period := x.period }

/-- `ParseUncompressed` -/
def parseUncompressed (data : Bytes) : Outcome Profile :=
  if data.length = 0 then .err "empty input file" else do
  let x ← unmarshal data
  postDecode x

/-- `Copy`: panics when unmarshal/postDecode fail. -/
def copy (p : Profile) : Outcome Profile := do
  let b ← serialize p
  match (do let x ← unmarshal b; postDecode x : Outcome Profile) with
  | .ok q => .ok q
  | .err e => .panic ("Copy: panic(err): " ++ e)
  | .panic s => .panic s

/-! ### the only normalisation a round trip may perform (property C01) -/
def Sample.normalize (s : Sample) : Sample :=
  let label := (s.label.map fun (k, vs) => (k, vs.filter (· ≠ []))).filter (fun e => e.2 ≠ [])
  let numKV : List (Str × List (Int × Str)) := s.numLabel.map fun (k, vs) =>
    let us := (s.numUnit.lookup k).getD []
    let us := if us.isEmpty then List.replicate vs.length ([] : Str) else us
    let pairs : List (Int × Str) := (vs.zip us).filter fun (vu : Int × Str) => vu.1 ≠ 0 ∨ vu.2 ≠ []
    (k, pairs)
  let numKV := numKV.filter (fun e => e.2 ≠ [])
  { s with
    label := label
    numLabel := numKV.map fun (k, ps) => (k, ps.map (·.1))
    numUnit := (numKV.map fun (k, ps) => (k, ps.map (·.2))).filter (fun e => e.2.any (· ≠ [])) }

def Profile.normalize (p : Profile) : Profile :=
  { p with samples := p.samples.map Sample.normalize, periodType := some (p.periodType.getD ⟨[], []⟩) }

end Codec
end PV
