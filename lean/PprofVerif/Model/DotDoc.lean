import PprofVerif.Model.Dot
import PprofVerif.Model.Callgrind
/-
C18 — model of the DOCUMENT `graph.ComposeDot` writes (dotgraph.go: start, addLegend, addNode,
addNodelets, numericNodelets, addEdge, finish), at byte level: which statements, in which order,
with which node identifiers.  Attribute values are abstract (`Attr`): how the quoted ones are
assembled and why they are safe between quotes is `Model/DotEmit.lean`.  Core Lean only.
-/
namespace PV
namespace Dot
open PV.Callgrind (dec)

inductive AVal where
  | bare (w : Bytes)       -- fontsize=8, shape=box, weight=100
  | quoted (body : Bytes)  -- label="…"
  deriving Repr, DecidableEq

structure Attr where
  key : Bytes
  val : AVal
  deriving Repr, DecidableEq

def AVal.bytes : AVal → Bytes
  | .bare w => w
  | .quoted b => DQ :: b ++ [DQ]

def AVal.tok : AVal → Tok
  | .bare w => .id w
  | .quoted b => .str b

def AVal.raw : AVal → Bytes
  | .bare w => w
  | .quoted b => b

def SP : UInt8 := 0x20

def Attr.bytes (a : Attr) : Bytes := a.key ++ 0x3d :: a.val.bytes

/-- ` k=v k=v]` — the attributes after the first one and the closing bracket -/
def attrsTail : List Attr → Bytes
  | [] => [0x5d]
  | a :: as => SP :: a.bytes ++ attrsTail as

/-- `[k=v k=v …]` -/
def attrList : List Attr → Bytes
  | [] => [0x5b, 0x5d]
  | a :: as => 0x5b :: a.bytes ++ attrsTail as

inductive Stmt where
  | node (id : Bytes) (attrs : List Attr)          -- `N1 [ … ]`
  | edge (src dst : Bytes) (attrs : List Attr)     -- `N1 -> N2 [ … ]`
  deriving Repr, DecidableEq

def Stmt.bytes : Stmt → Bytes
  | .node i as => i ++ SP :: attrList as ++ [NL]
  | .edge s d as => s ++ SP :: 0x2d :: 0x3e :: SP :: d ++ SP :: attrList as ++ [NL]

def stmtsBytes : List Stmt → Bytes
  | [] => []
  | s :: ss => s.bytes ++ stmtsBytes ss

def bDigraph : Bytes := [0x64,0x69,0x67,0x72,0x61,0x70,0x68]            -- digraph
def bNodeDefaults : Bytes :=                                            -- node [style=filled fillcolor="#f8f8f8"]\n
  [0x6e,0x6f,0x64,0x65,0x20,0x5b,0x73,0x74,0x79,0x6c,0x65,0x3d,0x66,0x69,0x6c,0x6c,0x65,0x64,0x20,
   0x66,0x69,0x6c,0x6c,0x63,0x6f,0x6c,0x6f,0x72,0x3d,0x22,0x23,0x66,0x38,0x66,0x38,0x66,0x38,0x22,0x5d,0x0a]
def bSubgraph : Bytes :=                                                -- subgraph cluster_L {␠
  [0x73,0x75,0x62,0x67,0x72,0x61,0x70,0x68,0x20,0x63,0x6c,0x75,0x73,0x74,0x65,0x72,0x5f,0x4c,0x20,0x7b,0x20]

/-- the legend: `subgraph cluster_L { "id" [attrs] }\n` -/
def legendBytes : Option (Bytes × List Attr) → Bytes
  | none => []
  | some (lid, as) => bSubgraph ++ DQ :: lid ++ DQ :: SP :: attrList as ++ [SP, 0x7d, NL]

/-- the whole document: `digraph "title" {\n`, node defaults, legend, statements, `}\n` -/
def docBytes (title : Bytes) (legend : Option (Bytes × List Attr)) (stmts : List Stmt) : Bytes :=
  bDigraph ++ SP :: DQ :: title ++ DQ :: SP :: 0x7b :: NL :: bNodeDefaults ++ legendBytes legend ++
  stmtsBytes stmts ++ [0x7d, NL]

/-! ### the identifier scheme of ComposeDot -/

/-- `N%d` with nodeID = index+1 -/
def nodeId (i : Nat) : Bytes := 0x4e :: dec (i + 1)
/-- `N%d_%d` -/
def nodeletId (i j : Nat) : Bytes := nodeId i ++ 0x5f :: dec j
/-- `N%s_%d` — numeric nodelet `k` under `source` (a node or a tag nodelet) -/
def numId (source : Bytes) (k : Nat) : Bytes := 0x4e :: source ++ 0x5f :: dec k

/-- a numeric nodelet: index, attributes of its node statement and of the edge leading to it -/
structure GNum where
  k : Nat
  attrs : List Attr
  eattrs : List Attr
  deriving Repr, DecidableEq

/-- a tag nodelet that is printed (weight ≠ 0): its index among the sorted tags -/
structure GNodelet where
  j : Nat
  attrs : List Attr
  eattrs : List Attr
  nums : List GNum
  deriving Repr, DecidableEq

structure GNode where
  attrs : List Attr
  nodelets : List GNodelet
  nums : List GNum      -- numeric tags not attached to a label tag (key "")
  deriving Repr, DecidableEq

structure GEdge where
  src : Nat
  dst : Nat
  attrs : List Attr
  deriving Repr, DecidableEq

def numStmts (source : Bytes) (ns : List GNum) : List Stmt :=
  ns.flatMap fun n => [.node (numId source n.k) n.attrs, .edge source (numId source n.k) n.eattrs]

def nodeletStmts (i : Nat) (ts : List GNodelet) : List Stmt :=
  ts.flatMap fun t =>
    [Stmt.node (nodeletId i t.j) t.attrs, Stmt.edge (nodeId i) (nodeletId i t.j) t.eattrs] ++
    numStmts (nodeletId i t.j) t.nums

/-- addNode + addNodelets for the node with index `i` -/
def nodeStmts (i : Nat) (n : GNode) : List Stmt :=
  Stmt.node (nodeId i) n.attrs :: (nodeletStmts i n.nodelets ++ numStmts (nodeId i) n.nums)

def allNodeStmts : Nat → List GNode → List Stmt
  | _, [] => []
  | i, n :: ns => nodeStmts i n ++ allNodeStmts (i + 1) ns

def edgeStmts (es : List GEdge) : List Stmt :=
  es.map fun e => Stmt.edge (nodeId e.src) (nodeId e.dst) e.attrs

structure G where
  title : Bytes
  legend : Option (Bytes × List Attr)
  nodes : List GNode
  edges : List GEdge
  deriving Repr, DecidableEq

/-- the statements of ComposeDot in order: per node its statement and nodelets, then all edges -/
def G.stmts (g : G) : List Stmt := allNodeStmts 0 g.nodes ++ edgeStmts g.edges

def G.bytes (g : G) : Bytes := docBytes g.title g.legend g.stmts

end Dot
end PV
