import PprofVerif.Model.Stacks
/-
C17: selecting the sample value by NAME — model of `Profile.SampleIndexByName` (profile/index.go)
as the driver uses it for `-sample_index` / the `si=` URL parameter (`sampleFormat`):
  ""        → the type named by DefaultSampleType (first such), else the LAST type;
  a number  → that index (strconv.Atoi: optional sign, decimal digits, int64 range), error if outside;
  otherwise → the FIRST type whose name is byte-equal to the text, or to the text without a
              leading "inuse_" (legacy); error if none.
Names are compared with exact (bytewise) equality.  Core Lean only.
-/
namespace PV.Stacks
open PV

def digitVal (b : UInt8) : Option Nat := if 48 ≤ b ∧ b ≤ 57 then some (b.toNat - 48) else none

def digitsVal : List UInt8 → Nat → Option Nat
  | [], acc => some acc
  | b :: r, acc => match digitVal b with
    | some d => digitsVal r (acc * 10 + d)
    | none => none

/-- `strconv.Atoi` on a 64-bit platform: `none` is "err != nil". -/
def atoi (s : Str) : Option Int :=
  let body (neg : Bool) (ds : List UInt8) : Option Int :=
    if ds = [] then none else
    match digitsVal ds 0 with
    | none => none
    | some n =>
      if neg then (if n ≤ 9223372036854775808 then some (-(n : Int)) else none)
      else (if n ≤ 9223372036854775807 then some (n : Int) else none)
  match s with
  | [] => none
  | 43 :: r => body false r      -- '+'
  | 45 :: r => body true r       -- '-'
  | ds => body false ds

/-- "inuse_" -/
def inusePrefix : Str := [105, 110, 117, 115, 101, 95]

/-- `strings.TrimPrefix(s, "inuse_")` -/
def trimInuse (s : Str) : Str :=
  if inusePrefix.isPrefixOf s then s.drop inusePrefix.length else s

/-- index of the first sample type accepted by `q`, counting from `i`. -/
def firstType (q : Str → Bool) : List ValueType → Nat → Option Nat
  | [], _ => none
  | t :: r, i => if q t.typ then some i else firstType q r (i+1)

def selectIndex (p : Profile) (sel : Str) : Outcome Nat :=
  if p.sampleType = [] then .err "profile has no samples" else
  if sel = [] then
    match (if p.defaultSampleType = [] then none
           else firstType (fun t => t = p.defaultSampleType) p.sampleType 0) with
    | some i => .ok i
    | none => .ok (p.sampleType.length - 1)
  else
    match atoi sel with
    | some i =>
      if i < 0 ∨ i ≥ p.sampleType.length then .err "sample_index outside the range" else .ok i.toNat
    | none =>
      match firstType (fun t => t = sel || t = trimInuse sel) p.sampleType 0 with
      | some i => .ok i
      | none => .err "sample_index must be one of the sample types"

/-- `-sample_index=<sel>` / `si=<sel>`, then `Stacks()`. -/
def stacksBySel (o : Opts) (p : Profile) (sel : Str) : Outcome StackSet := do
  let i ← selectIndex p sel
  stacks o p i

end PV.Stacks
