import PprofVerif.Model.Profile
/-
Executable model of profile/prune.go (`simplifyFunc`, `Prune`, `RemoveUninteresting`, `PruneFrom`)
on the id-based profile of `Model/Profile.lean`.  Core Lean only.

* A compiled `*regexp.Regexp` is a predicate parameter `Rx := Str → Bool` applied to the
  SIMPLIFIED function name; `bracketRx` (a fixed alternation of three literals) is modelled by an
  explicit scanner.
* Go keys `prune` / `pruneBeneath` by `Location.ID`; with unique location ids (CheckValid) the
  entry of an id is what was computed for the table entry with that id (`findLocation`).
* `Prune` and `PruneFrom` are modelled AS THEY ARE, including the three recorded findings
  (C11/prune/H-violated/partial-first-user-location, C11/prune/H-violated/top-line-match,
  C11/prune_from/inlined-location-above-lowest-match).  `scanRepaired` is the per-sample loop with
  the one-line change `if !foundUser` → `if !foundUser && prune[id]` that removes the first family;
  it is not proposed as a fix because golden files of internal/driver (TestParse, heap profile
  whose root location is partially matched) encode the present behaviour
  (fixes/needs-golden-update/C11-prune-partial-first-user-location.patch).
-/
namespace PV.Prune

abbrev Rx := Str → Bool

/-! ### simplifyFunc -/
/-- "(anonymous namespace)" as bytes (a literal, so that proofs can compute with it). -/
def anonNs : Str :=
  [40, 97, 110, 111, 110, 121, 109, 111, 117, 115, 32, 110, 97, 109, 101, 115, 112, 97, 99, 101, 41]
/-- "operator()" as bytes. -/
def operatorCall : Str := [111, 112, 101, 114, 97, 116, 111, 114, 40, 41]

def hasPrefix : Str → Str → Bool
  | [], _ => true
  | _ :: _, [] => false
  | a :: as, b :: bs => a == b && hasPrefix as bs

/-- trim at the first `(` that is not part of a reserved name; `skip` = bytes of a reserved name
still to be copied.  (`bracketRx.FindAllStringSubmatchIndex` + the loop of `simplifyFunc`.) -/
def cutAtParen : Nat → Str → Str
  | _, [] => []
  | skip + 1, b :: r => b :: cutAtParen skip r
  | 0, b :: r =>
    if hasPrefix anonNs (b :: r) then b :: cutAtParen (anonNs.length - 1) r
    else if hasPrefix operatorCall (b :: r) then b :: cutAtParen (operatorCall.length - 1) r
    else if b == 40 then []
    else b :: cutAtParen 0 r

/-- `strings.TrimPrefix(f, ".")` -/
def trimDot : Str → Str
  | 46 :: r => r
  | f => f

/-- `simplifyFunc` -/
def simplifyFunc (f : Str) : Str := cutAtParen 0 (trimDot f)

/-! ### Prune -/

/-- `pruneFromHere`: the simplified name fully matches drop and not keep. -/
def pruneName (drop : Rx) (keep : Option Rx) (name : Str) : Bool :=
  let s := simplifyFunc name
  drop s && !(match keep with | some k => k s | none => false)

/-- `fn := loc.Line[i].Function; fn != nil && fn.Name != "" && pruneFromHere(fn.Name)` -/
def lineMatches (p : Profile) (q : Str → Bool) (ln : Line) : Bool :=
  match p.findFunction ln.functionID with
  | some f => !f.name.isEmpty && q f.name
  | none => false

/-- the part of a (leaf-first) list strictly after its LAST element satisfying `q`
(`loc.Line[i+1:]` for the root-most matching `i`); `none` when no element does. -/
def dropThroughLast {α} (q : α → Bool) : List α → Option (List α)
  | [] => none
  | a :: r =>
    match dropThroughLast q r with
    | some s => some s
    | none => if q a then some r else none

inductive LocClass where
  | user      -- no matching line
  | whole     -- prune[id]: the root-most line matches
  | beneath   -- pruneBeneath[id] only: an inner line matches, the root side stays
  deriving DecidableEq, Repr

def classify (p : Profile) (q : Str → Bool) (l : Location) : LocClass :=
  match dropThroughLast (lineMatches p q) l.lines with
  | none => .user
  | some [] => .whole
  | some (_ :: _) => .beneath

/-- the location after the first loop of `Prune`. -/
def pruneLoc (p : Profile) (q : Str → Bool) (l : Location) : Location :=
  match dropThroughLast (lineMatches p q) l.lines with
  | some (a :: r) => { l with lines := a :: r }
  | _ => l

def classOf (p : Profile) (q : Str → Bool) (id : Nat) : LocClass :=
  match p.findLocation id with
  | some l => classify p q l
  | none => .user

/-- the per-sample loop, on the location ids in ROOT-first order; returns the ids that stay
(root first).  `fu` = foundUser. -/
def scan (cls : Nat → LocClass) : List Nat → Bool → List Nat
  | [], _ => []
  | id :: r, fu =>
    match cls id with
    | .user => id :: scan cls r true
    | .whole => if fu then [] else id :: scan cls r fu
    | .beneath => if fu then [id] else id :: scan cls r fu

/-- the loop with `if !foundUser && prune[id] { continue }` (NOT the code; see the header). -/
def scanRepaired (cls : Nat → LocClass) : List Nat → Bool → List Nat
  | [], _ => []
  | id :: r, fu =>
    match cls id with
    | .user => id :: scanRepaired cls r true
    | .whole => if fu then [] else id :: scanRepaired cls r fu
    | .beneath => [id]

def pruneSample (p : Profile) (q : Str → Bool) (s : Sample) : Sample :=
  { s with locationIDs := (scan (classOf p q) s.locationIDs.reverse false).reverse }

/-- `(*Profile).Prune(dropRx, keepRx)` with `q = pruneName drop keep`. -/
def pruneWith (p : Profile) (q : Str → Bool) : Profile :=
  { p with
    locations := p.locations.map (pruneLoc p q)
    samples := p.samples.map (pruneSample p q) }

def prune (p : Profile) (drop : Rx) (keep : Option Rx) : Profile := pruneWith p (pruneName drop keep)

def pruneRepaired (p : Profile) (drop : Rx) (keep : Option Rx) : Profile :=
  let q := pruneName drop keep
  { p with
    locations := p.locations.map (pruneLoc p q)
    samples := p.samples.map (fun s =>
      { s with locationIDs := (scanRepaired (classOf p q) s.locationIDs.reverse false).reverse }) }

/-! ### RemoveUninteresting -/
def anchored (e : Str) : Str := Str.ofString "^(" ++ e ++ Str.ofString ")$"

/-- `(*Profile).RemoveUninteresting`; `compile` = `regexp.Compile` on the anchored text. -/
def removeUninteresting (compile : Str → Option Rx) (p : Profile) : Outcome Profile :=
  if p.dropFrames.isEmpty then .ok p else
  match compile (anchored p.dropFrames) with
  | none => .err "failed to compile regexp"
  | some drop =>
    if p.keepFrames.isEmpty then .ok (prune p drop none) else
    match compile (anchored p.keepFrames) with
    | none => .err "failed to compile regexp"
    | some keep => .ok (prune p drop (some keep))

/-! ### PruneFrom -/

/-- from the FIRST element satisfying `q` on (`l[i:]`); `none` when no element does. -/
def fromFirst {α} (q : α → Bool) : List α → Option (List α)
  | [] => none
  | a :: r => if q a then some (a :: r) else fromFirst q r

def pruneFromLoc (p : Profile) (q : Str → Bool) (l : Location) : Location × Bool :=
  match fromFirst (lineMatches p q) l.lines with
  | some ls => ({ l with lines := ls }, true)
  | none => (l, false)

def pruneFromId (p : Profile) (q : Str → Bool) (id : Nat) : Bool :=
  match p.findLocation id with
  | some l => (pruneFromLoc p q l).2
  | none => false

def pruneFromSample (p : Profile) (q : Str → Bool) (s : Sample) : Sample :=
  match fromFirst (pruneFromId p q) s.locationIDs with
  | some ids => { s with locationIDs := ids }
  | none => s

/-- `(*Profile).PruneFrom(dropRx)` with `q = fun n => drop (simplifyFunc n)`. -/
def pruneFromWith (p : Profile) (q : Str → Bool) : Profile :=
  { p with
    locations := p.locations.map (fun l => (pruneFromLoc p q l).1)
    samples := p.samples.map (pruneFromSample p q) }

def pruneFrom (p : Profile) (drop : Rx) : Profile := pruneFromWith p (fun n => drop (simplifyFunc n))

end PV.Prune
